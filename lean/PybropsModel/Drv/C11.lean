import PybropsModel.J
import PybropsModel.Model.GMap
import PybropsModel.Model.GMapSpec
open Lean

/-
Driver ops of C11 (genetic maps and map functions).
JSON conventions beyond J.lean: a float that may be non-finite is a rational, "inf" or "nan";
a position that may be missing is a rational, `null` or "nan".
-/
namespace Drv.C11
open GMap GMap.Spec

/-! ### Float ⇄ Rat (exact) -/

/-- exact value of a finite Float -/
def f2r (f : Float) : Rat :=
  let (m, e) := f.frExp
  let mi : Int := (m.scaleB 53).toInt64.toInt
  let ex := e - 53
  if ex ≥ 0 then ((mi * (2 : Int) ^ ex.toNat : Int) : Rat) else mkRat mi (2 ^ (-ex).toNat)

/-- nearest Float of a rational (exact for the dyadic rationals the harness sends) -/
def r2f (q : Rat) : Float :=
  let k := q.den.log2
  if q.den == 2 ^ k then (Float.ofInt q.num).scaleB (-(k : Int)) else Float.ofInt q.num / Float.ofNat q.den

def f2d (f : Float) : GDist Rat :=
  if f.isNaN then .nan else if f.isInf then (if f > 0 then .inf else .nan) else .fin (f2r f)

def dF2R : GDist Float → GDist Rat
  | .fin f => f2d f
  | .inf => .inf
  | .nan => .nan

/-! ### codec -/
def dist (j : Json) : J.R (GDist Rat) :=
  match j with
  | .str "inf" => .ok .inf
  | .str "-inf" => .ok .nan      -- float overflow of a map function at a hugely negative distance:
                                 -- outside `GDist`; the oracle treats it like the model does (`f2d`)
  | .str "nan" => .ok .nan
  | .null => .ok .nan
  | _ => GDist.fin <$> J.rat j

def ofDist : GDist Rat → Json
  | .fin a => J.ofRat a
  | .inf => .str "inf"
  | .nan => .str "nan"

/-- encoder for values computed in Float: keeps `-inf` apart from NaN so that the comparison with numpy
    is literal -/
def ofDistF : GDist Float → Json
  | .fin f => if f.isInf && f < 0 then .str "-inf" else ofDist (f2d f)
  | .inf => .str "inf"
  | .nan => .str "nan"

def pos (j : Json) : J.R (Option Rat) :=
  match j with
  | .str "nan" => .ok none
  | .null => .ok none
  | _ => some <$> J.rat j

def ofPos : Option Rat → Json
  | some a => J.ofRat a
  | none => .str "nan"

def row (j : Json) : J.R (Row Rat Int) := do
  match j with
  | .arr a =>
    if a.size < 3 then J.fail "row needs [chr, phy, gen, tag?]" else
    let c ← J.int a[0]!
    let p ← J.rat a[1]!
    let g ← J.rat a[2]!
    let t ← if a.size > 3 then J.int a[3]! else pure 0
    pure ⟨c, p, g, t⟩
  | _ => J.fail "row: not an array"

def ofRow (r : Row Rat Int) : Json := .arr #[J.ofInt r.chr, J.ofRat r.phy, J.ofRat r.gen, J.ofInt r.tag]

def fnOf (j : Json) : J.R MapKind := do
  match ← J.field j "fn" J.str with
  | "haldane" => pure .haldane
  | "kosambi" => pure .kosambi
  | s => J.fail s!"unknown map function {s}"

def mapF (h : MapKind) : Float → Float := h.fn
def invF (h : MapKind) : Float → GDist Float := h.inv

/-! ### model ops -/

/-- mapfn / invmapfn evaluated in Float on exactly the doubles the implementation received -/
def opMapfn : J.Op := fun j => do
  let h ← fnOf j
  let d ← J.field j "d" (J.list dist)
  let r : List (GDist Float) := d.map fun x => mapD (mapF h) (x.map r2f)
  let inv : List (GDist Float) := r.map (invD (invF h))
  -- absolute tolerance of the round trip per distance (null = not resolvable), for the comparator
  let tol := d.map fun x => match x with
    | .fin a => (invTol h.kappa a).map (·.abs_)
    | _ => some 0
  pure <| J.obj [("r", J.ofList ofDistF r), ("inv", J.ofList ofDistF inv), ("invtol", J.ofList (J.ofOpt J.ofRat) tol)]

def opSpecMapfn : J.Op := fun j => do
  let d ← J.field j "d" (J.list dist)
  let r ← J.field j "r" (J.list dist)
  let dinv ← J.field j "dinv" (J.list dist)
  let h ← fnOf j
  let (ok, msg) := specMapfn h.kappa d r dinv
  -- the oracle applied to the model's own output (must hold: guards against an over-strict oracle)
  let rm : List (GDist Float) := d.map fun x => mapD (mapF h) (x.map r2f)
  let im : List (GDist Float) := rm.map (invD (invF h))
  let self := if d.all (fun x => leD (.fin 0) x) then (specMapfn h.kappa d (rm.map dF2R) (im.map dF2R)).1 else true
  pure <| J.obj [("ok", J.ofBool ok), ("detail", J.ofStr msg), ("self", J.ofBool self)]

def opConstruct : J.Op := fun j => do
  let rows ← J.field j "rows" (J.list row)
  let s := construct rows
  pure <| J.obj [("rows", J.ofList ofRow s), ("rows3", J.ofList ofRow (lexsort3 rows)),
    ("meta", J.ofList (fun (m : Int × Nat × Nat × Nat) =>
        Json.arr #[J.ofInt m.1, J.ofNat m.2.1, J.ofNat m.2.2.1, J.ofNat m.2.2.2]) (groupMeta s)),
    ("congruence", J.ofList J.ofBool (congruence s))]

def opInterp : J.Op := fun j => do
  let rows ← J.field j "rows" (J.list row)
  let qchr ← J.field j "qchr" (J.list J.int)
  let qphy ← J.field j "qphy" (J.list J.rat)
  pure <| J.obj [("out", J.ofList ofPos (interpGenpos rows qchr qphy)),
                 ("outS", J.ofList ofPos (interpGenposS rows qchr qphy))]

def kindOf (s : String) : J.R SplineKind :=
  match s with
  | "linear" => pure .linear
  | "slinear" => pure .slinear
  | "previous" => pure .previous
  | "next" => pure .next
  | "zero" => pure .zero
  | "nearest" => pure .nearest
  | "nearest-up" => pure .nearestUp
  | s => J.fail s!"spline kind not modelled: {s}"

def opInterpK : J.Op := fun j => do
  let kind ← kindOf (← J.field j "spline_kind" J.str)
  let rows ← J.field j "rows" (J.list row)
  let qchr ← J.field j "qchr" (J.list J.int)
  let qphy ← J.field j "qphy" (J.list J.rat)
  pure <| J.obj [("out", J.ofList ofPos (interpGenposK kind rows qchr qphy))]

def ofMetaL (mt : Meta) : Json :=
  J.ofList (fun (m : Int × Nat × Nat × Nat) =>
    Json.arr #[J.ofInt m.1, J.ofNat m.2.1, J.ofNat m.2.2.1, J.ofNat m.2.2.2]) mt

def ofMeta (rows : List (Row Rat Int)) : Json := ofMetaL (groupMeta rows)

def errStr : Err → String
  | .index => "index"
  | .value => "value"

/-- a history of calls on one map object (editing methods, attribute re-assignment, `interp_gmap` which
    replaces the object by the derived map); one snapshot per call.  Everything that reads the stored
    metadata runs the literal loops (`…Lit`), so a call that raises on the real object raises here. -/
def opEdit : J.Op := fun j => do
  let rows ← J.field j "rows" (J.list row)
  let ag ← J.fieldD j "auto_group" J.bool true
  let asp ← J.fieldD j "auto_spline" J.bool true
  let ops ← J.field j "ops" (J.list pure)
  let mut m : MapObj Rat Int := MapObj.new rows ag asp
  let mut snaps : Array Json := #[]
  for o in ops do
    let name ← J.field o "op" J.str
    let mut out : Json := .null
    let mut raised : Json := .null
    match name with
    | "remove" => m := m.remove (← J.field o "idx" (J.list J.nat))
    | "select" => m := m.select (← J.field o "idx" (J.list J.nat))
    | "select_mask" => m := m.selectMask (← J.field o "mask" (J.list J.bool))
    | "rd" =>
      match m.removeDiscrepanciesLit with
      | .ok m' => m := m'
      | .error e => raised := .str (errStr e)
    | "group" => m := m.group
    | "ungroup" => m := m.ungroup
    | "sort" =>
      -- `keys` absent: the default keys; present: the key arrays as handed to `sort(keys)` (last key primary)
      match ← J.fieldOpt o "keys" (J.list (J.list J.rat)) with
      | none => m := m.sort
      | some keys => m := m.sortKeys keys
    | "reorder" => m := m.reorder (← J.field o "idx" (J.list J.nat))
    | "build" => m := m.buildSpline
    | "copy" => pure ()
    | "assign" => m := m.assign (← J.field o "rows" (J.list row))
    | "interp_gmap" =>
      let qchr ← J.field o "qchr" (J.list J.int)
      let qphy ← J.field o "qphy" (J.list J.rat)
      let tags ← J.field o "tags" (J.list J.int)
      match m.interpGmap qchr qphy tags with
      | .error e => raised := .str (errStr e)
      | .ok none => J.fail "interp_gmap: no spline or a NaN position (outside the model)"
      | .ok (some (d, _)) =>
        -- the derived positions are float results: where the implementation's double is within the float tolerance
        -- of the model's exact value the history continues on THAT double (a tie of the exact values may be split
        -- by an ulp in binary64, and `congruence` / `remove_discrepancies` of the derived map decide on the doubles)
        let ig ← J.fieldOpt o "impl_gen" (J.list J.rat)
        m := match ig with
          | some gs =>
            if gs.length == d.rows.length then
              { d with rows := (d.rows.zip gs).map fun (r, g) => if closeR Tol.std r.gen g then { r with gen := g } else r }
            else d
          | none => d
    | "prune" =>
      -- positions are handed to the loop as the doubles python holds; the decisions are float decisions
      let g := m.ensureGrouped
      if g.gmeta != some (groupMeta g.rows) then J.fail "prune on metadata that does not describe the arrays: not modelled" else
      let nt ← J.fieldOpt o "nt" J.rat
      let mm ← J.fieldOpt o "M" J.rat
      let rowsA := g.rows.toArray
      let chr : Nat → Int := fun i => (rowsA[i]?.map (·.chr)).getD 0
      let phy : Nat → Float := fun i => (rowsA[i]?.map (fun r => r2f r.phy)).getD 0
      let gen : Nat → Float := fun i => (rowsA[i]?.map (fun r => r2f r.gen)).getD 0
      let runs := (groupMeta g.rows).map fun r => (r.2.1, r.2.2.1)
      match pruneIndices chr phy gen runs (nt.map r2f) (mm.map r2f) with
      | none => J.fail "prune: nt and M both None"
      | some idx =>
        m := g.select idx
        out := J.ofList J.ofNat idx
    | "interp" =>
      let qchr ← J.field o "qchr" (J.list J.int)
      let qphy ← J.field o "qphy" (J.list J.rat)
      match m.interpGenposLit qchr qphy with
      | .error e => raised := .str (errStr e)
      | .ok (r, m') =>
        m := m'
        out := J.ofOpt (J.ofList ofPos) r
    | s => J.fail s!"unknown edit op {s}"
    let cong : Json := match m.congruenceLit with
      | .ok (c, _) => J.ofBool (c.all id)
      | .error e => .str (errStr e)
    snaps := snaps.push <| J.obj [("rows", J.ofList ofRow m.rows), ("grouped", J.ofBool m.grouped),
      ("meta", match m.gmeta with | some mt => ofMetaL mt | none => .null),
      ("meta_ok", J.ofBool (m.gmeta == none || m.gmeta == some (groupMeta m.rows))),
      ("congruent", cong), ("out", out), ("raised", raised)]
  pure (.arr snaps)

def optNat (j : Json) (k : String) : J.R (Option Nat) := J.fieldOpt j k J.nat

def opGdist : J.Op := fun j => do
  let chr ← J.field j "chr" (J.list J.int)
  let gen ← J.field j "gen" (J.list pos)
  let ast ← optNat j "ast"
  let asp ← optNat j "asp"
  let rst ← optNat j "rst"
  let rsp ← optNat j "rsp"
  let cst ← optNat j "cst"
  let csp ← optNat j "csp"
  pure <| J.obj [("d1", J.ofList ofDist (gdist1g chr gen ast asp)),
                 ("d1lit", J.ofList (J.ofOpt ofDist) (gdist1gLit chr gen ast asp)),
                 ("d2", J.ofMat ofDist (gdist2g chr gen rst rsp cst csp))]

def opGdistP : J.Op := fun j => do
  let rows ← J.field j "rows" (J.list row)
  let qchr ← J.field j "qchr" (J.list J.int)
  let qphy ← J.field j "qphy" (J.list J.rat)
  let ast ← optNat j "ast"
  let asp ← optNat j "asp"
  let rst ← optNat j "rst"
  let rsp ← optNat j "rsp"
  let cst ← optNat j "cst"
  let csp ← optNat j "csp"
  pure <| J.obj [("d1", J.ofList ofDist (gdist1p rows qchr qphy ast asp)),
                 ("d2", J.ofMat ofDist (gdist2p rows qchr qphy rst rsp cst csp))]

def opXoprob : J.Op := fun j => do
  let h ← fnOf j
  let rows ← J.field j "rows" (J.list row)
  let qchr ← J.field j "qchr" (J.list J.int)
  let qphy ← J.field j "qphy" (J.list J.rat)
  let (g, xo) := interpXoprob r2f (mapF h) rows qchr qphy
  pure <| J.obj [("genpos", J.ofList ofPos g), ("xoprob", J.ofList ofDistF xo)]

/-- rprob1p / rprob2p (= mapfn ∘ gdist1p / gdist2p) and rprob1g / rprob2g on the interpolated positions -/
def opRprob : J.Op := fun j => do
  let h ← fnOf j
  let rows ← J.field j "rows" (J.list row)
  let qchr ← J.field j "qchr" (J.list J.int)
  let qphy ← J.field j "qphy" (J.list J.rat)
  let m : GDist Rat → GDist Float := fun d => mapD (mapF h) (d.map r2f)
  pure <| J.obj [("r1", J.ofList ofDistF ((gdist1p rows qchr qphy).map m)),
                 ("r2", J.ofMat ofDistF ((gdist2p rows qchr qphy).map (·.map m)))]

/-! ### Spec oracles (evaluated on the implementation's outputs) -/

def opSpecGdist : J.Op := fun j => do
  let chr ← J.field j "chr" (J.list J.int)
  let gen ← J.field j "gen" (J.list pos)
  let d1 ← J.fieldOpt j "d1" (J.list dist)
  let d2 ← J.field j "d2" (J.mat dist)
  let (ok, msg) := specGdist chr gen d1 d2
  let self := (specGdist chr gen (d1.map fun _ => gdist1g chr gen) (gdist2g chr gen)).1
  pure <| J.obj [("ok", J.ofBool ok), ("detail", J.ofStr msg), ("self", J.ofBool self)]

def opSpecInterp : J.Op := fun j => do
  let rows ← J.field j "rows" (J.list row)
  let qchr ← J.field j "qchr" (J.list J.int)
  let qphy ← J.field j "qphy" (J.list J.rat)
  let out ← J.field j "out" (J.list pos)
  let out2 ← J.field j "out2" (J.list pos)
  let linear ← J.fieldD j "linear" J.bool true
  let oneSided ← J.fieldD j "one_sided_missing" J.bool false
  let (ok, msg) := if linear then specInterp rows qchr qphy out out2
    else specInterpAnyKind rows qchr qphy out out2 oneSided
  let m := interpGenpos rows qchr qphy
  let self := (specInterp rows qchr qphy m m).1
  pure <| J.obj [("ok", J.ofBool ok), ("detail", J.ofStr msg), ("self", J.ofBool self)]

/-- crossover-probability clause (`Spec.specXoprob`) instantiated at Float -/
def specXoprobF (h : MapKind) (rows : List (Row Rat Int)) (qchr : List Int) (qphy : List Rat)
    (genpos : List (Option Rat)) (xoprob : List (GDist Rat)) : Bool × String :=
  specXoprob r2f (mapF h) dF2R rows qchr qphy genpos xoprob

def opSpecXoprob : J.Op := fun j => do
  let h ← fnOf j
  let rows ← J.field j "rows" (J.list row)
  let qchr ← J.field j "qchr" (J.list J.int)
  let qphy ← J.field j "qphy" (J.list J.rat)
  let genpos ← J.field j "genpos" (J.list pos)
  let xoprob ← J.field j "xoprob" (J.list dist)
  let (ok, msg) := specXoprobF h rows qchr qphy genpos xoprob
  let (g, xo) := interpXoprob r2f (mapF h) rows qchr qphy
  let self := (specXoprobF h rows qchr qphy g (xo.map dF2R)).1
  pure <| J.obj [("ok", J.ofBool ok), ("detail", J.ofStr msg), ("self", J.ofBool self)]

def ops : List (String × J.Op) :=
  [("c11.mapfn", opMapfn), ("c11.spec_mapfn", opSpecMapfn), ("c11.construct", opConstruct),
   ("c11.interp", opInterp), ("c11.gdist", opGdist), ("c11.gdistp", opGdistP), ("c11.xoprob", opXoprob),
   ("c11.rprob", opRprob), ("c11.edit", opEdit), ("c11.interpk", opInterpK),
   ("c11.spec_gdist", opSpecGdist), ("c11.spec_interp", opSpecInterp), ("c11.spec_xoprob", opSpecXoprob)]

end Drv.C11
