import PybropsModel.J
import PybropsModel.Model.Haplo
import PybropsModel.Model.HaploSpec
open Lean

/-!
Driver ops of C18 (haplotype blocks, optimal haploid / population values).

  c18.nblk      nhaploblk genpos stix spix                → nblk | error tag, tie margin of the greedy loop
  c18.haplobin  nblk genpos stix spix [hbs]               → labels with exact `linspace`, labels with the given boundaries
  c18.bounds    hbin                                      → hstix hspix hlen | error tag
  c18.model     nhaploblk genpos stix spix geno u …       → the whole pipeline: blocks, hmat, xmap, ohvmat, latent functions
  c18.spec      inputs + the IMPLEMENTATION's outputs     → the property's decidable Spec, clause by clause
-/
namespace Drv.C18
open Haplo

abbrev Q := Rat

def errJ (e : String) : Json := J.obj [("error", J.ofStr e)]

def ofOptNat : Option Nat → Json := J.ofOpt J.ofNat
def ofOptRat : Option Q → Json := J.ofOpt J.ofRat

/-- smallest gap between the minimum of `diff` and a competitor that is not bit-identical to it,
    over all iterations of the greedy loop (0 ⇒ an exact tie between different chromosomes: the
    float computation may break it either way).  `lens = some …` is the loop of the tree (full
    chromosomes do not compete); `none` is the loop before the repair of D10. -/
def greedyMargin (gl ideal : List Q) (lens : Option (List Nat)) : Nat → List Nat → Q → Q
  | 0, _, m => m
  | k + 1, nb, m =>
    let diff := List.zipWith (fun (a : Nat) b => (a : Q) - b) nb ideal
    let full : List Bool := match lens with
      | none => nb.map (fun _ => false)
      | some ls => if (fullMask nb ls).all id then nb.map (fun _ => false) else fullMask nb ls
    let ix := match lens with
      | none => argmin diff
      | some ls => pickCap diff nb ls
    let d0 := diff.getD ix 0
    let g0 := gl.getD ix 0
    let gaps := ((List.zip diff gl).zip full).zipIdx.filterMap (fun p =>
      if p.2 == ix || p.1.2 then none
      else if p.1.1.1 == d0 && p.1.1.2 == g0 then none
      else some (p.1.1.1 - d0))
    let m' := gaps.foldl (fun a b => if b < a then b else a) m
    greedyMargin gl ideal lens k (incrAt ix nb) m'

/-! ### binary64 execution of the layout part of the model
The same definitions (`nhaploblkChrom`, `haplobin`, `blocksOf`; with `"prerepair": true` in the request their `…Prerepair`
versions, the code before the repair of D10) are run at
`Float`: Lean's `Float` is IEEE binary64, the operations and their order are those of the numpy code
(`genlen.sum()` left to right for < 8 chromosomes, `(n / S) * g`, `nb - ideal`, `j * step + start`), so labels
and block counts are reproduced bit for bit, ties and boundary markers included. -/
instance : NatCast Float := ⟨Float.ofNat⟩

/-- exact for the values the harness sends (binary64 numbers written as fractions) -/
def toF (q : Q) : Float := Float.ofInt q.num / Float.ofNat q.den

def fchroms (genpos : List Q) (stix spix : List Nat) : List (List Float) :=
  chromSlices (genpos.map toF) stix spix

def readLayout (j : Json) : J.R (List Q × List Nat × List Nat) := do
  let genpos ← J.field j "genpos" (J.list J.rat)
  let stix ← J.field j "stix" (J.list J.nat)
  let spix ← J.field j "spix" (J.list J.nat)
  pure (genpos, stix, spix)

def opNblk : J.Op := fun j => do
  let n ← J.field j "nhaploblk" J.nat
  let (genpos, stix, spix) ← readLayout j
  let prerepair ← J.fieldD j "prerepair" J.bool false
  let patched := !prerepair
  let chroms := chromSlices genpos stix spix
  let gl := genlen chroms
  match (if patched then nhaploblkChrom n chroms else nhaploblkChromPrerepair n chroms) with
  | .error e => pure (errJ e)
  | .ok nb =>
    let lens := if patched then some (chroms.map List.length) else none
    let margin : Q := if Np.sum gl = 0 then 1 else
      greedyMargin gl (ideal n gl) lens (n - gl.length) (List.replicate gl.length 1) 1000000
    let nbf := match (if patched then nhaploblkChrom n (fchroms genpos stix spix)
                      else nhaploblkChromPrerepair n (fchroms genpos stix spix)) with
      | .ok v => J.ofList J.ofNat v
      | .error e => errJ e
    pure <| J.obj [("nblk", J.ofList J.ofNat nb), ("margin", J.ofRat margin), ("nblk_f", nbf)]

def opHaplobin : J.Op := fun j => do
  let nblk ← J.field j "nblk" (J.list J.nat)
  let (genpos, stix, spix) ← readLayout j
  let hbs ← J.fieldOpt j "hbs" (J.mat J.rat)
  let prerepair ← J.fieldD j "prerepair" J.bool false
  let patched := !prerepair
  let chroms := chromSlices genpos stix spix
  let exact := if patched then haplobin nblk chroms else haplobinPrerepair nblk chroms
  let given := hbs.map (fun h => if patched then haplobinHB h chroms 0 else haplobinHBPrerepair h chroms 0)
  let fc := fchroms genpos stix spix
  let flt := if patched then haplobin nblk fc else haplobinPrerepair nblk fc
  pure <| J.obj [("hbin", J.ofList ofOptNat exact), ("hbin_f", J.ofList ofOptNat flt),
                 ("hbin_hb", J.ofOpt (J.ofList ofOptNat) given),
                 ("hbs", J.ofMat J.ofRat (hbounds nblk chroms))]

def boundsJ (r : List Nat × List Nat × List Nat) : Json :=
  J.obj [("hstix", J.ofList J.ofNat r.1), ("hspix", J.ofList J.ofNat r.2.1), ("hlen", J.ofList J.ofNat r.2.2)]

def opBounds : J.Op := fun j => do
  let hbin ← J.field j "hbin" (J.list J.int)
  match haplobinBounds hbin with
  | .error e => pure (errJ e)
  | .ok r => pure (boundsJ r)

/-- `[m][n][t][b]` → numpy's `[m][n][b][t]` -/
def toNumpyLayout {γ} (H : List (List (List (List γ)))) : List (List (List (List γ))) :=
  H.map (fun Hm => Hm.map Np.transpose)

def ucolsOf (u : List (List Q)) : List (List Q) := Np.transpose u

def opModel : J.Op := fun j => do
  let n ← J.field j "nhaploblk" J.nat
  let (genpos, stix, spix) ← readLayout j
  let guard ← J.fieldD j "guard" J.bool true
  let geno ← J.field j "geno" (J.list (J.mat J.rat))
  let u ← J.field j "u" (J.mat J.rat)
  let nparent ← J.fieldD j "nparent" J.nat 2
  let unique ← J.fieldD j "unique" J.bool true
  let xsel ← J.fieldD j "x_ohv" (J.list J.nat) []
  let xpop ← J.fieldD j "x_pop" (J.list J.nat) []
  let nbest ← J.fieldD j "nbest" J.nat 1
  let prerepair ← J.fieldD j "prerepair" J.bool false
  let patched := !prerepair
  -- chunk sizes for the transcribed `_calc_ohvmat` loop (`null` = Python's None), weights of the real /
  -- integer / binary encodings
  let mems ← J.fieldD j "mems" (J.list (J.opt J.nat)) []
  let xw ← J.fieldOpt j "xw" (J.list J.rat)
  -- layout (apportionment, labels, blocks) in binary64, values in exact rationals
  let exactLayout ← J.fieldD j "exact_layout" J.bool false
  let chroms := chromSlices genpos stix spix
  let fc := fchroms genpos stix spix
  match (if exactLayout then (if patched then blocksOf n chroms else blocksOfPrerepair n chroms guard)
         else (if patched then blocksOf n fc else blocksOfPrerepair n fc guard)) with
  | .error e => pure (errJ e)
  | .ok (nblk, hbin, bnds) =>
    let ucols := ucolsOf u
    -- the haplotype matrix through the literally transcribed fill loop (= `haplomat`, `C18.fill_loop_eq_closed_form`)
    match haplomatLoop n bnds geno ucols with
    | .error e => pure (errJ e)
    | .ok H =>
    let ntaxa := (geno.headD []).length
    let xm := xmap ntaxa nparent unique
    let ntrait := ucols.length
    let perTrait := (List.range ntrait).map (fun t => traitValues H t)
    -- ohvmat[s][t]
    let ohvmat : List (List (Option Q)) := xm.map (fun par => perTrait.map (fun oV => oV.map (fun V => ohv V n par)))
    let ohvLat : List (Option Q) := (List.range ntrait).map (fun t =>
      (allSome (ohvmat.map (fun row => (row[t]?).join))).map (fun col => ohvLatent col xsel))
    let opvLat : List (Option Q) := perTrait.map (fun oV => oV.map (fun V => opvLatent V n xpop))
    let gbLat : List (Option Q) := perTrait.map (fun oV => oV.map (fun V => gbLatent V n xpop nbest))
    -- `_calc_ohvmat` through the transcribed chunk loop, one matrix `[s][t]` per requested chunk size
    let chunked : List Json := mems.map (fun mem =>
      let cols : List (Except String (List (Option Q))) := perTrait.map (fun oV =>
        match oV with
        | none => .ok (xm.map (fun _ => none))
        | some V => calcOhvmat V n xm mem)
      match cols.find? (fun c => match c with | .error _ => true | .ok _ => false) with
      | some (.error e) => errJ e
      | _ => J.ofMat ofOptRat (Np.transpose (cols.map (fun c => match c with | .ok l => l | .error _ => []))))
    let wLat : Json := match xw with
      | none => Json.null
      | some w => J.ofList ofOptRat ((List.range ntrait).map (fun t =>
          (allSome (ohvmat.map (fun row => (row[t]?).join))).map (fun col => ohvLatentW col w)))
    pure <| J.obj [
      ("nblk", J.ofList J.ofNat nblk), ("hbin", J.ofList J.ofNat hbin),
      ("hstix", J.ofList J.ofNat (bnds.map Prod.fst)), ("hspix", J.ofList J.ofNat (bnds.map Prod.snd)),
      ("hmat", J.ofList (J.ofList (J.ofMat ofOptRat)) (toNumpyLayout H)),
      ("xmap", J.ofMat J.ofNat xm),
      ("ohvmat", J.ofMat ofOptRat ohvmat),
      ("ohv_latent", J.ofList ofOptRat ohvLat),
      ("opv_latent", J.ofList ofOptRat opvLat),
      ("gb_latent", J.ofList ofOptRat gbLat),
      ("ohvmat_mem", Json.arr chunked.toArray), ("ohv_latent_w", wLat)]

/-! ### the Spec oracle, evaluated on the implementation's outputs -/

structure Clause where
  name : String
  ok : Bool

def pairs (j : Json) : J.R (Nat × Nat) := do
  let l ← J.list J.nat j
  match l with
  | [a, b] => pure (a, b)
  | _ => J.fail "pair expected"

def opSpec : J.Op := fun j => do
  let n ← J.field j "nhaploblk" J.nat
  let (genpos, stix, spix) ← readLayout j
  let p := genpos.length
  let nblk ← J.field j "nblk" (J.list J.nat)
  let hbin ← J.field j "hbin" (J.list J.int)
  let hstix ← J.field j "hstix" (J.list J.nat)
  let hspix ← J.field j "hspix" (J.list J.nat)
  let hlen ← J.field j "hlen" (J.list J.nat)
  let mut cl : List Clause := [
    ⟨"apportion", Spec.apportion n stix.length nblk⟩,
    ⟨"partition", Spec.partition p hstix hspix hlen⟩,
    ⟨"labels", Spec.labels p hbin hstix⟩,
    ⟨"within_chrom", Spec.withinChrom stix hstix⟩,
    ⟨"total", hstix.length == n⟩]
  let geno? ← J.fieldOpt j "geno" (J.list (J.mat J.rat))
  if let some geno := geno? then
    let u ← J.field j "u" (J.mat J.rat)
    let ucols := ucolsOf u
    let bnds := List.zip hstix hspix
    let hmats ← J.fieldD j "hmats" (J.list (J.list (J.list (J.mat J.rat)))) []
    cl := cl ++ [⟨"conserve", hmats.all (fun h => Spec.conserve geno ucols h n)⟩]
    let sc := ucols.map (Spec.scaleOf geno)
    let xm? ← J.fieldOpt j "xmap" (J.mat J.nat)
    let ohvmat? ← J.fieldOpt j "ohvmat" (J.mat J.rat)
    if let (some xm, some ohvmat) := (xm?, ohvmat?) then
      let choices ← J.fieldD j "dh" (J.list (J.list pairs)) []
      cl := cl ++ [⟨"ohv_def", Spec.ohvDef geno ucols bnds xm ohvmat⟩,
                   ⟨"ohv_ge_dh", Spec.ohvGeDh geno ucols bnds xm ohvmat choices⟩]
      -- the same matrix obtained through other entry points (other chunk sizes, the real / integer / binary
      -- factories, the selection protocols): each must meet the definition
      let more ← J.fieldD j "ohvmats" (J.list (J.mat J.rat)) []
      if !more.isEmpty then
        cl := cl ++ [⟨"ohv_def[entry]", more.all (fun o => Spec.ohvDef geno ucols bnds xm o)⟩,
                     ⟨"ohv_ge_dh[entry]", more.all (fun o => Spec.ohvGeDh geno ucols bnds xm o (choices.take 1))⟩]
      -- real / integer / binary encodings: weights, the problem's own ohvmat, its latent vector (parallel lists)
      let xws ← J.fieldD j "xws" (J.list (J.list J.rat)) []
      let wl ← J.fieldD j "ohv_latent_w" (J.list (J.list J.rat)) []
      let wo ← J.fieldD j "ohvmat_w" (J.list (J.mat J.rat)) []
      if !wl.isEmpty then
        cl := cl ++ [⟨"ohv_latent_w_def", wl.length == wo.length && wl.length == xws.length &&
          ((List.zip xws (List.zip wo wl)).all (fun p => Spec.ohvLatentWDef sc p.2.1 p.1 p.2.2))⟩]
    let x? ← J.fieldOpt j "x_pop" (J.list J.nat)
    let opv? ← J.fieldOpt j "opv_latent" (J.list J.rat)
    if let (some x, some opv) := (x?, opv?) then
      cl := cl ++ [⟨"opv_def", Spec.opvDef geno ucols bnds x opv⟩]
    let opvs ← J.fieldD j "opv_latents" (J.list (J.list J.rat)) []
    if let (some x, false) := (x?, opvs.isEmpty) then
      cl := cl ++ [⟨"opv_def[entry]", opvs.all (fun o => Spec.opvDef geno ucols bnds x o)⟩]
    let xo? ← J.fieldOpt j "x_ohv" (J.list J.nat)
    let ol? ← J.fieldOpt j "ohv_latent" (J.list J.rat)
    if let (some xo, some ol, some ohvmat) := (xo?, ol?, ohvmat?) then
      cl := cl ++ [⟨"ohv_latent_def", Spec.ohvLatentDef sc ohvmat xo ol⟩]
    let gb? ← J.fieldOpt j "gb_latent" (J.list J.rat)
    let nbest? ← J.fieldOpt j "nbest" J.nat
    if let (some x, some gb, some nbest) := (x?, gb?, nbest?) then
      cl := cl ++ [⟨"gb_def", Spec.gbDef geno ucols bnds x nbest gb⟩]
    let gbs ← J.fieldD j "gb_latents" (J.list (J.list J.rat)) []
    if let (some x, some nbest, false) := (x?, nbest?, gbs.isEmpty) then
      cl := cl ++ [⟨"gb_def[entry]", gbs.all (fun o => Spec.gbDef geno ucols bnds x nbest o)⟩]
  let failed := (cl.filter (fun c => !c.ok)).map (·.name)
  pure <| J.obj [("ok", J.ofBool failed.isEmpty), ("failed", J.ofList J.ofStr failed),
                 ("checked", J.ofList J.ofStr (cl.map (·.name)))]

/-- returns its `value` field verbatim: the harness memoises answers of requests it has already sent in the
    same process (the self-test re-evaluates the same cases under every mutant) and sends them back through this
    op so that the answer stream stays aligned with the request stream -/
def opConst : J.Op := fun j => J.field j "value" pure

def ops : List (String × J.Op) :=
  [("c18.const", opConst), ("c18.nblk", opNblk), ("c18.haplobin", opHaplobin), ("c18.bounds", opBounds),
   ("c18.model", opModel), ("c18.spec", opSpec)]

end Drv.C18
