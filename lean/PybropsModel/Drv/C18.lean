import PybropsModel.J
import PybropsModel.Model.Haplo
open Lean

/-!
Driver ops of C18 (haplotype blocks, optimal haploid / population values).

  c18.nblk      nhaploblk genpos stix spix                → nblk | error tag, tie margin of the greedy loop
  c18.haplobin  nblk genpos stix spix [hbs]               → labels with exact `linspace`, labels with the given boundaries
  c18.bounds    hbin                                      → hstix hspix hlen | error tag
  c18.model     nhaploblk genpos stix spix geno u …       → the whole pipeline: blocks, hmat, xmap, ohvmat, latent functions
  c18.spec      inputs + the IMPLEMENTATION's outputs     → the property's decidable Spec, clause by clause
-/
namespace Drv.C18
open Haplo

abbrev Q := Rat

def errJ (e : String) : Json := J.obj [("error", J.ofStr e)]

def ofOptNat : Option Nat → Json := J.ofOpt J.ofNat
def ofOptRat : Option Q → Json := J.ofOpt J.ofRat

def absQ (a : Q) : Q := if a < 0 then -a else a
def maxQ (a b : Q) : Q := if a < b then b else a
/-- tolerant equality for values that went through binary64: 1e-9 relative, floor 1 -/
def approx (a b : Q) : Bool :=
  absQ (a - b) ≤ (1 / 1000000000 : Q) * maxQ 1 (maxQ (absQ a) (absQ b))

/-- smallest gap between the minimum of `diff` and a competitor that is not bit-identical to it,
    over all iterations of the greedy loop (0 ⇒ an exact tie between different chromosomes: the
    float computation may break it either way).  `lens = some …` selects the patched loop (full
    chromosomes do not compete). -/
def greedyMargin (gl ideal : List Q) (lens : Option (List Nat)) : Nat → List Nat → Q → Q
  | 0, _, m => m
  | k + 1, nb, m =>
    let diff := List.zipWith (fun (a : Nat) b => (a : Q) - b) nb ideal
    let full : List Bool := match lens with
      | none => nb.map (fun _ => false)
      | some ls => if (fullMask nb ls).all id then nb.map (fun _ => false) else fullMask nb ls
    let ix := match lens with
      | none => argmin diff
      | some ls => pickCap diff nb ls
    let d0 := diff.getD ix 0
    let g0 := gl.getD ix 0
    let gaps := ((List.zip diff gl).zip full).zipIdx.filterMap (fun p =>
      if p.2 == ix || p.1.2 then none
      else if p.1.1.1 == d0 && p.1.1.2 == g0 then none
      else some (p.1.1.1 - d0))
    let m' := gaps.foldl (fun a b => if b < a then b else a) m
    greedyMargin gl ideal lens k (incrAt ix nb) m'

def readLayout (j : Json) : J.R (List Q × List Nat × List Nat) := do
  let genpos ← J.field j "genpos" (J.list J.rat)
  let stix ← J.field j "stix" (J.list J.nat)
  let spix ← J.field j "spix" (J.list J.nat)
  pure (genpos, stix, spix)

def opNblk : J.Op := fun j => do
  let n ← J.field j "nhaploblk" J.nat
  let (genpos, stix, spix) ← readLayout j
  let patched ← J.fieldD j "patched" J.bool false
  let chroms := chromSlices genpos stix spix
  let gl := genlen chroms
  match (if patched then nhaploblkChromFixed n chroms else nhaploblkChrom n chroms) with
  | .error e => pure (errJ e)
  | .ok nb =>
    let lens := if patched then some (chroms.map List.length) else none
    let margin : Q := if Np.sum gl = 0 then 1 else
      greedyMargin gl (ideal n gl) lens (n - gl.length) (List.replicate gl.length 1) 1000000
    pure <| J.obj [("nblk", J.ofList J.ofNat nb), ("margin", J.ofRat margin)]

def opHaplobin : J.Op := fun j => do
  let nblk ← J.field j "nblk" (J.list J.nat)
  let (genpos, stix, spix) ← readLayout j
  let hbs ← J.fieldOpt j "hbs" (J.mat J.rat)
  let patched ← J.fieldD j "patched" J.bool false
  let chroms := chromSlices genpos stix spix
  let exact := if patched then haplobinFixed nblk chroms else haplobin nblk chroms
  let given := hbs.map (fun h => if patched then haplobinFixedHB h chroms 0 else haplobinHB h chroms 0)
  pure <| J.obj [("hbin", J.ofList ofOptNat exact),
                 ("hbin_hb", J.ofOpt (J.ofList ofOptNat) given),
                 ("hbs", J.ofMat J.ofRat (hbounds nblk chroms))]

def boundsJ (r : List Nat × List Nat × List Nat) : Json :=
  J.obj [("hstix", J.ofList J.ofNat r.1), ("hspix", J.ofList J.ofNat r.2.1), ("hlen", J.ofList J.ofNat r.2.2)]

def opBounds : J.Op := fun j => do
  let hbin ← J.field j "hbin" (J.list J.int)
  match haplobinBounds hbin with
  | .error e => pure (errJ e)
  | .ok r => pure (boundsJ r)

/-- `[m][n][t][b]` → numpy's `[m][n][b][t]` -/
def toNumpyLayout {γ} (H : List (List (List (List γ)))) : List (List (List (List γ))) :=
  H.map (fun Hm => Hm.map Np.transpose)

def ucolsOf (u : List (List Q)) : List (List Q) := Np.transpose u

def opModel : J.Op := fun j => do
  let n ← J.field j "nhaploblk" J.nat
  let (genpos, stix, spix) ← readLayout j
  let guard ← J.fieldD j "guard" J.bool true
  let geno ← J.field j "geno" (J.list (J.mat J.rat))
  let u ← J.field j "u" (J.mat J.rat)
  let nparent ← J.fieldD j "nparent" J.nat 2
  let unique ← J.fieldD j "unique" J.bool true
  let xsel ← J.fieldD j "x_ohv" (J.list J.nat) []
  let xpop ← J.fieldD j "x_pop" (J.list J.nat) []
  let nbest ← J.fieldD j "nbest" J.nat 1
  let patched ← J.fieldD j "patched" J.bool false
  let chroms := chromSlices genpos stix spix
  match (if patched then blocksOfFixed n chroms else blocksOf n chroms guard) with
  | .error e => pure (errJ e)
  | .ok (nblk, hbin, bnds) =>
    let ucols := ucolsOf u
    let H := haplomat n bnds geno ucols
    let ntaxa := (geno.headD []).length
    let xm := xmap ntaxa nparent unique
    let ntrait := ucols.length
    let perTrait := (List.range ntrait).map (fun t => traitValues H t)
    -- ohvmat[s][t]
    let ohvmat : List (List (Option Q)) := xm.map (fun par => perTrait.map (fun oV => oV.map (fun V => ohv V n par)))
    let ohvLat : List (Option Q) := (List.range ntrait).map (fun t =>
      (allSome (ohvmat.map (fun row => (row[t]?).join))).map (fun col => ohvLatent col xsel))
    let opvLat : List (Option Q) := perTrait.map (fun oV => oV.map (fun V => opvLatent V n xpop))
    let gbLat : List (Option Q) := perTrait.map (fun oV => oV.map (fun V => gbLatent V n xpop nbest))
    pure <| J.obj [
      ("nblk", J.ofList J.ofNat nblk), ("hbin", J.ofList J.ofNat hbin),
      ("hstix", J.ofList J.ofNat (bnds.map Prod.fst)), ("hspix", J.ofList J.ofNat (bnds.map Prod.snd)),
      ("hmat", J.ofList (J.ofList (J.ofMat ofOptRat)) (toNumpyLayout H)),
      ("xmap", J.ofMat J.ofNat xm),
      ("ohvmat", J.ofMat ofOptRat ohvmat),
      ("ohv_latent", J.ofList ofOptRat ohvLat),
      ("opv_latent", J.ofList ofOptRat opvLat),
      ("gb_latent", J.ofList ofOptRat gbLat)]

/-! ### the Spec oracle, evaluated on the implementation's outputs -/

structure Clause where
  name : String
  ok : Bool

def allIdx (n : Nat) (p : Nat → Bool) : Bool := (List.range n).all p

/-- apportionment: one count per chromosome, each ≥ 1, summing to the request -/
def specApportion (nhaploblk nchr : Nat) (nblk : List Nat) : Bool :=
  nblk.length == nchr && nblk.all (1 ≤ ·) && Np.sum nblk == nhaploblk

/-- the `(hstix, hspix, hlen)` triple tiles `[0, p)` by non-empty consecutive segments -/
def specPartition (p : Nat) (hstix hspix hlen : List Nat) : Bool :=
  let k := hstix.length
  1 ≤ k && hspix.length == k && hlen.length == k &&
  hstix.getD 0 1 == 0 && hspix.getD (k - 1) 0 == p &&
  allIdx k (fun j => hstix.getD j 0 < hspix.getD j 0 && hlen.getD j 0 + hstix.getD j 0 == hspix.getD j 0) &&
  allIdx (k - 1) (fun j => hspix.getD j 0 == hstix.getD (j + 1) 1)

/-- the blocks are the maximal runs of the labels: constant inside, changing at every boundary -/
def specLabels (p : Nat) (hbin : List Int) (hstix hspix : List Nat) : Bool :=
  hbin.length == p &&
  (List.zip hstix hspix).all (fun b => (List.range (b.2 - b.1)).all (fun o => hbin.getD (b.1 + o) 0 == hbin.getD b.1 1)) &&
  allIdx (hstix.length - 1) (fun j => hbin.getD (hstix.getD j 0) 0 != hbin.getD (hstix.getD (j + 1) 0) 0)

/-- every block lies inside one chromosome and every chromosome holds at least one block -/
def specWithinChrom (stix spix hstix hspix : List Nat) : Bool :=
  let chr := List.zip stix spix
  let blk := List.zip hstix hspix
  blk.all (fun b => chr.any (fun c => c.1 ≤ b.1 && b.2 ≤ c.2)) &&
  chr.all (fun c => blk.any (fun b => c.1 ≤ b.1 && b.2 ≤ c.2))

/-- block values of every chromosome copy sum to the copy's additive value, for every trait;
    `hmat` in numpy layout `[m][n][b][t]` -/
def specConserve (geno : List (List (List Q))) (ucols : List (List Q))
    (hmat : List (List (List (List Q)))) (nhaploblk : Nat) : Bool :=
  hmat.length == geno.length &&
  (List.zip geno hmat).all (fun gm => gm.2.length == gm.1.length &&
    (List.zip gm.1 gm.2).all (fun gh => gh.2.length == nhaploblk &&
      ucols.zipIdx.all (fun ut =>
        approx (Np.sum (gh.2.map (fun row => row.getD ut.2 0))) (Np.dot gh.1 ut.1))))

/-- block values recomputed from the inputs on the implementation's own blocks: `V[m][n][b]` -/
def trueValues (geno : List (List (List Q))) (u : List Q) (bnds : List (Nat × Nat)) : List (List (List Q)) :=
  blockTable geno u bnds

/-- optimal value of a parent tuple by definition: ploidy · Σ_blocks max_(phase, parent) -/
def bestValue (V : List (List (List Q))) (nb : Nat) (par : List Nat) : Q := ohv V nb par

def specOhv (geno : List (List (List Q))) (ucols : List (List Q)) (bnds : List (Nat × Nat))
    (xm : List (List Nat)) (ohvmat : List (List Q)) : Bool :=
  ohvmat.length == xm.length &&
  ucols.zipIdx.all (fun ut =>
    let V := trueValues geno ut.1 bnds
    (List.zip xm ohvmat).all (fun xr => approx (xr.2.getD ut.2 0) (bestValue V bnds.length xr.1)))

/-- a doubled haploid that takes block `b` from `(phase, parent)` = `choice[b mod len]` of the cross
    is not better than the reported optimal haploid value -/
def specDh (geno : List (List (List Q))) (ucols : List (List Q)) (bnds : List (Nat × Nat))
    (xm : List (List Nat)) (ohvmat : List (List Q)) (choices : List (List (Nat × Nat))) : Bool :=
  let ploidy : Q := (geno.length : Nat)
  choices.all (fun ch =>
    (List.zip xm ohvmat).all (fun xr =>
      let src : List (List Q) := (List.range bnds.length).map (fun b =>
        let c := ch.getD (b % (max ch.length 1)) (0, 0)
        let par := xr.1.getD (c.2 % (max xr.1.length 1)) 0
        ((geno.getD (c.1 % (max geno.length 1)) []).getD par []))
      let gam := mosaic bnds src
      ucols.zipIdx.all (fun ut =>
        let v := ploidy * Np.dot gam ut.1
        v ≤ xr.2.getD ut.2 0 || approx v (xr.2.getD ut.2 0))))

def specOpv (geno : List (List (List Q))) (ucols : List (List Q)) (bnds : List (Nat × Nat))
    (x : List Nat) (opv : List Q) : Bool :=
  opv.length == ucols.length &&
  ucols.zipIdx.all (fun ut =>
    let V := trueValues geno ut.1 bnds
    approx (-(opv.getD ut.2 0)) (bestValue V bnds.length x))

/-- OHV subset latent: minus the mean of the selected crosses' optimal haploid values -/
def specOhvLatent (ohvmat : List (List Q)) (x : List Nat) (lat : List Q) : Bool :=
  let k : Q := (x.length : Nat)
  lat.zipIdx.all (fun lt =>
    approx lt.1 (-(Np.sum (x.map (fun i => (ohvmat.getD i []).getD lt.2 0)) / k)))

/-- genotype-builder latent by definition: per block the `nbest` largest best-phase values among the
    selected individuals, summed over blocks, times `-(ploidy / nbest)` -/
def specGb (geno : List (List (List Q))) (ucols : List (List Q)) (bnds : List (Nat × Nat))
    (x : List Nat) (nbest : Nat) (lat : List Q) : Bool :=
  lat.length == ucols.length &&
  ucols.zipIdx.all (fun ut =>
    let V := trueValues geno ut.1 bnds
    let ploidy : Q := (geno.length : Nat)
    let perBlock := (List.range bnds.length).map (fun b =>
      let best := x.map (fun p => (bestBlock V [p] b).getD 0)
      let desc := Np.stableSort (fun a c => decide (c ≤ a)) best
      Np.sum (desc.take nbest))
    approx (lat.getD ut.2 0) (-(ploidy / (nbest : Q)) * Np.sum perBlock))

def pairs (j : Json) : J.R (Nat × Nat) := do
  let l ← J.list J.nat j
  match l with
  | [a, b] => pure (a, b)
  | _ => J.fail "pair expected"

def opSpec : J.Op := fun j => do
  let n ← J.field j "nhaploblk" J.nat
  let (genpos, stix, spix) ← readLayout j
  let p := genpos.length
  let nblk ← J.field j "nblk" (J.list J.nat)
  let hbin ← J.field j "hbin" (J.list J.int)
  let hstix ← J.field j "hstix" (J.list J.nat)
  let hspix ← J.field j "hspix" (J.list J.nat)
  let hlen ← J.field j "hlen" (J.list J.nat)
  let mut cl : List Clause := [
    ⟨"apportion", specApportion n stix.length nblk⟩,
    ⟨"partition", specPartition p hstix hspix hlen⟩,
    ⟨"labels", specLabels p hbin hstix hspix⟩,
    ⟨"within_chrom", specWithinChrom stix spix hstix hspix⟩,
    ⟨"total", hstix.length == n⟩]
  let geno? ← J.fieldOpt j "geno" (J.list (J.mat J.rat))
  if let some geno := geno? then
    let u ← J.field j "u" (J.mat J.rat)
    let ucols := ucolsOf u
    let bnds := List.zip hstix hspix
    let hmats ← J.fieldD j "hmats" (J.list (J.list (J.list (J.mat J.rat)))) []
    cl := cl ++ [⟨"conserve", hmats.all (fun h => specConserve geno ucols h n)⟩]
    let xm? ← J.fieldOpt j "xmap" (J.mat J.nat)
    let ohvmat? ← J.fieldOpt j "ohvmat" (J.mat J.rat)
    if let (some xm, some ohvmat) := (xm?, ohvmat?) then
      let choices ← J.fieldD j "dh" (J.list (J.list pairs)) []
      cl := cl ++ [⟨"ohv_def", specOhv geno ucols bnds xm ohvmat⟩,
                   ⟨"ohv_ge_dh", specDh geno ucols bnds xm ohvmat choices⟩]
    let x? ← J.fieldOpt j "x_pop" (J.list J.nat)
    let opv? ← J.fieldOpt j "opv_latent" (J.list J.rat)
    if let (some x, some opv) := (x?, opv?) then
      cl := cl ++ [⟨"opv_def", specOpv geno ucols bnds x opv⟩]
    let xo? ← J.fieldOpt j "x_ohv" (J.list J.nat)
    let ol? ← J.fieldOpt j "ohv_latent" (J.list J.rat)
    if let (some xo, some ol, some ohvmat) := (xo?, ol?, ohvmat?) then
      cl := cl ++ [⟨"ohv_latent_def", specOhvLatent ohvmat xo ol⟩]
    let gb? ← J.fieldOpt j "gb_latent" (J.list J.rat)
    let nbest? ← J.fieldOpt j "nbest" J.nat
    if let (some x, some gb, some nbest) := (x?, gb?, nbest?) then
      cl := cl ++ [⟨"gb_def", specGb geno ucols bnds x nbest gb⟩]
  let failed := (cl.filter (fun c => !c.ok)).map (·.name)
  pure <| J.obj [("ok", J.ofBool failed.isEmpty), ("failed", J.ofList J.ofStr failed),
                 ("checked", J.ofList J.ofStr (cl.map (·.name)))]

def ops : List (String × J.Op) :=
  [("c18.nblk", opNblk), ("c18.haplobin", opHaplobin), ("c18.bounds", opBounds),
   ("c18.model", opModel), ("c18.spec", opSpec)]

end Drv.C18
