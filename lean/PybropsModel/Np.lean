/-
numpy-like list primitives used by the models (core Lean only, executable).
Each is differentially tested against numpy itself by harness/npconf.py.
-/
namespace Np

/-- numpy.take along an axis with in-range, non-negative indices -/
def take {α} (is : List Nat) (l : List α) : List α := is.filterMap (fun i => l[i]?)

/-- numpy.delete with a collection of indices -/
def delete {α} (is : List Nat) (l : List α) : List α :=
  (l.zipIdx.filter (fun p => !is.contains p.2)).map Prod.fst

/-- numpy.insert of a block `v` before position `k` (list position form) -/
def insert {α} (k : Nat) (v l : List α) : List α := l.take k ++ v ++ l.drop k

/-- numpy.repeat with one count for all elements -/
def repeatN {α} (n : Nat) (l : List α) : List α := l.flatMap (fun a => List.replicate n a)

/-- numpy.repeat with per-element counts -/
def repeatEach {α} : List Nat → List α → List α
  | n :: ns, a :: as => List.replicate n a ++ repeatEach ns as
  | _, _ => []

/-- numpy.tile (1-D) -/
def tile {α} (n : Nat) (l : List α) : List α := (List.replicate n l).flatten

/-- numpy.arange(start, start + n) -/
def arange (start n : Nat) : List Nat := (List.range n).map (· + start)

/-- numpy.cumsum -/
def cumsumFrom {α} [Add α] : α → List α → List α
  | _, [] => []
  | acc, a :: as => (acc + a) :: cumsumFrom (acc + a) as

def cumsum {α} [Add α] [OfNat α 0] (l : List α) : List α := cumsumFrom 0 l

def sum {α} [Add α] [OfNat α 0] (l : List α) : α := l.foldl (· + ·) 0

def dot {α} [Add α] [Mul α] [OfNat α 0] (a b : List α) : α := sum (List.zipWith (· * ·) a b)

/-- numpy.flatnonzero -/
def flatnonzeroFrom : Nat → List Bool → List Nat
  | _, [] => []
  | k, b :: bs => if b then k :: flatnonzeroFrom (k+1) bs else flatnonzeroFrom (k+1) bs

def flatnonzero (m : List Bool) : List Nat := flatnonzeroFrom 0 m

/-- boolean-mask selection `a[mask]` -/
def compress {α} (m : List Bool) (l : List α) : List α :=
  (List.zip m l).filterMap (fun p => if p.1 then some p.2 else none)

/-- stable insertion into an ascending list w.r.t. `le` (after all elements that are `le` it) -/
def insertSorted {α} (le : α → α → Bool) (a : α) : List α → List α
  | [] => [a]
  | b :: bs => if le b a then b :: insertSorted le a bs else a :: b :: bs

/-- stable sort (insertion sort; equal elements keep their order) -/
def stableSort {α} (le : α → α → Bool) (l : List α) : List α :=
  l.foldl (fun acc a => insertSorted le a acc) []

/-- numpy.argsort(kind="stable") -/
def argsort {α} (le : α → α → Bool) (l : List α) : List Nat :=
  (stableSort (fun p q => le p.1 q.1) l.zipIdx).map Prod.snd

/-- transposition of a rectangular nested list -/
def transpose {α} (m : List (List α)) : List (List α) :=
  match m with
  | [] => []
  | r :: _ => (List.range r.length).map (fun j => m.filterMap (fun row => row[j]?))

/-- numpy.unique on an already sorted list: values, start indices, counts -/
def uniqueRuns {α} [BEq α] : List α → List (α × Nat × Nat) := fun l =>
  let rec go : Nat → List α → List (α × Nat × Nat) → List (α × Nat × Nat)
    | _, [], acc => acc.reverse
    | i, a :: as, [] => go (i+1) as [(a, i, 1)]
    | i, a :: as, (v, st, n) :: acc =>
        if a == v then go (i+1) as ((v, st, n+1) :: acc) else go (i+1) as ((a, i, 1) :: (v, st, n) :: acc)
  go 0 l []

end Np
