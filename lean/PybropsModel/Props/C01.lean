/-
C01 — Mendelian fidelity of the mating protocols.  Property theorems only.

Model: PybropsModel/Model/Meiosis.lean (`segLoop`/`gameteLoop` transcribe the segment-copy loop of
`mat_meiosis` / `dense_meiosis`; `mateE`, `dhE` transcribe `mat_mate`, `mat_dh`) and
PybropsModel/Model/Mating.lean (`generate` / `mate` transcribe the seven `mate()` methods, `groupTaxa`
the final `group_taxa()`, `specMate` is the decidable Spec the harness evaluates on the
implementation's outputs; `mateFull` adds numpy's index rule for `xconfig` and the marker metadata);
PybropsModel/Model/Pedigree.lean (`lineage`, the pedigree terms, the joint test `pedCheck`, `specMate`).
Helper lemmas: PybropsModel/Lemmas/{MeiosisLoop,Mosaic,MosaicPath,Repeat,MatingStages,MatingProtocols,
MatingSort,MatingSpec,MatingTotal,MatingFull,Pedigree,PedigreeSpec,PedCheck,PedCheckConv,SpecSound,
SpecComplete,SpecCompleteMate,MatingOrder,DenseMate,UtilSpec,SpecIff,SpecCompleteSelf,SpecCompleteCex,MateHeap,
CountProduct,MatingGroupMeta,Siblings,SpecCompleteSib}.lean.
Round 3 adds: PybropsModel/Model/DenseMate.lean (buffer-level transcription of core/util/mate.py, section 1b),
PybropsModel/Model/MateHeap.lean (the array traffic of `mate()` on a heap, section 2c); the row order for all
counters (`order_characterised`); `spec_iff`; completeness of the Spec for the self / two-way protocols with up
to two selfings and of the utility Specs; counterexamples showing the extra hypotheses are needed.

Round 4 adds: the repaired per-cross product (section 2a, D70), the closed form of the progeny's taxa-group metadata
(`family_group_metadata`), "all doubled haploids of one mating are gametes of ONE line" (`dh_siblings_share_line`) and the
witness that this is more than the row-by-row Spec can see (`spec_complete_siblings_counterexample`).

Round 5 adds (section 2d): histories of `mate()` calls on one protocol object (`Mating.mateSeq`; `history_calls`: call k is
the single call started from the constructor's counters advanced by everything produced before, so every theorem of
sections 2 - 2c holds of every call of a history; `history_family_labels`), and the dtype of the family labels
(`Mating.labelsInDtype`: int64 labels are the numbers `fc + i` up to 2^63, `family_labels_int64_exact_partial`; a variant that
builds them in the dtype of the PARENTS' labels is wrong at the limit of that dtype,
`family_labels_parental_dtype_counterexample`).  Helper lemmas: PybropsModel/Lemmas/MatingHistory.lean.

Conventions.  `mate … = .ok out` says the model accepts the input (rectangular diploid matrix,
xconfig of the protocol's width, count arrays of length ncross, every selected index inside the
matrix, draws of the shapes the code requests); the examples show it is met by concrete inputs for
every protocol.  `Nonneg draws` is the generator contract `0 ≤ u` for uniform draws — the only fact
about the random stream that is used; nothing is assumed about the crossover probabilities.
-/
import PybropsModel.Lemmas.MatingSpec
import PybropsModel.Lemmas.MosaicPath
import PybropsModel.Lemmas.MatingDemo
import PybropsModel.Lemmas.PedigreeSpec
import PybropsModel.Lemmas.MatingTotal
import PybropsModel.Lemmas.SpecSound
import PybropsModel.Lemmas.MatingFull
import PybropsModel.Lemmas.SpecCompleteMate
import PybropsModel.Lemmas.PedCheckConv
import PybropsModel.Lemmas.MatingOrder
import PybropsModel.Lemmas.DenseMate
import PybropsModel.Lemmas.UtilSpec
import PybropsModel.Lemmas.SpecIff
import PybropsModel.Lemmas.SpecCompleteSelf
import PybropsModel.Lemmas.SpecCompleteCex
import PybropsModel.Lemmas.MateHeap
import PybropsModel.Lemmas.CountProduct
import PybropsModel.Lemmas.MatingGroupMeta
import PybropsModel.Lemmas.Siblings
import PybropsModel.Lemmas.SpecCompleteSib
import PybropsModel.Lemmas.MatingHistory
set_option autoImplicit false
set_option linter.unusedSectionVars false

namespace C01
open Meiosis Mating

/-! ## 1. The segment-copy loop of `mat_meiosis` -/

section loop
variable {α : Type}

/-- The literal loop (`for spix in flatnonzero(rnd < xoprob): copy [stix, spix); flip`) computes
    the per-marker mosaic, for every mask and every pair of haplotypes of the mask's length. -/
theorem meiosisLoop_eq_gamete (ind : Ind α) (mask : List Bool)
    (h0 : ind.1.length = mask.length) (h1 : ind.2.length = mask.length) :
    gameteLoop ind mask = gamete ind mask :=
  gameteLoop_eq_gamete ind mask h0 h1

/-- Every cell of a gamete is the parent's cell at the same marker, taken from the copy given by the
    parity of the crossovers drawn at markers 0..j. -/
theorem gamete_mosaic (ind : Ind α) (mask : List Bool)
    (h0 : ind.1.length = mask.length) (h1 : ind.2.length = mask.length) (j : Nat) (hj : j < mask.length) :
    (gamete ind mask)[j]? = if phaseAt mask j then ind.2[j]? else ind.1[j]? := by
  have := perMarker_getElem? mask false ind.1 ind.2 j h0 h1 hj
  simpa [gamete] using this

variable {ρ : Type} [Preorder ρ] [DecidableLT ρ] [Zero ρ]

/-- The source copy changes between markers j and j+1 only if `xoprob[j+1] > 0`
    (a change needs a draw `0 ≤ r < xoprob[j+1]`). -/
theorem phase_switch_only_where_xo_pos (r xo : List ρ) (hr : ∀ x ∈ r, (0 : ρ) ≤ x) (j : Nat)
    (hj : j + 1 < (xoMask r xo).length)
    (hsw : phaseAt (xoMask r xo) (j + 1) ≠ phaseAt (xoMask r xo) j) :
    (0 : ρ) < xo[j + 1]'(by simp [xoMask] at hj; omega) := by
  rw [phaseAt_step _ j hj] at hsw
  have hm : (xoMask r xo)[j + 1] = true := by
    cases h : (xoMask r xo)[j + 1]
    · rw [h] at hsw; simp at hsw
    · rfl
  rw [xoMask_getElem] at hm
  have hlt := of_decide_eq_true hm
  exact lt_of_le_of_lt (hr _ (List.getElem_mem _)) hlt

/-- A gamete starts on copy 1 only if `xoprob[0] > 0`. -/
theorem start_phase_only_where_xo_pos (r xo : List ρ) (hr : ∀ x ∈ r, (0 : ρ) ≤ x)
    (h0 : 0 < (xoMask r xo).length) (hsw : phaseAt (xoMask r xo) 0 = true) :
    (0 : ρ) < xo[0]'(by simp [xoMask] at h0; omega) := by
  have hm : (xoMask r xo)[0] = true := by rw [← phaseAt_zero' _ h0]; exact hsw
  rw [xoMask_getElem] at hm
  exact lt_of_le_of_lt (hr _ (List.getElem_mem _)) (of_decide_eq_true hm)

end loop

example : gameteLoop (α := Int) ([1, 2, 3, 4], [11, 12, 13, 14]) [true, false, true, false] = [11, 12, 3, 4] := by decide
example : gamete (α := Int) ([1, 2, 3, 4], [11, 12, 13, 14]) [true, false, true, false] = [11, 12, 3, 4] := by decide
example : phaseAt [true, false, true, false] 1 = true ∧ phaseAt [true, false, true, false] 2 = false := by decide
example : xoMask (ρ := Int) [0, 0, 1, 1] [1, 0, 2, 1] = [true, false, true, false] := by decide

/-! ## 1b. The duplicate family `dense_meiosis` / `dense_dh` / `dense_cross` (pybrops/core/util/mate.py) -/

section dense
variable {α ρ : Type} [LT ρ] [DecidableLT ρ]

/-- `dense_meiosis`, transcribed with its output buffer explicit (`numpy.empty` content `emp` = arbitrary;
    `gamete[i,stix:spix] = geno[phase,s,stix:spix]` = `DenseMate.sliceAssign`), returns exactly what the
    model of `mat_meiosis` returns — whatever the uninitialised buffer contained: every cell is written. -/
theorem dense_meiosis_eq (pop : Pop α) (sel : List Nat) (xo : List ρ) (rnd : DrawMat ρ) (emp : List (List α))
    (hs : DenseMate.SelShaped pop sel xo.length) (he : drawsShaped sel.length xo.length emp = true) :
    DenseMate.denseMeiosisE pop sel xo rnd emp = meiosisE pop sel xo rnd :=
  DenseMate.denseMeiosisE_eq pop sel xo rnd emp hs he

/-- `dense_dh` = `mat_dh` -/
theorem dense_dh_eq (pop : Pop α) (sel : List Nat) (xo : List ρ) (r : DrawMat ρ) (rest : List (DrawMat ρ))
    (e : List (List α)) (es : List (List (List α)))
    (hs : DenseMate.SelShaped pop sel xo.length) (he : drawsShaped sel.length xo.length e = true) :
    DenseMate.denseDhE pop sel xo (r :: rest) (e :: es) = dhE pop sel xo (r :: rest) :=
  DenseMate.denseDhE_eq pop sel xo r rest e es hs he

/-- `dense_cross` = `mat_mate` -/
theorem dense_cross_eq (fpop mpop : Pop α) (fsel msel : List Nat) (xo : List ρ) (rf rm : DrawMat ρ)
    (rest : List (DrawMat ρ)) (ef em : List (List α)) (es : List (List (List α)))
    (hf : DenseMate.SelShaped fpop fsel xo.length) (hm : DenseMate.SelShaped mpop msel xo.length)
    (hef : drawsShaped fsel.length xo.length ef = true) (hem : drawsShaped msel.length xo.length em = true) :
    DenseMate.denseCrossE fpop mpop fsel msel xo (rf :: rm :: rest) (ef :: em :: es)
      = mateE fpop mpop fsel msel xo (rf :: rm :: rest) :=
  DenseMate.denseCrossE_eq fpop mpop fsel msel xo rf rm rest ef em es hf hm hef hem

/-- one row, any buffer content -/
theorem dense_row_ignores_buffer (buf : List α) (ind : Ind α) (mask : List Bool)
    (hb : buf.length = mask.length) (h0 : ind.1.length = mask.length) (h1 : ind.2.length = mask.length) :
    DenseMate.denseRow buf ind mask = gamete ind mask := by
  rw [DenseMate.denseRow_eq buf ind mask hb h0 h1, gameteLoop_eq_gamete ind mask h0 h1]

end dense

example : DenseMate.denseRow (α := Int) [99, 98, 97, 96] ([1, 2, 3, 4], [11, 12, 13, 14]) [true, false, true, false]
    = [11, 12, 3, 4] := by decide
example : DenseMate.denseMeiosisE (α := Int) (ρ := Int) [([1, 2, 3], [4, 5, 6]), ([7, 8, 9], [10, 11, 12])] [1, 0] [1, 0, 1]
    [[0, 0, 0], [1, 0, 0]] [[55, 55, 55], [-7, -8, -9]] = .ok [[10, 11, 9], [1, 2, 6]] := by decide +kernel
example : DenseMate.SelShaped (α := Int) [([1, 2, 3], [4, 5, 6]), ([7, 8, 9], [10, 11, 12])] [1, 0] 3 := by
  intro s hs ind hi
  simp at hs
  rcases hs with rfl | rfl <;> simp at hi <;> subst hi <;> simp

/-! ## 2. The seven protocols -/

section protocols
variable {α ρ : Type} [Preorder ρ] [DecidableLT ρ] [Zero ρ]
variable {P : Proto} {pop : Pop α} {xc : List (List Nat)} {nmating nprogeny : Cnt} {nself : Nat}
    {xo : List ρ} {pc fc : Nat} {draws : List (DrawMat ρ)} {out : Out α}

/-- **Provenance.**  For every protocol, every selfing depth, every cross configuration and every
    non-negative random stream: each row of the result carries the family label of a cross of the
    configuration, chromosome copy 0 is a left-to-right mosaic of the haplotypes that cross assigns
    to the phase-0 side and copy 1 of those it assigns to the phase-1 side (`Mating.sources`: the
    female / recurrent parent / F1×M1 side, resp. the male / intermediate-hybrid side; all of the
    hybrid's sources for both copies once the line has been selfed or doubled); the source can
    change only at a marker whose crossover probability is positive (`Mating.MosaicFrom`). -/
theorem progeny_mosaic (h : mate P pop xc nmating nprogeny nself xo pc fc draws = .ok out)
    (hnn : Nonneg draws) :
    ∀ r ∈ out.rows, fc ≤ r.grp ∧ ∃ cross, xc[r.grp - fc]? = some cross ∧
      Mosaic (sources P nself pop cross).1 xo r.ind.1 ∧ Mosaic (sources P nself pop cross).2 xo r.ind.2 := by
  intro r hr
  obtain ⟨h1, cross, hc, m1, m2, _⟩ := mate_rows h hnn r hr
  exact ⟨h1, cross, hc, m1, m2⟩

/-- **Pedigree.**  The sharper reading of "(or intermediate hybrid)": every row of the result has
    the pedigree that the configuration row of its family prescribes (`Mating.lineage`, the crossing
    diagram of the protocol's docstring as a predicate): e.g. for the three-way cross with `nself`
    selfings there are a recurrent parent `R = pgmat[cross[0]]`, an F1 `H1` whose copy 0 is a mosaic
    of the two copies of `pgmat[cross[1]]` and whose copy 1 is a mosaic of the two copies of
    `pgmat[cross[2]]`, a hybrid `H` = (mosaic of R's copies, mosaic of H1's copies), and a chain of
    `nself` individuals each of which has both copies mosaics of the two copies of *the one*
    previous individual, ending in the row; a DH row is one gamete of the last individual, twice.
    All mosaics switch only where the crossover probability is positive. -/
theorem progeny_pedigree (h : mate P pop xc nmating nprogeny nself xo pc fc draws = .ok out)
    (hnn : Nonneg draws) :
    ∀ r ∈ out.rows, fc ≤ r.grp ∧ ∃ cross, xc[r.grp - fc]? = some cross ∧ lineage xo P nself pop cross r.ind :=
  mate_pedigree h hnn

/-- Doubled-haploid progeny are homozygous at every locus. -/
theorem dh_homozygous (h : mate P pop xc nmating nprogeny nself xo pc fc draws = .ok out)
    (hnn : Nonneg draws) (hP : P.isDH = true) : ∀ r ∈ out.rows, r.ind.1 = r.ind.2 := by
  intro r hr
  obtain ⟨_, _, _, _, _, hd⟩ := mate_rows h hnn r hr
  exact hd hP

/-- **Doubled haploids of one mating are gametes of ONE line.**  Sharper than the row-by-row statements above: for
    the three DH protocols there is a population `lines` with one individual per mating, each having the pedigree
    that the corresponding non-DH protocol (`Proto.base`) prescribes for its cross (F1 / back-cross / dihybrid,
    selfed `nself` times), such that — in generation order, of which `out.rows` is the `group_taxa()` arrangement —
    progeny `k` is one gamete, doubled, of line `numpy.repeat(arange(nlines), numpy.repeat(nprogeny, nmating))[k]`:
    the `nprogeny` doubled haploids of a mating all come from the same individual. -/
theorem dh_siblings_share_line (h : mate P pop xc nmating nprogeny nself xo pc fc draws = .ok out)
    (hnn : Nonneg draws) (hP : P.isDH = true) :
    ∃ nm np prog lines, nmating.expand xc.length = .ok nm ∧ nprogeny.expand xc.length = .ok np ∧
      out.rows = groupTaxa (genRows P prog pc (families P fc xc.length nm np)) ∧
      PT lines (Np.repeatEach nm (xc.map (lineage xo P.base nself pop))) ∧
      List.Forall₂ (DhOf xo lines) (Np.repeatEach (Np.repeatEach nm np) (Np.arange 0 lines.length)) prog := by
  obtain ⟨nm, np, prog, hs, hnm, hnp, hgen, _, hrows, _, _⟩ := mate_inv h
  obtain ⟨lines, pt, hall⟩ := siblings_ok P hP hs hnn hgen
  exact ⟨nm, np, prog, lines, hnm, hnp, hrows, pt, hall⟩

/-- **Back-cross progeny of one mating share the F1** (`ThreeWayCross`): there is a population `f1`, one individual per
    mating, each a progeny of parents 1 x 2 of its cross, such that generation-order progeny `k` is — after `nself`
    selfings of that one individual — a progeny of recurrent parent `repeat(xconfig[:,0], nmating*nprogeny)[k]` and of
    F1 number `repeat(arange(nf1), repeat(nprogeny, nmating))[k]`. -/
theorem threeWay_siblings_share_f1 (h : mate .threeWay pop xc nmating nprogeny nself xo pc fc draws = .ok out)
    (hnn : Nonneg draws) :
    ∃ nm np prog, nmating.expand xc.length = .ok nm ∧ nprogeny.expand xc.length = .ok np ∧
      out.rows = groupTaxa (genRows .threeWay prog pc (families .threeWay fc xc.length nm np)) ∧
      SibF1OK3 pop xc nm np nself xo prog := by
  obtain ⟨nm, np, prog, hs, hnm, hnp, hgen, _, hrows, _, _⟩ := mate_inv h
  exact ⟨nm, np, prog, hnm, hnp, hrows, siblings_threeWay (shaped_of_popShaped hs) hnn hgen⟩

/-- **Four-way progeny of one mating share both F1s** (`FourWayCross`): populations `ab` (parents 2 x 3) and `cd`
    (parents 0 x 1), one individual of each per mating; progeny `k` descends from `ab[sel[k]] x cd[sel[k]]`. -/
theorem fourWay_siblings_share_f1 (h : mate .fourWay pop xc nmating nprogeny nself xo pc fc draws = .ok out)
    (hnn : Nonneg draws) :
    ∃ nm np prog, nmating.expand xc.length = .ok nm ∧ nprogeny.expand xc.length = .ok np ∧
      out.rows = groupTaxa (genRows .fourWay prog pc (families .fourWay fc xc.length nm np)) ∧
      SibF1OK4 pop xc nm np nself xo prog := by
  obtain ⟨nm, np, prog, hs, hnm, hnp, hgen, _, hrows, _, _⟩ := mate_inv h
  exact ⟨nm, np, prog, hnm, hnp, hrows, siblings_fourWay (shaped_of_popShaped hs) hnn hgen⟩

/-- The number of progeny is `Σ nmating_i · nprogeny_i`. -/
theorem progeny_count (h : mate P pop xc nmating nprogeny nself xo pc fc draws = .ok out) :
    ∃ nm np, nmating.expand xc.length = .ok nm ∧ nprogeny.expand xc.length = .ok np ∧
      out.rows.length = (List.zipWith (· * ·) nm np).sum := by
  obtain ⟨nm, np, h1, h2, hc, _⟩ := mate_labels h
  exact ⟨nm, np, h1, h2, hc⟩

/-- The family labels of the result are, position by position, `family_counter + i` repeated
    `nmating_i · nprogeny_i` times for the crosses `i = 0, 1, …` in configuration order — for every
    value of the counters (the final `group_taxa()` cannot disturb the family sequence). -/
theorem family_labels (h : mate P pop xc nmating nprogeny nself xo pc fc draws = .ok out) :
    ∃ nm np, nmating.expand xc.length = .ok nm ∧ nprogeny.expand xc.length = .ok np ∧
      out.rows.map Row.grp = Np.repeatEach (List.zipWith (· * ·) nm np) (Np.arange fc xc.length) := by
  obtain ⟨nm, np, h1, h2, _, hg, _⟩ := mate_labels h
  exact ⟨nm, np, h1, h2, hg⟩

/-- **Taxa-group metadata of the progeny matrix** (`taxa_grp_name`, `taxa_grp_stix`, `taxa_grp_len`; `taxa_grp_spix`
    = start + length), which `group_taxa()` obtains from `numpy.unique(taxa_grp, return_index, return_counts)`: in
    closed form (`Mating.runsOfCounts`) there is exactly one entry per cross that HAS progeny, in configuration
    order: family number `family_counter + i`, start = the number of progeny of the earlier crosses, length =
    `nmating_i · nprogeny_i` — for every protocol, every counter value and every draw. -/
theorem family_group_metadata (h : mate P pop xc nmating nprogeny nself xo pc fc draws = .ok out) :
    ∃ nm np, nmating.expand xc.length = .ok nm ∧ nprogeny.expand xc.length = .ok np ∧
      let per := List.zipWith (· * ·) nm np
      out.grpMeta = runsOfCounts 0 per (Np.arange fc xc.length) ∧
      ∀ e ∈ out.grpMeta, ∃ i, i < per.length ∧ (Np.arange fc xc.length)[i]? = some e.1 ∧ per[i]? = some e.2.2 ∧
        0 < e.2.2 ∧ e.2.1 = 0 + (per.take i).sum := by
  obtain ⟨nm, np, h1, h2, hg⟩ := mate_grpMeta_closed h
  refine ⟨nm, np, h1, h2, hg, ?_⟩
  intro e he
  rw [hg] at he
  exact mem_runsOfCounts _ _ 0 e he

/-- Both counters advance by exactly the numbers produced. -/
theorem counters_advance (h : mate P pop xc nmating nprogeny nself xo pc fc draws = .ok out) :
    out.pc = pc + out.rows.length ∧ out.fc = fc + xc.length := by
  obtain ⟨nm, np, _, _, hc, _, hp, hf, _⟩ := mate_labels h
  exact ⟨by rw [hp, hc], hf⟩

/-- The names are exactly the generated names `prefix ++ zfill7 (progeny_counter + k)`, each carried
    by a row of the family it was generated for (all counter values). -/
theorem names_generated (h : mate P pop xc nmating nprogeny nself xo pc fc draws = .ok out) :
    ∃ nm np, nmating.expand xc.length = .ok nm ∧ nprogeny.expand xc.length = .ok np ∧
      let per := List.zipWith (· * ·) nm np
      let expect := (Np.arange pc per.sum).map (name P.pre)
      (out.rows.map Row.name).Perm expect ∧
      ∀ r ∈ out.rows, (r.name, r.grp) ∈ List.zip expect (Np.repeatEach per (Np.arange fc xc.length)) := by
  obtain ⟨nm, np, h1, h2, _, _, _, _, hp, hm, _⟩ := mate_labels h
  exact ⟨nm, np, h1, h2, hp, hm⟩

/-- While `progeny_counter + count ≤ 10^7` (no name outgrows the 7-digit zero fill) the rows are in
    generation order: row `k` is named `prefix ++ zfill7 (progeny_counter + k)`.

    FULL STATEMENT (false of the as-is model, see `order_preserved_counterexample`):
      mate P pop xc nmating nprogeny nself xo pc fc draws = .ok out →
        out.rows.map Row.name = (Np.arange pc out.rows.length).map (name P.pre)
    What holds for all counters is `names_generated` + `family_labels`: `group_taxa()` sorts names as
    strings, so inside one family "…10000000" precedes "…9999999". -/
theorem order_preserved_partial (h : mate P pop xc nmating nprogeny nself xo pc fc draws = .ok out)
    (hsmall : pc + out.rows.length ≤ 10 ^ 7) :
    out.rows.map Row.name = (Np.arange pc out.rows.length).map (name P.pre) := by
  obtain ⟨nm, np, _, _, hc, _, _, _, _, _, hs⟩ := mate_labels h
  rw [hc] at hsmall ⊢
  exact hs hsmall

/-- **Row order for ALL counter values** (no `10^7` hypothesis).  `group_taxa()` sorts on (family, name-string) and
    `str(i).zfill(7)` is injective, so: the (family, name) keys of the result are a permutation of the generated
    pairs `(family_counter + cross, prefix ++ zfill7 (progeny_counter + k))`, they are STRICTLY increasing in
    (family, then name compared as a string), and they are the only arrangement of the generated pairs with that
    property.  Below the overflow this arrangement is the generation order (`order_preserved_partial`); above
    it, it is what `order_preserved_counterexample` shows. -/
theorem order_characterised (h : mate P pop xc nmating nprogeny nself xo pc fc draws = .ok out) :
    ∃ nm np, nmating.expand xc.length = .ok nm ∧ nprogeny.expand xc.length = .ok np ∧
      let per := List.zipWith (· * ·) nm np
      let gen := List.zip (Np.repeatEach per (Np.arange fc xc.length)) ((Np.arange pc per.sum).map (name P.pre))
      (out.rows.map rowKey).Perm gen ∧ (out.rows.map rowKey).Pairwise keyLt ∧
      ∀ l : List (Nat × List Nat), l.Perm gen → l.Pairwise keyLt → l = out.rows.map rowKey :=
  mate_order h

/-- `prefix + str(i).zfill(7)` names different progeny differently, for every counter value. -/
theorem names_injective (pre : List Nat) {a b : Nat} (h : name pre a = name pre b) : a = b :=
  name_inj pre h

/-- **Acceptance.**  The hypothesis `mate … = .ok out` of the theorems above is met by every valid
    input: rectangular diploid matrix with `len(xoprob)` markers, configuration of the protocol's
    width naming only taxa of the matrix, count arrays (or scalars) with one entry per cross, and
    draw matrices of the shapes the code requests (`Mating.drawRows`). -/
theorem model_accepts_valid_inputs {nm np : List Nat} (hs : popShaped pop xo.length = true)
    (hw : ∀ r ∈ xc, r.length = P.nparent) (hidx : ∀ r ∈ xc, ∀ s ∈ r, s < pop.length)
    (hnm : nmating.expand xc.length = .ok nm) (hnp : nprogeny.expand xc.length = .ok np)
    (hd : DrawsFit (drawRows P nm np nself) xo.length draws) :
    ∃ out, mate P pop xc nmating nprogeny nself xo pc fc draws = .ok out :=
  mate_accepts P hs hw hidx hnm hnp hd

end protocols

/-- Four progeny of one two-way cross generated with `progeny_counter = 9999998`: the returned row
    order is 10000000, 10000001, 9999998, 9999999 — not the generation order.  (Replayed on the real
    code by the corpus case with `pc = 9999998`.) -/
theorem order_preserved_counterexample :
    namesOf (mate (ρ := Int) .twoWay [([1], [2]), ([3], [4])] [[0, 1]] (.scalar 1) (.scalar 4) 0 [0] 9999998 0
        [[[0], [0], [0], [0]], [[0], [0], [0], [0]]])
      = some [name [50, 119] 10000000, name [50, 119] 10000001, name [50, 119] 9999998, name [50, 119] 9999999]
    ∧ [name [50, 119] 10000000, name [50, 119] 10000001, name [50, 119] 9999998, name [50, 119] 9999999]
      ≠ (Np.arange 9999998 4).map (name [50, 119]) := by
  decide +kernel

/-! ## 2a. Count arrays of a narrow integer dtype (defect D70, repaired) -/

/-- **Per-cross product, repaired code.**  `SelfCross`, `TwoWayCross` and `ThreeWayCross` form
    `nxprogeny = numpy.multiply(nmating, nprogeny, dtype = "int64")` (`Mating.countProduct`).  For count arrays of
    every integer dtype of at most 32 bits (`int8`, `uint8`, `int16`, `uint16`, `int32`: every count `< 2^31`; the
    other array may be `uint32`) that product is the exact one — no hypothesis on the products — so the theorems of
    section 2 (stated over ℕ) describe the real code for all such counts. -/
theorem count_product_exact (nm np : List Nat) (hnm : ∀ a ∈ nm, a < 2 ^ 31) (hnp : ∀ b ∈ np, b < 2 ^ 32) :
    countProduct nm np = (List.zipWith (fun (x y : Nat) => x * y) nm np).map (fun (n : Nat) => (n : Int)) :=
  countProduct_exact_narrow nm np hnm hnp

/-- 64-bit counts: exact while every per-cross product is below `2^63`, i.e. while the progeny of one cross could be
    the rows of a numpy array at all.

    FULL STATEMENT (false, see `count_product_int64_counterexample`; not reachable by a call that could succeed: the
    exact product is then not an array length):
      countProduct nm np = (zipWith (·*·) nm np).map Int.ofNat   for all nm np. -/
theorem count_product_exact_int64_partial (nm np : List Nat) (h : ∀ p ∈ List.zip nm np, p.1 * p.2 < 2 ^ 63) :
    countProduct nm np = (List.zipWith (fun (x y : Nat) => x * y) nm np).map (fun (n : Nat) => (n : Int)) :=
  countProduct_exact_of_lt nm np h

/-- int64 itself wraps: `2^32` matings x `2^32` progeny -> 0 (and `2^32 x 2^31` -> `-2^63`, which numpy.repeat rejects) -/
theorem count_product_int64_counterexample :
    countProduct [2 ^ 32] [2 ^ 32] = [0] ∧ countProduct [2 ^ 32] [2 ^ 31] = [-(2 ^ 63 : Int)] := by decide

/-- **Before the repair** the product was formed in the dtype of the count arrays: uint8 counts 20 matings x 13 progeny:
    the code saw 4 progeny instead of 260; int8 16 x 16: none at all; int8 12 x 11: a negative repeat count (numpy
    raises); the repaired product is right on all three.  The corpus cases `D70 regression` replay these on the
    real `SelfCross` / `TwoWayCross` / `ThreeWayCross`, where they must now pass. -/
theorem count_product_prerepair_counterexample :
    countProductPrerepair 8 false [20] [13] = [4] ∧ countProductPrerepair 8 true [16] [16] = [0] ∧
    countProductPrerepair 8 true [12] [11] = [-124] ∧
    countProduct [20] [13] = [260] ∧ countProduct [16] [16] = [256] ∧ countProduct [12] [11] = [132] := by decide

/-- The repair changes nothing where the old code was right: whenever no per-cross product reached the limit of the
    count dtype, the old product is the int64 product. -/
theorem count_product_repair_conservative (bits : Nat) (signed : Bool) (hb : bits - (if signed then 1 else 0) ≤ 63)
    (nm np : List Nat) (h : ∀ p ∈ List.zip nm np, p.1 * p.2 < 2 ^ (bits - (if signed then 1 else 0))) :
    countProductPrerepair bits signed nm np = countProduct nm np :=
  countProduct_agrees_prerepair bits signed hb nm np h

example : (∀ a ∈ [20, 127, 255], a < 2 ^ 31) ∧ (∀ b ∈ [13, 127, 255], b < 2 ^ 32) := by decide
example : ∀ p ∈ List.zip [3, 2] [4, 60], p.1 * p.2 < 2 ^ (8 - (if true then 1 else 0)) := by decide
example : countProduct [20, 127, 255] [13, 127, 255] = [260, 16129, 65025] := by decide

/-! ## 2b. The public call: marker metadata and numpy's index rule -/

section full
variable {α ρ μ : Type} [Preorder ρ] [DecidableLT ρ] [Zero ρ]
variable {P : Proto} {pop : Pop α} {pg : VMeta μ} {xc : List (List Int)} {nmating nprogeny : Cnt} {nself : Nat}
    {xo : List ρ} {pc fc : Nat} {draws : List (DrawMat ρ)} {out : Out α} {m : VMeta μ}

/-- **Marker metadata.**  All thirteen marker-metadata arrays of the progeny matrix (the nine
    constructor keywords incl. `vrnt_hapalt` / `vrnt_hapref`, and the four chromosome-group arrays
    assigned afterwards) are those of `pgmat`, for every protocol (`Mating.progenyMeta` transcribes
    the construction field by field; before 7fe10396 its `hapalt`/`hapref` were `none`). -/
theorem metadata_carried_over (h : mateFull P pop pg xc nmating nprogeny nself xo pc fc draws = .ok (out, m)) :
    m = pg :=
  (mateFull_inv h).2

/-- The public call with an integer configuration is the core model on the configuration with
    numpy's index rule applied (`wrapIdx`: `-ntaxa ≤ s < 0` names taxon `s + ntaxa`), so every theorem
    of section 2 holds of it with `cross` read through `wrapConfig`. -/
theorem full_call_reduces_to_core (h : mateFull P pop pg xc nmating nprogeny nself xo pc fc draws = .ok (out, m)) :
    mate P pop (wrapConfig pop.length xc) nmating nprogeny nself xo pc fc draws = .ok out :=
  (mateFull_inv h).1

/-- **Negative indices.**  Replacing every negative entry `s` of a configuration by `s + ntaxa` changes
    nothing: genotypes, labels, names, counters, metadata, rejections. -/
theorem negative_index_wraps (hv : ∀ r ∈ xc, ∀ s ∈ r, -(pop.length : Int) ≤ s) :
    mateFull P pop pg (xc.map (fun r => r.map (fun s => if s < 0 then s + pop.length else s)))
        nmating nprogeny nself xo pc fc draws
      = mateFull P pop pg xc nmating nprogeny nself xo pc fc draws := by
  unfold mateFull
  rw [wrapConfig_shift pop.length xc hv]

/-- The public call accepts every valid input; an index is valid iff `-ntaxa ≤ s < ntaxa`. -/
theorem full_call_accepts_valid_inputs {nm np : List Nat} (hs : popShaped pop xo.length = true)
    (hw : ∀ r ∈ xc, r.length = P.nparent)
    (hidx : ∀ r ∈ xc, ∀ s ∈ r, -(pop.length : Int) ≤ s ∧ s < pop.length)
    (hnm : nmating.expand xc.length = .ok nm) (hnp : nprogeny.expand xc.length = .ok np)
    (hd : DrawsFit (drawRows P nm np nself) xo.length draws) :
    ∃ out, mateFull P pop pg xc nmating nprogeny nself xo pc fc draws = .ok (out, pg) :=
  mateFull_accepts P hs hw hidx hnm hnp hd

end full

/-! ## 2c. Parents and marker metadata untouched: the array traffic of `mate()` on a heap -/

section heap
variable {α ρ : Type} [LT ρ] [DecidableLT ρ]

/-- **Parents untouched (heap model).**  Run the generation at the level of arrays (`MateHeap.generateH`:
    every `mat_mate` / `mat_dh` reads its operand arrays and appends the arrays it allocates) on any heap `h`
    whose cell `pg.mat` holds the parental genotypes: whenever the functional model accepts the call, the
    heap-level run succeeds with the same leftover draws, the progeny array it returns is the one the model
    generates (`out.rows` is its `group_taxa` arrangement), it lies at a FRESH address, and every cell of the
    old heap — the parental genotype array, every marker-metadata array, anything else — is unchanged.
    The progeny object's thirteen metadata fields are the parent's pointers (`progenyObj`), so they denote
    those same unchanged cells. -/
theorem parents_untouched_heap {h : MateHeap.Heap α} {pg : MateHeap.GMat} {pop : Pop α} {P : Proto}
    {xc : List (List Nat)} {nmating nprogeny : Cnt} {nself : Nat} {xo : List ρ} {pc fc : Nat}
    {draws : List (DrawMat ρ)} {out : Out α}
    (hg : MateHeap.Holds h pg.mat pop) (hm : mate P pop xc nmating nprogeny nself xo pc fc draws = .ok out) :
    ∃ nm np prog a h', nmating.expand xc.length = .ok nm ∧ nprogeny.expand xc.length = .ok np ∧
      MateHeap.generateH h pg.mat P xc nm np nself xo draws = .ok (a, [], h') ∧
      (∀ b, b < h.length → h'[b]? = h[b]?) ∧ h.length ≤ a ∧ MateHeap.Holds h' a prog ∧
      out.rows = groupTaxa (genRows P prog pc (families P fc xc.length nm np)) ∧
      (MateHeap.progenyObj P pg (h'.length)).vmeta = pg.vmeta := by
  obtain ⟨nm, np, prog, _, hnm, hnp, hgen, _, hrows, _, _⟩ := mate_inv hm
  obtain ⟨a, h', e, x, o, f⟩ := MateHeap.generateH_sim P hg hgen
  exact ⟨nm, np, prog, a, h', hnm, hnp, e, fun b hb => x.getElem? hb, f, o, hrows, progenyMeta_eq P pg.vmeta⟩

end heap

/-- non-vacuity: a heap with two unrelated cells in front of the parental matrix; a two-way cross appends three
    cells (two gamete matrices, the stacked progeny) and returns the address of the last -/
example : (MateHeap.generateH (α := Int) (ρ := Int) [.other, .geno [([1, 2], [3, 4]), ([5, 6], [7, 8])], .other] 1
      .twoWay [[0, 1]] [1] [1] 0 [1, 1] [[[0, 0]], [[1, 0]]]).toOption.map (fun r => (r.1, r.2.2.length)) = some (5, 6) := by
  decide +kernel
/-- an `out=`-style variant that writes the progeny INTO an operand's cell is not an extension of the heap:
    the frame statement above is a property of the transcribed code, not of every heap program -/
example : ¬ MateHeap.Ext (α := Int) [.geno [([1], [2])]] ([MateHeap.Cell.geno [([2], [2])]]) := by
  rintro ⟨ext, he⟩
  simp at he

/-! ## 2d. Histories on one protocol object; the dtype of the family labels (round 5) -/

section history
variable {α ρ : Type} [Preorder ρ] [DecidableLT ρ] [Zero ρ]

/-- **Histories.**  `k` successive `mate()` calls on ONE protocol object (`Mating.mateSeq`: the object keeps the two
    counters and nothing else): there is one result per call, and call `k` IS the single call of sections 2 - 2c started
    from the constructor's counters advanced by everything the earlier calls produced — `progeny_counter + Σ progeny`,
    `family_counter + Σ crosses` — for histories of every length and every counter value.  So every theorem above
    holds of every call of a history (e.g. `history_family_labels`). -/
theorem history_calls {P : Proto} {pc fc : Nat} {cs : List (Call α ρ)} {os : List (Out α)}
    (h : mateSeq P pc fc cs = .ok os) :
    os.length = cs.length ∧
    ∀ (k : Nat) (c : Call α ρ), cs[k]? = some c → ∃ o, os[k]? = some o ∧
      mate P c.pop c.xc c.nmating c.nprogeny c.nself c.xo
        (pc + ((os.take k).map (fun o => o.rows.length)).sum)
        (fc + ((cs.take k).map (fun c => c.xc.length)).sum) c.draws = .ok o :=
  ⟨mateSeq_length h, mateSeq_call h⟩

/-- The family labels of call `k` of a history: `family_counter₀ + (crosses of the earlier calls) + i`, repeated
    `nmating_i · nprogeny_i` times, in configuration order — however far the counter has grown. -/
theorem history_family_labels {P : Proto} {pc fc : Nat} {cs : List (Call α ρ)} {os : List (Out α)}
    (h : mateSeq P pc fc cs = .ok os) (k : Nat) (c : Call α ρ) (hk : cs[k]? = some c) :
    ∃ o nm np, os[k]? = some o ∧ c.nmating.expand c.xc.length = .ok nm ∧ c.nprogeny.expand c.xc.length = .ok np ∧
      o.rows.map Row.grp = Np.repeatEach (List.zipWith (· * ·) nm np)
        (Np.arange (fc + ((cs.take k).map (fun c => c.xc.length)).sum) c.xc.length) ∧
      o.fc = fc + ((cs.take k).map (fun c => c.xc.length)).sum + c.xc.length := by
  obtain ⟨o, ho, hm⟩ := mateSeq_call h k c hk
  obtain ⟨nm, np, h1, h2, hg⟩ := family_labels hm
  exact ⟨o, nm, np, ho, h1, h2, hg, (counters_advance hm).2⟩

/-- two cycles on one two-way object started at `family_counter = 126`: families 126, 127, then 128, 129 -/
example : (match mateSeq (ρ := Int) .twoWay 5 126
      [⟨demoPop, [[0, 1], [2, 3]], .scalar 1, .scalar 1, 0, demoXo, [demoDraw 2, demoDraw 2]⟩,
       ⟨demoPop, [[3, 0], [1, 1]], .scalar 1, .arr [2, 1], 0, demoXo, [demoDraw 3, demoDraw 3]⟩] with
    | .ok os => os.map (fun o => (o.rows.map Row.grp, o.pc, o.fc))
    | .error _ => []) = [([126, 127], 7, 128), ([128, 128, 129], 10, 130)] := by
  decide +kernel

end history

/-- **The dtype of the family labels.**  The code builds them as `numpy.arange(fc, fc + nfam, dtype = 'int64')`,
    independently of the integer dtype in which the PARENTS keep their labels: the stored values are the numbers
    `fc + i` of `family_labels` while `fc + nfam ≤ 2^63`.

    FULL STATEMENT (false, see `family_labels_int64_counterexample`; a family counter of `2^63` is out of the range
    the harness explores, ASSUMPTIONS): the same without the hypothesis. -/
theorem family_labels_int64_exact_partial (fc n : Nat) (h : fc + n ≤ 2 ^ 63) :
    labelsInDtype 64 true fc n = (Np.arange fc n).map (fun (v : Nat) => (v : Int)) :=
  labelsInDtype_exact 64 true fc n (by simpa using h)

theorem family_labels_int64_counterexample :
    labelsInDtype 64 true (2 ^ 63 - 1) 2 ≠ (Np.arange (2 ^ 63 - 1) 2).map (fun (v : Nat) => (v : Int)) := by
  decide +kernel

/-- A variant that builds the labels in the dtype of the parents' labels (seeded change C01-e3) is wrong as soon as
    the counter reaches the limit of that dtype: int8 parents, `family_counter = 126`, three crosses. -/
theorem family_labels_parental_dtype_counterexample :
    labelsInDtype 8 true 126 3 = [126, 127, -128] ∧
    labelsInDtype 8 true 126 3 ≠ (Np.arange 126 3).map (fun (v : Nat) => (v : Int)) := by
  decide +kernel

example : (126 : Nat) + 3 ≤ 2 ^ 63 := by norm_num

/-! ## 3. The Spec oracle -/

section spec
variable {α ρ : Type} [Preorder ρ] [DecidableLT ρ] [Zero ρ] [BEq α] [LawfulBEq α]

/-- The decidable Spec that the harness evaluates on the implementation's outputs
    (`Mating.specMate`: count, family labels, names, counters, per-row mosaic test, DH homozygosity,
    joint pedigree test for nself ≤ 2)
    holds of every output of the model, for every protocol and every input. -/
theorem spec_sound {P : Proto} {pop : Pop α} {xc : List (List Nat)} {nmating nprogeny : Cnt} {nself : Nat}
    {xo : List ρ} {pc fc : Nat} {draws : List (DrawMat ρ)} {out : Out α}
    (h : mate P pop xc nmating nprogeny nself xo pc fc draws = .ok out) (hnn : Nonneg draws) :
    (specMate P pop xc nmating nprogeny nself xo pc fc out).1 = true :=
  spec_of_mate h hnn

/-- **What the oracle says.**  `specMate … = true` iff (`Mating.SpecMateProp`): the count arrays expand, the number
    of rows is `Σ nmating·nprogeny`, the family labels are the repeat pattern, the names are the generated ones
    (in generation order below the overflow, else a permutation with each name in its family), both counters
    advanced by the numbers produced, and every row satisfies `Mating.RowSpec`: family label of a cross of the
    configuration, both copies mosaics of the sources of their side, DH ⇒ homozygous, and for `nself ≤ 2` the
    joint pedigree test — i.e. exactly the conclusions of the theorems of section 2, stated of `out`. -/
theorem spec_iff (P : Proto) (pop : Pop α) (xc : List (List Nat)) (nmating nprogeny : Cnt) (nself : Nat)
    (xo : List ρ) (pc fc : Nat) (out : Out α) :
    (specMate P pop xc nmating nprogeny nself xo pc fc out).1 = true ↔
      SpecMateProp P pop xc nmating nprogeny nself xo pc fc out :=
  specMate_iff P pop xc nmating nprogeny nself xo pc fc out

/-- … and for a valid configuration the joint test inside `RowSpec` is the pedigree itself. -/
theorem spec_row_is_pedigree {P : Proto} {nself : Nat} {pop : Pop α} {xc : List (List Nat)} {xo : List ρ} {fc : Nat}
    {r : Row α} (hs : popShaped pop xo.length = true)
    (hidx : ∀ c ∈ xc, ∀ k, k < P.nparent → c.getD k 0 < pop.length)
    (hn : nself ≤ jointDepth) (h : RowSpec P nself pop xc xo fc r) :
    ∃ cross, xc[r.grp - fc]? = some cross ∧ lineage xo P nself pop cross r.ind :=
  rowSpec_lineage hs hidx hn h

/-- **Spec of the utilities: sound.**  Every output of `mat_meiosis`/`dense_meiosis`, `mat_dh`/`dense_dh`,
    `mat_mate`/`dense_cross` passes the oracle the harness evaluates on the implementation's arrays. -/
theorem util_spec_sound {pop mpop : Pop α} {xo : List ρ} (hs : popShaped pop xo.length = true)
    (hm : popShaped mpop xo.length = true) {sel msel : List Nat} :
    (∀ {rnd : DrawMat ρ} {gs : List (Hap α)}, (∀ r ∈ rnd, ∀ x ∈ r, (0 : ρ) ≤ x) → meiosisE pop sel xo rnd = .ok gs →
        specGametes pop sel xo gs = true) ∧
    (∀ {d d' : List (DrawMat ρ)} {o : Pop α}, Nonneg d → dhE pop sel xo d = .ok (o, d') → specDh pop sel xo o = true) ∧
    (∀ {d d' : List (DrawMat ρ)} {o : Pop α}, Nonneg d → mateE pop mpop sel msel xo d = .ok (o, d') →
        specCross pop mpop sel msel xo o = true) :=
  ⟨fun hnn h => specGametes_of_meiosisE (shaped_of_popShaped hs) hnn h,
   fun hnn h => specDh_of_dhE (shaped_of_popShaped hs) hnn h,
   fun hnn h => specCross_of_mateE (shaped_of_popShaped hs) (shaped_of_popShaped hm) hnn h⟩

/-- `specGametes` decides "row i is a mosaic of the two copies of taxon sel[i]". -/
theorem util_spec_iff (pop : Pop α) (xo : List ρ) (sel : List Nat) (rows : List (Hap α)) :
    specGametes pop sel xo rows = true ↔
      List.Forall₂ (fun s g => ∃ F, pop[s]? = some F ∧ Mosaic [F.1, F.2] xo g) sel rows :=
  specGametes_iff pop xo sel rows

/-- **Spec of the utilities: complete** (first marker with positive crossover probability, so that the start copy
    is free — necessary, see `gamete_start_counterexample`): whatever passes IS an output of the model for some
    non-negative draws.

    FULL STATEMENT (false, see `gamete_start_counterexample`): the same without `hstart`. -/
theorem util_spec_complete_partial {ρ' : Type} [LinearOrder ρ'] [Zero ρ'] {pop mpop : Pop α} {xo : List ρ'}
    (hs : popShaped pop xo.length = true) (hm : popShaped mpop xo.length = true)
    (hstart : ∀ x, xo.head? = some x → 0 < x) {sel msel : List Nat} :
    (∀ {gs : List (Hap α)}, specGametes pop sel xo gs = true →
        ∃ rnd : DrawMat ρ', (∀ r ∈ rnd, ∀ y ∈ r, (0 : ρ') ≤ y) ∧ meiosisE pop sel xo rnd = .ok gs) ∧
    (∀ {o : Pop α} (rest : List (DrawMat ρ')), specDh pop sel xo o = true →
        ∃ r : DrawMat ρ', Nonneg [r] ∧ dhE pop sel xo (r :: rest) = .ok (o, rest)) ∧
    (∀ {o : Pop α} (rest : List (DrawMat ρ')), specCross pop mpop sel msel xo o = true →
        ∃ rf rm : DrawMat ρ', Nonneg [rf, rm] ∧ mateE pop mpop sel msel xo (rf :: rm :: rest) = .ok (o, rest)) :=
  ⟨fun h => meiosisE_of_specGametes (shaped_of_popShaped hs) hstart h,
   fun rest h => dhE_of_specDh (shaped_of_popShaped hs) hstart rest h,
   fun rest h => mateE_of_specCross (shaped_of_popShaped hs) (shaped_of_popShaped hm) hstart rest h⟩

/-- **Joint pedigree test.**  `Mating.pedCheck` — reachability over the hidden gamete states of
    the pedigree term `pedOf P nself cross`, both chromosome copies read through the *same* state —
    accepts every individual that has the pedigree `lineage` prescribes (any `nself`; the Spec uses
    it for `nself ≤ 2`).  So the Spec demands of the implementation's rows no more than the theorem
    `progeny_pedigree` proves of the model's. -/
theorem joint_pedigree_test_accepts {pop : Pop α} {xo : List ρ} (hs : popShaped pop xo.length = true)
    (P : Proto) (nself : Nat) (cross : List Nat) (c : Ind α) (h : lineage xo P nself pop cross c) :
    pedCheck (pedOf P nself cross) pop xo c = true :=
  pedCheck_of_lineage (shaped_of_popShaped hs) P nself cross c h

/-- … and it accepts nothing else: when the configuration row names taxa of the matrix, the test is
    true exactly of the individuals with the prescribed lineage (the intermediate hybrids are read off
    the run of hidden states the reachability test finds).  `pedCheck` decides `lineage`. -/
theorem joint_pedigree_test_decides {pop : Pop α} {xo : List ρ} (hs : popShaped pop xo.length = true)
    (P : Proto) (nself : Nat) (cross : List Nat) (hv : ∀ k, k < P.nparent → cross.getD k 0 < pop.length)
    (c : Ind α) :
    pedCheck (pedOf P nself cross) pop xo c = true ↔ lineage xo P nself pop cross c :=
  pedCheck_iff_lineage (shaped_of_popShaped hs) P nself cross hv c

/-- `lineage` is the meaning of the pedigree term the test walks over. -/
theorem lineage_is_term_meaning (xo : List ρ) (P : Proto) (nself : Nat) (pop : Pop α) (cross : List Nat) :
    lineage xo P nself pop cross = (pedOf P nself cross).sat xo pop :=
  lineage_eq_sat xo P nself pop cross

/-- **Completeness at the gamete.**  Conversely to `gamete_mosaic` / `phase_switch_only_where_xo_pos`:
    every mosaic of the two copies of an individual (switches only where xo > 0; first marker with
    positive crossover probability, so that the start copy is free) is the gamete the model produces
    for suitable non-negative draws.

    FULL STATEMENT (false, see `gamete_start_counterexample`): the same without `hstart` — with `xoprob[0] = 0`
    the loop always starts on copy 0 while the mosaic predicate leaves the start copy free. -/
theorem gamete_realised_partial {ρ' : Type} [LinearOrder ρ'] [Zero ρ'] (xo : List ρ') (ind : Ind α) (g : List α)
    (l0 : ind.1.length = xo.length) (l1 : ind.2.length = xo.length)
    (hstart : ∀ x, xo.head? = some x → 0 < x) (hm : Mosaic [ind.1, ind.2] xo g) :
    ∃ r : List ρ', r.length = xo.length ∧ (∀ y ∈ r, (0 : ρ') ≤ y) ∧ gamete ind (xoMask r xo) = g :=
  gamete_realises xo ind g l0 l1 hstart hm

/-- **Completeness of the Spec (two-way cross, no selfing).**  If `specMate` is true of an output
    (rectangular parents, configuration of width 2, first marker with positive crossover
    probability, names below the 7-digit overflow) then that output — rows, counters — IS the model's
    output for some non-negative draws: here the Spec demands exactly what the model can do.

    FULL STATEMENT (not proved; for the other protocols / nself > 0 it needs the converse of
    `joint_pedigree_test_accepts`, i.e. construction of the intermediate hybrids from a run of states):
      (specMate P pop xc nmating nprogeny nself xo pc fc out).1 = true →
        ∃ draws, Nonneg draws ∧ ∃ out', mate P pop xc nmating nprogeny nself xo pc fc draws = .ok out' ∧
          out'.rows = out.rows ∧ out'.pc = out.pc ∧ out'.fc = out.fc -/
theorem spec_complete_twoWay_partial {ρ' : Type} [LinearOrder ρ'] [Zero ρ'] {pop : Pop α} {xc : List (List Nat)}
    {nmating nprogeny : Cnt} {xo : List ρ'} {pc fc : Nat} {out : Out α}
    (hs : popShaped pop xo.length = true) (hw : ∀ r ∈ xc, r.length = 2)
    (hstart : ∀ x, xo.head? = some x → 0 < x) (hsmall : pc + out.rows.length ≤ 10 ^ 7)
    (hspec : (specMate .twoWay pop xc nmating nprogeny 0 xo pc fc out).1 = true) :
    ∃ draws : List (DrawMat ρ'), Nonneg draws ∧ ∃ out', mate .twoWay pop xc nmating nprogeny 0 xo pc fc draws = .ok out' ∧
      out'.rows = out.rows ∧ out'.pc = out.pc ∧ out'.fc = out.fc :=
  spec_complete_twoWay hs hw hstart hsmall hspec

/-- **Completeness of the Spec beyond `nself = 0`: self and two-way protocol, up to two selfing generations**
    (the depth up to which the Spec contains the joint pedigree test).  If `specMate` is true of an output (valid
    input, first marker with positive crossover probability, names below the overflow) then that output IS the
    model's output for some non-negative draws: the hybrids of every generation are read off the runs of hidden
    states the joint test finds (`joint_pedigree_test_decides`) and `selfLoop` is driven to reproduce them.

    FULL STATEMENT (false as it stands, three reasons, each with a witness):
      (specMate P pop xc nmating nprogeny nself xo pc fc out).1 = true →
        ∃ draws, Nonneg draws ∧ ∃ out', mate P pop xc nmating nprogeny nself xo pc fc draws = .ok out' ∧ …
    * above the name overflow the Spec accepts every arrangement inside a family, the model yields the sorted one
      (`spec_complete_names_counterexample`);
    * with `xoprob[0] = 0` the model never starts a gamete on copy 1 (`gamete_start_counterexample`);
    * for the five protocols in which several progeny share one intermediate hybrid (DH lines of one mating,
      back-cross / four-way progeny of one F1) the Spec judges rows one by one and does not demand that siblings
      share the hybrid (`spec_complete_siblings_counterexample`); and beyond two selfings it has only the per-copy
      test. -/
theorem spec_complete_selfed_partial {ρ' : Type} [LinearOrder ρ'] [Zero ρ'] {P : Proto} (hP : P = .self ∨ P = .twoWay)
    {pop : Pop α} {xc : List (List Nat)} {nmating nprogeny : Cnt} {nself : Nat} {xo : List ρ'} {pc fc : Nat} {out : Out α}
    (hn : nself ≤ jointDepth) (hs : popShaped pop xo.length = true) (hw : ∀ r ∈ xc, r.length = P.nparent)
    (hidx : ∀ r ∈ xc, ∀ s ∈ r, s < pop.length)
    (hstart : ∀ x, xo.head? = some x → 0 < x) (hsmall : pc + out.rows.length ≤ 10 ^ 7)
    (hspec : (specMate P pop xc nmating nprogeny nself xo pc fc out).1 = true) :
    ∃ draws : List (DrawMat ρ'), Nonneg draws ∧ ∃ out', mate P pop xc nmating nprogeny nself xo pc fc draws = .ok out' ∧
      out'.rows = out.rows ∧ out'.pc = out.pc ∧ out'.fc = out.fc :=
  spec_complete_selfed hP hn hs hw hidx hstart hsmall hspec

/-- every chain of selfings that `selfN` describes is produced by `selfLoop` for suitable non-negative draws
    (first marker with positive crossover probability; without it see `gamete_start_counterexample`) -/
theorem selfing_chain_realised_partial {ρ' : Type} [LinearOrder ρ'] [Zero ρ'] (xo : List ρ')
    (hstart : ∀ x, xo.head? = some x → 0 < x) (n : Nat) (Qs : List (Ind α → Prop)) (T : Pop α)
    (hq : ∀ q ∈ Qs, ∀ c, q c → c.1.length = xo.length ∧ c.2.length = xo.length)
    (h : List.Forall₂ (fun q t => selfN xo n q t) Qs T) :
    ∃ (pop0 : Pop α) (ds : List (DrawMat ρ')), List.Forall₂ (fun q c => q c) Qs pop0 ∧ Nonneg ds ∧
      ∀ rest, selfLoop xo (Np.arange 0 T.length) n pop0 (ds ++ rest) = .ok (T, rest) :=
  selfLoop_realises xo hstart n Qs T hq h

/-- The reachability test used by the Spec decides the mosaic predicate exactly. -/
theorem mosaicCheck_correct (srcs : List (List α)) (xo : List ρ) (o : List α) :
    mosaicCheck srcs xo o = true ↔ Mosaic srcs xo o :=
  mosaicCheck_iff srcs xo o

/-- What `Mosaic` means, in index form: there is a path `p` (one source index per marker) such that
    every cell of the copy is the cell of source `p[j]` at the same marker `j`, and the path changes
    between markers j and j+1 only if `xoprob[j+1] > 0`. -/
theorem mosaic_meaning {srcs : List (List α)} {xo : List ρ} {o : List α} (h : Mosaic srcs xo o) :
    ∃ p : List Nat, p.length = o.length ∧
      (∀ j, j < o.length → ∃ src, srcs[p.getD j 0]? = some src ∧ src[j]? = o[j]?) ∧
      (∀ j, j + 1 < o.length → p.getD (j + 1) 0 ≠ p.getD j 0 → ∃ x, xo[j + 1]? = some x ∧ 0 < x) :=
  h.path

end spec

/-- Above the 7-digit overflow the Spec is strictly weaker than the model: two progeny generated at
    `progeny_counter = 9999999` returned in GENERATION order pass `specMate`, but the model returns them
    string-sorted for every draw (so `hsmall` in the completeness theorems cannot be dropped). -/
theorem spec_complete_names_counterexample :
    (specMate (ρ := Int) .twoWay cexPop [[0, 1]] (.scalar 1) (.scalar 2) 0 [1] 9999999 0 cexOut).1 = true ∧
    ∀ (draws : List (DrawMat Int)) (out' : Out Int),
      mate .twoWay cexPop [[0, 1]] (.scalar 1) (.scalar 2) 0 [1] 9999999 0 draws = .ok out' → out'.rows ≠ cexOut.rows :=
  ⟨cexOut_spec, cexOut_unreachable⟩

/-- With `xoprob[0] = 0`: `[2]` is a mosaic of the copies `[1]`, `[2]` (the start copy is free in the mosaic
    predicate, as in the property text, which only restricts CHANGES of the source copy), but no non-negative draw
    makes the model's gamete start on copy 1 (so `hstart` in `gamete_realised_partial` and in the completeness theorems
    cannot be dropped). -/
theorem gamete_start_counterexample :
    Mosaic (ρ := Int) [[1], [2]] [0] ([2] : List Int) ∧
    ∀ r : List Int, (∀ y ∈ r, (0 : Int) ≤ y) → gamete (([1], [2]) : Ind Int) (xoMask r [0]) ≠ [2] :=
  ⟨cexStart_mosaic, cexStart_unreachable⟩

/-- In the protocols where several progeny share one intermediate individual the Spec (like the property statement)
    judges the progeny one by one and is strictly weaker than the model: both copies of the female, each doubled,
    pass `specMate` as the two doubled haploids of ONE two-way mating (no crossover possible between the two markers),
    but the model returns them for no non-negative draws — its hybrid carries one gamete of the female
    (`dh_siblings_share_line`).  So the completeness theorems cannot be extended to the DH / three-way / four-way
    protocols without strengthening the Spec beyond the statement. -/
theorem spec_complete_siblings_counterexample :
    (specMate (ρ := Int) .twoWayDH sibPop [[0, 1]] (.scalar 1) (.scalar 2) 0 [1, 0] 0 0 sibOut).1 = true ∧
    ∀ (draws : List (DrawMat Int)) (out' : Out Int), Nonneg draws →
      mate .twoWayDH sibPop [[0, 1]] (.scalar 1) (.scalar 2) 0 [1, 0] 0 0 draws = .ok out' → out'.rows ≠ sibOut.rows :=
  ⟨sibOut_spec, sibOut_unreachable⟩

/-! ## Non-vacuity: every protocol accepts a concrete input with crossovers, selfing and array counts -/

example : cells (mate .twoWay demoPop [[0, 1]] (.scalar 1) (.scalar 2) 0 demoXo 5 2 (List.replicate 2 (demoDraw 2)))
    = [([4, 5, 6], [10, 11, 12]), ([4, 5, 6], [10, 11, 12])] := by decide +kernel
example : accepted (mate .self demoPop [[1], [3]] (.arr [1, 2]) (.scalar 2) 2 demoXo 0 0 (List.replicate 6 (demoDraw 6))) = true := by decide +kernel
example : accepted (mate .twoWay demoPop [[0, 1], [2, 2]] (.arr [2, 1]) (.arr [1, 3]) 1 demoXo 0 0 (List.replicate 4 (demoDraw 5))) = true := by decide +kernel
example : accepted (mate .twoWayDH demoPop [[0, 1], [2, 3]] (.arr [2, 1]) (.arr [1, 3]) 1 demoXo 0 0
    (List.replicate 4 (demoDraw 3) ++ [demoDraw 5])) = true := by decide +kernel
example : accepted (mate .threeWay demoPop [[0, 1, 2]] (.scalar 2) (.scalar 2) 1 demoXo 0 0
    (List.replicate 2 (demoDraw 2) ++ List.replicate 4 (demoDraw 4))) = true := by decide +kernel
example : accepted (mate .threeWayDH demoPop [[0, 1, 2], [3, 2, 1]] (.arr [1, 2]) (.arr [2, 1]) 1 demoXo 0 0
    (List.replicate 6 (demoDraw 3) ++ [demoDraw 4])) = true := by decide +kernel
example : accepted (mate .fourWay demoPop [[0, 1, 2, 3]] (.scalar 2) (.scalar 3) 0 demoXo 0 0
    (List.replicate 4 (demoDraw 2) ++ List.replicate 2 (demoDraw 6))) = true := by decide +kernel
example : accepted (mate .fourWayDH demoPop [[0, 1, 2, 3], [1, 1, 1, 1]] (.scalar 2) (.arr [1, 2]) 1 demoXo 0 0
    (List.replicate 8 (demoDraw 4) ++ [demoDraw 6])) = true := by decide +kernel
example : Nonneg (List.replicate 4 (demoDraw 5)) := by
  intro m hm r hr x hx
  have hm' : m = demoDraw 5 := (List.mem_replicate.mp hm).2
  subst hm'
  have hr' : r = [0, 0, 1] := (List.mem_replicate.mp hr).2
  subst hr'
  simp at hx
  rcases hx with rfl | rfl <;> decide
example : 0 + 4 ≤ 10 ^ 7 := by decide
example : DrawsFit (drawRows .threeWay [2] [2] 1) demoXo.length
    (List.replicate 2 (demoDraw 2) ++ List.replicate 4 (demoDraw 4)) := by
  unfold DrawsFit
  decide
example : (specMate .twoWay demoPop [[0, 1]] (.scalar 1) (.scalar 2) 0 demoXo 5 2
    ⟨[⟨([4, 5, 6], [10, 11, 12]), name [50, 119] 5, 2⟩, ⟨([4, 5, 6], [10, 11, 12]), name [50, 119] 6, 2⟩], 7, 3, []⟩).1 = true := by
  decide +kernel
/-- the Spec rejects a progeny whose phase-0 copy comes from the male -/
example : (specMate .twoWay demoPop [[0, 1]] (.scalar 1) (.scalar 2) 0 demoXo 5 2
    ⟨[⟨([10, 11, 12], [4, 5, 6]), name [50, 119] 5, 2⟩, ⟨([4, 5, 6], [10, 11, 12]), name [50, 119] 6, 2⟩], 7, 3, []⟩).1 = false := by
  decide +kernel
/-- … and a switch at a marker whose crossover probability is zero -/
example : mosaicCheck (α := Int) (ρ := Int) [[1, 2, 3], [4, 5, 6]] [1, 0, 1] [1, 5, 6] = false
    ∧ mosaicCheck (α := Int) (ρ := Int) [[1, 2, 3], [4, 5, 6]] [1, 0, 1] [1, 2, 6] = true := by decide +kernel

/-- inputs of `spec_complete_selfed_partial`: a selfed two-way progeny accepted by the Spec with `nself = 1` -/
example : (specMate .twoWay demoPop [[0, 1]] (.scalar 1) (.scalar 1) 1 demoXo 0 0
    ⟨[⟨([4, 5, 12], [7, 8, 6]), name [50, 119] 0, 0⟩], 1, 1, []⟩).1 = true ∧ (1 : Nat) ≤ jointDepth
    ∧ (∀ r ∈ ([[0, 1]] : List (List Nat)), ∀ s ∈ r, s < demoPop.length) := by
  refine ⟨by decide +kernel, by decide, by decide⟩
/-- the utility oracles on concrete arrays -/
example : specGametes (ρ := Int) demoPop [1, 0] demoXo [[10, 11, 9], [1, 2, 6]] = true
    ∧ specGametes (ρ := Int) demoPop [1, 0] demoXo [[10, 8, 9], [1, 2, 6]] = false
    ∧ specDh (ρ := Int) demoPop [2] demoXo [([13, 14, 18], [13, 14, 18])] = true
    ∧ specDh (ρ := Int) demoPop [2] demoXo [([13, 14, 18], [13, 14, 15])] = false
    ∧ specCross (ρ := Int) demoPop demoPop [0] [3] demoXo [([1, 2, 3], [22, 23, 21])] = true := by decide +kernel
example : ∀ x, demoXo.head? = some x → 0 < x := by intro x h; simp [demoXo] at h; omega
example : ∀ r ∈ ([[0, 1]] : List (List Nat)), r.length = 2 := by decide
example : ∀ k, k < Proto.threeWay.nparent → ([0, 1, 2] : List Nat).getD k 0 < demoPop.length := by decide

/-- group metadata of a two-way call with an empty middle cross: families 7 and 9, starts 0 and 2, lengths 2 and 3 -/
example : (mate .twoWay demoPop [[0, 1], [2, 3], [1, 0]] (.arr [2, 0, 1]) (.arr [1, 5, 3]) 0 demoXo 0 7
    (List.replicate 2 (demoDraw 5))).toOption.map (·.grpMeta) = some [(7, 0, 2), (9, 2, 3)] := by decide +kernel
example : runsOfCounts 0 [2, 0, 3] (Np.arange 7 3) = [(7, 0, 2), (9, 2, 3)] := by decide
example : Proto.twoWayDH.isDH = true ∧ Proto.threeWayDH.base = .threeWay := by decide
/-- the last taxon addressed as `-1`; an index below `-ntaxa` is rejected when it is used -/
example : wrapConfig 4 [[-1, 0], [3, -4]] = [[3, 0], [3, 0]] := by decide
example : accepted ((mateFull (μ := Nat) .twoWay demoPop ⟨some 1, none, none, none, some 2, none, some 3, some 4, none, none, none, none, none⟩
    [[-1, 0]] (.scalar 1) (.scalar 2) 0 demoXo 5 2 (List.replicate 2 (demoDraw 2))).map Prod.fst) = true := by decide +kernel
example : accepted ((mateFull (μ := Nat) .twoWay demoPop ⟨none, none, none, none, none, none, none, none, none, none, none, none, none⟩
    [[-5, 0]] (.scalar 1) (.scalar 2) 0 demoXo 5 2 (List.replicate 2 (demoDraw 2))).map Prod.fst) = false := by decide +kernel

/-- the joint test is strictly sharper than the per-copy test: after one selfing of F×M (no crossover
    possible at marker 1) the two copies [1,2] and [3,4] would need two different copies of the
    female as copy 0 of the one hybrid — each copy alone passes, the pair is rejected; a pair that one
    hybrid explains is accepted -/
example :
    let pop : Pop Int := [([1, 2], [3, 4]), ([5, 6], [7, 8])]
    let xo : List Int := [1, 0]
    mosaicCheck (sources .twoWay 1 pop [0, 1]).1 xo [1, 2] = true ∧
    mosaicCheck (sources .twoWay 1 pop [0, 1]).2 xo [3, 4] = true ∧
    pedCheck (pedOf .twoWay 1 [0, 1]) pop xo ([1, 2], [3, 4]) = false ∧
    pedCheck (pedOf .twoWay 1 [0, 1]) pop xo ([1, 2], [7, 8]) = true := by decide +kernel

end C01
