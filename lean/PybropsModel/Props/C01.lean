/-
C01 — Mendelian fidelity of the mating protocols.  Property theorems only.

Model: PybropsModel/Model/Meiosis.lean (`segLoop`/`gameteLoop` transcribe the segment-copy loop of
`mat_meiosis` / `dense_meiosis`; `mateE`, `dhE` transcribe `mat_mate`, `mat_dh`) and
PybropsModel/Model/Mating.lean (`generate` / `mate` transcribe the seven `mate()` methods, `groupTaxa`
the final `group_taxa()`, `specMate` is the decidable Spec the harness evaluates on the
implementation's outputs).  Helper lemmas: PybropsModel/Lemmas/{MeiosisLoop,Mosaic,Repeat,
MatingStages,MatingProtocols,MatingSort,MatingSpec}.lean.

Conventions.  `mate … = .ok out` says the model accepts the input (rectangular diploid matrix,
xconfig of the protocol's width, count arrays of length ncross, every selected index inside the
matrix, draws of the shapes the code requests); the examples show it is met by concrete inputs for
every protocol.  `Nonneg draws` is the generator contract `0 ≤ u` for uniform draws — the only fact
about the random stream that is used; nothing is assumed about the crossover probabilities.
-/
import PybropsModel.Lemmas.MatingSpec
import PybropsModel.Lemmas.MosaicPath
import PybropsModel.Lemmas.MatingDemo
import PybropsModel.Lemmas.PedigreeSpec
import PybropsModel.Lemmas.MatingTotal
set_option autoImplicit false
set_option linter.unusedSectionVars false

namespace C01
open Meiosis Mating

/-! ## 1. The segment-copy loop of `mat_meiosis` -/

section loop
variable {α : Type}

/-- The literal loop (`for spix in flatnonzero(rnd < xoprob): copy [stix, spix); flip`) computes
    the per-marker mosaic, for every mask and every pair of haplotypes of the mask's length. -/
theorem meiosisLoop_eq_gamete (ind : Ind α) (mask : List Bool)
    (h0 : ind.1.length = mask.length) (h1 : ind.2.length = mask.length) :
    gameteLoop ind mask = gamete ind mask :=
  gameteLoop_eq_gamete ind mask h0 h1

/-- Every cell of a gamete is the parent's cell at the same marker, taken from the copy given by the
    parity of the crossovers drawn at markers 0..j. -/
theorem gamete_mosaic (ind : Ind α) (mask : List Bool)
    (h0 : ind.1.length = mask.length) (h1 : ind.2.length = mask.length) (j : Nat) (hj : j < mask.length) :
    (gamete ind mask)[j]? = if phaseAt mask j then ind.2[j]? else ind.1[j]? := by
  have := perMarker_getElem? mask false ind.1 ind.2 j h0 h1 hj
  simpa [gamete] using this

variable {ρ : Type} [Preorder ρ] [DecidableLT ρ] [Zero ρ]

/-- The source copy changes between markers j and j+1 only if `xoprob[j+1] > 0`
    (a change needs a draw `0 ≤ r < xoprob[j+1]`). -/
theorem phase_switch_only_where_xo_pos (r xo : List ρ) (hr : ∀ x ∈ r, (0 : ρ) ≤ x) (j : Nat)
    (hj : j + 1 < (xoMask r xo).length)
    (hsw : phaseAt (xoMask r xo) (j + 1) ≠ phaseAt (xoMask r xo) j) :
    (0 : ρ) < xo[j + 1]'(by simp [xoMask] at hj; omega) := by
  rw [phaseAt_step _ j hj] at hsw
  have hm : (xoMask r xo)[j + 1] = true := by
    cases h : (xoMask r xo)[j + 1]
    · rw [h] at hsw; simp at hsw
    · rfl
  rw [xoMask_getElem] at hm
  have hlt := of_decide_eq_true hm
  exact lt_of_le_of_lt (hr _ (List.getElem_mem _)) hlt

/-- A gamete starts on copy 1 only if `xoprob[0] > 0`. -/
theorem start_phase_only_where_xo_pos (r xo : List ρ) (hr : ∀ x ∈ r, (0 : ρ) ≤ x)
    (h0 : 0 < (xoMask r xo).length) (hsw : phaseAt (xoMask r xo) 0 = true) :
    (0 : ρ) < xo[0]'(by simp [xoMask] at h0; omega) := by
  have hm : (xoMask r xo)[0] = true := by rw [← phaseAt_zero' _ h0]; exact hsw
  rw [xoMask_getElem] at hm
  exact lt_of_le_of_lt (hr _ (List.getElem_mem _)) (of_decide_eq_true hm)

end loop

example : gameteLoop (α := Int) ([1, 2, 3, 4], [11, 12, 13, 14]) [true, false, true, false] = [11, 12, 3, 4] := by decide
example : gamete (α := Int) ([1, 2, 3, 4], [11, 12, 13, 14]) [true, false, true, false] = [11, 12, 3, 4] := by decide
example : phaseAt [true, false, true, false] 1 = true ∧ phaseAt [true, false, true, false] 2 = false := by decide
example : xoMask (ρ := Int) [0, 0, 1, 1] [1, 0, 2, 1] = [true, false, true, false] := by decide

/-! ## 2. The seven protocols -/

section protocols
variable {α ρ : Type} [Preorder ρ] [DecidableLT ρ] [Zero ρ]
variable {P : Proto} {pop : Pop α} {xc : List (List Nat)} {nmating nprogeny : Cnt} {nself : Nat}
    {xo : List ρ} {pc fc : Nat} {draws : List (DrawMat ρ)} {out : Out α}

/-- **Provenance.**  For every protocol, every selfing depth, every cross configuration and every
    non-negative random stream: each row of the result carries the family label of a cross of the
    configuration, chromosome copy 0 is a left-to-right mosaic of the haplotypes that cross assigns
    to the phase-0 side and copy 1 of those it assigns to the phase-1 side (`Mating.sources`: the
    female / recurrent parent / F1×M1 side, resp. the male / intermediate-hybrid side; all of the
    hybrid's sources for both copies once the line has been selfed or doubled); the source can
    change only at a marker whose crossover probability is positive (`Mating.MosaicFrom`). -/
theorem progeny_mosaic (h : mate P pop xc nmating nprogeny nself xo pc fc draws = .ok out)
    (hnn : Nonneg draws) :
    ∀ r ∈ out.rows, fc ≤ r.grp ∧ ∃ cross, xc[r.grp - fc]? = some cross ∧
      Mosaic (sources P nself pop cross).1 xo r.ind.1 ∧ Mosaic (sources P nself pop cross).2 xo r.ind.2 := by
  intro r hr
  obtain ⟨h1, cross, hc, m1, m2, _⟩ := mate_rows h hnn r hr
  exact ⟨h1, cross, hc, m1, m2⟩

/-- **Pedigree.**  The sharper reading of "(or intermediate hybrid)": every row of the result has
    the pedigree that the configuration row of its family prescribes (`Mating.lineage`, the crossing
    diagram of the protocol's docstring as a predicate): e.g. for the three-way cross with `nself`
    selfings there are a recurrent parent `R = pgmat[cross[0]]`, an F1 `H1` whose copy 0 is a mosaic
    of the two copies of `pgmat[cross[1]]` and whose copy 1 is a mosaic of the two copies of
    `pgmat[cross[2]]`, a hybrid `H` = (mosaic of R's copies, mosaic of H1's copies), and a chain of
    `nself` individuals each of which has both copies mosaics of the two copies of *the one*
    previous individual, ending in the row; a DH row is one gamete of the last individual, twice.
    All mosaics switch only where the crossover probability is positive. -/
theorem progeny_pedigree (h : mate P pop xc nmating nprogeny nself xo pc fc draws = .ok out)
    (hnn : Nonneg draws) :
    ∀ r ∈ out.rows, fc ≤ r.grp ∧ ∃ cross, xc[r.grp - fc]? = some cross ∧ lineage xo P nself pop cross r.ind :=
  mate_pedigree h hnn

/-- Doubled-haploid progeny are homozygous at every locus. -/
theorem dh_homozygous (h : mate P pop xc nmating nprogeny nself xo pc fc draws = .ok out)
    (hnn : Nonneg draws) (hP : P.isDH = true) : ∀ r ∈ out.rows, r.ind.1 = r.ind.2 := by
  intro r hr
  obtain ⟨_, _, _, _, _, hd⟩ := mate_rows h hnn r hr
  exact hd hP

/-- The number of progeny is `Σ nmating_i · nprogeny_i`. -/
theorem progeny_count (h : mate P pop xc nmating nprogeny nself xo pc fc draws = .ok out) :
    ∃ nm np, nmating.expand xc.length = .ok nm ∧ nprogeny.expand xc.length = .ok np ∧
      out.rows.length = (List.zipWith (· * ·) nm np).sum := by
  obtain ⟨nm, np, h1, h2, hc, _⟩ := mate_labels h
  exact ⟨nm, np, h1, h2, hc⟩

/-- The family labels of the result are, position by position, `family_counter + i` repeated
    `nmating_i · nprogeny_i` times for the crosses `i = 0, 1, …` in configuration order — for every
    value of the counters (the final `group_taxa()` cannot disturb the family sequence). -/
theorem family_labels (h : mate P pop xc nmating nprogeny nself xo pc fc draws = .ok out) :
    ∃ nm np, nmating.expand xc.length = .ok nm ∧ nprogeny.expand xc.length = .ok np ∧
      out.rows.map Row.grp = Np.repeatEach (List.zipWith (· * ·) nm np) (Np.arange fc xc.length) := by
  obtain ⟨nm, np, h1, h2, _, hg, _⟩ := mate_labels h
  exact ⟨nm, np, h1, h2, hg⟩

/-- Both counters advance by exactly the numbers produced. -/
theorem counters_advance (h : mate P pop xc nmating nprogeny nself xo pc fc draws = .ok out) :
    out.pc = pc + out.rows.length ∧ out.fc = fc + xc.length := by
  obtain ⟨nm, np, _, _, hc, _, hp, hf, _⟩ := mate_labels h
  exact ⟨by rw [hp, hc], hf⟩

/-- The names are exactly the generated names `prefix ++ zfill7 (progeny_counter + k)`, each carried
    by a row of the family it was generated for (all counter values). -/
theorem names_generated (h : mate P pop xc nmating nprogeny nself xo pc fc draws = .ok out) :
    ∃ nm np, nmating.expand xc.length = .ok nm ∧ nprogeny.expand xc.length = .ok np ∧
      let per := List.zipWith (· * ·) nm np
      let expect := (Np.arange pc per.sum).map (name P.pre)
      (out.rows.map Row.name).Perm expect ∧
      ∀ r ∈ out.rows, (r.name, r.grp) ∈ List.zip expect (Np.repeatEach per (Np.arange fc xc.length)) := by
  obtain ⟨nm, np, h1, h2, _, _, _, _, hp, hm, _⟩ := mate_labels h
  exact ⟨nm, np, h1, h2, hp, hm⟩

/-- While `progeny_counter + count ≤ 10^7` (no name outgrows the 7-digit zero fill) the rows are in
    generation order: row `k` is named `prefix ++ zfill7 (progeny_counter + k)`.

    FULL STATEMENT (false of the as-is model, see `order_preserved_counterexample`):
      mate P pop xc nmating nprogeny nself xo pc fc draws = .ok out →
        out.rows.map Row.name = (Np.arange pc out.rows.length).map (name P.pre)
    What holds for all counters is `names_generated` + `family_labels`: `group_taxa()` sorts names as
    strings, so inside one family "…10000000" precedes "…9999999". -/
theorem order_preserved_partial (h : mate P pop xc nmating nprogeny nself xo pc fc draws = .ok out)
    (hsmall : pc + out.rows.length ≤ 10 ^ 7) :
    out.rows.map Row.name = (Np.arange pc out.rows.length).map (name P.pre) := by
  obtain ⟨nm, np, _, _, hc, _, _, _, _, _, hs⟩ := mate_labels h
  rw [hc] at hsmall ⊢
  exact hs hsmall

/-- **Acceptance.**  The hypothesis `mate … = .ok out` of the theorems above is met by every valid
    input: rectangular diploid matrix with `len(xoprob)` markers, configuration of the protocol's
    width naming only taxa of the matrix, count arrays (or scalars) with one entry per cross, and
    draw matrices of the shapes the code requests (`Mating.drawRows`). -/
theorem model_accepts_valid_inputs {nm np : List Nat} (hs : popShaped pop xo.length = true)
    (hw : ∀ r ∈ xc, r.length = P.nparent) (hidx : ∀ r ∈ xc, ∀ s ∈ r, s < pop.length)
    (hnm : nmating.expand xc.length = .ok nm) (hnp : nprogeny.expand xc.length = .ok np)
    (hd : DrawsFit (drawRows P nm np nself) xo.length draws) :
    ∃ out, mate P pop xc nmating nprogeny nself xo pc fc draws = .ok out :=
  mate_accepts P hs hw hidx hnm hnp hd

end protocols

/-- Four progeny of one two-way cross generated with `progeny_counter = 9999998`: the returned row
    order is 10000000, 10000001, 9999998, 9999999 — not the generation order.  (Replayed on the real
    code by the corpus case with `pc = 9999998`.) -/
theorem order_preserved_counterexample :
    namesOf (mate (ρ := Int) .twoWay [([1], [2]), ([3], [4])] [[0, 1]] (.scalar 1) (.scalar 4) 0 [0] 9999998 0
        [[[0], [0], [0], [0]], [[0], [0], [0], [0]]])
      = some [name [50, 119] 10000000, name [50, 119] 10000001, name [50, 119] 9999998, name [50, 119] 9999999]
    ∧ [name [50, 119] 10000000, name [50, 119] 10000001, name [50, 119] 9999998, name [50, 119] 9999999]
      ≠ (Np.arange 9999998 4).map (name [50, 119]) := by
  decide +kernel

/-! ## 3. The Spec oracle -/

section spec
variable {α ρ : Type} [Preorder ρ] [DecidableLT ρ] [Zero ρ] [BEq α] [LawfulBEq α]

/-- The decidable Spec that the harness evaluates on the implementation's outputs
    (`Mating.specMate`: count, family labels, names, counters, per-row mosaic test, DH homozygosity)
    holds of every output of the model, for every protocol and every input. -/
theorem spec_sound {P : Proto} {pop : Pop α} {xc : List (List Nat)} {nmating nprogeny : Cnt} {nself : Nat}
    {xo : List ρ} {pc fc : Nat} {draws : List (DrawMat ρ)} {out : Out α}
    (h : mate P pop xc nmating nprogeny nself xo pc fc draws = .ok out) (hnn : Nonneg draws) :
    (specMate P pop xc nmating nprogeny nself xo pc fc out).1 = true :=
  spec_of_mate h hnn

/-- The reachability test used by the Spec decides the mosaic predicate exactly. -/
theorem mosaicCheck_correct (srcs : List (List α)) (xo : List ρ) (o : List α) :
    mosaicCheck srcs xo o = true ↔ Mosaic srcs xo o :=
  mosaicCheck_iff srcs xo o

/-- What `Mosaic` means, in index form: there is a path `p` (one source index per marker) such that
    every cell of the copy is the cell of source `p[j]` at the same marker `j`, and the path changes
    between markers j and j+1 only if `xoprob[j+1] > 0`. -/
theorem mosaic_meaning {srcs : List (List α)} {xo : List ρ} {o : List α} (h : Mosaic srcs xo o) :
    ∃ p : List Nat, p.length = o.length ∧
      (∀ j, j < o.length → ∃ src, srcs[p.getD j 0]? = some src ∧ src[j]? = o[j]?) ∧
      (∀ j, j + 1 < o.length → p.getD (j + 1) 0 ≠ p.getD j 0 → ∃ x, xo[j + 1]? = some x ∧ 0 < x) :=
  h.path

end spec

/-! ## Non-vacuity: every protocol accepts a concrete input with crossovers, selfing and array counts -/

example : cells (mate .twoWay demoPop [[0, 1]] (.scalar 1) (.scalar 2) 0 demoXo 5 2 (List.replicate 2 (demoDraw 2)))
    = [([4, 5, 6], [10, 11, 12]), ([4, 5, 6], [10, 11, 12])] := by decide +kernel
example : accepted (mate .self demoPop [[1], [3]] (.arr [1, 2]) (.scalar 2) 2 demoXo 0 0 (List.replicate 6 (demoDraw 6))) = true := by decide +kernel
example : accepted (mate .twoWay demoPop [[0, 1], [2, 2]] (.arr [2, 1]) (.arr [1, 3]) 1 demoXo 0 0 (List.replicate 4 (demoDraw 5))) = true := by decide +kernel
example : accepted (mate .twoWayDH demoPop [[0, 1], [2, 3]] (.arr [2, 1]) (.arr [1, 3]) 1 demoXo 0 0
    (List.replicate 4 (demoDraw 3) ++ [demoDraw 5])) = true := by decide +kernel
example : accepted (mate .threeWay demoPop [[0, 1, 2]] (.scalar 2) (.scalar 2) 1 demoXo 0 0
    (List.replicate 2 (demoDraw 2) ++ List.replicate 4 (demoDraw 4))) = true := by decide +kernel
example : accepted (mate .threeWayDH demoPop [[0, 1, 2], [3, 2, 1]] (.arr [1, 2]) (.arr [2, 1]) 1 demoXo 0 0
    (List.replicate 6 (demoDraw 3) ++ [demoDraw 4])) = true := by decide +kernel
example : accepted (mate .fourWay demoPop [[0, 1, 2, 3]] (.scalar 2) (.scalar 3) 0 demoXo 0 0
    (List.replicate 4 (demoDraw 2) ++ List.replicate 2 (demoDraw 6))) = true := by decide +kernel
example : accepted (mate .fourWayDH demoPop [[0, 1, 2, 3], [1, 1, 1, 1]] (.scalar 2) (.arr [1, 2]) 1 demoXo 0 0
    (List.replicate 8 (demoDraw 4) ++ [demoDraw 6])) = true := by decide +kernel
example : Nonneg (List.replicate 4 (demoDraw 5)) := by
  intro m hm r hr x hx
  have hm' : m = demoDraw 5 := (List.mem_replicate.mp hm).2
  subst hm'
  have hr' : r = [0, 0, 1] := (List.mem_replicate.mp hr).2
  subst hr'
  simp at hx
  rcases hx with rfl | rfl <;> decide
example : 0 + 4 ≤ 10 ^ 7 := by decide
example : DrawsFit (drawRows .threeWay [2] [2] 1) demoXo.length
    (List.replicate 2 (demoDraw 2) ++ List.replicate 4 (demoDraw 4)) := by
  unfold DrawsFit
  decide
example : (specMate .twoWay demoPop [[0, 1]] (.scalar 1) (.scalar 2) 0 demoXo 5 2
    ⟨[⟨([4, 5, 6], [10, 11, 12]), name [50, 119] 5, 2⟩, ⟨([4, 5, 6], [10, 11, 12]), name [50, 119] 6, 2⟩], 7, 3, []⟩).1 = true := by
  decide +kernel
/-- the Spec rejects a progeny whose phase-0 copy comes from the male -/
example : (specMate .twoWay demoPop [[0, 1]] (.scalar 1) (.scalar 2) 0 demoXo 5 2
    ⟨[⟨([10, 11, 12], [4, 5, 6]), name [50, 119] 5, 2⟩, ⟨([4, 5, 6], [10, 11, 12]), name [50, 119] 6, 2⟩], 7, 3, []⟩).1 = false := by
  decide +kernel
/-- … and a switch at a marker whose crossover probability is zero -/
example : mosaicCheck (α := Int) (ρ := Int) [[1, 2, 3], [4, 5, 6]] [1, 0, 1] [1, 5, 6] = false
    ∧ mosaicCheck (α := Int) (ρ := Int) [[1, 2, 3], [4, 5, 6]] [1, 0, 1] [1, 2, 6] = true := by decide +kernel

end C01
