/-
C13 — Relationship matrices match their definitions and algebraic laws.
Property theorems only (helper lemmas live in Lemmas/Coancestry*.lean).

Model: PybropsModel/Model/Coancestry.lean (`molecular`, `vanraden`, `yang`/`yangClosed`, `gw` transcribe
the four `from_gmat`s of pybrops/popgen/cmat; `asFormat`, `kinshipAt`, `maxAll` … transcribe
DenseCoancestryMatrix).  A matrix is a nested list; `entry G i j` reads one entry, `Rect n m X` says
that `X` has `n` rows of length `m`.  Quadratic forms are written with `Finset` sums over index ranges.
-/
import PybropsModel.Lemmas.CoancestryEntries
import PybropsModel.Lemmas.CoancestrySelect
import PybropsModel.Lemmas.CoancestrySumm
import PybropsModel.Lemmas.CoancestryMinInb
import PybropsModel.Lemmas.CoancestryReal
import PybropsModel.Lemmas.CoancestryPerm
import PybropsModel.Lemmas.CoancestryAxis
import PybropsModel.Lemmas.CoancestryJitter
import PybropsModel.Lemmas.CoancestryRound
import PybropsModel.Lemmas.CoancestryKin
import PybropsModel.Lemmas.CoancestryObj
import PybropsModel.Lemmas.CoancestryInt
import PybropsModel.Lemmas.CoancestryScale
import PybropsModel.Lemmas.CoancestryPsd
import PybropsModel.Lemmas.CoancestrySpecSound
import PybropsModel.Lemmas.CoancestryRound4
set_option autoImplicit false
set_option linter.unusedSectionVars false

namespace C13
open Coancestry Finset

section ordered
variable {α : Type} [Field α] [LinearOrder α] [IsStrictOrderedRing α]

/-! ### molecular coancestry = twice the average identity-by-state probability -/

/-- **Unphased form.**  For ploidy 1 or 2, any number of taxa and `m ≥ 1` markers, every entry of the
    molecular matrix is twice the mean over markers of the probability that an allele drawn from taxon
    `i` and one drawn from taxon `j` are identical by state, computed from the allele counts. -/
theorem molecular_eq_twice_ibs_counts (ploidy n m : Nat) (X : List (List α)) (hX : Rect n m X)
    (hpl : ploidy = 1 ∨ ploidy = 2) (hm : 0 < m) :
    ∃ G, molecular ploidy m X = .ok G ∧ Rect n n G ∧
      ∀ i < n, ∀ j < n, entry G i j = molecularFormula m (ibsCount ploidy X) i j := by
  have hm0 : m ≠ 0 := Nat.pos_iff_ne_zero.mp hm
  have hmα : (m : α) ≠ 0 := Nat.cast_ne_zero.mpr hm0
  rcases hpl with rfl | rfl
  · obtain ⟨G, hG, hR, hE⟩ := molecular_one_entry n m X hX hm0
    refine ⟨G, hG, hR, ?_⟩
    intro i hi j hj
    rw [hE i hi j hj]
    unfold molecularFormula ibsCount
    rw [sumRange_eq, ← Finset.sum_add_distrib]
    simp only [Nat.cast_one, Nat.mul_one, div_one]
    field_simp
  · obtain ⟨G, hG, hR, hE⟩ := molecular_two_entry n m X hX hm0
    refine ⟨G, hG, hR, ?_⟩
    intro i hi j hj
    rw [hE i hi j hj]
    unfold molecularFormula ibsCount
    rw [sumRange_eq]
    have key : ∀ l, (entry X i l * entry X j l + (((2 : Nat) : α) - entry X i l) * (((2 : Nat) : α) - entry X j l))
        / (((2 * 2 : Nat)) : α) = (1 + (entry X i l - 1) * (entry X j l - 1)) / 2 := by
      intro l
      push_cast
      field_simp
      ring
    simp_rw [key]
    rw [← Finset.sum_div, Finset.sum_add_distrib, Finset.sum_const, Finset.card_range, nsmul_eq_mul, mul_one]
    field_simp
    ring

/-- **Phased form (the property's wording).**  Alleles are given per phase (`g[phase][taxon][marker]`,
    each 0 or 1, one or two phases).  The matrix computed from the allele counts `tacount` equals twice
    the average, over markers, of the probability that two alleles drawn at random — one from each
    individual — are identical by state (counted directly on the `ploidy²` allele pairs). -/
theorem molecular_eq_twice_ibs (g : List (List (List α))) (n m : Nat)
    (hpl : g.length = 1 ∨ g.length = 2) (hg : ∀ ph ∈ g, Rect n m ph)
    (hbin : ∀ ph ∈ g, ∀ i < n, ∀ k < m, entry ph i k = 0 ∨ entry ph i k = 1) (hm : 0 < m) :
    ∃ G, molecular g.length m (tacountPhased g) = .ok G ∧ Rect n n G ∧
      ∀ i < n, ∀ j < n, entry G i j = molecularFormula m (ibsPhased g) i j := by
  rcases hpl with h1 | h2
  · -- haploid: g = [g0]
    obtain ⟨g0, rfl⟩ : ∃ g0, g = [g0] := by
      match g, h1 with
      | [g0], _ => exact ⟨g0, rfl⟩
    have h0 : Rect n m g0 := hg g0 (by simp)
    have hb0 := hbin g0 (by simp)
    obtain ⟨G, hG, hR, hE⟩ := molecular_eq_twice_ibs_counts 1 n m g0 h0 (Or.inl rfl) hm
    refine ⟨G, by simpa [tacountPhased] using hG, hR, ?_⟩
    intro i hi j hj
    rw [hE i hi j hj]
    unfold molecularFormula
    congr 2
    rw [sumRange_eq, sumRange_eq]
    apply Finset.sum_congr rfl
    intro k hk
    have hk' := Finset.mem_range.mp hk
    unfold ibsPhased ibsCount
    simp only [List.length_cons, List.length_nil, Nat.reduceAdd, sumRange_eq, Finset.sum_range_one,
      List.getD_cons_zero, Nat.cast_one, Nat.mul_one, div_one]
    rw [ind_binary _ _ (hb0 i hi k hk') (hb0 j hj k hk')]
  · -- diploid: g = [g0, g1]
    obtain ⟨g0, g1, rfl⟩ : ∃ g0 g1, g = [g0, g1] := by
      match g, h2 with
      | [g0, g1], _ => exact ⟨g0, g1, rfl⟩
    have h0 : Rect n m g0 := hg g0 (by simp)
    have h1 : Rect n m g1 := hg g1 (by simp)
    have hb0 := hbin g0 (by simp)
    have hb1 := hbin g1 (by simp)
    have hT : tacountPhased [g0, g1] = zipMat (fun a b : α => a + b) g0 g1 := by simp [tacountPhased]
    have hTR : Rect n m (zipMat (fun a b : α => a + b) g0 g1) := by
      refine ⟨by simp [zipMat, h0.1, h1.1], ?_⟩
      intro r hr
      simp only [zipMat] at hr
      obtain ⟨k, hk, rfl⟩ := List.mem_iff_getElem.mp hr
      simp only [List.length_zipWith, lt_min_iff] at hk
      simp [h0.2 _ (List.getElem_mem hk.1), h1.2 _ (List.getElem_mem hk.2)]
    obtain ⟨G, hG, hR, hE⟩ := molecular_eq_twice_ibs_counts 2 n m _ hTR (Or.inr rfl) hm
    refine ⟨G, by rw [hT]; exact hG, hR, ?_⟩
    intro i hi j hj
    rw [hE i hi j hj]
    unfold molecularFormula
    congr 2
    rw [sumRange_eq, sumRange_eq]
    apply Finset.sum_congr rfl
    intro k hk
    have hk' := Finset.mem_range.mp hk
    unfold ibsPhased ibsCount
    rw [entry_zipMat _ g0 g1 n m i k h0 h1 hi hk', entry_zipMat _ g0 g1 n m j k h0 h1 hj hk']
    simp only [List.length_cons, List.length_nil, Nat.reduceAdd, sumRange_eq, Finset.sum_range_succ,
      Finset.sum_range_zero, zero_add, List.getD_cons_zero, List.getD_cons_succ]
    rw [ind_binary _ _ (hb0 i hi k hk') (hb0 j hj k hk'), ind_binary _ _ (hb0 i hi k hk') (hb1 j hj k hk'),
      ind_binary _ _ (hb1 i hi k hk') (hb0 j hj k hk'), ind_binary _ _ (hb1 i hi k hk') (hb1 j hj k hk')]
    push_cast
    ring

/-! ### VanRaden, Yang, generalised weighted: the published formulas -/

/-- the VanRaden denominator is positive as soon as the reference frequencies lie in [0,1] and one
    marker is polymorphic in the reference (`0 < p < 1`) -/
theorem vanraden_den_pos (ploidy m : Nat) (p : List α) (hpl : 0 < ploidy)
    (h01 : ∀ k < m, 0 ≤ p.getD k 0 ∧ p.getD k 0 ≤ 1) (hpoly : ∃ k < m, 0 < p.getD k 0 ∧ p.getD k 0 < 1) :
    0 < (ploidy : α) * ∑ k ∈ range m, p.getD k 0 * (1 - p.getD k 0) := by
  apply mul_pos (Nat.cast_pos.mpr hpl)
  obtain ⟨k, hk, h0, h1⟩ := hpoly
  apply Finset.sum_pos'
  · intro l hl
    have := h01 l (Finset.mem_range.mp hl)
    exact mul_nonneg this.1 (sub_nonneg.mpr this.2)
  · exact ⟨k, Finset.mem_range.mpr hk, mul_pos h0 (sub_pos.mpr h1)⟩

/-- **VanRaden.**  For every genotype matrix, ploidy ≥ 1 and reference frequencies in [0,1] with at
    least one polymorphic marker: `G_ij = Σ_k (x_ik − c p_k)(x_jk − c p_k) / (c Σ_k p_k(1−p_k))`, `c` = ploidy. -/
theorem vanraden_def (ploidy n m : Nat) (p : List α) (X : List (List α)) (hX : Rect n m X)
    (hp : p.length = m) (hpl : 0 < ploidy)
    (h01 : ∀ k < m, 0 ≤ p.getD k 0 ∧ p.getD k 0 ≤ 1) (hpoly : ∃ k < m, 0 < p.getD k 0 ∧ p.getD k 0 < 1) :
    ∃ G, vanraden ploidy p X = .ok G ∧ Rect n n G ∧
      ∀ i < n, ∀ j < n, entry G i j = vanradenFormula ploidy m p X i j := by
  have hden := (vanraden_den_pos ploidy m p hpl h01 hpoly).ne'
  obtain ⟨G, hG, hR, hE⟩ := vanraden_entry ploidy n m p X hX hp hden
  refine ⟨G, hG, hR, ?_⟩
  intro i hi j hj
  rw [hE i hi j hj]
  unfold vanradenFormula
  rw [sumRange_eq, sumRange_eq, one_div, mul_comm, ← div_eq_mul_inv]
  congr 1
  apply Finset.sum_congr rfl
  intro l _
  ring

/-- the allele-frequency estimate used when `p_anc` is `None`: column total over `ploidy · n` -/
theorem afreq_def (ploidy n m : Nat) (X : List (List α)) (hX : Rect n m X) :
    (afreq ploidy n m X).length = m ∧
      ∀ k < m, (afreq ploidy n m X).getD k 0 = afreqFormula ploidy n X k := by
  refine ⟨length_afreq ploidy n m X, ?_⟩
  intro k hk
  rw [getD_afreq ploidy n m X k hX hk]
  unfold afreqFormula
  rw [sumRange_eq]

/-- for allele counts within `0..ploidy` the estimated frequency lies in [0,1]; it is strictly inside
    exactly when the marker is polymorphic (`0 < Σ_i x_ik < ploidy·n`) -/
theorem afreq_unit (ploidy n : Nat) (X : List (List α)) (k : Nat) (hpl : 0 < ploidy) (hn : 0 < n)
    (hrange : ∀ i < n, 0 ≤ entry X i k ∧ entry X i k ≤ (ploidy : α)) :
    (0 ≤ afreqFormula ploidy n X k ∧ afreqFormula ploidy n X k ≤ 1) ∧
      ((0 < ∑ i ∈ range n, entry X i k ∧ ∑ i ∈ range n, entry X i k < (ploidy : α) * n) →
        0 < afreqFormula ploidy n X k ∧ afreqFormula ploidy n X k < 1) := by
  have hden : (0 : α) < ((ploidy * n : Nat) : α) := Nat.cast_pos.mpr (Nat.mul_pos hpl hn)
  have hs0 : 0 ≤ ∑ i ∈ range n, entry X i k :=
    Finset.sum_nonneg (fun i hi => (hrange i (Finset.mem_range.mp hi)).1)
  have hs1 : ∑ i ∈ range n, entry X i k ≤ ((ploidy * n : Nat) : α) := by
    calc ∑ i ∈ range n, entry X i k ≤ ∑ _i ∈ range n, (ploidy : α) :=
          Finset.sum_le_sum (fun i hi => (hrange i (Finset.mem_range.mp hi)).2)
      _ = ((ploidy * n : Nat) : α) := by
          rw [Finset.sum_const, Finset.card_range, nsmul_eq_mul]; push_cast; ring
  unfold afreqFormula
  rw [sumRange_eq]
  refine ⟨⟨div_nonneg hs0 hden.le, (div_le_one hden).mpr hs1⟩, ?_⟩
  rintro ⟨h0, h1⟩
  refine ⟨div_pos h0 hden, (div_lt_one hden).mpr ?_⟩
  push_cast
  exact h1

/-- **VanRaden with estimated frequencies** (`p_anc = None`): for every genotype matrix with counts in
    `0..ploidy`, at least one taxon and at least one polymorphic marker, the matrix is the VanRaden formula
    with `p_k = Σ_i x_ik / (ploidy · n)`. -/
theorem vanraden_def_estimated (ploidy n m : Nat) (X : List (List α)) (hX : Rect n m X) (hpl : 0 < ploidy)
    (hn : 0 < n) (hrange : ∀ i < n, ∀ k < m, 0 ≤ entry X i k ∧ entry X i k ≤ (ploidy : α))
    (hpoly : ∃ k < m, 0 < ∑ i ∈ range n, entry X i k ∧ ∑ i ∈ range n, entry X i k < (ploidy : α) * n) :
    ∃ G, vanraden ploidy (afreq ploidy n m X) X = .ok G ∧ Rect n n G ∧
      ∀ i < n, ∀ j < n, entry G i j = vanradenFormula ploidy m (afreq ploidy n m X) X i j := by
  obtain ⟨hl, hk⟩ := afreq_def ploidy n m X hX
  apply vanraden_def ploidy n m _ X hX hl hpl
  · intro k hkm
    rw [hk k hkm]
    exact (afreq_unit ploidy n X k hpl hn (fun i hi => hrange i hi k hkm)).1
  · obtain ⟨k, hkm, h⟩ := hpoly
    refine ⟨k, hkm, ?_⟩
    rw [hk k hkm]
    exact (afreq_unit ploidy n X k hpl hn (fun i hi => hrange i hi k hkm)).2 h

/-- **Yang (square-root free closed form, the one executed at `Rat`).**
    `G_ij = (1/m) Σ_k (x_ik − c p_k)(x_jk − c p_k) / (c p_k (1−p_k))` for frequencies strictly inside (0,1). -/
theorem yangClosed_def (ploidy n m : Nat) (p : List α) (X : List (List α)) (hX : Rect n m X)
    (hp : p.length = m) (hpl : 0 < ploidy) (hm : 0 < m)
    (h01 : ∀ k < m, 0 < p.getD k 0 ∧ p.getD k 0 < 1) :
    ∃ G, yangClosed ploidy m p X = .ok G ∧ Rect n n G ∧
      ∀ i < n, ∀ j < n, entry G i j = yangFormula ploidy m p X i j := by
  have hd : ∀ k < m, (ploidy : α) * p.getD k 0 * (1 - p.getD k 0) ≠ 0 := by
    intro k hk
    have := h01 k hk
    exact (mul_pos (mul_pos (Nat.cast_pos.mpr hpl) this.1) (sub_pos.mpr this.2)).ne'
  obtain ⟨G, hG, hR, hE⟩ := yangClosed_entry ploidy n m p X hX hp (Nat.pos_iff_ne_zero.mp hm) hd
  refine ⟨G, hG, hR, ?_⟩
  intro i hi j hj
  rw [hE i hi j hj]
  unfold yangFormula
  rw [sumRange_eq, one_div, mul_comm, ← div_eq_mul_inv]
  congr 1
  apply Finset.sum_congr rfl
  intro l _
  ring

/-- **Generalised weighted.**  `G_ij = Σ_k w_k (x_ik − c p_k)(x_jk − c p_k)` for all inputs. -/
theorem gw_def (ploidy n m : Nat) (w p : List α) (X : List (List α)) (hX : Rect n m X)
    (hp : p.length = m) (hw : w.length = m) :
    Rect n n (gw ploidy w p X) ∧
      ∀ i < n, ∀ j < n, entry (gw ploidy w p X) i j = gwFormula ploidy m w p X i j := by
  obtain ⟨hR, hE⟩ := gw_entry ploidy n m w p X hX hp hw
  refine ⟨hR, ?_⟩
  intro i hi j hj
  rw [hE i hi j hj]
  unfold gwFormula
  rw [sumRange_eq]
  apply Finset.sum_congr rfl
  intro l _
  ring

/-! ### symmetry -/

/-- the molecular matrix is symmetric (all sizes, both ploidies) -/
theorem molecular_symmetric (ploidy n m : Nat) (X G : List (List α)) (hX : Rect n m X)
    (h : molecular ploidy m X = .ok G) : ∀ i < n, ∀ j < n, entry G i j = entry G j i := by
  obtain ⟨hm, hpl⟩ := molecular_ok_ploidy ploidy m X G h
  intro i hi j hj
  rcases hpl with rfl | rfl
  · obtain ⟨G', hG', _, hE⟩ := molecular_one_entry n m X hX hm
    rw [hG'] at h; cases h
    rw [hE i hi j hj, hE j hj i hi]
    congr 2 <;> exact Finset.sum_congr rfl (fun l _ => mul_comm _ _)
  · obtain ⟨G', hG', _, hE⟩ := molecular_two_entry n m X hX hm
    rw [hG'] at h; cases h
    rw [hE i hi j hj, hE j hj i hi]
    congr 2
    exact Finset.sum_congr rfl (fun l _ => mul_comm _ _)

theorem vanraden_symmetric (ploidy n m : Nat) (p : List α) (X G : List (List α)) (hX : Rect n m X)
    (hp : p.length = m) (h : vanraden ploidy p X = .ok G) :
    ∀ i < n, ∀ j < n, entry G i j = entry G j i := by
  obtain ⟨G', hG', _, hE⟩ := vanraden_entry ploidy n m p X hX hp (vanraden_ok_den ploidy m p X G hp h)
  rw [hG'] at h; cases h
  intro i hi j hj
  rw [hE i hi j hj, hE j hj i hi]
  congr 1
  exact Finset.sum_congr rfl (fun l _ => mul_comm _ _)

theorem yangClosed_symmetric (ploidy n m : Nat) (p : List α) (X G : List (List α)) (hX : Rect n m X)
    (hp : p.length = m) (h : yangClosed ploidy m p X = .ok G) :
    ∀ i < n, ∀ j < n, entry G i j = entry G j i := by
  obtain ⟨hm, hd⟩ := yangClosed_ok ploidy m p X G hp h
  obtain ⟨G', hG', _, hE⟩ := yangClosed_entry ploidy n m p X hX hp hm hd
  rw [hG'] at h; cases h
  intro i hi j hj
  rw [hE i hi j hj, hE j hj i hi]
  congr 1
  exact Finset.sum_congr rfl (fun l _ => by ring)

theorem gw_symmetric (ploidy n m : Nat) (w p : List α) (X : List (List α)) (hX : Rect n m X)
    (hp : p.length = m) (hw : w.length = m) :
    ∀ i < n, ∀ j < n, entry (gw ploidy w p X) i j = entry (gw ploidy w p X) j i := by
  obtain ⟨_, hE⟩ := gw_entry ploidy n m w p X hX hp hw
  intro i hi j hj
  rw [hE i hi j hj, hE j hj i hi]
  exact Finset.sum_congr rfl (fun l _ => by ring)

/-! ### positive semidefiniteness (Gram form): `vᵀ G v ≥ 0` for every vector `v` -/

/-- molecular: `vᵀGv = (Σv)² + (1/m)‖Xᵀv‖²` (diploid), `(2/m)(‖Xᵀv‖² + ‖Yᵀv‖²)` (haploid) -/
theorem molecular_psd (ploidy n m : Nat) (X G : List (List α)) (hX : Rect n m X)
    (h : molecular ploidy m X = .ok G) (v : Nat → α) : 0 ≤ quad n G v := by
  obtain ⟨hm, hpl⟩ := molecular_ok_ploidy ploidy m X G h
  have hmα : (0 : α) ≤ 1 / (m : α) := by positivity
  rcases hpl with rfl | rfl
  · obtain ⟨G', hG', _, hE⟩ := molecular_one_entry n m X hX hm
    rw [hG'] at h; cases h
    apply quad_nonneg_of_gram2 n m _ v 0 (fun i l => entry X i l) (fun i l => 1 - entry X i l)
      (fun _ => (1 + 1) * (1 / (m : α))) (fun _ => (1 + 1) * (1 / (m : α))) le_rfl
      (fun _ _ => by positivity) (fun _ _ => by positivity)
    intro i hi j hj
    rw [hE i hi j hj, mul_add, Finset.mul_sum, Finset.mul_sum, zero_add]
    congr 1 <;> exact Finset.sum_congr rfl (fun l _ => by ring)
  · obtain ⟨G', hG', _, hE⟩ := molecular_two_entry n m X hX hm
    rw [hG'] at h; cases h
    apply quad_nonneg_of_gram2 n m _ v 1 (fun i l => entry X i l - 1) (fun _ _ => 0)
      (fun _ => 1 / (m : α)) (fun _ => 0) zero_le_one (fun _ _ => hmα) (fun _ _ => le_rfl)
    intro i hi j hj
    rw [hE i hi j hj, Finset.mul_sum]
    simp only [mul_zero, Finset.sum_const_zero, add_zero]
    congr 1
    exact Finset.sum_congr rfl (fun l _ => by ring)

/-- VanRaden: `vᵀGv = ‖Zᵀv‖² / (c Σ p(1−p)) ≥ 0` for reference frequencies in [0,1] -/
theorem vanraden_psd (ploidy n m : Nat) (p : List α) (X G : List (List α)) (hX : Rect n m X)
    (hp : p.length = m) (h01 : ∀ k < m, 0 ≤ p.getD k 0 ∧ p.getD k 0 ≤ 1)
    (h : vanraden ploidy p X = .ok G) (v : Nat → α) : 0 ≤ quad n G v := by
  obtain ⟨G', hG', _, hE⟩ := vanraden_entry ploidy n m p X hX hp (vanraden_ok_den ploidy m p X G hp h)
  rw [hG'] at h; cases h
  have hden : (0 : α) ≤ (ploidy : α) * ∑ k ∈ range m, p.getD k 0 * (1 - p.getD k 0) := by
    apply mul_nonneg (Nat.cast_nonneg _)
    exact Finset.sum_nonneg (fun l hl => by
      have := h01 l (Finset.mem_range.mp hl)
      exact mul_nonneg this.1 (sub_nonneg.mpr this.2))
  apply quad_nonneg_of_gram2 n m _ v 0 (fun i l => entry X i l - p.getD l 0 * (ploidy : α)) (fun _ _ => 0)
    (fun _ => 1 / ((ploidy : α) * ∑ k ∈ range m, p.getD k 0 * (1 - p.getD k 0))) (fun _ => 0) le_rfl
    (fun _ _ => by positivity) (fun _ _ => le_rfl)
  intro i hi j hj
  rw [hE i hi j hj, Finset.mul_sum]
  simp only [mul_zero, Finset.sum_const_zero, add_zero, zero_add]
  exact Finset.sum_congr rfl (fun l _ => by ring)

/-- Yang: `vᵀGv = (1/m) Σ_k (Σ_i v_i z_ik)² / (c p_k(1−p_k)) ≥ 0` -/
theorem yangClosed_psd (ploidy n m : Nat) (p : List α) (X G : List (List α)) (hX : Rect n m X)
    (hp : p.length = m) (h01 : ∀ k < m, 0 ≤ p.getD k 0 ∧ p.getD k 0 ≤ 1)
    (h : yangClosed ploidy m p X = .ok G) (v : Nat → α) : 0 ≤ quad n G v := by
  obtain ⟨hm, hd⟩ := yangClosed_ok ploidy m p X G hp h
  obtain ⟨G', hG', _, hE⟩ := yangClosed_entry ploidy n m p X hX hp hm hd
  rw [hG'] at h; cases h
  have hdl : ∀ l < m, (0 : α) ≤ (ploidy : α) * p.getD l 0 * (1 - p.getD l 0) := by
    intro l hl
    have := h01 l hl
    exact mul_nonneg (mul_nonneg (Nat.cast_nonneg _) this.1) (sub_nonneg.mpr this.2)
  apply quad_nonneg_of_gram2 n m _ v 0 (fun i l => entry X i l - p.getD l 0 * (ploidy : α)) (fun _ _ => 0)
    (fun l => (1 / (m : α)) * (1 / ((ploidy : α) * p.getD l 0 * (1 - p.getD l 0)))) (fun _ => 0) le_rfl
    (fun l hl => by have := hdl l hl; positivity) (fun _ _ => le_rfl)
  intro i hi j hj
  rw [hE i hi j hj, Finset.mul_sum]
  simp only [mul_zero, Finset.sum_const_zero, add_zero, zero_add]
  exact Finset.sum_congr rfl (fun l _ => by ring)

/-- generalised weighted: `vᵀGv = Σ_k w_k (Σ_i v_i z_ik)² ≥ 0` for non-negative marker weights -/
theorem gw_psd (ploidy n m : Nat) (w p : List α) (X : List (List α)) (hX : Rect n m X)
    (hp : p.length = m) (hw : w.length = m) (hw0 : ∀ k < m, 0 ≤ w.getD k 0) (v : Nat → α) :
    0 ≤ quad n (gw ploidy w p X) v := by
  obtain ⟨_, hE⟩ := gw_entry ploidy n m w p X hX hp hw
  apply quad_nonneg_of_gram2 n m _ v 0 (fun i l => entry X i l - (ploidy : α) * p.getD l 0) (fun _ _ => 0)
    (fun l => w.getD l 0) (fun _ => 0) le_rfl hw0 (fun _ _ => le_rfl)
  intro i hi j hj
  rw [hE i hi j hj]
  simp only [mul_zero, Finset.sum_const_zero, add_zero, zero_add]

/-! ### Yang exactly as written (square roots) -/

/-- **Yang, as written.**  For any square-root function with `sqrt x · sqrt x = x` on positive `x`
    (`Real.sqrt`; IEEE `sqrt` up to rounding), `Z·diag(1/√(c p(1−p)))` multiplied by its transpose and
    divided by `m` is the Yang et al. formula, for reference frequencies strictly inside (0,1). -/
theorem yang_def [HasSqrt α] (hsqrt : ∀ x : α, 0 < x → HasSqrt.sqrt x * HasSqrt.sqrt x = x)
    (ploidy n m : Nat) (p : List α) (X : List (List α)) (hX : Rect n m X)
    (hp : p.length = m) (hpl : 0 < ploidy) (hm : 0 < m)
    (h01 : ∀ k < m, 0 < p.getD k 0 ∧ p.getD k 0 < 1) :
    ∃ G, yang ploidy m p X = .ok G ∧ Rect n n G ∧
      ∀ i < n, ∀ j < n, entry G i j = yangFormula ploidy m p X i j := by
  have hdpos : ∀ k < m, 0 < (ploidy : α) * p.getD k 0 * (1 - p.getD k 0) := by
    intro k hk
    have := h01 k hk
    exact mul_pos (mul_pos (Nat.cast_pos.mpr hpl) this.1) (sub_pos.mpr this.2)
  obtain ⟨G, hG, hR, hE⟩ := yang_entry ploidy n m p X hX hp (Nat.pos_iff_ne_zero.mp hm)
    (fun k hk => (hdpos k hk).ne')
  refine ⟨G, hG, hR, ?_⟩
  intro i hi j hj
  rw [hE i hi j hj]
  unfold yangFormula
  rw [sumRange_eq, one_div, mul_comm, ← div_eq_mul_inv]
  congr 1
  apply Finset.sum_congr rfl
  intro l hl
  have hd := hdpos l (Finset.mem_range.mp hl)
  have hs := hsqrt _ hd
  have hs0 : HasSqrt.sqrt ((ploidy : α) * p.getD l 0 * (1 - p.getD l 0)) ≠ 0 := by
    intro h0; rw [h0, mul_zero] at hs; exact hd.ne hs
  set r := HasSqrt.sqrt ((ploidy : α) * p.getD l 0 * (1 - p.getD l 0)) with hr
  rw [← hs]
  field_simp

/-- `yang` exactly as written is a Gram matrix `(Z S)(Z S)ᵀ / m`: symmetric and positive semidefinite for
    *any* square-root function and any reference frequencies it accepts -/
theorem yang_symmetric [HasSqrt α] (ploidy n m : Nat) (p : List α) (X G : List (List α)) (hX : Rect n m X)
    (hp : p.length = m) (h : yang ploidy m p X = .ok G) :
    ∀ i < n, ∀ j < n, entry G i j = entry G j i := by
  obtain ⟨hm, hd⟩ := yang_ok ploidy m p X G hp h
  obtain ⟨G', hG', _, hE⟩ := yang_entry ploidy n m p X hX hp hm hd
  rw [hG'] at h; cases h
  intro i hi j hj
  rw [hE i hi j hj, hE j hj i hi]
  congr 1
  exact Finset.sum_congr rfl (fun l _ => by ring)

theorem yang_psd [HasSqrt α] (ploidy n m : Nat) (p : List α) (X G : List (List α)) (hX : Rect n m X)
    (hp : p.length = m) (h : yang ploidy m p X = .ok G) (v : Nat → α) : 0 ≤ quad n G v := by
  obtain ⟨hm, hd⟩ := yang_ok ploidy m p X G hp h
  obtain ⟨G', hG', _, hE⟩ := yang_entry ploidy n m p X hX hp hm hd
  rw [hG'] at h; cases h
  have hmα : (0 : α) ≤ 1 / (m : α) := by positivity
  apply quad_nonneg_of_gram2 n m _ v 0
    (fun i l => (entry X i l - p.getD l 0 * (ploidy : α))
      * (1 / HasSqrt.sqrt ((ploidy : α) * p.getD l 0 * (1 - p.getD l 0)))) (fun _ _ => 0)
    (fun _ => 1 / (m : α)) (fun _ => 0) le_rfl (fun _ _ => hmα) (fun _ _ => le_rfl)
  intro i hi j hj
  rw [hE i hi j hj, Finset.mul_sum]
  simp only [mul_zero, Finset.sum_const_zero, add_zero, zero_add]
  exact Finset.sum_congr rfl (fun l _ => by ring)

end ordered

/-! ### permutation / sub-selection of taxa commutes with the estimators that use given frequencies

`is` is any list of taxon indices (a permutation, an unsorted subset, even with repeats);
`Np.take is X` is `gmat.select_taxa(is)` on the count matrix, `CMat.select is` is
`<coancestry matrix>.select_taxa(is)` (rows, columns and both label arrays).  No hypothesis on shapes. -/
section select
variable {α : Type} [Add α] [Sub α] [Mul α] [Div α] [OfNat α 0] [OfNat α 1] [NatCast α]

theorem molecular_select_commutes (is : List Nat) (lab : Labels) (ploidy m : Nat) (X : List (List α)) :
    fromGmat (lab.select is) (molecular ploidy m (Np.take is X))
      = (fromGmat lab (molecular ploidy m X)).map (CMat.select is) := by
  rw [molecular_take, fromGmat_map]

variable [LT α] [DecidableLT α] [DecidableEq α]

theorem vanraden_select_commutes (is : List Nat) (lab : Labels) (ploidy : Nat) (p : List α)
    (X : List (List α)) :
    fromGmat (lab.select is) (vanraden ploidy p (Np.take is X))
      = (fromGmat lab (vanraden ploidy p X)).map (CMat.select is) := by
  rw [vanraden_take, fromGmat_map]

theorem yang_select_commutes [HasSqrt α] (is : List Nat) (lab : Labels) (ploidy m : Nat) (p : List α)
    (X : List (List α)) :
    fromGmat (lab.select is) (yang ploidy m p (Np.take is X))
      = (fromGmat lab (yang ploidy m p X)).map (CMat.select is) := by
  rw [yang_take, fromGmat_map]

theorem yangClosed_select_commutes (is : List Nat) (lab : Labels) (ploidy m : Nat) (p : List α)
    (X : List (List α)) :
    fromGmat (lab.select is) (yangClosed ploidy m p (Np.take is X))
      = (fromGmat lab (yangClosed ploidy m p X)).map (CMat.select is) := by
  rw [yangClosed_take, fromGmat_map]

theorem gw_select_commutes (is : List Nat) (lab : Labels) (ploidy : Nat) (w p : List α)
    (X : List (List α)) :
    fromGmat (lab.select is) (.ok (gw ploidy w p (Np.take is X)))
      = (fromGmat lab (.ok (gw ploidy w p X))).map (CMat.select is) := by
  rw [gw_take]; rfl

/-- **Labels are carried.**  Whatever the estimator returns, the object holds exactly the source's
    taxa names, taxa groups and — for a grouped source — its group metadata
    (`taxa_grp_name/stix/spix/len`). -/
theorem labels_carried (lab : Labels) (r : Except Err (List (List α))) (c : CMat α)
    (h : fromGmat lab r = .ok c) : c.lab = lab ∧ r = .ok c.mat := by
  cases r with
  | error e => cases h
  | ok G => cases h; exact ⟨rfl, rfl⟩

/-- the three label components separately, for a grouped source -/
theorem group_metadata_carried (lab : Labels) (r : Except Err (List (List α))) (c : CMat α)
    (h : fromGmat lab r = .ok c) :
    c.lab.taxa = lab.taxa ∧ c.lab.taxaGrp = lab.taxaGrp ∧ c.lab.grpMeta = lab.grpMeta := by
  obtain ⟨hl, _⟩ := labels_carried lab r c h
  rw [hl]; exact ⟨rfl, rfl, rfl⟩

end select

section formats
variable {α : Type} [Field α] [LinearOrder α] [IsStrictOrderedRing α]

/-! ### kinship is exactly half of coancestry -/

theorem kinship_half (G : List (List α)) (n m : Nat) (hG : Rect n m G) :
    asFormat false G = G ∧ Rect n m (asFormat true G) ∧
      ∀ i < n, ∀ j < m, entry (asFormat true G) i j = entry G i j / 2 := by
  refine ⟨rfl, hG.mapMat _, ?_⟩
  intro i hi j hj
  show entry (mapMat (fun x => half * x) G) i j = _
  rw [entry_mapMat _ G n m i j hG hi hj]
  unfold half
  ring

theorem kinship_accessor_half (G : List (List α)) (i j : Nat) :
    kinshipAt G i j = coancestryAt G i j / 2 := by
  unfold kinshipAt coancestryAt half
  ring

/-! ### extreme values, mean, maximum inbreeding: direct evaluation on the matrix, in both formats -/

/-- `max()` returns an entry of the matrix that bounds every entry -/
theorem max_spec (G : List (List α)) (n m : Nat) (hG : Rect n m G) (x : α) (h : maxAll G = some x) :
    (∃ i < n, ∃ j < m, entry G i j = x) ∧ ∀ i < n, ∀ j < m, entry G i j ≤ x := by
  obtain ⟨h1, h2⟩ := maxL_spec _ x h
  refine ⟨(mem_flatten_iff_entry G n m hG x).mp h1, ?_⟩
  intro i hi j hj
  exact h2 _ ((mem_flatten_iff_entry G n m hG _).mpr ⟨i, hi, j, hj, rfl⟩)

theorem min_spec (G : List (List α)) (n m : Nat) (hG : Rect n m G) (x : α) (h : minAll G = some x) :
    (∃ i < n, ∃ j < m, entry G i j = x) ∧ ∀ i < n, ∀ j < m, x ≤ entry G i j := by
  obtain ⟨h1, h2⟩ := minL_spec _ x h
  refine ⟨(mem_flatten_iff_entry G n m hG x).mp h1, ?_⟩
  intro i hi j hj
  exact h2 _ ((mem_flatten_iff_entry G n m hG _).mpr ⟨i, hi, j, hj, rfl⟩)

/-- `max_inbreeding()` is the largest diagonal entry -/
theorem max_inbreeding_spec (G : List (List α)) (n : Nat) (hG : Rect n n G) (x : α)
    (h : maxInbreeding G = some x) :
    (∃ i < n, entry G i i = x) ∧ ∀ i < n, entry G i i ≤ x := by
  obtain ⟨h1, h2⟩ := maxL_spec _ x h
  refine ⟨(mem_diag_iff G n hG x).mp h1, ?_⟩
  intro i hi
  exact h2 _ ((mem_diag_iff G n hG _).mpr ⟨i, hi, rfl⟩)

/-- the code scales the coancestry summary by 0.5 for "kinship"; that equals evaluating the summary
    on the kinship matrix itself -/
theorem max_min_kinship_format (G : List (List α)) :
    maxAll (asFormat true G) = (maxAll G).map (fmt true) ∧
      minAll (asFormat true G) = (minAll G).map (fmt true) := by
  have hf : (asFormat true G).flatten = G.flatten.map (fun x => half * x) := by
    simp [asFormat, mapMat, List.map_flatten]
  have hfmt : (fmt true : α → α) = fun x => half * x := by funext x; simp [fmt]
  unfold maxAll minAll
  rw [hf, hfmt, maxL_map _ half_strictMono, minL_map _ half_strictMono]
  exact ⟨rfl, rfl⟩

theorem max_inbreeding_kinship_format (G : List (List α)) :
    maxInbreeding (asFormat true G) = (maxInbreeding G).map (fmt true) := by
  have hd : Coancestry.diag (asFormat true G) = (Coancestry.diag G).map (fun x => half * x) := by
    simp only [asFormat, if_true, Coancestry.diag, mapMat, List.zipIdx_map, List.map_map]
    apply List.map_congr_left
    intro ri _
    simp only [Function.comp, Prod.map, id]
    by_cases hk : ri.2 < ri.1.length
    · rw [getD_map' _ _ _ 0 0 hk]
    · simp [List.getD_eq_getElem?_getD, List.getElem?_eq_none (Nat.le_of_not_lt hk), half]
  have hfmt : (fmt true : α → α) = fun x => half * x := by funext x; simp [fmt]
  unfold maxInbreeding
  rw [hd, hfmt, maxL_map _ half_strictMono]

/-- `mean()` is the sum of all entries over `n²`; in kinship format it is half of that -/
theorem mean_def (G : List (List α)) (n : Nat) (hG : Rect n n G) :
    meanAll G = (∑ i ∈ range n, ∑ j ∈ range n, entry G i j) / ((n : α) * n) ∧
      meanAll (asFormat true G) = fmt true (meanAll G) := by
  have h1 : meanAll G = (∑ i ∈ range n, ∑ j ∈ range n, entry G i j) / ((n : α) * n) := by
    unfold meanAll
    rw [sumAll_eq G n n hG, hG.1, Nat.cast_mul]
  refine ⟨h1, ?_⟩
  have hK : Rect n n (asFormat true G) := hG.mapMat _
  have h2 : meanAll (asFormat true G)
      = (∑ i ∈ range n, ∑ j ∈ range n, entry (asFormat true G) i j) / ((n : α) * n) := by
    unfold meanAll
    rw [sumAll_eq _ n n hK, hK.1, Nat.cast_mul]
  rw [h2, h1]
  have : ∀ i ∈ range n, ∑ j ∈ range n, entry (asFormat true G) i j
      = ∑ j ∈ range n, half * entry G i j := by
    intro i hi
    apply Finset.sum_congr rfl
    intro j hj
    show entry (mapMat (fun x => half * x) G) i j = _
    rw [entry_mapMat _ G n n i j hG (Finset.mem_range.mp hi) (Finset.mem_range.mp hj)]
  rw [Finset.sum_congr rfl this]
  simp only [fmt, if_true, ← Finset.mul_sum]
  ring

/-! ### inverse and minimum attainable inbreeding (the solver enters through its contract `G·H = I`) -/

/-- `inverse("kinship")` inverts `0.5·G`: if `H` inverts `G` then `2H` inverts the kinship matrix, and
    `min_inbreeding("kinship") = 0.5 · min_inbreeding("coancestry")` is `1/Σ(2H)`, i.e. the same
    formula evaluated on the kinship matrix. -/
theorem kinship_inverse_contract (n : Nat) (G H : List (List α)) (hG : Rect n n G) (hH : Rect n n H)
    (hinv : IsRightInverse n G H) (hs : sumAll H ≠ 0) :
    IsRightInverse n (asFormat true G) (mapMat (fun x => (1 + 1) * x) H) ∧
      minInbreedingOf (mapMat (fun x => (1 + 1) * x) H) = fmt true (minInbreedingOf H) := by
  constructor
  · intro i hi j hj
    rw [← hinv i hi j hj]
    apply Finset.sum_congr rfl
    intro k hk
    have hk' := Finset.mem_range.mp hk
    show entry (mapMat (fun x => half * x) G) i k * _ = _
    rw [entry_mapMat _ G n n i k hG hi hk', entry_mapMat _ H n n k j hH hk' hj]
    unfold half
    ring
  · unfold minInbreedingOf
    have h2 : Rect n n (mapMat (fun x : α => (1 + 1) * x) H) := hH.mapMat _
    rw [sumAll_eq _ n n h2, sumAll_eq H n n hH] at *
    have : ∑ i ∈ range n, ∑ j ∈ range n, entry (mapMat (fun x : α => (1 + 1) * x) H) i j
        = (1 + 1) * ∑ i ∈ range n, ∑ j ∈ range n, entry H i j := by
      rw [Finset.mul_sum]
      apply Finset.sum_congr rfl; intro i hi
      rw [Finset.mul_sum]
      apply Finset.sum_congr rfl; intro j hj
      rw [entry_mapMat _ H n n i j hH (Finset.mem_range.mp hi) (Finset.mem_range.mp hj)]
    rw [this]
    simp only [fmt, if_true, half]
    field_simp

/- FULL STATEMENT (stretch goal of DESIGN §6; proved below under the solver contract):
   for every symmetric positive semidefinite `G` and whatever `numpy.linalg.inv` returns,
   `min_inbreeding()` is the minimum of `cᵀGc` over all contribution vectors with `Σc = 1`.
   The `_partial` theorem assumes the contract `G·H = I` for the returned `H` (re-checked by the Spec
   oracle on every well-conditioned case) instead of a verified inversion algorithm. -/

/-- **Minimum attainable inbreeding is a minimum.**  `1/(1ᵀG⁻¹1) ≤ cᵀGc` for every `c` with `Σc = 1`. -/
theorem min_inbreeding_is_min_partial (n : Nat) (G H : List (List α)) (hH : Rect n n H)
    (hsym : ∀ i < n, ∀ j < n, entry G i j = entry G j i)
    (hpsd : ∀ v : Nat → α, 0 ≤ quad n G v)
    (hinv : IsRightInverse n G H)
    (c : Nat → α) (hc : ∑ i ∈ range n, c i = 1) :
    0 < sumAll H ∧ minInbreedingOf H ≤ quad n G c := by
  have := min_quad_on_simplex (n := n) (g := fun i j => entry G i j) (h := fun i j => entry H i j)
    hsym hpsd hinv c hc
  unfold minInbreedingOf
  rw [sumAll_eq H n n hH]
  exact this

/-- … and the minimum is attained (at `c* = H·1 / 1ᵀH1`) -/
theorem min_inbreeding_attained_partial (n : Nat) (G H : List (List α)) (hH : Rect n n H)
    (hinv : IsRightInverse n G H) (hs : sumAll H ≠ 0) :
    ∃ c : Nat → α, ∑ i ∈ range n, c i = 1 ∧ quad n G c = minInbreedingOf H := by
  rw [sumAll_eq H n n hH] at hs
  obtain ⟨h1, h2⟩ := min_quad_attained (n := n) (g := fun i j => entry G i j)
    (h := fun i j => entry H i j) hinv hs
  refine ⟨_, h1, ?_⟩
  unfold minInbreedingOf
  rw [sumAll_eq H n n hH]
  exact h2

/-! ### the model's own inverse: Gauss–Jordan is sound, so for the model nothing is assumed -/

/-- **Soundness of the reference inversion** (`inverse()` of the model, also the oracle the Spec compares
    `numpy.linalg.inv` with): whatever it returns is an `n×n` two-sided inverse. -/
theorem inverse_sound (A B : List (List α)) (n : Nat) (hA : Rect n n A) (h : inverse A = some B) :
    Rect n n B ∧ IsRightInverse n A B ∧
      ∀ i < n, ∀ j < n, ∑ k ∈ range n, entry B i k * entry A k j = if i = j then 1 else 0 := by
  obtain ⟨hB, hr⟩ := inverse_isRightInverse A B n hA h
  exact ⟨hB, hr, (inverse_left A B n hA h).2⟩

/-- quadratic form of the kinship view -/
theorem quad_kinship (G : List (List α)) (n : Nat) (hG : Rect n n G) (kin : Bool) (v : Nat → α) :
    quad n (asFormat kin G) v = fmt kin (quad n G v) := by
  cases kin with
  | false => rfl
  | true =>
    unfold quad
    simp only [fmt, if_true, Finset.mul_sum]
    apply Finset.sum_congr rfl; intro i hi
    apply Finset.sum_congr rfl; intro j hj
    show v i * entry (mapMat (fun x => half * x) G) i j * v j = _
    rw [entry_mapMat _ G n n i j hG (Finset.mem_range.mp hi) (Finset.mem_range.mp hj)]
    ring

/-- **Minimum attainable inbreeding is the minimum — full for the model.**  For a symmetric positive
    semidefinite `n×n` matrix (`n ≥ 1`), in either output format: whenever `min_inbreeding(format)` returns `x`
    (i.e. the matrix is nonsingular), `x ≤ cᵀ M c` for every contribution vector with `Σc = 1`, where `M` is
    the matrix in that format, and some such `c` attains it. -/
theorem min_inbreeding_is_min (kin : Bool) (n : Nat) (hn : 0 < n) (G : List (List α)) (hG : Rect n n G)
    (hsym : ∀ i < n, ∀ j < n, entry G i j = entry G j i)
    (hpsd : ∀ v : Nat → α, 0 ≤ quad n G v) (x : α) (hx : minInbreeding kin G = some x) :
    (∀ c : Nat → α, ∑ i ∈ range n, c i = 1 → x ≤ quad n (asFormat kin G) c) ∧
      ∃ c : Nat → α, ∑ i ∈ range n, c i = 1 ∧ quad n (asFormat kin G) c = x := by
  unfold minInbreeding at hx
  cases hinv : inverse G with
  | none => rw [hinv] at hx; simp at hx
  | some H =>
    rw [hinv] at hx
    simp only [Option.map_some, Option.some.injEq] at hx
    obtain ⟨hH, hr, _⟩ := inverse_sound G H n hG hinv
    have hhalf : (0 : α) ≤ half := by unfold half; positivity
    constructor
    · intro c hc
      obtain ⟨_, hle⟩ := min_inbreeding_is_min_partial n G H hH hsym hpsd hr c hc
      rw [quad_kinship G n hG kin c, ← hx]
      cases kin with
      | false => exact hle
      | true => simp only [fmt, if_true]; exact mul_le_mul_of_nonneg_left hle hhalf
    · by_cases hs : sumAll H = 0
      · exfalso
        let c0 : Nat → α := fun i => if i = 0 then 1 else 0
        have hc0 : ∑ i ∈ range n, c0 i = 1 := by
          simp [c0, Finset.sum_ite_eq', hn]
        exact absurd hs (min_inbreeding_is_min_partial n G H hH hsym hpsd hr c0 hc0).1.ne'
      · obtain ⟨c, hc1, hc2⟩ := min_inbreeding_attained_partial n G H hH hr hs
        refine ⟨c, hc1, ?_⟩
        rw [quad_kinship G n hG kin c, hc2, ← hx]

/-- instance for the molecular matrix of any genotype matrix: no hypothesis beyond shape is left -/
theorem molecular_min_inbreeding_is_min (kin : Bool) (ploidy n m : Nat) (hn : 0 < n) (X G : List (List α))
    (hX : Rect n m X) (h : molecular ploidy m X = .ok G) (x : α) (hx : minInbreeding kin G = some x) :
    (∀ c : Nat → α, ∑ i ∈ range n, c i = 1 → x ≤ quad n (asFormat kin G) c) ∧
      ∃ c : Nat → α, ∑ i ∈ range n, c i = 1 ∧ quad n (asFormat kin G) c = x := by
  have hG : Rect n n G := by
    obtain ⟨hm, hpl⟩ := molecular_ok_ploidy ploidy m X G h
    rcases hpl with rfl | rfl
    · obtain ⟨G', hG', hR, _⟩ := molecular_one_entry n m X hX hm
      rw [hG'] at h; cases h; exact hR
    · obtain ⟨G', hG', hR, _⟩ := molecular_two_entry n m X hX hm
      rw [hG'] at h; cases h; exact hR
  exact min_inbreeding_is_min kin n hn G hG (molecular_symmetric ploidy n m X G hX h)
    (molecular_psd ploidy n m X G hX h) x hx

/-! ### per-axis summaries (`axis = 1`: one value per row, `axis = 0`: one value per column) -/

theorem max_rows_spec (G : List (List α)) (n m : Nat) (hG : Rect n m G) (l : List α)
    (h : maxRows G = some l) :
    l.length = n ∧ ∀ i < n, (∃ j < m, entry G i j = l.getD i 0) ∧ ∀ j < m, entry G i j ≤ l.getD i 0 := by
  obtain ⟨hl, hi⟩ := mapM_option_some _ G l h
  refine ⟨by rw [hl, hG.1], ?_⟩
  intro i hin
  have hiG : i < G.length := hG.1 ▸ hin
  have hil : i < l.length := hl ▸ hiG
  obtain ⟨h1, h2⟩ := maxL_spec _ _ (hi i hiG hil)
  rw [← getD_eq_getElem' G i hiG [], ← getD_eq_getElem' l i hil 0] at h1 h2
  refine ⟨(mem_row_iff G n m i hG hin _).mp h1, ?_⟩
  intro j hj
  exact h2 _ ((mem_row_iff G n m i hG hin _).mpr ⟨j, hj, rfl⟩)

theorem min_rows_spec (G : List (List α)) (n m : Nat) (hG : Rect n m G) (l : List α)
    (h : minRows G = some l) :
    l.length = n ∧ ∀ i < n, (∃ j < m, entry G i j = l.getD i 0) ∧ ∀ j < m, l.getD i 0 ≤ entry G i j := by
  obtain ⟨hl, hi⟩ := mapM_option_some _ G l h
  refine ⟨by rw [hl, hG.1], ?_⟩
  intro i hin
  have hiG : i < G.length := hG.1 ▸ hin
  have hil : i < l.length := hl ▸ hiG
  obtain ⟨h1, h2⟩ := minL_spec _ _ (hi i hiG hil)
  rw [← getD_eq_getElem' G i hiG [], ← getD_eq_getElem' l i hil 0] at h1 h2
  refine ⟨(mem_row_iff G n m i hG hin _).mp h1, ?_⟩
  intro j hj
  exact h2 _ ((mem_row_iff G n m i hG hin _).mpr ⟨j, hj, rfl⟩)

theorem max_cols_spec (G : List (List α)) (n : Nat) (hG : Rect n n G) (l : List α)
    (h : maxCols G = some l) :
    l.length = n ∧ ∀ k < n, (∃ i < n, entry G i k = l.getD k 0) ∧ ∀ i < n, entry G i k ≤ l.getD k 0 := by
  obtain ⟨hl, hi⟩ := mapM_option_some _ (cols G) l h
  have hc : (cols G).length = n := by simp [cols, hG.1]
  refine ⟨by rw [hl, hc], ?_⟩
  intro k hk
  have hkc : k < (cols G).length := hc ▸ hk
  have hkl : k < l.length := hl ▸ hkc
  have hcol : (cols G)[k] = G.map (fun r => r.getD k 0) := by simp [cols]
  obtain ⟨h1, h2⟩ := maxL_spec _ _ (hi k hkc hkl)
  rw [hcol, ← getD_eq_getElem' l k hkl 0] at h1 h2
  refine ⟨(mem_col_iff G n n k hG _).mp h1, ?_⟩
  intro i hin
  exact h2 _ ((mem_col_iff G n n k hG _).mpr ⟨i, hin, rfl⟩)

theorem min_cols_spec (G : List (List α)) (n : Nat) (hG : Rect n n G) (l : List α)
    (h : minCols G = some l) :
    l.length = n ∧ ∀ k < n, (∃ i < n, entry G i k = l.getD k 0) ∧ ∀ i < n, l.getD k 0 ≤ entry G i k := by
  obtain ⟨hl, hi⟩ := mapM_option_some _ (cols G) l h
  have hc : (cols G).length = n := by simp [cols, hG.1]
  refine ⟨by rw [hl, hc], ?_⟩
  intro k hk
  have hkc : k < (cols G).length := hc ▸ hk
  have hkl : k < l.length := hl ▸ hkc
  have hcol : (cols G)[k] = G.map (fun r => r.getD k 0) := by simp [cols]
  obtain ⟨h1, h2⟩ := minL_spec _ _ (hi k hkc hkl)
  rw [hcol, ← getD_eq_getElem' l k hkl 0] at h1 h2
  refine ⟨(mem_col_iff G n n k hG _).mp h1, ?_⟩
  intro i hin
  exact h2 _ ((mem_col_iff G n n k hG _).mpr ⟨i, hin, rfl⟩)

/-- `mean(axis=1)` is the row sum over the row length, `mean(axis=0)` the column sum over `n` -/
theorem mean_axis_def (G : List (List α)) (n : Nat) (hG : Rect n n G) :
    ((meanRows G).length = n ∧ ∀ i < n, (meanRows G).getD i 0 = (∑ j ∈ range n, entry G i j) / (n : α)) ∧
    ((meanCols G).length = n ∧ ∀ k < n, (meanCols G).getD k 0 = (∑ i ∈ range n, entry G i k) / (n : α)) := by
  constructor
  · refine ⟨by simp [meanRows, hG.1], ?_⟩
    intro i hi
    have hiG : i < G.length := hG.1 ▸ hi
    unfold meanRows
    rw [getD_map' _ G i 0 [] hiG, npsum_eq_sum, list_sum_eq_range _ n (hG.row hi), hG.row hi]
    rfl
  · refine ⟨by simp [meanCols, colSums, hG.1], ?_⟩
    intro k hk
    unfold meanCols
    rw [hG.1, getD_map' _ (colSums n G) k 0 0 (by simpa [colSums] using hk), getD_colSums n G n k hG hk]

/-- per-axis summaries in kinship format: halving the coancestry answer (what the code does) equals
    evaluating the summary on the kinship matrix -/
theorem axis_kinship_format (G : List (List α)) :
    maxRows (asFormat true G) = (maxRows G).map (List.map (fmt true)) ∧
    minRows (asFormat true G) = (minRows G).map (List.map (fmt true)) ∧
    maxCols (asFormat true G) = (maxCols G).map (List.map (fmt true)) ∧
    minCols (asFormat true G) = (minCols G).map (List.map (fmt true)) ∧
    meanRows (asFormat true G) = (meanRows G).map (fmt true) := by
  have hfmt : (fmt true : α → α) = fun x => half * x := by funext x; simp [fmt]
  rw [hfmt]
  refine ⟨?_, ?_, ?_, ?_, ?_⟩
  · exact mapM_map_option maxL _ _ (fun r => maxL_map _ half_strictMono r) G
  · exact mapM_map_option minL _ _ (fun r => minL_map _ half_strictMono r) G
  · show (cols (mapMat (fun x => half * x) G)).mapM maxL = _
    rw [cols_mapMat_half]
    exact mapM_map_option maxL _ _ (fun r => maxL_map _ half_strictMono r) (cols G)
  · show (cols (mapMat (fun x => half * x) G)).mapM minL = _
    rw [cols_mapMat_half]
    exact mapM_map_option minL _ _ (fun r => minL_map _ half_strictMono r) (cols G)
  · show meanRows (mapMat (fun x => half * x) G) = _
    unfold meanRows mapMat
    rw [List.map_map, List.map_map]
    apply List.map_congr_left
    intro r _
    simp only [Function.comp, List.length_map]
    rw [npsum_map_half]
    ring

/-! ### apply_jitter: the draws and the eigen-solver test are oracle inputs -/

/-- **apply_jitter.**  For a symmetric `n×n` matrix with non-negative quadratic form (every relationship
    matrix above), whatever the eigen-solver test `isPsd` answers and whatever vectors of length `n` with
    entries in `[lo, hi]`, `0 ≤ lo`, the generator delivers: the matrix left in the object
    * differs from the input on the diagonal only, by `0` everywhere or by one of the drawn vectors
      (so by amounts within `[lo, hi]`),
    * is still symmetric and still has a non-negative quadratic form (Gram + non-negative diagonal),
    * and the reported flag is exactly the test's verdict on that matrix (`False` ⇒ the input was restored). -/
theorem apply_jitter_spec (isPsd : List (List α) → Bool) (draws : List (List α)) (G : List (List α))
    (n : Nat) (hG : Rect n n G) (lo hi : α) (hlo : 0 ≤ lo)
    (hdraw : ∀ u ∈ draws, u.length = n ∧ ∀ i < n, lo ≤ u.getD i 0 ∧ u.getD i 0 ≤ hi)
    (hsym : ∀ i < n, ∀ j < n, entry G i j = entry G j i) (hpsd : ∀ v : Nat → α, 0 ≤ quad n G v) :
    ∀ r, r = applyJitter isPsd draws G →
    Rect n n r.1 ∧ r.2 = isPsd r.1 ∧
    (∀ i < n, ∀ j < n, i ≠ j → entry r.1 i j = entry G i j) ∧
    ((∀ i < n, entry r.1 i i = entry G i i) ∨
      (r.2 = true ∧ ∃ u ∈ draws, ∀ i < n, entry r.1 i i = entry G i i + u.getD i 0 ∧
        lo ≤ u.getD i 0 ∧ u.getD i 0 ≤ hi)) ∧
    (∀ i < n, ∀ j < n, entry r.1 i j = entry r.1 j i) ∧ (∀ v : Nat → α, 0 ≤ quad n r.1 v) := by
  intro r hdef
  have same : ∀ r' : List (List α) × Bool, r' = (G, isPsd G) →
      Rect n n r'.1 ∧ r'.2 = isPsd r'.1 ∧
      (∀ i < n, ∀ j < n, i ≠ j → entry r'.1 i j = entry G i j) ∧
      ((∀ i < n, entry r'.1 i i = entry G i i) ∨
        (r'.2 = true ∧ ∃ u ∈ draws, ∀ i < n, entry r'.1 i i = entry G i i + u.getD i 0 ∧
          lo ≤ u.getD i 0 ∧ u.getD i 0 ≤ hi)) ∧
      (∀ i < n, ∀ j < n, entry r'.1 i j = entry r'.1 j i) ∧ (∀ v : Nat → α, 0 ≤ quad n r'.1 v) := by
    intro r' h
    rw [h]
    exact ⟨hG, rfl, fun _ _ _ _ _ => rfl, Or.inl (fun _ _ => rfl), hsym, hpsd⟩
  by_cases h0 : isPsd G = true
  · exact same r (by rw [hdef]; simp [applyJitter, h0])
  · have hf : isPsd G = false := by simpa using h0
    have hr : r = jitterLoop isPsd G (diag G) draws := by rw [hdef]; simp [applyJitter, hf]
    rcases jitterLoop_cases isPsd G (diag G) draws with ⟨h1, _⟩ | ⟨u, hu, h1, h2⟩
    · exact same r (by rw [hr, h1, hf])
    · obtain ⟨hul, hur⟩ := hdraw u hu
      rw [hr, h1]
      refine ⟨rect_setDiag G _ n hG, h2.symm, ?_, Or.inr ⟨rfl, u, hu, ?_⟩, ?_, ?_⟩
      · intro i hi j hj hij
        rw [entry_jittered G u n i j hG hul hi hj, if_neg (fun h => hij h.symm), add_zero]
      · intro i hi
        rw [entry_jittered G u n i i hG hul hi hi, if_pos rfl]
        exact ⟨rfl, hur i hi⟩
      · intro i hi j hj
        rw [entry_jittered G u n i j hG hul hi hj, entry_jittered G u n j i hG hul hj hi, hsym i hi j hj]
        by_cases hij : i = j
        · subst hij; rfl
        · rw [if_neg (fun h => hij h.symm), if_neg hij]
      · intro v
        rw [quad_jittered G u n hG hul v]
        apply add_nonneg (hpsd v)
        apply Finset.sum_nonneg
        intro i hi
        exact mul_nonneg (le_trans hlo (hur i (Finset.mem_range.mp hi)).1) (sq_nonneg _)

/-! ### estimators that re-estimate the reference frequencies: permutations yes, sub-selection no -/

/-- beyond the property: with `p_anc = None` the VanRaden matrix still commutes with every
    *permutation* of the taxa (the estimate `Σ_i x_ik / (c n)` does not depend on the order) -/
theorem vanraden_estimated_perm_commutes (is : List Nat) (lab : Labels) (ploidy n m : Nat)
    (X : List (List α)) (hperm : is.Perm (List.range X.length)) :
    fromGmat (lab.select is) (vanraden ploidy (afreq ploidy n m (Np.take is X)) (Np.take is X))
      = (fromGmat lab (vanraden ploidy (afreq ploidy n m X) X)).map (CMat.select is) := by
  rw [afreq_take_perm ploidy n m is X hperm, vanraden_take, fromGmat_map]

/-- … but not with sub-selection: this is why the property restricts equivariance to estimators that
    do not re-estimate.  Taxa {0, 2} of the worked example: re-estimating on the subset gives another
    matrix than cutting the full one. -/
theorem vanraden_estimated_subselect_differs :
    (vanraden 2 (afreq 2 2 2 (Np.take [0, 2] ([[1, 2], [1, 2], [0, 0]] : List (List ℚ))))
        (Np.take [0, 2] ([[1, 2], [1, 2], [0, 0]] : List (List ℚ)))).toOption
      ≠ ((vanraden 2 (afreq 2 3 2 ([[1, 2], [1, 2], [0, 0]] : List (List ℚ)))
        ([[1, 2], [1, 2], [0, 0]] : List (List ℚ))).map (selectSq [0, 2])).toOption := by
  decide +kernel

end formats

/-- `yang_def` at ℝ with `Real.sqrt` (the contract `√x·√x = x` holds there) -/
theorem yang_def_real (ploidy n m : Nat) (p : List ℝ) (X : List (List ℝ)) (hX : Rect n m X)
    (hp : p.length = m) (hpl : 0 < ploidy) (hm : 0 < m)
    (h01 : ∀ k < m, 0 < p.getD k 0 ∧ p.getD k 0 < 1) :
    ∃ G, yang ploidy m p X = .ok G ∧ Rect n n G ∧
      ∀ i < n, ∀ j < n, entry G i j = yangFormula ploidy m p X i j :=
  yang_def real_sqrt_contract ploidy n m p X hX hp hpl hm h01

/-! ### kinship is exactly half in binary64 as well (rounding contract) -/

/- FULL STATEMENT (false of IEEE arithmetic, see `kinship_half_underflow_counterexample`):
   for every binary64 matrix the float kinship view `rnd(0.5·x)` equals `x/2` exactly.
   It fails only when `x/2` is not representable, i.e. for non-zero entries below `2⁻¹⁰²¹` (half of a
   subnormal with an odd significand); relationship matrices never have such entries, and the Spec oracle
   checks the exact equality on every case. -/

/-- **Rounded form of `kinship_half`.**  `mat_asformat("kinship")` computes `rnd(0.5 · x)` per entry.  For
    every rounding `rnd` that leaves representable values unchanged and every matrix of binary64 entries that
    are zero or at least `2⁻¹⁰²¹` in magnitude (no underflow), the float result is exactly `x / 2`. -/
theorem kinship_half_rounded_partial (rnd : ℚ → ℚ) (hr : FixesBinary64 rnd) (G : List (List ℚ)) (n m : Nat)
    (hG : Rect n m G) (hrep : ∀ i < n, ∀ j < m, IsBinary64 (entry G i j) ∧ halfSafe (entry G i j)) :
    asFormatRnd rnd false G = G ∧ ∀ i < n, ∀ j < m, entry (asFormatRnd rnd true G) i j = entry G i j / 2 := by
  refine ⟨rfl, ?_⟩
  intro i hi j hj
  show entry (mapMat (fun x => rnd (half * x)) G) i j = _
  rw [entry_mapMat _ G n m i j hG hi hj]
  exact rnd_half_exact rnd hr _ (hrep i hi j hj).1 (hrep i hi j hj).2

/-- the hypothesis "no underflow" cannot be dropped: half of the smallest subnormal `2⁻¹⁰⁷⁴` rounds to 0
    in IEEE arithmetic (Lean's own `Float`, evaluated by the kernel) -/
theorem kinship_half_underflow_counterexample :
    ((0.5 : Float) * Float.ofScientific 5 true 324 == 0.0) = true ∧
      (Float.ofScientific 5 true 324 == 0.0) = false := by
  decide +kernel

/-! ### round 3: factor 2 of the kinship inverse with the model's own elimination -/
section round3
variable {α : Type} [Field α] [LinearOrder α] [IsStrictOrderedRing α]

/-- **`inverse("kinship") = 2 · inverse("coancestry")`**, with the model's Gauss–Jordan elimination on both
    sides (no solver contract): whenever both succeed the results differ by the factor 2 in every entry. -/
theorem inverse_kinship_is_twice (G H K : List (List α)) (n : Nat) (hG : Rect n n G)
    (hH : inverseFmt false G = some H) (hK : inverseFmt true G = some K) :
    Rect n n K ∧ ∀ i < n, ∀ j < n, entry K i j = 2 * entry H i j := by
  obtain ⟨h1, h2⟩ := inverse_kinship_entries G H K n hG hH hK
  refine ⟨h1, fun i hi j hj => ?_⟩
  rw [h2 i hi j hj]; norm_num

/-- **`min_inbreeding("kinship")`** — computed by the code as `0.5 · (1 / Σ inv(G))` — is `1 / Σ inv(K)` for the
    kinship matrix `K = 0.5·G` itself: the same "direct linear-algebra evaluation" in either format. -/
theorem min_inbreeding_kinship_is_direct (G K : List (List α)) (n : Nat) (hG : Rect n n G) (x : α)
    (hx : minInbreeding true G = some x) (hK : inverseFmt true G = some K) :
    x = 1 / sumAll K :=
  min_inbreeding_kinship_direct G K n hG x hx hK

/-- **`inverse("kinship") = 2 · inverse("coancestry")`, unconditionally.**  The elimination on `0.5·G` runs in
    lock step with the one on `G` (same pivots), so the two calls succeed or fail together and the results differ
    by the factor 2 — for every square matrix, singular ones included. -/
theorem inverse_kinship_format (G : List (List α)) (n : Nat) (hG : Rect n n G) :
    inverseFmt true G = (inverseFmt false G).map (mapMat (fun x => 2 * x)) := by
  have hhalf : (half : α) ≠ 0 := by unfold half; norm_num
  show inverse (mapMat (fun x => half * x) G) = (inverse G).map _
  rw [inverse_scale_eq half hhalf G n hG]
  congr 2
  funext x
  unfold half
  field_simp
  ring

/-- **`min_inbreeding("kinship")` is the direct evaluation `1 / Σ inv(K)` on the kinship matrix**, as an equation
    between the two optional results (both absent exactly for singular matrices) -/
theorem min_inbreeding_kinship_format (G : List (List α)) (n : Nat) (hG : Rect n n G) :
    minInbreeding true G = (inverseFmt true G).map minInbreedingOf := by
  rw [inverse_kinship_format G n hG]
  unfold minInbreeding inverseFmt asFormat
  simp only [Bool.false_eq_true, if_false, Option.map_map]
  congr 1
  funext H
  simp only [Function.comp, minInbreedingOf, fmt, if_true, sumAll_mapMat_mul, half]
  by_cases hs : sumAll H = 0
  · simp [hs]
  · field_simp
    norm_num

/-- the hypothesis "positive semidefinite" of `min_inbreeding_is_min` cannot be dropped: for the indefinite
    symmetric matrix [[1,2],[2,1]] the reported value 3/2 exceeds `cᵀGc = 1` at `c = (1, 0)` -/
theorem min_inbreeding_indefinite_counterexample :
    minInbreeding false ([[1, 2], [2, 1]] : List (List ℚ)) = some (3/2) ∧
      quad 2 ([[1, 2], [2, 1]] : List (List ℚ)) (fun i => if i = 0 then 1 else 0) = 1 ∧
      (∑ i ∈ range 2, (fun i => if i = 0 then (1:ℚ) else 0) i) = 1 := by
  refine ⟨by decide +kernel, ?_, by simp [Finset.sum_range_succ]⟩
  simp [quad, Finset.sum_range_succ, entry]

/-! ### re-ordering the object (DenseSquareTaxaMatrix through C03's model) commutes with the estimators -/

/-- **`from_gmat(gmat).reorder_taxa(is)` = `from_gmat(gmat re-ordered by is)`** for every estimator behind the
    dispatch (class method, factory or subclass alike), any in-range index list `is`, with the frequencies /
    weights in force held fixed: the values are `selectSq is`, both label columns are taken along, and the cached
    group metadata are dropped on either side. -/
theorem estimate_reorder_taxa_commutes (e : Estimator) (ploidy m : Nat) (w p : List α) (is : List Nat)
    (X : List (List α)) (taxa grp : Option (List Int)) (gmeta : Option (LabelMat.Grp Int))
    (h : ∀ i ∈ is, i < X.length) (G : List (List α)) (hG : estimate e ploidy m w p X = .ok G) :
    ∃ G', estimate e ploidy m w p (Np.take is X) = .ok G' ∧
      fromGmatObj (taxa.map (Np.take is)) (grp.map (Np.take is)) none (estimate e ploidy m w p (Np.take is X))
        = .ok (toObj G' (taxa.map (Np.take is)) (grp.map (Np.take is)) none) ∧
      reorderObj (is.map Int.ofNat) (toObj G taxa grp gmeta)
        = .ok (toObj G' (taxa.map (Np.take is)) (grp.map (Np.take is)) none) := by
  apply reorder_taxa_commutes (fun X => estimate e ploidy m w p X) _ _ is X taxa grp gmeta h G hG
  · intro is X
    cases e with
    | molecular => exact molecular_take is ploidy m X
    | vanraden => exact vanraden_take is ploidy p X
    | yang => exact yangClosed_take is ploidy m p X
    | gw => simp only [estimate]; rw [gw_take]; rfl
  · intro X G hG
    cases e with
    | molecular => exact molecular_rows ploidy m X G hG
    | vanraden => exact vanraden_rows ploidy p X G hG
    | yang => exact yangClosed_rows ploidy m p X G hG
    | gw => simp only [estimate] at hG; cases hG; exact gw_rows ploidy w p X

/-- factories and user subclasses compute what the class method computes -/
theorem factory_dispatch (e : Estimator) (ploidy m : Nat) (w p : List α) (X : List (List α)) :
    Factory.fromGmat e ploidy m w p X = estimate e ploidy m w p X ∧
      Subclass.fromGmat e ploidy m w p X = estimate e ploidy m w p X := ⟨rfl, rfl⟩

/-- with sample-estimated frequencies Yang and the generalised weighted estimator still commute with every
    *permutation* of the taxa (the estimate does not depend on the order) … -/
theorem yang_estimated_perm_commutes (is : List Nat) (lab : Labels) (ploidy n m : Nat)
    (X : List (List α)) (hperm : is.Perm (List.range X.length)) :
    fromGmat (lab.select is) (yangClosed ploidy m (afreq ploidy n m (Np.take is X)) (Np.take is X))
      = (fromGmat lab (yangClosed ploidy m (afreq ploidy n m X) X)).map (CMat.select is) := by
  rw [afreq_take_perm ploidy n m is X hperm, yangClosed_take, fromGmat_map]

theorem gw_estimated_perm_commutes (is : List Nat) (lab : Labels) (ploidy n m : Nat) (w : List α)
    (X : List (List α)) (hperm : is.Perm (List.range X.length)) :
    fromGmat (lab.select is) (.ok (gw ploidy w (afreq ploidy n m (Np.take is X)) (Np.take is X)))
      = (fromGmat lab (.ok (gw ploidy w (afreq ploidy n m X) X))).map (CMat.select is) := by
  rw [afreq_take_perm ploidy n m is X hperm, gw_take]; rfl

/-- … but not with sub-selection (taxa {0, 2} of the worked example) -/
theorem yang_estimated_subselect_counterexample :
    (yangClosed 2 2 (afreq 2 2 2 (Np.take [0, 2] ([[1, 2], [1, 1], [0, 0]] : List (List ℚ))))
        (Np.take [0, 2] ([[1, 2], [1, 1], [0, 0]] : List (List ℚ)))).toOption
      ≠ ((yangClosed 2 2 (afreq 2 3 2 ([[1, 2], [1, 1], [0, 0]] : List (List ℚ)))
        ([[1, 2], [1, 1], [0, 0]] : List (List ℚ))).map (selectSq [0, 2])).toOption := by
  decide +kernel

theorem gw_estimated_subselect_counterexample :
    gw 2 [1, 2] (afreq 2 2 2 (Np.take [0, 2] ([[1, 2], [1, 2], [0, 0]] : List (List ℚ))))
        (Np.take [0, 2] ([[1, 2], [1, 2], [0, 0]] : List (List ℚ)))
      ≠ selectSq [0, 2] (gw 2 [1, 2] (afreq 2 3 2 ([[1, 2], [1, 2], [0, 0]] : List (List ℚ)))
        ([[1, 2], [1, 2], [0, 0]] : List (List ℚ))) := by
  decide +kernel

/-! ### the dtype contract of the molecular estimator (integer accumulation) -/

/-- **Integer width.**  `from_gmat` fetches the counts with `tacount(int)` and forms `X @ X.T` in that integer type.
    For allele counts in `0..ploidy`, any type that represents `[-B, B]` faithfully and at most `B` markers the
    integer part never wraps, so the result is `molecular` of the counts — twice the mean IBS probability by
    `molecular_eq_twice_ibs_counts`. -/
theorem molecular_int_width_contract (wrap : Int → Int) (B : Int) (hw : NoWrapUpTo wrap B) (ploidy n m : Nat)
    (X : List (List Int)) (hX : Rect n m X) (hpl : ploidy = 1 ∨ ploidy = 2) (hm : 0 < m) (hmB : (m : Int) ≤ B)
    (hrange : ∀ r ∈ X, ∀ x ∈ r, 0 ≤ x ∧ x ≤ (ploidy : Int)) :
    ∃ G : List (List α), molecularW wrap ploidy m X = .ok G ∧ Rect n n G ∧
      ∀ i < n, ∀ j < n, entry G i j = molecularFormula m (ibsCount ploidy (mapMat (Int.cast : Int → α) X)) i j := by
  rw [molecularW_eq_molecular wrap B hw ploidy n m X hX hpl hmB hrange]
  exact molecular_eq_twice_ibs_counts ploidy n m _ (hX.mapMat _) hpl hm

/-- the native width (64-bit two's complement) is safe for every panel of fewer than 2⁶³ markers -/
theorem molecular_native_width (ploidy n m : Nat) (X : List (List Int)) (hX : Rect n m X)
    (hpl : ploidy = 1 ∨ ploidy = 2) (hm : 0 < m) (hm63 : (m : Int) ≤ 2 ^ 63 - 1)
    (hrange : ∀ r ∈ X, ∀ x ∈ r, 0 ≤ x ∧ x ≤ (ploidy : Int)) :
    ∃ G : List (List α), molecularW (wrapBits 64) ploidy m X = .ok G ∧ Rect n n G ∧
      ∀ i < n, ∀ j < n, entry G i j = molecularFormula m (ibsCount ploidy (mapMat (Int.cast : Int → α) X)) i j :=
  molecular_int_width_contract (wrapBits 64) (2 ^ 63 - 1) (wrapBits_noWrap 64 (by norm_num)) ploidy n m X hX hpl hm
    hm63 hrange

/- FULL STATEMENT (false for a narrower fetch, see the counterexample): the molecular matrix computed with
   8-bit integer accumulation equals the formula for every marker count.  It holds up to 127 markers
   (`molecular_int8_partial`); two fully homozygous lines over 128 markers give 1 + (−128)/128 = 0 instead of 2. -/

theorem molecular_int8_partial (ploidy n m : Nat) (X : List (List Int)) (hX : Rect n m X)
    (hpl : ploidy = 1 ∨ ploidy = 2) (hm : 0 < m) (hm127 : m ≤ 127)
    (hrange : ∀ r ∈ X, ∀ x ∈ r, 0 ≤ x ∧ x ≤ (ploidy : Int)) :
    ∃ G : List (List α), molecularW (wrapBits 8) ploidy m X = .ok G ∧ Rect n n G ∧
      ∀ i < n, ∀ j < n, entry G i j = molecularFormula m (ibsCount ploidy (mapMat (Int.cast : Int → α) X)) i j :=
  molecular_int_width_contract (wrapBits 8) (2 ^ 7 - 1) (wrapBits_noWrap 8 (by norm_num)) ploidy n m X hX hpl hm
    (by norm_num; exact_mod_cast hm127) hrange

theorem molecular_int8_counterexample :
    (molecularW (α := ℚ) (wrapBits 8) 2 128 [List.replicate 128 2]).toOption = some [[0]] ∧
      (molecularW (α := ℚ) (wrapBits 64) 2 128 [List.replicate 128 2]).toOption = some [[2]] := by
  decide +kernel

/-! ### the Boolean oracles of the Spec mean what the theorems above conclude -/

open Spec in
/-- **The Spec's positive-semidefiniteness test is sound.**  `psdShift shift G = true` (the check
    `psd_up_to_rounding` with `shift = 10⁻⁹·scale`, and the `is_positive_semidefinite` contract checks) certifies
    `vᵀ G v + shift·‖v‖² ≥ 0` for every vector `v`: the quadratic form of the conclusions of `molecular_psd`,
    `vanraden_psd`, `yang_psd`, `gw_psd`, up to the stated slack. -/
theorem spec_psd_sound (shift : ℚ) (G : List (List ℚ)) (n : Nat) (hG : Rect n n G)
    (h : Spec.psdShift shift G = true) (v : Nat → ℚ) : 0 ≤ quad n G v + shift * ∑ i ∈ range n, v i ^ 2 :=
  psdShift_sound shift G n hG h v

open Spec in
/-- exact agreement passes every tolerant comparison of the Spec (non-negative absolute slack) -/
theorem spec_close_refl (rel abs : ℚ) (h : 0 ≤ abs) (x : ℚ) (l : List ℚ) (A : List (List ℚ)) :
    Spec.closeR rel abs x x = true ∧ Spec.closeL rel abs l l = true ∧ Spec.closeM rel abs A A = true :=
  ⟨closeR_self rel abs x h, closeL_self rel abs l h, closeM_self rel abs A h⟩

open Spec in
/-- **The summaries Spec is sound: the model's own report passes it.**  For every square rational matrix and either
    format, if the model's `DenseCoancestryMatrix` reports `s` (`summOfModel`: every summary computed on the stored
    matrix and scaled as the code does, the inverse of the view, the minimum inbreeding from the inverse of the stored
    matrix), then every check of `Spec.specSumm` — exact view, extreme values per axis, means, maximum inbreeding,
    inverse against the exact elimination and `B·B⁻¹ = I`, minimum inbreeding `1/Σ B⁻¹` — holds: the oracle asks
    for nothing the theorems above do not give. -/
theorem spec_summ_sound (kin : Bool) (G : List (List ℚ)) (n : Nat) (hG : Rect n n G) (s : Spec.SummObs)
    (hs : Spec.summOfModel kin G = some s) (tag : String) (symmetric : Bool) :
    (Spec.specSumm kin G s tag symmetric).all (fun c => c.ok) = true := by
  unfold Spec.summOfModel at hs
  simp only [Option.bind_eq_bind, Option.bind_eq_some_iff, Option.pure_def, Option.some.injEq] at hs
  obtain ⟨mxA, h1, mxR, h2, mxC, h3, mnA, h4, mnR, h5, mnC, h6, mib, h7, rfl⟩ := hs
  cases kin with
  | false =>
    have hf : (fmt false : ℚ → ℚ) = fun x => x := by funext x; simp [fmt]
    apply specSumm_ok_of false G _ tag symmetric n
    all_goals simp only [Bool.false_eq_true, if_false, hf, List.map_id', asFormat]
    · exact hG
    · exact h1.symm
    · exact h2.symm
    · exact h3.symm
    · exact h4.symm
    · exact h5.symm
    · exact h6.symm
    · exact h7.symm
    · intro Bi hBi hle
      simp only [hle, if_true, inverseFmt, asFormat, Bool.false_eq_true, if_false, hBi, minInbreeding,
        Option.map_some, minInbreedingOf, true_and, fmt]
  | true =>
    have hB : mapMat (fun x : ℚ => x / 2) G = asFormat true G := by
      show _ = mapMat (fun x => half * x) G
      rw [mapMat_half_eq_div]
    have hfmt : (fmt true : ℚ → ℚ) = fun x => half * x := by funext x; simp [fmt]
    obtain ⟨m1, m2⟩ := max_min_kinship_format G
    obtain ⟨a1, a2, a3, a4, a5⟩ := axis_kinship_format G
    apply specSumm_ok_of true G _ tag symmetric n
    all_goals simp only [if_true, hB]
    · exact hG.mapMat _
    · rw [m1, h1]; rfl
    · rw [a1, h2]; rfl
    · rw [a3, h3]; rfl
    · rw [m2, h4]; rfl
    · rw [a2, h5]; rfl
    · rw [a4, h6]; rfl
    · exact ((mean_def G n hG).2).symm
    · exact a5.symm
    · show _ = meanCols (mapMat (fun x => half * x) G)
      rw [meanCols_half, hfmt]
    · rw [max_inbreeding_kinship_format, h7]; rfl
    · intro Bi hBi hle
      have hlen : (asFormat true G).length = G.length := by simp [asFormat, mapMat]
      rw [hlen] at hle
      simp only [hle, if_true]
      refine ⟨hBi, ?_⟩
      rw [min_inbreeding_kinship_format G n hG]
      show (inverse (asFormat true G)).map minInbreedingOf = _
      rw [hBi]
      rfl

open Spec in
/-- **The Spec's positive-semidefiniteness test decides what it says** (soundness and completeness). -/
theorem spec_psd_iff (shift : ℚ) (G : List (List ℚ)) (n : Nat) (hG : Rect n n G) :
    Spec.psdShift shift G = true ↔ ∀ v : Nat → ℚ, 0 ≤ quad n G v + shift * ∑ i ∈ range n, v i ^ 2 :=
  ⟨psdShift_sound shift G n hG, psdShift_complete shift G n hG⟩

open Spec in
/-- **The Spec of a freshly built matrix is sound: the model's own object passes it.**  For every estimator and
    every input the property quantifies over (`Spec.Valid`: rectangular counts; molecular: ploidy 1 or 2 and a
    marker, phased alleles 0/1 summing to the counts; VanRaden: frequencies in [0,1], one inside; Yang: all inside;
    weighted: non-negative weights), the object the model builds — matrix, both views, every accessor pair, the
    source's labels and group metadata — passes every check of `Spec.specCmatWith` against the independently
    evaluated formula matrix: shape, formula, coancestry view, kinship exactly half, accessors, symmetry, positive
    semidefiniteness (exact test), labels — and, for ANY list `is` of taxa indices (`sel = some is`), the two
    sub-selection clauses `select_commutes` / `select_labels` on what the model reports for
    `from_gmat(gmat.select_taxa(is))` and `from_gmat(gmat).select_taxa(is)` (`Spec.selOfModel`).  So the oracle
    demands nothing beyond what the theorems above prove. -/
theorem spec_cmat_sound (e : Estimator) (g : Spec.Gm) (p w : List ℚ) (lab : Labels) (hv : Spec.Valid e g p w)
    (G : List (List ℚ)) (hG : estimate e g.ploidy g.m w p g.X = .ok G) (sel : Option (List Nat)) :
    (Spec.specCmatWith g.n (Spec.formulaMat e g p w) lab (Spec.cmatOfModel g.n G lab)
      (sel.map (Spec.selOfModel e g p w lab G))).all (fun c => c.ok) = true := by
  obtain ⟨hlen, hrows, hv⟩ := hv
  have hX : Rect g.n g.m g.X := ⟨hlen, hrows⟩
  have hat2 : at2 (arr2 g.X) = entry g.X := by funext i k; exact at2_arr2 g.X i k
  have hat1p : at1 (arr1 p) = fun k => p.getD k 0 := by funext k; exact at1_arr1 p k
  have hat1w : at1 (arr1 w) = fun k => w.getD k 0 := by funext k; exact at1_arr1 w k
  -- it suffices to know the matrix entrywise as the formula, symmetric and positive semidefinite
  suffices h : Rect g.n g.n G ∧ (∀ i < g.n, ∀ j < g.n, entry G i j = entry (Spec.formulaMat e g p w) i j) ∧
      (∀ i < g.n, ∀ j < g.n, entry G i j = entry G j i) ∧ ∀ v : Nat → ℚ, 0 ≤ quad g.n G v by
    obtain ⟨hR, hE, hs, hp⟩ := h
    have hF : G = Spec.formulaMat e g p w := rect_ext _ _ g.n g.n hR (rect_tabulate g.n _) hE
    apply specCmatWith_ok_of g.n _ G lab _ hR hF hs hp
    intro s hs'
    cases sel with
    | none => cases hs'
    | some is =>
      simp only [Option.map_some, Option.some.injEq] at hs'
      subst hs'
      have hA : estimate e g.ploidy g.m w p (Np.take is g.X) = .ok (selectSq is G) := by
        rw [estimate_take, hG]; rfl
      refine ⟨?_, rfl, rfl, rfl, rfl, rfl⟩
      show (match estimate e g.ploidy g.m w p (Np.take is g.X) with | .ok A => A | .error _ => []) = _
      rw [hA]
      rfl
  cases e with
  | molecular =>
    obtain ⟨hpl, hm, hph⟩ := hv
    simp only [estimate] at hG
    refine ⟨?_, ?_, molecular_symmetric g.ploidy g.n g.m g.X G hX hG, molecular_psd g.ploidy g.n g.m g.X G hX hG⟩
    · obtain ⟨G', hG', hR, _⟩ := molecular_eq_twice_ibs_counts g.ploidy g.n g.m g.X hX hpl hm
      rw [hG'] at hG; cases hG; exact hR
    · intro i hi j hj
      unfold Spec.formulaMat
      rw [entry_tabulate g.n _ i j hi hj]
      by_cases hphased : g.phased = true
      · obtain ⟨hl, hXe, hrect, hbin⟩ := hph hphased
        simp only [hphased, if_true]
        have hg3 : ∀ ph ∈ g.g3, Rect g.n g.m ph := fun ph hph' => ⟨(hrect ph hph').1, (hrect ph hph').2⟩
        obtain ⟨G', hG', _, hE⟩ := molecular_eq_twice_ibs g.g3 g.n g.m (hl ▸ hpl) hg3 hbin hm
        rw [hl, ← hXe, hG] at hG'
        cases hG'
        rw [hE i hi j hj]
        congr 1
        funext a b c
        rw [ibsPhased_eq_F]
        congr 1
        funext x y z
        exact (at3_arr3 g.g3 x y z).symm
      · simp only [hphased, Bool.false_eq_true, if_false]
        obtain ⟨G', hG', _, hE⟩ := molecular_eq_twice_ibs_counts g.ploidy g.n g.m g.X hX hpl hm
        rw [hG] at hG'; cases hG'
        rw [hE i hi j hj, hat2]
        rfl
  | vanraden =>
    obtain ⟨hp, hpl, h01, hpoly⟩ := hv
    simp only [estimate] at hG
    obtain ⟨G', hG', hR, hE⟩ := vanraden_def g.ploidy g.n g.m p g.X hX hp hpl h01 hpoly
    rw [hG] at hG'; cases hG'
    refine ⟨hR, ?_, vanraden_symmetric g.ploidy g.n g.m p g.X G hX hp hG,
      vanraden_psd g.ploidy g.n g.m p g.X G hX hp h01 hG⟩
    intro i hi j hj
    unfold Spec.formulaMat
    rw [entry_tabulate g.n _ i j hi hj, hE i hi j hj, hat2, hat1p]
    rfl
  | yang =>
    obtain ⟨hp, hpl, hm, h01⟩ := hv
    simp only [estimate] at hG
    obtain ⟨G', hG', hR, hE⟩ := yangClosed_def g.ploidy g.n g.m p g.X hX hp hpl hm h01
    rw [hG] at hG'; cases hG'
    refine ⟨hR, ?_, yangClosed_symmetric g.ploidy g.n g.m p g.X G hX hp hG,
      yangClosed_psd g.ploidy g.n g.m p g.X G hX hp (fun k hk => ⟨(h01 k hk).1.le, (h01 k hk).2.le⟩) hG⟩
    intro i hi j hj
    unfold Spec.formulaMat
    rw [entry_tabulate g.n _ i j hi hj, hE i hi j hj, hat2, hat1p]
    rfl
  | gw =>
    obtain ⟨hp, hw, hw0⟩ := hv
    simp only [estimate] at hG
    cases hG
    obtain ⟨hR, hE⟩ := gw_def g.ploidy g.n g.m w p g.X hX hp hw
    refine ⟨hR, ?_, gw_symmetric g.ploidy g.n g.m w p g.X hX hp hw, gw_psd g.ploidy g.n g.m w p g.X hX hp hw hw0⟩
    intro i hi j hj
    unfold Spec.formulaMat
    rw [entry_tabulate g.n _ i j hi hj, hE i hi j hj, hat2, hat1p, hat1w]
    rfl

open Spec in
/-- the re-ordering Spec is sound: the state the model of `reorder_taxa` / `sort_taxa` / `group_taxa` /
    `select_taxa` (C03's `LabelMat` operations on the square schema) produces passes all four checks -/
theorem spec_reorder_sound (op : Spec.ObjOp) (pre post : Obj ℚ) (h : Spec.applyObjOp op pre = .ok post) :
    (Spec.specReorder op pre post).all (fun c => c.ok) = true := by
  unfold Spec.specReorder
  rw [h]
  simp

end round3

/-! ### round 4: end-relative taxa indices, sub-selections stay symmetric positive semidefinite, the minimum
    attainable inbreeding lies below every diagonal entry -/
section round4
variable {α : Type} [Field α] [LinearOrder α] [IsStrictOrderedRing α]

/-- **How a taxa index is read** (`numpy.take`, fancy indexing; `LabelMat.normIdx`): a non-negative index below
    `n` is itself, `-k` for `1 ≤ k ≤ n` is the `k`-th taxon from the end, everything else is an IndexError. -/
theorem end_relative_index (n : Nat) :
    (∀ i < n, LabelMat.normIdx n (Int.ofNat i) = .ok i) ∧
    (∀ k, 0 < k → k ≤ n → LabelMat.normIdx n (-(k : Int)) = .ok (n - k)) ∧
    (∀ i : Int, (n : Int) ≤ i ∨ i < -(n : Int) → LabelMat.normIdx n i = .error .index) ∧
    (∀ (is : List Int) (ix : List Nat), LabelMat.normIdxs n is = .ok ix → ∀ k ∈ ix, k < n) :=
  ⟨fun i hi => normIdx_ofNat n i hi, fun k hk hkn => normIdx_neg n k hk hkn,
    fun i hi => normIdx_out_of_range n i hi, fun is ix h => normIdxs_lt n is ix h⟩

/-- **`from_gmat(gmat).reorder_taxa(is)` = `from_gmat(gmat re-ordered by is)` for the indices as written** —
    `estimate_reorder_taxa_commutes` without its restriction to non-negative indices: `is` is any integer list numpy
    accepts for `n` taxa (negative entries counted from the end), `ix` what it normalises to. -/
theorem estimate_reorder_taxa_int_commutes (e : Estimator) (ploidy m : Nat) (w p : List α) (is : List Int)
    (ix : List Nat) (X : List (List α)) (taxa grp : Option (List Int)) (gmeta : Option (LabelMat.Grp Int))
    (h : LabelMat.normIdxs X.length is = .ok ix) (G : List (List α)) (hG : estimate e ploidy m w p X = .ok G) :
    ∃ G', estimate e ploidy m w p (Np.take ix X) = .ok G' ∧
      fromGmatObj (taxa.map (Np.take ix)) (grp.map (Np.take ix)) none (estimate e ploidy m w p (Np.take ix X))
        = .ok (toObj G' (taxa.map (Np.take ix)) (grp.map (Np.take ix)) none) ∧
      reorderObj is (toObj G taxa grp gmeta)
        = .ok (toObj G' (taxa.map (Np.take ix)) (grp.map (Np.take ix)) none) := by
  have hl := estimate_rows e ploidy m w p X G hG
  obtain ⟨G', h1, h2, h3⟩ := estimate_reorder_taxa_commutes e ploidy m w p ix X taxa grp gmeta
    (normIdxs_lt _ is ix h) G hG
  refine ⟨G', h1, h2, ?_⟩
  rw [reorderObj_int is ix _ (by rw [len_toObj, hl]; exact h)]
  exact h3

/-- **Sub-selection written with end-relative indices commutes.**  The genotype matrix normalises the indices
    against its number of taxa, the relationship matrix against its number of rows; every estimator keeps that
    number, so both calls pick the same taxa `ix`, and `from_gmat(gmat.select_taxa(is))` is
    `from_gmat(gmat).select_taxa(is)` on the values (`select_commutes` of the Spec) — for frequencies / weights in
    force held fixed. -/
theorem select_taxa_end_relative_commutes (e : Estimator) (ploidy m : Nat) (w p : List α) (is : List Int)
    (X G : List (List α)) (hG : estimate e ploidy m w p X = .ok G) :
    Spec.normSel G.length is = Spec.normSel X.length is ∧
      ∀ ix, Spec.normSel X.length is = some ix →
        estimate e ploidy m w p (Np.take ix X) = .ok (selectSq ix G) ∧ ∀ k ∈ ix, k < X.length := by
  have hl := estimate_rows e ploidy m w p X G hG
  refine ⟨by rw [hl], ?_⟩
  intro ix hix
  refine ⟨by rw [estimate_take, hG]; rfl, ?_⟩
  unfold Spec.normSel at hix
  cases hn : LabelMat.normIdxs X.length is with
  | error err => rw [hn] at hix; cases hix
  | ok ix' =>
    rw [hn] at hix
    simp only [Except.toOption, Option.some.injEq] at hix
    subst hix
    exact normIdxs_lt _ is ix' hn

/-- **Every sub-selection / permutation (any in-range index list, repeats allowed) of a symmetric positive
    semidefinite relationship matrix is again square, symmetric and positive semidefinite**: its quadratic form
    at `v` is the full matrix's quadratic form at the vector that gathers `v` per taxon. -/
theorem select_preserves_symmetric_psd (is : List Nat) (G : List (List α)) (n : Nat) (hG : Rect n n G)
    (h : ∀ i ∈ is, i < n) (hsym : ∀ i < n, ∀ j < n, entry G i j = entry G j i)
    (hpsd : ∀ v : Nat → α, 0 ≤ quad n G v) :
    Rect is.length is.length (selectSq is G) ∧
      (∀ a < is.length, ∀ b < is.length, entry (selectSq is G) a b = entry (selectSq is G) b a) ∧
      ∀ v : Nat → α, 0 ≤ quad is.length (selectSq is G) v := by
  refine ⟨rect_selectSq is G n hG h, ?_, ?_⟩
  · intro a ha b hb
    rw [entry_selectSq is G n hG h a b ha hb, entry_selectSq is G n hG h b a hb ha]
    exact hsym _ (getD_lt_of_forall is n a h ha) _ (getD_lt_of_forall is n b h hb)
  · intro v
    rw [quad_selectSq is G n hG h v]
    exact hpsd _

/-- instance: the molecular matrix of any sub-selected / permuted population, computed either way -/
theorem molecular_select_psd (ploidy n m : Nat) (X G : List (List α)) (hX : Rect n m X)
    (hG : molecular ploidy m X = .ok G) (is : List Nat) (h : ∀ i ∈ is, i < n) :
    molecular ploidy m (Np.take is X) = .ok (selectSq is G) ∧
      ∀ v : Nat → α, 0 ≤ quad is.length (selectSq is G) v := by
  have hR : Rect n n G := by
    obtain ⟨hm, hpl⟩ := molecular_ok_ploidy ploidy m X G hG
    rcases hpl with rfl | rfl
    · obtain ⟨G', hG', hR, _⟩ := molecular_one_entry n m X hX hm
      rw [hG'] at hG; cases hG; exact hR
    · obtain ⟨G', hG', hR, _⟩ := molecular_two_entry n m X hX hm
      rw [hG'] at hG; cases hG; exact hR
  refine ⟨by rw [molecular_take, hG]; rfl, ?_⟩
  exact (select_preserves_symmetric_psd is G n hR h (molecular_symmetric ploidy n m X G hX hG)
    (molecular_psd ploidy n m X G hX hG)).2.2

/-- **Minimum attainable inbreeding ≤ every diagonal entry ≤ maximum inbreeding**, in either format, for the
    model's own inverse (no solver contract): selfing-free contributions can only lower the inbreeding a single
    parent would give. -/
theorem min_inbreeding_le_diagonal (kin : Bool) (n : Nat) (G : List (List α)) (hG : Rect n n G)
    (hsym : ∀ i < n, ∀ j < n, entry G i j = entry G j i)
    (hpsd : ∀ v : Nat → α, 0 ≤ quad n G v) (x : α) (hx : minInbreeding kin G = some x) :
    (∀ i < n, x ≤ entry (asFormat kin G) i i) ∧
      ∀ y, maxInbreeding (asFormat kin G) = some y → 0 < n → x ≤ y := by
  have hdiag : ∀ i < n, x ≤ entry (asFormat kin G) i i := by
    intro i hi
    have hn : 0 < n := Nat.lt_of_le_of_lt (Nat.zero_le i) hi
    obtain ⟨hmin, _⟩ := min_inbreeding_is_min kin n hn G hG hsym hpsd x hx
    have := hmin (fun a => if a = i then 1 else 0) (sum_unit n i hi)
    rwa [quad_unit (asFormat kin G) n i hi] at this
  refine ⟨hdiag, ?_⟩
  intro y hy hn
  have hGk : Rect n n (asFormat kin G) := by
    cases kin with
    | false => exact hG
    | true => exact hG.mapMat _
  obtain ⟨⟨i, hi, hiy⟩, _⟩ := max_inbreeding_spec (asFormat kin G) n hGk y hy
  rw [← hiy]
  exact hdiag i hi

/-- **Molecular coancestry is twice a probability.**  For allele counts within `0..ploidy` (ploidy 1 or 2), any
    number of taxa and `m ≥ 1` markers: every entry lies in `[0, 2]` and every diagonal entry in `[1, 2]` (an
    individual is at least half identical by state with itself) — so `max_inbreeding()` of a molecular matrix is
    at most 2 and its kinship view is a matrix of probabilities. -/
theorem molecular_entries_bounds (ploidy n m : Nat) (X : List (List α)) (hX : Rect n m X)
    (hpl : ploidy = 1 ∨ ploidy = 2) (hm : 0 < m)
    (hrange : ∀ i < n, ∀ k < m, 0 ≤ entry X i k ∧ entry X i k ≤ (ploidy : α)) :
    ∃ G, molecular ploidy m X = .ok G ∧
      (∀ i < n, ∀ j < n, 0 ≤ entry G i j ∧ entry G i j ≤ 2) ∧ ∀ i < n, 1 ≤ entry G i i := by
  obtain ⟨G, hG, _, hE⟩ := molecular_eq_twice_ibs_counts ploidy n m X hX hpl hm
  have hc : (0 : α) < (ploidy : α) := by rcases hpl with rfl | rfl <;> norm_num
  have hmα : (0 : α) < (m : α) := Nat.cast_pos.mpr hm
  have hcc : (0 : α) < ((ploidy * ploidy : Nat) : α) := by push_cast; positivity
  -- one marker: the identity-by-state probability of two allele counts is a probability
  have ibs01 : ∀ i < n, ∀ j < n, ∀ k < m, 0 ≤ ibsCount ploidy X i j k ∧ ibsCount ploidy X i j k ≤ 1 := by
    intro i hi j hj k hk
    obtain ⟨x0, x1⟩ := hrange i hi k hk
    obtain ⟨y0, y1⟩ := hrange j hj k hk
    unfold ibsCount
    constructor
    · apply div_nonneg _ hcc.le
      have := mul_nonneg x0 y0
      have := mul_nonneg (sub_nonneg.mpr x1) (sub_nonneg.mpr y1)
      linarith
    · rw [div_le_one hcc]
      push_cast
      nlinarith [mul_nonneg x0 (sub_nonneg.mpr y1), mul_nonneg y0 (sub_nonneg.mpr x1)]
  have ibsHalf : ∀ i < n, ∀ k < m, 1 / 2 ≤ ibsCount ploidy X i i k := by
    intro i hi k hk
    unfold ibsCount
    rw [div_le_div_iff₀ (by norm_num) hcc]
    push_cast
    nlinarith [sq_nonneg (entry X i k - ((ploidy : α) - entry X i k))]
  refine ⟨G, hG, ?_, ?_⟩
  · intro i hi j hj
    rw [hE i hi j hj]
    unfold molecularFormula
    rw [sumRange_eq]
    have h0 : 0 ≤ ∑ k ∈ range m, ibsCount ploidy X i j k :=
      Finset.sum_nonneg (fun k hk => (ibs01 i hi j hj k (Finset.mem_range.mp hk)).1)
    have h1 : ∑ k ∈ range m, ibsCount ploidy X i j k ≤ (m : α) := by
      calc ∑ k ∈ range m, ibsCount ploidy X i j k ≤ ∑ _k ∈ range m, (1 : α) :=
            Finset.sum_le_sum (fun k hk => (ibs01 i hi j hj k (Finset.mem_range.mp hk)).2)
        _ = (m : α) := by simp
    constructor
    · have := div_nonneg h0 hmα.le
      linarith
    · have : (∑ k ∈ range m, ibsCount ploidy X i j k) / (m : α) ≤ 1 := (div_le_one hmα).mpr h1
      linarith
  · intro i hi
    rw [hE i hi i hi]
    unfold molecularFormula
    rw [sumRange_eq]
    have h1 : (m : α) * (1 / 2) ≤ ∑ k ∈ range m, ibsCount ploidy X i i k := by
      calc (m : α) * (1 / 2) = ∑ _k ∈ range m, (1 / 2 : α) := by simp
        _ ≤ ∑ k ∈ range m, ibsCount ploidy X i i k :=
            Finset.sum_le_sum (fun k hk => ibsHalf i hi k (Finset.mem_range.mp hk))
    have : 1 / 2 ≤ (∑ k ∈ range m, ibsCount ploidy X i i k) / (m : α) := by
      rw [le_div_iff₀ hmα]
      linarith
    linarith

/-- the solver contract of the `_partial` theorems cannot be dropped either: for `G = I₂` and the non-inverse
    `H = I₂/4` the value `1/ΣH = 2` exceeds `cᵀGc = 1/2` at `c = (1/2, 1/2)` -/
theorem min_inbreeding_contract_counterexample :
    minInbreedingOf ([[1/4, 0], [0, 1/4]] : List (List ℚ)) = 2 ∧
      quad 2 ([[1, 0], [0, 1]] : List (List ℚ)) (fun _ => 1/2) = 1/2 ∧
      (∑ _i ∈ range 2, (1/2 : ℚ)) = 1 ∧
      ¬ IsRightInverse 2 ([[1, 0], [0, 1]] : List (List ℚ)) [[1/4, 0], [0, 1/4]] := by
  refine ⟨by decide +kernel, ?_, by norm_num, ?_⟩
  · simp [quad, Finset.sum_range_succ, entry]
    norm_num
  · intro h
    have := h 0 (by norm_num) 0 (by norm_num)
    simp [Finset.sum_range_succ, entry] at this

end round4

/-! ### non-vacuity: concrete non-trivial inputs meet the hypotheses (evaluated by the kernel) -/
section nonvacuity

/-- three diploid taxa, two markers (two identical taxa, one different), as allele counts … -/
def exX : List (List ℚ) := [[1, 2], [1, 2], [0, 0]]
/-- … and as phased 0/1 alleles -/
def exG : List (List (List ℚ)) := [[[0, 1], [1, 1], [0, 0]], [[1, 1], [0, 1], [0, 0]]]

example : Rect 3 2 exX := ⟨rfl, by decide⟩
example : tacountPhased exG = exX := by decide +kernel
-- hypotheses of `molecular_eq_twice_ibs`
example : (exG.length = 1 ∨ exG.length = 2) ∧ (∀ ph ∈ exG, Rect 3 2 ph) := by
  refine ⟨Or.inr rfl, ?_⟩
  intro ph hph
  simp only [exG, List.mem_cons, List.not_mem_nil, or_false] at hph
  rcases hph with rfl | rfl <;> exact ⟨rfl, by decide⟩
example : ∀ ph ∈ exG, ∀ i < 3, ∀ k < 2, entry ph i k = 0 ∨ entry ph i k = 1 := by decide +kernel
-- and its conclusion on this input: the model's matrix, and the IBS formula for the pair (0, 2)
example : (molecular 2 2 (tacountPhased exG)).toOption
    = some [[3/2, 3/2, 1/2], [3/2, 3/2, 1/2], [1/2, 1/2, 2]] := by decide +kernel
example : molecularFormula 2 (ibsPhased exG) 0 2 = 1/2 ∧ molecularFormula 2 (ibsCount 2 exX) 0 2 = 1/2 := by
  decide +kernel
-- haploid
example : (molecular (α := ℚ) 1 3 [[0, 1, 1], [1, 1, 0], [0, 0, 0]]).toOption
    = some [[2, 2/3, 2/3], [2/3, 2, 2/3], [2/3, 2/3, 2]] := by decide +kernel

-- hypotheses of `vanraden_def` / `vanraden_psd` / `yangClosed_def` for p = (1/2, 1/4)
example : (∀ k < 2, 0 ≤ ([1/2, 1/4] : List ℚ).getD k 0 ∧ ([1/2, 1/4] : List ℚ).getD k 0 ≤ 1) ∧
    (∃ k < 2, 0 < ([1/2, 1/4] : List ℚ).getD k 0 ∧ ([1/2, 1/4] : List ℚ).getD k 0 < 1) ∧
    (∀ k < 2, 0 < ([1/2, 1/4] : List ℚ).getD k 0 ∧ ([1/2, 1/4] : List ℚ).getD k 0 < 1) := by decide +kernel
example : (vanraden 2 [1/2, 1/4] exX).toOption
    = some [[18/7, 18/7, -6/7], [18/7, 18/7, -6/7], [-6/7, -6/7, 10/7]] := by decide +kernel
example : vanradenFormula 2 2 [1/2, 1/4] exX 0 2 = -6/7 := by decide +kernel
-- hypotheses of `vanraden_def_estimated`: counts within 0..2, marker 0 polymorphic (column total 2 of 6);
-- the estimated frequencies of `exX` are 1/3 and 2/3
example : afreq 2 3 2 exX = [1/3, 2/3] ∧
    (∀ i < 3, ∀ k < 2, 0 ≤ entry exX i k ∧ entry exX i k ≤ ((2 : Nat) : ℚ)) := by decide +kernel
example : ∃ k < 2, 0 < ∑ i ∈ range 3, entry exX i k ∧ ∑ i ∈ range 3, entry exX i k < ((2 : Nat) : ℚ) * (3 : Nat) :=
  ⟨0, by decide, by simp [Finset.sum_range_succ, entry, exX]; norm_num⟩
example : (yangClosed 2 2 [1/2, 1/4] exX).toOption
    = some [[3, 3, -1], [3, 3, -1], [-1, -1, 4/3]] := by decide +kernel
example : yangFormula 2 2 [1/2, 1/4] exX 0 2 = -1 := by decide +kernel
-- the square-root contract of `yang_def` is met by ℝ
example : ∀ x : ℝ, 0 < x → HasSqrt.sqrt x * HasSqrt.sqrt x = x := real_sqrt_contract
-- `gw_def` / `gw_psd`: weights (1, 2) ≥ 0, frequencies (0, 1)
example : gw 2 [1, 2] [0, 1] exX = [[1, 1, 0], [1, 1, 0], [0, 0, 8]] ∧
    (∀ k < 2, 0 ≤ ([1, 2] : List ℚ).getD k 0) := by decide +kernel
-- sub-selection [2, 0] (an unsorted subset) on both sides of `molecular_select_commutes`
example : (molecular 2 2 (Np.take [2, 0] exX)).toOption = some [[2, 1/2], [1/2, 3/2]] ∧
    ((molecular 2 2 exX).map (selectSq [2, 0])).toOption = some [[2, 1/2], [1/2, 3/2]] ∧
    (Labels.select [2, 0] ⟨some ["a", "b", "c"], some [2, 1, 2], none⟩) = ⟨some ["c", "a"], some [2, 2], none⟩ := by
  decide +kernel
-- a grouped source for `group_metadata_carried`: groups 1,1,2 with metadata name [1,2], stix [0,2], spix [2,3], len [2,1]
example : (fromGmat (α := ℚ) ⟨some ["a", "b", "c"], some [1, 1, 2], some ⟨[1, 2], [0, 2], [2, 3], [2, 1]⟩⟩
      (molecular 2 2 exX)).toOption.map (·.lab.grpMeta)
    = some (some ⟨[1, 2], [0, 2], [2, 3], [2, 1]⟩) := by decide +kernel
-- a permutation for `vanraden_estimated_perm_commutes`
example : ([2, 0, 1] : List Nat).Perm (List.range exX.length) := by decide
-- summaries
example : maxAll exX = some 2 ∧ minAll exX = some 0 ∧ maxInbreeding ([[3/2, 1/2], [1/2, 2]] : List (List ℚ)) = some 2
    ∧ meanAll ([[3/2, 1/2], [1/2, 2]] : List (List ℚ)) = 9/8
    ∧ asFormat true ([[3/2, 1/2], [1/2, 2]] : List (List ℚ)) = [[3/4, 1/4], [1/4, 1]] := by decide +kernel
-- the solver contract of `min_inbreeding_is_min_partial` / `kinship_inverse_contract`:
-- G = [[2,1],[1,2]], H = G⁻¹ = [[2/3,-1/3],[-1/3,2/3]] (also what the model's Gauss–Jordan returns)
example : inverse ([[2, 1], [1, 2]] : List (List ℚ)) = some [[2/3, -1/3], [-1/3, 2/3]] ∧
    minInbreeding false ([[2, 1], [1, 2]] : List (List ℚ)) = some (3/2) ∧
    minInbreeding true ([[2, 1], [1, 2]] : List (List ℚ)) = some (3/4) := by decide +kernel
example : IsRightInverse 2 ([[2, 1], [1, 2]] : List (List ℚ)) [[2/3, -1/3], [-1/3, 2/3]] := by
  intro i hi j hj
  interval_cases i <;> interval_cases j <;> simp [Finset.sum_range_succ, entry] <;> norm_num
example : ∀ i < 2, ∀ j < 2, entry ([[2, 1], [1, 2]] : List (List ℚ)) i j = entry [[2, 1], [1, 2]] j i := by
  decide +kernel

-- `inverse_sound` / `min_inbreeding_is_min`: G = [[2,1],[1,2]] is 2×2, symmetric (above) and positive
-- semidefinite (vᵀGv = a² + b² + (a+b)²); the model returns 3/2 (coancestry) and 3/4 (kinship)
example : Rect 2 2 ([[2, 1], [1, 2]] : List (List ℚ)) := ⟨rfl, by decide⟩
example : ∀ v : Nat → ℚ, 0 ≤ quad 2 ([[2, 1], [1, 2]] : List (List ℚ)) v := by
  intro v
  simp only [quad, Finset.sum_range_succ, Finset.sum_range_zero, entry]
  norm_num
  nlinarith [sq_nonneg (v 0), sq_nonneg (v 1), sq_nonneg (v 0 + v 1)]
-- per-axis summaries
example : maxRows exX = some [2, 2, 0] ∧ minRows exX = some [1, 1, 0] ∧
    maxCols ([[3/2, 1/2], [1/4, 2]] : List (List ℚ)) = some [3/2, 2] ∧
    minCols ([[3/2, 1/2], [1/4, 2]] : List (List ℚ)) = some [1/4, 1/2] ∧
    meanRows ([[3/2, 1/2], [1/4, 2]] : List (List ℚ)) = [1, 9/8] ∧
    meanCols ([[3/2, 1/2], [1/4, 2]] : List (List ℚ)) = [7/8, 5/4] := by decide +kernel
-- `apply_jitter_spec`: a singular PSD matrix, a test that wants the first diagonal entry ≥ 3/2, two draws
-- in [1/4, 3/4]: the first fails the test, the second is kept; with no draw left the input is restored
example : applyJitter (fun M => decide ((3/2 : ℚ) ≤ entry M 0 0)) [[1/4, 1/2], [1/2, 3/4]] [[1, 1], [1, 1]]
      = ([[3/2, 1], [1, 7/4]], true) ∧
    applyJitter (fun M => decide ((3/2 : ℚ) ≤ entry M 0 0)) [[1/4, 1/2]] [[1, 1], [1, 1]]
      = ([[1, 1], [1, 1]], false) := by decide +kernel
example : ∀ u ∈ ([[1/4, 1/2], [1/2, 3/4]] : List (List ℚ)),
    u.length = 2 ∧ ∀ i < 2, (1/4 : ℚ) ≤ u.getD i 0 ∧ u.getD i 0 ≤ 3/4 := by decide +kernel
-- `kinship_half_rounded_partial`: 3/2 = 3·2⁻¹ is a binary64 number of ordinary size; the identity is a rounding
example : IsBinary64 (3/2) ∧ halfSafe (3/2) ∧ FixesBinary64 id := by
  refine ⟨⟨3, -1, by norm_num, by norm_num, by norm_num, by norm_num⟩, Or.inr ?_, fun _ _ => rfl⟩
  have h1 : (2 : ℚ) ^ (-1021 : ℤ) ≤ 1 := zpow_le_one_of_nonpos₀ (by norm_num) (by norm_num)
  have h2 : |(3 / 2 : ℚ)| = 3 / 2 := abs_of_pos (by norm_num)
  rw [h2]; linarith

-- round 3 --------------------------------------------------------------------------------------------
-- `inverse_kinship_is_twice` / `min_inbreeding_kinship_is_direct`: both eliminations succeed on G = [[2,1],[1,2]]
example : inverseFmt false ([[2, 1], [1, 2]] : List (List ℚ)) = some [[2/3, -1/3], [-1/3, 2/3]] ∧
    inverseFmt true ([[2, 1], [1, 2]] : List (List ℚ)) = some [[4/3, -2/3], [-2/3, 4/3]] ∧
    minInbreeding true ([[2, 1], [1, 2]] : List (List ℚ)) = some (3/4) ∧
    (1 : ℚ) / sumAll ([[4/3, -2/3], [-2/3, 4/3]] : List (List ℚ)) = 3/4 := by decide +kernel
-- `estimate_reorder_taxa_commutes`: the cycle [2, 0, 1] on the worked example (names coded 0, 1, 2; groups 7, 5, 7);
-- the object after `reorder_taxa` and the object computed from the re-ordered source
example : (∀ i ∈ ([2, 0, 1] : List Nat), i < exX.length) ∧
    (estimate Estimator.molecular 2 2 [] [] exX).toOption = some [[3/2, 3/2, 1/2], [3/2, 3/2, 1/2], [1/2, 1/2, 2]] := by
  decide +kernel
example : (reorderObj (([2, 0, 1] : List Nat).map Int.ofNat)
      (toObj ([[3/2, 3/2, 1/2], [3/2, 3/2, 1/2], [1/2, 1/2, 2]] : List (List ℚ)) (some [0, 1, 2]) (some [7, 5, 7])
        (some ⟨[5, 7], [0, 1], [1, 3], [1, 2]⟩))).toOption
    = some (toObj [[2, 1/2, 1/2], [1/2, 3/2, 3/2], [1/2, 3/2, 3/2]] (some [2, 0, 1]) (some [7, 7, 5]) none) := by
  decide +kernel
example : (estimate Estimator.molecular 2 2 [] [] (Np.take [2, 0, 1] exX)).toOption
    = some [[2, 1/2, 1/2], [1/2, 3/2, 3/2], [1/2, 3/2, 3/2]] := by decide +kernel
-- the same object sorted / grouped by the model of `sort_taxa` / `group_taxa` (keys: group, then name)
example : (groupObj (toObj ([[3/2, 3/2, 1/2], [3/2, 3/2, 1/2], [1/2, 1/2, 2]] : List (List ℚ)) (some [0, 1, 2])
      (some [7, 5, 7]) none)).toOption
    = some (toObj [[3/2, 3/2, 1/2], [3/2, 3/2, 1/2], [1/2, 1/2, 2]] (some [1, 0, 2]) (some [5, 7, 7])
        (some ⟨[5, 7], [0, 1], [1, 3], [1, 2]⟩)) := by decide +kernel
-- `molecular_int_width_contract`: counts of the worked example are within 0..2, 2 markers ≤ 127
example : NoWrapUpTo (wrapBits 8) (2 ^ 7 - 1) ∧ NoWrapUpTo (wrapBits 64) (2 ^ 63 - 1) :=
  ⟨wrapBits_noWrap 8 (by norm_num), wrapBits_noWrap 64 (by norm_num)⟩
example : (∀ r ∈ ([[1, 2], [1, 2], [0, 0]] : List (List Int)), ∀ x ∈ r, 0 ≤ x ∧ x ≤ ((2 : Nat) : Int)) ∧
    (molecularW (α := ℚ) (wrapBits 8) 2 2 [[1, 2], [1, 2], [0, 0]]).toOption
      = some [[3/2, 3/2, 1/2], [3/2, 3/2, 1/2], [1/2, 1/2, 2]] := by decide +kernel
-- a permutation for `yang_estimated_perm_commutes` / `gw_estimated_perm_commutes`
example : ([1, 2, 0] : List Nat).Perm (List.range ([[1, 2], [1, 1], [0, 0]] : List (List ℚ)).length) := by decide

-- the Spec oracles: the exact PSD test accepts [[2,1],[1,2]] and refutes the indefinite [[1,2],[2,1]]
example : Spec.psdShift 0 ([[2, 1], [1, 2]] : List (List ℚ)) = true ∧
    Spec.psdShift 0 ([[1, 2], [2, 1]] : List (List ℚ)) = false ∧
    Spec.psdShift (3/2) ([[1, 2], [2, 1]] : List (List ℚ)) = true := by decide +kernel
-- `spec_summ_sound`: the model reports summaries for G = [[2,1],[1,2]] in either format
example : (Spec.summOfModel false ([[2, 1], [1, 2]] : List (List ℚ))).isSome = true ∧
    (Spec.summOfModel true ([[2, 1], [1, 2]] : List (List ℚ))).isSome = true := by decide +kernel
-- `spec_cmat_sound`: the worked example with p = (1/2, 1/4) is a valid VanRaden input, with weights (1, 2) a valid
-- weighted one, and as counts a valid molecular one
example : Spec.Valid Estimator.vanraden ⟨2, 3, 2, false, [], exX⟩ [1/2, 1/4] [] := by
  refine ⟨rfl, by decide, rfl, by decide, by decide +kernel, ⟨0, by decide, by decide +kernel⟩⟩
example : Spec.Valid Estimator.gw ⟨2, 3, 2, false, [], exX⟩ [0, 1] [1, 2] := by
  refine ⟨rfl, by decide, rfl, rfl, by decide +kernel⟩
example : Spec.Valid Estimator.molecular ⟨2, 3, 2, false, [], exX⟩ [] [] := by
  refine ⟨rfl, by decide, Or.inr rfl, by decide, fun h => by cases h⟩
-- `spec_reorder_sound`: the model accepts the re-ordering of the worked object
example : (Spec.applyObjOp (.reorder [2, 0, 1]) (toObj ([[3/2, 3/2, 1/2], [3/2, 3/2, 1/2], [1/2, 1/2, 2]] : List (List ℚ))
    (some [0, 1, 2]) (some [7, 5, 7]) none)).toOption.isSome = true := by decide +kernel

-- round 4 --------------------------------------------------------------------------------------------
-- `end_relative_index`: with 3 taxa, -1 is taxon 2, -3 is taxon 0, 3 and -4 are rejected
example : LabelMat.normIdx 3 (-1) = .ok 2 ∧ LabelMat.normIdxs 3 [-1, 0, -3] = .ok [2, 0, 0] ∧
    LabelMat.normIdx 3 3 = .error .index ∧ LabelMat.normIdx 3 (-4) = .error .index := by decide
-- `estimate_reorder_taxa_int_commutes`: the cycle of the round-3 example written as [-1, 0, -2]
example : LabelMat.normIdxs exX.length [-1, 0, -2] = .ok [2, 0, 1] ∧
    (reorderObj [-1, 0, -2]
      (toObj ([[3/2, 3/2, 1/2], [3/2, 3/2, 1/2], [1/2, 1/2, 2]] : List (List ℚ)) (some [0, 1, 2]) (some [7, 5, 7])
        (some ⟨[5, 7], [0, 1], [1, 3], [1, 2]⟩))).toOption
    = some (toObj [[2, 1/2, 1/2], [1/2, 3/2, 3/2], [1/2, 3/2, 3/2]] (some [2, 0, 1]) (some [7, 7, 5]) none) := by
  decide +kernel
-- `select_taxa_end_relative_commutes`: "first and last" on the worked example
example : Spec.normSel exX.length [0, -1] = some [0, 2] ∧
    (estimate Estimator.vanraden 2 2 [] [1/2, 1/4] (Np.take [0, 2] exX)).toOption
      = ((estimate Estimator.vanraden 2 2 [] [1/2, 1/4] exX).toOption.map (selectSq [0, 2])) := by decide +kernel
-- `select_preserves_symmetric_psd`: a selection with a repeat of G = [[2,1],[1,2]] (symmetric, PSD: see above)
example : (∀ i ∈ ([1, 0, 1] : List Nat), i < 2) ∧
    selectSq [1, 0, 1] ([[2, 1], [1, 2]] : List (List ℚ)) = [[2, 1, 2], [1, 2, 1], [2, 1, 2]] := by decide +kernel
-- `min_inbreeding_le_diagonal`: 3/2 ≤ 2 on G = [[2,1],[1,2]]; kinship 3/4 ≤ 1
example : minInbreeding false ([[2, 1], [1, 2]] : List (List ℚ)) = some (3/2) ∧
    maxInbreeding (asFormat false ([[2, 1], [1, 2]] : List (List ℚ))) = some 2 ∧
    maxInbreeding (asFormat true ([[2, 1], [1, 2]] : List (List ℚ))) = some 1 := by decide +kernel
-- `spec_cmat_sound` with a sub-selection: the components of `Spec.selOfModel` for taxa [2, 0] of the worked
-- VanRaden example (matrix computed from the sub-selected counts = sub-selected matrix; labels taken along)
example : (estimate Estimator.vanraden 2 2 [] [1/2, 1/4] (Np.take [2, 0] exX)).toOption
      = some (selectSq [2, 0] ([[18/7, 18/7, -6/7], [18/7, 18/7, -6/7], [-6/7, -6/7, 10/7]] : List (List ℚ))) ∧
    (CMat.select [2, 0] (⟨[[18/7, 18/7, -6/7], [18/7, 18/7, -6/7], [-6/7, -6/7, 10/7]],
      ⟨some ["a", "b", "c"], none, none⟩⟩ : CMat ℚ)).mat = [[10/7, -6/7], [-6/7, 18/7]] ∧
    (Labels.select [2, 0] ⟨some ["a", "b", "c"], none, none⟩).taxa = some ["c", "a"] := by decide +kernel
-- `molecular_entries_bounds`: the counts of the worked example lie within 0..2
example : ∀ i < 3, ∀ k < 2, (0 : ℚ) ≤ entry exX i k ∧ entry exX i k ≤ ((2 : Nat) : ℚ) := by decide +kernel

end nonvacuity

end C13
