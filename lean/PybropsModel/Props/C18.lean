/-
C18 — Haplotype-block values conserve genomic value and bound progeny.
Property theorems only (helper lemmas: Lemmas/Haplo*.lean).

Model: PybropsModel/Model/Haplo.lean — the code AFTER the repair of defect D10 (patches/C18_D10.diff)
  `nhaploblkChrom`  = haplo.py:nhaploblk_chrom (greedy loop transcribed: full chromosomes are skipped while another
                      has room; NaN branch for zero total length)
  `haplobinHB`      = haplo.py:haplobin with the boundary vectors as a parameter (`haplobin` = with exact `linspace`,
                      `haplobinR rnd` = with rounded `linspace`): per chromosome the painting loop, then the
                      equal-count fallback when a label stayed unused; cells that are never written are `none`
  `haplobinBounds`  = haplo.py:haplobin_bounds (loop transcribed; closed form `blockPairs`)
  `blocksOf`        = everything of `haplomat` / `_calc_haplomat` before the fill loop (marker-count guard included)
  `hmatFibre`/`haplomat`, `blockVal` = the fill loop of haplo.py:haplomat and of the three `_calc_haplomat`
  `ohv`, `opvLatent` = `_calc_ohvmat`, OPV `latentfn`
  `…Prerepair`      = the same functions BEFORE the repair (section 4b: what was wrong, with counterexamples)
Vocabulary of the statements (defined in Lemmas/, all executable):
  `ValidChroms chroms`   ≥ 1 chromosome, every chromosome non-empty with sorted positions
  `BoundsOK hb pos`      ≥ 2 boundaries, sorted, first ≤ every marker ≤ last (what `linspace` delivers,
                         in exact arithmetic — `exact_linspace_ok` — and under IEEE rounding)
  `labelsChrom hb k pos` the equal-width labels: marker `x` gets `k + #{interior boundaries ≤ x}`
  `relabelChrom hb k pos`, `relabelAll hbs chroms k`  the labels the repaired `haplobin` returns (closed form)
  `nruns l`, `blockPairs l`  number of blocks / the `(start, stop)` pairs `haplobin_bounds` reports
  `BinsFilled hb pos`    every equal-width bin `[hb[j], hb[j+1])` (last one closed) holds a marker
-/
import PybropsModel.Lemmas.HaploPipeline
import PybropsModel.Lemmas.HaploFixed
import PybropsModel.Lemmas.HaploRepair
import PybropsModel.Lemmas.HaploCapLit
import PybropsModel.Lemmas.HaploXmap
import PybropsModel.Lemmas.HaploSort
import PybropsModel.Lemmas.HaploCount
import PybropsModel.Lemmas.HaploRound
import PybropsModel.Lemmas.HaploSpecSound2
import PybropsModel.Lemmas.HaploChunk
import PybropsModel.Lemmas.HaploEnc
import PybropsModel.Lemmas.HaploSpecIff
import PybropsModel.Lemmas.HaploRoundRel
import PybropsModel.Lemmas.HaploFillLoop
set_option autoImplicit false
set_option linter.unusedSectionVars false

namespace C18
open Haplo

variable {α : Type} [Field α] [LinearOrder α] [IsStrictOrderedRing α]

/-! ## 1. apportionment of blocks to chromosomes (all layouts, all genetic lengths) -/

/-- **`blocks_sum = nhaploblk ∧ ∀ chr ≥ 1`.**  An accepted request returns one count per chromosome,
    every count is at least one and the counts sum to exactly the requested total — whatever the
    positions are (no sortedness, no distinctness, zero-length chromosomes included) and whatever the
    request is (totals beyond the marker count included). -/
theorem blocks_sum (n : Nat) (chroms : List (List α)) (hne : chroms ≠ []) (nb : List Nat)
    (h : nhaploblkChrom n chroms = .ok nb) :
    nb.length = chroms.length ∧ nb.sum = n ∧ ∀ x ∈ nb, 1 ≤ x :=
  nhaploblkChrom_total n chroms hne nb h

/-- **never more blocks than markers.**  For every total between the chromosome count and the marker count the
    request is accepted and no chromosome is given more blocks than it has markers (so the marker-count guard of
    `haplomat` / `_calc_haplomat` never fires inside the property's quantifier). -/
theorem blocks_fit_markers (n : Nat) (chroms : List (List α)) (hc : ∀ c ∈ chroms, c ≠ [])
    (hlo : chroms.length ≤ n) (hhi : n ≤ (chroms.map List.length).sum) :
    ∃ nb, nhaploblkChrom n chroms = .ok nb ∧ nb.length = chroms.length ∧ nb.sum = n ∧ (∀ x ∈ nb, 1 ≤ x) ∧
      List.Forall₂ (· ≤ ·) nb (chroms.map List.length) :=
  nhaploblkChrom_ok n chroms hc hlo hhi

/-- **the greedy loop, transcribed literally, equals the closed form.**  One iteration as the code writes it —
    `full = nhaploblk_chrom >= chrgrp_len; if not full.all(): diff = numpy.where(full, numpy.inf, diff); ix = diff.argmin()`
    with `+inf` a genuine extra value and `argmin` the left-to-right scan for the first minimum (`pickCapLit`) — picks
    the index the model's `pickCap` picks (first minimal entry among the chromosomes with room; plain `argmin` when
    all are full), and so does the whole loop, for every ideal vector, every marker counts, every start. -/
theorem apportion_loop_literal_eq_closed_form (ideal : List α) (lens : List Nat) (k : Nat) (nb : List Nat)
    (hlen : ideal.length = nb.length) :
    greedyCap ideal lens k nb = greedyCapLit ideal lens k nb ∧
    ∀ diff : List α, (fullMask nb lens).length ≤ diff.length → pickCap diff nb lens = pickCapLit diff nb lens :=
  ⟨greedyCap_eq_lit ideal lens k nb hlen, fun diff hd => pickCap_eq_lit diff nb lens hd⟩

/-- a request is refused exactly when it is below the chromosome count: every total between the
    chromosome count and the marker count (and beyond) is accepted by `nhaploblk_chrom` -/
theorem request_refused_iff (n : Nat) (chroms : List (List α)) :
    (∃ e, nhaploblkChrom n chroms = .error e) ↔ n < chroms.length :=
  nhaploblkChrom_error_iff n chroms

/-- the chromosome slices `genpos[stix[i]:spix[i]]` of a layout whose chromosomes tile the markers
    (`stix = 0 :: B`, `spix = B ++ [p]`, `0 ≤ b₁ ≤ … ≤ p = len(genpos)`) concatenate to `genpos`: the
    chromosome-grouped form the theorems use loses and duplicates no marker -/
theorem layout_slices_tile {β : Type} (genpos : List β) (B : List Nat)
    (hs : (0 :: (B ++ [genpos.length])).Pairwise (· ≤ ·)) :
    (chromSlices genpos (0 :: B) (B ++ [genpos.length])).flatten = genpos := by
  rw [chromSlices_flatten genpos 0 genpos.length B hs, slice_zero_length]

/-! ## 2. bins: every marker gets exactly one label; labels are ordered and chromosome-private -/

/-- exact `linspace` is a legal boundary vector for every sorted non-empty chromosome and every
    positive bin count, so §2–§4 apply to `haplobin` as computed in exact arithmetic -/
theorem exact_linspace_ok (nblk : List Nat) (chroms : List (List α)) (hlen : nblk.length = chroms.length)
    (hpos : ∀ n ∈ nblk, 1 ≤ n) (hv : ValidChroms chroms) :
    List.Forall₂ BoundsOK (hbounds nblk chroms) chroms ∧ nbins (hbounds nblk chroms) = nblk.sum :=
  hbounds_ok nblk chroms hlen hpos hv.2

/-- **`bin_total`.**  Neither the painting loop (later bins overwrite) nor the equal-count fallback leaves a marker
    unlabelled: every cell of the `numpy.empty` label array is written, with the closed-form label `relabelAll`;
    there is one label per marker. -/
theorem bin_total {β : Type} [LinearOrder β] (hbs chroms : List (List β))
    (h : List.Forall₂ BoundsOK hbs chroms) :
    haplobinHB hbs chroms 0 = (relabelAll hbs chroms 0).map some ∧
      (relabelAll hbs chroms 0).length = (chroms.map List.length).sum :=
  ⟨haplobinHB_eq_relabel hbs chroms 0 h, relabelAll_length hbs chroms 0 h⟩

/-- the closed form of the labels of one chromosome: equal-width label `k + #{interior boundaries ≤ x}` (a marker
    exactly on an interior boundary belongs to the LATER bin: `≤` in the count), replaced for the whole chromosome
    by the equal-count label `k + (i · nhap) / m` of marker number `i` when the `nhap ≤ m` labels were not all used -/
theorem label_closed_form {β : Type} [LinearOrder β] (hb : List β) (k : Nat) (pos : List β) :
    labelsChrom hb k pos = pos.map (fun x => k + (hb.tail.dropLast).countP (fun b => decide (b ≤ x))) ∧
    relabelChrom hb k pos =
      (if hb.length - 1 ≤ pos.length ∧ ndistinct (labelsChrom hb k pos) < hb.length - 1
       then (List.range pos.length).map (fun i => k + i * (hb.length - 1) / pos.length)
       else labelsChrom hb k pos) :=
  ⟨rfl, rfl⟩

/-- the equal-width labels are what `haplobin` returns wherever every equal-width bin holds a marker, and wherever
    a chromosome has fewer markers than bins (direct call outside the property's quantifier) -/
theorem equal_width_kept {β : Type} [LinearOrder β] (hb pos : List β) (k : Nat) (hok : BoundsOK hb pos) :
    (BinsFilled hb pos → relabelChrom hb k pos = labelsChrom hb k pos) ∧
    (pos.length < hb.length - 1 → relabelChrom hb k pos = labelsChrom hb k pos) :=
  ⟨relabelChrom_of_filled hb pos k hok, relabelChrom_of_short hb pos k⟩

/-- **`bin_monotone`.**  Labels never decrease along the genome (blocks are ordered and contiguous). -/
theorem bin_monotone {β : Type} [LinearOrder β] (hbs chroms : List (List β))
    (h : List.Forall₂ BoundsOK hbs chroms) (hp : ∀ c ∈ chroms, c.Pairwise (· ≤ ·)) :
    (relabelAll hbs chroms 0).Pairwise (· ≤ ·) :=
  relabelAll_sorted hbs chroms 0 h hp

/-- **`bin_ranges_disjoint_across_chrom`.**  The first chromosome's labels lie in `[k, k + nb)`, all
    later chromosomes' labels in `[k + nb, k + total)`: no label is shared between chromosomes. -/
theorem bin_ranges_disjoint_across_chrom {β : Type} [LinearOrder β] (hb pos : List β) (hbs cs : List (List β))
    (k : Nat) (h : List.Forall₂ BoundsOK (hb :: hbs) (pos :: cs)) :
    relabelAll (hb :: hbs) (pos :: cs) k = relabelChrom hb k pos ++ relabelAll hbs cs (k + (hb.length - 1)) ∧
    (∀ l ∈ relabelChrom hb k pos, k ≤ l ∧ l < k + (hb.length - 1)) ∧
    (∀ l ∈ relabelAll hbs cs (k + (hb.length - 1)), k + (hb.length - 1) ≤ l ∧ l < k + nbins (hb :: hbs)) := by
  cases h with
  | cons h1 h2 =>
    refine ⟨rfl, relabelChrom_lt hb k pos h1.two, ?_⟩
    intro l hl
    have := relabelAll_range hbs cs (k + (hb.length - 1)) h2 l hl
    simp only [nbins, List.map_cons, List.sum_cons] at this ⊢
    omega

/-- **every label is used.**  When no chromosome is given more bins than it has markers, every label
    `0, …, nbins - 1` occurs: no requested block is lost (the defect D10 of the code before the repair). -/
theorem every_label_used {β : Type} [LinearOrder β] (hbs chroms : List (List β))
    (h : List.Forall₂ BoundsOK hbs chroms) (hp : ∀ c ∈ chroms, c.Pairwise (· ≤ ·))
    (hcap : List.Forall₂ (fun hb (c : List β) => hb.length - 1 ≤ c.length) hbs chroms) :
    ∀ j, j < nbins hbs → j ∈ relabelAll hbs chroms 0 := by
  intro j hj
  have := (relabelAll_good hbs chroms 0 h hp hcap).surj j hj
  simpa using this

/-! ### 2b. `linspace` in rounded (floating-point) arithmetic

`RoundOK rnd`: `rnd` is monotone and `rnd 0 = 0`.  `ChromRoundOK rnd n c`: `n ≥ 1`, the chromosome's first
position is representable (`rnd start = start`) and the last COMPUTED point `rnd(rnd((n-1)·step) + start)` does
not overshoot the stop.  numpy's formula is `linspaceR rnd`: `step = rnd(rnd(stop-start)/n)`,
`y[j] = rnd(rnd(j·step) + start)`, `y[n] = stop`; the comparisons `>=`, `<=` of `haplobin` are exact. -/

/-- **rounded `linspace` is a legal boundary vector** for every rounding that meets the contract: all
    theorems of §2–§4 stated for `BoundsOK` boundaries therefore hold for the labels computed in floating
    point, markers exactly on (rounded) boundaries included -/
theorem rounded_linspace_ok (rnd : α → α) (hr : RoundOK rnd) (nblk : List Nat) (chroms : List (List α))
    (hc : List.Forall₂ (ChromRoundOK rnd) nblk chroms) (hv : ValidChroms chroms) :
    List.Forall₂ BoundsOK (hboundsR rnd nblk chroms) chroms ∧ nbins (hboundsR rnd nblk chroms) = nblk.sum :=
  hboundsR_ok rnd hr nblk chroms hc hv.2

/-- **`bin_total` / `bin_monotone` / requested total for every admissible rounding**: every marker is labelled, one
    label each, labels non-decreasing along the genome and below the number of requested blocks; and when no
    chromosome is given more bins than markers, every label is used and the labels form exactly `Σ nblk` blocks —
    whatever the rounding does to the boundaries (clustered positions, markers on rounded boundaries included) -/
theorem bin_total_monotone_rounded (rnd : α → α) (hr : RoundOK rnd) (nblk : List Nat) (chroms : List (List α))
    (hc : List.Forall₂ (ChromRoundOK rnd) nblk chroms) (hv : ValidChroms chroms) :
    ∃ L : List Nat, haplobinR rnd nblk chroms = L.map some ∧ L.length = (chroms.map List.length).sum ∧
      L.Pairwise (· ≤ ·) ∧ (∀ l ∈ L, l < nblk.sum) ∧
      (List.Forall₂ (fun (n : Nat) (c : List α) => n ≤ c.length) nblk chroms →
        nruns L = nblk.sum ∧ ∀ j, j < nblk.sum → j ∈ L) := by
  obtain ⟨hok, hnb⟩ := hboundsR_ok rnd hr nblk chroms hc hv.2
  have hp : ∀ c ∈ chroms, c.Pairwise (· ≤ ·) := fun c hcm => (hv.2 c hcm).2
  refine ⟨relabelAll (hboundsR rnd nblk chroms) chroms 0, haplobinHB_eq_relabel _ _ 0 hok,
    relabelAll_length _ _ 0 hok, relabelAll_sorted _ _ 0 hok hp, ?_, ?_⟩
  · intro l hl
    have := (relabelAll_range _ _ 0 hok l hl).2
    omega
  · intro hfit
    have hpos : ∀ n ∈ nblk, 1 ≤ n := forall₂_left _ _ _ _ hc (fun _ _ h => h.1)
    have hcap := cap_of_zipWith (fun n c => linspaceR rnd (c.headD 0) (c.getLastD 0) n)
      (fun n c hn => linspaceR_length rnd _ _ n hn) nblk chroms hpos hfit
    have hcap' : List.Forall₂ (fun hb (c : List α) => hb.length - 1 ≤ c.length) (hboundsR rnd nblk chroms) chroms := hcap
    refine ⟨by rw [← hnb]; exact nruns_relabelAll_eq _ chroms hok hp hcap', ?_⟩
    intro j hj
    rw [← hnb] at hj
    have := (relabelAll_good _ chroms 0 hok hp hcap').surj j hj
    simpa using this

/-- **the no-overshoot clause follows from the standard floating-point model.**  For every rounding that is
    monotone, fixes 0, errs upwards by at most a relative `e ≤ 1/4` on non-negative numbers (`RelUp`: round to
    nearest with unit round-off `e = 2⁻⁵³`, away from underflow) and represents the chromosome's first and last
    position, `ChromRoundOK` holds for every bin count `n` with `4 e n ≤ 1` (n ≤ 2⁵¹ in binary64): the last
    computed point of numpy's `linspace` cannot pass the stop. -/
theorem rounded_linspace_no_overshoot (rnd : α → α) (hr : RoundOK rnd) (e : α) (h0 : 0 ≤ e) (h1 : e ≤ 1 / 4)
    (hrel : RelUp rnd e) (n : Nat) (hn : 1 ≤ n) (hne : 4 * e * (n : α) ≤ 1) (c : List α)
    (hs : c.headD 0 ≤ c.getLastD 0) (hfirst : rnd (c.headD 0) = c.headD 0)
    (hlast : rnd (c.getLastD 0) = c.getLastD 0) :
    ChromRoundOK rnd n c ∧ pointR rnd (c.headD 0) (c.getLastD 0) n (n - 1) ≤ c.getLastD 0 :=
  ⟨chromRoundOK_of_relUp rnd hr e h0 h1 hrel n hn hne c hs hfirst hlast,
   pointR_last_le rnd hr e h0 h1 hrel _ _ hs hlast n hn hne⟩

/-- **`bin_total` / `bin_monotone` / requested total under the floating-point model** (no per-layout side condition
    left): for every valid layout whose chromosome end points are representable and every apportionment with at most
    `1/(4e)` bins per chromosome, the labels computed with rounded `linspace` are total, one per marker, sorted and
    `< Σ nblk`; with no more bins than markers on any chromosome they form exactly `Σ nblk` blocks. -/
theorem bin_total_monotone_float_model (rnd : α → α) (hr : RoundOK rnd) (e : α) (h0 : 0 ≤ e) (h1 : e ≤ 1 / 4)
    (hrel : RelUp rnd e) (nblk : List Nat) (chroms : List (List α)) (hv : ValidChroms chroms)
    (hc : List.Forall₂ (fun (n : Nat) (c : List α) => 1 ≤ n ∧ 4 * e * (n : α) ≤ 1 ∧ rnd (c.headD 0) = c.headD 0 ∧
      rnd (c.getLastD 0) = c.getLastD 0) nblk chroms) :
    ∃ L : List Nat, haplobinR rnd nblk chroms = L.map some ∧ L.length = (chroms.map List.length).sum ∧
      L.Pairwise (· ≤ ·) ∧ (∀ l ∈ L, l < nblk.sum) ∧
      (List.Forall₂ (fun (n : Nat) (c : List α) => n ≤ c.length) nblk chroms → nruns L = nblk.sum) := by
  have hc' : List.Forall₂ (ChromRoundOK rnd) nblk chroms := by
    have hv2 := hv.2
    clear hv
    induction hc with
    | nil => exact List.Forall₂.nil
    | @cons n c ns cs h _ ih =>
      obtain ⟨hn, hne, hf, hl⟩ := h
      refine List.Forall₂.cons ?_ (ih (fun c' hc' => hv2 c' (List.mem_cons_of_mem _ hc')))
      obtain ⟨hcne, hcs⟩ := hv2 c List.mem_cons_self
      have hs : c.headD 0 ≤ c.getLastD 0 := by
        cases c with
        | nil => exact absurd rfl hcne
        | cons a t => simpa using sorted_le_getLastD a t 0 hcs a List.mem_cons_self
      exact chromRoundOK_of_relUp rnd hr e h0 h1 hrel n hn hne c hs hf hl
  obtain ⟨L, h1', h2', h3', h4', h5'⟩ := bin_total_monotone_rounded rnd hr nblk chroms hc' hv
  exact ⟨L, h1', h2', h3', h4', fun hfit => (h5' hfit).1⟩

/-- **boundary ties.**  With strictly increasing boundaries the marker sitting exactly on the interior boundary
    `hb[j]` gets the equal-width label `k + j`, i.e. it is put in the LATER of the two closed bins `[hb[j-1], hb[j]]`,
    `[hb[j], hb[j+1]]` that contain it (later bins overwrite) -/
theorem boundary_marker_goes_to_later_bin {β : Type} [LinearOrder β] (hb : List β) (k j : Nat) (h1 : 1 ≤ j)
    (h2 : j + 1 < hb.length) (hs : hb.Pairwise (· < ·)) :
    labelsChrom hb k [hb[j]'(by omega)] = [k + j] :=
  label_on_boundary hb k j h1 h2 hs

/-- exact arithmetic is the instance `rnd = id` of the contract (so §2b subsumes `exact_linspace_ok`) -/
theorem exact_is_rounded (a b : α) (n : Nat) (hn : 1 ≤ n) (hab : a ≤ b) :
    linspaceR id a b n = linspace a b n ∧ RoundOK (id : α → α) ∧ pointR id a b n (n - 1) ≤ b :=
  ⟨linspaceR_id a b n, roundOK_id, pointR_id_last a b n hn hab⟩

/-- the no-overshoot clause of the contract cannot be dropped: rounding up to integers is monotone, fixes
    0 and 1, and turns `linspace(0, 1, 4)` into 0, 1, 2, 1 (not sorted) -/
theorem overshoot_clause_needed_counterexample :
    let rnd : ℚ → ℚ := fun x => (⌈x⌉ : ℤ)
    RoundOK rnd ∧ rnd 0 = 0 ∧ rnd 1 = 1 ∧ linspaceR rnd 0 1 3 = [0, 1, 2, 1] :=
  overshoot_needed

/-! ## 3. run-length boundaries: the blocks tile the markers -/

/-- **`bounds_partition`.**  For every non-empty label vector `haplobin_bounds` returns
    `hstix = 0 :: B`, `hspix = B ++ [len]`, `hlen = hspix - hstix` where `0 < b₁ < b₂ < … < len`:
    consecutive, non-empty, ordered segments that tile `[0, len)`; and `B` is exactly the set of
    positions where the label differs from its predecessor (blocks = maximal runs). -/
theorem bounds_partition {β : Type} [DecidableEq β] (a : β) (xs : List β) :
    ∃ B : List Nat,
      haplobinBounds (a :: xs) =
        .ok (0 :: B, B ++ [xs.length + 1], List.zipWith (fun e s => e - s) (B ++ [xs.length + 1]) (0 :: B)) ∧
      (0 :: (B ++ [xs.length + 1])).Pairwise (· < ·) ∧
      (∀ b, b ∈ B ↔ ∃ h1 : 1 ≤ b, ∃ h2 : b < (a :: xs).length, (a :: xs)[b] ≠ (a :: xs)[b - 1]'(by omega)) ∧
      blockPairs (a :: xs) = List.zip (0 :: B) (B ++ [xs.length + 1]) :=
  ⟨breaksFrom a 1 xs, haplobinBounds_eq a xs, starts_chain a xs, mem_starts_iff a xs, rfl⟩

/-- `haplobin_bounds` raises (IndexError) only on the empty vector -/
theorem bounds_error_iff {β : Type} [DecidableEq β] (l : List β) :
    (∃ e, haplobinBounds l = .error e) ↔ l = [] := by
  cases l with
  | nil => simp [haplobinBounds]
  | cons a xs => simp [haplobinBounds_eq]

/-- **blocks stay within chromosomes, every chromosome gets at least one — and exactly its allotment.**  The
    genome-wide number of blocks is the sum over chromosomes of the number of blocks formed by that chromosome's own
    labels; each of these is ≥ 1 and ≤ the number of bins given to the chromosome, and EQUAL to it whenever no
    chromosome is given more bins than it has markers. -/
theorem blocks_within_chromosomes {β : Type} [LinearOrder β] (hbs chroms : List (List β))
    (h : List.Forall₂ BoundsOK hbs chroms) (hc : ∀ c ∈ chroms, c ≠ [] ∧ c.Pairwise (· ≤ ·)) :
    nruns (relabelAll hbs chroms 0) = (runsPerChromR hbs chroms 0).sum ∧
      List.Forall₂ (fun r hb => 1 ≤ r ∧ r ≤ hb.length - 1) (runsPerChromR hbs chroms 0) hbs ∧
      (List.Forall₂ (fun hb (c : List β) => hb.length - 1 ≤ c.length) hbs chroms →
        runsPerChromR hbs chroms 0 = hbs.map (fun hb => hb.length - 1)) :=
  nruns_relabelAll hbs chroms 0 h hc

/-! ## 4. "uses exactly the requested total" -/

/-- never MORE blocks than requested, for any bin counts (so the fill loop `hmat[:,:,j,i] = …` cannot run out of
    columns) -/
theorem runs_le_requested {β : Type} [LinearOrder β] (hbs chroms : List (List β))
    (h : List.Forall₂ BoundsOK hbs chroms) (hp : ∀ c ∈ chroms, c.Pairwise (· ≤ ·)) :
    nruns (relabelAll hbs chroms 0) ≤ nbins hbs :=
  nruns_relabelAll_le hbs chroms h hp

/-- … and exactly as many as requested when no chromosome is given more bins than it has markers — whatever the
    positions (clustered, duplicated, on boundaries) and whatever the boundary vectors (exact or rounded) -/
theorem runs_eq_requested {β : Type} [LinearOrder β] (hbs chroms : List (List β))
    (h : List.Forall₂ BoundsOK hbs chroms) (hp : ∀ c ∈ chroms, c.Pairwise (· ≤ ·))
    (hcap : List.Forall₂ (fun hb (c : List β) => hb.length - 1 ≤ c.length) hbs chroms) :
    nruns (relabelAll hbs chroms 0) = nbins hbs :=
  nruns_relabelAll_eq hbs chroms h hp hcap

/-- **`uses_requested_total` — the FULL statement.**  For every valid layout (clustered positions that leave an
    equal-width bin empty and markers exactly on a block boundary included) and every total between the chromosome
    count and the marker count, the pipeline `nhaploblk_chrom` → guard → `haplobin` → `haplobin_bounds` accepts the
    request and returns: one count per chromosome, each ≥ 1, at most the chromosome's marker count, summing to `n`;
    one label per marker, labels sorted, inside `[0, n)` and every label used; hence exactly `n` blocks. -/
theorem uses_requested_total (n : Nat) (chroms : List (List α)) (hv : ValidChroms chroms)
    (hlo : chroms.length ≤ n) (hhi : n ≤ (chroms.map List.length).sum) :
    ∃ nblk hbin bnds, blocksOf n chroms = .ok (nblk, hbin, bnds) ∧ bnds.length = n ∧
      bnds = blockPairs hbin ∧
      (nblk.length = chroms.length ∧ nblk.sum = n ∧ (∀ x ∈ nblk, 1 ≤ x) ∧
        List.Forall₂ (· ≤ ·) nblk (chroms.map List.length)) ∧
      (hbin.length = (chroms.map List.length).sum ∧ hbin.Pairwise (· ≤ ·) ∧
        (∀ l ∈ hbin, l < n) ∧ ∀ j, j < n → j ∈ hbin) := by
  obtain ⟨nblk, hbin, bnds, h1, h2, h3, h4, h5, h6⟩ := blocksOf_ok n chroms hv hlo hhi
  refine ⟨nblk, hbin, bnds, h1, h2, h3, h4, h5, h6.sorted, ?_, ?_⟩
  · intro l hl; have := (h6.range l hl).2; omega
  · intro j hj; have := h6.surj j hj; simpa using this

/-- **the partition, as one statement.**  Whatever the pipeline returns on a valid layout is: one block count per
    chromosome, each ≥ 1 and ≤ the chromosome's marker count, summing to the request; one label per marker, the
    labels non-decreasing along the genome; blocks `(0,b₁),(b₁,b₂),…,(b_k,p)` with `0 < b₁ < … < p`
    (every marker in exactly one block, blocks contiguous and ordered); every chromosome start is a block start and
    chromosome `i` holds exactly `nblk[i]` blocks (blocks within chromosomes, every chromosome at least one);
    and the number of blocks is exactly the requested total. -/
theorem pipeline_partition (n : Nat) (chroms : List (List α))
    (hv : ValidChroms chroms) (nblk hbin : List Nat) (bnds : List (Nat × Nat))
    (h : blocksOf n chroms = .ok (nblk, hbin, bnds)) :
    (nblk.length = chroms.length ∧ nblk.sum = n ∧ (∀ x ∈ nblk, 1 ≤ x) ∧
      List.Forall₂ (· ≤ ·) nblk (chroms.map List.length)) ∧
    (hbin.length = (chroms.map List.length).sum ∧ hbin.Pairwise (· ≤ ·) ∧ ∀ l ∈ hbin, l < n) ∧
    (∃ B : List Nat, bnds = List.zip (0 :: B) (B ++ [hbin.length]) ∧
        (0 :: (B ++ [hbin.length])).Pairwise (· < ·) ∧ ∀ s ∈ chromStarts chroms 0, s ∈ 0 :: B) ∧
    (bnds.length = (runsPerChromR (hbounds nblk chroms) chroms 0).sum ∧
      runsPerChromR (hbounds nblk chroms) chroms 0 = nblk) ∧
    bnds.length = n := by
  obtain ⟨hlen, _⟩ := blocksOf_length n chroms hv nblk hbin bnds h
  obtain ⟨hnb, rfl, rfl, hok, hnbins, hfit, hcap⟩ := blocksOf_stages n chroms hv nblk hbin bnds h
  have hp : ∀ c ∈ chroms, c.Pairwise (· ≤ ·) := fun c hc => (hv.2 c hc).2
  obtain ⟨hl, hsum, hpos⟩ := blocks_sum n chroms hv.1 nblk hnb
  obtain ⟨hr1, _, hr3⟩ := nruns_relabelAll _ chroms 0 hok hv.2
  refine ⟨⟨hl, hsum, hpos, hfit⟩, ⟨relabelAll_length _ chroms 0 hok, relabelAll_sorted _ chroms 0 hok hp, ?_⟩,
    ?_, ⟨?_, ?_⟩, hlen⟩
  · intro l hl'
    have := (relabelAll_range _ chroms 0 hok l hl').2
    omega
  · have hlne := relabelAll_ne_nil (hbounds nblk chroms) chroms 0 hok hv.1 (fun c hc => (hv.2 c hc).1)
    cases hL : relabelAll (hbounds nblk chroms) chroms 0 with
    | nil => exact absurd hL hlne
    | cons a xs =>
      refine ⟨breaksFrom a 1 xs, rfl, starts_chain a xs, ?_⟩
      have := withinChrom_sound_relabel _ chroms hok hv.1 (fun c hc => (hv.2 c hc).1) a xs hL
      simpa [Spec.withinChrom] using this
  · rw [blockPairs_length]; exact hr1
  · rw [hr3 hcap]; exact hbounds_lens nblk chroms hl hpos

/-- the pipeline refuses — always with the tag `"value"` — exactly the totals below the chromosome count or above
    the marker count: no marker is ever left unlabelled and the fill loop never indexes past the last block column
    (the two internal error branches of the model are dead code) -/
theorem pipeline_errors_are_refusals (n : Nat) (chroms : List (List α)) (hv : ValidChroms chroms) :
    ((∃ e, blocksOf n chroms = .error e) ↔ (n < chroms.length ∨ (chroms.map List.length).sum < n)) ∧
    ∀ e, blocksOf n chroms = .error e → e = "value" :=
  blocksOf_error_iff n chroms hv

/-! ### 4b. the code before the repair (defect D10): what was wrong, exactly

`…Prerepair` is the model of haplo.py before the `fix:` commit.  Its labels are the equal-width labels `labelsAll`
for every layout; the theorems below characterise when it lost blocks, and the counterexamples show the loss. -/

/-- the labels of the code before the repair: equal-width labels on every chromosome, no fallback -/
theorem labels_prerepair {β : Type} [LinearOrder β] (hbs chroms : List (List β))
    (h : List.Forall₂ BoundsOK hbs chroms) :
    haplobinHBPrerepair hbs chroms 0 = (labelsAll hbs chroms 0).map some :=
  haplobinHBPrerepair_eq_labels hbs chroms 0 h

/-- **the exact condition.**  Before the repair the number of blocks produced equalled the number requested if and
    only if every equal-width bin `[hb[j], hb[j+1])` of every chromosome held a marker. -/
theorem requested_total_iff_bins_filled_prerepair {β : Type} [LinearOrder β] (hbs chroms : List (List β))
    (h : List.Forall₂ BoundsOK hbs chroms) (hp : ∀ c ∈ chroms, c.Pairwise (· ≤ ·)) :
    nruns (labelsAll hbs chroms 0) = nbins hbs ↔ List.Forall₂ BinsFilled hbs chroms :=
  nruns_eq_nbins_iff hbs chroms h hp

/-- before the repair the pipeline returned a well-formed partition with at most `n` blocks, and FEWER than
    requested exactly when some equal-width bin was empty -/
theorem fewer_blocks_iff_empty_bin_prerepair (n : Nat) (chroms : List (List α)) (guard : Bool)
    (hv : ValidChroms chroms) (nblk hbin : List Nat) (bnds : List (Nat × Nat))
    (h : blocksOfPrerepair n chroms guard = .ok (nblk, hbin, bnds)) :
    bnds.length ≤ n ∧ (bnds.length < n ↔ ¬ List.Forall₂ BinsFilled (hbounds nblk chroms) chroms) := by
  obtain ⟨_, rfl, rfl, hok, hnb⟩ := blocksOfPrerepair_ok n chroms guard hv nblk hbin bnds h
  have hp : ∀ c ∈ chroms, c.Pairwise (· ≤ ·) := fun c hc => (hv.2 c hc).2
  have hle := nruns_le_nbins _ chroms hok hp
  have hiff := nruns_eq_nbins_iff _ chroms hok hp
  rw [blockPairs_length]
  rw [hnb] at hle hiff
  refine ⟨hle, ?_⟩
  rw [← hiff]
  omega

/-- **which columns of the haplotype matrix stayed unwritten before the repair**: with `k` = the number of non-empty
    equal-width bins (`filledAll`, a decidable count on the input) the pipeline returned exactly `k ≤ n` blocks, and in
    every fibre (phase, individual, trait) column `j` held the value of the `j`-th block for `j < k` and was never
    written for `k ≤ j < n` — the uninitialised columns were exactly the last `n - k` ones, whatever the data. -/
theorem unwritten_columns_prerepair (n : Nat) (chroms : List (List α)) (guard : Bool)
    (hv : ValidChroms chroms) (nblk hbin : List Nat) (bnds : List (Nat × Nat))
    (h : blocksOfPrerepair n chroms guard = .ok (nblk, hbin, bnds)) (g u : List α) :
    bnds.length = filledAll (hbounds nblk chroms) chroms ∧ bnds.length ≤ n ∧
    (hmatFibre n bnds g u).length = n ∧
    ∀ j, (hmatFibre n bnds g u)[j]? =
      if hj : j < bnds.length then some (some (blockVal g u bnds[j]))
      else if j < n then some none else none := by
  obtain ⟨_, rfl, rfl, hok, hnb⟩ := blocksOfPrerepair_ok n chroms guard hv nblk hbin bnds h
  have hle : (blockPairs (labelsAll (hbounds nblk chroms) chroms 0)).length ≤ n := by
    rw [blockPairs_length]
    have := nruns_le_nbins _ chroms hok (fun c hc => (hv.2 c hc).2)
    omega
  refine ⟨?_, hle, hmatFibre_length n _ g u hle, fun j => hmatFibre_cell n _ g u hle j⟩
  rw [blockPairs_length]
  exact nruns_eq_filledAll _ chroms hok hv.2

/-- the marker-count guard of `haplomat` / `_calc_haplomat` (more blocks than markers on a chromosome ⇒
    raise) only ever refused layouts with an empty equal-width bin (pigeonhole): a refusal by the guard was an
    instance of the same defect, not a different one -/
theorem guard_refusal_implies_empty_bin {β : Type} [LinearOrder β] (hb pos : List β) (hok : BoundsOK hb pos)
    (hguard : pos.length < hb.length - 1) : ¬ BinsFilled hb pos := by
  intro hf
  have := binsFilled_length_le hb pos hok hf
  omega

/-- **D10 (before the repair).**  Positions (0, 0.01, 0.02, 1) on one chromosome, 4 blocks requested (4 markers):
    the three clustered markers leave the equal-width bins [0.25,0.5) and [0.5,0.75) empty, two blocks were
    produced, block columns 2 and 3 of the haplotype matrix were never written, and the optimal haploid
    value of every cross read uninitialised memory.  The repaired pipeline returns the four blocks. -/
theorem empty_bin_prerepair_counterexample :
    blocksOfPrerepair (α := ℚ) 4 [[0, 1/100, 2/100, 1]] true = .ok ([4], [0, 0, 0, 3], [(0, 3), (3, 4)]) ∧
    hmatFibre (α := ℚ) 4 [(0, 3), (3, 4)] [1, 0, 1, 1] [1, 2, 4, 8] = [some 5, some 8, none, none] ∧
    traitValues (haplomat (α := ℚ) 4 [(0, 3), (3, 4)] [[[1, 0, 1, 1], [0, 1, 1, 0]]] [[1, 2, 4, 8]]) 0 = none ∧
    ¬ BinsFilled (linspace (0 : ℚ) 1 4) [0, 1/100, 2/100, 1] ∧
    blocksOf (α := ℚ) 4 [[0, 1/100, 2/100, 1]] = .ok ([4], [0, 1, 2, 3], [(0, 1), (1, 2), (2, 3), (3, 4)]) := by
  refine ⟨by decide +kernel, by decide +kernel, by decide +kernel, ?_, by decide +kernel⟩
  intro hf
  obtain ⟨x, hx, h1, h2⟩ := hf 1 (by decide +kernel)
  have hb : (linspace (0 : ℚ) 1 4)[1]'(by decide +kernel) = 1/4 := by decide +kernel
  have hb2 : (linspace (0 : ℚ) 1 4)[1 + 1]'(by decide +kernel) = 1/2 := by decide +kernel
  have h2' := h2 (by decide +kernel)
  rw [hb] at h1
  rw [hb2] at h2'
  simp only [List.mem_cons, List.not_mem_nil, or_false] at hx
  rcases hx with rfl | rfl | rfl | rfl
  · norm_num at h1
  · norm_num at h1
  · norm_num at h1
  · norm_num at h2'

/-- a bin could also stay unused although a marker touched it: (0, 2, 3, 4) in 4 bins — the only marker
    of bin [1,2] sits on its upper boundary and is claimed by the next bin (3 blocks before the repair, 4 after) -/
theorem boundary_marker_prerepair_counterexample :
    blocksOfPrerepair (α := ℚ) 4 [[0, 2, 3, 4]] true = .ok ([4], [0, 2, 3, 3], [(0, 1), (1, 2), (2, 4)]) ∧
    blocksOf (α := ℚ) 4 [[0, 2, 3, 4]] = .ok ([4], [0, 1, 2, 3], [(0, 1), (1, 2), (2, 3), (3, 4)]) := by
  constructor <;> decide +kernel

/-- before the repair the greedy apportionment could also give a chromosome more blocks than markers, so that the
    marker-count guard refused a total inside the property's quantifier (2 far-apart markers next to 4 close ones,
    5 blocks for 6 markers); the repaired loop skips the full chromosome -/
theorem guard_refusal_prerepair_counterexample :
    nhaploblkChromPrerepair (α := ℚ) 5 [[0, 100], [0, 1, 2, 3]] = .ok [4, 1] ∧
    blocksOfPrerepair (α := ℚ) 5 [[0, 100], [0, 1, 2, 3]] true = .error "value" ∧
    blocksOf (α := ℚ) 5 [[0, 100], [0, 1, 2, 3]]
      = .ok ([2, 3], [0, 1, 2, 3, 4, 4], [(0, 1), (1, 2), (2, 3), (3, 4), (4, 6)]) := by
  refine ⟨by decide +kernel, by decide +kernel, by decide +kernel⟩

/-! ## 5. conservation of value over the blocks actually produced -/

/-- **`value_conserved`.**  For every label vector (any labels, any number of runs), every chromosome
    copy `g` and every effect vector `u` of the same length: the block values `g[st:sp]·u[st:sp]` over
    the blocks reported by `haplobin_bounds` sum to the copy's total additive value `g·u`. -/
theorem value_conserved {β : Type} [DecidableEq β] (l : List β) (hne : l ≠ []) (g u : List α)
    (hg : g.length = l.length) (hu : u.length = l.length) :
    ((blockPairs l).map (blockVal g u)).sum = Np.dot g u := by
  cases l with
  | nil => exact absurd rfl hne
  | cons a xs =>
    have hchain : (0 :: (breaksFrom a 1 xs ++ [xs.length + 1])).Pairwise (· ≤ ·) :=
      (starts_chain a xs).imp (fun h => Nat.le_of_lt h)
    have := sum_blockVal_chain g u (by rw [hg, hu]) 0 (xs.length + 1) (breaksFrom a 1 xs) hchain
    simp only [blockPairs]
    rw [this]
    simp only [blockVal]
    have e1 : slice 0 (xs.length + 1) g = g := by
      have : xs.length + 1 = g.length := by simp [hg]
      rw [this]; exact slice_zero_length g
    have e2 : slice 0 (xs.length + 1) u = u := by
      have : xs.length + 1 = u.length := by simp [hu]
      rw [this]; exact slice_zero_length u
    rw [e1, e2]

/-- **value is conserved over the `nhaploblk` columns of the haplotype matrix.**  Whatever the pipeline returns on a
    valid layout, all `n` cells of every fibre (phase, individual, trait) of the haplotype matrix are written and
    they sum to the chromosome copy's total additive value `g·u`. -/
theorem hmat_fibre_conserved (n : Nat) (chroms : List (List α)) (hv : ValidChroms chroms)
    (nblk hbin : List Nat) (bnds : List (Nat × Nat)) (h : blocksOf n chroms = .ok (nblk, hbin, bnds))
    (g u : List α) (hg : g.length = hbin.length) (hu : u.length = hbin.length) :
    ∃ cells, allSome (hmatFibre n bnds g u) = some cells ∧ cells.length = n ∧ cells.sum = Np.dot g u := by
  obtain ⟨hlen, hruns⟩ := blocksOf_length n chroms hv nblk hbin bnds h
  obtain ⟨_, rfl, rfl, hok, _, _, _⟩ := blocksOf_stages n chroms hv nblk hbin bnds h
  have hne := relabelAll_ne_nil (hbounds nblk chroms) chroms 0 hok hv.1 (fun c hc => (hv.2 c hc).1)
  refine ⟨(blockPairs _).map (blockVal g u), ?_, by simp [blockPairs_length, hruns],
    value_conserved _ hne g u hg hu⟩
  rw [allSome_hmatFibre n _ g u (le_of_eq hlen), if_pos hlen]

/-- **the fill loop, transcribed literally, equals the closed form.**  `for j,(st,sp) in enumerate(zip(hstix,hspix)):
    hmat[m,n,j,i] = g[st:sp]·u[st:sp]` on a `numpy.empty` fibre of `n` columns yields `hmatFibre` (the first
    `len(hstix)` cells written in order, the rest untouched) whenever the blocks fit, and raises IndexError exactly
    when there are more blocks than columns — which `runs_le_requested` excludes for the pipeline; the whole matrix
    the driver computes through the loop (`haplomatLoop`) is the closed-form `haplomat` the theorems speak about. -/
theorem fill_loop_eq_closed_form (n : Nat) (bnds : List (Nat × Nat)) (g u : List α) :
    (bnds.length ≤ n → hmatFibreLoop n bnds g u = some (hmatFibre n bnds g u)) ∧
    (n < bnds.length → hmatFibreLoop n bnds g u = none) ∧
    (bnds.length ≤ n → ∀ (geno : List (List (List α))) (ucols : List (List α)),
      haplomatLoop n bnds geno ucols = .ok (haplomat n bnds geno ucols)) :=
  ⟨hmatFibreLoop_eq n bnds g u, hmatFibreLoop_overflow n bnds g u,
   fun h geno ucols => haplomatLoop_eq n bnds geno ucols h⟩

/-- with fewer blocks than columns the trailing cells would be uninitialised, whatever the data (what happened
    before the repair, `empty_bin_prerepair_counterexample`; excluded for the pipeline by `pipeline_partition`) -/
theorem hmat_fibre_uninitialised (n : Nat) (bnds : List (Nat × Nat)) (g u : List α) (h : bnds.length < n) :
    allSome (hmatFibre n bnds g u) = none := by
  rw [allSome_hmatFibre n bnds g u h.le, if_neg (by omega)]

/-- **finiteness.**  Whatever the pipeline returns on a valid layout, the block-value table that `_calc_ohvmat` /
    `latentfn` read from the haplotype matrix contains no uninitialised cell: it is the table of true block values
    (finite numbers, sums of products of the inputs). -/
theorem haplomat_finite (n : Nat) (chroms : List (List α)) (hv : ValidChroms chroms)
    (nblk hbin : List Nat) (bnds : List (Nat × Nat)) (h : blocksOf n chroms = .ok (nblk, hbin, bnds))
    (geno : List (List (List α))) (ucols : List (List α)) (t : Nat) (u : List α) (hu : ucols[t]? = some u) :
    traitValues (haplomat n bnds geno ucols) t = some (blockTable geno u bnds) :=
  traitValues_haplomat_eq n bnds geno ucols t u hu (blocksOf_length n chroms hv nblk hbin bnds h).1

/-! ## 6. optimal haploid value and optimal population value -/

/-- **`ohv_def`.**  `_calc_ohvmat` is `ploidy · Σ_blocks best(block)`, where `best(block)` is an upper
    bound of, and one of, the block values of the (phase, parent) pairs of the cross. -/
theorem ohv_def (V : List (List (List α))) (nblk : Nat) (parents : List Nat) :
    ohv V nblk parents = (V.length : α) * ((List.range nblk).map (fun b => (bestBlock V parents b).getD 0)).sum ∧
    ∀ b, cands V parents b ≠ [] →
      ∃ mx, bestBlock V parents b = some mx ∧ mx ∈ cands V parents b ∧ ∀ v ∈ cands V parents b, v ≤ mx := by
  refine ⟨by unfold ohv; rw [npsum_eq], ?_⟩
  intro b hb
  cases hc : cands V parents b with
  | nil => exact absurd hc hb
  | cons c cs =>
    have hbb : bestBlock V parents b = some (maxL c cs) := by simp [bestBlock, hc]
    refine ⟨maxL c cs, hbb, ?_, ?_⟩
    · rw [← hc]; exact bestBlock_mem V parents b _ hbb
    · intro v hv; exact maxL_ge c cs v hv

/-- the candidates of a block are exactly the table entries of the (phase, parent ∈ cross) pairs -/
theorem cands_iff (V : List (List (List α))) (parents : List Nat) (b : Nat) (v : α) :
    v ∈ cands V parents b ↔
      ∃ m p : Nat, p ∈ parents ∧ ((V[m]?).bind (fun Vm => (Vm[p]?).bind (fun r => r[b]?))) = some v :=
  ⟨cands_mem V parents b v, fun ⟨m, p, hp, hv⟩ => mem_cands V parents b m p v hp hv⟩

/-- **`ohv_ge_any_dh`.**  Take any partition produced by `haplobin_bounds` (label vector `l`), any genome
    matrix and effects of matching length, any cross, and any doubled haploid whose gamete takes block
    `b` from chromosome copy `(phase, parent) = ch b` of the cross (recombination only at block
    boundaries).  Its genotypic value `ploidy · (gamete · u)` is at most the optimal haploid value
    computed from the table of true block values. -/
theorem ohv_ge_any_dh (l : List Nat) (hne : l ≠ []) (geno : List (List (List α))) (u : List α)
    (hu : u.length = l.length) (hgeno : ∀ gm ∈ geno, ∀ g ∈ gm, g.length = l.length)
    (parents : List Nat) (ch : Nat → Nat × Nat)
    (hch : ∀ b, b < nruns l → (ch b).2 ∈ parents ∧
      ((geno[(ch b).1]?).bind (fun gm => gm[(ch b).2]?)).isSome) :
    (geno.length : α) *
        Np.dot (mosaic (blockPairs l) ((List.range (nruns l)).map (fun b => copyOf geno (ch b)))) u
      ≤ ohv (blockTable geno u (blockPairs l)) (nruns l) parents := by
  rw [mosaic_value l hne geno u hu hgeno ch (fun b hb => (hch b hb).2)]
  have hlen : (blockTable geno u (blockPairs l)).length = geno.length := by simp [blockTable]
  rw [← hlen]
  apply ohv_ge_choice
  intro b hb
  obtain ⟨hp, hs⟩ := hch b hb
  refine ⟨hp, ?_⟩
  obtain ⟨g, hg⟩ := Option.isSome_iff_exists.mp hs
  rw [pick_blockTable geno u _ (ch b) b g hg (by rw [blockPairs_length]; exact hb)]
  rfl

/-- **`ohv_ge_any_dh`, all traits at once, any ploidy, effects of any sign.**  ONE doubled haploid (one choice
    of chromosome copy per block) is bounded in EVERY trait by that trait's optimal haploid value — the optimal
    gametes of different traits may differ, the bound holds component-wise; `geno.length` (the ploidy / number of
    phases) is arbitrary (1, 2, 3, 4, …) and no sign condition is put on the effects. -/
theorem ohv_ge_any_dh_multitrait (l : List Nat) (hne : l ≠ []) (geno : List (List (List α)))
    (ucols : List (List α)) (hu : ∀ u ∈ ucols, u.length = l.length)
    (hgeno : ∀ gm ∈ geno, ∀ g ∈ gm, g.length = l.length)
    (parents : List Nat) (ch : Nat → Nat × Nat)
    (hch : ∀ b, b < nruns l → (ch b).2 ∈ parents ∧
      ((geno[(ch b).1]?).bind (fun gm => gm[(ch b).2]?)).isSome) :
    ∀ u ∈ ucols,
      (geno.length : α) *
          Np.dot (mosaic (blockPairs l) ((List.range (nruns l)).map (fun b => copyOf geno (ch b)))) u
        ≤ ohv (blockTable geno u (blockPairs l)) (nruns l) parents :=
  fun u hmem => ohv_ge_any_dh l hne geno u (hu u hmem) hgeno parents ch hch

/-- **from the layout to the bound, end to end** (what the driver op `c18.model` computes): whatever the pipeline
    returns on a valid layout, the table `_calc_ohvmat` reads from the haplotype matrix is fully written, and the
    optimal haploid value computed from it — column count `n`, as in the code — bounds every block-boundary doubled
    haploid of the cross, for every trait. -/
theorem pipeline_ohv_ge_any_dh (n : Nat) (chroms : List (List α))
    (hv : ValidChroms chroms) (nblk hbin : List Nat) (bnds : List (Nat × Nat))
    (h : blocksOf n chroms = .ok (nblk, hbin, bnds))
    (geno : List (List (List α))) (ucols : List (List α))
    (hu : ∀ u ∈ ucols, u.length = hbin.length) (hgeno : ∀ gm ∈ geno, ∀ g ∈ gm, g.length = hbin.length)
    (parents : List Nat) (ch : Nat → Nat × Nat)
    (hch : ∀ b, b < n → (ch b).2 ∈ parents ∧ ((geno[(ch b).1]?).bind (fun gm => gm[(ch b).2]?)).isSome)
    (t : Nat) (u : List α) (hut : ucols[t]? = some u) :
    ∃ V, traitValues (haplomat n bnds geno ucols) t = some V ∧
      (geno.length : α) * Np.dot (mosaic bnds ((List.range n).map (fun b => copyOf geno (ch b)))) u
        ≤ ohv V n parents := by
  obtain ⟨hfull, hn⟩ := blocksOf_length n chroms hv nblk hbin bnds h
  obtain ⟨_, rfl, rfl, hok, _, _, _⟩ := blocksOf_stages n chroms hv nblk hbin bnds h
  have hne := relabelAll_ne_nil (hbounds nblk chroms) chroms 0 hok hv.1 (fun c hc => (hv.2 c hc).1)
  refine ⟨_, traitValues_haplomat_eq n _ geno ucols t u hut hfull, ?_⟩
  have hmem : u ∈ ucols := List.mem_of_getElem? hut
  have := ohv_ge_any_dh _ hne geno u (hu u hmem) hgeno parents ch (by rw [hn]; exact hch)
  rwa [hn] at this

/-! ### 6b. `_calc_ohvmat`: the memory-chunk loop (`mem = 1024` in every factory) -/

/-- Python's `range(a, n, step)` (transcribed with fuel) is `a, a + step, …` below `n` -/
theorem range_closed_form (a n step : Nat) (hs : 0 < step) :
    rangeStep a n step = (List.range ((n - a + step - 1) / step)).map (fun i => a + i * step) :=
  rangeStep_closed step hs (n - a) a n (le_refl _)

/-- **the chunked evaluation equals the row-wise definition for EVERY chunk size.**  The literal loop
    `for rst, rsp in zip(range(0, s, step), srange(step, s, step)): out[rst:rsp] = ploidy * (…)` over a
    `numpy.empty` output writes every row exactly once — no row is left uninitialised, none is written twice with
    different values — and row `i` is the optimal haploid value of cross configuration `i`; `mem = None` is the
    single chunk; a zero step is refused (Python's `range`). -/
theorem ohvmat_chunked_eq_rowwise (V : List (List (List α))) (nblk : Nat) (xm : List (List Nat)) :
    (∀ step, 0 < step →
      calcOhvmat V nblk xm (some step) = .ok (xm.map (fun par => some (ohv V nblk par)))) ∧
    (xm ≠ [] → calcOhvmat V nblk xm none = .ok (xm.map (fun par => some (ohv V nblk par)))) ∧
    calcOhvmat V nblk xm (some 0) = .error "value" ∧ calcOhvmat V nblk [] none = .error "value" :=
  ⟨fun step hs => calcOhvmat_some V nblk xm step hs, calcOhvmat_none V nblk xm,
   (calcOhvmat_zero_step V nblk xm).1, (calcOhvmat_zero_step V nblk xm).2⟩

/-- … and the bound is attained: the optimal haploid value IS the value of the best such doubled
    haploid (the maximum over block-wise choices among the parents) -/
theorem ohv_attained_by_some_dh (V : List (List (List α))) (nblk : Nat) (parents : List Nat)
    (hne : ∀ b, b < nblk → cands V parents b ≠ []) :
    ∃ ch : Nat → Nat × Nat,
      (∀ b, b < nblk → (ch b).2 ∈ parents ∧
        ((V[(ch b).1]?).bind (fun Vm => (Vm[(ch b).2]?).bind (fun r => r[b]?))).isSome) ∧
      ohv V nblk parents = (V.length : α) * ((List.range nblk).map (fun b => pick V (ch b) b)).sum :=
  ohv_attained V nblk parents hne

/-- **`opv_def`.**  The OPV latent function is minus the same optimal value, taken over the whole
    selected set: everything proved for `ohv` holds for `-opvLatent`. -/
theorem opv_def (V : List (List (List α))) (nblk : Nat) (x : List Nat) :
    opvLatent V nblk x = - ohv V nblk x := rfl

/-- consequently a larger parent set never has a smaller optimal value: `ohv` is monotone in the cross -/
theorem ohv_mono_parents (V : List (List (List α))) (nblk : Nat) (p q : List Nat) (hpq : p ⊆ q)
    (hne : ∀ b, b < nblk → cands V p b ≠ []) : ohv V nblk p ≤ ohv V nblk q := by
  obtain ⟨ch, hch, heq⟩ := ohv_attained V nblk p hne
  rw [heq]
  exact ohv_ge_choice V nblk q ch (fun b hb => ⟨hpq (hch b hb).1, (hch b hb).2⟩)

/-- the optimal haploid value depends only on the SET of designated parents: listing a parent twice (selfing,
    `unique_parents = False`) or in another order changes nothing -/
theorem ohv_depends_on_parent_set (V : List (List (List α))) (nblk : Nat) (p q : List Nat)
    (hpq : p ⊆ q) (hqp : q ⊆ p) (hne : ∀ b, b < nblk → cands V p b ≠ []) : ohv V nblk p = ohv V nblk q := by
  have hne' : ∀ b, b < nblk → cands V q b ≠ [] := by
    intro b hb h0
    obtain ⟨ch, hch, _⟩ := ohv_attained V nblk p hne
    obtain ⟨hp, hs⟩ := hch b hb
    obtain ⟨v, hv⟩ := Option.isSome_iff_exists.mp hs
    have := mem_cands V q b (ch b).1 (ch b).2 v (hpq hp) hv
    rw [h0] at this
    simp at this
  exact le_antisymm (ohv_mono_parents V nblk p q hpq hne) (ohv_mono_parents V nblk q p hqp hne')

/-- **every parent tuple has its row.**  The cross map `_calc_xmap(ntaxa, nparent, unique_parents)` over which
    `_calc_ohvmat` runs lists exactly the `nparent`-tuples of taxa that are strictly increasing (`unique_parents`) resp.
    non-decreasing: no parent tuple is missing, none is listed that is not one -/
theorem cross_map_complete (ntaxa nparent : Nat) (unique : Bool) (par : List Nat) :
    par ∈ xmap ntaxa nparent unique ↔
      par.length = nparent ∧ (∀ p ∈ par, p < ntaxa) ∧
        (if unique then par.Pairwise (· < ·) else par.Pairwise (· ≤ ·)) :=
  mem_xmap ntaxa nparent unique par

/-! ## 7. the latent functions of the OHV subset problem and of the genotype builder -/

/-- **`ohv_latent_def`.**  The OHV subset `latentfn` is minus the arithmetic mean of the optimal haploid
    values of the selected crosses (each of which is bounded below by every block-boundary doubled haploid of
    that cross, `ohv_ge_any_dh`). -/
theorem ohv_latent_def (ohvcol : List α) (x : List Nat) (hx : ∀ i ∈ x, i < ohvcol.length) :
    ohvLatent ohvcol x = -((x.map (fun i => ohvcol.getD i 0)).sum / (x.length : α)) := by
  unfold ohvLatent
  rw [npsum_eq]
  have : x.filterMap (fun i => ohvcol[i]?) = x.map (fun i => ohvcol.getD i 0) := by
    induction x with
    | nil => rfl
    | cons a t ih =>
      have ha : a < ohvcol.length := hx a List.mem_cons_self
      simp only [List.filterMap_cons, List.getElem?_eq_getElem ha, List.map_cons, List.getD_eq_getElem?_getD,
        Option.getD_some]
      rw [ih (fun i hi => hx i (List.mem_cons_of_mem _ hi))]
      simp [List.getD_eq_getElem?_getD]
  rw [this]
  simp only [Nat.cast_one]
  ring

/-- the mean lies between the smallest and the largest selected OHV -/
theorem ohv_latent_bounds (ohvcol : List α) (x : List Nat) (hx : ∀ i ∈ x, i < ohvcol.length) (hne : x ≠ [])
    (lo hi : α) (hb : ∀ i ∈ x, lo ≤ ohvcol.getD i 0 ∧ ohvcol.getD i 0 ≤ hi) :
    lo ≤ -ohvLatent ohvcol x ∧ -ohvLatent ohvcol x ≤ hi := by
  rw [ohv_latent_def ohvcol x hx, neg_neg]
  have hlen : (0 : α) < (x.length : α) := by exact_mod_cast List.length_pos_of_ne_nil hne
  have h1 : (x.length : α) * lo ≤ (x.map (fun i => ohvcol.getD i 0)).sum := by
    have := List.sum_le_sum (l := x) (f := fun _ => lo) (g := fun i => ohvcol.getD i 0) (fun i hi => (hb i hi).1)
    simpa [List.map_const', List.sum_replicate, nsmul_eq_mul] using this
  have h2 : (x.map (fun i => ohvcol.getD i 0)).sum ≤ (x.length : α) * hi := by
    have := List.sum_le_sum (l := x) (f := fun i => ohvcol.getD i 0) (g := fun _ => hi) (fun i hi' => (hb i hi').2)
    simpa [List.map_const', List.sum_replicate, nsmul_eq_mul] using this
  constructor
  · rw [le_div_iff₀ hlen]; linarith
  · rw [div_le_iff₀ hlen]; linarith

/-- **`ohv_latent_weighted_def`** (real / integer / binary encodings).  `contrib = (1/x.sum()) * x;
    -contrib.dot(ohvmat)` is minus the `x`-weighted mean of ALL cross configurations' optimal haploid values;
    it does not change when `x` is rescaled (`latentfn(x) == latentfn(k x)`, as documented). -/
theorem ohv_latent_weighted_def (ohvcol x : List α) :
    ohvLatentW ohvcol x = -((List.zipWith (· * ·) x ohvcol).sum / x.sum) ∧
    ∀ k : α, k ≠ 0 → ohvLatentW ohvcol (x.map (fun xi => k * xi)) = ohvLatentW ohvcol x :=
  ⟨ohvLatentW_eq ohvcol x, fun k hk => ohvLatentW_scale ohvcol x k hk⟩

/-- with non-negative weights of positive total it is a weighted mean: between the smallest and the largest
    optimal haploid value (each of which bounds the doubled haploids of its cross, `ohv_ge_any_dh`) -/
theorem ohv_latent_weighted_bounds (ohvcol x : List α) (hlen : x.length = ohvcol.length)
    (hx : ∀ xi ∈ x, 0 ≤ xi) (hpos : 0 < x.sum) (lo hi : α) (hb : ∀ v ∈ ohvcol, lo ≤ v ∧ v ≤ hi) :
    lo ≤ -ohvLatentW ohvcol x ∧ -ohvLatentW ohvcol x ≤ hi :=
  ohvLatentW_bounds ohvcol x hlen hx hpos lo hi hb

/-- the binary encoding is the subset encoding: a 0/1 vector yields minus the plain mean over the selected
    cross configurations -/
theorem ohv_latent_binary_is_subset_mean (ohvcol : List α) (sel : List Bool) (hlen : sel.length = ohvcol.length) :
    ohvLatentW ohvcol (sel.map (fun b => if b then (1 : α) else 0)) =
      -(((List.zip sel ohvcol).filter (·.1)).map (·.2)).sum / ((sel.filter id).length : α) :=
  ohvLatentW_binary ohvcol sel hlen

/-- **`gb_def`.**  The genotype-builder `latentfn` is `-(ploidy / nbest) · Σ_blocks top(b)` where, with
    `best(b)` the list of the selected individuals' best-phase values of block `b`, `top(b)` is the largest sum
    any `nbest` of them can reach: it bounds every `nbest`-element sub-multiset of `best(b)` and is attained
    by one; and it equals the Spec's formulation "sort descending, take `nbest`". -/
theorem gb_def (V : List (List (List α))) (nblk : Nat) (x : List Nat) (nbest : Nat) (hnb : nbest ≤ x.length) :
    gbLatent V nblk x nbest =
      -((V.length : α) / (nbest : α)) * ((List.range nblk).map (gbPerBlock V x nbest)).sum ∧
    ∀ b, (∀ s : List α, s.Subperm (x.map (fun p => (bestBlock V [p] b).getD 0)) → s.length = nbest →
            s.sum ≤ gbPerBlock V x nbest b) ∧
         (∃ s : List α, s.Subperm (x.map (fun p => (bestBlock V [p] b).getD 0)) ∧ s.length = nbest ∧
            s.sum = gbPerBlock V x nbest b) ∧
         gbPerBlock V x nbest b = ((sortDesc (x.map (fun p => (bestBlock V [p] b).getD 0))).take nbest).sum := by
  refine ⟨by unfold gbLatent; rw [npsum_eq], ?_⟩
  intro b
  set best := x.map (fun p => (bestBlock V [p] b).getD 0) with hbest
  have hlen : best.length = x.length := by simp [hbest]
  have hgb : gbPerBlock V x nbest b = ((sortAsc best).drop (best.length - nbest)).sum := by
    unfold gbPerBlock
    rw [npsum_eq, hlen]
    rfl
  refine ⟨?_, ?_, ?_⟩
  · intro s hs hl
    rw [hgb, ← hl]
    exact subperm_sum_le_topk best s hs
  · exact ⟨_, topk_subperm best nbest, topk_length best nbest (by omega), hgb.symm⟩
  · rw [hgb, drop_asc_sum_eq_take_desc_sum best nbest (by omega)]

/-- the best-phase value of individual `p` for block `b` is the maximum over the phases of `p` -/
theorem best_phase_def (V : List (List (List α))) (p b : Nat) (v : α) :
    v ∈ cands V [p] b ↔ ∃ m : Nat, ((V[m]?).bind (fun Vm => (Vm[p]?).bind (fun r => r[b]?))) = some v := by
  rw [cands_iff]
  constructor
  · rintro ⟨m, p', hp', hv⟩
    simp only [List.mem_singleton] at hp'
    subst hp'
    exact ⟨m, hv⟩
  · rintro ⟨m, hv⟩
    exact ⟨m, p, by simp, hv⟩

/-! ## 8. `spec_sound`: every clause of the Spec oracle (`c18.spec`, Model/HaploSpec.lean) accepts the model -/

/-- **`spec_sound`, structural clauses.**  On every valid layout, whatever the pipeline returns passes
    `apportion`, `partition`, `labels`, `within_chrom` AND `total` (so these clauses can never raise a false alarm on
    a tree that the model mirrors). -/
theorem spec_sound_structure (n : Nat) (chroms : List (List α)) (hv : ValidChroms chroms)
    (nblk hbin : List Nat) (bnds : List (Nat × Nat))
    (h : blocksOf n chroms = .ok (nblk, hbin, bnds)) :
    ∃ hstix hspix hlen, haplobinBounds hbin = .ok (hstix, hspix, hlen) ∧ bnds = List.zip hstix hspix ∧
      Spec.apportion n chroms.length nblk = true ∧
      Spec.partition hbin.length hstix hspix hlen = true ∧
      Spec.labels hbin.length hbin hstix = true ∧
      Spec.withinChrom (chromStarts chroms 0) hstix = true ∧
      (hstix.length == n) = true := by
  obtain ⟨hlen, _⟩ := blocksOf_length n chroms hv nblk hbin bnds h
  obtain ⟨hnb, rfl, rfl, hok, _, _, _⟩ := blocksOf_stages n chroms hv nblk hbin bnds h
  obtain ⟨h1, h2, h3⟩ := blocks_sum n chroms hv.1 nblk hnb
  have hlne := relabelAll_ne_nil (hbounds nblk chroms) chroms 0 hok hv.1 (fun c hc => (hv.2 c hc).1)
  cases hl : relabelAll (hbounds nblk chroms) chroms 0 with
  | nil => exact absurd hl hlne
  | cons a xs =>
    rw [hl] at hlen
    refine ⟨_, _, _, haplobinBounds_eq a xs, rfl, apportion_sound n _ nblk h1 h2 h3, ?_, ?_, ?_, ?_⟩
    · simpa using partition_sound a xs
    · simpa using labels_sound a xs
    · exact withinChrom_sound_relabel _ chroms hok hv.1 (fun c hc => (hv.2 c hc).1) a xs hl
    · simpa [blockPairs] using hlen

/-- **`spec_sound`, value clauses.**  When every requested block exists, the model's fully written haplotype
    matrix, its `ohvmat`, and its OPV / OHV / GB latent vectors pass `conserve`, `ohv_def`, `ohv_ge_dh` (for ANY
    list of proposed block-wise choices), `opv_def`, `ohv_latent_def` and `gb_def`.  (`ohvmatModel` etc. are what
    the driver op `c18.model` returns: `haplomat_finite` identifies the table it reads with `blockTable`.) -/
theorem spec_sound_values (l : List Nat) (hne : l ≠ []) (geno : List (List (List α))) (ucols : List (List α))
    (hgne : geno ≠ []) (hg : ∀ gm ∈ geno, ∀ g ∈ gm, g.length = l.length)
    (hu : ∀ u ∈ ucols, u.length = l.length) (xm : List (List Nat))
    (hxm : ∀ par ∈ xm, par ≠ [] ∧ ∀ p ∈ par, ∀ gm ∈ geno, p < gm.length)
    (xo : List Nat) (hxo : ∀ i ∈ xo, i < xm.length) (xp : List Nat) (nbest : Nat) (hnb : nbest ≤ xp.length)
    (choices : List (List (Nat × Nat))) :
    let bnds := blockPairs l
    let ohvmat := ohvmatModel geno ucols bnds xm
    Spec.conserve geno ucols (Spec.hmatTotal geno ucols bnds) (nruns l) = true ∧
    Spec.ohvDef geno ucols bnds xm ohvmat = true ∧
    Spec.ohvGeDh geno ucols bnds xm ohvmat choices = true ∧
    Spec.opvDef geno ucols bnds xp (ucols.map (fun u => opvLatent (blockTable geno u bnds) bnds.length xp)) = true ∧
    Spec.ohvLatentDef (ucols.map (Spec.scaleOf geno)) ohvmat xo (ohvLatentModel ohvmat ucols.length xo) = true ∧
    Spec.gbDef geno ucols bnds xp nbest
      (ucols.map (fun u => gbLatent (blockTable geno u bnds) bnds.length xp nbest)) = true := by
  intro bnds ohvmat
  refine ⟨conserve_sound l hne geno ucols hg hu, ohvDef_sound geno ucols bnds xm,
    ohvGeDh_sound l hne geno ucols hgne hg hu xm hxm choices, opvDef_sound geno ucols bnds xp,
    ohvLatentDef_sound _ ohvmat ucols.length xo ?_, gbDef_sound geno ucols bnds xp nbest hnb⟩
  intro i hi
  simpa [ohvmat, ohvmatModel] using hxo i hi

/-- **`spec_sound`, secondary entry points.**  The matrix the chunked `_calc_ohvmat` returns (any chunk size) is
    the model's `ohvmat` column — so it passes `ohv_def[entry]` / `ohv_ge_dh[entry]` by `spec_sound_values` — and
    the latent vector of the real / integer / binary problems passes `ohv_latent_w_def`, whatever the weights. -/
theorem spec_sound_entries (geno : List (List (List α))) (u : List α) (bnds : List (Nat × Nat))
    (xm : List (List Nat)) (step : Nat) (hs : 0 < step) (sc : List α) (ohvmat : List (List α)) (ntrait : Nat)
    (x : List α) :
    calcOhvmat (blockTable geno u bnds) bnds.length xm (some step) =
      .ok (xm.map (fun par => some (ohv (blockTable geno u bnds) bnds.length par))) ∧
    Spec.ohvLatentWDef sc ohvmat x (ohvLatentWModel ohvmat ntrait x) = true :=
  ⟨calcOhvmat_some _ _ xm step hs, ohvLatentWDef_sound sc ohvmat ntrait x⟩

/-- **`spec_iff`, structural clauses.**  Each Bool clause of the oracle is equivalent to the conjunct of the
    property it stands for: a `false` on an implementation output is a violated conjunct, a `true` certifies it. -/
theorem spec_iff_structure (n nchr p : Nat) (nb hbin : List Nat) (stix hstix hspix hlen : List Nat) :
    (Spec.apportion n nchr nb = true ↔ nb.length = nchr ∧ (∀ x ∈ nb, 1 ≤ x) ∧ nb.sum = n) ∧
    (Spec.partition p hstix hspix hlen = true ↔
      ∃ B : List Nat, hstix = 0 :: B ∧ hspix = B ++ [p] ∧
        (∀ b ∈ List.zip hstix hspix, b.1 < b.2) ∧ hlen = List.zipWith (fun e s => e - s) hspix hstix) ∧
    (Spec.labels p hbin hstix = true ↔
      hbin.length = p ∧
        hstix.tail = (List.range p).filter (fun i => decide (0 < i) && decide (hbin[i]? ≠ hbin[i - 1]?))) ∧
    (Spec.withinChrom stix hstix = true ↔ ∀ s ∈ stix, s ∈ hstix) :=
  ⟨apportion_iff n nchr nb, partition_iff p hstix hspix hlen, labels_iff p hbin hstix, withinChrom_iff stix hstix⟩

/-- **`spec_iff`, tolerance.**  Every value clause compares with `approxS`, which is
    `|a - b| ≤ 1e-9 · max(scale, |a|, |b|)` with `scale` = the magnitude of the data (`ploidy · Σ|u|`);
    it accepts equal values whatever the scale -/
theorem spec_iff_tolerance (s a b : α) :
    (Spec.approxS s a b = true ↔ |a - b| ≤ (1 / 1000000000 : α) * max s (max |a| |b|)) ∧
    Spec.approxS s a a = true :=
  ⟨approxS_iff s a b, approxS_refl s a⟩

/-- **`spec_iff`, value clauses.**  With `Close s a b := |a - b| ≤ 1e-9 · max(s, |a|, |b|)`: `conserve` ⇔ the matrix has
    the genome matrix's shape with `nhaploblk` block columns and every fibre sums to `g·u`; `ohv_def` ⇔ one row per
    cross and every entry is `ploidy · Σ_blocks max_(phase, parent)`; `opv_def` ⇔ minus that optimal value of the selected
    set; `ohv_latent_def` / `ohv_latent_w_def` ⇔ minus the (weighted) mean; `gb_def` ⇔ `-(ploidy/nbest) ·` the per-block
    top-`nbest` sums.  Each clause demands its conjunct of the statement and nothing more. -/
theorem spec_iff_values (geno : List (List (List α))) (ucols : List (List α)) (bnds : List (Nat × Nat))
    (hmat : List (List (List (List α)))) (n : Nat) (xm : List (List Nat)) (ohvmat : List (List α))
    (x : List Nat) (opv : List α) (sc lat xw latw : List α) (xo : List Nat) (nbest : Nat) (gb : List α) :
    (Spec.conserve geno ucols hmat n = true ↔
      hmat.length = geno.length ∧ ∀ m, m < geno.length →
        (hmat.getD m []).length = (geno.getD m []).length ∧ ∀ i, i < (geno.getD m []).length →
          ((hmat.getD m []).getD i []).length = n ∧ ∀ t, t < ucols.length →
            Close (Spec.absSum (ucols.getD t []))
              ((((hmat.getD m []).getD i []).map (fun row => row.getD t 0)).sum)
              (Np.dot ((geno.getD m []).getD i []) (ucols.getD t []))) ∧
    (Spec.ohvDef geno ucols bnds xm ohvmat = true ↔
      ohvmat.length = xm.length ∧ ∀ t, t < ucols.length → ∀ s, s < xm.length →
        Close (Spec.scaleOf geno (ucols.getD t [])) ((ohvmat.getD s []).getD t 0)
          (ohv (blockTable geno (ucols.getD t []) bnds) bnds.length (xm.getD s []))) ∧
    (Spec.opvDef geno ucols bnds x opv = true ↔
      opv.length = ucols.length ∧ ∀ t, t < ucols.length →
        Close (Spec.scaleOf geno (ucols.getD t [])) (-(opv.getD t 0))
          (ohv (blockTable geno (ucols.getD t []) bnds) bnds.length x)) ∧
    (Spec.ohvLatentDef sc ohvmat xo lat = true ↔ ∀ t, t < lat.length →
      Close (sc.getD t 0) (lat.getD t 0)
        (-((xo.map (fun i => (ohvmat.getD i []).getD t 0)).sum / (xo.length : α)))) ∧
    (Spec.ohvLatentWDef sc ohvmat xw latw = true ↔ ∀ t, t < latw.length →
      Close (sc.getD t 0) (latw.getD t 0)
        (-((List.zipWith (fun xi row => xi * row.getD t 0) xw ohvmat).sum / xw.sum))) ∧
    (Spec.gbDef geno ucols bnds x nbest gb = true ↔
      gb.length = ucols.length ∧ ∀ t, t < ucols.length →
        Close (Spec.scaleOf geno (ucols.getD t [])) (gb.getD t 0)
          (-((geno.length : α) / (nbest : α)) * ((List.range bnds.length).map (fun b =>
            ((sortDesc (x.map (fun p => (bestBlock (blockTable geno (ucols.getD t []) bnds) [p] b).getD 0))).take
              nbest).sum)).sum)) :=
  ⟨conserve_iff geno ucols hmat n, ohvDef_iff geno ucols bnds xm ohvmat, opvDef_iff geno ucols bnds x opv,
   ohvLatentDef_iff sc ohvmat xo lat, ohvLatentWDef_iff sc ohvmat xw latw, gbDef_iff geno ucols bnds x nbest gb⟩

/-- the tolerant comparison of the Spec accepts equal values (no clause can fail on exact agreement) -/
theorem spec_approx_refl (a : α) : Spec.approx a a = true := approx_refl a

/-! ## non-vacuity: concrete non-trivial inputs meet the hypotheses (kernel evaluation) -/

-- the pinned-test layout (17 markers, 3 chromosomes, 5 blocks): apportionment, labels, bounds
example : nhaploblkChrom (α := ℚ) 5
    [[1/10, 27/20, 39/25, 21/10, 43/20, 68/25, 76/25], [-49/100, -3/50, 59/100, 81/100],
     [-9/50, -1/25, 6/25, 1/4, 26/25, 163/100]] = .ok [2, 1, 2] := by decide +kernel
example : blocksOf (α := ℚ) 5
    [[1/10, 27/20, 39/25, 21/10, 43/20, 68/25, 76/25], [-49/100, -3/50, 59/100, 81/100],
     [-9/50, -1/25, 6/25, 1/4, 26/25, 163/100]]
    = .ok ([2, 1, 2], [0, 0, 0, 1, 1, 1, 1, 2, 2, 2, 2, 3, 3, 3, 3, 4, 4],
           [(0, 3), (3, 7), (7, 11), (11, 15), (15, 17)]) := by decide +kernel
-- markers exactly on a boundary go to the later bin; every bin filled; 2 and 4 blocks as requested
example : haplobin (α := ℚ) [2] [[0, 1, 2, 3, 4]] = [some 0, some 0, some 1, some 1, some 1] := by decide +kernel
example : blocksOf (α := ℚ) 4 [[0, 1, 2, 3, 4]]
    = .ok ([4], [0, 1, 2, 3, 3], [(0, 1), (1, 2), (2, 3), (3, 5)]) := by decide +kernel
-- the literal iteration: chromosome 1 is full (1 block, 1 marker) and masked by +inf although its diff is lowest;
-- ties go to the first index; with every chromosome full nothing is masked
example : pickCapLit (α := ℚ) [-1, -3, 0] [1, 1, 1] [5, 1, 5] = 0 ∧ pickCap (α := ℚ) [-1, -3, 0] [1, 1, 1] [5, 1, 5] = 0 ∧
    argminInf (α := ℚ) [none, some 2, some 2] = 1 ∧ pickCapLit (α := ℚ) [-1, -3, 0] [1, 1, 1] [1, 1, 1] = 1 ∧
    greedyCapLit (α := ℚ) [10/3, 1/3, 4/3] [2, 3, 3] 2 [1, 1, 1] = [2, 1, 2] := by decide +kernel
-- zero total genetic length: the NaN branch sends every extra block to chromosome 0
example : nhaploblkChrom (α := ℚ) 3 [[1, 1], [2, 2]] = .ok [2, 1] := by decide +kernel
-- `ValidChroms` and `BinsFilled` are inhabited by a two-chromosome layout with 3 blocks
example : ValidChroms ([[0, 1, 2], [5, 6]] : List (List ℚ)) := by
  refine ⟨by simp, ?_⟩
  intro c hc
  simp only [List.mem_cons, List.not_mem_nil, or_false] at hc
  rcases hc with rfl | rfl <;> exact ⟨by simp, by simp [List.pairwise_cons] <;> norm_num⟩
example : blocksOf (α := ℚ) 3 [[0, 1, 2], [5, 6]] = .ok ([2, 1], [0, 1, 1, 2, 2], [(0, 1), (1, 3), (3, 5)]) := by
  decide +kernel
example : BinsFilled (linspace (0 : ℚ) 2 2) [0, 1, 2] := by
  intro j hj
  have hl : (linspace (0 : ℚ) 2 2) = [0, 1, 2] := by decide +kernel
  simp only [hl] at hj ⊢
  have : j = 0 ∨ j = 1 := by simp at hj; omega
  rcases this with rfl | rfl
  · exact ⟨0, by simp, by simp, fun _ => by norm_num⟩
  · exact ⟨2, by simp, by norm_num, fun h => by simp at h⟩
-- block values, conservation and the optimal haploid value on a 2-block example
example : (([(0, 3), (3, 4)] : List (Nat × Nat)).map (blockVal (α := ℚ) [1, 0, 1, 1] [1, 2, 4, 8])).sum
    = Np.dot (α := ℚ) [1, 0, 1, 1] [1, 2, 4, 8] := by decide +kernel
example : ohv (α := ℚ) [[[5, 8], [6, 0], [3, 0]], [[4, 0], [7, 8], [2, 8]]] 2 [0, 2] = 26 ∧
    opvLatent (α := ℚ) [[[5, 8], [6, 0], [3, 0]], [[4, 0], [7, 8], [2, 8]]] 2 [0, 2] = -26 := by decide +kernel
example : cands (α := ℚ) [[[5, 8], [6, 0], [3, 0]], [[4, 0], [7, 8], [2, 8]]] [0, 2] 0 = [5, 3, 4, 2] := by
  decide +kernel
-- the cross maps of 3 taxa: two-way without and with selfs, three-way with repeats (10 rows)
example : xmap 3 2 true = [[0, 1], [0, 2], [1, 2]] ∧ xmap 3 2 false = [[0, 0], [0, 1], [0, 2], [1, 1], [1, 2], [2, 2]] ∧
    (xmap 3 3 false).length = 10 ∧ xmap 3 3 true = [[0, 1, 2]] := by decide
-- genotype builder and OHV latent on the same table: top-2 of the best phases per block; mean of two crosses
example : gbLatent (α := ℚ) [[[5, 8], [6, 0], [3, 0]], [[4, 0], [7, 8], [2, 8]]] 2 [0, 1, 2] 2 = -28 ∧
    gbPerBlock (α := ℚ) [[[5, 8], [6, 0], [3, 0]], [[4, 0], [7, 8], [2, 8]]] [0, 1, 2] 2 0 = 12 := by decide +kernel
example : ohvLatent (α := ℚ) [30, 26, 30] [0, 1] = -28 := by decide +kernel
-- the chunk loop on 5 cross configurations with chunk sizes 2 (three chunks), 5, 7 and None: same rows
example : let V : List (List (List ℚ)) := [[[5, 8], [6, 0], [3, 0]], [[4, 0], [7, 8], [2, 8]]]
    let xm := [[0, 1], [0, 2], [1, 2], [0, 0], [2, 2]]
    calcOhvmat V 2 xm (some 2) = .ok [some 30, some 26, some 30, some 26, some 22] ∧
    calcOhvmat V 2 xm (some 5) = calcOhvmat V 2 xm (some 2) ∧ calcOhvmat V 2 xm (some 7) = calcOhvmat V 2 xm none ∧
    calcOhvmat V 2 xm none = calcOhvmat V 2 xm (some 2) ∧
    List.zip (rangeStep 0 5 2) (srange 2 5 2) = [(0, 2), (2, 4), (4, 5)] := by decide +kernel
-- the rescaling slip `out *= ploidy` inside the loop would NOT have this closed form: a literal transcription of
-- that variant on the same data differs in the first chunks (30·2·2, 26·2·2, 30·2, 26·2, 22)
-- real / integer / binary encodings: weights (1, 0, 3) on OHVs (30, 26, 30); 0/1 weights = subset mean
example : ohvLatentW (α := ℚ) [30, 26, 30] [1, 0, 3] = -30 ∧ ohvLatentW (α := ℚ) [30, 26, 30] [1/2, 1/2, 0] = -28 ∧
    ohvLatentW (α := ℚ) [30, 26, 30] [1, 1, 0] = ohvLatent [30, 26, 30] [0, 1] := by decide +kernel
example : Spec.ohvLatentWDef (α := ℚ) [60] [[30], [26], [30]] [1, 0, 3] [-30] = true ∧
    Spec.ohvLatentWDef (α := ℚ) [60] [[30], [26], [30]] [1, 0, 3] [-120] = false := by decide +kernel
-- a triploid, two traits with effects of both signs: one doubled haploid bounded in both traits
example : let geno : List (List (List ℚ)) := [[[1, 0, 1], [0, 1, 1]], [[0, 0, 1], [1, 1, 0]], [[1, 1, 0], [0, 0, 0]]]
    ohv (blockTable geno [2, -3, 1] [(0, 2), (2, 3)]) 2 [0, 1] = 9 ∧
    ohv (blockTable geno [-1, 4, -2] [(0, 2), (2, 3)]) 2 [0, 1] = 12 ∧
    (3 : ℚ) * Np.dot (mosaic [(0, 2), (2, 3)] [[1, 0, 1], [1, 1, 0]]) [2, -3, 1] ≤ 9 ∧
    (3 : ℚ) * Np.dot (mosaic [(0, 2), (2, 3)] [[1, 0, 1], [1, 1, 0]]) [-1, 4, -2] ≤ 12 := by decide +kernel
-- the scaled tolerance resolves tiny magnitudes: 7e-9 against 0 is rejected at scale 1e-8, accepted at scale 1
example : Spec.approxS (α := ℚ) (1/100000000) (7/1000000000) 0 = false ∧
    Spec.approxS (α := ℚ) 1 (7/10000000000) 0 = true := by decide +kernel
-- the floating-point model is inhabited: rounding to multiples of 1/1024 UPWARDS by at most 1/1024 relative … is
-- awkward to exhibit over ℚ; the identity is the simplest instance (`e = 0`), rounding ties on [0,4] in 4 bins:
example : RelUp (id : ℚ → ℚ) 0 ∧ labelsChrom ([0, 1, 2, 3, 4] : List ℚ) 0 [1, 2, 3] = [1, 2, 3] := by
  refine ⟨fun x _ => by simp, by decide +kernel⟩
-- the literal fill loop on the D10 witness: two cells written, two left as `numpy.empty` made them; five blocks
-- do not fit into four columns
example : hmatFibreLoop (α := ℚ) 4 [(0, 3), (3, 4)] [1, 0, 1, 1] [1, 2, 4, 8] = some [some 5, some 8, none, none] ∧
    hmatFibreLoop (α := ℚ) 1 [(0, 3), (3, 4)] [1, 0, 1, 1] [1, 2, 4, 8] = none := by decide +kernel
-- the exact count on the D10 witness: 2 of the 4 bins hold a marker
example : filledAll (α := ℚ) [linspace 0 1 4] [[0, 1/100, 2/100, 1]] = 2 := by decide +kernel
-- a rounding other than the identity that meets the contract on a concrete chromosome: round to multiples of 1/8
example : let rnd : ℚ → ℚ := fun x => (⌊x * 8 + 1/2⌋ : ℤ) / 8
    linspaceR rnd 0 1 3 = [0, 3/8, 3/4, 1] ∧ rnd 0 = 0 ∧ pointR rnd 0 1 3 2 ≤ 1 := by
  intro rnd
  refine ⟨?_, by simp only [rnd]; norm_num, ?_⟩ <;> simp only [linspaceR, pointR, stepR, rnd] <;> norm_num [List.range_succ]
-- the Spec clauses are not vacuous: they accept the model's output of a 2-chromosome layout and reject perturbations
example : Spec.partition 5 [0, 1, 3] [1, 3, 5] [1, 2, 2] = true ∧ Spec.partition 5 [0, 2, 3] [1, 3, 5] [1, 1, 2] = false ∧
    Spec.labels 5 [0, 1, 1, 2, 2] [0, 1, 3] = true ∧ Spec.labels 5 [0, 1, 1, 2, 2] [0, 2, 3] = false ∧
    Spec.withinChrom [0, 3] [0, 1, 3] = true ∧ Spec.withinChrom [0, 2] [0, 1, 3] = false ∧
    Spec.apportion 3 2 [2, 1] = true ∧ Spec.apportion 3 2 [2, 2] = false := by decide
example : Spec.conserve (α := ℚ) [[[1, 0, 1, 1]]] [[1, 2, 4, 8]] (Spec.hmatTotal [[[1, 0, 1, 1]]] [[1, 2, 4, 8]] [(0, 3), (3, 4)]) 2 = true ∧
    Spec.conserve (α := ℚ) [[[1, 0, 1, 1]]] [[1, 2, 4, 8]] [[[[5], [9]]]] 2 = false ∧
    Spec.opvDef (α := ℚ) [[[1, 0, 1, 1]]] [[1, 2, 4, 8]] [(0, 3), (3, 4)] [0] [-13] = true ∧
    Spec.opvDef (α := ℚ) [[[1, 0, 1, 1]]] [[1, 2, 4, 8]] [(0, 3), (3, 4)] [0] [-12] = false ∧
    Spec.gbDef (α := ℚ) [[[1, 0, 1, 1]]] [[1, 2, 4, 8]] [(0, 3), (3, 4)] [0] 1 [-13] = true ∧
    Spec.ohvLatentDef (α := ℚ) [60] [[30], [26], [30]] [0, 1] [-28] = true := by decide +kernel
-- the equal-count fallback on clustered positions (3 of 4 markers within 0.02): 3 and 4 blocks as requested; a
-- rounded-boundary instance; the closed form `relabelChrom`; refusals outside [chromosome count, marker count]
example : blocksOf (α := ℚ) 4 [[0, 1/100, 2/100, 1]] = .ok ([4], [0, 1, 2, 3], [(0, 1), (1, 2), (2, 3), (3, 4)]) := by
  decide +kernel
example : blocksOf (α := ℚ) 3 [[0, 1/100, 2/100, 1]] = .ok ([3], [0, 0, 1, 2], [(0, 2), (2, 3), (3, 4)]) := by
  decide +kernel
example : relabelChrom (linspace (0 : ℚ) 1 4) 0 [0, 1/100, 2/100, 1] = [0, 1, 2, 3] ∧
    labelsChrom (linspace (0 : ℚ) 1 4) 0 [0, 1/100, 2/100, 1] = [0, 0, 0, 3] ∧
    relabelChrom (linspace (0 : ℚ) 4 2) 7 [0, 1, 2, 3, 4] = labelsChrom (linspace (0 : ℚ) 4 2) 7 [0, 1, 2, 3, 4] := by
  decide +kernel
example : haplobinR (α := ℚ) (fun x => (⌊x * 8 + 1/2⌋ : ℤ) / 8) [3] [[0, 1/100, 2/100, 1]] = [some 0, some 0, some 1, some 2] := by
  decide +kernel
example : blocksOf (α := ℚ) 1 [[0, 1], [0, 1]] = .error "value" ∧ blocksOf (α := ℚ) 5 [[0, 1], [0, 1]] = .error "value" ∧
    blocksOf (α := ℚ) 4 [[0, 1], [0, 1]] = .ok ([2, 2], [0, 1, 2, 3], [(0, 1), (1, 2), (2, 3), (3, 4)]) := by
  refine ⟨by decide +kernel, by decide +kernel, by decide +kernel⟩

end C18
