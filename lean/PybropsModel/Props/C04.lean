/-
C04 — Genomic-model predictions are linear, label-preserving and self-consistent; a fitted rrBLUP
model reproduces the training mean, gives monomorphic markers zero effect, never does worse on its
penalised criterion than the all-zero solution and solves its normal equations.

Property theorems only (helper lemmas: Lemmas/GenomicLin, GenomicEntries, GenomicStats, GenomicDom, Alleles,
GaussSeidelFn, GaussSeidelList, GaussSeidelLast, GaussSeidelConv, RidgeEnergy, RRFit, SpecLink*).

Models: Model/GenomicModel.lean (DenseLinearGenomicModel, DenseAdditiveLinearGenomicModel,
DenseAdditiveDominanceLinearGenomicModel, TrueBreedingValue, mat_asformat/acount/afreq),
Model/RRBlup.lean (gauss_seidel, rrBLUP_ML0 with the ML ridge as oracle input, fit_numpy).

All statements are over an arbitrary linearly ordered field `α` (the driver runs the same
definitions at `Rat`), for every number of taxa, markers, traits, fixed effects, phases, sweeps.
-/
import PybropsModel.Lemmas.GenomicEntries
import PybropsModel.Lemmas.GenomicStats
import PybropsModel.Lemmas.RRFit
import PybropsModel.Lemmas.AllelesCell
import PybropsModel.Lemmas.RidgeDominant
import PybropsModel.Lemmas.GenomicMisc
import PybropsModel.Lemmas.SpecLinkStats
import PybropsModel.Lemmas.GenomicDom
import PybropsModel.Lemmas.GaussSeidelLast
import PybropsModel.Lemmas.SpecLinkFit
import PybropsModel.Lemmas.RRSolveStep
import Mathlib.Analysis.SpecialFunctions.Exp
set_option autoImplicit false
set_option linter.unusedSectionVars false
set_option linter.unusedSimpArgs false
set_option linter.unusedVariables false

namespace C04
open Finset BigOperators GMod RRBlup GSList GEnt
open RRSolve (SolveOK)

variable {α : Type} [Field α] [LinearOrder α] [IsStrictOrderedRing α]

/-! ## 1. Predictions are linear in the dosages: intercept + dosage · effect (+ het · dominance) -/

/-- **GEBV = intercept + Σ_j dosage_ij · u_jk** for every taxon i and trait k, where the intercept is
    `Xstar β`, `Xstar = [1, 1/q, …, 1/q]` (see `intercept_formula`). -/
theorem gebv_linear (beta ua : List (List α)) (A : List (List Int)) (t i k : ℕ)
    (hi : i < A.length) (hk : k < t) (hrow : (A.getD i []).length = ua.length) :
    matFn (gebvMat beta ua (castM A) t) i k
      = intercept beta k + ∑ j ∈ range ua.length, ((ient A i j : Int) : α) * matFn ua j k := by
  rw [gebvMat_entry beta ua (castM A) t i k ua.length (by rw [castM_length]; exact hi) hk
        (by rw [castM_row_length]; exact hrow) rfl]
  congr 1
  apply Finset.sum_congr rfl
  intro j _
  rw [matFn_castM]
  rfl

example : matFn (gebvMat ([[1, 2], [3, 0], [1/2, 1]] : List (List ℚ)) [[1, -1], [0, 2]]
    (castM [[1, 2], [2, 1], [0, 0]]) 2) 0 1 = 16/3 := by decide +kernel

/-- the intercept written out: `β_0k + (Σ_{r ≥ 1} β_rk) / q` -/
theorem intercept_formula (beta : List (List α)) (k : ℕ) (hq : 0 < beta.length) :
    intercept beta k
      = matFn beta 0 k + (∑ r ∈ range (beta.length - 1), matFn beta (r+1) k) / (beta.length : α) :=
  intercept_eq beta k hq

/-- **GEGV of the dominance model
    = intercept + Σ_j dosage_ij · a_jk + Σ_j [dosage_ij ∉ {0, ploidy}] · d_jk** -/
theorem gegv_linear (beta ua ud : List (List α)) (ploidy : Int) (A : List (List Int)) (t i k : ℕ)
    (hi : i < A.length) (hk : k < t) (hrect : ∀ r ∈ A, r.length = ua.length) (hd : ud.length = ua.length) :
    matFn (gegvGM beta ua ud t ploidy A) i k
      = intercept beta k
        + ∑ j ∈ range ua.length, ((ient A i j : Int) : α) * matFn ua j k
        + ∑ j ∈ range ua.length, (if ient A i j ≠ 0 ∧ ient A i j ≠ ploidy then matFn ud j k else 0) := by
  have hrow : (A.getD i []).length = ua.length := by
    rw [List.getD_eq_getElem?_getD, List.getElem?_eq_getElem hi]
    exact hrect _ (List.getElem_mem hi)
  unfold gegvGM
  have hlenH := (hetGM_shape ploidy A i).1
  have hrectC : ∀ r ∈ (castM A : List (List α)), r.length = ua.length := by
    intro r hr
    simp only [castM, List.mem_map] at hr
    obtain ⟨r0, hr0, rfl⟩ := hr
    simpa using hrect r0 hr0
  rw [GLin.castM_hcat, GLin.gebvMat_hcat beta (castM A) (castM (hetGM ploidy A)) ua ud t
        (by rw [castM_length, castM_length, hlenH]) hrectC]
  have hiA : i < (castM A : List (List α)).length := by rw [castM_length]; exact hi
  have hiH : i < (castM (hetGM ploidy A) : List (List α)).length := by rw [castM_length, hlenH]; exact hi
  rw [madd_entry _ _ i k (by unfold gebvMat; simpa [GLin.matMul_length] using hiA)
        (by rw [GLin.matMul_length]; exact hiH)
        (by rw [gebvMat_row_length _ _ _ t i hiA]; exact hk)
        (by rw [matMul_row_length' _ _ t i hiH]; exact hk)]
  rw [gebv_linear beta ua A t i k hi hk hrow]
  rw [matMul_entry_sum (castM (hetGM ploidy A) : List (List α)) ud t i k ua.length hiH hk
      (by rw [castM_row_length, (hetGM_shape ploidy A i).2]; exact hrow) hd]
  congr 1
  apply Finset.sum_congr rfl
  intro j hj
  have hj' : j < (A.getD i []).length := by rw [hrow]; exact Finset.mem_range.mp hj
  rw [matFn_castM, hetGM_entry ploidy A i j hi hj']
  unfold ient
  split <;> simp

example : matFn (gegvGM ([[1, 2], [3, 0], [1/2, 1]] : List (List ℚ)) [[1, -1], [0, 2]] [[1, 0], [0, 1]] 2 2
    [[1, 2], [2, 1], [0, 0]]) 0 0 = 25/6 := by decide +kernel

/-- **prediction with fixed effects: `Ŷ_ik = Σ_r X_ir β_rk + Σ_j Z_ij u_jk`** -/
theorem predict_linear (beta u X Z : List (List α)) (t i k : ℕ) (hiX : i < X.length) (hiZ : i < Z.length)
    (hk : k < t) (hX : (X.getD i []).length = beta.length) (hZ : (Z.getD i []).length = u.length) :
    matFn (predictNumpy beta u X Z t) i k
      = ∑ r ∈ range beta.length, matFn X i r * matFn beta r k + ∑ j ∈ range u.length, matFn Z i j * matFn u j k := by
  unfold predictNumpy
  rw [madd_entry _ _ i k (by rw [GLin.matMul_length]; exact hiX) (by rw [GLin.matMul_length]; exact hiZ)
        (by rw [matMul_row_length' _ _ t i hiX]; exact hk) (by rw [matMul_row_length' _ _ t i hiZ]; exact hk),
      matMul_entry_sum X beta t i k beta.length hiX hk hX rfl,
      matMul_entry_sum Z u t i k u.length hiZ hk hZ rfl]

/-- **prediction with miscellaneous random effects** (`u = [u_misc ; u_a]`, `Z = [Z_misc | Z_a]`):
    `Ŷ_ik = Σ_r X_ir β_rk + Σ_l Zm_il m_lk + Σ_j Za_ij a_jk` -/
theorem predict_linear_misc (beta um ua X Zm Za : List (List α)) (t i k : ℕ)
    (hiX : i < X.length) (hiM : i < Zm.length) (hlen : Zm.length = Za.length) (hk : k < t)
    (hX : (X.getD i []).length = beta.length) (hZm : ∀ r ∈ Zm, r.length = um.length)
    (hZa : (Za.getD i []).length = ua.length) :
    matFn (predictNumpyMisc beta um ua X Zm Za t) i k
      = ∑ r ∈ range beta.length, matFn X i r * matFn beta r k
        + ∑ l ∈ range um.length, matFn Zm i l * matFn um l k
        + ∑ j ∈ range ua.length, matFn Za i j * matFn ua j k :=
  GMisc.predictNumpyMisc_entry beta um ua X Zm Za t i k hiX hiM hlen hk hX hZm hZa

example : (∀ r ∈ ([[1], [2]] : List (List ℚ)), r.length = ([[3, 4]] : List (List ℚ)).length) := by decide

/-- `predict(cvobj, GenotypeMatrix)` only passes the dosage columns: it answers exactly when there are
    no miscellaneous effects and rejects (shape check) otherwise -/
theorem predict_gm_misc (beta um ua X : List (List α)) (A : List (List Int)) (t : ℕ) :
    (um = [] → predictGM beta um ua X A t = .ok (predictNumpy beta ua X (castM A) t)) ∧
    (um ≠ [] → predictGM beta um ua X A t = .error "value") := by
  constructor
  · intro h; subst h; simp [predictGM]
  · intro h
    have : um.length ≠ 0 := by simpa [List.length_eq_zero_iff] using h
    simp [predictGM, this]

/-- **a breeding-value matrix as phenotype input gives the same R²**: `score` unscales it, and unscaling
    undoes the standardisation for any location and any non-zero scale -/
theorem score_bvmat (beta u Y X Z : List (List α)) (loc scale : List α) (t : ℕ)
    (hY : ∀ r ∈ Y, r.length = t) (hl : loc.length = t) (hs : scale.length = t) (hne : ∀ s ∈ scale, s ≠ 0) :
    scoreBV beta u (standardiseBV Y loc scale) loc scale X Z t = score beta u Y X Z t := by
  unfold scoreBV
  rw [GMisc.unscale_standardise Y loc scale t hY hl hs hne]

/-- the same for `fit(ptobj = BreedingValueMatrix, …)` -/
theorem fit_bvmat (Y Z : List (List α)) (loc scale : List α) (p t : ℕ)
    (solve : ℕ → List α → List (List α) → List α)
    (hY : ∀ r ∈ Y, r.length = t) (hl : loc.length = t) (hs : scale.length = t) (hne : ∀ s ∈ scale, s ≠ 0) :
    fitNumpy (unscaleBV (standardiseBV Y loc scale) loc scale) Z p t solve = fitNumpy Y Z p t solve := by
  rw [GMisc.unscale_standardise Y loc scale t hY hl hs hne]

example : (∀ s ∈ ([2, 1/3] : List ℚ), s ≠ 0) ∧ (∀ r ∈ ([[1, 2], [3, 5]] : List (List ℚ)), r.length = 2) := by decide +kernel

/-- **prediction of the dominance model with fixed effects**:
    `Ŷ_ik = Σ_r X_ir β_rk + Σ_j A_ij a_jk + Σ_j [A_ij ∉ {0, ploidy}] d_jk` -/
theorem predict_dom_linear (beta ua ud X : List (List α)) (t : ℕ) (ploidy : Int) (A : List (List Int)) (i k : ℕ)
    (hiX : i < X.length) (hi : i < A.length) (hk : k < t) (hX : (X.getD i []).length = beta.length)
    (hrect : ∀ r ∈ A, r.length = ua.length) (hd : ud.length = ua.length) :
    matFn (predictDomGM beta ua ud X t ploidy A) i k
      = ∑ r ∈ range beta.length, matFn X i r * matFn beta r k
        + ∑ j ∈ range ua.length, ((ient A i j : Int) : α) * matFn ua j k
        + ∑ j ∈ range ua.length, (if ient A i j ≠ 0 ∧ ient A i j ≠ ploidy then matFn ud j k else 0) :=
  GDom.predictDomGM_entry beta ua ud X t ploidy A i k hiX hi hk hX hrect hd

example : matFn (predictDomGM ([[1, 2], [3, 0]] : List (List ℚ)) [[1, -1], [0, 2]] [[1, 0], [0, 1]]
    [[1, 0], [1, 1], [1, 2]] 2 4 [[1, 2], [4, 1], [0, 0]]) 1 0 = 8 := by decide +kernel

/-! ## 2. … irrespective of taxon order; output rows carry the input's labels -/

/-- reorder / select the taxa of a phased genotype -/
def takeTaxa (is : List ℕ) (g : List (List (List Int))) : List (List (List Int)) := g.map (Np.take is)

/-- **taxon equivariance and label preservation** (any index list `is`: permutations, selections,
    repetitions): GEBVs of the reordered genotype matrix are the reordered GEBVs, and the output
    carries the reordered taxa names and group labels. -/
theorem gebv_taxa_equivariant {L G : Type} (beta ua : List (List α)) (t n : ℕ) (g : List (List (List Int)))
    (hg : ∀ ph ∈ g, ph.length = n) (is : List ℕ) (his : ∀ i ∈ is, i < n)
    (taxa : Option (List L)) (grp : Option (List G)) :
    gebvPhased beta ua t (takeTaxa is g) (taxa.map (Np.take is)) (grp.map (Np.take is))
      = ⟨Np.take is (gebvPhased beta ua t g taxa grp).mat,
         (gebvPhased beta ua t g taxa grp).taxa.map (Np.take is),
         (gebvPhased beta ua t g taxa grp).taxa_grp.map (Np.take is)⟩ := by
  unfold gebvPhased takeTaxa
  rw [phaseSum_take is n his g hg, GLin.castM_take, GLin.gebvMat_take]

/-- **labels preserved**: the output rows carry exactly the input's taxa names and groups -/
theorem labels_preserved {L G : Type} (beta ua : List (List α)) (t : ℕ) (g : List (List (List Int)))
    (A : List (List Int)) (taxa : Option (List L)) (grp : Option (List G)) :
    (gebvPhased beta ua t g taxa grp).taxa = taxa ∧ (gebvPhased beta ua t g taxa grp).taxa_grp = grp ∧
    (gebvUnphased beta ua t A taxa grp).taxa = taxa ∧ (gebvUnphased beta ua t A taxa grp).taxa_grp = grp ∧
    (gebvRaw beta ua t A : Labelled α L G).taxa = none ∧ (gebvRaw beta ua t A : Labelled α L G).taxa_grp = none :=
  ⟨rfl, rfl, rfl, rfl, rfl, rfl⟩

/-- **`TrueBreedingValue.estimate` returns the GEBVs of the GENOTYPE input with the genotype input's labels,
    whatever phenotype object is handed over** (of any type, e.g. a breeding value matrix that lists the taxa
    in another order or under other names) -/
theorem tbv_estimate_uses_genotype_labels {P P' L G : Type} (beta ua : List (List α)) (t : ℕ) (pt : P) (pt' : P')
    (g : List (List (List Int))) (taxa : Option (List L)) (grp : Option (List G)) :
    (tbvEstimate beta ua t pt g taxa grp : Labelled α L G) = tbvEstimate beta ua t pt' g taxa grp ∧
    (tbvEstimate beta ua t pt g taxa grp : Labelled α L G).taxa = taxa ∧
    (tbvEstimate beta ua t pt g taxa grp : Labelled α L G).taxa_grp = grp ∧
    (tbvEstimate beta ua t pt g taxa grp : Labelled α L G).mat = gebvMat beta ua (castM (phaseSum g)) t :=
  ⟨rfl, rfl, rfl, rfl⟩

/-- the dominance model's labelled GEGVs: labels preserved, and equivariant under any taxon index list -/
theorem gegv_labels_equivariant {L G : Type} (beta ua ud : List (List α)) (t n : ℕ) (ploidy : Int)
    (g : List (List (List Int))) (hg : ∀ ph ∈ g, ph.length = n) (is : List ℕ) (his : ∀ i ∈ is, i < n)
    (taxa : Option (List L)) (grp : Option (List G)) :
    (gegvPhased beta ua ud t ploidy g taxa grp).taxa = taxa ∧ (gegvPhased beta ua ud t ploidy g taxa grp).taxa_grp = grp ∧
    gegvPhased beta ua ud t ploidy (takeTaxa is g) (taxa.map (Np.take is)) (grp.map (Np.take is))
      = ⟨Np.take is (gegvPhased beta ua ud t ploidy g taxa grp).mat, taxa.map (Np.take is), grp.map (Np.take is)⟩ := by
  refine ⟨rfl, rfl, ?_⟩
  unfold gegvPhased takeTaxa
  rw [phaseSum_take is n his g hg, GLin.gegvGM_take]

/-- the dominance model is equivariant too -/
theorem gegv_taxa_equivariant (beta ua ud : List (List α)) (t : ℕ) (ploidy : Int) (A : List (List Int))
    (is : List ℕ) :
    gegvGM beta ua ud t ploidy (Np.take is A) = Np.take is (gegvGM beta ua ud t ploidy A) :=
  GLin.gegvGM_take is beta ua ud t ploidy A

/-- predictions with covariates are equivariant when the covariate rows are reordered alike -/
theorem predict_taxa_equivariant (beta u X Z : List (List α)) (t : ℕ) (is : List ℕ)
    (hX : ∀ i ∈ is, i < X.length) (hZ : ∀ i ∈ is, i < Z.length) :
    predictNumpy beta u (Np.take is X) (Np.take is Z) t = Np.take is (predictNumpy beta u X Z t) :=
  GLin.predictNumpy_take is beta u X Z t hX hZ

example : (∀ i ∈ [2, 0, 1], i < 3) ∧ (∀ ph ∈ ([[[0, 1], [1, 1], [0, 0]], [[1, 1], [1, 0], [0, 0]]] : List (List (List Int))),
    ph.length = 3) := by decide

/-! ## 3. … irrespective of phased matrix / unphased projection / raw dosage array -/

/-- **the three entry points agree**: a phased matrix, its unphased projection (`mat_asformat`)
    and the raw dosage array give the same values; the two matrix forms also the same labels. -/
theorem gebv_phased_eq_unphased_eq_dosage {L G : Type} (beta ua : List (List α)) (t : ℕ)
    (g : List (List (List Int))) (taxa : Option (List L)) (grp : Option (List G)) :
    gebvPhased beta ua t g taxa grp = gebvUnphased beta ua t (phaseSum g) taxa grp ∧
    (gebvRaw beta ua t (phaseSum g) : Labelled α L G).mat = (gebvPhased beta ua t g taxa grp).mat :=
  ⟨rfl, rfl⟩

/-- the dosage the projection computes is the number of phases that carry the counted allele -/
theorem dosage_is_phase_count (g : List (List (List Int))) (n p i j : ℕ)
    (hg : ∀ ph ∈ g, ph.length = n ∧ ∀ r ∈ ph, r.length = p) (hi : i < n) (hj : j < p) :
    ient (phaseSum g) i j = (g.map (fun ph => ient ph i j)).sum :=
  GLin.phaseSum_entry g n p i j hg hi hj

/- FULL STATEMENT (false of the as-is model, see `gegv_raw_tetraploid_counterexample`):
   theorem gegv_raw_eq_gm (ploidy) (A with entries in 0 … ploidy) :
     gegvRaw beta ua ud t A = gegvGM beta ua ud t ploidy A
   The ndarray branch of the dominance model has no ploidy argument and tests `gtobj == 1`; its
   documented domain is the diploid coding {0,1,2} (docstring of `predict`), which is the hypothesis
   of the partial theorem.  Not raised as a finding (see REPORT): the harness feeds raw arrays to the
   dominance model only for ploidy 2. -/

/-- for the documented diploid coding the heterozygosity indicator of the raw-array branch (`== 1`)
    is the one of the genotype-matrix branch (`≠ 0 ∧ ≠ ploidy`): the two entry points agree -/
theorem gegv_raw_eq_gm_partial (beta ua ud : List (List α)) (t : ℕ) (A : List (List Int))
    (hA : ∀ r ∈ A, ∀ z ∈ r, 0 ≤ z ∧ z ≤ 2) :
    gegvRaw beta ua ud t A = gegvGM beta ua ud t 2 A := by
  unfold gegvRaw gegvGM
  congr 3
  unfold hetRaw hetGM
  apply List.map_congr_left
  intro r hr
  apply List.map_congr_left
  intro z hz
  obtain ⟨h0, h2⟩ := hA r hr z hz
  by_cases h1 : z = 1
  · subst h1; simp
  · have : z = 0 ∨ z = 2 := by omega
    rcases this with h | h <;> subst h <;> simp

/-- the restriction is needed: for a tetraploid dosage 2 the raw-array branch sees no heterozygote -/
theorem gegv_raw_tetraploid_counterexample :
    gegvRaw ([[0]] : List (List ℚ)) [[0]] [[1]] 1 [[2]] ≠ gegvGM [[0]] [[0]] [[1]] 1 4 [[2]] := by
  decide +kernel

/-! ## 4. … irrespective of how the markers are split into parts -/

/-- **marker partition**: with `Z = [Z₁ | Z₂]` and `u = [u₁ ; u₂]` the GEBV is the GEBV of the first
    block (which carries the intercept) plus the marker part of the second block.  Iterating it
    gives any number of blocks. -/
theorem gebv_marker_partition (beta Z1 Z2 U1 U2 : List (List α)) (t : ℕ) (hlen : Z1.length = Z2.length)
    (hrow : ∀ r ∈ Z1, r.length = U1.length) :
    gebvMat beta (U1 ++ U2) (hcat Z1 Z2) t = madd (gebvMat beta U1 Z1 t) (matMul Z2 U2 t) :=
  GLin.gebvMat_hcat beta Z1 Z2 U1 U2 t hlen hrow

theorem gebv_numpy_marker_partition (Z1 Z2 U1 U2 : List (List α)) (t : ℕ) (hlen : Z1.length = Z2.length)
    (hrow : ∀ r ∈ Z1, r.length = U1.length) :
    matMul (hcat Z1 Z2) (U1 ++ U2) t = madd (matMul Z1 U1 t) (matMul Z2 U2 t) :=
  GLin.matMul_hcat Z1 Z2 U1 U2 t hlen hrow

example : (∀ r ∈ ([[1, 2], [0, 1]] : List (List ℚ)), r.length = ([[1], [3]] : List (List ℚ)).length) := by decide

/-- **any number of marker blocks**: `[Z₁ | … | Z_m] @ [u₁ ; … ; u_m] = Σ_c Z_c @ u_c`; together with
    `gebv_marker_partition` (the intercept belongs to one block only) the GEBV does not depend on
    how the markers are split into parts. -/
theorem gebv_numpy_marker_blocks (n t : ℕ) (blocks : List (List (List α) × List (List α)))
    (h : ∀ b ∈ blocks, b.1.length = n ∧ ∀ r ∈ b.1, r.length = b.2.length) :
    matMul (GLin.hcatAll n (blocks.map Prod.fst)) (blocks.map Prod.snd).flatten t
      = GLin.blockSum n t blocks :=
  GLin.matMul_blocks n t blocks h

example : ∀ b ∈ ([([[1], [0]], [[2]]), ([[1, 1], [0, 2]], [[1], [3]])] : List (List (List ℚ) × List (List ℚ))),
    b.1.length = 2 ∧ ∀ r ∈ b.1, r.length = b.2.length := by decide

/-- **dominance model, marker partition**: with dosages `A = [A₁ | A₂]`, `a = [a₁ ; a₂]`, `d = [d₁ ; d₂]` the
    GEGV is the GEGV of the first block (which carries the intercept) plus the additive + dominance part
    `[A₂ | D₂] @ [a₂ ; d₂]` of the second block: the heterozygosity design splits with the markers.
    Iterating gives any number of blocks. -/
theorem gegv_marker_partition (beta ua1 ua2 ud1 ud2 : List (List α)) (t : ℕ) (ploidy : Int)
    (A1 A2 : List (List Int)) (hlen : A1.length = A2.length) (hA1 : ∀ r ∈ A1, r.length = ua1.length)
    (hA2 : ∀ r ∈ A2, r.length = ua2.length) (hd1 : ud1.length = ua1.length) :
    gegvGM beta (ua1 ++ ua2) (ud1 ++ ud2) t ploidy (hcat A1 A2)
      = madd (gegvGM beta ua1 ud1 t ploidy A1)
             (matMul (castM (hcat A2 (hetGM ploidy A2))) (ua2 ++ ud2) t) :=
  GDom.gegvGM_hcat beta ua1 ua2 ud1 ud2 t ploidy A1 A2 hlen hA1 hA2 hd1

example : gegvGM ([[1]] : List (List ℚ)) ([[2]] ++ [[-1]]) ([[3]] ++ [[5]]) 1 2 (hcat [[1], [2]] [[1], [0]])
    = madd (gegvGM [[1]] [[2]] [[3]] 1 2 [[1], [2]]) (matMul (castM (hcat [[1], [0]] (hetGM 2 [[1], [0]]))) ([[-1]] ++ [[5]]) 1) := by
  decide +kernel


/-! ## 5. Variances, Bulmer ratio, coefficient of determination -/

/-- **var_A / var_G are the population variance of the reported GEBVs**: the code takes the
    variance of `Z u` without the intercept; that is the variance of the GEBVs with it. -/
theorem var_A_is_variance_of_gebv (beta ua Z : List (List α)) (t : ℕ) :
    varA ua Z t = varCols (gebvMat beta ua Z t) t :=
  (GLin.varCols_gebvMat beta ua Z t).symm

/-- the dominance model's `var_G` is the population variance of the reported GEGVs -/
theorem var_G_is_variance_of_gegv (beta ua ud : List (List α)) (t : ℕ) (ploidy : Int) (A : List (List Int)) :
    varGDom ua ud t ploidy A = varCols (gegvGM beta ua ud t ploidy A) t := by
  unfold varGDom gegvGM
  exact (GLin.varCols_gebvMat beta (ua ++ ud) _ t).symm

theorem var_nonneg (l : List α) : 0 ≤ var l := GLin.var_nonneg l

/-- the population variance is the mean squared deviation from the mean (definition) and is
    unchanged by a common shift -/
theorem var_shift_invariant (l : List α) (c : α) : var (l.map (· + c)) = var l := GLin.var_shift l c

/-- **genic variance**: `var_a[k] = ploidy² Σ_j u_jk² p_j (1 − p_j)` -/
theorem var_a_def (ua : List (List α)) (freq : List α) (ploidy t k : ℕ) (hk : k < t) :
    (varGenic ua freq ploidy t).getD k 0
      = ((ploidy : α) * (ploidy : α)) * (List.zipWith GStats.genicTerm (col ua k) freq).sum :=
  GStats.varGenic_entry ua freq ploidy t k hk

/-- **allele frequencies** are `count / (ploidy · n)`, lie in [0,1] and equal 0 / 1 exactly at the
    fixed states (division form: no reciprocal rounding) -/
theorem afreq_def {ploidy n p : ℕ} {A : List (List Int)} (h : Alleles.DosageOK ploidy n p A)
    (hp : 0 < ploidy) (hn : 0 < n) (j : ℕ) (hj : j < p) :
    (afreq ploidy A p : List α).getD j 0 = (((acount p A).getD j 0 : Int) : α) / ((ploidy * n : ℕ) : α) ∧
    0 ≤ (afreq ploidy A p : List α).getD j 0 ∧ (afreq ploidy A p : List α).getD j 0 ≤ 1 ∧
    ((afreq ploidy A p : List α).getD j 0 = 0 ↔ (acount p A).getD j 0 = 0) ∧
    ((afreq ploidy A p : List α).getD j 0 = 1 ↔ (acount p A).getD j 0 = ((ploidy * n : ℕ) : Int)) := by
  refine ⟨?_, GStats.afreq_facts h hp hn j hj⟩
  rw [GStats.afreq_entry ploidy A p j hj, h.rows]

/-- **Bulmer ratio**: `var_A / var_a`, and NaN exactly when the genic variance is 0, i.e. when every
    marker with a non-zero effect on the trait is fixed in the population. -/
theorem bulmer_def {ploidy n p : ℕ} {A : List (List Int)} (h : Alleles.DosageOK ploidy n p A)
    (hp : 0 < ploidy) (hn : 0 < n) (ua Z : List (List α)) (hua : ua.length = p) (t k : ℕ) (hk : k < t) :
    ((bulmer ua Z (afreq ploidy A p) ploidy t).getD k none = none ↔
        ∀ j, j < p → (matFn ua j k = 0 ∨ (acount p A).getD j 0 = 0 ∨
                      (acount p A).getD j 0 = ((ploidy * n : ℕ) : Int))) ∧
    (∀ r, (bulmer ua Z (afreq ploidy A p) ploidy t).getD k none = some r →
        r = (varA ua Z t).getD k 0 / (varGenic ua (afreq ploidy A p) ploidy t).getD k 0) := by
  have hfl : (afreq ploidy A p : List α).length = p := GStats.afreq_length ploidy A p
  have hf : ∀ f ∈ (afreq ploidy A p : List α), 0 ≤ f ∧ f ≤ 1 := by
    intro f hfm
    obtain ⟨j, hj, rfl⟩ := List.mem_iff_getElem.mp hfm
    have hj' : j < p := by rw [hfl] at hj; exact hj
    have := GStats.afreq_facts (α := α) h hp hn j hj'
    rw [List.getD_eq_getElem?_getD, List.getElem?_eq_getElem hj] at this
    exact ⟨this.1, this.2.1⟩
  rw [GStats.bulmer_entry ua Z _ ploidy t k hk]
  constructor
  · have hz := GStats.varGenic_eq_zero_iff ua (afreq ploidy A p) ploidy t k hk hp (by rw [hua, hfl]) hf
    constructor
    · intro hnone
      have h0 : (varGenic ua (afreq ploidy A p) ploidy t).getD k 0 = 0 := by
        by_contra hne
        rw [if_neg hne] at hnone
        cases hnone
      intro j hj
      have := hz.mp h0 j (by rw [hua]; exact hj)
      obtain ⟨_, _, e0, e1⟩ := GStats.afreq_facts (α := α) h hp hn j hj
      rcases this with h1 | h1 | h1
      · left; exact h1
      · right; left; exact e0.mp h1
      · right; right; exact e1.mp h1
    · intro hall
      have h0 : (varGenic ua (afreq ploidy A p) ploidy t).getD k 0 = 0 := by
        apply hz.mpr
        intro j hj
        have hj' : j < p := by rw [hua] at hj; exact hj
        obtain ⟨_, _, e0, e1⟩ := GStats.afreq_facts (α := α) h hp hn j hj'
        rcases hall j hj' with h1 | h1 | h1
        · left; exact h1
        · right; left; exact e0.mpr h1
        · right; right; exact e1.mpr h1
      rw [if_pos h0]
  · intro r hr
    by_cases h0 : (varGenic ua (afreq ploidy A p) ploidy t).getD k 0 = 0
    · rw [if_pos h0] at hr
      cases hr
    · rw [if_neg h0] at hr
      exact (Option.some.inj hr).symm

example : Alleles.DosageOK 2 3 2 [[1, 2], [2, 1], [0, 0]] :=
  ⟨by decide, by decide, by decide⟩

/-- **R²**: `1 − SSE/SST` per trait; it never exceeds 1 and equals 1 exactly when every prediction
    equals the observation. -/
theorem score_def (beta u Y X Z : List (List α)) (t k : ℕ) (hk : k < t)
    (hlen : (col Y k).length = (col (predictNumpy beta u X Z t) k).length)
    (hsst : ((col Y k).map (fun a => (a - mean (col Y k)) * (a - mean (col Y k)))).sum ≠ 0) :
    ∃ r, (score beta u Y X Z t).getD k none = some r ∧
      r = 1 - (List.zipWith (fun a b => (a - b) * (a - b)) (col Y k) (col (predictNumpy beta u X Z t) k)).sum
              / ((col Y k).map (fun a => (a - mean (col Y k)) * (a - mean (col Y k)))).sum ∧
      r ≤ 1 ∧ (r = 1 ↔ col Y k = col (predictNumpy beta u X Z t) k) := by
  set sse := (List.zipWith (fun a b => (a - b) * (a - b)) (col Y k) (col (predictNumpy beta u X Z t) k)).sum with hsse
  set sst := ((col Y k).map (fun a => (a - mean (col Y k)) * (a - mean (col Y k)))).sum with hsstd
  have hsst_nn : 0 ≤ sst := by
    apply List.sum_nonneg
    intro x hx
    obtain ⟨y, _, rfl⟩ := List.mem_map.mp hx
    exact mul_self_nonneg _
  have hsst_pos : 0 < sst := lt_of_le_of_ne hsst_nn (Ne.symm hsst)
  have hsse_nn : 0 ≤ sse := by
    apply List.sum_nonneg
    intro x hx
    obtain ⟨j, _, rfl⟩ := List.mem_iff_getElem.mp hx
    simp only [List.getElem_zipWith]
    exact mul_self_nonneg _
  refine ⟨1 - sse / sst, ?_, rfl, ?_, ?_⟩
  · unfold score
    simp only [List.getD_eq_getElem?_getD, List.getElem?_map, List.getElem?_range hk, Option.map_some,
      Option.getD_some]
    rw [if_neg hsst]
  · have : 0 ≤ sse / sst := div_nonneg hsse_nn hsst_pos.le
    linarith
  · rw [← GStats.sumsq_zero_iff _ _ hlen]
    constructor
    · intro h
      have : sse / sst = 0 := by linarith
      rcases div_eq_zero_iff.mp this with h | h
      · exact h
      · exact absurd h hsst
    · intro h
      show 1 - sse / sst = 1
      rw [hsse, h]; simp

/-- **a breeding-value matrix with ANY stored values, location and scale as phenotype input**: the values
    that enter R² are `scale_k · mat_ik + location_k` (`unscale()`), whatever the matrix was built from -/
theorem bvmat_unscaled_entry (mat : List (List α)) (loc scale : List α) (t i k : ℕ) (hi : i < mat.length)
    (hrow : (mat.getD i []).length = t) (hl : loc.length = t) (hs : scale.length = t) (hk : k < t) :
    matFn (unscaleBV mat loc scale) i k = vecFn scale k * matFn mat i k + vecFn loc k :=
  GDom.unscaleBV_entry mat loc scale t i k hi hrow hl hs hk

/-- **… and R² is `1 − SSE/SST` of those unscaled values about THEIR OWN column mean** (not about the stored
    location, which is the column mean only for matrices made by `from_numpy`): for every stored matrix,
    location and scale (no relation between them assumed) -/
theorem score_bvmat_any (beta u mat X Z : List (List α)) (loc scale : List α) (t k : ℕ) (hk : k < t)
    (hlen : (col (unscaleBV mat loc scale) k).length = (col (predictNumpy beta u X Z t) k).length)
    (hsst : ((col (unscaleBV mat loc scale) k).map (fun a =>
        (a - mean (col (unscaleBV mat loc scale) k)) * (a - mean (col (unscaleBV mat loc scale) k)))).sum ≠ 0) :
    ∃ r, (scoreBV beta u mat loc scale X Z t).getD k none = some r ∧
      r = 1 - (List.zipWith (fun a b => (a - b) * (a - b)) (col (unscaleBV mat loc scale) k)
                  (col (predictNumpy beta u X Z t) k)).sum
              / ((col (unscaleBV mat loc scale) k).map (fun a =>
                  (a - mean (col (unscaleBV mat loc scale) k)) * (a - mean (col (unscaleBV mat loc scale) k)))).sum ∧
      r ≤ 1 ∧ (r = 1 ↔ col (unscaleBV mat loc scale) k = col (predictNumpy beta u X Z t) k) :=
  score_def beta u (unscaleBV mat loc scale) X Z t k hk hlen hsst

example : ((col (unscaleBV ([[1], [3]] : List (List ℚ)) [0] [1]) 0).map (fun a =>
    (a - mean (col (unscaleBV ([[1], [3]] : List (List ℚ)) [0] [1]) 0))
      * (a - mean (col (unscaleBV ([[1], [3]] : List (List ℚ)) [0] [1]) 0)))).sum ≠ 0 := by decide +kernel

/-- a variant that takes the total sum of squares about a centre supplied from outside agrees with `score`
    when that centre is the column mean … -/
theorem score_about_column_mean (beta u Y X Z : List (List α)) (t : ℕ) :
    GDom.scoreAbout ((List.range t).map (fun k => mean (col Y k))) beta u Y X Z t = score beta u Y X Z t :=
  GDom.scoreAbout_mean beta u Y X Z t

/-- … and **differs when the stored location is used as the centre** for a matrix that holds raw values
    (location 0, scale 1: the constructor defaults): R² = 1/2 about the mean, 9/10 about the location -/
theorem score_about_location_counterexample :
    scoreBV ([[0]] : List (List ℚ)) [[1]] [[1], [3]] [0] [1] [[1], [1]] [[1], [2]] 1
      ≠ GDom.scoreAbout [0] [[0]] [[1]] (unscaleBV [[1], [3]] [0] [1]) [[1], [1]] [[1], [2]] 1 := by
  decide +kernel

/-! ## 6. Favourable / deleterious / neutral alleles -/

/-- **favourable allele count = number of copies of the favourable allele summed over taxa**, where
    the favourable allele is the counted one if `u > 0`, the other one if `u < 0`, none if `u = 0` -/
theorem facount_is_sum_over_taxa {ploidy n p t : ℕ} {A : List (List Int)} {ua : List (List α)} {j k : ℕ}
    (c : Cell ploidy n p t A ua j k) :
    ient (facount ua ploidy A) j k = (A.map (fun r => favDosage ploidy (matFn ua j k) (r.getD j 0))).sum := by
  rw [facount_entry c, Alleles.sum_favDosage, Alleles.acount_entry p A j c.hj, c.ok.rows]

theorem dacount_is_sum_over_taxa {ploidy n p t : ℕ} {A : List (List Int)} {ua : List (List α)} {j k : ℕ}
    (c : Cell ploidy n p t A ua j k) :
    ient (dacount ua ploidy A) j k = (A.map (fun r => delDosage ploidy (matFn ua j k) (r.getD j 0))).sum := by
  rw [dacount_entry c, Alleles.sum_delDosage, Alleles.acount_entry p A j c.hj, c.ok.rows]

/-- the three sign cases of the code (`where(u > 0, acount, maxfav − acount)`, then `0` where `u = 0`) -/
theorem facount_cases {ploidy n p t : ℕ} {A : List (List Int)} {ua : List (List α)} {j k : ℕ}
    (c : Cell ploidy n p t A ua j k) :
    (0 < matFn ua j k → ient (facount ua ploidy A) j k = (acount p A).getD j 0) ∧
    (matFn ua j k < 0 → ient (facount ua ploidy A) j k = ((ploidy * n : ℕ) : Int) - (acount p A).getD j 0) ∧
    (matFn ua j k = 0 → ient (facount ua ploidy A) j k = 0) := by
  rw [facount_entry c]
  refine ⟨fun h => Alleles.faCell_pos _ _ _ h, fun h => Alleles.faCell_neg _ _ _ h, fun h => ?_⟩
  rw [h]; exact Alleles.faCell_zero _ _

/-- a non-neutral marker: favourable + deleterious copies = all `ploidy · n` copies;
    deleterious counts are favourable counts of the negated model -/
theorem facount_add_dacount {ploidy n p t : ℕ} {A : List (List Int)} {ua : List (List α)} {j k : ℕ}
    (c : Cell ploidy n p t A ua j k) (hu : matFn ua j k ≠ 0) :
    ient (facount ua ploidy A) j k + ient (dacount ua ploidy A) j k = ((ploidy * n : ℕ) : Int) := by
  rw [facount_entry c, dacount_entry c]
  exact Alleles.faCell_add_daCell _ _ _ hu

theorem facount_bounds {ploidy n p t : ℕ} {A : List (List Int)} {ua : List (List α)} {j k : ℕ}
    (c : Cell ploidy n p t A ua j k) :
    0 ≤ ient (facount ua ploidy A) j k ∧ ient (facount ua ploidy A) j k ≤ ((ploidy * n : ℕ) : Int) := by
  rw [facount_entry c]
  obtain ⟨h0, h1⟩ := Alleles.acount_bounds c.ok j c.hj
  exact Alleles.faCell_bounds _ _ _ h0 h1

/-- **availability, fixation, polymorphism flags are their definitions on the favourable count**:
    available ⇔ at least one copy; fixed ⇔ all `ploidy·n` copies; polymorphic ⇔ available and not fixed -/
theorem favourable_flags {ploidy n p t : ℕ} {A : List (List Int)} {ua : List (List α)} {j k : ℕ}
    (c : Cell ploidy n p t A ua j k) :
    (bent (faavail ua ploidy A) j k = true ↔ 0 < ient (facount ua ploidy A) j k) ∧
    (bent (fafixed ua ploidy A) j k = true ↔ ient (facount ua ploidy A) j k = ((ploidy * n : ℕ) : Int)) ∧
    (bent (fapoly ua ploidy A) j k = true ↔
        bent (faavail ua ploidy A) j k = true ∧ bent (fafixed ua ploidy A) j k = false) := by
  obtain ⟨hs1, hs2⟩ := facount_shape c
  obtain ⟨_, hb⟩ := facount_bounds c
  have e1 : bent (faavail ua ploidy A) j k = decide (0 < ient (facount ua ploidy A) j k) := by
    unfold bent faavail ient
    rw [Alleles.mapM2_entry _ _ 0 false j k hs1 hs2]
  have e2 : bent (fafixed ua ploidy A) j k
      = decide (ient (facount ua ploidy A) j k = ((ploidy * n : ℕ) : Int)) := by
    unfold bent fafixed ient
    rw [Alleles.mapM2_entry _ _ 0 false j k hs1 hs2, c.ok.rows]
  have e3 : bent (fapoly ua ploidy A) j k
      = (decide (0 < ient (facount ua ploidy A) j k) &&
         decide (ient (facount ua ploidy A) j k < ((ploidy * n : ℕ) : Int))) := by
    unfold bent fapoly ient
    rw [Alleles.mapM2_entry _ _ 0 false j k hs1 hs2, c.ok.rows]
  refine ⟨?_, ?_, ?_⟩
  · rw [e1]; simp
  · rw [e2]; simp
  · rw [e1, e2, e3]
    simp only [decide_eq_true_eq, Bool.and_eq_true, decide_eq_false_iff_not]
    constructor
    · rintro ⟨h1, h2⟩; exact ⟨h1, by omega⟩
    · rintro ⟨h1, h2⟩; exact ⟨h1, by omega⟩

/-- the same for the deleterious allele -/
theorem deleterious_flags {ploidy n p t : ℕ} {A : List (List Int)} {ua : List (List α)} {j k : ℕ}
    (c : Cell ploidy n p t A ua j k) :
    (bent (daavail ua ploidy A) j k = true ↔ 0 < ient (dacount ua ploidy A) j k) ∧
    (bent (dafixed ua ploidy A) j k = true ↔ ient (dacount ua ploidy A) j k = ((ploidy * n : ℕ) : Int)) ∧
    (bent (dapoly ua ploidy A) j k = true ↔
        bent (daavail ua ploidy A) j k = true ∧ bent (dafixed ua ploidy A) j k = false) := by
  obtain ⟨hs1, hs2⟩ := dacount_shape c
  have hb : ient (dacount ua ploidy A) j k ≤ ((ploidy * n : ℕ) : Int) := by
    rw [dacount_entry c]
    obtain ⟨h0, h1⟩ := Alleles.acount_bounds c.ok j c.hj
    exact (Alleles.daCell_bounds _ _ _ h0 h1).2
  obtain ⟨e1, e2, e3⟩ := flags_of_count (dacount ua ploidy A) ((ploidy * n : ℕ) : Int) j k hs1 hs2
  have e1' : bent (daavail ua ploidy A) j k = decide (0 < ient (dacount ua ploidy A) j k) := e1
  have e2' : bent (dafixed ua ploidy A) j k
      = decide (ient (dacount ua ploidy A) j k = ((ploidy * n : ℕ) : Int)) := by
    unfold dafixed; rw [c.ok.rows]; exact e2
  have e3' : bent (dapoly ua ploidy A) j k
      = (decide (0 < ient (dacount ua ploidy A) j k) &&
         decide (ient (dacount ua ploidy A) j k < ((ploidy * n : ℕ) : Int))) := by
    unfold dapoly; rw [c.ok.rows]; exact e3
  refine ⟨?_, ?_, ?_⟩
  · rw [e1']; simp
  · rw [e2']; simp
  · rw [e1', e2', e3']
    simp only [decide_eq_true_eq, Bool.and_eq_true, decide_eq_false_iff_not]
    constructor
    · rintro ⟨h1, h2⟩; exact ⟨h1, by omega⟩
    · rintro ⟨h1, h2⟩; exact ⟨h1, by omega⟩

/-- **a marker with a non-zero effect is in exactly one of three states**: favourable allele fixed
    (⇔ deleterious allele lost), deleterious allele fixed (⇔ favourable allele lost), or both
    segregating (favourable-polymorphic ⇔ deleterious-polymorphic) -/
theorem nonneutral_states {ploidy n p t : ℕ} {A : List (List Int)} {ua : List (List α)} {j k : ℕ}
    (c : Cell ploidy n p t A ua j k) (hu : matFn ua j k ≠ 0) :
    (bent (fafixed ua ploidy A) j k = true ↔ bent (daavail ua ploidy A) j k = false) ∧
    (bent (dafixed ua ploidy A) j k = true ↔ bent (faavail ua ploidy A) j k = false) ∧
    (bent (fapoly ua ploidy A) j k = true ↔ bent (dapoly ua ploidy A) j k = true) := by
  obtain ⟨f1, f2, f3⟩ := favourable_flags c
  obtain ⟨d1, d2, d3⟩ := deleterious_flags c
  have hsum := facount_add_dacount c hu
  obtain ⟨hf0, hf1⟩ := facount_bounds c
  have hd0 : 0 ≤ ient (dacount ua ploidy A) j k := by
    rw [dacount_entry c]
    obtain ⟨h0, h1⟩ := Alleles.acount_bounds c.ok j c.hj
    exact (Alleles.daCell_bounds _ _ _ h0 h1).1
  have nf : ∀ b : Bool, b = false ↔ ¬ b = true := by intro b; cases b <;> simp
  refine ⟨?_, ?_, ?_⟩
  · rw [f2, nf, d1]; constructor <;> intro h <;> omega
  · rw [d2, nf, f1]; constructor <;> intro h <;> omega
  · rw [f3, d3, f1, d1, nf, nf, f2, d2]; constructor <;> rintro ⟨h1, h2⟩ <;> constructor <;> omega

/-- **neutral flags are their definitions on the raw allele count**: neutral-fixed ⇔ `u = 0` and the
    locus is fixed (count 0 or `ploidy·n`); neutral-polymorphic ⇔ `u = 0` and `0 < count < ploidy·n` -/
theorem neutral_flags {ploidy n p t : ℕ} {A : List (List Int)} {ua : List (List α)} {j k : ℕ}
    (c : Cell ploidy n p t A ua j k) :
    (bent (nafixed ua ploidy A) j k = true ↔
      matFn ua j k = 0 ∧ ((acount p A).getD j 0 = 0 ∨ (acount p A).getD j 0 = ((ploidy * n : ℕ) : Int))) ∧
    (bent (napoly ua ploidy A) j k = true ↔
      matFn ua j k = 0 ∧ 0 < (acount p A).getD j 0 ∧ (acount p A).getD j 0 < ((ploidy * n : ℕ) : Int)) := by
  have hj' : j < ua.length := by rw [c.ua_len]; exact c.hj
  have hja : j < (acount ua.length A).length := by rw [Alleles.acount_length, c.ua_len]; exact c.hj
  have hk' : k < (ua.getD j []).length := by rw [c.ua_row]; exact c.hk
  constructor
  · unfold bent nafixed
    rw [Alleles.cellMap_entry _ false ua _ j k hj' hja hk', c.ok.rows, c.ua_len]
    simp only [Bool.and_eq_true, Bool.or_eq_true, decide_eq_true_eq]
    exact ⟨fun ⟨h1, h2⟩ => ⟨h2, h1⟩, fun ⟨h1, h2⟩ => ⟨h2, h1⟩⟩
  · unfold bent napoly
    rw [Alleles.cellMap_entry _ false ua _ j k hj' hja hk', c.ok.rows, c.ua_len]
    simp only [Bool.and_eq_true, decide_eq_true_eq]
    exact ⟨fun ⟨⟨h1, h2⟩, h3⟩ => ⟨h3, h1, h2⟩, fun ⟨h1, h2, h3⟩ => ⟨⟨h2, h3⟩, h1⟩⟩

/-- **favourable allele frequency** = favourable count / (ploidy·n) -/
theorem fafreq_def {ploidy n p t : ℕ} {A : List (List Int)} {ua : List (List α)} {j k : ℕ}
    (c : Cell ploidy n p t A ua j k) :
    matFn (countFreq (facount ua ploidy A) ploidy n : List (List α)) j k
      = ((ient (facount ua ploidy A) j k : Int) : α) / ((ploidy * n : ℕ) : α) := by
  obtain ⟨hs1, hs2⟩ := facount_shape c
  unfold matFn countFreq ient
  rw [Alleles.mapM2_entry _ _ 0 0 j k hs1 hs2]

example : Cell (α := ℚ) 2 3 2 2 [[1, 2], [2, 1], [0, 0]] [[1, -1], [0, 2]] 1 0 :=
  ⟨⟨by decide, by decide, by decide⟩, by decide, by decide, by decide, by decide⟩

/-- fixation read off the frequency: the favourable allele is fixed exactly when its frequency is 1 -/
theorem fafixed_iff_freq_one {ploidy n p t : ℕ} {A : List (List Int)} {ua : List (List α)} {j k : ℕ}
    (c : Cell ploidy n p t A ua j k) (hp : 0 < ploidy) (hn : 0 < n) :
    bent (fafixed ua ploidy A) j k = true
      ↔ matFn (countFreq (facount ua ploidy A) ploidy n : List (List α)) j k = 1 := by
  rw [(favourable_flags c).2.1, fafreq_def c]
  have hm : ((ploidy * n : ℕ) : α) ≠ 0 := by exact_mod_cast (Nat.mul_pos hp hn).ne'
  rw [div_eq_one_iff_eq hm]
  constructor
  · intro h; rw [h]; push_cast; ring
  · intro h; exact_mod_cast h

/-! ## 7. rrBLUP: intercept, monomorphic markers -/

/-- **the intercept of a fitted model is the training mean** of each trait, whatever the per-trait
    solver returns -/
theorem fit_intercept_eq_mean (Y Z : List (List α)) (p t : ℕ)
    (solve : ℕ → List α → List (List α) → List α) (k : ℕ) (hk : k < t) :
    matFn (fitNumpy Y Z p t solve).1 0 k = mean (col Y k) := by
  unfold fitNumpy matFn
  simp [List.getD_eq_getElem?_getD, List.getElem?_map, List.getElem?_range hk]

/-- **monomorphic markers get effect exactly zero** for every trait, whatever the solver returns -/
theorem fit_monomorphic_zero (Y Z : List (List α)) (p t : ℕ)
    (solve : ℕ → List α → List (List α) → List α) (j : ℕ) (hj : j < p)
    (hmono : ∀ r ∈ Z, r.getD j 0 = (Z.headD []).getD j 0) :
    (fitNumpy Y Z p t solve).2[j]? = some (List.replicate t 0) := by
  unfold fitNumpy
  exact RRFit.scatter_false t _ _ j ((RRFit.isPoly_false_iff Z p j hj).mpr hmono)

/-- the effects of the polymorphic markers are the solver's effects, in marker order:
    row j of `u_a` is row `#{polymorphic markers before j}` of the stacked solutions -/
theorem fit_polymorphic_effects (Y Z : List (List α)) (p t : ℕ)
    (solve : ℕ → List α → List (List α) → List α) (j : ℕ) (hj : (isPoly Z p)[j]? = some true) :
    (fitNumpy Y Z p t solve).2[j]?
      = some (((List.range t).map (fun k => solve k (col Y k) (selectCols (isPoly Z p) Z))).map
          (fun s => s.getD (((isPoly Z p).take j).count true) 0)) := by
  unfold fitNumpy
  have hlt : ((isPoly Z p).take j).count true < (isPoly Z p).count true := by
    have hjl : j < (isPoly Z p).length := by
      by_contra h
      rw [List.getElem?_eq_none (Nat.le_of_not_lt h)] at hj
      cases hj
    have hsplit : isPoly Z p = (isPoly Z p).take j ++ (isPoly Z p)[j] :: (isPoly Z p).drop (j+1) := by
      rw [List.getElem_cons_drop, List.take_append_drop]
    have hv : (isPoly Z p)[j] = true := by
      rw [List.getElem?_eq_getElem hjl] at hj
      exact Option.some.inj hj
    conv_rhs => rw [hsplit]
    rw [List.count_append, hv, List.count_cons_self]
    omega
  rw [RRFit.scatter_true t _ _ j hj (by simpa using hlt)]
  simp [List.getElem?_map, List.getElem?_range hlt]

example : (∀ r ∈ ([[0, 1, 2], [1, 1, 2], [2, 0, 2]] : List (List ℚ)), r.getD 2 0 = (([[0, 1, 2], [1, 1, 2], [2, 0, 2]] : List (List ℚ)).headD []).getD 2 0) := by
  decide +kernel

/-! ## 8. rrBLUP: Gauss–Seidel is coordinate descent on the penalised criterion -/

/-- **one Gauss–Seidel sweep never raises the energy `½xᵀAx − bᵀx`** (A symmetric, positive diagonal) -/
theorem gs_sweep_descent {n : ℕ} {A : List (List α)} {b : List α} (h : Square n A b) (hs : SymPosDiag n A)
    (x : List α) (hx : x.length = n) :
    energyL n A b (gsSweep A b x) ≤ energyL n A b x :=
  gsSweep_energy_le h hs x hx

/-- **whatever `atol` and `maxiter`, `gauss_seidel` returns a vector of the right length whose energy
    is at most that of the all-zero start** -/
theorem gs_descent {n : ℕ} {A : List (List α)} {b : List α} (h : Square n A b) (hs : SymPosDiag n A)
    (atol : α) (maxiter : ℕ) :
    (gaussSeidel A b atol maxiter).length = n ∧ energyL n A b (gaussSeidel A b atol maxiter) ≤ 0 :=
  gaussSeidel_energy_le_zero h hs atol maxiter

example : Square 2 ([[4, 1], [1, 3]] : List (List ℚ)) [1, 2] ∧ SymPosDiag 2 ([[4, 1], [1, 3]] : List (List ℚ)) := by
  refine ⟨⟨by decide, by decide, by decide⟩, ⟨?_, ?_⟩⟩
  · intro i j hi hj
    interval_cases i <;> interval_cases j <;> decide +kernel
  · intro i hi
    interval_cases i <;> decide +kernel

/-- **a fitted rrBLUP model never does worse on its penalised least-squares criterion
    `‖y − ȳ − Z u‖² + ridge ‖u‖²` than the all-zero solution** — for every training set, every
    positive ridge the ML step may choose, every tolerance `gsatol ≥ 0` and every sweep limit, whichever of the
    two branches of the repaired solve step is taken (Gauss–Seidel iterate kept, or direct solution under the
    contract `A x = b` of `numpy.linalg.solve`). -/
theorem rrblup_never_worse_than_zero (solve : List (List α) → List α → List α) (y : List α) (Z : List (List α))
    (n p : ℕ) (hZ : Ridge.Rect Z n p) (hy : y.length = n) (ridge : α) (hr : 0 < ridge) (atol : α) (hat : 0 ≤ atol)
    (maxiter : ℕ) (hs : SolveOK p solve (ztzPlusRidge Z p ridge) (zty Z p (center y))) :
    psse y Z ridge (ml0 solve y Z p ridge atol maxiter).2 ≤ psse y Z ridge (List.replicate p 0) :=
  (RRSolve.ml0_facts solve y Z n p hZ hy ridge hr atol hat maxiter hs).2.1

/-- the pre-repair function (Gauss–Seidel iterate returned as it is) had the same property: descent does not
    depend on convergence -/
theorem rrblup_prerepair_never_worse_than_zero (y : List α) (Z : List (List α)) (n p : ℕ) (hZ : Ridge.Rect Z n p)
    (hy : y.length = n) (ridge : α) (hr : 0 < ridge) (atol : α) (maxiter : ℕ) :
    psse y Z ridge (ml0Prerepair y Z p ridge atol maxiter).2 ≤ psse y Z ridge (List.replicate p 0) := by
  unfold ml0Prerepair
  obtain ⟨hl, he⟩ := gaussSeidelPrerepair_energy_le_zero (Ridge.square_ztz Z p ridge (center y))
    (Ridge.symPosDiag_ztz Z n p hZ.1 ridge hr) atol maxiter
  have := Ridge.psse_sub_psse_zero y Z n p hZ hy ridge _ hl
  simp only []
  linarith

/-- the same for the public entry point: every trait of `fit_numpy` (solver = `rrBLUP_ML0` on the
    polymorphic columns, with the trait's own ridge) is at least as good as the zero solution -/
theorem fit_never_worse_than_zero (solve : List (List α) → List α → List α) (Y Z : List (List α)) (n p : ℕ)
    (hZ : Ridge.Rect Z n p) (k : ℕ) (hy : (col Y k).length = n) (ridge : α) (hr : 0 < ridge) (atol : α)
    (hat : 0 ≤ atol) (maxiter : ℕ)
    (hs : SolveOK ((isPoly Z p).count true) solve
      (ztzPlusRidge (selectCols (isPoly Z p) Z) ((isPoly Z p).count true) ridge)
      (zty (selectCols (isPoly Z p) Z) ((isPoly Z p).count true) (center (col Y k)))) :
    let mask := isPoly Z p
    let Zp := selectCols mask Z
    let np := mask.count true
    psse (col Y k) Zp ridge (ml0 solve (col Y k) Zp np ridge atol maxiter).2
      ≤ psse (col Y k) Zp ridge (List.replicate np 0) := by
  intro mask Zp np
  exact rrblup_never_worse_than_zero solve (col Y k) Zp n np
    (RRFit.selectCols_rect mask Z n p hZ (RRFit.isPoly_length Z p)) hy ridge hr atol hat maxiter hs

example : Ridge.Rect ([[0, 1], [1, 1], [2, 0]] : List (List ℚ)) 3 2 := ⟨by decide, by decide⟩

/-- **the ridge the ML step hands to the solver is positive**: `varE = exp(x₀)`, `varU = exp(x₁)` for the
    Nelder–Mead optimum `(x₀, x₁)`, `ridge = varE / varU` — whatever the optimiser returns.  This is the only
    fact about the ML step the theorems above use (`hr : 0 < ridge`). -/
theorem ml_ridge_positive (x0 x1 : ℝ) : 0 < Real.exp x0 / Real.exp x1 :=
  div_pos (Real.exp_pos x0) (Real.exp_pos x1)

/-- the intercept returned by `rrBLUP_ML0` is the mean of the response -/
theorem ml0_intercept (solve : List (List α) → List α → List α) (y : List α) (Z : List (List α)) (p : ℕ)
    (ridge atol : α) (maxiter : ℕ) :
    (ml0 solve y Z p ridge atol maxiter).1 = mean y := rfl

/-! ## 9. rrBLUP: the normal equations -/

/-- **residual identity**: after a sweep from `x` to `x'`, `(b − A x')_i = Σ_{j>i} A_ij (x_j − x'_j)` -/
theorem gs_residual_identity {n : ℕ} {A : List (List α)} {b : List α} (h : Square n A b) (x : List α)
    (hx : x.length = n) (i : ℕ) (hi : i < n) (hd : matFn A i i ≠ 0) :
    GSFn.resid n (matFn A) (vecFn b) (vecFn (gsSweep A b x)) i
      = ∑ j ∈ range n, if i < j then matFn A i j * (vecFn x j - vecFn (gsSweep A b x) j) else 0 := by
  rw [(gsSweep_fn h x hx).2]
  exact GSFn.sweep_resid n (matFn A) (vecFn b) (vecFn x) i hi hd

/-- a sweep that changes nothing has solved the system exactly -/
theorem gs_fixed_point_solves {n : ℕ} {A : List (List α)} {b : List α} (h : Square n A b) (x : List α)
    (hx : x.length = n) (hfix : gsSweep A b x = x) (i : ℕ) (hi : i < n) (hd : matFn A i i ≠ 0) :
    GSFn.resid n (matFn A) (vecFn b) (vecFn x) i = 0 := by
  have := gs_residual_identity h x hx i hi hd
  rw [hfix] at this
  simpa using this

/-- **the penalised normal equations — FULL for the repaired code (D22, D22b)**: for every training set
    (any n, p — in particular whenever n > p), every positive ridge, every `gsatol ≥ 0` (zero included) and
    every sweep limit, every residual of `(Z'Z + ridge I) u = Z'(y − ȳ)` of the effects `rrBLUP_ML0` returns is
    at most `2·gsatol·max_i Σ_j |A_ij|` — the bound the code tests before it keeps the Gauss–Seidel iterate;
    otherwise the direct solution is returned, whose residual is zero by the contract of `numpy.linalg.solve`
    (trusted, re-checked on every case; `exact_solver_meets_contract` for the reference solver of the driver).
    With `gsatol = 0` the returned effects solve the system exactly. -/
theorem rrblup_normal_equations (solve : List (List α) → List α → List α) (y : List α) (Z : List (List α))
    (n p : ℕ) (hZ : Ridge.Rect Z n p) (hy : y.length = n) (ridge : α) (hr : 0 < ridge) (atol : α) (hat : 0 ≤ atol)
    (maxiter : ℕ) (hs : SolveOK p solve (ztzPlusRidge Z p ridge) (zty Z p (center y))) (i : ℕ) (hi : i < p) :
    |GSFn.resid p (matFn (ztzPlusRidge Z p ridge)) (vecFn (zty Z p (center y)))
        (vecFn (ml0 solve y Z p ridge atol maxiter).2) i|
      ≤ (atol + atol) * rowAbsMax (ztzPlusRidge Z p ridge) :=
  (RRSolve.ml0_facts solve y Z n p hZ hy ridge hr atol hat maxiter hs).2.2 i hi

/-- the exact Gauss–Jordan reference the driver runs the model with meets the solver contract whenever the
    elimination succeeds (it does for every non-singular matrix) -/
theorem exact_solver_meets_contract {n : ℕ} {A : List (List α)} {b : List α} (h : Square n A b)
    (B : List (List α)) (hB : Coancestry.inverse A = some B) : SolveOK n exactSolve A b :=
  RRSolve.exactSolve_ok h B hB

/-- non-vacuity and regression for D22 / D22b: on the two training sets of the former findings the repaired
    model (exact reference solver) returns effects with ZERO residual — after 3 sweeps at the default
    tolerance (D22: two identical markers), and after 5 sweeps at `gsatol = 0` (D22b) -/
example :
    (∀ i, i < 2 → GSFn.resid 2 (matFn (ztzPlusRidge ([[1, 1], [0, 0], [1, 1]] : List (List ℚ)) 2 (1/2)))
        (vecFn (zty [[1, 1], [0, 0], [1, 1]] 2 (center [4, 5, 4])))
        (vecFn (ml0 exactSolve [4, 5, 4] [[1, 1], [0, 0], [1, 1]] 2 (1/2) (1/100000000) 3).2) i = 0) ∧
    (∀ i, i < 2 → GSFn.resid 2 (matFn (ztzPlusRidge ([[0, 1], [1, 1], [2, 0], [1, 2], [0, 0], [2, 2]] : List (List ℚ)) 2 (1/2)))
        (vecFn (zty [[0, 1], [1, 1], [2, 0], [1, 2], [0, 0], [2, 2]] 2 (center [1, 2, 4, 3, 0, 5])))
        (vecFn (ml0 exactSolve [1, 2, 4, 3, 0, 5] [[0, 1], [1, 1], [2, 0], [1, 2], [0, 0], [2, 2]] 2 (1/2) 0 5).2) i = 0) := by
  constructor <;> intro i hi <;> interval_cases i <;> decide +kernel

example : (Coancestry.inverse (ztzPlusRidge ([[1, 1], [0, 0], [1, 1]] : List (List ℚ)) 2 (1/2))).isSome = true := by
  decide +kernel

/- PRE-REPAIR (kept): before the repair the solve step returned the Gauss–Seidel iterate as it was, and the
   statement above held only when the loop had stopped by its tolerance test (`normal_equations_partial`,
   `rrblup_normal_equations_prerepair_partial`); it failed at the sweep limit
   (`normal_equations_prerepair_counterexample`, `…_default_maxiter`) and for `gsatol = 0`
   (`normal_equations_atol_zero_prerepair_counterexample`). -/

/-- **normal equations, if the loop stopped by its tolerance test**: when `gauss_seidel` performed
    at least one sweep and fewer than `maxiter`, every residual of `A x = b` is bounded by
    `atol · Σ_{j>i} |A_ij|` (exact solution in the limit `atol → 0`).  Partial: that the loop does
    stop by tolerance within `maxiter` sweeps for n > p is numerical convergence, not proved (and
    false at maxiter = 1000 for ill-conditioned systems). -/
theorem normal_equations_partial {n : ℕ} {A : List (List α)} {b : List α} (h : Square n A b)
    (hd : ∀ i, i < n → matFn A i i ≠ 0) (atol : α) (maxiter : ℕ)
    (h1 : 1 ≤ gsSweeps A b atol maxiter (decide (atol < atol + atol)) (b.map (fun _ => (0:α))))
    (h2 : gsSweeps A b atol maxiter (decide (atol < atol + atol)) (b.map (fun _ => (0:α))) < maxiter)
    (i : ℕ) (hi : i < n) :
    |GSFn.resid n (matFn A) (vecFn b) (vecFn (gaussSeidelPrerepair A b atol maxiter)) i|
      ≤ atol * ∑ j ∈ range n, if i < j then |matFn A i j| else 0 := by
  unfold gaussSeidelPrerepair
  obtain ⟨xp, hxp, hres, hmv⟩ := gsLoop_stopped h atol maxiter _ (b.map (fun _ => (0:α)))
    (by simp [h.rhs]) h1 h2
  rw [hres]
  obtain ⟨hl, hf⟩ := gsSweep_fn h xp hxp
  have hmove := (moved_false_iff atol (gsSweep A b xp) xp n hl hxp).mp hmv
  rw [hf] at hmove ⊢
  exact GSFn.sweep_resid_bound n (matFn A) (vecFn b) (vecFn xp) atol hmove i hi (hd i hi)

/-- the partial theorem specialised to the system `rrBLUP_ML0` builds -/
theorem rrblup_normal_equations_prerepair_partial (y : List α) (Z : List (List α)) (n p : ℕ) (hZ : Ridge.Rect Z n p)
    (ridge : α) (hr : 0 < ridge) (atol : α) (maxiter : ℕ)
    (h1 : 1 ≤ gsSweeps (ztzPlusRidge Z p ridge) (zty Z p (center y)) atol maxiter (decide (atol < atol + atol))
            ((zty Z p (center y)).map (fun _ => (0:α))))
    (h2 : gsSweeps (ztzPlusRidge Z p ridge) (zty Z p (center y)) atol maxiter (decide (atol < atol + atol))
            ((zty Z p (center y)).map (fun _ => (0:α))) < maxiter)
    (i : ℕ) (hi : i < p) :
    |GSFn.resid p (matFn (ztzPlusRidge Z p ridge)) (vecFn (zty Z p (center y)))
        (vecFn (ml0Prerepair y Z p ridge atol maxiter).2) i|
      ≤ atol * ∑ j ∈ range p, if i < j then |matFn (ztzPlusRidge Z p ridge) i j| else 0 := by
  unfold ml0Prerepair
  exact normal_equations_partial (Ridge.square_ztz Z p ridge (center y))
    (fun i hi => ((Ridge.symPosDiag_ztz Z n p hZ.1 ridge hr).diag i hi).ne') atol maxiter h1 h2 i hi

/-- non-vacuity: a well-conditioned 2×2 system stops by tolerance after 3 of 10 allowed sweeps -/
example : gsSweeps ([[4, 0], [0, 3]] : List (List ℚ)) [1, 2] (1/100) 10 (decide ((1/100 : ℚ) < 1/100 + 1/100))
    [0, 0] = 2 := by decide +kernel

/-- **pre-repair: the statement failed when the sweep limit was reached**: three records, two identical
    markers (n = 3 > p = 2), ridge 1/2, `atol = 1e-8`, three sweeps allowed — the returned effects
    leave a residual far above `atol · Σ_{j>i}|A_ij|`. -/
theorem normal_equations_prerepair_counterexample :
    let y : List ℚ := [4, 5, 4]
    let Z : List (List ℚ) := [[1, 1], [0, 0], [1, 1]]
    let ridge : ℚ := 1/2
    let atol : ℚ := 1/100000000
    let u := (ml0Prerepair y Z 2 ridge atol 3).2
    ¬ (|GSFn.resid 2 (matFn (ztzPlusRidge Z 2 ridge)) (vecFn (zty Z 2 (center y))) (vecFn u) 0|
        ≤ atol * ∑ j ∈ range 2, if 0 < j then |matFn (ztzPlusRidge Z 2 ridge) 0 j| else 0) := by
  decide +kernel

/-- **the same at the code's defaults** (`gsmaxiter = 1000`, `gsatol = 1e-8`) in exact arithmetic:
    for the training set of finding D22 (two identical markers, three records) and a ridge of the
    size the ML step returns there (≈ 4.5e-5), all 1000 sweeps are used and the returned effects still
    miss the normal equations by far more than the tolerance bound.  (Kernel evaluation, ≈ 15 s.) -/
theorem normal_equations_prerepair_counterexample_default_maxiter :
    let y : List ℚ := [4, 5, 4]
    let Z : List (List ℚ) := [[1, 1], [0, 0], [1, 1]]
    let ridge : ℚ := 1/22222
    let atol : ℚ := 1/100000000
    let u := (ml0Prerepair y Z 2 ridge atol 1000).2
    ¬ (|GSFn.resid 2 (matFn (ztzPlusRidge Z 2 ridge)) (vecFn (zty Z 2 (center y))) (vecFn u) 0|
        ≤ atol * ∑ j ∈ range 2, if 0 < j then |matFn (ztzPlusRidge Z 2 ridge) 0 j| else 0) := by
  decide +kernel

/-! ### 9b. what is returned however the loop ends (tolerance test or sweep limit) -/

/-- the loop never performs more than `maxiter` sweeps -/
theorem gs_sweeps_le_maxiter (A : List (List α)) (b : List α) (atol : α) (maxiter : ℕ) :
    gsSweeps A b atol maxiter true (b.map (fun _ => (0:α))) ≤ maxiter :=
  GSLast.gsSweeps_le_fuel A b atol maxiter _ _

/-- **repaired (D22b)**: whenever a sweep is allowed one is performed — for every tolerance, `atol = 0` included -/
theorem gs_sweeps_ge_one (A : List (List α)) (b : List α) (atol : α) (maxiter : ℕ) (hm : 1 ≤ maxiter) :
    1 ≤ gsSweeps A b atol maxiter true (b.map (fun _ => (0:α))) :=
  GSConv.gsSweeps_ge_one A b atol maxiter _ hm

/-- **pre-repair**: the loop performed no sweep exactly when `maxiter = 0` or the very first test
    `2·atol > atol` failed, i.e. when `atol ≤ 0`; then the all-zero vector was returned (so `gsatol = 0`, which
    `rrBLUP_ML0` accepts, yielded all-zero marker effects: D22b) -/
theorem gs_no_sweep_iff_prerepair (A : List (List α)) (b : List α) (atol : α) (maxiter : ℕ) :
    (gsSweeps A b atol maxiter (decide (atol < atol + atol)) (b.map (fun _ => (0:α))) = 0
      ↔ maxiter = 0 ∨ atol ≤ 0) ∧
    (gsSweeps A b atol maxiter (decide (atol < atol + atol)) (b.map (fun _ => (0:α))) = 0 →
      gaussSeidelPrerepair A b atol maxiter = b.map (fun _ => (0:α))) := by
  constructor
  · rw [GSLast.gsSweeps_eq_zero_iff]
    simp only [decide_eq_false_iff_not, not_lt]
    constructor
    · rintro (h | h)
      · exact Or.inl h
      · right; linarith
    · rintro (h | h)
      · exact Or.inl h
      · right; linarith
  · intro h0
    exact GSLast.gsLoop_of_sweeps_zero A b atol maxiter _ _ h0

/-- **pre-repair, `gsatol = 0` (D22b)**: `rrBLUP_ML0` accepts a zero tolerance, the loop test `2·0 > 0` was false at
    once and the all-zero effects were returned whatever `gsmaxiter`: with six records and two polymorphic
    markers (n > p) they do not solve the penalised normal equations (residual `Z'y_c ≠ 0`). -/
theorem normal_equations_atol_zero_prerepair_counterexample :
    let y : List ℚ := [1, 2, 4, 3, 0, 5]
    let Z : List (List ℚ) := [[0, 1], [1, 1], [2, 0], [1, 2], [0, 0], [2, 2]]
    let ridge : ℚ := 1/2
    (ml0Prerepair y Z 2 ridge 0 1000).2 = [0, 0] ∧
    ¬ (|GSFn.resid 2 (matFn (ztzPlusRidge Z 2 ridge)) (vecFn (zty Z 2 (center y))) (vecFn (ml0Prerepair y Z 2 ridge 0 1000).2) 0|
        ≤ 0 * ∑ j ∈ range 2, if 0 < j then |matFn (ztzPlusRidge Z 2 ridge) 0 j| else 0) := by
  decide +kernel

/-- **characterisation of the returned iterate, however the loop ended** (by its tolerance test or by the
    sweep limit — the case of the former finding D22): if at least one sweep is allowed, the result is exactly ONE
    sweep away from the previous iterate `xp`; `xp` is already no worse than the zero start, the result no
    worse than `xp`; every residual of `A x = b` is the explicit combination
    `Σ_{j>i} A_ij (xp_j − x_j)` of the LAST step, hence bounded by `D · Σ_{j>i}|A_ij|` for any bound `D` on
    the last step size `‖x − xp‖∞` (`D = atol` when the loop stopped by tolerance; at `maxiter` the last
    step may be arbitrarily larger — `normal_equations_counterexample`). -/
theorem gs_result_is_last_sweep {n : ℕ} {A : List (List α)} {b : List α} (h : Square n A b)
    (hs : SymPosDiag n A) (atol : α) (maxiter : ℕ) (hm : 1 ≤ maxiter) :
    ∃ xp : List α, xp.length = n ∧ gaussSeidel A b atol maxiter = gsSweep A b xp ∧
      energyL n A b xp ≤ 0 ∧ energyL n A b (gaussSeidel A b atol maxiter) ≤ energyL n A b xp ∧
      (∀ i, i < n → GSFn.resid n (matFn A) (vecFn b) (vecFn (gaussSeidel A b atol maxiter)) i
          = ∑ j ∈ range n, if i < j then matFn A i j * (vecFn xp j - vecFn (gaussSeidel A b atol maxiter) j) else 0) ∧
      (∀ D : α, (∀ j, j < n → |vecFn (gaussSeidel A b atol maxiter) j - vecFn xp j| ≤ D) →
        ∀ i, i < n → |GSFn.resid n (matFn A) (vecFn b) (vecFn (gaussSeidel A b atol maxiter)) i|
          ≤ D * GSConv.upSum n (matFn A) i) := by
  have hz : (b.map (fun _ => (0:α))).length = n := by simp [h.rhs]
  obtain ⟨xp, hxp, hres, hen⟩ := GSLast.gsLoop_last_sweep h hs atol maxiter _ _ hz
    (GSConv.gsSweeps_ge_one A b atol maxiter _ hm)
  have he0 : energyL n A b (b.map (fun _ => (0:α))) = 0 := by
    unfold energyL
    rw [vecFn_zeros]
    exact GSFn.energy_zero n _ _
  have hg : gaussSeidel A b atol maxiter = gsSweep A b xp := hres
  refine ⟨xp, hxp, hg, by rw [← he0]; exact hen, ?_, ?_, ?_⟩
  · rw [hg]; exact gsSweep_energy_le h hs xp hxp
  · intro i hi
    rw [hg]
    exact gs_residual_identity h xp hxp i hi ((hs.diag i hi).ne')
  · intro D hD i hi
    rw [hg] at hD ⊢
    exact GSLast.sweep_resid_le_step h xp hxp D hD i hi ((hs.diag i hi).ne')

/-- the D22 system after the three sweeps it is allowed: the result is the sweep of the second iterate and
    that last step still moved a coordinate by more than `atol` (the loop would have continued) -/
theorem d22_stopped_by_sweep_limit :
    let A : List (List ℚ) := ztzPlusRidge [[1, 1], [0, 0], [1, 1]] 2 (1/2)
    let b : List ℚ := zty [[1, 1], [0, 0], [1, 1]] 2 (center [4, 5, 4])
    let x2 := gsSweep A b (gsSweep A b [0, 0])
    gaussSeidel A b (1/100000000) 3 = gsSweep A b x2 ∧ moved (1/100000000) (gsSweep A b x2) x2 = true := by
  decide +kernel

/-! ## 10. rrBLUP: convergence of Gauss–Seidel for strictly diagonally dominant systems

The general symmetric positive-diagonal case stays partial (section 9, finding D22).  For the
sub-class of strictly diagonally dominant systems the loop provably stops by its tolerance test
within an explicit number of sweeps; `ridge_dominance_iff` says exactly when `Z'Z + ridge·I` is in
that class, `ztz_not_dominant_counterexample` that it is not in general, and
`d22_system_dominant_but_slow` that the D22 training set *is* dominant but with a contraction factor
so close to 1 that the explicit sweep bound exceeds `maxiter = 1000` by three orders of magnitude. -/

/-- **strict diagonal dominance yields a contraction factor `q < 1`** with
    `Σ_{j>i}|A_ij| ≤ q·(A_ii − Σ_{j<i}|A_ij|)` in every row -/
theorem diag_dominant_has_factor (n : ℕ) (A : ℕ → ℕ → α) (h : GSConv.SDD n A) : ∃ q, GSConv.Contr n A q :=
  GSConv.sdd_has_factor n A h

/-- **a Gauss–Seidel sweep contracts differences by `q` in the max norm** (so it contracts the error
    to the solution, and successive steps, by `q`) -/
theorem gs_sweep_contracts {n : ℕ} {A : List (List α)} {b : List α} (h : Square n A b) (q : α)
    (hc : GSConv.ContrL n A q) (x y : List α) (hx : x.length = n) (hy : y.length = n) (M : α)
    (hM : ∀ j, j < n → |vecFn x j - vecFn y j| ≤ M) :
    ∀ i, i < n → |vecFn (gsSweep A b x) i - vecFn (gsSweep A b y) i| ≤ q * M := by
  rw [(gsSweep_fn h x hx).2, (gsSweep_fn h y hy).2]
  exact GSConv.sweep_contract n (matFn A) q hc (vecFn b) (vecFn x) (vecFn y) M hM

/-- **conditional full normal-equation theorem**: for a system with contraction factor `q` (e.g. any
    strictly diagonally dominant one), every `atol > 0`, every bound `D0` on the first sweep from zero
    and every `K` with `q^K·D0 ≤ atol`: if `maxiter ≥ K + 2`, `gauss_seidel` performs between 1 and
    `K+1` sweeps, stops by its tolerance test, and every residual of `A x = b` is at most
    `atol · Σ_{j>i}|A_ij|`. -/
theorem normal_equations_of_diag_dominant {n : ℕ} {A : List (List α)} {b : List α} (h : Square n A b)
    (q : α) (hc : GSConv.ContrL n A q) (atol : α) (hat : 0 < atol) (maxiter K : ℕ) (D0 : α)
    (hD0 : ∀ j, j < n → |vecFn (gsSweep A b (b.map (fun _ => (0:α)))) j| ≤ D0)
    (hK : q ^ K * D0 ≤ atol) (hmax : K + 2 ≤ maxiter) :
    let s := gsSweeps A b atol maxiter true (b.map (fun _ => (0:α)))
    1 ≤ s ∧ s ≤ K + 1 ∧
    ∀ i, i < n → |GSFn.resid n (matFn A) (vecFn b) (vecFn (gaussSeidel A b atol maxiter)) i|
      ≤ atol * GSConv.upSum n (matFn A) i :=
  GSConv.gs_converges_of_contr h q hc atol hat maxiter K D0 hD0 hK hmax

/-- an explicit `D0`: the first sweep from zero is bounded by `max|b| / δ` for any
    `0 < δ ≤ A_ii − Σ_{j<i}|A_ij|` -/
theorem first_sweep_explicit_bound {n : ℕ} {A : List (List α)} {b : List α} (h : Square n A b) (B δ : α)
    (hδ : 0 < δ) (hd : ∀ i, i < n → 0 < matFn A i i)
    (hlow : ∀ i, i < n → δ ≤ matFn A i i - GSConv.lowSum n (matFn A) i)
    (hb : ∀ i, i < n → |vecFn b i| ≤ B) :
    ∀ j, j < n → |vecFn (gsSweep A b (b.map (fun _ => (0:α)))) j| ≤ B / δ := by
  rw [(gsSweep_fn h _ (by simp [h.rhs])).2, vecFn_zeros]
  exact GSConv.first_sweep_bound n (matFn A) (vecFn b) B δ hδ hd hlow hb

/-- non-vacuity: `[[4,1],[1,3]] x = [1,2]` has factor 1/4, first sweep ≤ 7/12, and `(1/4)^3·7/12 ≤ 1/100` -/
example : Square 2 ([[4, 1], [1, 3]] : List (List ℚ)) [1, 2] ∧
    GSConv.ContrL 2 ([[4, 1], [1, 3]] : List (List ℚ)) (1/4) ∧
    (∀ j, j < 2 → |vecFn (gsSweep ([[4, 1], [1, 3]] : List (List ℚ)) [1, 2] [0, 0]) j| ≤ 7/12) ∧
    ((1/4 : ℚ) ^ 3 * (7/12) ≤ 1/100) :=
  ⟨⟨by decide, by decide, by decide⟩,
   ⟨by decide +kernel, by decide +kernel, by decide +kernel, by decide +kernel⟩,
   by decide +kernel, by decide +kernel⟩

/-- the same for the system `rrBLUP_ML0` assembles (pre-repair function; for the repaired one see
    `rrblup_normal_equations`): if `Z'Z + ridge·I` has contraction factor `q`, the Gauss–Seidel effects already
    satisfy the penalised normal equations to `gsatol · Σ_{j>i}|A_ij|` -/
theorem rrblup_normal_equations_prerepair_of_diag_dominant (y : List α) (Z : List (List α)) (p : ℕ) (ridge q : α)
    (hc : GSConv.ContrL p (ztzPlusRidge Z p ridge) q) (atol : α) (hat : 0 < atol) (maxiter K : ℕ) (D0 : α)
    (hD0 : ∀ j, j < p → |vecFn (gsSweep (ztzPlusRidge Z p ridge) (zty Z p (center y))
              ((zty Z p (center y)).map (fun _ => (0:α)))) j| ≤ D0)
    (hK : q ^ K * D0 ≤ atol) (hmax : K + 2 ≤ maxiter) (i : ℕ) (hi : i < p) :
    |GSFn.resid p (matFn (ztzPlusRidge Z p ridge)) (vecFn (zty Z p (center y)))
        (vecFn (ml0Prerepair y Z p ridge atol maxiter).2) i|
      ≤ atol * GSConv.upSum p (matFn (ztzPlusRidge Z p ridge)) i := by
  unfold ml0Prerepair
  simp only []
  rw [RRSolve.gaussSeidelPrerepair_eq _ _ atol hat maxiter]
  exact (GSConv.gs_converges_of_contr (Ridge.square_ztz Z p ridge (center y)) q hc atol hat maxiter K D0
    hD0 hK hmax).2.2 i hi

/-- **when is the rrBLUP system diagonally dominant?**  Exactly when in every row the ridge exceeds the
    off-diagonal excess: `Σ_{k≠j}|Σ_i Z_ij Z_ik| < Σ_i Z_ij² + ridge`. -/
theorem ridge_dominance_iff (Z : List (List α)) (n p : ℕ) (hn : Z.length = n) (ridge : α) :
    GSConv.SDD p (matFn (ztzPlusRidge Z p ridge)) ↔
      ∀ j, j < p → RidgeDom.offSum n p (matFn Z) j < RidgeDom.diagSq n (matFn Z) j + ridge :=
  RidgeDom.ztz_sdd_iff Z n p hn ridge

/-- it is **not** dominant in general: three identical markers, two records, ridge 1 (n < p here; the
    6×5 corpus case of D22 is an n > p instance observed by the correspondence run) -/
theorem ztz_not_dominant_counterexample :
    ¬ GSConv.SDD 3 (matFn (ztzPlusRidge ([[1, 1, 1], [1, 1, 1]] : List (List ℚ)) 3 1)) := by
  unfold GSConv.SDD
  decide +kernel

/-- the D22 training set (two identical markers) **is** dominant, with factor `2/(2+ridge)`: for the
    ridge the ML step returns (≈ 1/22222) that is 44444/44445, so the sweep bound `K` with
    `q^K·D0 ≤ 1e-8` is of order 10⁵–10⁶ ≫ 1000 — the theorem above does not apply at the default
    `maxiter`, in agreement with `normal_equations_counterexample_default_maxiter`. -/
theorem d22_system_dominant_but_slow :
    GSConv.ContrL 2 (ztzPlusRidge ([[1, 1], [0, 0], [1, 1]] : List (List ℚ)) 2 (1/22222)) (44444/44445) ∧
    ¬ GSConv.ContrL 2 (ztzPlusRidge ([[1, 1], [0, 0], [1, 1]] : List (List ℚ)) 2 (1/22222)) (44443/44445) := by
  refine ⟨⟨by decide +kernel, by decide +kernel, by decide +kernel, by decide +kernel⟩, ?_⟩
  intro h
  have := h.row 0 (by decide)
  revert this
  decide +kernel

/-! ## 11. The Spec oracles and the model agree

`GSpec.specValues / specStat / specAlleles` (Model/GenomicSpec.lean) are the Bool oracles the driver
ops `c04.spec_values / spec_stats / spec_alleles` evaluate on the IMPLEMENTATION's outputs; they are
written index-wise from the phased genotypes, independently of the model.  Sound: they accept the
model's outputs at every tolerance `abs ≥ 0`.  Complete: at zero tolerance they accept nothing but the
model's outputs.  So "Spec true on the implementation" and "implementation = model" coincide up to
the tolerance, for every shape. -/

open SpecLink in
/-- **spec_sound (values)**: for each of the five modes (gebv, gebv_numpy, gegv, predict, predict_dom) the
    oracle accepts the model's matrix -/
theorem spec_values_sound {beta ua : List (List ℚ)} {t ploidy : ℕ} {g : List (List (List Int))}
    {mode : String} {ud X : Option (List (List ℚ))} {M : List (List ℚ)} {n p : ℕ}
    (hm : IsModel beta ua t ploidy g mode ud X M) (hv : ViewOK beta ua ud X g n p)
    (rel abs_ : ℚ) (ha : 0 ≤ abs_) :
    GSpec.specValues rel abs_ mode beta ua ud X t ploidy g (someM M) = true := by
  unfold GSpec.specValues
  rw [valueDef_eq_model hm hv]
  exact closeMat_self rel abs_ ha M

open SpecLink in
/-- **spec_complete (values)**: a matrix accepted at zero tolerance is the model's matrix -/
theorem spec_values_complete {beta ua : List (List ℚ)} {t ploidy : ℕ} {g : List (List (List Int))}
    {mode : String} {ud X : Option (List (List ℚ))} {M : List (List ℚ)} {n p : ℕ}
    (hm : IsModel beta ua t ploidy g mode ud X M) (hv : ViewOK beta ua ud X g n p)
    (out : List (List (Option ℚ))) (h : GSpec.specValues 0 0 mode beta ua ud X t ploidy g out = true) :
    out = someM M := by
  unfold GSpec.specValues at h
  rw [valueDef_eq_model hm hv] at h
  exact closeMat_zero out M h

open SpecLink in
/-- **spec_sound (statistics)**: var_A, var_G (additive and dominance), var_a, afreq, bulmer, score,
    score_dom — the oracle accepts the model's row -/
theorem spec_stats_sound {beta ua : List (List ℚ)} {ud X Y : Option (List (List ℚ))} {t ploidy : ℕ}
    {g : List (List (List Int))} {n p : ℕ} (hv : ViewOK beta ua ud X g n p) (name : String)
    (row : List (Option ℚ)) (hm : modelStat name beta ua ud X Y t ploidy g = some row)
    (rel abs_ : ℚ) (ha : 0 ≤ abs_) :
    GSpec.specStat rel abs_ name beta ua ud X Y t ploidy g row = true := by
  unfold GSpec.specStat
  rw [statDef_eq_model hv name row hm]
  exact closeORow_self rel abs_ ha row

open SpecLink in
/-- **spec_complete (statistics)** -/
theorem spec_stats_complete {beta ua : List (List ℚ)} {ud X Y : Option (List (List ℚ))} {t ploidy : ℕ}
    {g : List (List (List Int))} {n p : ℕ} (hv : ViewOK beta ua ud X g n p) (name : String)
    (row : List (Option ℚ)) (hm : modelStat name beta ua ud X Y t ploidy g = some row)
    (got : List (Option ℚ)) (h : GSpec.specStat 0 0 name beta ua ud X Y t ploidy g got = true) :
    got = row := by
  unfold GSpec.specStat at h
  rw [statDef_eq_model hv name row hm] at h
  exact closeORow_zero got row h

open SpecLink in
/-- **spec_sound (alleles)**: all twelve verdicts are true on the model's outputs -/
theorem spec_alleles_sound {ua : List (List ℚ)} {g : List (List (List Int))} {n p : ℕ}
    (h : AlleleOK ua g n p) (ploidy : ℕ) (rel abs_ : ℚ) (ha : 0 ≤ abs_) :
    ∀ c ∈ GSpec.specAlleles rel abs_ ua ploidy g (modelAlleles ua ploidy (phaseSum g)), c.2 = true := by
  rw [modelAlleles_eq_ref h ploidy]
  exact specAlleles_ref rel abs_ ha ua ploidy g

open SpecLink in
/-- **spec_complete (alleles)**: twelve true verdicts at zero tolerance force the model's outputs
    (the integer and boolean matrices are equality Specs at every tolerance) -/
theorem spec_alleles_complete {ua : List (List ℚ)} {g : List (List (List Int))} {n p : ℕ}
    (h : AlleleOK ua g n p) (ploidy : ℕ) (o : GSpec.AlleleObs)
    (hall : ∀ c ∈ GSpec.specAlleles 0 0 ua ploidy g o, c.2 = true) :
    o = modelAlleles ua ploidy (phaseSum g) := by
  rw [modelAlleles_eq_ref h ploidy]
  exact specAlleles_zero ua ploidy g o hall

/-- **spec_sound (gauss_seidel oracle `c04.spec_gs`)**: the oracle accepts what the model of `gauss_seidel`
    returns for every symmetric system with positive diagonal, every `atol`, every `maxiter` -/
theorem spec_gs_sound {n : ℕ} {A : List (List ℚ)} {b : List ℚ} (h : Square n A b) (hs : SymPosDiag n A)
    (atol : ℚ) (maxiter : ℕ) (rel : ℚ) (hr : 0 ≤ rel) :
    RSpec.specGs rel A b (gaussSeidel A b atol maxiter) = true :=
  SpecLink.specGs_sound h hs atol maxiter rel hr

/-- **spec_sound (fitted-model oracle `c04.spec_fit`) — all clauses, repaired code**: on the model's own fit
    (per-trait `rrBLUP_ML0` on the polymorphic columns, scatter of the effects, intercept = mean) *shapes*,
    *(1) intercept = training mean*, *(2) monomorphic markers exactly 0*, *(3) never worse than the all-zero
    solution* and *(4) the penalised normal equations* all evaluate to true and the verdict is `ok` — for every
    training set, all positive ridges, every `gsatol ≥ 0` and sweep limit, given the solver contract on the
    systems the fit assembles. -/
theorem spec_fit_sound (solve : List (List ℚ) → List ℚ → List ℚ) (Y Z : List (List ℚ)) (n p t : ℕ)
    (hZ : Ridge.Rect Z n p) (hYn : Y.length = n)
    (ridges : List ℚ) (hr : ∀ k, k < t → 0 < ridges.getD k 0) (atol : ℚ) (hat : 0 ≤ atol) (maxiter : ℕ)
    (hsolve : ∀ k, k < t → SolveOK ((isPoly Z p).count true) solve
        (ztzPlusRidge (selectCols (isPoly Z p) Z) ((isPoly Z p).count true) (ridges.getD k 0))
        (zty (selectCols (isPoly Z p) Z) ((isPoly Z p).count true) (center (col Y k))))
    (rel abs_ reltol : ℚ) (hrel : 0 ≤ rel) (habs : 0 ≤ abs_) (checkNE : Bool) :
    let f := SpecLink.fitML0 solve Y Z p t ridges atol maxiter
    let v := RSpec.specFit rel abs_ reltol atol Y Z p t ridges f.1 f.2 checkNE
    v.shapes = true ∧ v.intercept = true ∧ v.mono = true ∧ v.descent = true ∧ v.normalEq = true ∧
    v.ok = true :=
  SpecLink.specFit_sound solve Y Z n p t hZ hYn ridges hr atol hat maxiter hsolve rel abs_ reltol hrel habs checkNE

/-- non-vacuity: a training set with a monomorphic and a duplicated column, two traits, n = 4 > 3 polymorphic
    markers; three sweeps are far from enough, the solve step takes the direct solution and the oracle
    evaluates to `ok` with the normal-equation clause ON -/
example : (RSpec.specFit (1/1000000000) (1/1000000000000) (1/1000000) (1/100000000)
      [[1, 0], [2, 3], [4, 1], [3, 1]] [[0, 1, 2, 0], [1, 1, 2, 1], [2, 0, 2, 2], [1, 2, 2, 1]] 4 2 [1/2, 2]
      (SpecLink.fitML0 exactSolve [[1, 0], [2, 3], [4, 1], [3, 1]] [[0, 1, 2, 0], [1, 1, 2, 1], [2, 0, 2, 2], [1, 2, 2, 1]] 4 2 [1/2, 2] (1/100000000) 3).1
      (SpecLink.fitML0 exactSolve [[1, 0], [2, 3], [4, 1], [3, 1]] [[0, 1, 2, 0], [1, 1, 2, 1], [2, 0, 2, 2], [1, 2, 2, 1]] 4 2 [1/2, 2] (1/100000000) 3).2
      true).ok = true := by decide +kernel

/-- non-vacuity: the shape hypotheses hold for a concrete diploid case with dominance effects and
    covariates, and the oracle indeed evaluates to true on the model's GEGV matrix -/
example : SpecLink.ViewOK ([[1, 2], [3, 0]] : List (List ℚ)) [[1, -1], [0, 2]] (some [[1, 0], [0, 1]])
    (some [[1, 0], [1, 1], [1, 2]]) [[[0, 1], [1, 1], [0, 0]], [[1, 1], [1, 0], [0, 0]]] 3 2 :=
  ⟨⟨by decide, by decide⟩, by decide, by decide, by decide, by decide⟩

example : GSpec.specValues (1/1000000000) (1/1000000000000) "gegv" ([[1, 2], [3, 0]] : List (List ℚ))
    [[1, -1], [0, 2]] (some [[1, 0], [0, 1]]) none 2 2 [[[0, 1], [1, 1], [0, 0]], [[1, 1], [1, 0], [0, 0]]]
    (SpecLink.someM (gegvGM [[1, 2], [3, 0]] [[1, -1], [0, 2]] [[1, 0], [0, 1]] 2 2
      (phaseSum [[[0, 1], [1, 1], [0, 0]], [[1, 1], [1, 0], [0, 0]]]))) = true := by decide +kernel

example : SpecLink.AlleleOK ([[1, -1], [0, 2]] : List (List ℚ)) [[[0, 1], [1, 1], [0, 0]], [[1, 1], [1, 0], [0, 0]]] 3 2 :=
  ⟨⟨by decide, by decide⟩, by decide, by decide⟩

end C04
