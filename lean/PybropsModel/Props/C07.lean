/-
C07 — Selection protocols turn criteria into valid, correct cross configurations.
Property theorems only (helper lemmas: Lemmas/XConfig*.lean, Lemmas/SelProt*.lean).

Model: PybropsModel/Model/XConfig.lean
  `XConfig.sampleSubset / sampleInteger / sampleReal / sampleMate`  = `<Configuration>.sample_xconfig`
       (tiled_choice → reshape → outcross_shuffle → axis_shuffle, resp. tiled_choice → shuffle → xmap lookup),
       every generator draw an explicit oracle argument;
  `XConfig.xmapix`                 = core/util/array.py xmapix (triuix / triudix);
  `SelProt.sortingSubset`          = SortingSubsetOptimizationAlgorithm.minimize (the exact optimiser);
  `SelProt.moChoice`               = the multi-objective branch of `select()`.
The Bool functions `XConfig.specSubset / specContribution`, `SelProt.specTopK / specArgmax` are the very
predicates the harness evaluates on the implementation's outputs (driver ops `c07.spec*`).

Oracle validity (`ValidTiled`, `ValidArrange`, `ValidRowPerms`) says only what a numpy generator
delivers: `choice(.., replace=False)` a sub-multiset of the right size, `shuffle` a permutation.
-/
import PybropsModel.Lemmas.XConfigSample
import PybropsModel.Lemmas.XConfigReal
import PybropsModel.Lemmas.XConfigCount
import PybropsModel.Lemmas.XConfigTwoWay
import PybropsModel.Lemmas.XConfigMate
import PybropsModel.Lemmas.SelProtEquiv
import PybropsModel.Lemmas.SelProtStable
import PybropsModel.Lemmas.SelProtStablePerm
import PybropsModel.Lemmas.SelProtSpace
import PybropsModel.Lemmas.XConfigRepair
import PybropsModel.Lemmas.SelProtOracle
import PybropsModel.Lemmas.SelProtUC
set_option autoImplicit false
set_option linter.unusedSectionVars false
set_option linter.unusedVariables false

namespace C07
open XConfig SelProt

/-! ## 1. Subset decisions → cross configuration -/

/-- **Subset configuration, all clauses.**  For every duplicate-free decision, every shape and every
    sequence of generator draws: the sampled table has `ncross` rows of `nparent` entries, contains
    only members of the decision, uses any two members equally often up to one
    (each `q` or `q+1` times, `q = ⌊ncross·nparent / k⌋`), and no exchange of two entries lowers the
    number of self-pairings — after the final within-cross shuffle. -/
theorem subset_xconfig (decn : List Nat) (nc np : Nat) (rem perm : List Nat)
    (orders rowperms : List (List Nat)) (rows : Rows)
    (hnd : decn.Nodup) (vt : ValidTiled decn (nc * np) rem perm) (va : ValidArrange nc np orders rowperms)
    (h : sampleSubset decn nc np rem perm orders rowperms = .ok rows) :
    Rect nc np rows ∧ (∀ e ∈ rows.flatten, e ∈ decn) ∧
      (∀ e ∈ decn, rows.flatten.count e = nc * np / decn.length ∨
                   rows.flatten.count e = nc * np / decn.length + 1) ∧
      ExchangeOptimal nc np rows := by
  obtain ⟨hr, ho, hc⟩ := sampleSubset_facts vt va h
  refine ⟨hr, ?_, ?_, ho⟩
  · intro e he
    have hpos : 0 < rows.flatten.count e := List.count_pos_iff.mpr he
    obtain ⟨h1, h2⟩ := hc e
    by_contra hn
    have h0 : decn.count e = 0 := List.count_eq_zero.mpr hn
    rw [h0] at h1 h2
    simp at h1
    omega
  · intro e he
    obtain ⟨h1, h2⟩ := hc e
    have h1' : decn.count e = 1 := List.count_eq_one_of_mem hnd he
    rw [h1'] at h1 h2
    omega

/-- the same statement as the decidable Spec the harness runs on the implementation's `xconfig` -/
theorem subset_xconfig_spec (decn : List Nat) (nc np : Nat) (rem perm : List Nat)
    (orders rowperms : List (List Nat)) (rows : Rows)
    (hnd : decn.Nodup) (vt : ValidTiled decn (nc * np) rem perm) (va : ValidArrange nc np orders rowperms)
    (h : sampleSubset decn nc np rem perm orders rowperms = .ok rows) :
    specSubset decn nc np rows = true := by
  obtain ⟨hr, hm, hc, ho⟩ := subset_xconfig decn nc np rem perm orders rowperms rows hnd vt va h
  simp only [specSubset, Bool.and_eq_true]
  refine ⟨⟨⟨(shapeOk_iff _ _ _).mpr hr, ?_⟩, ?_⟩, (localOpt_iff _ _ _).mpr ho⟩
  · rw [List.all_eq_true]
    intro e he
    simpa using hm e he
  · rw [evenOn_iff]
    intro a ha b hb
    rcases hc a ha with h1 | h1 <;> rcases hc b hb with h2 | h2 <;> omega

/-- **what the subset Spec says** (`spec_iff`): the Bool the harness evaluates on the implementation's table
    is exactly the conjunction of the four clauses of the property -/
theorem subset_spec_iff (decn : List Nat) (nc np : Nat) (rows : Rows) :
    specSubset decn nc np rows = true ↔
      Rect nc np rows ∧ (∀ e ∈ rows.flatten, e ∈ decn) ∧
      (∀ a ∈ decn, ∀ b ∈ decn, rows.flatten.count a ≤ rows.flatten.count b + 1) ∧
      ExchangeOptimal nc np rows := by
  simp only [specSubset, Bool.and_eq_true, shapeOk_iff, evenOn_iff, localOpt_iff, List.all_eq_true,
    List.contains_iff_mem, and_assoc]

/-- **what the contribution Spec says** (`spec_iff`, integer / binary vectors): shape, support, every use count
    within one of the proportional share (in integer arithmetic `|cᵢ·Σd − N·dᵢ| ≤ Σd`), exchange-optimal -/
theorem contribution_spec_iff (decn : List Nat) (nc np : Nat) (rows : Rows) :
    specContribution (decn.map (fun (d : Nat) => (d : Rat))) nc np rows = true ↔
      Rect nc np rows ∧ (∀ i ∈ rows.flatten, i < decn.length ∧ 0 < decn.getD i 0) ∧
      (∀ i, i < decn.length →
        rows.flatten.count i * decn.sum ≤ decn.sum + nc * np * decn.getD i 0 ∧
        nc * np * decn.getD i 0 ≤ decn.sum + rows.flatten.count i * decn.sum) ∧
      ExchangeOptimal nc np rows := by
  simp only [specContribution, Bool.and_eq_true, shapeOk_iff, supportOk_cast_iff, withinOne_cast_iff,
    localOpt_iff, and_assoc]

/-- **The sampler always returns** (termination of the hill-climb, no error) when it is handed one
    more exchange order than there are slots — the score drops at every accepted exchange. -/
theorem subset_sampling_total (decn : List Nat) (nc np : Nat) (rem perm : List Nat)
    (orders rowperms : List (List Nat)) (vt : ValidTiled decn (nc * np) rem perm)
    (hn : nc * np < orders.length) :
    ∃ rows, sampleSubset decn nc np rem perm orders rowperms = .ok rows := by
  obtain ⟨flat, ht, _, hlen⟩ := tiledChoice_ok decn (nc * np) rem perm vt
  obtain ⟨rows, hr⟩ := arrange_ok (rowperms := rowperms) hlen hn
  exact ⟨rows, by simp [sampleSubset, ht, hr, bind, Except.bind]⟩

/-- **Two-way crosses never self.**  With `nparent = 2` and a decision of at least two individuals the
    sampled configuration contains no self-pairing at all: exchange-optimality is global here, because a
    surviving pair `[a, a]` would force `a` into every other cross, i.e. into more than `ncross` of the
    `2·ncross` slots, which an even split over ≥ 2 members never allows. -/
theorem subset_two_way_no_selfing (decn : List Nat) (nc : Nat) (rem perm : List Nat)
    (orders rowperms : List (List Nat)) (rows : Rows)
    (hnd : decn.Nodup) (h2 : 2 ≤ decn.length)
    (vt : ValidTiled decn (nc * 2) rem perm) (va : ValidArrange nc 2 orders rowperms)
    (h : sampleSubset decn nc 2 rem perm orders rowperms = .ok rows) :
    selfPairs rows = 0 ∧ ∀ r ∈ rows, r.Nodup := by
  obtain ⟨hr, ho, hc⟩ := sampleSubset_facts vt va h
  have hcnt : ∀ e, rows.flatten.count e ≤ nc := by
    intro e
    obtain ⟨h1, hrem⟩ := hc e
    have hle : decn.count e ≤ 1 := List.nodup_iff_count_le_one.mp hnd e
    by_cases hk : decn.length = 2
    · have hr0 : rem = [] := by
        apply List.eq_nil_of_length_eq_zero
        rw [vt.rem_len, hk]; omega
      rw [hk, hr0] at h1
      simp only [List.count_nil, Nat.add_zero] at h1
      have : nc * 2 / 2 = nc := by omega
      rw [this] at h1
      rw [h1]
      calc nc * decn.count e ≤ nc * 1 := Nat.mul_le_mul_left _ hle
        _ = nc := Nat.mul_one nc
    · have hk3 : 3 ≤ decn.length := by omega
      have hq : nc * 2 / decn.length ≤ nc * 2 / 3 := Nat.div_le_div_left hk3 (by omega)
      by_cases hn : nc = 0
      · subst hn
        have : rows = [] := List.eq_nil_of_length_eq_zero hr.1
        simp [this]
      · have hb : nc * 2 / decn.length * decn.count e ≤ nc * 2 / decn.length * 1 :=
          Nat.mul_le_mul_left _ hle
        omega
  have hz := two_way_no_selfing hr ho hcnt
  refine ⟨hz, ?_⟩
  intro r hrm
  rw [← dupCount_eq_zero_iff]
  unfold selfPairs at hz
  exact (List.sum_eq_zero_iff.mp hz) _ (List.mem_map.mpr ⟨r, hrm, rfl⟩)

-- non-vacuity: 3 members on 2×2 slots, a start with a self-pairing, two passes of the climber
example : reshape 2 2 [6, 6, 5, 7] = [[6, 6], [5, 7]] ∧
    sampleSubset [5, 6, 7] 2 2 [6] [1, 3, 0, 2] [[0, 1, 2, 3, 4, 5], [5, 4, 3, 2, 1, 0]] [[1, 0], [0, 1]]
    = .ok [[6, 5], [6, 7]] := by decide
example : ValidTiled [5, 6, 7] (2 * 2) [6] [1, 3, 0, 2] :=
  ⟨by decide, by decide, List.Sublist.subperm (by decide), by decide⟩
example : specSubset [5, 6, 7] 2 2 [[6, 5], [6, 7]] = true := by decide
example : ValidArrange 2 2 [[0, 1, 2, 3, 4, 5], [5, 4, 3, 2, 1, 0]] [[1, 0], [0, 1]] :=
  ⟨by decide, by unfold ValidPerms; decide, by unfold ValidRowPerms; decide⟩
example : ([5, 6, 7] : List Nat).Nodup ∧ 2 ≤ ([5, 6, 7] : List Nat).length ∧ selfPairs [[6, 5], [6, 7]] = 0 := by decide

/-! ## 2. Integer / binary contribution vectors -/

/-- **Integer configuration.**  Shape, support (only candidates with a positive contribution),
    exchange-optimality, and the use count the code really guarantees: whole tiles give `q·dᵢ`, the
    remainder adds between `0` and `dᵢ` (`q = ⌊N / Σd⌋`). -/
theorem integer_xconfig (decn : List Nat) (nc np : Nat) (rem perm : List Nat)
    (orders rowperms : List (List Nat)) (rows : Rows)
    (vt : ValidTiled (options decn) (nc * np) rem perm) (va : ValidArrange nc np orders rowperms)
    (h : sampleInteger decn nc np rem perm orders rowperms = .ok rows) :
    Rect nc np rows ∧ (∀ i ∈ rows.flatten, i < decn.length ∧ 0 < decn.getD i 0) ∧
      (∀ i, (nc * np / decn.sum) * decn.getD i 0 ≤ rows.flatten.count i ∧
            rows.flatten.count i ≤ (nc * np / decn.sum + 1) * decn.getD i 0) ∧
      ExchangeOptimal nc np rows := by
  obtain ⟨hr, ho, hc⟩ := sampleSubset_facts vt va h
  refine ⟨hr, ?_, ?_, ho⟩
  · intro i hi
    have hpos : 0 < rows.flatten.count i := List.count_pos_iff.mpr hi
    obtain ⟨h1, h2⟩ := hc i
    rw [count_options] at h1 h2
    have hd : 0 < decn.getD i 0 := by
      by_contra hn
      have : decn.getD i 0 = 0 := by omega
      rw [this] at h1 h2
      simp at h1; omega
    refine ⟨?_, hd⟩
    by_contra hn
    simp [List.getD_eq_getElem?_getD, List.getElem?_eq_none (Nat.le_of_not_lt hn)] at hd
  · intro i
    obtain ⟨h1, h2⟩ := hc i
    rw [count_options, length_options] at h1
    rw [count_options] at h2
    constructor
    · omega
    · rw [Nat.add_mul]; omega

/-- **Exact characterisation of the integer use counts** (as tight as the code): candidate `i` is used
    `q·dᵢ + rᵢ` times, where `rᵢ` is the number of times the remainder draw
    `rng.choice(options, N mod Σd, replace=False)` returned `i`; `rᵢ ≤ min(dᵢ, N mod Σd)` and the `rᵢ`
    add up to `N mod Σd`. -/
theorem integer_remainder_exact (decn : List Nat) (nc np : Nat) (rem perm : List Nat)
    (orders rowperms : List (List Nat)) (rows : Rows)
    (vt : ValidTiled (options decn) (nc * np) rem perm) (va : ValidArrange nc np orders rowperms)
    (h : sampleInteger decn nc np rem perm orders rowperms = .ok rows) :
    (∀ i, rows.flatten.count i = (nc * np / decn.sum) * decn.getD i 0 + rem.count i ∧
          rem.count i ≤ min (decn.getD i 0) (nc * np % decn.sum)) ∧
      ((List.range decn.length).map (fun i => rem.count i)).sum = nc * np % decn.sum := by
  obtain ⟨_, _, hc⟩ := sampleSubset_facts vt va h
  have hlen : rem.length = nc * np % decn.sum := by rw [vt.rem_len, length_options]
  constructor
  · intro i
    obtain ⟨h1, h2⟩ := hc i
    rw [count_options, length_options] at h1
    rw [count_options] at h2
    refine ⟨h1, le_min h2 ?_⟩
    rw [← hlen]; exact List.count_le_length
  · rw [sum_count_range rem decn.length, hlen]
    intro x hx
    have hm : x ∈ options decn := vt.rem_sub.subset hx
    have : 0 < (options decn).count x := List.count_pos_iff.mpr hm
    rw [count_options] at this
    by_contra hn
    simp [List.getD_eq_getElem?_getD, List.getElem?_eq_none (Nat.le_of_not_lt hn)] at this

/-- **… and every such remainder vector occurs** (this is D20): for any `r` with `rᵢ ≤ dᵢ` and
    `Σr = N mod Σd` there is a legitimate draw after which candidate `i` is used exactly `q·dᵢ + rᵢ`
    times — e.g. `r = (0, 4)` for `d = (4, 4)`, `N = 4`, far from the proportional share. -/
theorem integer_remainder_attained (decn r : List Nat) (nc np : Nat)
    (hS : 0 < decn.sum) (hl : r.length = decn.length) (hle : ∀ i, r.getD i 0 ≤ decn.getD i 0)
    (hsum : r.sum = nc * np % decn.sum) :
    ∃ rem, ValidTiled (options decn) (nc * np) rem (List.range (nc * np)) ∧
      ∀ (orders rowperms : List (List Nat)) (rows : Rows), ValidArrange nc np orders rowperms →
        sampleInteger decn nc np rem (List.range (nc * np)) orders rowperms = .ok rows →
        ∀ i, rows.flatten.count i = (nc * np / decn.sum) * decn.getD i 0 + r.getD i 0 := by
  obtain ⟨hsub, hlen, hcnt⟩ := remainder_vector_valid decn r hl hle
  have vt : ValidTiled (options decn) (nc * np) (Np.repeatEach r (List.range r.length)) (List.range (nc * np)) :=
    ⟨by rw [← List.length_pos_iff, length_options]; exact hS,
     by rw [hlen, length_options, hsum], hsub, List.Perm.refl _⟩
  refine ⟨_, vt, ?_⟩
  intro orders rowperms rows va h i
  rw [((integer_remainder_exact decn nc np _ _ orders rowperms rows vt va h).1 i).1, hcnt i]

/-- **D20, exact characterisation of the integer remainder draw.**  A vector of use counts `c` can come out
    of `IntegerSelectionConfiguration.sample_xconfig` (for some legitimate sequence of generator draws) if and
    only if `c = q·d + r` for a remainder vector `r` with `rᵢ ≤ dᵢ` and `Σr = N mod Σd` (`q = ⌊N/Σd⌋`,
    `N = ncross·nparent`).  Nothing ties `rᵢ` to the share `N·dᵢ/Σd`: that is the defect. -/
theorem integer_use_counts_iff (decn c : List Nat) (nc np : Nat) (hnp : 0 < np) (hS : 0 < decn.sum)
    (hc : c.length = decn.length) :
    (∃ rem perm orders rowperms rows, ValidTiled (options decn) (nc * np) rem perm ∧
        ValidArrange nc np orders rowperms ∧
        sampleInteger decn nc np rem perm orders rowperms = .ok rows ∧
        ∀ i, i < decn.length → rows.flatten.count i = c.getD i 0) ↔
      ∃ r : List Nat, r.length = decn.length ∧ (∀ i, r.getD i 0 ≤ decn.getD i 0) ∧
        r.sum = nc * np % decn.sum ∧
        ∀ i, i < decn.length → c.getD i 0 = (nc * np / decn.sum) * decn.getD i 0 + r.getD i 0 := by
  constructor
  · rintro ⟨rem, perm, orders, rowperms, rows, vt, va, h, hcnt⟩
    obtain ⟨hex, hsum⟩ := integer_remainder_exact decn nc np rem perm orders rowperms rows vt va h
    refine ⟨(List.range decn.length).map (fun i => rem.count i), by simp, ?_, hsum, ?_⟩
    · intro i
      by_cases hi : i < decn.length
      · have : ((List.range decn.length).map (fun i => rem.count i)).getD i 0 = rem.count i := by
          simp [List.getD_eq_getElem?_getD, List.getElem?_map, List.getElem?_range hi]
        rw [this]
        exact le_trans (hex i).2 (min_le_left _ _)
      · have : ((List.range decn.length).map (fun i => rem.count i)).getD i 0 = 0 := by
          simp [List.getD_eq_getElem?_getD, List.getElem?_map, List.getElem?_eq_none (show (List.range decn.length).length ≤ i by simpa using Nat.le_of_not_lt hi)]
        rw [this]; exact Nat.zero_le _
    · intro i hi
      have : ((List.range decn.length).map (fun i => rem.count i)).getD i 0 = rem.count i := by
        simp [List.getD_eq_getElem?_getD, List.getElem?_map, List.getElem?_range hi]
      rw [this, ← hcnt i hi]
      exact (hex i).1
  · rintro ⟨r, hl, hle, hsum, hcr⟩
    obtain ⟨rem, vt, hatt⟩ := integer_remainder_attained decn r nc np hS hl hle hsum
    -- enough exchange orders for the hill-climb to stop, identity row permutations
    let orders : List (List Nat) := List.replicate (nc * np + 1) (List.range (exchPairs (nc * np)).length)
    let rowperms : List (List Nat) := List.replicate nc (List.range np)
    have va : ValidArrange nc np orders rowperms := by
      refine ⟨hnp, ?_, ?_⟩
      · intro perm hp
        rw [List.mem_replicate] at hp
        rw [hp.2]
      · refine ⟨by simp [rowperms], ?_⟩
        intro perm hp
        rw [List.mem_replicate] at hp
        rw [hp.2]
    obtain ⟨rows, hrows⟩ := subset_sampling_total (options decn) nc np rem (List.range (nc * np)) orders rowperms vt
      (by simp [orders])
    refine ⟨rem, List.range (nc * np), orders, rowperms, rows, vt, va, hrows, ?_⟩
    intro i hi
    rw [hatt orders rowperms rows va hrows i, hcr i hi]

/-- when the contributions sum to a divisor of the number of slots the shares are met exactly and the
    configuration meets the whole Spec.

    FULL STATEMENT (false of the as-is model, see `integer_share_counterexample`):
      ∀ decn with Σdecn > 0, valid draws: `specContribution (decn as rationals) nc np rows = true`,
      i.e. every use count is within one of `ncross·nparent·dᵢ/Σd`. -/
theorem integer_share_partial (decn : List Nat) (nc np : Nat) (rem perm : List Nat)
    (orders rowperms : List (List Nat)) (rows : Rows)
    (vt : ValidTiled (options decn) (nc * np) rem perm) (va : ValidArrange nc np orders rowperms)
    (hdiv : (nc * np) % decn.sum = 0)
    (h : sampleInteger decn nc np rem perm orders rowperms = .ok rows) :
    specContribution (decn.map (fun (d : Nat) => (d : Rat))) nc np rows = true := by
  obtain ⟨hr, hs, _, ho⟩ := integer_xconfig decn nc np rem perm orders rowperms rows vt va h
  obtain ⟨_, _, hc⟩ := sampleSubset_facts vt va h
  have hrem : rem = [] := by
    apply List.eq_nil_of_length_eq_zero
    rw [vt.rem_len, length_options, hdiv]
  simp only [specContribution, Bool.and_eq_true]
  refine ⟨⟨⟨(shapeOk_iff _ _ _).mpr hr, (supportOk_cast_iff _ _).mpr hs⟩, ?_⟩, (localOpt_iff _ _ _).mpr ho⟩
  rw [withinOne_cast_iff]
  intro i _
  obtain ⟨h1, _⟩ := hc i
  rw [count_options, length_options, hrem] at h1
  simp only [List.count_nil, Nat.add_zero] at h1
  have hN : nc * np = decn.sum * (nc * np / decn.sum) := by
    have := Nat.div_add_mod (nc * np) decn.sum
    omega
  rw [h1]
  have e : nc * np / decn.sum * decn.getD i 0 * decn.sum = nc * np * decn.getD i 0 := by
    conv_rhs => rw [hN]
    ring
  rw [e]
  omega

/-- **Binary configuration** (every contribution 0 or 1): the whole Spec holds — shares within one. -/
theorem binary_xconfig_spec (decn : List Nat) (nc np : Nat) (rem perm : List Nat)
    (orders rowperms : List (List Nat)) (rows : Rows)
    (hbin : ∀ d ∈ decn, d ≤ 1)
    (vt : ValidTiled (options decn) (nc * np) rem perm) (va : ValidArrange nc np orders rowperms)
    (h : sampleInteger decn nc np rem perm orders rowperms = .ok rows) :
    specContribution (decn.map (fun (d : Nat) => (d : Rat))) nc np rows = true := by
  obtain ⟨hr, hs, _, ho⟩ := integer_xconfig decn nc np rem perm orders rowperms rows vt va h
  obtain ⟨_, _, hc⟩ := sampleSubset_facts vt va h
  simp only [specContribution, Bool.and_eq_true]
  refine ⟨⟨⟨(shapeOk_iff _ _ _).mpr hr, (supportOk_cast_iff _ _).mpr hs⟩, ?_⟩, (localOpt_iff _ _ _).mpr ho⟩
  rw [withinOne_cast_iff]
  intro i hi
  obtain ⟨h1, h2⟩ := hc i
  rw [count_options, length_options] at h1
  rw [count_options] at h2
  have hd : decn.getD i 0 ≤ 1 := by
    have : decn.getD i 0 = decn[i] := by simp [List.getD_eq_getElem?_getD, List.getElem?_eq_getElem hi]
    rw [this]; exact hbin _ (List.getElem_mem hi)
  have hS : 0 < decn.sum := by
    have := vt.nonempty
    rw [← List.length_pos_iff, length_options] at this
    exact this
  have hre : rem.length < decn.sum := by
    rw [vt.rem_len, length_options]; exact Nat.mod_lt _ hS
  have hN := Nat.div_add_mod (nc * np) decn.sum
  have hrl : rem.length = nc * np % decn.sum := by rw [vt.rem_len, length_options]
  have hrc : rem.count i ≤ rem.length := List.count_le_length
  generalize nc * np / decn.sum = q at *
  generalize decn.sum = S at *
  generalize decn.getD i 0 = d at *
  generalize rem.count i = r at *
  generalize rows.flatten.count i = c at *
  generalize nc * np = N at *
  subst h1
  have hd' : d = 0 ∨ d = 1 := by omega
  rcases hd' with rfl | rfl
  · have : r = 0 := by omega
    subst this
    simp
  · have hr' : r = 0 ∨ r = 1 := by omega
    rcases hr' with rfl | rfl
    · constructor
      · nlinarith
      · nlinarith
    · constructor
      · nlinarith
      · nlinarith

/-- **D20.**  Contributions (4,4) on 2×2 slots: the remainder draw `rng.choice(options, 4, replace=False)`
    may return four copies of individual 1; the configuration is then [[1,1],[1,1]] — individual 0 is
    never used although its proportional share is 2 (reproduced on the real code, RandomState(3)). -/
theorem integer_share_counterexample :
    sampleInteger [4, 4] 2 2 [1, 1, 1, 1] [0, 1, 2, 3] [[0, 1, 2, 3, 4, 5]] [[0, 1], [0, 1]] = .ok [[1, 1], [1, 1]] ∧
    specContribution ([4, 4].map (fun (d : Nat) => (d : Rat))) 2 2 [[1, 1], [1, 1]] = false ∧
    withinOne ([4, 4].map (fun (d : Nat) => (d : Rat))) 4 [1, 1, 1, 1] = false := by decide +kernel

-- `integer_use_counts_iff` on d = (4,4), 2x2 slots: the count vector (0,4) satisfies the right-hand side with r = (0,4)
example : ∃ r : List Nat, r.length = ([4, 4] : List Nat).length ∧ (∀ i, r.getD i 0 ≤ ([4, 4] : List Nat).getD i 0) ∧
    r.sum = 2 * 2 % ([4, 4] : List Nat).sum ∧
    ∀ i, i < ([4, 4] : List Nat).length →
      ([0, 4] : List Nat).getD i 0 = (2 * 2 / ([4, 4] : List Nat).sum) * ([4, 4] : List Nat).getD i 0 + r.getD i 0 := by
  refine ⟨[0, 4], by decide, ?_, by decide, ?_⟩
  · intro i
    match i with
    | 0 | 1 => decide
    | i + 2 => simp
  · intro i hi
    match i, hi with
    | 0, _ | 1, _ => decide
-- the hypotheses of `integer_remainder_attained` are met by d = (4,4), N = 4, r = (0,4)
example : 0 < ([4, 4] : List Nat).sum ∧ ([0, 4] : List Nat).length = ([4, 4] : List Nat).length ∧
    ([0, 4] : List Nat).sum = 2 * 2 % ([4, 4] : List Nat).sum ∧
    (∀ i < 3, ([0, 4] : List Nat).getD i 0 ≤ ([4, 4] : List Nat).getD i 0) := by decide
-- the draw of the counterexample is a legitimate one, and the partial theorem's hypotheses are satisfiable
example : ValidTiled (options [4, 4]) (2 * 2) [1, 1, 1, 1] [0, 1, 2, 3] :=
  ⟨by decide, by decide, List.Sublist.subperm (by decide), by decide⟩
example : (2 * 2) % ([1, 0, 3] : List Nat).sum = 0 ∧ options [1, 0, 3] = [0, 2, 2, 2] := by decide
example : (∀ d ∈ ([0, 1, 0, 1] : List Nat), d ≤ 1) ∧
    sampleInteger [0, 1, 0, 1] 2 2 [] [0, 2, 1, 3] [[0, 1, 2, 3, 4, 5], [0, 1, 2, 3, 4, 5]] [[0, 1], [1, 0]]
      = .ok [[3, 1], [3, 1]] := by decide

/-! ## 3. Real contribution vectors: stochastic universal sampling inside the model -/

/-- **Real configuration, full strength.**  `sampleRealSus` = `RealSelectionConfiguration.sample_xconfig`
    with C17's model of the repaired sampler inside.  For every non-negative weight vector with positive
    sum, every shape, every tie order of `argsort`, **every offset in `[0, spacing)`** (0 included) and every
    shuffle / exchange order the generator can deliver — the empty request `ncross = 0` included (C17's
    theorems hold for every size since fix f1943417) —: the configuration meets the whole Spec
    (shape, only candidates of positive weight, every use count within one of the proportional share,
    exchange-optimal), and in fact every candidate is used the floor or the ceiling of its share. -/
theorem real_xconfig (w : List ℚ) (nc np : Nat) (sigma : List Nat) (o : ℚ) (perm : List Nat)
    (orders rowperms : List (List Nat)) (rows : Rows)
    (hv : C17.SusValid w) (va : ValidArrange nc np orders rowperms)
    (h : sampleRealSus w nc np sigma o perm orders rowperms = .ok rows) :
    specContribution w nc np rows = true ∧
      ∀ i (hi : i < w.length),
        (rows.flatten.count i : ℤ) = ⌊((nc * np : ℕ) : ℚ) * w[i] / Np.sum w⌋ ∨
        (rows.flatten.count i : ℤ) = ⌈((nc * np : ℕ) : ℚ) * w[i] / Np.sum w⌉ := by
  obtain ⟨hnn, hT⟩ := hv
  obtain ⟨sel, hs, hr⟩ := sampleRealSus_split h
  have hlen : sel.length = nc * np := by
    rw [C17.sus_length w [nc, np] sigma perm sel o hs, prod_pair]
  have hfc := fun i hi => C17.sus_floor_ceil w [nc, np] sigma perm sel o hnn hT hs i hi
  simp only [prod_pair] at hfc
  have hsup : supportOk w sel = true := by
    simp only [supportOk, List.all_eq_true, Bool.and_eq_true, decide_eq_true_eq]
    intro i hi
    have hil := C17.sus_members w [nc, np] sigma perm sel o hnn hT hs i hi
    refine ⟨hil, ?_⟩
    have hg : w.getD i 0 = w[i] := by simp [hil]
    rw [hg]
    rcases lt_or_eq_of_le (hnn _ (List.getElem_mem hil)) with hpos | hz
    · exact hpos
    · exact absurd hi (C17.sus_zero_weight_never_selected w [nc, np] sigma perm sel o hnn hT hs i hil hz.symm)
  have hshare := withinOne_of_floor_ceil w (nc * np) sel hT hfc
  refine ⟨sampleReal_spec_of_contract w sel nc np orders rowperms rows hlen hsup hshare va hr, ?_⟩
  intro i hi
  rw [(sampleReal_perm sel nc np orders rowperms rows hlen va hr).count_eq]
  exact hfc i hi

/-- **The real-valued sampler always returns**: the sampler never fails (C17) and the hill-climb
    terminates, for every valid input and every draw. -/
theorem real_sampling_total (w : List ℚ) (nc np : Nat) (sigma : List Nat) (o : ℚ) (perm : List Nat)
    (orders rowperms : List (List Nat))
    (hv : C17.SusValid w) (ho : C17.SusOracle w [nc, np] sigma o perm)
    (hn : nc * np < orders.length) :
    ∃ rows, sampleRealSus w nc np sigma o perm orders rowperms = .ok rows := by
  obtain ⟨sel, hs, hl⟩ := C17.sus_returns_requested_number w [nc, np] sigma perm o hv ho
  rw [prod_pair] at hl
  obtain ⟨rows, hr⟩ := arrange_ok (rowperms := rowperms) hl hn
  refine ⟨rows, ?_⟩
  unfold sampleRealSus
  rw [hs]
  show sampleReal sel nc np orders rowperms = .ok rows
  unfold sampleReal
  rw [if_neg (by simpa using hl)]
  exact hr

-- non-vacuity: weights (1/2, 0, 1/4, 1/4) on 2×2 slots, offset 1/16 of a spacing 1/4; and offset exactly 0
example : sampleRealSus ([1/2, 0, 1/4, 1/4] : List ℚ) 2 2 [0, 3, 2, 1] (1/16) [2, 0, 3, 1]
    [[0, 1, 2, 3, 4, 5], [0, 1, 2, 3, 4, 5]] [[0, 1], [1, 0]] = .ok [[3, 0], [0, 2]] := by decide +kernel
example : C17.SusValid ([1/2, 0, 1/4, 1/4] : List ℚ) ∧
    C17.SusOracle ([1/2, 0, 1/4, 1/4] : List ℚ) [2, 2] [0, 3, 2, 1] (1/16) [2, 0, 3, 1] ∧
    C17.SusOracle ([1/2, 0, 1/4, 1/4] : List ℚ) [2, 2] [0, 3, 2, 1] 0 [2, 0, 3, 1] := by
  unfold C17.SusValid C17.SusOracle
  refine ⟨⟨by decide +kernel, by decide +kernel⟩,
    ⟨by decide, by decide +kernel, fun _ => ⟨by decide +kernel, by decide +kernel⟩, by decide⟩,
    ⟨by decide, by decide +kernel, fun _ => ⟨by decide +kernel, by decide +kernel⟩, by decide⟩⟩
-- the empty request (ncross = 0) is covered as well: no draw, empty configuration
example : sampleRealSus ([1/2, 0, 1/4, 1/4] : List ℚ) 0 2 [0, 3, 2, 1] 0 [] [[]] [] = .ok [] ∧
    C17.SusOracle ([1/2, 0, 1/4, 1/4] : List ℚ) [0, 2] [0, 3, 2, 1] 0 [] := by
  unfold C17.SusOracle
  exact ⟨by decide +kernel, by decide, by decide +kernel, fun h => absurd h (by decide), by decide⟩
-- a sampler result of the wrong length (what the sampler returned before fix fc545079 when the offset
-- was within ulps of the spacing, D7) is the code's reshape `ValueError`
example : sampleReal [2, 1] 3 1 [] [[0], [0], [0]] = .error "value" := by decide

/-! ## 4. Mate-selection configurations and cross maps -/

/-- **Cross map.**  `xmapix(ntaxa, nparent, unique_parents)` lists exactly the candidate crosses with
    parents in ascending order (strictly ascending when parents must be unique) below `ntaxa` … -/
theorem xmapix_mem (ntaxa nparent : Nat) (unique : Bool) (t : List Nat) :
    t ∈ xmapix ntaxa nparent unique ↔
      t.length = nparent ∧ t.Pairwise (Step unique) ∧ ∀ x ∈ t, x < ntaxa :=
  mem_xmapix ntaxa nparent unique t

/-- … each exactly once, so a decision index determines its cross and vice versa. -/
theorem xmapix_nodup (ntaxa nparent : Nat) (unique : Bool) : (xmapix ntaxa nparent unique).Nodup :=
  nodup_triuFrom unique ntaxa nparent 0

/-- **Size of the decision space of mate selection**: `C(ntaxa, nparent)` candidate crosses with unique
    parents, the multiset coefficient `C(ntaxa + nparent - 1, nparent)` when selfing is allowed. -/
theorem xmapix_card (ntaxa nparent : Nat) :
    (xmapix ntaxa nparent true).length = ntaxa.choose nparent ∧
    (xmapix ntaxa nparent false).length = (ntaxa + nparent - 1).choose nparent := by
  unfold xmapix
  rw [length_triuFrom_strict, length_triuFrom_nonstrict, Nat.multichoose_eq]
  simp

/-- **Subset mate selection.**  Every cross of the configuration is the map row of a member of the
    decision, there are `ncross` of them, and any two members are used equally often up to one. -/
theorem mate_subset_xconfig (decn : List Nat) (xmap : Rows) (nc : Nat) (rem perm perm2 : List Nat) (rows : Rows)
    (hnd : decn.Nodup) (vt : ValidTiled decn nc rem perm) (hp2 : perm2.Perm (List.range nc))
    (h : sampleMate decn xmap nc rem perm perm2 = .ok rows) :
    ∃ out : List Nat, rows = out.map (fun d => xmap.getD d []) ∧ out.length = nc ∧
      (∀ d ∈ out, d ∈ decn ∧ d < xmap.length) ∧
      (∀ d ∈ decn, out.count d = nc / decn.length ∨ out.count d = nc / decn.length + 1) := by
  obtain ⟨out, ht, hl⟩ := sampleMate_split h
  obtain ⟨_, ht', _, hlen⟩ := tiledChoice_ok decn nc rem perm vt
  rw [ht] at ht'; cases ht'
  have hperm : (Np.take perm2 out).Perm out := take_perm out perm2 (by rw [hlen]; exact hp2)
  obtain ⟨e1, e2⟩ := lookup_ok xmap _ rows hl
  refine ⟨Np.take perm2 out, e1, by rw [hperm.length_eq, hlen], ?_, ?_⟩
  · intro d hd
    exact ⟨tiledChoice_mem decn nc rem perm out vt ht d (hperm.mem_iff.mp hd), e2 d hd⟩
  · intro d hd
    rw [hperm.count_eq]
    obtain ⟨h1, h2⟩ := tiledChoice_count decn nc rem perm out vt ht d
    have h1' : decn.count d = 1 := List.count_eq_one_of_mem hnd hd
    rw [h1'] at h1 h2
    omega

example : (xmapix 4 2 true).length = Nat.choose 4 2 ∧ (xmapix 3 2 false).length = Nat.choose (3 + 2 - 1) 2 := by decide
example : xmapix 4 2 true = [[0, 1], [0, 2], [0, 3], [1, 2], [1, 3], [2, 3]] ∧
    xmapix 3 2 false = [[0, 0], [0, 1], [0, 2], [1, 1], [1, 2], [2, 2]] := by decide
example : sampleMate [5, 0, 3] (xmapix 4 2 true) 4 [0] [3, 0, 1, 2] [1, 0, 3, 2]
    = .ok [[2, 3], [0, 1], [1, 2], [0, 1]] := by decide

/-- the Spec the harness evaluates on a subset mate-selection configuration is met by the model (`spec_sound`),
    for every cross map without repeated rows whose rows have `nparent` entries — in particular for the
    protocols' own map `xmapix ntaxa nparent unique` -/
theorem mate_subset_xconfig_spec (decn : List Nat) (xmap : Rows) (nc np : Nat) (rem perm perm2 : List Nat) (rows : Rows)
    (hx : xmap.Nodup) (hr : ∀ r ∈ xmap, r.length = np)
    (hnd : decn.Nodup) (vt : ValidTiled decn nc rem perm) (hp2 : perm2.Perm (List.range nc))
    (h : sampleMate decn xmap nc rem perm perm2 = .ok rows) :
    specMateSubset decn xmap nc np rows = true := by
  obtain ⟨out, e, hl, hm, hc⟩ := mate_subset_xconfig decn xmap nc rem perm perm2 rows hnd vt hp2 h
  rw [e]
  exact specMateSubset_of decn xmap nc np out hx hr hl hm hc

theorem mate_subset_xconfig_spec_xmapix (decn : List Nat) (ntaxa nc np : Nat) (unique : Bool)
    (rem perm perm2 : List Nat) (rows : Rows)
    (hnd : decn.Nodup) (vt : ValidTiled decn nc rem perm) (hp2 : perm2.Perm (List.range nc))
    (h : sampleMate decn (xmapix ntaxa np unique) nc rem perm perm2 = .ok rows) :
    specMateSubset decn (xmapix ntaxa np unique) nc np rows = true :=
  mate_subset_xconfig_spec decn _ nc np rem perm perm2 rows (xmapix_nodup ntaxa np unique)
    (xmapix_row_length ntaxa np unique) hnd vt hp2 h

/-- **The decision space of a mate-selection problem covers the whole cross map.**  `problem()` offers
    `numpy.arange(len(xmap))` to the optimiser; every admissible candidate cross — every ascending
    `nparent`-tuple over the population, `C(n,d)` resp. `C(n+d-1,d)` of them — is the map row of a member of
    that space, and the space meets the decision-space Spec (bounds of length `ndecn`, each candidate once). -/
theorem mate_problem_space_covers_cross_map (ntaxa nparent ncross : Nat) (unique : Bool) :
    specCover (xmapix ntaxa nparent unique) (xmapix ntaxa nparent unique)
        (subsetSpace (xmapix ntaxa nparent unique).length ncross).space = true ∧
      specSpace true (xmapix ntaxa nparent unique).length
        (subsetSpace (xmapix ntaxa nparent unique).length ncross) = true :=
  ⟨specCover_self _, subsetSpace_spec _ _⟩

/-- … and nothing less does: a decision space that is a proper prefix `arange(m)` of the cross map
    (e.g. the closed form `C(n,d)+n` for `d ≥ 3` with repeated parents allowed, seeded change C07-b1)
    fails the coverage Spec, whatever the population. -/
theorem mate_problem_space_prefix_does_not_cover (ntaxa nparent : Nat) (unique : Bool) (m : Nat)
    (hm : m < (xmapix ntaxa nparent unique).length) :
    specCover (xmapix ntaxa nparent unique) (xmapix ntaxa nparent unique) (List.range m) = false := by
  apply specCover_prefix_false _ m hm
  intro i j hi hj hp
  have hsorted : ∀ t ∈ xmapix ntaxa nparent unique, t.Pairwise (· ≤ ·) := by
    intro t ht
    have := ((xmapix_mem ntaxa nparent unique t).mp ht).2.1
    refine this.imp ?_
    intro a b hab
    unfold Step at hab
    split at hab
    · exact Nat.le_of_lt hab
    · exact hab
  have he : (xmapix ntaxa nparent unique)[i] = (xmapix ntaxa nparent unique)[j] :=
    List.Perm.eq_of_pairwise (fun a b _ _ h1 h2 => Nat.le_antisymm h1 h2)
      (hsorted _ (List.getElem_mem hi)) (hsorted _ (List.getElem_mem hj)) hp
  exact ((xmapix_nodup ntaxa nparent unique).getElem_inj_iff).mp he

example : (xmapix 4 3 false).length = 20 ∧ Nat.choose 4 3 + 4 = 8 ∧
    specCover (xmapix 4 3 false) (xmapix 4 3 false) (List.range 8) = false ∧
    specCover (xmapix 4 3 false) (xmapix 4 3 false) (List.range 20) = true := by decide
example : specMateSubset [5, 0, 3] (xmapix 4 2 true) 4 2 [[2, 3], [0, 1], [1, 2], [0, 1]] = true := by decide

/-! ## 5. The exact optimiser: truncation selection -/

section truncation
variable {α : Type} [LinearOrder α]

/-- **Truncation is exact** (ties included).  The sorting optimiser returns `min k n` distinct valid
    candidates and no unchosen candidate has a strictly smaller objective than a chosen one. -/
theorem truncation_exact (obj : List α) (k : Nat) : TopK obj k (sortingSubset obj k) :=
  sortingSubset_topK obj k

/-- the Spec the harness evaluates on the implementation's decision is met by the model -/
theorem truncation_spec (obj : List α) (k : Nat) : specTopK obj k (sortingSubset obj k) = true :=
  (specTopK_iff obj k _).mpr (sortingSubset_topK obj k)

/-- the Spec means what it says -/
theorem truncation_spec_iff (obj : List α) (k : Nat) (S : List Nat) : specTopK obj k S = true ↔ TopK obj k S :=
  specTopK_iff obj k S

/-- **Permutation / relabelling, ties allowed.**  Presenting the same candidates in another order
    selects candidates with exactly the same criterion values (as ascending lists). -/
theorem truncation_perm_values (obj obj' : List α) (k : Nat) (h : obj'.Perm obj) :
    Np.take (sortingSubset obj' k) obj' = Np.take (sortingSubset obj k) obj := by
  rw [chosen_values, chosen_values, sorted_values_congr obj obj' h]

/-- **The exact choice, ties included.**  `argsort` in the model is the stable sort: candidates are ranked by
    (criterion value, position) lexicographically and the first `k` are taken — every chosen candidate
    precedes every unchosen one in that order.  No hypothesis on the values. -/
theorem truncation_stable_exact (obj : List α) (k : Nat) : StableTopK obj k (sortingSubset obj k) :=
  sortingSubset_stableTopK obj k

/-- … and that determines the choice completely: any set with the stable top-k property has the same
    members as the optimiser's decision (the uniqueness statement WITHOUT the distinctness hypothesis of
    `truncation_unique_partial`; with ties the tie-break by position is what singles the set out). -/
theorem truncation_stable_unique (obj : List α) (k : Nat) (S : List Nat) (hS : StableTopK obj k S) :
    ∀ i, i ∈ S ↔ i ∈ sortingSubset obj k :=
  stableTopK_unique obj k S _ hS (sortingSubset_stableTopK obj k)

/-- **Truncation is exact whatever order numpy's (unstable) argsort returns tied candidates in.**  The optimiser
    with `obj.argsort(0)` as an oracle input `sigma`: for EVERY permutation `sigma` of the candidates along which
    the objective values do not decrease, the first `k` positions are a best-`k` set.  (The driver validates the
    recorded `sigma` with `validArgsort` — `argsort_oracle_sound` — so the model's decision equals the
    implementation's exactly, ties included.) -/
theorem truncation_exact_any_argsort (obj : List α) (sigma : List Nat) (k : Nat) (v : ValidArgsort obj sigma) :
    TopK obj k (sortingSubsetWith sigma k) :=
  sortingSubsetWith_topK obj sigma k v

/-- the Bool check the driver applies to the recorded argsort implies the hypothesis of
    `truncation_exact_any_argsort` -/
theorem argsort_oracle_sound (obj : List α) (sigma : List Nat) (h : validArgsort obj sigma = true) :
    ValidArgsort obj sigma :=
  validArgsort_sound obj sigma h

/-- **Permutation / relabelling, ties allowed, in terms of individuals.**  Present the candidates in the
    order `π` (`obj' i = obj (π i)`): mapped back through `π`, the decision taken on the permuted population
    is again a best-`k` set of the original population (which one among tied candidates depends on their
    positions — see `truncation_perm_ties_counterexample`). -/
theorem truncation_perm_image_topK (obj : List α) (k : Nat) (pi : List Nat)
    (hpi : pi.Perm (List.range obj.length)) :
    TopK obj k ((sortingSubset (Np.take pi obj) k).map (fun i => pi.getD i 0)) :=
  image_topK obj k pi hpi _ (sortingSubset_topK (Np.take pi obj) k)

/-- with pairwise-distinct criterion values *the* best-k set is unique …

    FULL STATEMENT (false with ties, see `truncation_unique_counterexample`): the same without `hinj`;
    the full-strength replacement is `truncation_stable_unique`. -/
theorem truncation_unique_partial (obj : List α) (k : Nat) (S : List Nat)
    (hinj : ∀ (i j : Nat) (a : α), obj[i]? = some a → obj[j]? = some a → i = j)
    (hS : TopK obj k S) : ∀ i, i ∈ S ↔ i ∈ sortingSubset obj k :=
  topK_unique obj k S _ hinj hS (sortingSubset_topK obj k)

/-- … and a permutation `π` of the candidates (`obj' i = obj (π i)`) maps the choice to its image — ties
    allowed, provided `π` keeps candidates with EQUAL criterion values in their relative order (the weakest
    hypothesis under which this can hold for a position-based tie-break; vacuous when all values differ).

    FULL STATEMENT (false when `π` reverses a tie, see `truncation_perm_ties_counterexample`): the same
    without `hmono`.  What holds for every `π` is `truncation_perm_values` (same criterion values) and
    `truncation_perm_image_topK` (the image is again a best-`k` set). -/
theorem truncation_perm_equivariant_partial (obj : List α) (k : Nat) (pi : List Nat)
    (hpi : pi.Perm (List.range obj.length)) (hmono : TieMonotone obj pi)
    (i : Nat) (hi : i < obj.length) :
    i ∈ sortingSubset (Np.take pi obj) k ↔ pi.getD i 0 ∈ sortingSubset obj k := by
  have himg := image_stableTopK obj k pi hpi hmono _ (sortingSubset_stableTopK (Np.take pi obj) k)
  have huniq := stableTopK_unique obj k _ _ himg (sortingSubset_stableTopK obj k)
  have hlen : pi.length = obj.length := by rw [hpi.length_eq, List.length_range]
  have hnd : pi.Nodup := hpi.nodup_iff.mpr List.nodup_range
  constructor
  · intro hm
    exact (huniq _).mp (List.mem_map.mpr ⟨i, hm, rfl⟩)
  · intro hm
    obtain ⟨i', hi', e⟩ := List.mem_map.mp ((huniq _).mpr hm)
    have hall : ∀ j ∈ pi, j < obj.length := fun j hj => List.mem_range.mp (hpi.mem_iff.mp hj)
    have hl : (Np.take pi obj).length = obj.length := by rw [length_take obj pi hall, hlen]
    have hi'l : i' < pi.length := by
      rw [hlen, ← hl]; exact (sortingSubset_topK (Np.take pi obj) k).valid i' hi'
    have hil : i < pi.length := by rw [hlen]; exact hi
    simp only [List.getD_eq_getElem?_getD, List.getElem?_eq_getElem hi'l, List.getElem?_eq_getElem hil,
      Option.getD_some] at e
    have := (hnd.getElem_inj_iff).mp e
    rw [← this]; exact hi'

/-- pairwise-distinct criterion values make every permutation tie-monotone: the distinct-values form of the
    equivariance theorem (round 2's statement) is a special case -/
theorem truncation_perm_equivariant_distinct_partial (obj : List α) (k : Nat) (pi : List Nat)
    (hpi : pi.Perm (List.range obj.length))
    (hinj : ∀ (i j : Nat) (a : α), obj[i]? = some a → obj[j]? = some a → i = j)
    (i : Nat) (hi : i < obj.length) :
    i ∈ sortingSubset (Np.take pi obj) k ↔ pi.getD i 0 ∈ sortingSubset obj k := by
  apply truncation_perm_equivariant_partial obj k pi hpi _ i hi
  intro i j hi' hj' a hij ha hb
  have e := hinj _ _ a ha hb
  have hnd : pi.Nodup := hpi.nodup_iff.mpr List.nodup_range
  have := (hnd.getElem_inj_iff).mp e
  omega

end truncation

/-- two candidates with equal criterion, one to be chosen: the first position wins before and after the
    swap, so the chosen *individual* changes (the chosen value does not) -/
theorem truncation_perm_ties_counterexample :
    ¬ ((0 : Nat) ∈ sortingSubset (Np.take [1, 0] ([1, 1] : List Int)) 1 ↔
        ([1, 0] : List Nat).getD 0 0 ∈ sortingSubset ([1, 1] : List Int) 1) := by decide

/-- the distinctness hypothesis of `truncation_unique_partial` is necessary: with two tied candidates and one
    to be chosen, `[1]` is a best-1 set as well, but the optimiser returns `[0]` -/
theorem truncation_unique_counterexample :
    TopK ([1, 1] : List Int) 1 [1] ∧ ¬ (∀ i, i ∈ ([1] : List Nat) ↔ i ∈ sortingSubset ([1, 1] : List Int) 1) := by
  refine ⟨(specTopK_iff _ _ _).mp (by decide), ?_⟩
  intro h
  have := (h 1).mp (by decide)
  revert this
  decide

-- a permutation that moves tied candidates but keeps their relative order: obj = (4,1,4,1), π = (1,0,3,2)
-- presents (1,4,1,4); the tied 1s (positions 1,3 of obj) and the tied 4s (0,2) keep their order
example : sortingSubset (Np.take [1, 0, 3, 2] ([4, 1, 4, 1] : List Int)) 1 = [0] ∧
    ([1, 0, 3, 2] : List Nat).getD 0 0 ∈ sortingSubset ([4, 1, 4, 1] : List Int) 1 := by decide
example : TieMonotone ([4, 1, 4, 1] : List Int) [1, 0, 3, 2] := by
  intro i j hi hj a hij ha hb
  simp only [List.length_cons, List.length_nil] at hi hj
  interval_cases i <;> interval_cases j <;> simp_all <;> omega
example : sortingSubset ([3, 1, 5, 2, 9, 0] : List Int) 3 = [5, 1, 3] := by decide
-- two argsorts of the tied values (4,1,4,1,1): the stable one and another one; both pass the driver's check and
-- give best-2 sets with different members
example : validArgsort ([4, 1, 4, 1, 1] : List Int) [1, 3, 4, 0, 2] = true ∧
    validArgsort ([4, 1, 4, 1, 1] : List Int) [4, 1, 3, 2, 0] = true ∧
    validArgsort ([4, 1, 4, 1, 1] : List Int) [0, 1, 3, 4, 2] = false ∧
    sortingSubsetWith [4, 1, 3, 2, 0] 2 = [4, 1] ∧ sortingSubset ([4, 1, 4, 1, 1] : List Int) 2 = [1, 3] := by decide
-- ties: the stable sort takes the first of the tied candidates
example : sortingSubset ([4, 1, 4, 1, 1] : List Int) 2 = [1, 3] ∧ sortingSubset ([4, 1, 4, 1, 1] : List Int) 4 = [1, 3, 4, 0] := by
  decide
example : ∀ (i j : Nat) (a : Int), ([3, 1, 5] : List Int)[i]? = some a → ([3, 1, 5] : List Int)[j]? = some a → i = j := by
  intro i j a hi hj
  match i, j with
  | 0, 0 | 1, 1 | 2, 2 => rfl
  | 0, 1 | 0, 2 | 1, 0 | 1, 2 | 2, 0 | 2, 1 => simp at hi hj; omega
  | i + 3, _ => simp at hi
  | 0, j + 3 | 1, j + 3 | 2, j + 3 => simp at hj

/-! ## 6. `select()` with the exact optimiser: criterion → configuration -/

/-- **Subset protocol, single objective, exact optimiser — end to end.**  With `k = ncross·nparent`
    candidates available, the configuration produced from the sorting optimiser's decision has the
    requested shape, consists of exactly the `k` best candidates, each used once — hence contains no
    self-pairing at all — and is exchange-optimal. -/
theorem select_subset_truncation {α : Type} [LinearOrder α] (obj : List α) (nc np : Nat) (rem perm : List Nat)
    (orders rowperms : List (List Nat)) (rows : Rows)
    (hk : nc * np ≤ obj.length) (hpos : 0 < nc * np)
    (vt : ValidTiled (sortingSubset obj (nc * np)) (nc * np) rem perm) (va : ValidArrange nc np orders rowperms)
    (h : sampleSubset (sortingSubset obj (nc * np)) nc np rem perm orders rowperms = .ok rows) :
    Rect nc np rows ∧ TopK obj (nc * np) (sortingSubset obj (nc * np)) ∧
      (∀ e, e ∈ rows.flatten ↔ e ∈ sortingSubset obj (nc * np)) ∧ rows.flatten.Nodup ∧
      selfPairs rows = 0 ∧ ExchangeOptimal nc np rows := by
  have ht := sortingSubset_topK obj (nc * np)
  have hlen : (sortingSubset obj (nc * np)).length = nc * np := by rw [ht.len]; omega
  obtain ⟨hr, hm, hc, ho⟩ := subset_xconfig _ nc np rem perm orders rowperms rows ht.nodup vt va h
  obtain ⟨_, _, hcnt⟩ := sampleSubset_facts vt va h
  have hrem : rem = [] := by
    apply List.eq_nil_of_length_eq_zero
    rw [vt.rem_len, hlen, Nat.mod_self]
  have hone : ∀ e, rows.flatten.count e = (sortingSubset obj (nc * np)).count e := by
    intro e
    rw [(hcnt e).1, hlen, hrem, Nat.div_self hpos]
    simp
  have hnd : rows.flatten.Nodup := by
    rw [List.nodup_iff_count_le_one]
    intro e
    rw [hone e]
    exact List.nodup_iff_count_le_one.mp ht.nodup e
  refine ⟨hr, ht, ?_, hnd, ?_, ho⟩
  · intro e
    rw [← List.count_pos_iff, ← List.count_pos_iff, hone e]
  · unfold selfPairs
    apply List.sum_eq_zero
    intro x hx
    obtain ⟨r, hrm, rfl⟩ := List.mem_map.mp hx
    rw [dupCount_eq_zero_iff]
    exact (List.nodup_flatten.mp hnd).1 r hrm

example : 2 * 2 ≤ ([3, 1, 5, 2, 9, 0] : List Int).length ∧ 0 < 2 * 2 ∧
    sortingSubset ([3, 1, 5, 2, 9, 0] : List Int) (2 * 2) = [5, 1, 3, 0] := by decide
example : ValidTiled (sortingSubset ([3, 1, 5, 2, 9, 0] : List Int) (2 * 2)) (2 * 2) [] [2, 0, 3, 1] :=
  ⟨by decide, by decide, List.Sublist.subperm (by decide), by decide⟩
example : ([2, 0, 1] : List Nat).Perm (List.range ([3, 1, 5] : List Int).length) := by decide

/-! ## 7. Multi-objective protocols: the declared preference transformation decides -/

section mo
variable {α : Type} [LinearOrder α] [Mul α]

/-- **Multi-objective choice.**  `select()` builds the configuration from `soln_decn[ix]` where `ix`
    maximises `ndset_wt · ndset_trans(front)` (the first maximiser). -/
theorem mo_choice_argmax {β : Type} (wt : α) (tvals : List α) (decns : List β) (ix : Nat) (d : β)
    (h : moChoice wt tvals decns = some (ix, d)) :
    decns[ix]? = some d ∧ ∃ t, tvals[ix]? = some t ∧
      (∀ (j : Nat) (u : α), tvals[j]? = some u → wt * u ≤ wt * t) ∧
      (∀ (j : Nat) (u : α), j < ix → tvals[j]? = some u → wt * u < wt * t) := by
  unfold moChoice at h
  cases ha : argmax (tvals.map (fun t => wt * t)) with
  | none => rw [ha] at h; cases h
  | some r =>
    rw [ha] at h
    dsimp only at h
    cases hd : decns[r]? with
    | none => rw [hd] at h; cases h
    | some d' =>
      rw [hd] at h
      simp only [Option.some.injEq, Prod.mk.injEq] at h
      obtain ⟨rfl, rfl⟩ := h
      obtain ⟨v, hv, hmax, hfirst⟩ := argmax_spec _ _ ha
      rw [List.getElem?_map] at hv
      cases ht : tvals[r]? with
      | none => rw [ht] at hv; cases hv
      | some t =>
        rw [ht] at hv
        simp only [Option.map_some, Option.some.injEq] at hv
        subst hv
        refine ⟨hd, t, rfl, ?_, ?_⟩
        · intro j u hu
          exact hmax j _ (by rw [List.getElem?_map, hu]; rfl)
        · intro j u hj hu
          exact hfirst j _ hj (by rw [List.getElem?_map, hu]; rfl)

/-- the Spec the harness evaluates on the implementation's choice is met by the model -/
theorem mo_choice_spec {β : Type} (wt : α) (tvals : List α) (decns : List β) (ix : Nat) (d : β)
    (h : moChoice wt tvals decns = some (ix, d)) : specArgmax wt tvals ix = true := by
  obtain ⟨_, t, ht, hmax, _⟩ := mo_choice_argmax wt tvals decns ix d h
  simp only [specArgmax, ht, List.all_eq_true, Bool.not_eq_true', decide_eq_false_iff_not, not_lt]
  intro u hu
  obtain ⟨j, hj, rfl⟩ := List.mem_iff_getElem.mp hu
  exact hmax j _ (List.getElem?_eq_getElem hj)

/-- the Spec means what it says (`spec_iff`): `ix` names a front member whose weighted transformed value
    is not exceeded by any other member's -/
theorem mo_choice_spec_iff (wt : α) (tvals : List α) (ix : Nat) :
    specArgmax wt tvals ix = true ↔ ∃ t, tvals[ix]? = some t ∧ ∀ u ∈ tvals, wt * u ≤ wt * t :=
  specArgmax_iff wt tvals ix

/-- a choice made on a FILTERED front (e.g. its constraint-satisfying members only) and used as a position
    in the unfiltered one need not pass the Spec: the Spec looks at the whole front (class of seeded change
    C07-c1; concrete instance below) -/
theorem mo_choice_is_over_the_whole_front (wt : α) (tvals : List α) (ix : Nat)
    (h : specArgmax wt tvals ix = true) : ∀ (j : Nat) (u : α), tvals[j]? = some u →
      ∃ t, tvals[ix]? = some t ∧ wt * u ≤ wt * t := by
  obtain ⟨t, ht, hmax⟩ := (specArgmax_iff wt tvals ix).mp h
  intro j u hu
  exact ⟨t, ht, hmax u (List.mem_of_getElem? hu)⟩

end mo

example : moChoice (-1 : Int) [3, 1, 5, 1] [[0, 1], [2, 3], [4, 5], [6, 7]] = some (1, [2, 3]) := by decide
-- front values (1, 5, 3) with the first member violating a constraint: the feasible members are (5, 3), the
-- argmax inside the filtered list is position 0, which in the unfiltered front is the infeasible, worst member
example : specArgmax (1 : Int) [1, 5, 3] 0 = false ∧ specArgmax (1 : Int) [1, 5, 3] 1 = true ∧
    SelProt.argmax ([5, 3] : List Int) = some 0 := by decide

/-- **Multi-objective subset protocol, end to end**: the configuration is built from the front member
    that maximises the weighted transformation and satisfies every configuration clause for it. -/
theorem select_mo_subset_config {α : Type} [LinearOrder α] [Mul α] (wt : α) (tvals : List α)
    (decns : List (List Nat)) (ix : Nat) (d : List Nat) (nc np : Nat) (rem perm : List Nat)
    (orders rowperms : List (List Nat)) (rows : Rows)
    (hch : moChoice wt tvals decns = some (ix, d)) (hnd : d.Nodup)
    (vt : ValidTiled d (nc * np) rem perm) (va : ValidArrange nc np orders rowperms)
    (h : sampleSubset d nc np rem perm orders rowperms = .ok rows) :
    decns[ix]? = some d ∧ specArgmax wt tvals ix = true ∧ specSubset d nc np rows = true :=
  ⟨(mo_choice_argmax wt tvals decns ix d hch).1, mo_choice_spec wt tvals decns ix d hch,
    subset_xconfig_spec d nc np rem perm orders rowperms rows hnd vt va h⟩

/-! ## 8. Integer mate selection and the usefulness-criterion bounds (D21) -/

/-- **Integer / binary mate selection.**  Every cross is the map row of a candidate cross with a
    positive contribution; candidate `d` is used between `q·decn[d]` and `(q+1)·decn[d]` times. -/
theorem mate_integer_xconfig (decn : List Nat) (xmap : Rows) (nc : Nat) (rem perm perm2 : List Nat) (rows : Rows)
    (vt : ValidTiled (options decn) nc rem perm) (hp2 : perm2.Perm (List.range nc))
    (h : sampleMateInteger decn xmap nc rem perm perm2 = .ok rows) :
    ∃ out : List Nat, rows = out.map (fun d => xmap.getD d []) ∧ out.length = nc ∧
      (∀ d ∈ out, 0 < decn.getD d 0 ∧ d < xmap.length) ∧
      (∀ d, (nc / decn.sum) * decn.getD d 0 ≤ out.count d ∧ out.count d ≤ (nc / decn.sum + 1) * decn.getD d 0) := by
  obtain ⟨out, ht, hl⟩ := sampleMate_split h
  obtain ⟨_, ht', _, hlen⟩ := tiledChoice_ok (options decn) nc rem perm vt
  rw [ht] at ht'; cases ht'
  have hperm : (Np.take perm2 out).Perm out := take_perm out perm2 (by rw [hlen]; exact hp2)
  obtain ⟨e1, e2⟩ := lookup_ok xmap _ rows hl
  refine ⟨Np.take perm2 out, e1, by rw [hperm.length_eq, hlen], ?_, ?_⟩
  · intro d hd
    have hm := tiledChoice_mem (options decn) nc rem perm out vt ht d (hperm.mem_iff.mp hd)
    have : 0 < (options decn).count d := List.count_pos_iff.mpr hm
    rw [count_options] at this
    exact ⟨this, e2 d hd⟩
  · intro d
    rw [hperm.count_eq]
    obtain ⟨h1, h2⟩ := tiledChoice_count (options decn) nc rem perm out vt ht d
    rw [count_options, length_options] at h1
    rw [count_options] at h2
    constructor
    · omega
    · rw [Nat.add_mul]; omega

/-- **Binary mate selection** (every contribution 0 or 1): the whole Spec holds for the protocols' cross map —
    crosses are map rows of selected candidate crosses, shares within one (`spec_sound`). -/
theorem mate_binary_xconfig_spec (decn : List Nat) (ntaxa np nc : Nat) (unique : Bool)
    (rem perm perm2 : List Nat) (rows : Rows)
    (hbin : ∀ d ∈ decn, d ≤ 1)
    (vt : ValidTiled (options decn) nc rem perm) (hp2 : perm2.Perm (List.range nc))
    (h : sampleMateInteger decn (xmapix ntaxa np unique) nc rem perm perm2 = .ok rows) :
    specMateContribution (decn.map (fun (d : Nat) => (d : Rat))) (xmapix ntaxa np unique) nc np rows = true := by
  obtain ⟨out, ht, hl⟩ := sampleMate_split h
  obtain ⟨_, ht', _, hlen⟩ := tiledChoice_ok (options decn) nc rem perm vt
  rw [ht] at ht'; cases ht'
  have hperm : (Np.take perm2 out).Perm out := take_perm out perm2 (by rw [hlen]; exact hp2)
  obtain ⟨e1, e2⟩ := lookup_ok _ _ rows hl
  rw [e1]
  have hS : 0 < decn.sum := by
    have := vt.nonempty
    rw [← List.length_pos_iff, length_options] at this
    exact this
  refine specMateContribution_of _ _ nc np _ (xmapix_nodup ntaxa np unique) (xmapix_row_length ntaxa np unique)
    (by rw [hperm.length_eq, hlen]) ?_ ?_
  · intro d hd
    have hm := tiledChoice_mem (options decn) nc rem perm out vt ht d (hperm.mem_iff.mp hd)
    have hpos : 0 < (options decn).count d := List.count_pos_iff.mpr hm
    rw [count_options] at hpos
    have hdl : d < decn.length := by
      by_contra hn
      simp [List.getD_eq_getElem?_getD, List.getElem?_eq_none (Nat.le_of_not_lt hn)] at hpos
    refine ⟨e2 d hd, by simpa using hdl, ?_⟩
    have : (decn.map (fun (d : Nat) => (d : Rat))).getD d 0 = ((decn.getD d 0 : Nat) : Rat) := by
      simp [List.getD_eq_getElem?_getD, List.getElem?_map, List.getElem?_eq_getElem hdl]
    rw [this]
    exact_mod_cast hpos
  · apply withinOne_binary decn nc _ rem hbin hS (by rw [vt.rem_len, length_options])
    intro i
    rw [hperm.count_eq]
    obtain ⟨h1, h2⟩ := tiledChoice_count (options decn) nc rem perm out vt ht i
    rw [count_options, length_options] at h1
    rw [count_options] at h2
    exact ⟨h1, h2⟩

/-- **Real mate selection, full strength** (sampler inside the model): the crosses are map rows of
    candidate crosses of positive weight, there are `ncross` of them, and every candidate cross is used
    the floor or the ceiling of its share `ncross·w_d/Σw` — for every offset, 0 included. -/
theorem mate_real_xconfig (w : List ℚ) (xmap : Rows) (nc : Nat) (sigma : List Nat) (o : ℚ)
    (perm perm2 : List Nat) (rows : Rows)
    (hv : C17.SusValid w) (hp2 : perm2.Perm (List.range nc))
    (h : sampleMateRealSus w xmap nc sigma o perm perm2 = .ok rows) :
    ∃ out : List Nat, rows = out.map (fun d => xmap.getD d []) ∧ out.length = nc ∧
      (∀ d ∈ out, d < xmap.length ∧ ∃ hd : d < w.length, 0 < w[d]) ∧
      ∀ d (hd : d < w.length),
        (out.count d : ℤ) = ⌊((nc : ℕ) : ℚ) * w[d] / Np.sum w⌋ ∨
        (out.count d : ℤ) = ⌈((nc : ℕ) : ℚ) * w[d] / Np.sum w⌉ := by
  obtain ⟨hnn, hT⟩ := hv
  obtain ⟨sel, hs, hr⟩ := sampleMateRealSus_split h
  have hlen : sel.length = nc := by rw [C17.sus_length w [nc] sigma perm sel o hs, prod_single]
  obtain ⟨out, hperm, e1, e2⟩ := sampleMateReal_lookup sel xmap nc perm2 rows hlen hp2 hr
  have hfc := fun i hi => C17.sus_floor_ceil w [nc] sigma perm sel o hnn hT hs i hi
  simp only [prod_single] at hfc
  refine ⟨out, e1, by rw [hperm.length_eq, hlen], ?_, ?_⟩
  · intro d hd
    have hds : d ∈ sel := hperm.mem_iff.mp hd
    have hdl := C17.sus_members w [nc] sigma perm sel o hnn hT hs d hds
    refine ⟨e2 d hd, hdl, ?_⟩
    rcases lt_or_eq_of_le (hnn _ (List.getElem_mem hdl)) with hpos | hz
    · exact hpos
    · exact absurd hds (C17.sus_zero_weight_never_selected w [nc] sigma perm sel o hnn hT hs d hdl hz.symm)
  · intro d hd
    rw [hperm.count_eq]
    exact hfc d hd

example : sampleMateRealSus ([1/2, 1/2, 1] : List ℚ) (xmapix 3 2 true) 4 [2, 1, 0] 0 [3, 1, 0, 2] [0, 1, 2, 3]
    = .ok [[0, 1], [1, 2], [1, 2], [0, 2]] := by decide +kernel

/-- the Spec the harness evaluates on a real-valued mate-selection configuration is met by the model
    (`spec_sound`), for the protocols' cross map -/
theorem mate_real_xconfig_spec (w : List ℚ) (ntaxa np nc : Nat) (unique : Bool) (sigma : List Nat) (o : ℚ)
    (perm perm2 : List Nat) (rows : Rows)
    (hv : C17.SusValid w) (hp2 : perm2.Perm (List.range nc))
    (h : sampleMateRealSus w (xmapix ntaxa np unique) nc sigma o perm perm2 = .ok rows) :
    specMateContribution w (xmapix ntaxa np unique) nc np rows = true := by
  obtain ⟨out, e, hl, hm, hfc⟩ := mate_real_xconfig w _ nc sigma o perm perm2 rows hv hp2 h
  rw [e]
  refine specMateContribution_of w _ nc np out (xmapix_nodup ntaxa np unique) (xmapix_row_length ntaxa np unique) hl ?_ ?_
  · intro d hd
    obtain ⟨h1, h2, h3⟩ := hm d hd
    refine ⟨h1, h2, ?_⟩
    have : w.getD d 0 = w[d] := by simp [h2]
    rw [this]; exact h3
  · exact withinOne_of_floor_ceil w nc out hv.2 hfc

/-- **UC integer protocol (after fix 3d8c7c9b).**  For every `ncross ≥ 1` and every per-cross
    `nmating` array the decision-space bounds are built: both have one entry per candidate cross, the
    lower bound is 0 and the upper bound `ncross · nparent · m` with `m` at least every `nmating[i]`. -/
theorem uc_integer_bounds (nc np nx : Nat) (nmating : List Nat) (hl : nmating.length = nc) (h1 : 1 ≤ nc) :
    ∃ lo up m, ucIntegerBounds nc np nmating nx = .ok (lo, up) ∧ lo = List.replicate nx 0 ∧
      up = List.replicate nx (nc * np * m) ∧ ∀ x ∈ nmating, x ≤ m := by
  cases nmating with
  | nil => simp at hl; omega
  | cons m ms =>
    refine ⟨_, _, ms.foldl max m, rfl, rfl, rfl, ?_⟩
    intro x hx
    obtain ⟨a, b⟩ := foldl_max_ge ms m
    rcases List.mem_cons.mp hx with rfl | hx
    · exact a
    · exact b x hx

/-- **D21 (repaired by 3d8c7c9b).**  Before the repair the upper bound repeated the whole `(ncross,)`
    `nmating` array: for every `ncross ≥ 2` `numpy.stack` raised and `select()` produced no configuration. -/
theorem uc_integer_bounds_prerepair_counterexample (nc np nx : Nat) (nmating : List Nat)
    (hl : nmating.length = nc) (h2 : 2 ≤ nc) (hx : 0 < nx) :
    ucIntegerBoundsPrerepair nc np nmating nx = .error "value" := by
  unfold ucIntegerBoundsPrerepair
  have : ¬ (nx = nx * nc) := by
    intro e
    have : nx * 2 ≤ nx * nc := Nat.mul_le_mul_left nx h2
    omega
  simp [length_repeatN, hl, this]

example : ucIntegerBoundsPrerepair 2 2 [1, 1] 3 = .error "value" ∧
    ucIntegerBounds 2 2 [1, 3] 3 = .ok ([0, 0, 0], [12, 12, 12]) ∧ ucIntegerBounds 1 2 [2] 3 = .ok ([0, 0, 0], [4, 4, 4]) := by
  decide
example : sampleMateInteger [2, 0, 1] (xmapix 3 2 true) 4 [0] [3, 0, 1, 2] [1, 0, 3, 2]
    = .ok [[0, 1], [0, 1], [1, 2], [0, 1]] := by decide

/-! ## 9. Decision-space bounds of further protocol families (D55, D56 — both repaired) -/

/-- **EMBV integer protocol (after fix 95a1a100).**  For every `ncross ≥ 1`, every per-cross `nmating`
    array and every number of candidate crosses the integer problem is built: both bounds have one entry
    per candidate cross, lower bound 0, upper bound `ncross · nparent · m` with `m ≥` every `nmating[i]`. -/
theorem embv_integer_bounds (nc np nx : Nat) (nmating : List Nat) (hl : nmating.length = nc) (h1 : 1 ≤ nc) :
    ∃ lo up m, embvIntegerBounds nc np nmating nx = .ok (lo, up) ∧ lo = List.replicate nx 0 ∧
      up = List.replicate nx (nc * np * m) ∧ ∀ x ∈ nmating, x ≤ m := by
  cases nmating with
  | nil => simp at hl; omega
  | cons m ms =>
    refine ⟨_, _, ms.foldl max m, by simp [embvIntegerBounds, vectorProblemBounds], rfl, rfl, ?_⟩
    intro x hx
    obtain ⟨a, b⟩ := foldl_max_ge ms m
    rcases List.mem_cons.mp hx with rfl | hx
    · exact a
    · exact b x hx

/-- **D55 (repaired by 95a1a100).**  Before the repair the protocol handed *float* bounds to the integer
    problem: the constructor's dtype check failed for every number of candidate crosses. -/
theorem embv_integer_bounds_prerepair_counterexample (nx : Nat) : embvIntegerBoundsPrerepair nx = .error "type" := by
  simp [embvIntegerBoundsPrerepair, vectorProblemBounds]

/-- **Family-EBV vector protocols (after fix ff495eaf).**  The problem is built for every `nparent` and
    every population size: one decision variable per taxon, bounds of that length. -/
theorem family_vector_bounds (nparent ntaxa : Nat) : familyVectorBounds nparent ntaxa = .ok () := by
  simp [familyVectorBounds, vectorProblemBounds]

/-- **D56 (repaired by ff495eaf).**  Before the repair `ndecn = self.nparent` met bounds of length
    `ntaxa`: `ValueError` whenever `nparent ≠ ntaxa`. -/
theorem family_vector_bounds_prerepair_counterexample (nparent ntaxa : Nat) (h : nparent ≠ ntaxa) :
    familyVectorBoundsPrerepair nparent ntaxa = .error "value" := by
  have : ¬ ntaxa = nparent := fun e => h e.symm
  simp [familyVectorBoundsPrerepair, vectorProblemBounds, this]

example : familyVectorBoundsPrerepair 2 3 = .error "value" ∧ familyVectorBounds 2 3 = .ok () ∧
    embvIntegerBoundsPrerepair 3 = .error "type" ∧
    embvIntegerBounds 2 2 [1, 3] 3 = .ok ([0, 0, 0], [12, 12, 12]) := by decide

/-! ## 10. The decision space every protocol class hands to its optimiser -/

/-- **Subset encodings.**  `decn_space = arange(nopt)`, bounds `0 … nopt-1` of length `ndecn`: the space meets
    the decision-space Spec for every number of candidates and every number of slots. -/
theorem subset_problem_space (nopt ndecn : Nat) : specSpace true nopt (subsetSpace nopt ndecn) = true :=
  subsetSpace_spec nopt ndecn

/-- **Vector encodings** (integer / binary / real): one variable per candidate, lower bound 0, a positive
    upper bound — whatever formula the family uses for it (`ntaxa`, `Σ nmating`, `Σ nmating·nprogeny`,
    `ncross·nparent·max nmating`, 1). -/
theorem vector_problem_space (nopt ub : Nat) (h : 0 < ub) : specSpace false nopt (vectorSpace nopt ub) = true :=
  vectorSpace_spec nopt ub h

/-- the UC / EMBV integer bounds of section 8/9 are this vector space -/
theorem uc_integer_bounds_is_vector_space (nc np nx m : Nat) (ms : List Nat) :
    ucIntegerBounds nc np (m :: ms) nx =
      .ok ((vectorSpace nx (nc * np * ms.foldl max m)).lower, (vectorSpace nx (nc * np * ms.foldl max m)).upper) := rfl

/-- what a passed decision-space Spec guarantees for a subset encoding: each of the `nopt` candidates is
    offered exactly once, nothing else is, and the bound vectors have `ndecn` entries -/
theorem subset_space_spec_sound (nopt : Nat) (s : Space) (h : specSpace true nopt s = true) :
    (∀ i, i < nopt → s.space.count i = 1) ∧ (∀ i ∈ s.space, i < nopt) ∧
      s.lower.length = s.ndecn ∧ s.upper.length = s.ndecn :=
  specSpace_subset_members nopt s h

example : subsetSpace 6 4 = ⟨4, [0, 1, 2, 3, 4, 5], [0, 0, 0, 0], [5, 5, 5, 5]⟩ ∧
    vectorSpace 3 12 = ⟨3, [], [0, 0, 0], [12, 12, 12]⟩ ∧
    specSpace true 6 ⟨4, [0, 1, 2, 3, 4], [0, 0, 0, 0], [5, 5, 5, 5]⟩ = false ∧
    specSpace false 3 ⟨3, [], [0, 0, 0], [12, 12]⟩ = false := by decide

/-! ## 11. Proposed repair of D20 (`patch_D20.diff`, not applied): the integer encodings at full strength -/

/-- **The repaired integer configuration meets the FULL STATEMENT of `integer_share_partial`.**  With
    `proportional_choice` in place of `repeat` + `tiled_choice`, for every contribution vector with a positive
    sum, every shape and every legitimate sequence of generator draws: the whole Spec holds (shape, support,
    every use count within one of the proportional share, exchange-optimal), and in fact every candidate is
    used the floor or the ceiling of `ncross·nparent·dᵢ/Σd` times.  No divisibility hypothesis. -/
theorem integer_share_repaired (decn : List Nat) (nc np : Nat) (extra perm : List Nat)
    (orders rowperms : List (List Nat)) (rows : Rows)
    (vs : ValidShare decn (nc * np) extra perm) (va : ValidArrange nc np orders rowperms)
    (h : sampleIntegerRepaired decn nc np extra perm orders rowperms = .ok rows) :
    specContribution (decn.map (fun (d : Nat) => (d : Rat))) nc np rows = true ∧
      ∀ i, i < decn.length →
        rows.flatten.count i = nc * np * decn.getD i 0 / decn.sum ∨
        rows.flatten.count i = nc * np * decn.getD i 0 / decn.sum + 1 := by
  obtain ⟨flat, hf, hl, hc⟩ := proportionalChoice_ok decn (nc * np) extra perm vs
  have harr : arrange flat nc np orders rowperms = .ok rows := by
    unfold sampleIntegerRepaired at h
    rw [hf] at h
    exact h
  obtain ⟨hr, hp, ho, _⟩ := arrange_facts hl va harr
  have hcount : ∀ i, rows.flatten.count i =
      if i < decn.length then nc * np * decn.getD i 0 / decn.sum + extra.count i else 0 := by
    intro i; rw [hp.count_eq]; exact hc i
  refine ⟨?_, ?_⟩
  · simp only [specContribution, Bool.and_eq_true]
    refine ⟨⟨⟨(shapeOk_iff _ _ _).mpr hr, (supportOk_cast_iff _ _).mpr ?_⟩, ?_⟩, (localOpt_iff _ _ _).mpr ho⟩
    · intro i hi
      have hpos : 0 < rows.flatten.count i := List.count_pos_iff.mpr hi
      rw [hcount i] at hpos
      by_cases hlt : i < decn.length
      · refine ⟨hlt, ?_⟩
        rw [if_pos hlt] at hpos
        by_contra hn
        have hz : decn.getD i 0 = 0 := by omega
        rw [hz, extra_count_zero_of_zero vs i hz] at hpos
        simp at hpos
      · rw [if_neg hlt] at hpos; omega
    · rw [withinOne_cast_iff]
      intro i hi
      rw [hcount i, if_pos hi]
      exact floor_ceil_within_one (nc * np) (decn.getD i 0) decn.sum (extra.count i) vs.pos (extra_count_le_one vs i)
  · intro i hi
    rw [hcount i, if_pos hi]
    have := extra_count_le_one vs i
    rcases Nat.le_one_iff_eq_zero_or_eq_one.mp this with e | e
    · left; rw [e, Nat.add_zero]
    · right; rw [e]

/-- … and the repair leaves the case without remainder as it is: when `Σd` divides the number of slots
    nothing is drawn (`left = 0`) and candidate `i` is used exactly `(N/Σd)·dᵢ` times — the count
    `integer_xconfig` gives for the as-is code. -/
theorem integer_repaired_agrees_when_divisible (decn : List Nat) (nc np : Nat) (extra perm : List Nat)
    (orders rowperms : List (List Nat)) (rows : Rows)
    (vs : ValidShare decn (nc * np) extra perm) (va : ValidArrange nc np orders rowperms)
    (hdiv : (nc * np) % decn.sum = 0)
    (h : sampleIntegerRepaired decn nc np extra perm orders rowperms = .ok rows) :
    ∀ i, i < decn.length → rows.flatten.count i = (nc * np / decn.sum) * decn.getD i 0 := by
  obtain ⟨flat, hf, hl, hc⟩ := proportionalChoice_ok decn (nc * np) extra perm vs
  have harr : arrange flat nc np orders rowperms = .ok rows := by
    unfold sampleIntegerRepaired at h
    rw [hf] at h
    exact h
  obtain ⟨_, hp, _, _⟩ := arrange_facts hl va harr
  intro i hi
  rw [hp.count_eq, hc i, if_pos hi]
  have hdvd : decn.sum ∣ nc * np := Nat.dvd_of_mod_eq_zero hdiv
  have hq : nc * np * decn.getD i 0 / decn.sum = nc * np / decn.sum * decn.getD i 0 := by
    obtain ⟨q, hq⟩ := hdvd
    rw [hq, Nat.mul_div_cancel_left _ vs.pos, Nat.mul_assoc, Nat.mul_div_cancel_left _ vs.pos]
  have he : extra.count i = 0 := by
    apply List.count_eq_zero.mpr
    intro hm
    have h2 := (vs.frac i hm).2
    obtain ⟨q, hq'⟩ := hdvd
    rw [hq', Nat.mul_assoc, Nat.mul_mod_right] at h2
    omega
  rw [hq, he, Nat.add_zero]

-- the input of D20 under the repair: contributions (4,4) on 2x2 slots, nothing left to draw, both used twice
example : ValidShare [4, 4] (2 * 2) [] [3, 0, 2, 1] :=
  ⟨by decide, by decide, by simp, by decide, by decide⟩
example : sampleIntegerRepaired [4, 4] 2 2 [] [3, 0, 2, 1] [[0, 1, 2, 3, 4, 5], [0, 1, 2, 3, 4, 5]] [[0, 1], [1, 0]]
    = .ok [[1, 0], [0, 1]] := by decide
-- a genuine remainder: contributions (1,2) on 2x2 slots: shares 4/3, 8/3; floors 1, 2; one slot left for a
-- candidate with a non-zero fractional part
example : ValidShare [1, 2] (2 * 2) [1] [0, 1, 2, 3] :=
  ⟨by decide, by decide, by intro i hi; simp at hi; subst hi; decide, by decide, by decide⟩
example : shareCounts [1, 2] 4 [1] = [1, 3] ∧ shareLeft [1, 2] 4 = 1 := by decide

/-! ## 12. One configuration object over its lifetime -/

/-- **Every table follows the decision in force when it was sampled — for every history.**  Whatever sequence of
    re-assignments, in-place revisions and samples a configuration object goes through (each sample with
    legitimate generator draws for the decision then in force), every table it has ever produced satisfies the
    whole subset Spec for the decision recorded with it; nothing carries over from an earlier decision. -/
theorem history_every_table_follows_its_decision (nc np : Nat) (ops : List CfgOp) (s : CfgState)
    (hcur : s.decn.Nodup) (hv : ValidHistory nc np s.decn ops)
    (hs : ∀ p ∈ s.tables, ∃ rows, p.2 = .ok rows ∧ specSubset p.1 nc np rows = true) :
    ∀ p ∈ (cfgRun nc np s ops).tables, ∃ rows, p.2 = .ok rows ∧ specSubset p.1 nc np rows = true := by
  induction ops generalizing s with
  | nil => exact hs
  | cons op rest ih =>
    rw [cfgRun_cons]
    cases op with
    | assign d =>
      obtain ⟨hd, hr⟩ := hv
      exact ih { s with decn := d } hd hr hs
    | edit d =>
      obtain ⟨hd, hr⟩ := hv
      exact ih { s with decn := d } hd hr hs
    | sample rem perm orders rowperms =>
      obtain ⟨vt, va, hn, hr⟩ := hv
      apply ih (cfgStep nc np s (.sample rem perm orders rowperms)) hcur hr
      intro p hp
      simp only [cfgStep, List.mem_cons] at hp
      rcases hp with rfl | hp
      · obtain ⟨rows, hrows⟩ := subset_sampling_total s.decn nc np rem perm orders rowperms vt hn
        exact ⟨rows, hrows, subset_xconfig_spec s.decn nc np rem perm orders rowperms rows hcur vt va hrows⟩
      · exact hs p hp

/-- the history theorem is about the code as it is (the decision is read afresh on every `sample_xconfig`).  A
    configuration that snapshots the values at the first sample after an assignment (seeded change C07-d1) breaks
    it on the shortest history with an in-place revision: sample, revise `[0,1]` to `[2,3]`, sample — the second
    table is recorded for `[2,3]` but made of `0` and `1`. -/
theorem history_stale_values_counterexample :
    (cfgRunCached 2 2 ⟨[0, 1], none, []⟩
        [.sample [] [0, 1, 2, 3] [List.range 6, List.range 6, List.range 6] [[0, 1], [0, 1]], .edit [2, 3],
         .sample [] [0, 1, 2, 3] [List.range 6, List.range 6, List.range 6] [[0, 1], [0, 1]]]).tables.head?
      = some ([2, 3], .ok [[0, 1], [0, 1]]) ∧
    specSubset [2, 3] 2 2 [[0, 1], [0, 1]] = false ∧
    (cfgRun 2 2 ⟨[0, 1], []⟩
        [.sample [] [0, 1, 2, 3] [List.range 6, List.range 6, List.range 6] [[0, 1], [0, 1]], .edit [2, 3],
         .sample [] [0, 1, 2, 3] [List.range 6, List.range 6, List.range 6] [[0, 1], [0, 1]]]).tables.head?
      = some ([2, 3], .ok [[2, 3], [2, 3]]) := by decide

example : ValidHistory 1 2 [0, 1]
    [.sample [] [1, 0] [[0], [0], [0]] [[1, 0]], .edit [2, 3], .sample [] [0, 1] [[0], [0], [0]] [[0, 1]]] := by
  refine ⟨⟨by decide, by decide, List.Sublist.subperm (by decide), by decide⟩, ⟨by decide, ?_, by decide, ?_⟩, by decide,
    by decide, ⟨by decide, by decide, List.Sublist.subperm (by decide), by decide⟩, ⟨by decide, ?_, by decide, ?_⟩, by decide,
    trivial⟩
  all_goals (intro p hp; simp at hp; subst hp; decide)
example : (cfgRun 1 2 ⟨[0, 1], []⟩
    [.sample [] [1, 0] [[0], [0], [0]] [[1, 0]], .edit [2, 3], .sample [] [0, 1] [[0], [0], [0]] [[0, 1]]]).tables
    = [([2, 3], .ok [[2, 3]]), ([0, 1], .ok [[0, 1]])] := by decide

/-! ## 13. `spec_iff` of the remaining Spec oracles; mate-selection tables are not to be re-arranged -/

/-- what the decision-space Spec says (`spec_iff`): bound vectors of length `ndecn` with `lower ≤ upper`
    entrywise; subset encodings offer each of the `nopt` candidates exactly once and nothing else; vector
    encodings have one variable per candidate and a positive upper bound -/
theorem space_spec_iff (subset : Bool) (nopt : Nat) (s : Space) :
    specSpace subset nopt s = true ↔
      s.lower.length = s.ndecn ∧ s.upper.length = s.ndecn ∧ (∀ p ∈ s.lower.zip s.upper, p.1 ≤ p.2) ∧
      (if subset then (∀ i, i < nopt → s.space.count i = 1) ∧ ∀ i ∈ s.space, i < nopt
       else s.ndecn = nopt ∧ ∀ u ∈ s.upper, 0 < u) :=
  specSpace_iff subset nopt s

/-- what the coverage Spec says (`spec_iff`): every admissible candidate cross is, as a multiset of parents, the
    map row of some member of the decision space -/
theorem cover_spec_iff (cands xmap : List (List Nat)) (space : List Nat) :
    specCover cands xmap space = true ↔
      ∀ t ∈ cands, ∃ d ∈ space, ∃ r, xmap[d]? = some r ∧ r.Perm t :=
  specCover_iff cands xmap space

/-- what the subset mate-selection Spec says (`spec_iff`): `ncross` rows of `nparent` entries, every row IS the
    map row of a member of the decision (parents in the map's order — not merely the same individuals), and
    the members are used evenly -/
theorem mate_subset_spec_iff (decn : List Nat) (xmap : Rows) (nc np : Nat) (rows : Rows) :
    specMateSubset decn xmap nc np rows = true ↔
      Rect nc np rows ∧ (∀ r ∈ rows, ∃ d ∈ decn, xmap[d]? = some r) ∧
      (∀ a ∈ decn, ∀ b ∈ decn,
        ((rows.map (crossIndex xmap decn)).filterMap id).count a ≤
        ((rows.map (crossIndex xmap decn)).filterMap id).count b + 1) :=
  specMateSubset_iff decn xmap nc np rows

/-- **Mate-selection tables must stay as looked up.**  Passing the table of a mate-selection configuration
    through `outcross_shuffle` (seeded change C07-d3) breaks up a chosen self cross: from the solution
    {(1,4), (2,4), (5,5)} over six individuals it makes {(5,4), (2,4), (1,5)} — two crosses that were not chosen.
    The as-is sampler returns the three chosen crosses (`mate_subset_xconfig_spec`). -/
theorem mate_outcrossed_counterexample :
    sampleMate [9, 13, 20] (xmapix 6 2 false) 3 [] [0, 1, 2] [0, 1, 2] = .ok [[1, 4], [2, 4], [5, 5]] ∧
    specMateSubset [9, 13, 20] (xmapix 6 2 false) 3 2 [[1, 4], [2, 4], [5, 5]] = true ∧
    sampleMateOutcrossed [9, 13, 20] (xmapix 6 2 false) 3 2 [] [0, 1, 2] [0, 1, 2]
        [List.range 15, List.range 15, List.range 15] = .ok [[5, 4], [2, 4], [1, 5]] ∧
    specMateSubset [9, 13, 20] (xmapix 6 2 false) 3 2 [[5, 4], [2, 4], [1, 5]] = false := by decide

/-! ## 16. Usefulness criterion: the criterion of a candidate cross depends on the cross type (round 5)

`truncation_exact` is about whatever objective column the optimiser sees.  For the usefulness-criterion family the
column is `-(epgc · bv[cross] + spread)`; the theorems below fix what the first summand is for each cross type, so
"the best candidate crosses by their criterion" has a definite meaning for three-way crosses as well. -/

/-- **Cross types with equal parental contributions** (two-way, dihybrid, four-way): the expected progeny mean of a
    candidate cross is the mid-parent value of its parents. -/
theorem uc_progeny_mean_equal_contributions {α : Type} [Field α] [CharZero α] (c : CrossType) (hc : c ≠ .threeWay)
    (bv : List α) (cross : List Nat) (h : cross.length = c.nparent) :
    progenyMean c.epgc bv cross = midParent bv cross := by
  cases c with
  | threeWay => exact absurd rfl hc
  | twoWay =>
    have h2 : cross.length = 2 := h
    rw [epgc_twoWay, ← h2]; exact progenyMean_equal_eq_midParent bv cross
  | dihybrid =>
    have h2 : cross.length = 2 := h
    rw [epgc_dihybrid, ← h2]; exact progenyMean_equal_eq_midParent bv cross
  | fourWay =>
    have h4 : cross.length = 4 := h
    rw [epgc_fourWay, ← h4]; exact progenyMean_equal_eq_midParent bv cross

example : CrossType.fourWay ≠ .threeWay ∧ ([3, 0, 2, 2] : List Nat).length = CrossType.fourWay.nparent := by decide

/-- **Three-way crosses**: the recurrent parent (first entry of the cross-map row) contributes one half, the other
    two a quarter each. -/
theorem uc_progeny_mean_three_way {α : Type} [Field α] [CharZero α] (bv : List α) (r f m : Nat) :
    progenyMean CrossType.threeWay.epgc bv [r, f, m] =
      bv.getD r 0 / 2 + bv.getD f 0 / 4 + bv.getD m 0 / 4 := by
  rw [epgc_threeWay]
  simp only [progenyMean, List.zipWith_cons_cons, List.zipWith_nil_right, List.sum_cons, List.sum_nil]
  ring

/-- … which is NOT the mid-parent value, and the difference changes which crosses are the best (seeded change
    C07-e2: `pmean = bvmat[cconfig,:].mean(0)`).  Four individuals with breeding values 4, 0, 5, 5, no spread, the two
    best of the four three-way crosses: {(0,2,3), (0,1,2)} by the criterion, {(0,2,3), (1,2,3)} by mid-parent value;
    the mid-parent choice fails the Spec evaluated on the criterion. -/
theorem uc_three_way_midparent_counterexample :
    let bv : List ℚ := [4, 0, 5, 5]
    let xmap := xmapix 4 3 true
    let crit := (ucTable CrossType.threeWay.epgc bv xmap [0, 0, 0, 0]).map (fun v => -v)
    let mid := (xmap.map (midParent bv)).map (fun v => -v)
    xmap = [[0, 1, 2], [0, 1, 3], [0, 2, 3], [1, 2, 3]] ∧
    sortingSubset crit 2 = [2, 0] ∧ sortingSubset mid 2 = [2, 3] ∧
    specTopK crit 2 (sortingSubset mid 2) = false := by decide +kernel

/-- **Usefulness-criterion selection with the exact optimiser is truncation on the criterion.**  The objective column
    is the negated criterion table (`obj_wt = 1`: the criterion is maximised): the decision is a best-`k` set, i.e. no
    unchosen candidate cross has a strictly larger usefulness criterion than a chosen one — for every cross type,
    every cross map and every spread. -/
theorem uc_truncation_exact {α : Type} [Field α] [LinearOrder α] [IsStrictOrderedRing α] (c : CrossType)
    (bv : List α) (xmap : List (List Nat)) (spread : List α) (k : Nat) :
    let crit := ucTable c.epgc bv xmap spread
    let S := sortingSubset (crit.map (fun v => -v)) k
    S.length = min k crit.length ∧ S.Nodup ∧ (∀ i ∈ S, i < crit.length) ∧
      ∀ i ∈ S, ∀ j, j < crit.length → j ∉ S → ∀ a b, crit[i]? = some a → crit[j]? = some b → b ≤ a := by
  intro crit S
  have ht := sortingSubset_topK (crit.map (fun v => -v)) k
  refine ⟨by simpa using ht.len, ht.nodup, fun i hi => by simpa using ht.valid i hi, ?_⟩
  intro i hi j _ hj a b ha hb
  have := ht.best i hi j hj (-a) (-b) (by simp [ha]) (by simp [hb])
  exact neg_le_neg_iff.mp this

example : ucTable (CrossType.threeWay.epgc : List ℚ) [4, 0, 5, 5] (xmapix 4 3 true) [0, 1, 0, 2] =
    [13 / 4, 17 / 4, 9 / 2, 9 / 2] := by decide +kernel

end C07
