/-
C15 — Breeding-value matrices round-trip through scaling without loss.
Property theorems only (helper lemmas: Lemmas/BVMatCol.lean, Lemmas/BVMatOps.lean).

Model: PybropsModel/Model/BVMat.lean.  `fromNumpyCol`, `unscaleCol`, `tmax … targmin` transcribe
DenseBreedingValueMatrix.from_numpy / unscale / the statistics for one trait column, `applyOp`
transcribes the taxa operations (the four the class defines, and the five it inherits unchanged
from DenseTaxaMatrix), `rescaleCol` … transcribe DenseScaledMatrix.

Scalars: any linearly ordered field `α`; an entry is `Option α` with `none` = NaN.  `sq` stands for
`numpy.sqrt`; every theorem holds for an ARBITRARY function `sq` unless a hypothesis names the part
of the square-root contract it needs (`0 ≤ sq x`, `sq 0 = 0`, `sq v * sq v = v`); `Real.sqrt`
meets all of them (see the non-vacuity examples at the end).

The property quantifies over all raw matrices and ALL sequences of taxa operations.  The as-is code
violates it for the inherited in-place / concat operations (findings D23–D25); that part is therefore
stated as `…_partial` (restricted operation set) next to `…_counterexample`s, with the full statement
kept in a comment.  `tstd`/`tvar` on a constant trait (D9) were repaired in /repo by 94b833ce, the `const`
guard of `from_numpy` / `rescale` (D26: a constant trait whose FLOAT mean is inexact) by `<commit>`: the
model is the repaired code, the theorems are full (the constant-trait ones no longer need `sq 0 = 0`, and
§3d proves them for ARBITRARY results of the two reductions), the old behaviour is
`tstd_prerepair_counterexample` / `inexact_mean_prerepair_counterexample`.
-/
import PybropsModel.Lemmas.BVMatHeap
import Mathlib.Analysis.Real.Sqrt
set_option autoImplicit false
set_option linter.unusedSectionVars false
set_option linter.unusedVariables false

namespace C15
open BVMat

section theorems
variable {α : Type} [Field α] [LinearOrder α] [IsStrictOrderedRing α]

/-! ## 1. Round trip: unscaling reproduces every raw value, missing values stay missing -/

/-- **Round trip.**  For every raw matrix (any number of taxa and traits, constant traits, NaN
    entries, whole NaN traits, zero taxa) `unscale(from_numpy(raw)) = raw`, entry by entry. -/
theorem unscale_from_numpy (sq : α → α) (cols : List (Col α)) (taxa : List Nat) :
    unscale (fromNumpy sq cols taxa) = cols :=
  unscale_fromNumpy sq cols taxa

/-- the same for one trait, read at one taxon -/
theorem unscale_from_numpy_entry (sq : α → α) (c : Col α) (i : Nat) :
    (unscaleCol (fromNumpyCol sq c))[i]? = c[i]? := by
  rw [unscaleCol_fromNumpyCol]

/-- **Missing stays missing.**  The stored matrix has a NaN exactly where the raw matrix has one. -/
theorem nan_stays_nan (sq : α → α) (c : Col α) :
    (fromNumpyCol sq c).mat.map Option.isNone = c.map Option.isNone := by
  by_cases h : present c = []
  · rw [fromNumpyCol_of_nil sq h]
  · rw [fromNumpyCol_of_ne sq h]
    exact isNone_map _ _ (standardise_none _ _) (standardise_some _ _)

/-- **Missing values do not contaminate the others.**  Location, scale and the stored value of
    every taxon that has a value are what they would be had the taxa with a missing value never
    been in the matrix. -/
theorem nan_isolated (sq : α → α) (c : Col α) :
    fromNumpyCol sq (c.filter Option.isSome) =
      { mat := (fromNumpyCol sq c).mat.filter Option.isSome,
        loc := (fromNumpyCol sq c).loc, scale := (fromNumpyCol sq c).scale } := by
  by_cases h : present c = []
  · have h' : present (c.filter Option.isSome) = [] := by rw [present_filter_isSome]; exact h
    rw [fromNumpyCol_of_nil sq h, fromNumpyCol_of_nil sq h']
  · have h' : present (c.filter Option.isSome) ≠ [] := by rw [present_filter_isSome]; exact h
    rw [fromNumpyCol_of_ne sq h, fromNumpyCol_of_ne sq h', present_filter_isSome]
    congr 1
    exact (filter_isSome_map _ _ (standardise_none _ _) (standardise_some _ _)).symm

/-! ## 2. The matrix is stored centred and scaled per trait, unit scale for a constant trait -/

/-- the stored values of a trait have mean 0 (whatever `sq` is) -/
theorem stored_centred (sq : α → α) (c : Col α) (h : present c ≠ []) :
    nanmean (fromNumpyCol sq c).mat = some 0 := by
  have hp := present_mat_fromNumpyCol sq h
  unfold nanmean
  rw [hp]
  have hne : (List.map (stdFn (meanL (present c)) (scaleOf sq (present c))) (present c)) ≠ [] := by
    simpa using h
  have he : (List.map (stdFn (meanL (present c)) (scaleOf sq (present c))) (present c)).isEmpty = false := by
    cases hl : (List.map (stdFn (meanL (present c)) (scaleOf sq (present c))) (present c)) with
    | nil => exact absurd hl hne
    | cons a l => rfl
  rw [he]
  simp only [Bool.false_eq_true, if_false]
  rw [meanL_map_stdFn_self h]

/-- a non-constant trait is stored with variance 1 (`hsq`: `sq` is a square root on the
    non-negative numbers) -/
theorem stored_unit_variance (sq : α → α) (hsq : ∀ v, 0 ≤ v → sq v * sq v = v) (c : Col α)
    (h : present c ≠ []) (hnc : varL (present c) ≠ 0) :
    nanvar (fromNumpyCol sq c).mat = some 1 := by
  have hsqv := hsq _ (varL_nonneg (present c))
  have hv : sq (varL (present c)) ≠ 0 := by
    intro h0; rw [h0, mul_zero] at hsqv; exact hnc hsqv.symm
  have hp := present_mat_fromNumpyCol sq h
  unfold nanvar
  rw [hp]
  have he : (List.map (stdFn (meanL (present c)) (scaleOf sq (present c))) (present c)).isEmpty = false := by
    cases hl : present c with
    | nil => exact absurd hl h
    | cons a l => rfl
  rw [he]
  simp only [Bool.false_eq_true, if_false]
  rw [varL_map_stdFn_self h, scaleOf_of_var_ne sq hnc, guardScale_of_ne hv]
  congr 1
  generalize varL (present c) = v at hv hsqv ⊢
  generalize sq v = s at hv hsqv ⊢
  rw [← hsqv]
  field_simp

/-- **Unit scale for a constant trait**: location = the constant, scale = 1, every stored value 0 — for EVERY
    function `sq` (since the fix of D26 the code reads constancy off the data, `fmin.reduce == fmax.reduce`,
    instead of relying on the computed deviation being exactly 0; before the fix this needed `sq 0 = 0`, which
    the FLOAT deviation of three times 0.1 does not deliver: `inexact_mean_prerepair_counterexample`). -/
theorem constant_trait_unit_scale (sq : α → α) (c : Col α) (a : α)
    (h : present c ≠ []) (hc : ∀ x ∈ present c, x = a) :
    (fromNumpyCol sq c).loc = some a ∧ (fromNumpyCol sq c).scale = some 1 ∧
      ∀ y ∈ present (fromNumpyCol sq c).mat, y = 0 := by
  have hm : meanL (present c) = a := meanL_const h hc
  have hv : varL (present c) = 0 := varL_const h hc
  rw [present_mat_fromNumpyCol sq h, fromNumpyCol_of_ne sq h, hm, scaleOf_of_var_zero sq hv]
  refine ⟨rfl, rfl, ?_⟩
  intro y hy
  obtain ⟨x, hx, rfl⟩ := List.mem_map.mp hy
  rw [hc x hx]; simp [stdFn]

/-! ## 3. Summaries on the original scale equal the summaries of the raw values

`colMax`, `colMin`, `colPtp`, `colArgmax`, `colArgmin` are numpy's NaN-propagating reductions of the
RAW column (`maxL_spec` … in Lemmas/BVMatStat.lean show that they are the greatest / least element
and the first position where it occurs); `nanmean`, `nanstd`, `nanvar` its NaN-ignoring moments. -/

/-- `tmax(unscale=True)` = maximum of the raw trait (NaN if the trait has a NaN, as `raw.max()` is) -/
theorem tmax_unscaled (sq : α → α) (hsq : ∀ x, 0 ≤ sq x) (c : Col α) :
    tmax true (fromNumpyCol sq c) = colMax c := by
  by_cases h : present c = []
  · rw [fromNumpyCol_of_nil sq h]
    simp only [tmax, if_true, colMax_of_present_nil h]
    rfl
  · rw [fromNumpyCol_of_ne sq h]
    have hs := scaleOf_pos hsq (present c)
    simp only [tmax, if_true]
    rw [colMax_map_standardise hs]
    cases colMax c with
    | none => rfl
    | some x =>
      simp only [Option.map_some, omul, oadd, lift2]
      rw [stdFn_mul_add hs.ne']

theorem tmin_unscaled (sq : α → α) (hsq : ∀ x, 0 ≤ sq x) (c : Col α) :
    tmin true (fromNumpyCol sq c) = colMin c := by
  by_cases h : present c = []
  · rw [fromNumpyCol_of_nil sq h]
    simp only [tmin, if_true, colMin_of_present_nil h]
    rfl
  · rw [fromNumpyCol_of_ne sq h]
    have hs := scaleOf_pos hsq (present c)
    simp only [tmin, if_true]
    rw [colMin_map_standardise hs]
    cases colMin c with
    | none => rfl
    | some x =>
      simp only [Option.map_some, omul, oadd, lift2]
      rw [stdFn_mul_add hs.ne']

/-- `trange(unscale=True)` = max − min of the raw trait -/
theorem trange_unscaled (sq : α → α) (hsq : ∀ x, 0 ≤ sq x) (c : Col α) :
    trange true (fromNumpyCol sq c) = colPtp c := by
  by_cases h : present c = []
  · rw [fromNumpyCol_of_nil sq h]
    simp only [trange, if_true, colPtp, colMax_of_present_nil h]
    rfl
  · rw [fromNumpyCol_of_ne sq h]
    have hs := scaleOf_pos hsq (present c)
    simp only [trange, if_true, colPtp]
    rw [colMax_map_standardise hs, colMin_map_standardise hs]
    cases colMax c with
    | none => rfl
    | some x =>
      cases colMin c with
      | none => rfl
      | some y =>
        simp only [Option.map_some, omul, osub, lift2, stdFn]
        congr 1
        field_simp
        ring

/-- `tmean(unscale=True)` = NaN-ignoring mean of the raw trait -/
theorem tmean_unscaled (sq : α → α) (c : Col α) : tmean true (fromNumpyCol sq c) = nanmean c := by
  by_cases h : present c = []
  · rw [fromNumpyCol_of_nil sq h]
    simp [tmean, nanmean, h]
  · rw [fromNumpyCol_of_ne sq h]
    have he : (present c).isEmpty = false := by
      cases hl : present c with
      | nil => exact absurd hl h
      | cons a l => rfl
    simp [tmean, nanmean, he]

/-- `targmax()` = position of the first maximum of the raw trait (numpy's `argmax`, first NaN if any) -/
theorem targmax_eq_raw (sq : α → α) (hsq : ∀ x, 0 ≤ sq x) (c : Col α) :
    targmax (fromNumpyCol sq c) = colArgmax c := by
  by_cases h : present c = []
  · rw [fromNumpyCol_of_nil sq h]; rfl
  · rw [fromNumpyCol_of_ne sq h]
    exact colArgmax_map_standardise (scaleOf_pos hsq _)

theorem targmin_eq_raw (sq : α → α) (hsq : ∀ x, 0 ≤ sq x) (c : Col α) :
    targmin (fromNumpyCol sq c) = colArgmin c := by
  by_cases h : present c = []
  · rw [fromNumpyCol_of_nil sq h]; rfl
  · rw [fromNumpyCol_of_ne sq h]
    exact colArgmin_map_standardise (scaleOf_pos hsq _)

/-- `tstd(unscale=True)` (= `scale * nanstd(mat)` since fix 94b833ce) is the standard deviation of the
    raw trait — for EVERY trait: constant ones (`sq 0`, not the stored scale 1), NaN entries, empty. -/
theorem tstd_unscaled (sq : α → α) (h1 : sq 1 = 1)
    (hsq : ∀ v, 0 ≤ v → sq v * sq v = v) (c : Col α) :
    tstd sq true (fromNumpyCol sq c) = nanstd sq c := by
  by_cases h : present c = []
  · rw [fromNumpyCol_of_nil sq h]
    simp [tstd, nanstd, nanvar, h, omul, lift2]
  · have hp := present_mat_fromNumpyCol sq h
    have hsqv := hsq _ (varL_nonneg (present c))
    have hne : (present c).isEmpty = false := by
      cases hl : present c with
      | nil => exact absurd hl h
      | cons a l => rfl
    have hv : nanvar (fromNumpyCol sq c).mat =
        some ((1 / scaleOf sq (present c)) * (1 / scaleOf sq (present c)) * varL (present c)) := by
      unfold nanvar
      rw [hp]
      have he : (List.map (stdFn (meanL (present c)) (scaleOf sq (present c))) (present c)).isEmpty = false := by
        cases hl : present c with
        | nil => exact absurd hl h
        | cons a l => rfl
      rw [he]
      simp only [Bool.false_eq_true, if_false]
      rw [varL_map_stdFn_self h]
    simp only [tstd, if_true]
    rw [hv]
    rw [fromNumpyCol_of_ne sq h]
    simp only [nanstd, nanvar, hne, Bool.false_eq_true, if_false, Option.map_some, omul, lift2]
    congr 1
    by_cases hz : varL (present c) = 0
    · rw [scaleOf_of_var_zero sq hz, hz]; simp
    · have hs : sq (varL (present c)) ≠ 0 := by
        intro hs0; rw [hs0, mul_zero] at hsqv; exact hz hsqv.symm
      rw [scaleOf_of_var_ne sq hz, guardScale_of_ne hs]
      have : 1 / sq (varL (present c)) * (1 / sq (varL (present c))) * varL (present c) = 1 := by
        generalize varL (present c) = v at hs hsqv ⊢
        generalize sq v = s at hs hsqv ⊢
        rw [← hsqv]; field_simp
      rw [this, h1, mul_one]

/-- `tvar(unscale=True)` (= `scale**2 * nanvar(mat)`) is the variance of the raw trait, for every trait -/
theorem tvar_unscaled (sq : α → α) (hsq : ∀ v, 0 ≤ v → sq v * sq v = v) (c : Col α) :
    tvar true (fromNumpyCol sq c) = nanvar c := by
  by_cases h : present c = []
  · rw [fromNumpyCol_of_nil sq h]
    simp [tvar, nanvar, h, omul, lift2]
  · have hp := present_mat_fromNumpyCol sq h
    have hsqv := hsq _ (varL_nonneg (present c))
    have hne : (present c).isEmpty = false := by
      cases hl : present c with
      | nil => exact absurd hl h
      | cons a l => rfl
    have hv : nanvar (fromNumpyCol sq c).mat =
        some ((1 / scaleOf sq (present c)) * (1 / scaleOf sq (present c)) * varL (present c)) := by
      unfold nanvar
      rw [hp]
      have he : (List.map (stdFn (meanL (present c)) (scaleOf sq (present c))) (present c)).isEmpty = false := by
        cases hl : present c with
        | nil => exact absurd hl h
        | cons a l => rfl
      rw [he]
      simp only [Bool.false_eq_true, if_false]
      rw [varL_map_stdFn_self h]
    simp only [tvar, if_true]
    rw [hv]
    rw [fromNumpyCol_of_ne sq h]
    simp only [nanvar, hne, Bool.false_eq_true, if_false, omul, lift2]
    congr 1
    by_cases hz : varL (present c) = 0
    · rw [scaleOf_of_var_zero sq hz, hz]; simp
    · have hs : sq (varL (present c)) ≠ 0 := by
        intro hs0; rw [hs0, mul_zero] at hsqv; exact hz hsqv.symm
      rw [scaleOf_of_var_ne sq hz, guardScale_of_ne hs]
      generalize varL (present c) = v at hs hsqv ⊢
      generalize sq v = s at hs hsqv ⊢
      rw [← hsqv]; field_simp

/-- **D9 (fixed by 94b833ce).**  The statistics as they were BEFORE the fix (`scale`, `scale**2`): for a
    constant trait they are 1 although the standard deviation and variance of the raw values are 0 —
    for every `sq` with `sq 0 = 0`.  The corpus keeps this trait as a regression case. -/
theorem tstd_prerepair_counterexample (sq : ℚ → ℚ) (hsq0 : sq 0 = 0) :
    tstdPrerepair (fromNumpyCol sq [some (5 : ℚ), some 5, some 5]) = some 1 ∧
    nanstd sq [some (5 : ℚ), some 5, some 5] = some 0 ∧
    tvarPrerepair (fromNumpyCol sq [some (5 : ℚ), some 5, some 5]) = some 1 ∧
    nanvar [some (5 : ℚ), some 5, some 5] = some 0 := by
  have hv : nanvar [some (5 : ℚ), some 5, some 5] = some 0 := by decide +kernel
  have hs : (fromNumpyCol sq [some (5 : ℚ), some 5, some 5]).scale = some 1 :=
    (constant_trait_unit_scale sq _ 5 (by decide) (by decide)).2.1
  refine ⟨?_, ?_, ?_, hv⟩
  · simp only [tstdPrerepair, hs]
  · simp only [nanstd, hv, Option.map_some, hsq0]
  · simp only [tvarPrerepair, hs, omul, lift2]
    norm_num

/-- **What the summaries are.**  For a trait without NaN, `colMax` is the greatest raw value, `colMin`
    the least, and `colArgmax` / `colArgmin` the FIRST taxon attaining it — so §3 says that `tmax`,
    `tmin`, `trange`, `targmax`, `targmin` on the original scale are exactly these. -/
theorem summaries_are_extrema (a : α) (l : List α) :
    colMax ((a :: l).map some) = some (maxL a l) ∧ maxL a l ∈ a :: l ∧ (∀ x ∈ a :: l, x ≤ maxL a l) ∧
    colMin ((a :: l).map some) = some (minL a l) ∧ minL a l ∈ a :: l ∧ (∀ x ∈ a :: l, minL a l ≤ x) ∧
    (a :: l)[colArgmax ((a :: l).map some)]? = some (maxL a l) ∧
    (∀ j, j < colArgmax ((a :: l).map some) → ∀ x, (a :: l)[j]? = some x → x < maxL a l) ∧
    (a :: l)[colArgmin ((a :: l).map some)]? = some (minL a l) ∧
    (∀ j, j < colArgmin ((a :: l).map some) → ∀ x, (a :: l)[j]? = some x → minL a l < x) := by
  have hd : dense ((a :: l).map some) = some (a :: l) := by
    unfold dense
    rw [present_map_some]
    simp
  have hf : firstNaN ((a :: l).map some) = none := by
    generalize a :: l = r
    induction r with
    | nil => rfl
    | cons b r ih => simp [firstNaN, ih]
  have hmax := maxL_spec a l
  have hmin := minL_spec a l
  have hamax := argmaxGo_spec [a] l a 0 rfl (by intro x hx; simp at hx; exact hx.le) (by intro j hj; omega)
  have hamin := argminGo_spec [a] l a 0 rfl (by intro x hx; simp at hx; exact hx.ge) (by intro j hj; omega)
  have hcam : colArgmax ((a :: l).map some) = argmaxGo a 0 1 l := by
    unfold colArgmax; rw [hf, present_map_some]
  have hcan : colArgmin ((a :: l).map some) = argminGo a 0 1 l := by
    unfold colArgmin; rw [hf, present_map_some]
  refine ⟨by unfold colMax; rw [hd], hmax.1, hmax.2, by unfold colMin; rw [hd], hmin.1, hmin.2, ?_, ?_, ?_, ?_⟩
  · rw [hcam]; exact hamax.1
  · rw [hcam]; exact hamax.2.2
  · rw [hcan]; exact hamin.1
  · rw [hcan]; exact hamin.2.2

/-! ## 3b. Summaries in ANY state of the object

After an inherited in-place routine (D24/D25), or after the caller re-assigns `location` / `scale` or
writes into `mat`, location and scale are no longer the mean and deviation of what the matrix holds.
Everything but the mean is still computed from the stored values and therefore still right: for any
stored column, any location and any POSITIVE scale, the summaries requested on the original scale are
the summaries of what `unscale()` returns.  (`tmean(unscale=True)` returns the location itself:
`remove_stale_location_counterexample`.) -/

theorem tmax_any_state (t : Trait α) (m s : α) (hl : t.loc = some m) (hs : t.scale = some s) (hpos : 0 < s) :
    tmax true t = colMax (unscaleCol t) := by
  rw [unscaleCol_eq_map t m s hl hs, colMax_map_unscale hpos]
  simp only [tmax, if_true, hl, hs]
  cases colMax t.mat with
  | none => rfl
  | some x =>
    show some (x * s + m) = some (s * x + m)
    rw [mul_comm]

theorem tmin_any_state (t : Trait α) (m s : α) (hl : t.loc = some m) (hs : t.scale = some s) (hpos : 0 < s) :
    tmin true t = colMin (unscaleCol t) := by
  rw [unscaleCol_eq_map t m s hl hs, colMin_map_unscale hpos]
  simp only [tmin, if_true, hl, hs]
  cases colMin t.mat with
  | none => rfl
  | some x =>
    show some (x * s + m) = some (s * x + m)
    rw [mul_comm]

theorem trange_any_state (t : Trait α) (m s : α) (hl : t.loc = some m) (hs : t.scale = some s) (hpos : 0 < s) :
    trange true t = colPtp (unscaleCol t) := by
  rw [unscaleCol_eq_map t m s hl hs]
  simp only [trange, if_true, hs, colPtp]
  rw [colMax_map_unscale hpos, colMin_map_unscale hpos]
  cases colMax t.mat with
  | none => rfl
  | some x =>
    cases colMin t.mat with
    | none => rfl
    | some y =>
      show some ((x - y) * s) = some (affFn m s x - affFn m s y)
      unfold affFn
      congr 1
      ring

theorem targmax_any_state (t : Trait α) (m s : α) (hl : t.loc = some m) (hs : t.scale = some s) (hpos : 0 < s) :
    targmax t = colArgmax (unscaleCol t) := by
  rw [unscaleCol_eq_map t m s hl hs, colArgmax_map_unscale hpos]; rfl

theorem targmin_any_state (t : Trait α) (m s : α) (hl : t.loc = some m) (hs : t.scale = some s) (hpos : 0 < s) :
    targmin t = colArgmin (unscaleCol t) := by
  rw [unscaleCol_eq_map t m s hl hs, colArgmin_map_unscale hpos]; rfl

/-- The fixed `tvar(unscale=True)` is the variance of what `unscale()` returns in ANY state of the
    matrix (any location, any scale, no `sq` involved) — in particular after the inherited in-place
    operations, whose stale scale it used to report (the stale LOCATION is still reported by
    `tmean`: D25, `remove_stale_location_counterexample`). -/
theorem tvar_unscaled_any_state (t : Trait α) (m s : α) (hl : t.loc = some m) (hs : t.scale = some s) :
    tvar true t = nanvar (unscaleCol t) := by
  have hp : present (unscaleCol t) = (present t.mat).map (fun x => s * x + m) := by
    unfold unscaleCol
    rw [hl, hs]
    exact present_map _ _ (unscaleEntry_none _ _) (unscaleEntry_some _ _)
  simp only [tvar, if_true, hs]
  unfold nanvar
  rw [hp]
  cases hpm : present t.mat with
  | nil => rfl
  | cons a l =>
    simp only [List.map_cons, List.isEmpty_cons, Bool.false_eq_true, if_false, omul, lift2]
    congr 1
    exact (varL_map_affine (l := a :: l) (by simp) s m).symm

/-- `tstd(unscale=True)` is the standard deviation of `unscale()` in any state with a non-negative scale
    (square-root contract: the non-negative root is unique, so `√(s²·v) = s·√v`) -/
theorem tstd_any_state (sq : α → α) (hc : Spec.SqrtContract sq) (t : Trait α) (m s : α)
    (hl : t.loc = some m) (hs : t.scale = some s) (hs0 : 0 ≤ s) :
    tstd sq true t = nanstd sq (unscaleCol t) := by
  have hv := tvar_unscaled_any_state t m s hl hs
  unfold nanstd
  rw [← hv]
  simp only [tstd, tvar, if_true, hs]
  unfold nanvar
  cases hp : (present t.mat).isEmpty with
  | true => rfl
  | false =>
    simp only [Bool.false_eq_true, if_false, Option.map_some, omul, lift2]
    congr 1
    exact (sq_scale hc hs0 (varL_nonneg _)).symm

/-- **Any-state Spec soundness.**  `Spec.anyStateCol` — the unscaling formula and every statistic except
    the mean, against the object's own `unscale()` — is what `c15.spec_state` evaluates after every direct
    edit of one object and what `c15.spec` evaluates (as `self:` clauses) in the stale states of a history.
    At zero tolerance it accepts what the model shows for ANY stored column, location and positive scale. -/
theorem any_state_spec_sound (sq sqT : α → α) (hc : Spec.SqrtContract sq) (mag : α) (t : Trait α) (m s : α)
    (hl : t.loc = some m) (hs : t.scale = some s) (hpos : 0 < s) (hne : t.mat ≠ []) :
    Spec.anyStateCol sqT Spec.tol0 mag true (Spec.modelObs sq t) = [] := by
  have hown : unscaleCol t ≠ [] := by
    unfold unscaleCol
    intro h
    exact hne (List.map_eq_nil_iff.mp h)
  have hform : Spec.formulaOk Spec.tol0 mag (Spec.modelObs sq t) = true := Spec.rawOk0_self mag _
  have hmax : Spec.statOk Spec.tol0 mag Spec.listMax (unscaleCol t) (tmax true t) = true := by
    rw [tmax_any_state t m s hl hs hpos, ← Spec.expectProp_listMax]; exact Spec.statOk0_prop mag _ _
  have hmin : Spec.statOk Spec.tol0 mag Spec.listMin (unscaleCol t) (tmin true t) = true := by
    rw [tmin_any_state t m s hl hs hpos, ← Spec.expectProp_listMin]; exact Spec.statOk0_prop mag _ _
  have hrng : Spec.statOk Spec.tol0 mag (fun l => Spec.listMax l - Spec.listMin l) (unscaleCol t) (trange true t) = true := by
    rw [trange_any_state t m s hl hs hpos, ← Spec.expectProp_ptp]; exact Spec.statOk0_prop mag _ _
  have hamax : Spec.argOkOwn Spec.tol0 mag Spec.listMax (unscaleCol t) (some (targmax t)) = true := by
    unfold Spec.argOkOwn
    rw [targmax_any_state t m s hl hs hpos, Spec.argOk0_colArgmax mag _ hown]; rfl
  have hamin : Spec.argOkOwn Spec.tol0 mag Spec.listMin (unscaleCol t) (some (targmin t)) = true := by
    unfold Spec.argOkOwn
    rw [targmin_any_state t m s hl hs hpos, Spec.argOk0_colArgmin mag _ hown]; rfl
  have hsd : Spec.stdOk sqT Spec.tol0 mag (unscaleCol t) (tstd sq true t) = true := by
    rw [tstd_any_state sq hc t m s hl hs hpos.le]; exact Spec.stdOk0_nanstd sq sqT hc mag _
  have hvr : Spec.varOk sqT Spec.tol0 mag (unscaleCol t) (tvar true t) = true := by
    rw [tvar_unscaled_any_state t m s hl hs]; exact Spec.varOk0_nanvar sqT mag _
  simp only [Spec.anyStateCol, Spec.statsAnyCol, Spec.modelObs, hl, hs, Option.isSome_some, Bool.and_self, if_true] at *
  simp only [hform, hmax, hmin, hrng, hamax, hamin, hsd, hvr, if_true, List.append_nil]

/-- **… along EVERY history.**  Whatever sequence of the nine taxa operations — the four the class defines
    and the five it inherits, in any order, with any operands — is applied to `from_numpy(raw)` as the
    code performs them, every trait of every resulting matrix passes `Spec.anyStateCol` at zero tolerance:
    `unscale()` is `scale·mat + location` and the maximum, minimum, range, standard deviation, variance
    and arg-extrema on the original scale are those of `unscale()`.  (What the inherited routines break is
    WHICH raw values `unscale()` returns — D23/D24 — and the mean — D25 —, nothing else.) -/
theorem history_any_state (sq sqT : α → α) (hc : Spec.SqrtContract sq) (mag : α) (needs : Bool)
    (ops : List (Op α)) (cols : List (Col α)) (taxa : List Nat) (b : BV α)
    (hb : run sq needs ops (fromNumpy sq cols taxa) = .ok b) :
    ∀ t ∈ b.traits, t.mat ≠ [] → Spec.anyStateCol sqT Spec.tol0 mag true (Spec.modelObs sq t) = [] := by
  intro t ht hne
  have hg := good_run sq hc.nonneg needs ops _ b (good_fromNumpy sq hc.nonneg cols taxa) hb t ht
  rcases hg with ⟨hl, hs⟩ | ⟨m, s, hl, hs, hpos⟩
  · have hform : Spec.formulaOk Spec.tol0 mag (Spec.modelObs sq t) = true := Spec.rawOk0_self mag _
    simp only [Spec.anyStateCol, hform, if_true, List.nil_append]
    simp [Spec.modelObs, hl]
  · exact any_state_spec_sound sq sqT hc mag t m s hl hs hpos hne

/-! ## 3c. NaN edge cases of `from_numpy` (what numpy returns with a RuntimeWarning) -/

/-- **A trait without any value** (all NaN, any number of taxa): location and scale are NaN, the stored
    column is the raw column (all NaN), `unscale()` returns it, and every summary on the original scale is
    NaN (`nanmean` / `nanstd` of an all-NaN slice are NaN). -/
theorem all_nan_trait (sq : α → α) (c : Col α) (h : ∀ x ∈ c, x = none) :
    fromNumpyCol sq c = { mat := c, loc := none, scale := none } ∧ unscaleCol (fromNumpyCol sq c) = c ∧
    tmax true (fromNumpyCol sq c) = none ∧ tmin true (fromNumpyCol sq c) = none ∧
    trange true (fromNumpyCol sq c) = none ∧ tmean true (fromNumpyCol sq c) = none ∧
    tstd sq true (fromNumpyCol sq c) = none ∧ tvar true (fromNumpyCol sq c) = none := by
  have hp := present_nil_of_all_none h
  have hf := fromNumpyCol_of_nil sq hp
  refine ⟨hf, unscaleCol_fromNumpyCol sq c, ?_, ?_, ?_, ?_, ?_, ?_⟩
  · rw [hf]; simp only [tmax, if_true, colMax_of_present_nil hp]; rfl
  · rw [hf]; simp only [tmin, if_true, colMin_of_present_nil hp]; rfl
  · rw [hf]; simp only [trange, if_true, colPtp, colMax_of_present_nil hp]; rfl
  · rw [hf]; rfl
  · rw [hf]; simp [tstd, omul, lift2]
  · rw [hf]; simp [tvar, omul, lift2]

/-- **A single taxon**: location = its value, scale 1, stored value 0 (for every `sq`); also when the
    other taxa of the trait are all missing (`constant_trait_unit_scale` with one present value). -/
theorem single_taxon_trait (sq : α → α) (a : α) :
    fromNumpyCol sq [some a] = { mat := [some 0], loc := some a, scale := some 1 } := by
  have hm : meanL (present [some a]) = a := by simp [present, meanL, sumL]
  have hv : varL (present [some a]) = 0 := by simp [present, varL, meanL, sumL]
  rw [fromNumpyCol_of_ne sq (by simp [present]), hm, scaleOf_of_var_zero sq hv]
  simp [standardise_some, stdFn]

/-- **Constant among the observed taxa, missing elsewhere**: the missing taxa stay missing, every
    observed taxon is stored as 0 under location = the constant and unit scale, and unscaling returns
    the constant exactly where it was observed (for every `sq`). -/
theorem constant_with_nan_trait (sq : α → α) (c : Col α) (a : α)
    (h : present c ≠ []) (hc : ∀ x ∈ present c, x = a) :
    (fromNumpyCol sq c).mat = c.map (Option.map (fun _ => (0 : α))) ∧
    (fromNumpyCol sq c).loc = some a ∧ (fromNumpyCol sq c).scale = some 1 ∧
    unscaleCol (fromNumpyCol sq c) = c := by
  have hm : meanL (present c) = a := meanL_const h hc
  have hv : varL (present c) = 0 := varL_const h hc
  refine ⟨?_, ?_, ?_, unscaleCol_fromNumpyCol sq c⟩
  · rw [fromNumpyCol_of_ne sq h, hm, scaleOf_of_var_zero sq hv]
    apply List.map_congr_left
    intro x hx
    cases x with
    | none => rfl
    | some x =>
      have : x ∈ present c := by
        unfold present
        exact List.mem_filterMap.mpr ⟨some x, hx, rfl⟩
      rw [hc x this]
      simp [standardise_some, stdFn]
  · rw [fromNumpyCol_of_ne sq h, hm]
  · rw [fromNumpyCol_of_ne sq h, scaleOf_of_var_zero sq hv]

/-! ## 3d. Defect D26 and its fix: the mean and deviation numpy delivers are only NEAR the exact ones

`fromNumpyColWith mu sd` (Model/BVMatState.lean) is `from_numpy` as it is — with the `const` guard of the fix —
for ARBITRARY functions `mu`, `sd` in the place of `numpy.nanmean` / `numpy.nanstd` (whatever they round to);
`fromNumpyColWithPrerepair` is the code before the fix.  Everything the property says about ONE matrix except
"tmean = mean of the raw values" holds for every `mu` and every non-negative `sd`; that is the sense in which
the statement holds "to rounding error" of the two reductions. -/

/-- the model of §1–§3 is this one with the exact mean and deviation, for every `sq` -/
theorem from_numpy_with_exact (sq : α → α) (c : Col α) :
    fromNumpyColWith meanL (fun l => sq (varL l)) c = fromNumpyCol sq c := by
  unfold fromNumpyColWith
  cases hp : present c with
  | nil =>
    rw [fromNumpyCol_of_nil sq hp, map_none_eq_self hp]
  | cons b l =>
    have hne : present c ≠ [] := by rw [hp]; exact List.cons_ne_nil _ _
    rw [fromNumpyCol_of_ne sq hne, hp]
    by_cases hmm : minL b l = maxL b l
    · have hall := const_of_max_eq_min b l hmm.symm
      have hm : meanL (b :: l) = minL b l := meanL_const (List.cons_ne_nil _ _) hall
      have hv : varL (b :: l) = 0 := varL_const (List.cons_ne_nil _ _) hall
      simp only [hmm, if_true]
      rw [hm, scaleOf_of_var_zero sq hv, ← hmm]
    · have hv : varL (b :: l) ≠ 0 := fun h0 => hmm ((min_eq_max_iff_varL_eq_zero b l).mpr h0)
      simp only [hmm, if_false]
      rw [scaleOf_of_var_ne sq hv]

/-- **The fix changes nothing in exact arithmetic**: for a square root with `sq 0 = 0` the code before the
    fix computes the same matrix (the `const` guard only matters when the computed deviation of a constant
    trait is not exactly 0 — i.e. in floating point). -/
theorem prerepair_eq_from_numpy_exact (sq : α → α) (h0 : sq 0 = 0) (c : Col α) :
    fromNumpyColPrerepair sq c = fromNumpyCol sq c := by
  by_cases h : present c = []
  · rw [fromNumpyColPrerepair_of_nil sq h, fromNumpyCol_of_nil sq h]
  · rw [fromNumpyColPrerepair_of_ne sq h, fromNumpyCol_of_ne sq h, scaleOf_eq_guardScale h0]

/-- **Round trip under any rounding of the two reductions**: `unscale(from_numpy(raw)) = raw`, missing values
    exactly where they were, for EVERY `mu` and `sd`. -/
theorem unscale_from_numpy_any_rounding (mu sd : List α → α) (c : Col α) :
    unscaleCol (fromNumpyColWith mu sd c) = c ∧
    (fromNumpyColWith mu sd c).mat.map Option.isNone = c.map Option.isNone := by
  unfold fromNumpyColWith
  cases hp : present c with
  | nil =>
    simp only []
    constructor
    · unfold unscaleCol
      simp only [List.map_map]
      conv_rhs => rw [← map_none_eq_self hp]
      apply List.map_congr_left
      intro x _
      rfl
    · rw [map_none_eq_self hp]
  | cons b l =>
    have key : ∀ m s : α, s ≠ 0 →
        unscaleCol { mat := c.map (standardise (some m) (some s)), loc := some m, scale := some s } = c ∧
        (c.map (standardise (some m) (some s))).map Option.isNone = c.map Option.isNone := by
      intro m s hs
      refine ⟨?_, isNone_map _ _ (standardise_none _ _) (standardise_some _ _)⟩
      unfold unscaleCol
      simp only [List.map_map]
      conv_rhs => rw [← List.map_id c]
      apply List.map_congr_left
      intro x _
      cases x with
      | none => rfl
      | some x =>
        simp only [Function.comp, standardise_some, unscaleEntry_some, id]
        congr 1
        exact unscale_stdFn hs m x
    by_cases hmm : minL b l = maxL b l
    · simp only [hmm, if_true]
      rw [← hmm]
      exact key _ _ one_ne_zero
    · simp only [hmm, if_false]
      exact key _ _ (guardScale_ne_zero _)

/-- **Fix of D26, for every rounding.**  A trait that is constant among its observed taxa is stored with
    location = the constant, unit scale and zeros, and unscaling reproduces it — WHATEVER the mean `mu` and the
    deviation `sd` evaluate to (so also when the float mean of three times 0.1 is not 0.1).  This is the clause
    "unit scale for constant traits" without any assumption on the arithmetic of the two reductions. -/
theorem constant_trait_any_rounding (mu sd : List α → α) (c : Col α) (a : α)
    (h : present c ≠ []) (hc : ∀ x ∈ present c, x = a) :
    (fromNumpyColWith mu sd c).loc = some a ∧ (fromNumpyColWith mu sd c).scale = some 1 ∧
    (∀ y ∈ present (fromNumpyColWith mu sd c).mat, y = 0) ∧ unscaleCol (fromNumpyColWith mu sd c) = c := by
  have hshape : ∃ b l, present c = b :: l ∧ minL b l = maxL b l ∧ minL b l = a := by
    cases hp : present c with
    | nil => exact absurd hp h
    | cons b l =>
      rw [hp] at hc
      exact ⟨b, l, rfl, (max_eq_min_of_const b l a hc).symm, hc _ (minL_spec b l).1⟩
  obtain ⟨b, l, hp, hmm, hmin⟩ := hshape
  have hf : fromNumpyColWith mu sd c =
      { mat := c.map (standardise (some a) (some 1)), loc := some a, scale := some 1 } := by
    unfold fromNumpyColWith
    rw [hp]
    simp only [hmm, if_true]
    rw [← hmm, hmin]
  refine ⟨by rw [hf], by rw [hf], ?_, (unscale_from_numpy_any_rounding mu sd c).1⟩
  rw [hf]
  intro y hy
  rw [present_map _ _ (standardise_none _ _) (standardise_some _ _), hp] at hy
  obtain ⟨x, hx, rfl⟩ := List.mem_map.mp hy
  rw [hp] at hc
  rw [hc x hx]; simp [stdFn]

/-- the trait `from_numpy` builds under any rounding has a location and a POSITIVE scale as soon as the
    computed deviation is non-negative (what `numpy.nanstd`, a square root, always is) -/
theorem from_numpy_any_rounding_good (mu sd : List α → α) (hsd : ∀ l, 0 ≤ sd l) (c : Col α)
    (h : present c ≠ []) :
    ∃ m s, (fromNumpyColWith mu sd c).loc = some m ∧ (fromNumpyColWith mu sd c).scale = some s ∧ 0 < s := by
  unfold fromNumpyColWith
  cases hp : present c with
  | nil => exact absurd hp h
  | cons b l =>
    by_cases hmm : minL b l = maxL b l
    · simp only [hmm, if_true]
      exact ⟨_, _, rfl, rfl, one_pos⟩
    · simp only [hmm, if_false]
      exact ⟨_, _, rfl, rfl, guardScale_pos (hsd _)⟩

/-- **Summaries under any rounding.**  For every `mu` and every non-negative `sd`: the maximum, minimum,
    range, variance and arg-extrema requested on the original scale are EXACTLY those of the raw trait (they
    are computed from the stored values, and the affine map is undone exactly), and so is the standard
    deviation under the square-root contract.  Only `tmean(unscale=True)`, which returns the stored location,
    inherits the rounding of `mu` (and is the constant itself for a constant trait:
    `constant_trait_any_rounding`). -/
theorem summaries_any_rounding (sq : α → α) (hcq : Spec.SqrtContract sq) (mu sd : List α → α)
    (hsd : ∀ l, 0 ≤ sd l) (c : Col α) (h : present c ≠ []) :
    tmax true (fromNumpyColWith mu sd c) = colMax c ∧ tmin true (fromNumpyColWith mu sd c) = colMin c ∧
    trange true (fromNumpyColWith mu sd c) = colPtp c ∧
    targmax (fromNumpyColWith mu sd c) = colArgmax c ∧ targmin (fromNumpyColWith mu sd c) = colArgmin c ∧
    tvar true (fromNumpyColWith mu sd c) = nanvar c ∧ tstd sq true (fromNumpyColWith mu sd c) = nanstd sq c := by
  obtain ⟨m, s, hl, hs, hpos⟩ := from_numpy_any_rounding_good mu sd hsd c h
  have hu := (unscale_from_numpy_any_rounding mu sd c).1
  refine ⟨?_, ?_, ?_, ?_, ?_, ?_, ?_⟩
  · rw [tmax_any_state _ m s hl hs hpos, hu]
  · rw [tmin_any_state _ m s hl hs hpos, hu]
  · rw [trange_any_state _ m s hl hs hpos, hu]
  · rw [targmax_any_state _ m s hl hs hpos, hu]
  · rw [targmin_any_state _ m s hl hs hpos, hu]
  · rw [tvar_unscaled_any_state _ m s hl hs, hu]
  · rw [tstd_any_state sq hcq _ m s hl hs hpos.le, hu]

/-- **D26, before the fix.**  The code as it was, with a mean that is off by `1/1000` (and the deviation that
    goes with it): the constant trait `[1/10, 1/10, 1/10]` gets scale `1/1000` instead of 1 and every taxon is
    stored as `-1` instead of 0 — what numpy did with `0.1` at a distance of `1.4e-17`.  With the same `mu` and
    `sd` the code as it is stores location `1/10`, scale 1 and zeros (`constant_trait_any_rounding`; evaluated
    in the non-vacuity examples below). -/
theorem inexact_mean_prerepair_counterexample :
    fromNumpyColWithPrerepair (fun l => meanL l + 1 / 1000) (fun _ => (1 / 1000 : ℚ))
        [some (1 / 10), some (1 / 10), some (1 / 10)]
      = { mat := [some (-1), some (-1), some (-1)], loc := some (101 / 1000), scale := some (1 / 1000) } ∧
    fromNumpyColWith (fun l => meanL l + 1 / 1000) (fun _ => (1 / 1000 : ℚ))
        [some (1 / 10), some (1 / 10), some (1 / 10)]
      = { mat := [some 0, some 0, some 0], loc := some (1 / 10), scale := some 1 } := by
  constructor <;> decide +kernel

/-- the same three values in binary64 (Lean's `Float`, evaluated by the kernel): their float mean is not
    `0.1`, so the deviations are not `0.0` and the `scale == 0.0` guard alone (the code before the fix) does
    not fire — while the comparison the fix adds, `min == max` of the values themselves, is exact -/
theorem inexact_mean_float_prerepair_counterexample :
    ((((0.1 : Float) + 0.1 + 0.1) / 3.0 == 0.1) = false) ∧
    (((0.1 : Float) - ((0.1 : Float) + 0.1 + 0.1) / 3.0 == 0.0) = false) ∧
    (((if (0.1 : Float) < 0.1 then (0.1 : Float) else 0.1) == (if (0.1 : Float) < 0.1 then (0.1 : Float) else 0.1)) = true) := by
  refine ⟨?_, ?_, ?_⟩ <;> decide +kernel

/-- **`rescale` under any rounding** is `from_numpy` (under the same rounding) of the unscaled values: the
    second copy of the mechanism carries the same guard, so `constant_trait_any_rounding`,
    `unscale_from_numpy_any_rounding` and `summaries_any_rounding` apply to its result. -/
theorem rescale_with_is_from_numpy_with (mu sd : List α → α) (t : Trait α) :
    rescaleColWith mu sd t = fromNumpyColWith mu sd (scaledUnscaleCol t) := by
  unfold rescaleColWith fromNumpyColWith
  dsimp only
  generalize scaledUnscaleCol t = out
  cases present out with
  | nil => rfl
  | cons b l =>
    dsimp only
    split
    · congr 1
      apply List.map_congr_left
      intro x _
      exact transformEntry_eq_standardise _ _ _
    · congr 1
      apply List.map_congr_left
      intro x _
      exact transformEntry_eq_standardise _ _ _

/-! ## 3e. Histories under any rounding of the two reductions -/

/-- for the exact standardiser `applyOpWith` IS the code's operation (the four class-defined methods) -/
theorem applyOpWith_exact (sq : α → α) (needs : Bool) (op : Op α) (h : op.restandardises = true) (b : BV α) :
    applyOpWith (fromNumpyCol sq) op b = applyOp sq needs op b := by
  rw [applyOp_restandardises sq needs op h b]
  unfold applyOpWith
  cases applyRaw op (unscale b, b.taxa) with
  | error e => rfl
  | ok r => rfl

/-- **Any history, any rounding.**  Let `F` be ANY way of turning a raw trait column into (stored column, location,
    scale) from which unscaling recovers the column — `fromNumpyColWith mu sd` for every `mu`, `sd`
    (`unscale_from_numpy_any_rounding`), hence `from_numpy` with whatever the float mean and deviation round to.
    Then every history of `select_taxa / delete_taxa / insert_taxa / adjoin_taxa` (any length, any operands, any
    index lists) applied to the matrix built from `raw` yields exactly the matrix built by `F` from the same edits
    of the raw data, and is rejected exactly when the raw edit is: every retained taxon's raw values are
    preserved and every trait of every intermediate matrix is `F` of its raw column (so the constant-trait and
    summary clauses of §3d hold after every step). -/
theorem history_refines_from_numpy_any_rounding (F : Col α → Trait α) (hF : ∀ c, unscaleCol (F c) = c)
    (ops : List (Op α)) (cols : List (Col α)) (taxa : List Nat) :
    runWith F ops (fromNumpyF F cols taxa) = (runRaw ops (cols, taxa)).map (fun r => fromNumpyF F r.1 r.2) := by
  have hun : ∀ cs ts, unscale (fromNumpyF F cs ts) = cs := by
    intro cs ts
    unfold unscale fromNumpyF
    simp only [List.map_map]
    conv_rhs => rw [← List.map_id cs]
    apply List.map_congr_left
    intro c _
    exact hF c
  induction ops generalizing cols taxa with
  | nil => rfl
  | cons op ops ih =>
    simp only [runWith, runRaw, applyOpWith]
    rw [hun cols taxa]
    have ht : (fromNumpyF F cols taxa).taxa = taxa := rfl
    rw [ht]
    cases hr : applyRaw op (cols, taxa) with
    | error e => rfl
    | ok r =>
      simp only [Except.map]
      exact ih r.1 r.2

/-- … instantiated: `from_numpy` with arbitrary results `mu`, `sd` of `numpy.nanmean` / `numpy.nanstd` -/
theorem history_preserves_raw_any_rounding (mu sd : List α → α) (ops : List (Op α)) (cols : List (Col α))
    (taxa : List Nat) (b : BV α)
    (hb : runWith (fromNumpyColWith mu sd) ops (fromNumpyF (fromNumpyColWith mu sd) cols taxa) = .ok b) :
    ∃ r, runRaw ops (cols, taxa) = .ok r ∧ unscale b = r.1 ∧ b.taxa = r.2 ∧
      b.traits = r.1.map (fromNumpyColWith mu sd) := by
  have hF : ∀ c, unscaleCol (fromNumpyColWith mu sd c) = c := fun c => (unscale_from_numpy_any_rounding mu sd c).1
  have := history_refines_from_numpy_any_rounding (fromNumpyColWith mu sd) hF ops cols taxa
  rw [hb] at this
  cases hr : runRaw ops (cols, taxa) with
  | error e => rw [hr] at this; cases this
  | ok r =>
    rw [hr] at this
    simp only [Except.map] at this
    have hb' : b = fromNumpyF (fromNumpyColWith mu sd) r.1 r.2 := by injection this
    refine ⟨r, rfl, ?_, by rw [hb']; rfl, by rw [hb']; rfl⟩
    rw [hb']
    unfold unscale fromNumpyF
    simp only [List.map_map]
    conv_rhs => rw [← List.map_id r.1]
    apply List.map_congr_left
    intro c _
    exact hF c

/-! ## 4. Taxa operations: histories -/

/-
FULL STATEMENT (false of the as-is model, see `concat_counterexample`, `append_counterexample`,
`incorp_counterexample`, `remove_stale_location_counterexample`):
  for ALL operation lists `ops` (select, delete, insert, adjoin, reorder, remove, append, incorp,
  concat) and all raw matrices,
    (run sq needs ops (fromNumpy sq cols taxa)).map rawOf = runRaw ops (cols, taxa)
  and every resulting matrix equals `fromNumpy sq` of its raw content (so that all summaries on the
  original scale are those of the raw values).
-/

/-- **Refinement of a whole history.**  Any sequence — of any length, with any operands, NaN and
    constant traits included — of the operations the breeding-value class defines itself
    (`select_taxa`, `delete_taxa`, `insert_taxa`, `adjoin_taxa`) applied to `from_numpy(raw)` yields
    exactly `from_numpy` of the same edits applied to the raw data, and is rejected exactly when the
    raw edit is.  Hence (§1–§3) it reproduces every retained taxon's raw values, is stored centred
    and scaled, and all its summaries are those of the retained raw values. -/
theorem history_refines_from_numpy_partial (sq : α → α) (needs : Bool) (ops : List (Op α))
    (h : ∀ op ∈ ops, op.restandardises = true) (cols : List (Col α)) (taxa : List Nat) :
    run sq needs ops (fromNumpy sq cols taxa) =
      (runRaw ops (cols, taxa)).map (fun r => fromNumpy sq r.1 r.2) := by
  induction ops generalizing cols taxa with
  | nil => rfl
  | cons op ops ih =>
    have hop := h op List.mem_cons_self
    have hrest : ∀ o ∈ ops, o.restandardises = true := fun o ho => h o (List.mem_cons_of_mem _ ho)
    simp only [run, runRaw]
    rw [applyOp_restandardises sq needs op hop]
    have : rawOf (fromNumpy sq cols taxa) = (cols, taxa) := by
      simp [rawOf, unscale_fromNumpy, fromNumpy_taxa]
    rw [this]
    cases hr : applyRaw op (cols, taxa) with
    | error e => rfl
    | ok r =>
      simp only [Except.map]
      exact ih hrest r.1 r.2

/-- **The same with numpy's index objects.**  `select_taxa`, `delete_taxa`, `insert_taxa` may be called
    with negative positions, slices, boolean masks and several insert positions (one value each, or
    one value broadcast); each argument is normalised by numpy's rules for the CURRENT number of taxa
    (`OpIx.norm`, the normalisers of C03).  Any such history refines `from_numpy` of the raw edits, and
    is rejected (IndexError / ValueError) exactly when the raw edit is. -/
theorem history_ix_refines_from_numpy_partial (sq : α → α) (needs : Bool) (ops : List (OpIx α))
    (h : ∀ o ∈ ops, o.restandardises = true) (cols : List (Col α)) (taxa : List Nat) :
    runIx sq needs ops (fromNumpy sq cols taxa) =
      (runRawIx ops (cols, taxa)).map (fun r => fromNumpy sq r.1 r.2) := by
  induction ops generalizing cols taxa with
  | nil => rfl
  | cons o ops ih =>
    have ho := h o List.mem_cons_self
    have hrest : ∀ x ∈ ops, x.restandardises = true := fun x hx => h x (List.mem_cons_of_mem _ hx)
    simp only [runIx, runRawIx, fromNumpy_taxa]
    cases hn : o.norm taxa.length with
    | error e => rfl
    | ok op =>
      have hop := norm_restandardises o taxa.length op ho hn
      simp only []
      rw [applyOp_restandardises sq needs op hop]
      have : rawOf (fromNumpy sq cols taxa) = (cols, taxa) := by
        simp [rawOf, unscale_fromNumpy, fromNumpy_taxa]
      rw [this]
      cases hr : applyRaw op (cols, taxa) with
      | error e => rfl
      | ok r =>
        simp only [Except.map]
        exact ih hrest r.1 r.2

/-- **Raw values are preserved along a history** of the four operations above, in-place
    `reorder_taxa` and in-place `remove_taxa`, starting from ANY matrix: `unscale()` of the result is
    the same edit of `unscale()` of the start, taxon identities included. -/
theorem history_preserves_raw_partial (sq : α → α) (needs : Bool) (ops : List (Op α))
    (h : ∀ op ∈ ops, op.keepsRaw = true) (b : BV α) :
    (run sq needs ops b).map rawOf = runRaw ops (rawOf b) := by
  induction ops generalizing b with
  | nil => rfl
  | cons op ops ih =>
    have hop := h op List.mem_cons_self
    have hrest : ∀ o ∈ ops, o.keepsRaw = true := fun o ho => h o (List.mem_cons_of_mem _ ho)
    have key := applyOp_keepsRaw sq needs op hop b
    simp only [run, runRaw]
    cases ha : applyOp sq needs op b with
    | error e =>
      rw [ha] at key
      rw [← key]; rfl
    | ok b' =>
      rw [ha] at key
      rw [← key]
      exact ih hrest b'

/-- every summary after such a history is the summary of the retained raw values (shown for the
    maximum; the other statistics follow from §3 in the same way) -/
theorem history_summaries_partial (sq : α → α) (hsq : ∀ x, 0 ≤ sq x) (needs : Bool) (ops : List (Op α))
    (h : ∀ op ∈ ops, op.restandardises = true) (cols : List (Col α)) (taxa : List Nat)
    (b : BV α) (r : Raw α)
    (hb : run sq needs ops (fromNumpy sq cols taxa) = .ok b) (hr : runRaw ops (cols, taxa) = .ok r) :
    b.traits.map (tmax true) = r.1.map colMax ∧ unscale b = r.1 ∧ b.taxa = r.2 := by
  have := history_refines_from_numpy_partial sq needs ops h cols taxa
  rw [hb, hr] at this
  simp only [Except.map] at this
  have hb' : b = fromNumpy sq r.1 r.2 := by injection this
  subst hb'
  refine ⟨?_, unscale_fromNumpy sq _ _, rfl⟩
  simp only [fromNumpy, List.map_map]
  apply List.map_congr_left
  intro c _
  exact tmax_unscaled sq hsq c

/-- **Selection, entry by entry.**  After `select_taxa(idx)` the unscaled value of trait `c` at
    position `k` is the raw value of the selected taxon `idx[k]` (NaN if that was NaN), and the
    taxon identity at position `k` is that of `idx[k]`. -/
theorem select_taxa_entry (sq : α → α) (needs : Bool) (idx : List Nat) (cols : List (Col α)) (taxa : List Nat)
    (hidx : ∀ i ∈ idx, i < taxa.length) (hrect : ∀ c ∈ cols, c.length = taxa.length) :
    ∃ b, applyOp sq needs (.select idx) (fromNumpy sq cols taxa) = .ok b ∧
      unscale b = cols.map (Np.take idx) ∧
      (∀ c ∈ cols, ∀ k (hk : k < idx.length), (Np.take idx c)[k]? = c[idx[k]]?) ∧
      (∀ k (hk : k < idx.length), b.taxa[k]? = taxa[idx[k]]?) := by
  have hall : (idx.all fun x => decide (x < (fromNumpy sq cols taxa).taxa.length)) = true := by
    rw [List.all_eq_true]; intro i hi; exact decide_eq_true (hidx i hi)
  refine ⟨fromNumpy sq ((unscale (fromNumpy sq cols taxa)).map (Np.take idx)) (Np.take idx taxa), ?_, ?_, ?_, ?_⟩
  · simp only [applyOp]
    rw [if_pos hall]; rfl
  · rw [unscale_fromNumpy, unscale_fromNumpy]
  · intro c hc k hk
    exact take_getElem? idx c (fun i hi => by rw [hrect c hc]; exact hidx i hi) k hk
  · intro k hk
    exact take_getElem? idx taxa hidx k hk

/-- **In-place `reorder_taxa` by a permutation keeps the matrix standardised**: reordering
    `from_numpy(raw)` gives exactly `from_numpy` of the reordered raw data (same location and scale,
    stored values and taxon identities permuted), so every statement of §1–§3 continues to hold. -/
theorem reorder_permutation_keeps_standardised (sq : α → α) (needs : Bool) (idx : List Nat)
    (cols : List (Col α)) (taxa : List Nat) (hperm : idx.Perm (List.range taxa.length))
    (hrect : ∀ c ∈ cols, c.length = taxa.length) :
    applyOp sq needs (.reorder idx) (fromNumpy sq cols taxa) =
      .ok (fromNumpy sq (cols.map (Np.take idx)) (Np.take idx taxa)) := by
  have hall : (idx.all fun x => decide (x < (fromNumpy sq cols taxa).taxa.length)) = true := by
    rw [List.all_eq_true]
    intro i hi
    have : i ∈ List.range taxa.length := hperm.mem_iff.mp hi
    exact decide_eq_true (List.mem_range.mp this)
  simp only [applyOp]
  rw [if_pos hall]
  congr 1
  simp only [fromNumpy, List.map_map]
  congr 1
  apply List.map_congr_left
  intro c hc
  simp only [Function.comp]
  rw [fromNumpyCol_take_perm sq idx c (by rw [hrect c hc]; exact hperm)]

/-- **Why `reorder_taxa` needs a permutation.**  In-place `reorder_taxa` is plain fancy indexing of the
    stored matrix: with repeated positions it acts as a selection that is NOT re-standardised.  Reordering
    the matrix of [1,3] by [0,0] keeps the raw values [1,1] but leaves location 2, scale 1 and stored
    values −1, while `from_numpy([1,1])` is location 1, scale 1, stored 0 — so the hypothesis
    `idx.Perm (range n)` of `reorder_permutation_keeps_standardised` / `ValidHistory` cannot be dropped. -/
theorem reorder_nonpermutation_counterexample :
    run (fun x : ℚ => x) false [Op.reorder [0, 0]] (fromNumpy (fun x : ℚ => x) [[some 1, some 3]] [0, 1])
      = .ok { traits := [{ mat := [some (-1), some (-1)], loc := some 2, scale := some 1 }], taxa := [0, 0] } ∧
    (runRaw [Op.reorder [0, 0]] ([[some (1 : ℚ), some 3]], [0, 1])).map (fun r => fromNumpy (fun x : ℚ => x) r.1 r.2)
      = .ok { traits := [{ mat := [some 0, some 0], loc := some 1, scale := some 1 }], taxa := [0, 0] } := by
  constructor <;> decide +kernel

/-- **D23.**  The inherited `concat_taxa` concatenates the stored matrices and resets location and
    scale to 0 and 1: the raw values [1,3] and [10,30] come back as [-1,1,-1,1]. -/
theorem concat_counterexample (sq : ℚ → ℚ) (h1 : sq 1 = 1) (h100 : sq 100 = 10) :
    (run sq false [Op.concat [fromNumpy sq [[some 10, some 30]] [2, 3]]]
        (fromNumpy sq [[some (1 : ℚ), some 3]] [0, 1])).map rawOf
      = .ok ([[some (-1), some 1, some (-1), some 1]], [0, 1, 2, 3]) ∧
    runRaw [Op.concat [fromNumpy sq [[some 10, some 30]] [2, 3]]] ([[some (1 : ℚ), some 3]], [0, 1])
      = .ok ([[some 1, some 3, some 10, some 30]], [0, 1, 2, 3]) := by
  have v1 : varL [(1 : ℚ), 3] = 1 := by norm_num [varL, meanL, sumL]
  have v2 : varL [(10 : ℚ), 30] = 100 := by norm_num [varL, meanL, sumL]
  have m1 : meanL [(1 : ℚ), 3] = 2 := by norm_num [meanL, sumL]
  have m2 : meanL [(10 : ℚ), 30] = 20 := by norm_num [meanL, sumL]
  have g1 : scaleOf sq [(1 : ℚ), 3] = 1 := by
    rw [scaleOf_of_var_ne sq (by rw [v1]; norm_num), v1, h1]; exact guardScale_of_ne one_ne_zero
  have g10 : scaleOf sq [(10 : ℚ), 30] = 10 := by
    rw [scaleOf_of_var_ne sq (by rw [v2]; norm_num), v2, h100]; exact guardScale_of_ne (by norm_num)
  have f1 : fromNumpyCol sq [some (1 : ℚ), some 3] = { mat := [some (-1), some 1], loc := some 2, scale := some 1 } := by
    rw [fromNumpyCol_of_ne sq (by simp [present])]
    simp only [present, List.filterMap_cons, id, List.filterMap_nil, m1, g1, List.map_cons, List.map_nil,
      standardise_some, stdFn]
    norm_num
  have f2 : fromNumpyCol sq [some (10 : ℚ), some 30] = { mat := [some (-1), some 1], loc := some 20, scale := some 10 } := by
    rw [fromNumpyCol_of_ne sq (by simp [present])]
    simp only [present, List.filterMap_cons, id, List.filterMap_nil, m2, g10, List.map_cons, List.map_nil,
      standardise_some, stdFn]
    norm_num
  constructor
  · simp only [run, applyOp, fromNumpy, List.map_cons, List.map_nil, f1, f2]
    simp [Except.map, rawOf, unscale, unscaleCol, unscaleEntry, omul, oadd, lift2]
  · simp only [runRaw, applyRaw, fromNumpy, List.map_cons, List.map_nil, f2]
    simp [unscale, unscaleCol, unscaleEntry, omul, oadd, lift2]
    norm_num

/-- **D23 (estimated classes).**  For Dense(Genomic)EstimatedBreedingValueMatrix the inherited
    `concat_taxa` raises although the request is valid. -/
theorem concat_estimated_counterexample (sq : ℚ → ℚ) :
    run sq true [Op.concat [fromNumpy sq [[some 10, some 30]] [2, 3]]]
        (fromNumpy sq [[some (1 : ℚ), some 3]] [0, 1]) = .error .type ∧
    (runRaw [Op.concat [fromNumpy sq [[some 10, some 30]] [2, 3]]] ([[some (1 : ℚ), some 3]], [0, 1])).isOk = true := by
  constructor
  · simp [run, applyOp, fromNumpy]
  · simp [runRaw, applyRaw, fromNumpy, Except.isOk, Except.toBool]

/-- **D24.**  In-place `append_taxa` of a raw row [10] to the matrix of [1,3]: the appended taxon
    reads 12 afterwards (10 taken as a stored value under location 2, scale 1). -/
theorem append_counterexample (sq : ℚ → ℚ) (h1 : sq 1 = 1) :
    (run sq false [Op.append (.nd [[some 10]] [2])] (fromNumpy sq [[some (1 : ℚ), some 3]] [0, 1])).map rawOf
      = .ok ([[some 1, some 3, some 12]], [0, 1, 2]) ∧
    runRaw [Op.append (.nd [[some 10]] [2])] ([[some (1 : ℚ), some 3]], [0, 1])
      = .ok ([[some 1, some 3, some 10]], [0, 1, 2]) := by
  have v1 : varL [(1 : ℚ), 3] = 1 := by norm_num [varL, meanL, sumL]
  have m1 : meanL [(1 : ℚ), 3] = 2 := by norm_num [meanL, sumL]
  have g1 : scaleOf sq [(1 : ℚ), 3] = 1 := by
    rw [scaleOf_of_var_ne sq (by rw [v1]; norm_num), v1, h1]; exact guardScale_of_ne one_ne_zero
  have f1 : fromNumpyCol sq [some (1 : ℚ), some 3] = { mat := [some (-1), some 1], loc := some 2, scale := some 1 } := by
    rw [fromNumpyCol_of_ne sq (by simp [present])]
    simp only [present, List.filterMap_cons, id, List.filterMap_nil, m1, g1, List.map_cons, List.map_nil,
      standardise_some, stdFn]
    norm_num
  constructor
  · simp only [run, applyOp, fromNumpy, List.map_cons, List.map_nil, f1, Operand.stored, Operand.taxa]
    simp [Except.map, rawOf, unscale, unscaleCol, unscaleEntry, omul, oadd, lift2]
    norm_num
  · simp [runRaw, applyRaw, Operand.values, Operand.taxa]

/-- **D24.**  In-place `incorp_taxa` of the matrix of [10,30] into the matrix of [1,3] at position 1:
    the incorporated taxa read 1 and 3 (their stored −1, 1 under the receiver's location and scale). -/
theorem incorp_counterexample (sq : ℚ → ℚ) (h1 : sq 1 = 1) (h100 : sq 100 = 10) :
    (run sq false [Op.incorp 1 (.bv (fromNumpy sq [[some 10, some 30]] [2, 3]))]
        (fromNumpy sq [[some (1 : ℚ), some 3]] [0, 1])).map rawOf
      = .ok ([[some 1, some 1, some 3, some 3]], [0, 2, 3, 1]) ∧
    runRaw [Op.incorp 1 (.bv (fromNumpy sq [[some 10, some 30]] [2, 3]))] ([[some (1 : ℚ), some 3]], [0, 1])
      = .ok ([[some 1, some 10, some 30, some 3]], [0, 2, 3, 1]) := by
  have v1 : varL [(1 : ℚ), 3] = 1 := by norm_num [varL, meanL, sumL]
  have v2 : varL [(10 : ℚ), 30] = 100 := by norm_num [varL, meanL, sumL]
  have m1 : meanL [(1 : ℚ), 3] = 2 := by norm_num [meanL, sumL]
  have m2 : meanL [(10 : ℚ), 30] = 20 := by norm_num [meanL, sumL]
  have g1 : scaleOf sq [(1 : ℚ), 3] = 1 := by
    rw [scaleOf_of_var_ne sq (by rw [v1]; norm_num), v1, h1]; exact guardScale_of_ne one_ne_zero
  have g10 : scaleOf sq [(10 : ℚ), 30] = 10 := by
    rw [scaleOf_of_var_ne sq (by rw [v2]; norm_num), v2, h100]; exact guardScale_of_ne (by norm_num)
  have f1 : fromNumpyCol sq [some (1 : ℚ), some 3] = { mat := [some (-1), some 1], loc := some 2, scale := some 1 } := by
    rw [fromNumpyCol_of_ne sq (by simp [present])]
    simp only [present, List.filterMap_cons, id, List.filterMap_nil, m1, g1, List.map_cons, List.map_nil,
      standardise_some, stdFn]
    norm_num
  have f2 : fromNumpyCol sq [some (10 : ℚ), some 30] = { mat := [some (-1), some 1], loc := some 20, scale := some 10 } := by
    rw [fromNumpyCol_of_ne sq (by simp [present])]
    simp only [present, List.filterMap_cons, id, List.filterMap_nil, m2, g10, List.map_cons, List.map_nil,
      standardise_some, stdFn]
    norm_num
  constructor
  · simp only [run, applyOp, fromNumpy, List.map_cons, List.map_nil, f1, f2, Operand.stored, Operand.taxa]
    simp [Except.map, rawOf, unscale, unscaleCol, unscaleEntry, omul, oadd, lift2, Np.insert]
    norm_num
  · simp only [runRaw, applyRaw, fromNumpy, List.map_cons, List.map_nil, f2, Operand.values, Operand.taxa]
    simp [unscale, unscaleCol, unscaleEntry, omul, oadd, lift2, Np.insert]
    norm_num

/-- **D25.**  In-place `remove_taxa` keeps the raw values of the retained taxa (this is part of
    `history_preserves_raw_partial`) but not the location: after removing the first taxon of [1,3],
    `tmean(unscale=True)` is still 2 while the only retained raw value is 3. -/
theorem remove_stale_location_counterexample (sq : ℚ → ℚ) (h1 : sq 1 = 1) :
    ∃ b, run sq false [Op.remove [0]] (fromNumpy sq [[some (1 : ℚ), some 3]] [0, 1]) = .ok b ∧
      unscale b = [[some 3]] ∧ b.traits.map (tmean true) = [some 2] ∧
      nanmean [some (3 : ℚ)] = some 3 := by
  have v1 : varL [(1 : ℚ), 3] = 1 := by norm_num [varL, meanL, sumL]
  have m1 : meanL [(1 : ℚ), 3] = 2 := by norm_num [meanL, sumL]
  have g1 : scaleOf sq [(1 : ℚ), 3] = 1 := by
    rw [scaleOf_of_var_ne sq (by rw [v1]; norm_num), v1, h1]; exact guardScale_of_ne one_ne_zero
  have f1 : fromNumpyCol sq [some (1 : ℚ), some 3] = { mat := [some (-1), some 1], loc := some 2, scale := some 1 } := by
    rw [fromNumpyCol_of_ne sq (by simp [present])]
    simp only [present, List.filterMap_cons, id, List.filterMap_nil, m1, g1, List.map_cons, List.map_nil,
      standardise_some, stdFn]
    norm_num
  refine ⟨{ traits := [{ mat := [some 1], loc := some 2, scale := some 1 }], taxa := [1] }, ?_, ?_, ?_, ?_⟩
  · simp only [run, applyOp, fromNumpy, List.map_cons, List.map_nil, f1]
    simp [Np.delete, List.zipIdx]
  · simp [unscale, unscaleCol, unscaleEntry, omul, oadd, lift2]
    norm_num
  · simp [tmean]
  · decide +kernel

/-! ## 4b. What the inherited operations compute (the as-is behaviour behind D23–D25), exactly -/

/-- **D23, as is.**  For the base class the inherited `concat_taxa` returns a matrix whose `unscale()`
    is the concatenation of the STORED (standardised) matrices, with location 0 and scale 1 for every
    trait; taxon identities are concatenated correctly. -/
theorem concat_asis (sq : α → α) (vs : List (BV α)) (b : BV α)
    (h : (vs.all fun o => o.traits.length == b.traits.length) = true) :
    ∃ b', applyOp sq false (.concat vs) b = .ok b' ∧
      unscale b' = vs.foldl (fun acc o => List.zipWith (· ++ ·) acc (o.traits.map (·.mat))) (b.traits.map (·.mat)) ∧
      (∀ tr ∈ b'.traits, tr.loc = some 0 ∧ tr.scale = some 1) ∧
      b'.taxa = vs.foldl (fun acc o => acc ++ o.taxa) b.taxa := by
  refine ⟨{ traits := (vs.foldl (fun acc o => List.zipWith (· ++ ·) acc (o.traits.map (·.mat)))
                          (b.traits.map (·.mat))).map (fun m => { mat := m, loc := some 0, scale := some 1 }),
            taxa := vs.foldl (fun acc o => acc ++ o.taxa) b.taxa }, ?_, ?_, ?_, ?_⟩
  · simp only [applyOp, h, Bool.not_true, Bool.false_eq_true, if_false]
  · simp only [unscale, List.map_map]
    conv_rhs => rw [← List.map_id (List.foldl _ _ _)]
    apply List.map_congr_left
    intro m _
    exact unscaleCol_zero_one m
  · intro tr htr
    simp only [List.mem_map] at htr
    obtain ⟨m, _, rfl⟩ := htr
    exact ⟨rfl, rfl⟩
  · rfl

/-- **D23, as is (estimated classes).**  Every shape-correct `concat_taxa` request raises TypeError. -/
theorem concat_asis_estimated (sq : α → α) (vs : List (BV α)) (b : BV α)
    (h : (vs.all fun o => o.traits.length == b.traits.length) = true) :
    applyOp sq true (.concat vs) b = .error .type := by
  simp [applyOp, h]

/-- **D24, as is.**  After the inherited in-place `append_taxa` the old taxa keep their raw values; an
    appended taxon whose STORED value (operand's `.mat`, or the raw ndarray entry) is `w` reads
    `scale·w + location` with the RECEIVER's location and scale, which are left unchanged. -/
theorem append_asis (sq : α → α) (needs : Bool) (v : Operand α) (b : BV α)
    (h : v.stored.length = b.traits.length) :
    ∃ b', applyOp sq needs (.append v) b = .ok b' ∧
      unscale b' = List.zipWith (fun tr w => unscaleCol tr ++ w.map (unscaleEntry tr.loc tr.scale)) b.traits v.stored ∧
      b'.traits.map (·.loc) = b.traits.map (·.loc) ∧ b'.traits.map (·.scale) = b.traits.map (·.scale) ∧
      b'.taxa = b.taxa ++ v.taxa := by
  refine ⟨{ traits := List.zipWith (fun tr w => { tr with mat := tr.mat ++ w }) b.traits v.stored,
            taxa := b.taxa ++ v.taxa }, ?_, ?_, ?_, ?_, ?_⟩
  · simp only [applyOp]
    rw [if_neg (by simpa using h)]
  · simp only [unscale]
    exact unscale_zipWith_mat (· ++ ·) b.traits v.stored (fun tr w => List.map_append)
  · exact map_zipWith_left (fun tr w => ({ tr with mat := tr.mat ++ w } : Trait α)) (·.loc) (·.loc)
      (fun _ _ => rfl) _ _ h
  · exact map_zipWith_left (fun tr w => ({ tr with mat := tr.mat ++ w } : Trait α)) (·.scale) (·.scale)
      (fun _ _ => rfl) _ _ h
  · rfl

/-- **D24, as is.**  The same for the inherited in-place `incorp_taxa` (block inserted before `k`). -/
theorem incorp_asis (sq : α → α) (needs : Bool) (k : Nat) (v : Operand α) (b : BV α)
    (h : v.stored.length = b.traits.length) (hk : k ≤ b.taxa.length) :
    ∃ b', applyOp sq needs (.incorp k v) b = .ok b' ∧
      unscale b' = List.zipWith (fun tr w => Np.insert k (w.map (unscaleEntry tr.loc tr.scale)) (unscaleCol tr))
                    b.traits v.stored ∧
      b'.traits.map (·.loc) = b.traits.map (·.loc) ∧ b'.traits.map (·.scale) = b.traits.map (·.scale) ∧
      b'.taxa = Np.insert k v.taxa b.taxa := by
  refine ⟨{ traits := List.zipWith (fun tr w => { tr with mat := Np.insert k w tr.mat }) b.traits v.stored,
            taxa := Np.insert k v.taxa b.taxa }, ?_, ?_, ?_, ?_, ?_⟩
  · simp only [applyOp]
    rw [if_neg (by simpa using h), if_neg (by omega)]
  · simp only [unscale]
    exact unscale_zipWith_mat (fun m w => Np.insert k w m) b.traits v.stored
      (fun tr w => (insert_map _ k w tr.mat).symm)
  · exact map_zipWith_left (fun tr w => ({ tr with mat := Np.insert k w tr.mat } : Trait α)) (·.loc) (·.loc)
      (fun _ _ => rfl) _ _ h
  · exact map_zipWith_left (fun tr w => ({ tr with mat := Np.insert k w tr.mat } : Trait α)) (·.scale) (·.scale)
      (fun _ _ => rfl) _ _ h
  · rfl

/-- **D25, as is.**  The inherited in-place `remove_taxa` deletes the rows of the stored matrix, so
    `unscale()` of the retained taxa is intact, and leaves location and scale exactly as they were
    (those of the matrix before the removal). -/
theorem remove_asis (sq : α → α) (needs : Bool) (idx : List Nat) (b : BV α)
    (h : ∀ i ∈ idx, i < b.taxa.length) :
    ∃ b', applyOp sq needs (.remove idx) b = .ok b' ∧
      unscale b' = (unscale b).map (Np.delete idx) ∧
      b'.traits.map (·.loc) = b.traits.map (·.loc) ∧ b'.traits.map (·.scale) = b.traits.map (·.scale) ∧
      b'.taxa = Np.delete idx b.taxa := by
  have hall : (idx.all fun x => decide (x < b.taxa.length)) = true := by
    rw [List.all_eq_true]; intro i hi; exact decide_eq_true (h i hi)
  refine ⟨{ traits := b.traits.map (fun tr => { tr with mat := Np.delete idx tr.mat }),
            taxa := Np.delete idx b.taxa }, ?_, ?_, ?_, ?_, ?_⟩
  · simp only [applyOp]
    rw [if_pos hall]
  · simp only [unscale, List.map_map]
    apply List.map_congr_left
    intro tr _
    simp only [Function.comp, unscaleCol_with_mat]
    exact (delete_map _ _ _).symm
  · simp [List.map_map, Function.comp]
  · simp [List.map_map, Function.comp]
  · rfl

/-! ## 4c. The proposed overrides meet the full statement for all nine operations -/

/-- **Repaired refinement, any history of all nine operations.**  With `append/incorp/remove_taxa`
    delegating to `adjoin/insert/delete_taxa` and `concat_taxa` built as unscale → concatenate →
    `from_numpy` (`applyOpRepaired`), EVERY history of valid requests (`ValidHistory`: the only
    constraint beyond `applyRaw` is that `reorder_taxa` gets a permutation) applied to
    `from_numpy(raw)` yields exactly `from_numpy` of the same edits of the raw data, and is rejected
    exactly when the raw edit is.  This is the FULL STATEMENT of §4 for the repaired model. -/
theorem repaired_history_refines_from_numpy (sq : α → α) (ops : List (Op α)) (r : Raw α)
    (hv : ValidHistory ops r) :
    runRepaired sq ops (fromNumpy sq r.1 r.2) = (runRaw ops r).map (fun r' => fromNumpy sq r'.1 r'.2) := by
  induction ops generalizing r with
  | nil => rfl
  | cons op ops ih =>
    obtain ⟨hop, hrest⟩ := hv
    have hraw : rawOf (fromNumpy sq r.1 r.2) = r := by
      simp [rawOf, unscale_fromNumpy, fromNumpy_taxa]
    have key : applyOpRepaired sq op (fromNumpy sq r.1 r.2)
        = (applyRaw op r).map (fun r' => fromNumpy sq r'.1 r'.2) := by
      by_cases hre : ∃ idx, op = .reorder idx
      · obtain ⟨idx, rfl⟩ := hre
        obtain ⟨hperm, hrect⟩ := hop
        have := reorder_permutation_keeps_standardised sq false idx r.1 r.2 hperm hrect
        simp only [applyOpRepaired]
        rw [this]
        have hall : (idx.all fun x => decide (x < r.2.length)) = true := by
          rw [List.all_eq_true]
          intro i hi
          exact decide_eq_true (List.mem_range.mp (hperm.mem_iff.mp hi))
        simp only [applyRaw]
        rw [if_pos hall]; rfl
      · have := applyOpRepaired_refines sq op (fun idx h => hre ⟨idx, h⟩) (fromNumpy sq r.1 r.2)
        rw [hraw] at this
        exact this
    simp only [runRepaired, runRaw]
    rw [key]
    cases hr : applyRaw op r with
    | error e => rfl
    | ok r' =>
      rw [hr] at hrest
      simp only [Except.map]
      exact ih r' hrest

/-- one repaired operation on `from_numpy(raw)` is `from_numpy` of the raw edit -/
theorem repaired_step_refines (sq : α → α) (op : Op α) (r : Raw α) (hop : op.validAt r) :
    applyOpRepaired sq op (fromNumpy sq r.1 r.2) = (applyRaw op r).map (fun r' => fromNumpy sq r'.1 r'.2) := by
  have hraw : rawOf (fromNumpy sq r.1 r.2) = r := by
    simp [rawOf, unscale_fromNumpy, fromNumpy_taxa]
  by_cases hre : ∃ idx, op = .reorder idx
  · obtain ⟨idx, rfl⟩ := hre
    obtain ⟨hperm, hrect⟩ := hop
    have := reorder_permutation_keeps_standardised sq false idx r.1 r.2 hperm hrect
    simp only [applyOpRepaired]
    rw [this]
    have hall : (idx.all fun x => decide (x < r.2.length)) = true := by
      rw [List.all_eq_true]
      intro i hi
      exact decide_eq_true (List.mem_range.mp (hperm.mem_iff.mp hi))
    simp only [applyRaw]
    rw [if_pos hall]; rfl
  · have := applyOpRepaired_refines sq op (fun idx h => hre ⟨idx, h⟩) (fromNumpy sq r.1 r.2)
    rw [hraw] at this
    exact this

/-- **Repaired refinement with numpy's index objects** — the FULL statement of §4 in the form callers
    write it: any history of the nine repaired operations, with negative positions, slices, boolean masks
    and several insert positions normalised for the current number of taxa, applied to `from_numpy(raw)`
    yields `from_numpy` of the same edits of the raw data and is rejected exactly when the raw edit is. -/
theorem repaired_history_ix_refines_from_numpy (sq : α → α) (ops : List (OpIx α)) (r : Raw α)
    (hv : ValidHistoryIx ops r) :
    runRepairedIx sq ops (fromNumpy sq r.1 r.2) = (runRawIx ops r).map (fun r' => fromNumpy sq r'.1 r'.2) := by
  induction ops generalizing r with
  | nil => rfl
  | cons o ops ih =>
    simp only [runRepairedIx, runRawIx, fromNumpy_taxa]
    simp only [ValidHistoryIx] at hv
    cases hn : o.norm r.2.length with
    | error e => rfl
    | ok op =>
      rw [hn] at hv
      obtain ⟨hop, hrest⟩ := hv
      simp only []
      rw [repaired_step_refines sq op r hop]
      cases hr : applyRaw op r with
      | error e => rfl
      | ok r' =>
        rw [hr] at hrest
        simp only [Except.map]
        exact ih r' hrest

/-- consequently every retained taxon's raw values and identity are preserved by any valid history
    of the nine repaired operations, and the result is stored standardised (so §2–§3 apply) -/
theorem repaired_history_preserves_raw (sq : α → α) (ops : List (Op α)) (r : Raw α)
    (hv : ValidHistory ops r) (b : BV α) (hb : runRepaired sq ops (fromNumpy sq r.1 r.2) = .ok b) :
    ∃ r', runRaw ops r = .ok r' ∧ unscale b = r'.1 ∧ b.taxa = r'.2 ∧ b = fromNumpy sq r'.1 r'.2 := by
  have := repaired_history_refines_from_numpy sq ops r hv
  rw [hb] at this
  cases hr : runRaw ops r with
  | error e => rw [hr] at this; cases this
  | ok r' =>
    rw [hr] at this
    simp only [Except.map] at this
    have hb' : b = fromNumpy sq r'.1 r'.2 := by injection this
    exact ⟨r', rfl, by rw [hb', unscale_fromNumpy], by rw [hb']; rfl, hb'⟩

/-! ## 4d. The model meets the Spec oracle (`c15.spec`) at zero tolerance -/

/-- **Spec soundness.**  `Spec.specCol` (Model/BVMatSpec.lean) is the decidable predicate the driver op
    `c15.spec` evaluates on the implementation's observations of one trait (round trip, NaN positions,
    location = mean, scale² = variance or unit scale, centred / unit-variance storage, the eight
    statistics and arg-extrema), with tolerances.  At ZERO tolerance it accepts what the model shows for
    `from_numpy(raw)` — every non-empty trait, constant / NaN-bearing / all-NaN ones included, for any
    `sq` meeting the square-root contract and any tolerance scalers `sqT`, `mag`.  So a Spec failure on
    the implementation can only come from the implementation (or from float rounding beyond the
    tolerance), never from the Spec demanding more than the model delivers. -/
theorem spec_sound (sq sqT : α → α) (hc : Spec.SqrtContract sq) (mag : α) (c : Col α) (hne : c ≠ []) :
    Spec.specCol sqT Spec.tol0 mag true c (Spec.modelObs sq (fromNumpyCol sq c)) = [] := by
  have hraw : Spec.rawOk Spec.tol0 mag c (unscaleCol (fromNumpyCol sq c)) = true := by
    rw [unscaleCol_fromNumpyCol]; exact Spec.rawOk0_self mag c
  have hstd : Spec.standardisedCol sqT Spec.tol0 mag c (fromNumpyCol sq c).mat (unscaleCol (fromNumpyCol sq c))
      (fromNumpyCol sq c).loc (fromNumpyCol sq c).scale = none := by
    rw [unscaleCol_fromNumpyCol]; exact Spec.standardisedCol0 sq sqT hc mag c
  have hmax : Spec.statOk Spec.tol0 mag Spec.listMax c (tmax true (fromNumpyCol sq c)) = true := by
    rw [tmax_unscaled sq hc.nonneg, ← Spec.expectProp_listMax]; exact Spec.statOk0_prop mag _ c
  have hmin : Spec.statOk Spec.tol0 mag Spec.listMin c (tmin true (fromNumpyCol sq c)) = true := by
    rw [tmin_unscaled sq hc.nonneg, ← Spec.expectProp_listMin]; exact Spec.statOk0_prop mag _ c
  have hrng : Spec.statOk Spec.tol0 mag (fun l => Spec.listMax l - Spec.listMin l) c
      (trange true (fromNumpyCol sq c)) = true := by
    rw [trange_unscaled sq hc.nonneg, ← Spec.expectProp_ptp]; exact Spec.statOk0_prop mag _ c
  have hmean : Spec.momentOk Spec.tol0 mag meanL c (tmean true (fromNumpyCol sq c)) = true := by
    rw [tmean_unscaled]; exact Spec.momentOk0_nanmean mag c
  have hamax : Spec.argOk Spec.tol0 mag Spec.listMax c (some (targmax (fromNumpyCol sq c))) = true := by
    rw [targmax_eq_raw sq hc.nonneg]; exact Spec.argOk0_colArgmax mag c hne
  have hamin : Spec.argOk Spec.tol0 mag Spec.listMin c (some (targmin (fromNumpyCol sq c))) = true := by
    rw [targmin_eq_raw sq hc.nonneg]; exact Spec.argOk0_colArgmin mag c hne
  have hsd : Spec.stdOk sqT Spec.tol0 mag c (tstd sq true (fromNumpyCol sq c)) = true := by
    rw [tstd_unscaled sq hc.one hc.sq_mul]; exact Spec.stdOk0_nanstd sq sqT hc mag c
  have hvr : Spec.varOk sqT Spec.tol0 mag c (tvar true (fromNumpyCol sq c)) = true := by
    rw [tvar_unscaled sq hc.sq_mul]; exact Spec.varOk0_nanvar sqT mag c
  simp only [Spec.specCol, Spec.statsCol, Spec.modelObs, hraw, hstd, hmax, hmin, hrng, hmean, hamax, hamin, hsd,
    hvr, if_true, List.append_nil]

/-- **Spec ⇔ Prop, round trip.**  The Bool predicate behind the `raw` clause of `c15.spec`, at zero
    tolerance, holds exactly when the observed `unscale()` column IS the raw column (every taxon's value
    reproduced, NaN exactly where the raw value is NaN) — the conclusion of `unscale_from_numpy`. -/
theorem spec_raw_iff (mag : α) (truth obs : Col α) :
    Spec.rawOk Spec.tol0 mag truth obs = true ↔ obs = truth :=
  rawOk0_iff mag truth obs

/-- **Spec ⇔ Prop, unscaling formula** (`formula` clause of `c15.spec_state` / the `self:` clauses): holds at
    zero tolerance exactly when the observed `unscale()` is `scale·mat + location` of the observed attributes -/
theorem spec_formula_iff (mag : α) (o : Spec.ObsCol α) :
    Spec.formulaOk Spec.tol0 mag o = true ↔
      o.unscale = unscaleCol { mat := o.mat, loc := o.loc, scale := o.scale } :=
  rawOk0_iff mag _ _

/-- **Spec ⇔ Prop, summaries.**  For a trait without missing values the Bool predicate behind every
    `stat:` clause holds at zero tolerance exactly when the observed statistic EQUALS that summary of the
    raw column (`f` = maximum, minimum, range, mean), the conclusion of `tmax_unscaled` … `tmean_unscaled`. -/
theorem spec_stat_iff (mag : α) (f : List α → α) (truth : Col α) (obs : Option α) (h : Spec.hasNaN truth = false) :
    Spec.statOk Spec.tol0 mag f truth obs = true ↔ obs = Spec.expectProp f truth := by
  unfold Spec.statOk
  simp only [h, Bool.false_eq_true, if_false]
  exact closeO0_iff mag obs _

/-- **the mean recomputed from the stored column** (`mat.mean(0) * scale + location`, the shape of `tmax`): for a
    trait WITHOUT missing values it is the mean of the raw values, as `tmean(unscale=True)` is … -/
theorem tmean_recomputed_complete (sq : α → α) (c : Col α) (hall : c.all Option.isSome = true) (hne : c ≠ []) :
    tmeanRecomputed (fromNumpyCol sq c) = nanmean c := by
  have hnan : Spec.hasNaN c = false := by rw [Spec.hasNaN_eq, hall]; rfl
  have hc := Spec.eq_map_some_of_not_hasNaN hnan
  have hp : present c ≠ [] := by
    intro h; rw [h] at hc; exact hne hc
  have hd : dense c = some (present c) := by unfold dense; simp [hall]
  rw [fromNumpyCol_of_ne sq hp]
  unfold tmeanRecomputed colMean
  simp only
  rw [dense_map _ _ (standardise_none _ _) (standardise_some _ _), hd]
  cases hpc : present c with
  | nil => exact absurd hpc hp
  | cons a l =>
    have hm := meanL_map_stdFn_self (l := a :: l) (by simp) (scaleOf sq (a :: l))
    simp only [Option.map_some, List.map_cons] at hm ⊢
    rw [hm]
    simp [omul, oadd, lift2, nanmean, hpc]

example : ([some (2 : Rat), some 9, some 4] : Col Rat).all Option.isSome = true ∧ ([some (2 : Rat), some 9, some 4] : Col Rat) ≠ [] := by
  decide

/-- … but for ANY object whose stored column holds a missing value it is NaN, whatever the other taxa hold -/
theorem tmean_recomputed_nan (t : Trait α) (h : t.mat.all Option.isSome = false) : tmeanRecomputed t = none := by
  unfold tmeanRecomputed colMean dense
  simp [h, omul, oadd, lift2]

/-- witness: three taxa, one without a record — the stored location (what `tmean(unscale=True)` returns) is the
    mean 11/2 of the two observed values, the recomputed mean is NaN, and the Spec clause rejects it -/
theorem tmean_recomputed_counterexample :
    tmean true (fromNumpyCol (fun x => x) [some (2 : Rat), none, some 9]) = some (11 / 2) ∧
    tmeanRecomputed (fromNumpyCol (fun x => x) [some (2 : Rat), none, some 9]) = none ∧
    Spec.momentOk ({ rel := 1 / 1000, abs := 1 / 1000 } : Spec.Tol Rat) (10 : Rat) meanL
      [some (2 : Rat), none, some 9] none = false := by
  decide +kernel

/-- **Spec ⇔ Prop, mean with missing values** (round 5).  The `stat:tmean` clause holds at zero tolerance
    exactly when the observed statistic IS the mean of the OBSERVED raw values (`nanmean`, the quantity the
    matrix is centred by; conclusion of `tmean_unscaled`) — for EVERY raw column, missing values included.
    No NaN-propagating alternative is accepted for a moment. -/
theorem spec_mean_iff (mag : α) (truth : Col α) (obs : Option α) :
    Spec.momentOk Spec.tol0 mag meanL truth obs = true ↔ obs = nanmean truth := by
  unfold Spec.momentOk
  rw [Spec.expectIgn_meanL]
  exact closeO0_iff mag obs _

example : Spec.momentOk Spec.tol0 (1 : Rat) meanL [some 2, none, some 9, some 4] (some 5) = true := by decide +kernel

/-- … so a mean reported as NaN for a trait that has an observed value (one missing taxon turning the whole
    trait's mean into NaN: numpy `mean` in place of the stored `nanmean`) FAILS the clause, at any tolerance -/
theorem spec_mean_rejects_nan (tol : Spec.Tol α) (mag : α) (truth : Col α) (h : present truth ≠ []) :
    Spec.momentOk tol mag meanL truth none = false := by
  unfold Spec.momentOk Spec.expectIgn
  cases hp : present truth with
  | nil => exact absurd hp h
  | cons a l => rfl

example : present [some (2 : Rat), none, some 9] ≠ [] := by decide

/-- the same for the deviation and the variance: NaN is accepted only for a trait without any value -/
theorem spec_std_var_nan_iff (sqT : α → α) (tol : Spec.Tol α) (mag : α) (truth : Col α) :
    (Spec.stdOk sqT tol mag truth none = true ↔ present truth = []) ∧
    (Spec.varOk sqT tol mag truth none = true ↔ present truth = []) := by
  unfold Spec.stdOk Spec.varOk
  cases present truth <;> simp

example : Spec.stdOk (fun x => x) Spec.tol0 (1 : Rat) [some 2, none, some 2] none = false := by decide +kernel

/-- the same for a trait of a matrix with 0 taxa (statistics not requested: numpy raises there) -/
theorem spec_sound_no_taxa (sq sqT : α → α) (hc : Spec.SqrtContract sq) (mag : α) (c : Col α) :
    Spec.specCol sqT Spec.tol0 mag false c (Spec.modelObs sq (fromNumpyCol sq c)) = [] := by
  have hraw : Spec.rawOk Spec.tol0 mag c (unscaleCol (fromNumpyCol sq c)) = true := by
    rw [unscaleCol_fromNumpyCol]; exact Spec.rawOk0_self mag c
  have hstd : Spec.standardisedCol sqT Spec.tol0 mag c (fromNumpyCol sq c).mat (unscaleCol (fromNumpyCol sq c))
      (fromNumpyCol sq c).loc (fromNumpyCol sq c).scale = none := by
    rw [unscaleCol_fromNumpyCol]; exact Spec.standardisedCol0 sq sqT hc mag c
  simp [Spec.specCol, Spec.modelObs, hraw, hstd]

/-- **… along any history.**  After any history of the four class-defined operations every trait of the
    resulting model matrix passes the zero-tolerance Spec against the corresponding trait of the edited
    raw data — the statement `c15.spec` checks on the implementation after every step. -/
theorem spec_sound_history_partial (sq sqT : α → α) (hc : Spec.SqrtContract sq) (mag : α) (needs : Bool)
    (ops : List (Op α)) (h : ∀ op ∈ ops, op.restandardises = true) (cols : List (Col α)) (taxa : List Nat)
    (b : BV α) (r : Raw α)
    (hb : run sq needs ops (fromNumpy sq cols taxa) = .ok b) (hr : runRaw ops (cols, taxa) = .ok r)
    (j : Nat) (c : Col α) (hj : r.1[j]? = some c) (hne : c ≠ []) :
    ∃ tr, b.traits[j]? = some tr ∧ Spec.specCol sqT Spec.tol0 mag true c (Spec.modelObs sq tr) = [] := by
  have := history_refines_from_numpy_partial sq needs ops h cols taxa
  rw [hb, hr] at this
  simp only [Except.map] at this
  have hb' : b = fromNumpy sq r.1 r.2 := by injection this
  subst hb'
  refine ⟨fromNumpyCol sq c, ?_, spec_sound sq sqT hc mag c hne⟩
  simp [fromNumpy, List.getElem?_map, hj]

/-! ## 5. DenseScaledMatrix -/

/-- `untransform(transform(x)) = x` for a non-zero scale, NaN entries included -/
theorem untransform_transform (t : Trait α) (m s : α) (hl : t.loc = some m) (hsc : t.scale = some s)
    (hs : s ≠ 0) (x : Col α) : untransformCol t (transformCol t x) = x := by
  unfold untransformCol transformCol
  rw [List.map_map, hl, hsc]
  conv_rhs => rw [← List.map_id x]
  apply List.map_congr_left
  intro a _
  cases a with
  | none => rfl
  | some a =>
    simp only [Function.comp, transformEntry, untransformEntry, omul, osub, oadd, orecip, lift2, Option.map_some, id]
    congr 1
    field_simp
    ring

theorem transform_untransform (t : Trait α) (m s : α) (hl : t.loc = some m) (hsc : t.scale = some s)
    (hs : s ≠ 0) (x : Col α) : transformCol t (untransformCol t x) = x := by
  unfold untransformCol transformCol
  rw [List.map_map, hl, hsc]
  conv_rhs => rw [← List.map_id x]
  apply List.map_congr_left
  intro a _
  cases a with
  | none => rfl
  | some a =>
    simp only [Function.comp, transformEntry, untransformEntry, omul, osub, oadd, orecip, lift2, Option.map_some, id]
    congr 1
    field_simp
    ring

/-- `rescale()` is `from_numpy` of the unscaled values: all of §1–§3 apply to its result -/
theorem rescale_is_from_numpy (sq : α → α) (t : Trait α) :
    rescaleCol sq t = fromNumpyCol sq (scaledUnscaleCol t) := by
  rw [rescaleCol_eq, scaledUnscaleCol_eq]

/-- `rescale()` does not change what `unscale()` returns -/
theorem rescale_keeps_unscaled (sq : α → α) (t : Trait α) :
    scaledUnscaleCol (rescaleCol sq t) = scaledUnscaleCol t := by
  rw [scaledUnscaleCol_eq, rescaleCol_eq, unscaleCol_fromNumpyCol, scaledUnscaleCol_eq]

/-- **Spec soundness for `rescale`.**  The two clauses `c15.spec_scaled` / `c15.spec_scaledh` evaluate on the
    implementation after `rescale` — `rescale_raw` (unscaling afterwards returns what it returned before) and
    `rescale_standardised…` (`Spec.standardisedCol` against the unscaled values) — accept the model's own
    `rescaleCol` at zero tolerance, for every trait (constant, NaN-bearing, all-NaN). -/
theorem spec_sound_rescale (sq sqT : α → α) (hc : Spec.SqrtContract sq) (mag : α) (t : Trait α) :
    Spec.rawOk Spec.tol0 mag (scaledUnscaleCol t) (scaledUnscaleCol (rescaleCol sq t)) = true ∧
    Spec.standardisedCol sqT Spec.tol0 mag (scaledUnscaleCol t) (rescaleCol sq t).mat
      (scaledUnscaleCol (rescaleCol sq t)) (rescaleCol sq t).loc (rescaleCol sq t).scale = none := by
  rw [rescale_keeps_unscaled]
  refine ⟨Spec.rawOk0_self mag _, ?_⟩
  rw [rescaleCol_eq, scaledUnscaleCol_eq]
  exact Spec.standardisedCol0 sq sqT hc mag (unscaleCol t)

/-- `unscale(inplace=True)` stores the unscaled values with location 0 and scale 1, and a second
    `unscale()` returns the same values -/
theorem unscale_inplace (t : Trait α) :
    (unscaleInplaceCol t).mat = scaledUnscaleCol t ∧ (unscaleInplaceCol t).loc = some 0 ∧
    (unscaleInplaceCol t).scale = some 1 ∧
    scaledUnscaleCol (unscaleInplaceCol t) = scaledUnscaleCol t := by
  refine ⟨rfl, rfl, rfl, ?_⟩
  simp only [unscaleInplaceCol]
  generalize scaledUnscaleCol t = r
  unfold scaledUnscaleCol untransformCol
  conv_rhs => rw [← List.map_id r]
  apply List.map_congr_left
  intro a _
  cases a with
  | none => rfl
  | some a => simp [untransformEntry, omul, oadd, lift2]

/-! ## 5b. DenseScaledMatrix on a heap of arrays: which array every call writes and returns

`Scaled.exec` (Model/BVMatState.lean) transcribes the four methods with their `copy` / `inplace` flags on
arrays with identities; the correspondence check compares identities and contents of ALL reachable arrays
after every call of a history (`c15.scaledh`). -/

open Scaled in
/-- **Copies leave everything alone.**  `transform` / `untransform` with `copy=True` and `rescale` /
    `unscale` with `inplace=False` return a NEW array; every array that existed before keeps its
    contents and the object stays bound to the same three arrays. -/
theorem scaled_copy_leaves_everything (sq : α → α) (h : Heap α) (st : Step α)
    (hst : st = .rescale false ∨ st = .unscale false ∨ (∃ x, st = .transform x true) ∨ (∃ x, st = .untransform x true)) :
    (∀ i, i < h.arrs.length → (exec sq h st).1.get i = h.get i) ∧
    (exec sq h st).1.mat = h.mat ∧ (exec sq h st).1.loc = h.loc ∧ (exec sq h st).1.scale = h.scale ∧
    h.arrs.length ≤ (exec sq h st).2 := by
  rcases hst with rfl | rfl | ⟨x, rfl⟩ | ⟨x, rfl⟩
  · refine ⟨?_, rfl, rfl, rfl, le_refl _⟩
    intro i hi
    simp only [exec, Heap.work, Bool.not_false, if_true, Bool.false_eq_true, if_false]
    rw [get_put_ne _ _ _ _ (by rw [alloc_snd]; omega), get_alloc_lt _ _ _ hi]
  · refine ⟨?_, rfl, rfl, rfl, le_refl _⟩
    intro i hi
    simp only [exec, Heap.work, Bool.not_false, if_true, Bool.false_eq_true, if_false]
    rw [get_put_ne _ _ _ _ (by rw [alloc_snd]; omega), get_alloc_lt _ _ _ hi]
  · cases x with
    | new a =>
      refine ⟨?_, rfl, rfl, rfl, ?_⟩
      · intro i hi
        simp only [exec, Heap.src, Heap.work, if_true]
        rw [get_put_ne _ _ _ _ (by rw [alloc_snd, alloc_length]; omega),
            get_alloc_lt _ _ _ (by rw [alloc_length]; omega), get_alloc_lt _ _ _ hi]
      · simp only [exec, Heap.src, Heap.work, if_true, alloc_snd, alloc_length]; omega
    | ref j =>
      refine ⟨?_, rfl, rfl, rfl, le_refl _⟩
      intro i hi
      simp only [exec, Heap.src, Heap.work, if_true]
      rw [get_put_ne _ _ _ _ (by rw [alloc_snd]; omega), get_alloc_lt _ _ _ hi]
  · cases x with
    | new a =>
      refine ⟨?_, rfl, rfl, rfl, ?_⟩
      · intro i hi
        simp only [exec, Heap.src, Heap.work, if_true]
        rw [get_put_ne _ _ _ _ (by rw [alloc_snd, alloc_length]; omega),
            get_alloc_lt _ _ _ (by rw [alloc_length]; omega), get_alloc_lt _ _ _ hi]
      · simp only [exec, Heap.src, Heap.work, if_true, alloc_snd, alloc_length]; omega
    | ref j =>
      refine ⟨?_, rfl, rfl, rfl, le_refl _⟩
      intro i hi
      simp only [exec, Heap.src, Heap.work, if_true]
      rw [get_put_ne _ _ _ _ (by rw [alloc_snd]; omega), get_alloc_lt _ _ _ hi]

open Scaled in
/-- **`rescale(inplace=True)` BINDS new parameter arrays.**  It returns the object's own matrix array
    (rewritten in place), binds `location` and `scale` to two NEW arrays, and leaves every other array —
    in particular the OLD location and scale arrays, whatever their dtype — exactly as it was.  (A version
    that writes the new parameters into the old arrays differs here; with integer parameter arrays it
    truncates them.) -/
theorem scaled_rescale_inplace_binds_new_parameters (sq : α → α) (h : Heap α) (wf : WF h) :
    (exec sq h (.rescale true)).2 = h.mat ∧ (exec sq h (.rescale true)).1.mat = h.mat ∧
    (exec sq h (.rescale true)).1.loc = h.arrs.length ∧ (exec sq h (.rescale true)).1.scale = h.arrs.length + 1 ∧
    (∀ i, i < h.arrs.length → i ≠ h.mat → (exec sq h (.rescale true)).1.get i = h.get i) := by
  refine ⟨rfl, rfl, ?_, ?_, ?_⟩
  · simp [exec, Heap.work, Heap.alloc, Heap.put]
  · simp [exec, Heap.work, Heap.alloc, Heap.put]
  · intro i hi hne
    simp only [exec, Heap.work, Bool.not_true, Bool.false_eq_true, if_false, if_true]
    show (Heap.alloc (Heap.alloc _ _).1 _).1.get i = _
    rw [get_alloc_lt _ _ _ (by rw [alloc_length, put_length]; omega), get_alloc_lt _ _ _ (by rw [put_length]; exact hi),
        get_put_ne _ _ _ _ hne]

open Scaled in
/-- **`unscale(inplace=True)` WRITES INTO the parameter arrays it has.**  It returns the object's own matrix
    array holding `mat·scale + location`, keeps the bindings, and overwrites the existing scale array with
    ones and the existing location array with zeros; no other array changes. -/
theorem scaled_unscale_inplace_writes_parameters (sq : α → α) (h : Heap α) (wf : WF h) :
    (exec sq h (.unscale true)).2 = h.mat ∧ (exec sq h (.unscale true)).1.mat = h.mat ∧
    (exec sq h (.unscale true)).1.loc = h.loc ∧ (exec sq h (.unscale true)).1.scale = h.scale ∧
    (exec sq h (.unscale true)).1.get h.mat = scaleShift (h.get h.mat) (h.get h.loc) (h.get h.scale) ∧
    (exec sq h (.unscale true)).1.get h.scale = (h.get h.scale).map (fun p => p.map (fun _ => some 1)) ∧
    (exec sq h (.unscale true)).1.get h.loc = (h.get h.loc).map (fun p => p.map (fun _ => some 0)) ∧
    (∀ i, i ≠ h.mat → i ≠ h.loc → i ≠ h.scale → (exec sq h (.unscale true)).1.get i = h.get i) := by
  have hml := wf.mat_ne_loc
  have hms := wf.mat_ne_scale
  have hls := wf.loc_ne_scale
  refine ⟨rfl, rfl, rfl, rfl, ?_, ?_, ?_, ?_⟩
  · simp only [exec, Heap.work, Bool.not_true, Bool.false_eq_true, if_false, if_true, put_loc, put_scale]
    rw [get_put_ne _ _ _ _ hml, get_put_ne _ _ _ _ hms, get_put_eq _ _ _ wf.mat_lt]
  · simp only [exec, Heap.work, Bool.not_true, Bool.false_eq_true, if_false, if_true, put_loc, put_scale]
    rw [get_put_ne _ _ _ _ (Ne.symm hls), get_put_eq _ _ _ (by rw [put_length]; exact wf.scale_lt),
        get_put_ne _ _ _ _ (Ne.symm hms)]
  · simp only [exec, Heap.work, Bool.not_true, Bool.false_eq_true, if_false, if_true, put_loc, put_scale]
    rw [get_put_eq _ _ _ (by rw [put_length, put_length]; exact wf.loc_lt),
        get_put_ne _ _ _ _ hls, get_put_ne _ _ _ _ (Ne.symm hml)]
  · intro i h1 h2 h3
    simp only [exec, Heap.work, Bool.not_true, Bool.false_eq_true, if_false, if_true, put_loc, put_scale]
    rw [get_put_ne _ _ _ _ h2, get_put_ne _ _ _ _ h3, get_put_ne _ _ _ _ h1]

open Scaled in
/-- **The heap model refines the column model: `rescale(inplace=True)`.**  Seen trait by trait
    (`Heap.traits`), the object after the call is `rescaleCol` of the object before — i.e. (§5,
    `rescale_is_from_numpy`) `from_numpy` of its unscaled values, so §1–§3 apply to it. -/
theorem scaled_rescale_inplace_refines (sq : α → α) (h : Heap α) (wf : WF h) :
    (exec sq h (.rescale true)).1.traits = h.traits.map (rescaleCol sq) := by
  have hU := scaleShift_traits h
  have hmat : (exec sq h (.rescale true)).1.get (exec sq h (.rescale true)).1.mat =
      centreScale (h.traits.map scaledUnscaleCol)
        ((h.traits.map scaledUnscaleCol).map (fun c => [fitLoc c]))
        ((h.traits.map scaledUnscaleCol).map (fun c => [fitScale sq c])) := by
    simp only [exec, Heap.work, Bool.not_true, Bool.false_eq_true, if_false, if_true, hU]
    show (Heap.alloc (Heap.alloc _ _).1 _).1.get h.mat = _
    rw [get_alloc_lt _ _ _ (by rw [alloc_length, put_length]; exact Nat.lt_succ_of_lt wf.mat_lt),
        get_alloc_lt _ _ _ (by rw [put_length]; exact wf.mat_lt), get_put_eq _ _ _ wf.mat_lt]
  have hloc : (exec sq h (.rescale true)).1.get (exec sq h (.rescale true)).1.loc =
      (h.traits.map scaledUnscaleCol).map (fun c => [fitLoc c]) := by
    simp only [exec, Heap.work, Bool.not_true, Bool.false_eq_true, if_false, if_true, hU]
    show (Heap.alloc (Heap.alloc (Heap.put h h.mat _) _).1 _).1.get (Heap.alloc (Heap.put h h.mat _) _).2 = _
    rw [alloc_snd, get_alloc_lt _ _ _ (by rw [alloc_length]; omega), get_alloc_new]
  have hscale : (exec sq h (.rescale true)).1.get (exec sq h (.rescale true)).1.scale =
      (h.traits.map scaledUnscaleCol).map (fun c => [fitScale sq c]) := by
    simp only [exec, Heap.work, Bool.not_true, Bool.false_eq_true, if_false, if_true, hU]
    show (Heap.alloc (Heap.alloc (Heap.put h h.mat _) _).1 _).1.get (Heap.alloc (Heap.alloc (Heap.put h h.mat _) _).1 _).2 = _
    rw [alloc_snd, get_alloc_new]
  unfold Heap.traits
  rw [hmat, hloc, hscale, centreScale_own]
  rw [← Heap.traits]
  rw [zip3_map, List.map_map, List.map_map]
  apply List.map_congr_left
  intro t _
  simp [Function.comp, rescaleCol]

open Scaled in
/-- **… and `unscale(inplace=True)`**: trait by trait the object afterwards is `unscaleInplaceCol` of the
    object before (unscaled values stored, location 0, scale 1 — `unscale_inplace`), provided every
    parameter entry exists (`location` / `scale` have one entry per trait). -/
theorem scaled_unscale_inplace_refines (sq : α → α) (h : Heap α) (wf : WF h)
    (hl : ∀ p ∈ h.get h.loc, p ≠ []) (hs : ∀ p ∈ h.get h.scale, p ≠ []) :
    (exec sq h (.unscale true)).1.traits = h.traits.map unscaleInplaceCol := by
  obtain ⟨_, hm, hlo, hsc, hmat, hscale, hloc, _⟩ := scaled_unscale_inplace_writes_parameters sq h wf
  unfold Heap.traits
  rw [hm, hlo, hsc, hmat, hscale, hloc, scaleShift_traits]
  unfold Heap.traits
  clear hmat hscale hloc hm hlo hsc
  generalize h.get h.mat = M
  generalize h.get h.loc = L at hl ⊢
  generalize h.get h.scale = S at hs ⊢
  induction M generalizing L S with
  | nil => simp
  | cons c M ih =>
    cases L with
    | nil => simp
    | cons l L =>
      cases S with
      | nil => simp
      | cons s S =>
        have hl0 : l ≠ [] := hl l List.mem_cons_self
        have hs0 : s ≠ [] := hs s List.mem_cons_self
        have := ih L (fun p hp => hl p (List.mem_cons_of_mem _ hp)) S (fun p hp => hs p (List.mem_cons_of_mem _ hp))
        simp only [List.map_cons, List.zip_cons_cons] at this ⊢
        rw [this]
        congr 1
        cases l with
        | nil => exact absurd rfl hl0
        | cons a l =>
          cases s with
          | nil => exact absurd rfl hs0
          | cons b s => simp [unscaleInplaceCol]

open Scaled in
theorem scaled_inv_rescale (sq : α → α) (h : Heap α) (hi : Scaled.Inv h) :
    Scaled.Inv (exec sq h (.rescale true)).1 := by
  obtain ⟨wf, _, _⟩ := hi
  obtain ⟨_, hm, hl, hs, _⟩ := scaled_rescale_inplace_binds_new_parameters sq h wf
  have hlen : (exec sq h (.rescale true)).1.arrs.length = h.arrs.length + 2 := by
    simp [exec, Heap.work, Heap.alloc, Heap.put]
  have hU := scaleShift_traits h
  have hloc : (exec sq h (.rescale true)).1.get (exec sq h (.rescale true)).1.loc =
      (h.traits.map scaledUnscaleCol).map (fun c => [fitLoc c]) := by
    simp only [exec, Heap.work, Bool.not_true, Bool.false_eq_true, if_false, if_true, hU]
    show (Heap.alloc (Heap.alloc (Heap.put h h.mat _) _).1 _).1.get (Heap.alloc (Heap.put h h.mat _) _).2 = _
    rw [alloc_snd, get_alloc_lt _ _ _ (by rw [alloc_length]; omega), get_alloc_new]
  have hscale : (exec sq h (.rescale true)).1.get (exec sq h (.rescale true)).1.scale =
      (h.traits.map scaledUnscaleCol).map (fun c => [fitScale sq c]) := by
    simp only [exec, Heap.work, Bool.not_true, Bool.false_eq_true, if_false, if_true, hU]
    show (Heap.alloc (Heap.alloc (Heap.put h h.mat _) _).1 _).1.get (Heap.alloc (Heap.alloc (Heap.put h h.mat _) _).1 _).2 = _
    rw [alloc_snd, get_alloc_new]
  have hml := wf.mat_lt
  refine ⟨⟨by rw [hm, hlen]; omega, by rw [hl, hlen]; omega, by rw [hs, hlen]; omega,
           by rw [hm, hl]; omega, by rw [hm, hs]; omega, by rw [hl, hs]; omega⟩, ?_, ?_⟩
  · rw [hloc]; intro p hp
    obtain ⟨c, _, rfl⟩ := List.mem_map.mp hp
    exact List.cons_ne_nil _ _
  · rw [hscale]; intro p hp
    obtain ⟨c, _, rfl⟩ := List.mem_map.mp hp
    exact List.cons_ne_nil _ _

open Scaled in
theorem scaled_inv_unscale (sq : α → α) (h : Heap α) (hi : Scaled.Inv h) :
    Scaled.Inv (exec sq h (.unscale true)).1 := by
  obtain ⟨wf, hl, hs⟩ := hi
  obtain ⟨_, hm, hlo, hsc, _, hscale, hloc, _⟩ := scaled_unscale_inplace_writes_parameters sq h wf
  have hlen : (exec sq h (.unscale true)).1.arrs.length = h.arrs.length := by
    simp [exec, Heap.work, Heap.put]
  refine ⟨⟨by rw [hm, hlen]; exact wf.mat_lt, by rw [hlo, hlen]; exact wf.loc_lt, by rw [hsc, hlen]; exact wf.scale_lt,
           by rw [hm, hlo]; exact wf.mat_ne_loc, by rw [hm, hsc]; exact wf.mat_ne_scale,
           by rw [hlo, hsc]; exact wf.loc_ne_scale⟩, ?_, ?_⟩
  · rw [hlo, hloc]; intro p hp
    obtain ⟨q, hq, rfl⟩ := List.mem_map.mp hp
    intro h0
    exact hl q hq (List.map_eq_nil_iff.mp h0)
  · rw [hsc, hscale]; intro p hp
    obtain ⟨q, hq, rfl⟩ := List.mem_map.mp hp
    intro h0
    exact hs q hq (List.map_eq_nil_iff.mp h0)

open Scaled in
/-- **No sequence of in-place calls loses the raw values.**  After ANY history of `rescale(inplace=True)`
    and `unscale(inplace=True)` on a well-formed object, in any order and of any length, `unscale()` of
    every trait is what it was at the start. -/
theorem scaled_inplace_history_keeps_unscaled (sq : α → α) (steps : List (Step α))
    (hst : ∀ st ∈ steps, st = .rescale true ∨ st = .unscale true) (h : Heap α) (hi : Scaled.Inv h) :
    ((steps.foldl (fun hh st => (exec sq hh st).1) h).traits.map scaledUnscaleCol = h.traits.map scaledUnscaleCol) ∧
    Scaled.Inv (steps.foldl (fun hh st => (exec sq hh st).1) h) := by
  induction steps generalizing h with
  | nil => exact ⟨rfl, hi⟩
  | cons st steps ih =>
    have hrest : ∀ s ∈ steps, s = .rescale true ∨ s = .unscale true := fun s hs => hst s (List.mem_cons_of_mem _ hs)
    simp only [List.foldl_cons]
    rcases hst st List.mem_cons_self with rfl | rfl
    · obtain ⟨h1, h2⟩ := ih hrest _ (scaled_inv_rescale sq h hi)
      refine ⟨?_, h2⟩
      rw [h1, scaled_rescale_inplace_refines sq h hi.1, List.map_map]
      apply List.map_congr_left
      intro t _
      exact rescale_keeps_unscaled sq t
    · obtain ⟨h1, h2⟩ := ih hrest _ (scaled_inv_unscale sq h hi)
      refine ⟨?_, h2⟩
      rw [h1, scaled_unscale_inplace_refines sq h hi.1 hi.2.1 hi.2.2, List.map_map]
      apply List.map_congr_left
      intro t _
      exact (unscale_inplace t).2.2.2

end theorems

/-! ## Non-vacuity: concrete non-trivial inputs meet the hypotheses (kernel-evaluated or `ℝ`) -/

-- the square-root contract used above is the one `Real.sqrt` satisfies
example : ∀ x : ℝ, 0 ≤ Real.sqrt x := Real.sqrt_nonneg
example : Real.sqrt 0 = 0 := Real.sqrt_zero
example (v : ℝ) (h : 0 ≤ v) : Real.sqrt v * Real.sqrt v = v := Real.mul_self_sqrt h
example (v : ℝ) (h : 0 < v) : Real.sqrt v ≠ 0 := (Real.sqrt_pos.mpr h).ne'
example : Real.sqrt 1 = 1 := Real.sqrt_one
example : Spec.SqrtContract Real.sqrt :=
  ⟨Real.sqrt_zero, Real.sqrt_one, Real.sqrt_nonneg, fun _ h => Real.mul_self_sqrt h⟩
example : varL (present [some (1 : ℚ), none, some 3]) ≠ 0 := by decide +kernel

-- a 3 x 2 matrix with a NaN and a constant trait: round trip, statistics (sq := id suffices because
-- the theorems hold for every sq; the trait [1,3] has variance 1 = id 1 · id 1)
example : unscale (fromNumpy (fun x : ℚ => x) [[some 1, none, some 3], [some 5, some 5, some 5]] [0, 1, 2])
    = [[some 1, none, some 3], [some 5, some 5, some 5]] := by decide +kernel
example : present [some (1 : ℚ), none, some 3] ≠ [] := by decide
example : (fromNumpyCol (fun x : ℚ => x) [some 1, none, some 3]).mat = [some (-1), none, some 1] := by decide +kernel
example : tmax true (fromNumpyCol (fun x : ℚ => x) [some 1, some 4, some 3]) = some 4
    ∧ colMax [some (1 : ℚ), some 4, some 3] = some 4 := by decide +kernel
example : targmax (fromNumpyCol (fun x : ℚ => x) [some 1, some 4, some 4]) = 1 := by decide +kernel
example : (fun x : ℚ => x) (varL (present [some (1 : ℚ), none, some 3])) ≠ 0 := by decide +kernel
example : (fun x : ℚ => x) (varL [(1 : ℚ), 3]) * (fun x : ℚ => x) (varL [(1 : ℚ), 3]) = varL [(1 : ℚ), 3] := by
  decide +kernel
-- a history of the four restandardising operations that is accepted, and one that is rejected
example : (∀ op ∈ ([Op.select [1, 1, 0], Op.adjoin (.nd [[some 7]] [5]), Op.delete [0], Op.insert 1 (.nd [[none]] [6])]
    : List (Op ℚ)), op.restandardises = true) := by decide
example : runRaw ([Op.select [1, 1, 0], Op.adjoin (.nd [[some 7]] [5]), Op.delete [0], Op.insert 1 (.nd [[none]] [6])]
    : List (Op ℚ)) ([[some 1, some 3]], [0, 1]) = .ok ([[some 3, none, some 1, some 7]], [1, 6, 0, 5]) := by
  decide +kernel
example : runRaw ([Op.select [2]] : List (Op ℚ)) ([[some 1, some 3]], [0, 1]) = .error .index := by decide +kernel
example : (∀ op ∈ ([Op.reorder [1, 0], Op.remove [0]] : List (Op ℚ)), op.keepsRaw = true) := by decide
example : ([2, 0, 1] : List Nat).Perm (List.range ([0, 1, 2] : List Nat).length) := by decide
-- numpy index objects: negative positions, a boolean mask, a slice, two insert positions, one value broadcast
example : runRawIx ([OpIx.select [-1, 0, 1], OpIx.delete (.mask [false, true, false]),
      OpIx.insert (.list [0, 2]) (.nd [[some 7, some 8]] [5, 6]), OpIx.delete (.slice (some 1) (some 3) none),
      OpIx.insert (.list [-1, 2]) (.nd [[none]] [9])] : List (OpIx ℚ)) ([[some 1, some 3, some 4]], [0, 1, 2])
    = .ok ([[some 7, none, some 8, none]], [5, 9, 6, 9]) := by decide +kernel
example : runRawIx ([OpIx.select [3]] : List (OpIx ℚ)) ([[some 1, some 3, some 4]], [0, 1, 2]) = .error .index := by
  decide +kernel
example : (∀ o ∈ ([OpIx.select [-1, 0, 1], OpIx.delete (.mask [false, true, false]),
      OpIx.insert (.list [0, 2]) (.nd [[some 7, some 8]] [5, 6])] : List (OpIx ℚ)), o.restandardises = true) := by
  decide
-- a valid history that uses all five inherited operations (and is accepted by the raw semantics)
example : ValidHistory ([Op.append (.nd [[some 7]] [5]), Op.reorder [2, 0, 1], Op.remove [0],
      Op.incorp 1 (.nd [[none]] [6]), Op.concat []] : List (Op ℚ)) ([[some 1, some 3]], [0, 1]) := by
  simp [ValidHistory, Op.validAt, applyRaw, Operand.values, Operand.taxa, Np.take, Np.delete, Np.insert,
    List.zipIdx]
  decide
example : runRaw ([Op.append (.nd [[some 7]] [5]), Op.reorder [2, 0, 1], Op.remove [0],
      Op.incorp 1 (.nd [[none]] [6]), Op.concat []] : List (Op ℚ)) ([[some 1, some 3]], [0, 1])
    = .ok ([[some 1, none, some 3]], [0, 6, 1]) := by decide +kernel
example : (∀ i ∈ [2, 0, 2], i < ([0, 1, 2] : List Nat).length) ∧
    (∀ c ∈ ([[some 1, none, some 3]] : List (Col ℚ)), c.length = ([0, 1, 2] : List Nat).length) := by decide

-- round 3.  A stale state (location 2 although the only retained value is 3): the any-state hypotheses hold
-- and the summaries are those of unscale()
example : ({ mat := [some 1, some (-1)], loc := some 2, scale := some 3 } : Trait ℚ).loc = some 2 ∧ (0 : ℚ) < 3 := by
  constructor <;> decide +kernel
example : tmax true ({ mat := [some 1, some (-1)], loc := some 2, scale := some 3 } : Trait ℚ) = some 5 ∧
    unscaleCol ({ mat := [some 1, some (-1)], loc := some 2, scale := some 3 } : Trait ℚ) = [some 5, some (-1)] ∧
    tvar true ({ mat := [some 1, some (-1)], loc := some 2, scale := some 3 } : Trait ℚ) = some 9 ∧
    tmean true ({ mat := [some 1, some (-1)], loc := some 2, scale := some 3 } : Trait ℚ) = some 2 := by decide +kernel
-- a history through all five inherited operations is accepted by the code as it is (so `history_any_state` applies)
example : (run (fun x : ℚ => x) false ([Op.append (.nd [[some 7]] [5]), Op.reorder [2, 0, 1], Op.remove [0],
      Op.incorp 1 (.nd [[none]] [6]), Op.concat [], Op.select [0, 2]] : List (Op ℚ))
      (fromNumpy (fun x : ℚ => x) [[some 1, some 3]] [0, 1])).toBool = true := by decide +kernel
example : ∀ x ∈ ([none, none] : Col ℚ), x = none := by decide
example : present ([some 5, none, some 5] : Col ℚ) ≠ [] ∧ ∀ x ∈ present ([some 5, none, some 5] : Col ℚ), x = 5 := by
  decide +kernel
-- round 4 (fix of D26).  from_numpy with a mean that is off: a trait constant among its observed taxa is still
-- stored with location 1/10, scale 1; a non-constant one takes whatever `mu` / `sd` deliver and still round-trips
example : fromNumpyColWith (fun l => meanL l + 1 / 1000) (fun _ => (1 / 1000 : ℚ)) [some (1 / 10), none, some (1 / 10)]
    = { mat := [some 0, none, some 0], loc := some (1 / 10), scale := some 1 } := by decide +kernel
example : unscaleCol (fromNumpyColWith (fun l => meanL l + 1 / 1000) (fun _ => (3 / 7 : ℚ)) [some 1, none, some 4])
    = [some 1, none, some 4] := by decide +kernel
example : ∀ l : List ℚ, 0 ≤ (fun _ => (3 / 7 : ℚ)) l := fun _ => by norm_num
-- the model itself on three equal values: unit scale whatever `sq` is (here a `sq` with sq 0 = 7)
example : fromNumpyCol (fun _ : ℚ => 7) [some (1 / 10), some (1 / 10), some (1 / 10)]
    = { mat := [some 0, some 0, some 0], loc := some (1 / 10), scale := some 1 } := by decide +kernel
example : fromNumpyColPrerepair (fun _ : ℚ => 7) [some (1 / 10), some (1 / 10), some (1 / 10)]
    = { mat := [some 0, some 0, some 0], loc := some (1 / 10), scale := some 7 } := by decide +kernel
-- rescale on a stored constant trait (stored 2,2 under location 1, scale 3: raw 7,7) with an inexact mean
example : rescaleColWith (fun l => meanL l + 1 / 1000) (fun _ => (1 / 1000 : ℚ))
      { mat := [some 2, some 2], loc := some 1, scale := some 3 }
    = { mat := [some 0, some 0], loc := some 7, scale := some 1 } := by decide +kernel
-- a history under a rounding that is off (mean + 1/1000, deviation 3/7 whatever the data): raw values come back
example : (runWith (fromNumpyColWith (fun l => meanL l + 1 / 1000) (fun _ => (3 / 7 : ℚ)))
      [Op.select [1, 1, 0], Op.adjoin (.nd [[some 7]] [5]), Op.delete [0]]
      (fromNumpyF (fromNumpyColWith (fun l => meanL l + 1 / 1000) (fun _ => (3 / 7 : ℚ))) [[some 1, some 3]] [0, 1])).map
        (fun b => (unscale b, b.taxa)) = .ok ([[some 3, some 1, some 7]], [1, 0, 5]) := by decide +kernel
-- a well-formed DenseScaledMatrix heap (matrix [1,3 | 5,5], location [0,1], scale [1,2]) and a call history on it
example : Scaled.Inv ({ arrs := [[[some 1, some 3], [some 5, some 5]], [[some 0], [some 1]], [[some 1], [some 2]]],
                        mat := 0, loc := 1, scale := 2 } : Scaled.Heap ℚ) :=
  ⟨⟨by decide, by decide, by decide, by decide, by decide, by decide⟩, by decide, by decide⟩
example : (Scaled.trace (fun x : ℚ => x)
      ({ arrs := [[[some 1, some 3], [some 5, some 5]], [[some 0], [some 1]], [[some 1], [some 2]]],
         mat := 0, loc := 1, scale := 2 } : Scaled.Heap ℚ)
      [.rescale true, .unscale false, .transform (.ref 5) false, .unscale true]).map
        (fun r => (r.2, r.1.mat, r.1.loc, r.1.scale, r.1.arrs.length)) =
    [(0, 0, 3, 4, 5), (5, 0, 3, 4, 6), (5, 0, 3, 4, 6), (0, 0, 3, 4, 6)] := by decide +kernel
example : ((Scaled.trace (fun x : ℚ => x)
      ({ arrs := [[[some 1, some 3], [some 5, some 5]], [[some 0], [some 1]], [[some 1], [some 2]]],
         mat := 0, loc := 1, scale := 2 } : Scaled.Heap ℚ)
      [.rescale true, .unscale true]).map (fun r => r.1.get 0)) =
    [[[some (-1), some 1], [some 0, some 0]], [[some 1, some 3], [some 11, some 11]]] := by decide +kernel

end C15
