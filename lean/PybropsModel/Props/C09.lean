/-
C09 — Genotype summary statistics are exact and mutually consistent.
Property theorems only (helper lemmas: Lemmas/GenotypeSums, Lemmas/GenotypeStats, Lemmas/Rounding).

Model: PybropsModel/Model/Genotype.lean transcribes the statistics of DenseGenotypeMatrix (unphased,
dosage calls `0..ploidy`), DensePhasedGenotypeMatrix (phased, binary allele calls) and
DenseUnphasedGenotyping.genotype (`project`) as the code is now (division form of the frequencies,
`ploidy+1` genotype classes).

Quantifier of the property: all matrices of any number of taxa (≥ 1), any number of markers, all allele
patterns, all output dtypes.  Sizes are unbounded in every theorem; `ValidU` / `ValidP` say exactly
"the raw calls are dosages in 0..ploidy / binary alleles, rectangular, at least one taxon".  Output
dtypes are covered by the rounding theorems: every floating dtype is a `RoundingContract`.
-/
import PybropsModel.Lemmas.GenotypeRounding
import PybropsModel.Lemmas.Binary64
import PybropsModel.Lemmas.GenotypeCast
import PybropsModel.Lemmas.GenotypeCache
import PybropsModel.Lemmas.GenotypeSpec
import PybropsModel.Lemmas.BinaryFloat
import PybropsModel.Lemmas.GenotypeLoops
set_option autoImplicit false
set_option linter.unusedSectionVars false
set_option linter.unusedVariables false

namespace C09
open Genotype Rounding

/-! ## 1. Unphased matrices, exact arithmetic (any ordered field) -/
section unphased
variable {α : Type} [Field α] [LinearOrder α] [IsStrictOrderedRing α]

/-- **Frequencies lie in [0,1].** -/
theorem afreq_unit_interval {ploidy nv : Nat} {m : UMat} (hv : ValidU ploidy nv m) :
    ∀ p ∈ afreq (α := α) ploidy nv m, 0 ≤ p ∧ p ≤ 1 := by
  intro p hp
  obtain ⟨j, _, rfl⟩ := List.mem_map.mp hp
  exact afreqAt_bounds hv j

/-- **Exactly 1 precisely when every chromosome copy carries allele 1** (every dosage = ploidy). -/
theorem afreq_eq_one_iff {ploidy nv : Nat} {m : UMat} (hv : ValidU ploidy nv m) (j : Nat) :
    afreqAt (α := α) ploidy m j = 1 ↔ ∀ r ∈ m, entry r j = (ploidy : Int) :=
  afreqAt_eq_one_iff hv j

/-- **Exactly 0 precisely when no chromosome copy carries allele 1.** -/
theorem afreq_eq_zero_iff {ploidy nv : Nat} {m : UMat} (hv : ValidU ploidy nv m) (j : Nat) :
    afreqAt (α := α) ploidy m j = 0 ↔ ∀ r ∈ m, entry r j = 0 :=
  afreqAt_eq_zero_iff hv j

/-- **The fixation flag is the exact complement of the polymorphism flag** (whole arrays). -/
theorem afixed_eq_not_apoly {ploidy nv : Nat} {m : UMat} (hv : ValidU ploidy nv m) :
    afixed (α := α) ploidy nv m = (apoly (α := α) ploidy nv m).map (fun b => !b) := by
  unfold afixed apoly
  rw [List.map_map]
  apply List.map_congr_left
  intro p hp
  obtain ⟨h0, h1⟩ := afreq_unit_interval hv p hp
  exact afixedOf_eq_not_apolyOf h0 h1

/-- **Fixation flag = textbook definition**: set exactly when all copies in the population carry the
    same allele. -/
theorem afixed_iff_all_copies_same {ploidy nv : Nat} {m : UMat} (hv : ValidU ploidy nv m) (j : Nat) :
    afixedOf (afreqAt (α := α) ploidy m j) = true ↔
      ((∀ r ∈ m, entry r j = 0) ∨ (∀ r ∈ m, entry r j = (ploidy : Int))) := by
  rw [afixedOf_iff, afreqAt_eq_one_iff hv j, afreqAt_eq_zero_iff hv j]

/-- polymorphism flag = textbook definition: both alleles are present in the population -/
theorem apoly_iff_both_alleles {ploidy nv : Nat} {m : UMat} (hv : ValidU ploidy nv m) (j : Nat) :
    apolyOf (afreqAt (α := α) ploidy m j) = true ↔
      ((∃ r ∈ m, entry r j ≠ 0) ∧ (∃ r ∈ m, entry r j ≠ (ploidy : Int))) := by
  obtain ⟨h0, h1⟩ := afreqAt_bounds (α := α) hv j
  have hc := afixedOf_eq_not_apolyOf h0 h1
  have hf := afixed_iff_all_copies_same (α := α) hv j
  rw [hc] at hf
  constructor
  · intro h
    have : ¬ ((∀ r ∈ m, entry r j = 0) ∨ (∀ r ∈ m, entry r j = (ploidy : Int))) := by
      intro hh; have := hf.mpr hh; simp [h] at this
    rw [not_or] at this
    obtain ⟨a, b⟩ := this
    exact ⟨by simpa using a, by simpa using b⟩
  · rintro ⟨⟨r, hr, hr0⟩, ⟨s, hs, hs1⟩⟩
    by_contra hn
    have hn' : (!apolyOf (afreqAt (α := α) ploidy m j)) = true := by simpa using hn
    rcases hf.mp hn' with h | h
    · exact hr0 (h r hr)
    · exact hs1 (h s hs)

/-- per-taxon frequency `g / ploidy`: in [0,1], exactly 1 / 0 iff the taxon carries ploidy / 0 copies -/
theorem tafreq_exact {ploidy : Nat} (hp : 0 < ploidy) (g : Int) (h0 : 0 ≤ g) (h1 : g ≤ (ploidy : Int)) :
    (0 ≤ tafreqAt (α := α) ploidy g ∧ tafreqAt (α := α) ploidy g ≤ 1)
    ∧ (tafreqAt (α := α) ploidy g = 1 ↔ g = (ploidy : Int))
    ∧ (tafreqAt (α := α) ploidy g = 0 ↔ g = 0) := by
  have hd : (0 : α) < (ploidy : α) := by exact_mod_cast hp
  unfold tafreqAt
  refine ⟨⟨div_nonneg (by exact_mod_cast h0) hd.le, ?_⟩, ?_, ?_⟩
  · rw [div_le_one hd]
    have : ((g : Int) : α) ≤ (((ploidy : Nat) : Int) : α) := by exact_mod_cast h1
    simpa using this
  · rw [div_eq_one_iff_eq hd.ne']
    constructor
    · intro h
      have : ((g : Int) : α) = (((ploidy : Nat) : Int) : α) := by simpa using h
      exact_mod_cast this
    · intro h; rw [h]; simp
  · rw [div_eq_zero_iff]
    constructor
    · rintro (h | h)
      · exact_mod_cast h
      · exact absurd h hd.ne'
    · intro h; left; rw [h]; simp


/-- every entry of the per-taxon frequency matrix lies in [0,1] -/
theorem tafreq_unit_interval {ploidy nv : Nat} {m : UMat} (hv : ValidU ploidy nv m) :
    ∀ row ∈ tafreq (α := α) ploidy m, ∀ p ∈ row, 0 ≤ p ∧ p ≤ 1 := by
  intro row hrow p hp
  obtain ⟨r, hr, rfl⟩ := List.mem_map.mp hrow
  obtain ⟨g, hg, rfl⟩ := List.mem_map.mp hp
  obtain ⟨h0, h1⟩ := (hv.2.2 r hr).2 g hg
  exact (tafreq_exact (α := α) hv.1 g h0 h1).1

/-- **Genotype-class counts cover all ploidy+1 classes and sum to the number of taxa** at every locus. -/
theorem gtcount_classes {ploidy nv : Nat} {m : UMat} (hv : ValidU ploidy nv m) :
    (gtcount ploidy nv m).length = ploidy + 1
    ∧ (∀ row ∈ gtcount ploidy nv m, row.length = nv)
    ∧ ∀ j, ((List.range (ploidy + 1)).map (fun i => gtcountAt m i j)).sum = m.length := by
  refine ⟨by simp [gtcount], ?_, ?_⟩
  · intro row hrow
    obtain ⟨i, _, rfl⟩ := List.mem_map.mp hrow
    simp
  · intro j
    have := sum_count_classes (P := ploidy) (col_bounds hv j)
    rw [col_length] at this
    exact this

/-- genotype-class frequency = class count / ntaxa, and the class frequencies of a locus sum to 1 -/
theorem gtfreq_eq_textbook {ploidy nv : Nat} {m : UMat} (hv : ValidU ploidy nv m) (i j : Nat) :
    gtfreqAt (α := α) m i j = ((gtcountAt m i j : Nat) : α) / ((m.length : Nat) : α)
    ∧ ((List.range (ploidy + 1)).map (fun i => gtfreqAt (α := α) m i j)).sum = 1 := by
  have hn : ((m.length : Nat) : α) ≠ 0 := by exact_mod_cast hv.2.1.ne'
  refine ⟨by unfold gtfreqAt; rw [one_div_mul_eq_div], ?_⟩
  unfold gtfreqAt
  rw [List.sum_map_mul_left]
  have hs := (gtcount_classes hv).2.2 j
  have : ((List.range (ploidy + 1)).map (fun i => ((gtcountAt m i j : Nat) : α))).sum
      = ((((List.range (ploidy + 1)).map (fun i => gtcountAt m i j)).sum : Nat) : α) := by
    rw [Nat.cast_list_sum, List.map_map]; rfl
  rw [this, hs]
  field_simp

/-- minor-allele frequency = `min(p, 1-p)`, hence in `[0, 1/2]` -/
theorem maf_eq_textbook {ploidy nv : Nat} {m : UMat} (hv : ValidU ploidy nv m) :
    maf (α := α) ploidy nv m = (afreq (α := α) ploidy nv m).map (fun p => min p (1 - p))
    ∧ ∀ q ∈ maf (α := α) ploidy nv m, 0 ≤ q ∧ q ≤ 1 / 2 := by
  refine ⟨?_, ?_⟩
  · unfold maf
    apply List.map_congr_left
    intro p _
    exact mafOf_eq_min p
  · intro q hq
    obtain ⟨p, hp, rfl⟩ := List.mem_map.mp hq
    obtain ⟨h0, h1⟩ := afreq_unit_interval hv p hp
    exact mafOf_bounds h0 h1

/-- mean expected heterozygosity = `(1/nvrnt) Σ_j ploidy · p_j (1 - p_j)`, and it is non-negative -/
theorem meh_eq_textbook {ploidy nv : Nat} {m : UMat} (hv : ValidU ploidy nv m) :
    meh (α := α) ploidy nv m
        = ((afreq (α := α) ploidy nv m).map (fun p => (ploidy : α) * (p * (1 - p)))).sum / (nv : α)
    ∧ 0 ≤ meh (α := α) ploidy nv m :=
  ⟨mehOf_eq ploidy nv _, mehOf_nonneg ploidy nv _ (afreq_unit_interval hv)⟩

/-- codings: `{-1,0,1}` is dosage − 1; in `{-1,m,1}` a homozygote keeps ∓1 and a heterozygote (dosage 1)
    gets the column mean of the `{-1,0,1}` coding -/
theorem codings_eq_textbook (m : UMat) (g : Int) (j : Nat) :
    fmtM101 m = m.map (fun r => r.map (fun x => x - 1))
    ∧ (g = 1 → fmtM1m1At (α := α) m g j = colMeanM1 (α := α) m j)
    ∧ (g ≠ 1 → fmtM1m1At (α := α) m g j = ((g - 1 : Int) : α)) := by
  refine ⟨rfl, ?_, ?_⟩
  · intro h; subst h; simp [fmtM1m1At]
  · intro h
    have : ((g - 1 : Int) : α) ≠ 0 := by
      have : g - 1 ≠ 0 := by omega
      exact_mod_cast this
    unfold fmtM1m1At
    rw [if_neg]
    simpa using this

/-- **The `{-1,m,1}` loop as written.**  `out = mat - 1.0; for i in range(nvrnt): mean = out[:,i].mean();
    out[out[:,i] == 0, i] = mean` — the literal column-by-column loop on the float matrix (each pass reads the column
    as the earlier passes left it) — returns the closed form of the model for every valid matrix: heterozygotes get the
    mean of the ORIGINAL `{-1,0,1}` column, because a pass only ever rewrites its own column. -/
theorem m_coding_loop_eq_closed_form {ploidy nv : Nat} {m : UMat} (hv : ValidU ploidy nv m) :
    m1Loop (α := α) nv m = fmtM1m1 (α := α) nv m := m1Loop_eq_closed hv

end unphased

/-! ## 2. Phased matrices and the unphased projection -/
section phased
variable {α : Type} [Field α] [LinearOrder α] [IsStrictOrderedRing α]

/-- **Counts equal their textbook definitions on the raw allele calls**: the per-taxon count is the
    number of that taxon's copies carrying allele 1, the population count the number of all copies
    carrying allele 1, and the frequency is that number over the number of copies. -/
theorem phased_counts_eq_textbook {nt nv : Nat} {G : PMat} (hv : ValidP nt nv G) (i j : Nat) :
    psumAt G i j = ((copiesOf G i j).count 1 : Nat)
    ∧ pacountAt G j = ((popCopies G j).count 1 : Nat)
    ∧ pafreqAt (α := α) nt G j = (((popCopies G j).count 1 : Nat) : α) / (((popCopies G j).length : Nat) : α) := by
  refine ⟨psumAt_eq_count hv i j, pacountAt_eq_count hv j, ?_⟩
  unfold pafreqAt
  rw [pacountAt_eq_count hv j, popCopies_length (fun ph hph => (hv.2.2 ph hph).1) j]
  simp

theorem pafreq_unit_interval {nt nv : Nat} {G : PMat} (hv : ValidP nt nv G) (j : Nat) :
    0 ≤ pafreqAt (α := α) nt G j ∧ pafreqAt (α := α) nt G j ≤ 1 := pafreqAt_bounds hv j

/-- **Exactly 1 / exactly 0 precisely when every chromosome copy carries the same allele.** -/
theorem pafreq_exact_iff {nt nv : Nat} {G : PMat} (hv : ValidP nt nv G) (j : Nat) :
    (pafreqAt (α := α) nt G j = 1 ↔ ∀ a ∈ popCopies G j, a = 1)
    ∧ (pafreqAt (α := α) nt G j = 0 ↔ ∀ a ∈ popCopies G j, a = 0) :=
  ⟨pafreqAt_eq_one_iff hv j, pafreqAt_eq_zero_iff hv j⟩

/-- **Fixation flag (inherited, tests the frequency) is the exact complement of the polymorphism flag
    (tests the alleles)** on the phased class. -/
theorem pafixed_eq_not_papoly {nt nv : Nat} {G : PMat} (hv : ValidP nt nv G) :
    pafixed (α := α) nt nv G = (papoly nv G).map (fun b => !b) := by
  unfold pafixed papoly pafreq
  rw [List.map_map, List.map_map]
  apply List.map_congr_left
  intro j _
  obtain ⟨h0, h1⟩ := pafreqAt_bounds (α := α) hv j
  simp only [Function.comp]
  rw [papolyAt_eq_apolyOf (α := α) hv j]
  exact afixedOf_eq_not_apolyOf h0 h1

/-- the projection of a valid phased matrix is a valid unphased matrix whose ploidy is the number of
    phases — so every theorem of section 1 applies to it -/
theorem project_valid {nt nv : Nat} {G : PMat} (hv : ValidP nt nv G) :
    ValidU (project nt nv G).1 nv (project nt nv G).2 := psum_valid hv

/-- **A phased matrix and its unphased projection give identical answers**, statistic by statistic. -/
theorem phased_eq_projection {nt nv : Nat} {G : PMat} (hv : ValidP nt nv G) :
    let pl := (project nt nv G).1
    let U := (project nt nv G).2
    ptacount nt nv G = tacount U
    ∧ ptafreq (α := α) nt nv G = tafreq (α := α) pl U
    ∧ pacount nv G = acount nv U
    ∧ pafreq (α := α) nt nv G = afreq (α := α) pl nv U
    ∧ pafixed (α := α) nt nv G = afixed (α := α) pl nv U
    ∧ papoly nv G = apoly (α := α) pl nv U
    ∧ pmaf (α := α) nt nv G = maf (α := α) pl nv U
    ∧ pmeh (α := α) nt nv G = meh (α := α) pl nv U
    ∧ pgtcount nt nv G = gtcount pl nv U
    ∧ pgtfreq (α := α) nt nv G = gtfreq (α := α) pl nv U
    ∧ pfmt012 nt nv G = fmt012 U
    ∧ pfmtM101 nt nv G = fmtM101 U
    ∧ pfmtM1m1 (α := α) nt nv G = fmtM1m1 (α := α) nv U := by
  intro pl U
  have hrect : ∀ ph ∈ G, ph.length = nt := fun ph hph => (hv.2.2 ph hph).1
  have hac : pacount nv G = acount nv U := by
    unfold pacount acount
    apply List.map_congr_left
    intro j hj
    exact pacountAt_eq_acountAt_psum hrect j (List.mem_range.mp hj)
  have haf : pafreq (α := α) nt nv G = afreq (α := α) pl nv U := by
    unfold pafreq afreq
    apply List.map_congr_left
    intro j hj
    exact pafreqAt_eq_afreqAt_psum hrect j (List.mem_range.mp hj)
  have hpoly : papoly nv G = apoly (α := α) pl nv U := by
    unfold apoly
    rw [← haf]
    unfold papoly pafreq
    rw [List.map_map]
    apply List.map_congr_left
    intro j _
    exact papolyAt_eq_apolyOf (α := α) hv j
  refine ⟨rfl, rfl, hac, haf, ?_, hpoly, ?_, ?_, rfl, rfl, rfl, rfl, rfl⟩
  · unfold pafixed afixed; rw [haf]
  · unfold pmaf maf; rw [haf]
  · unfold pmeh meh; rw [haf]; rfl


/-- **Genotype classes of a phased matrix = textbook**: class `c` at locus `j` counts the taxa that carry
    exactly `c` copies of allele 1; there are `nphase + 1` classes and they sum to the number of taxa. -/
theorem pgtcount_eq_textbook {nt nv : Nat} {G : PMat} (hv : ValidP nt nv G) (c j : Nat) (hj : j < nv) :
    gtcountAt (psum nt nv G) c j
        = ((List.range nt).filter (fun i => (copiesOf G i j).count 1 == c)).length
    ∧ (pgtcount nt nv G).length = G.length + 1
    ∧ ((List.range (G.length + 1)).map (fun c => gtcountAt (psum nt nv G) c j)).sum = nt := by
  refine ⟨?_, ?_, ?_⟩
  · rw [gtcountAt_psum_eq nt nv G c j hj]
    congr 1
    apply List.filter_congr
    intro i _
    rw [psumAt_eq_count hv i j]
    simp
  · exact (gtcount_classes (psum_valid hv)).1
  · have := (gtcount_classes (psum_valid hv)).2.2 j
    rw [psum_length] at this
    exact this

end phased

/-! ## 3. Floating point: the division form is exact at 0 and 1 under every IEEE-style rounding -/
section rounding
variable {rnd : ℚ → ℚ} {e : ℚ}

/-- **Rounding theorem.**  For a monotone rounding that fixes 0, 1, `e`, `1-e` (binary64: `e = 2⁻⁵³`)
    and `0 ≤ c ≤ m`, `m·e ≤ 1` (binary64: `m ≤ 2⁵³`): the rounded quotient `c/m` is in [0,1], is 1
    exactly when `c = m` and 0 exactly when `c = 0`. -/
theorem div_form_exact (h : RoundingContract rnd e) (c m : ℕ) (hm : 0 < m) (hcm : c ≤ m)
    (hbig : (m : ℚ) * e ≤ 1) :
    (rnd ((c : ℚ) / m) = 1 ↔ c = m) ∧ (rnd ((c : ℚ) / m) = 0 ↔ c = 0)
    ∧ 0 ≤ rnd ((c : ℚ) / m) ∧ rnd ((c : ℚ) / m) ≤ 1 :=
  ⟨div_form_one h c m hm hcm hbig, div_form_zero h c m hm hbig, div_form_bounds h c m hm hcm⟩

/-- binary64 instance of the side condition: any population with `ploidy·ntaxa ≤ 2⁵³` -/
theorem div_form_exact_binary64 (h : RoundingContract rnd eps64) (c m : ℕ) (hm : 0 < m) (hcm : c ≤ m)
    (hbig : m ≤ 2 ^ 53) :
    (rnd ((c : ℚ) / m) = 1 ↔ c = m) ∧ (rnd ((c : ℚ) / m) = 0 ↔ c = 0) :=
  ⟨div_form_one h c m hm hcm (eps64_bound m hbig), div_form_zero h c m hm (eps64_bound m hbig)⟩

/-
FULL STATEMENT (false of every floating-point format, see `rounded_exact_full_statement_counterexample`):
  "for every population size and every requested floating dtype the returned frequency is exactly 1 / 0
   precisely when every copy carries allele 1 / 0".
A format with half-ulp `e` cannot separate `(m-1)/m` from 1 once `m·e > 1`: binary64 beyond 2⁵³ copies
(no numpy array that large can exist), binary32 beyond 2²⁴ copies, binary16 beyond 2¹¹ copies — e.g. on
the real code `DensePhasedGenotypeMatrix(2 × 2049 × 1, one copy 0).afreq("float16")[0] == 1.0` although
`afreq()[0] = 0.99975…`, `afixed()` is False and `apoly()` True (the flags always use binary64).  This is
the precision of the requested dtype, not a defect of the code: no implementation returning that dtype
can do better.  The three theorems below are therefore named `_partial`: they carry the size hypothesis
`ploidy·ntaxa·e ≤ 1`, which is the exact range in which the format can represent the distinction.
-/

/-- **The floating-point frequency of the code as it is now** (`rnd (Σ / (ploidy·n))`) is in [0,1], is
    exactly 1 / 0 precisely when every copy carries allele 1 / 0, and the float tests of `afixed`,
    `apoly` return what the exact frequency would give — so `afixed = ¬ apoly` in floating point. -/
theorem afreq_rounded_exact_partial (h : RoundingContract rnd e) {ploidy nv : Nat} {m : UMat}
    (hv : ValidU ploidy nv m) (hbig : ((ploidy * m.length : ℕ) : ℚ) * e ≤ 1) (j : Nat) :
    let p := afreqAt (α := ℚ) ploidy m j
    (0 ≤ rnd p ∧ rnd p ≤ 1)
    ∧ (rnd p = 1 ↔ ∀ r ∈ m, entry r j = (ploidy : Int))
    ∧ (rnd p = 0 ↔ ∀ r ∈ m, entry r j = 0)
    ∧ afixedOf (rnd p) = afixedOf p
    ∧ apolyOf (rnd p) = apolyOf p
    ∧ afixedOf (rnd p) = !apolyOf (rnd p) := by
  intro p
  obtain ⟨hb, r1, r0⟩ := afreqAt_rounded h hv hbig j
  obtain ⟨q1, q0, _, _, _⟩ := afreqAt_rounded_tests h hv hbig j
  have hfix : afixedOf (rnd p) = afixedOf p := by
    rw [Bool.eq_iff_iff, afixedOf_iff, afixedOf_iff, q1, q0]
  obtain ⟨pb0, pb1⟩ := afreqAt_bounds (α := ℚ) hv j
  have hpoly : apolyOf (rnd p) = apolyOf p := by
    have a := afixedOf_eq_not_apolyOf hb.1 hb.2
    have b := afixedOf_eq_not_apolyOf pb0 pb1
    have : (!apolyOf (rnd p)) = !apolyOf p := by rw [← a, ← b]; exact hfix
    simpa using this
  exact ⟨hb, r1, r0, hfix, hpoly, afixedOf_eq_not_apolyOf hb.1 hb.2⟩

/-- same statement for the phased class (`afixed` inherited: float test; `apoly`: allele test) -/
theorem pafreq_rounded_exact_partial (h : RoundingContract rnd e) {nt nv : Nat} {G : PMat}
    (hv : ValidP nt nv G) (hbig : ((G.length * nt : ℕ) : ℚ) * e ≤ 1) (j : Nat) (hj : j < nv) :
    let p := pafreqAt (α := ℚ) nt G j
    (0 ≤ rnd p ∧ rnd p ≤ 1)
    ∧ (rnd p = 1 ↔ ∀ a ∈ popCopies G j, a = 1)
    ∧ (rnd p = 0 ↔ ∀ a ∈ popCopies G j, a = 0)
    ∧ afixedOf (rnd p) = !papolyAt G j := by
  intro p
  have hrect : ∀ ph ∈ G, ph.length = nt := fun ph hph => (hv.2.2 ph hph).1
  have hU := psum_valid hv
  have hpe : p = afreqAt (α := ℚ) G.length (psum nt nv G) j := pafreqAt_eq_afreqAt_psum hrect j hj
  have hbig' : ((G.length * (psum nt nv G).length : ℕ) : ℚ) * e ≤ 1 := by rw [psum_length]; exact hbig
  obtain ⟨hb, r1, r0, hfix, hpoly, hc⟩ := afreq_rounded_exact_partial h hU hbig' j
  rw [← hpe] at hb r1 r0 hfix hpoly hc
  obtain ⟨e1, e0⟩ := pafreq_exact_iff (α := ℚ) hv j
  have p1 := afreqAt_eq_one_iff (α := ℚ) hU j
  have p0 := afreqAt_eq_zero_iff (α := ℚ) hU j
  rw [← hpe] at p1 p0
  refine ⟨hb, ?_, ?_, ?_⟩
  · rw [r1, ← p1]; exact e1
  · rw [r0, ← p0]; exact e0
  · rw [hc, hpoly, papolyAt_eq_apolyOf (α := ℚ) hv j]

/-! ### a concrete IEEE rounding: binary64 round-to-nearest-even -/

/-- **`Binary64.roundBinary64`** — round-to-nearest, ties-to-even on the binary64 grid (defined on ℚ by
    `⌊log₂⌋`, scaling to `[2⁵², 2⁵³)` and rounding half to even) **is monotone and fixes 0, 1, 2⁻⁵³, 1 - 2⁻⁵³**:
    the abstract contract is inhabited by the actual IEEE rounding, not only by exact arithmetic. -/
theorem binary64_satisfies_contract : RoundingContract Binary64.roundBinary64 eps64 :=
  Binary64.roundBinary64_contract

/-- `div_form_exact` for the IEEE rounding itself: the binary64 quotient `c/m` (`c ≤ m ≤ 2⁵³`) is in [0,1],
    equals 1 exactly when `c = m` and 0 exactly when `c = 0`. -/
theorem div_form_exact_ieee (c m : ℕ) (hm : 0 < m) (hcm : c ≤ m) (hbig : m ≤ 2 ^ 53) :
    (Binary64.roundBinary64 ((c : ℚ) / m) = 1 ↔ c = m) ∧ (Binary64.roundBinary64 ((c : ℚ) / m) = 0 ↔ c = 0)
    ∧ 0 ≤ Binary64.roundBinary64 ((c : ℚ) / m) ∧ Binary64.roundBinary64 ((c : ℚ) / m) ≤ 1 :=
  div_form_exact Binary64.roundBinary64_contract c m hm hcm (eps64_bound m hbig)

/-- the float frequency of the code, with the IEEE rounding in place of the abstract one: for every valid
    matrix with at most 2⁵³ chromosome copies -/
theorem afreq_ieee_exact_partial {ploidy nv : Nat} {m : UMat} (hv : ValidU ploidy nv m)
    (hbig : ploidy * m.length ≤ 2 ^ 53) (j : Nat) :
    let p := afreqAt (α := ℚ) ploidy m j
    (0 ≤ Binary64.roundBinary64 p ∧ Binary64.roundBinary64 p ≤ 1)
    ∧ (Binary64.roundBinary64 p = 1 ↔ ∀ r ∈ m, entry r j = (ploidy : Int))
    ∧ (Binary64.roundBinary64 p = 0 ↔ ∀ r ∈ m, entry r j = 0)
    ∧ afixedOf (Binary64.roundBinary64 p) = !apolyOf (Binary64.roundBinary64 p) := by
  intro p
  obtain ⟨a, b, c, _, _, f⟩ :=
    afreq_rounded_exact_partial Binary64.roundBinary64_contract hv (eps64_bound _ hbig) j
  exact ⟨a, b, c, f⟩

/-- **cross-check of the rounding model against Lean's own binary64 `Float`** (kernel-evaluated): on this table
    of quotients — the boundary sizes, near-fixed counts, thirds, tenths, a 200 001-taxon population —
    `Float` division returns exactly `roundBinary64 (c/m)`. -/
theorem roundBinary64_agrees_with_Float_division :
    ([(1, 3), (2, 3), (1, 10), (7, 10), (1, 49), (48, 49), (1, 98), (97, 98), (55, 98), (195, 196), (102, 103),
      (106, 107), (160, 161), (186, 187), (393, 394), (196, 197), (1181, 1182), (1, 1200), (1199, 1200),
      (99999, 100000), (400001, 400002), (1, 400002), (5, 7), (22, 7), (1, 9007199254740992),
      (9007199254740991, 9007199254740992)].all
      (fun p => Binary64.agreesWithFloatDiv p.1 p.2)) = true := by decide +kernel

/-- **All requested floating dtypes.**  `afreq(dtype)` casts the binary64 frequency with `dtype.type(out)`;
    a cast to a narrower format composed with the binary64 rounding is again a rounding contract (with the
    narrow half-ulp `e₂`), so the frequency returned in that dtype is still in [0,1] and exactly 1 / 0
    precisely when every copy carries allele 1 / 0 (for `ploidy·ntaxa·e₂ ≤ 1`: ≤ 2²⁴ copies in binary32,
    ≤ 2¹¹ in binary16). -/
theorem afreq_cast_exact_partial {r1 r2 : ℚ → ℚ} {e1 e2 : ℚ} (h1 : RoundingContract r1 e1)
    (h2 : RoundingContract r2 e2) (f1 : r1 e2 = e2) (f2 : r1 (1 - e2) = 1 - e2)
    {ploidy nv : Nat} {m : UMat} (hv : ValidU ploidy nv m)
    (hbig : ((ploidy * m.length : ℕ) : ℚ) * e2 ≤ 1) (j : Nat) :
    (0 ≤ r2 (r1 (afreqAt (α := ℚ) ploidy m j)) ∧ r2 (r1 (afreqAt (α := ℚ) ploidy m j)) ≤ 1)
    ∧ (r2 (r1 (afreqAt (α := ℚ) ploidy m j)) = 1 ↔ ∀ r ∈ m, entry r j = (ploidy : Int))
    ∧ (r2 (r1 (afreqAt (α := ℚ) ploidy m j)) = 0 ↔ ∀ r ∈ m, entry r j = 0) :=
  afreqAt_rounded (contract_comp h1 h2 f1 f2) hv hbig j

/-- the size hypothesis of the three `_partial` theorems cannot be dropped: there is a rounding that meets
    the contract and maps `(m-1)/m` to exactly 1 for every `m` with `m·e > 1`; and on Lean's binary64
    `Float` (kernel-evaluated) the quotient `(2⁵⁴-1)/2⁵⁴` is exactly 1.0 -/
theorem rounded_exact_full_statement_counterexample :
    (∀ (e : ℚ), 0 < e → e < 1 / 2 → RoundingContract (snapUp e) e
        ∧ ∀ m : ℕ, 1 < m → 1 < (m : ℚ) * e → snapUp e (((m - 1 : ℕ) : ℚ) / m) = 1 ∧ m - 1 ≠ m)
    ∧ (((2 ^ 54 - 1 : Nat).toFloat / (2 ^ 54 : Nat).toFloat) == 1.0) = true := by
  refine ⟨fun e he he2 => ⟨snapUp_contract e he he2, fun m hm hbig => ⟨snapUp_large e m hm hbig, by omega⟩⟩, ?_⟩
  decide +kernel

/-- **Why the repair matters (defect D1/D16, fixed in /repo).**  On Lean's own binary64 `Float` the
    pre-repair expression `(1/(ploidy·n))·Σ` gives a frequency ≠ 1 for the fully fixed locus of 49
    diploid taxa, so `afixed` is false and `apoly` true; the division form used now gives exactly 1.
    Evaluated by the kernel. -/
theorem recip_form_counterexample :
    let m : UMat := List.replicate 49 [2]
    (afreqRecipAt (α := Float) 2 m 0 == 1.0) = false
    ∧ afixedOf (afreqRecipAt (α := Float) 2 m 0) = false
    ∧ apolyOf (afreqRecipAt (α := Float) 2 m 0) = true
    ∧ (afreqAt (α := Float) 2 m 0 == 1.0) = true
    ∧ afixedOf (afreqAt (α := Float) 2 m 0) = true
    ∧ apolyOf (afreqAt (α := Float) 2 m 0) = false := by decide +kernel

/-- the same failure at every boundary size the generator always includes (haploid count n/n) -/
theorem recip_form_counterexample_sizes :
    [49, 98, 103, 107, 161, 187, 196, 197].all (fun n =>
      let m : UMat := List.replicate n [1]
      !(afreqRecipAt (α := Float) 1 m 0 == 1.0) && (afreqAt (α := Float) 1 m 0 == 1.0)) = true := by
  decide +kernel

/-- **Genotype-class frequencies: the division form would be exact** (observation, not what the code does — it
    computes `(1/ntaxa)·count`): under any rounding contract, `rnd (count/ntaxa)` is in [0,1], is exactly 1
    precisely when every taxon is in the class and exactly 0 precisely when none is (`ntaxa·e ≤ 1`). -/
theorem gtfreq_div_form_exact_partial (h : RoundingContract rnd e) {ploidy nv : Nat} {m : UMat}
    (hv : ValidU ploidy nv m) (hbig : ((m.length : ℕ) : ℚ) * e ≤ 1) (i j : Nat) :
    (0 ≤ rnd (gtfreqDivAt (α := ℚ) m i j) ∧ rnd (gtfreqDivAt (α := ℚ) m i j) ≤ 1)
    ∧ (rnd (gtfreqDivAt (α := ℚ) m i j) = 1 ↔ ∀ r ∈ m, entry r j = (i : Int))
    ∧ (rnd (gtfreqDivAt (α := ℚ) m i j) = 0 ↔ ∀ r ∈ m, entry r j ≠ (i : Int)) := by
  have hn : 0 < m.length := hv.2.1
  have hle : gtcountAt m i j ≤ m.length := by
    unfold gtcountAt; rw [← col_length m j]; exact List.count_le_length
  obtain ⟨e1, e0, b0, b1⟩ := div_form_exact h (gtcountAt m i j) m.length hn hle hbig
  unfold gtfreqDivAt
  refine ⟨⟨b0, b1⟩, ?_, ?_⟩
  · rw [e1]
    unfold gtcountAt
    rw [← col_length m j, List.count_eq_length]
    simp only [col, List.mem_map, forall_exists_index, and_imp]
    constructor
    · intro hh r hr; exact (hh (entry r j) r hr rfl).symm
    · intro hh b r hr hb; rw [← hb]; exact (hh r hr).symm
  · rw [e0]
    unfold gtcountAt
    rw [List.count_eq_zero]
    simp [col, eq_comm]

/-- the reciprocal form the code uses for `gtfreq` misses 1 on binary64 when all 49 taxa are in one class
    (0.9999999999999999; inside [0,1], within tolerance — outside the property's exactness clause, which is
    about allele frequencies; recorded as an observation, a possible one-line change `gtcount / ntaxa`) -/
theorem gtfreq_recip_form_counterexample :
    let m : UMat := List.replicate 49 [2]
    (gtfreqAt (α := Float) m 2 0 == 1.0) = false
    ∧ (gtfreqAt (α := Float) m 2 0 < 1.0) = true
    ∧ (gtfreqDivAt (α := Float) m 2 0 == 1.0) = true := by decide +kernel

/-- the same two facts in the IEEE rounding model (no `Float` involved): the two-rounding reciprocal form
    `rnd (rnd (1/49) · 49)` is `1 - 2⁻⁵³`, the one-rounding division form `rnd (98/98)` is 1 — and so is the
    pre-repair allele frequency `rnd (rnd (1/98) · 98)` of defect D1 -/
theorem recip_form_ieee_counterexample :
    gtfreqF64At (List.replicate 49 [2]) 2 0 = 1 - (1 / 2) ^ 53
    ∧ afreqF64At 2 (List.replicate 49 [2]) 0 = 1
    ∧ Binary64.roundBinary64 (Binary64.roundBinary64 (1 / 98) * 98) = 1 - (1 / 2) ^ 53 := by decide +kernel

/-- **Defect D2 (fixed in /repo)**: with `nphase + 1 = 1` classes (the pre-repair range of the unphased
    class) the class counts of a diploid locus do not sum to the number of taxa -/
theorem gtcount_nphase_form_counterexample :
    let m : UMat := [[0], [1], [2], [2]]
    ((List.range (0 + 1)).map (fun i => gtcountAt m i 0)).sum ≠ m.length
    ∧ ((List.range (2 + 1)).map (fun i => gtcountAt m i 0)).sum = m.length := by decide

/-- **Per-taxon frequency and minor-allele frequency in floating point** (binary64, the values the harness compares
    bit for bit): `tafreq = rnd (g/ploidy)` is exactly 1 / 0 precisely when the taxon carries `ploidy` / no copies, and
    `maf` — `out = rnd (c/m)`, then `rnd (1 - out)` where `out > 0.5` — is exactly 0 precisely when the locus is fixed
    for either allele. -/
theorem tafreq_maf_ieee_exact_partial (g ploidy c m : ℕ) (hp : 0 < ploidy) (hg : g ≤ ploidy) (hpb : ploidy ≤ 2 ^ 53)
    (hm : 0 < m) (hcm : c ≤ m) (hbig : m ≤ 2 ^ 53) :
    (Binary64.roundBinary64 ((g : ℚ) / ploidy) = 1 ↔ g = ploidy)
    ∧ (Binary64.roundBinary64 ((g : ℚ) / ploidy) = 0 ↔ g = 0)
    ∧ ((if (1 : ℚ) / 2 < Binary64.roundBinary64 ((c : ℚ) / m)
          then Binary64.roundBinary64 (1 - Binary64.roundBinary64 ((c : ℚ) / m))
          else Binary64.roundBinary64 ((c : ℚ) / m)) = 0 ↔ (c = 0 ∨ c = m)) :=
  ⟨(div_form_exact_ieee g ploidy hp hg hpb).1, (div_form_exact_ieee g ploidy hp hg hpb).2.1,
   maf_rounded_zero_iff Binary64.roundBinary64_contract c m hm hcm (eps64_bound m hbig)⟩

/-! ### `afreq("float32")`, `afreq("float16")` with the concrete IEEE roundings (`BinaryFloat.roundBin`) -/

/-- **round-to-nearest-even with any number `t` of stored significand bits meets the rounding contract** (half-ulp
    `2^-(t+1)`), `roundBin 52` is the binary64 model, and binary64 represents the binary32 / binary16 half-ulps and
    their complements — so the value numpy returns for a frequency in a narrower float, the cast of the binary64
    quotient, is covered by `afreq_cast_exact_partial` with two concrete roundings (below). -/
theorem ieee_formats_satisfy_contract (t : Nat) :
    RoundingContract (BinaryFloat.roundBin t) (BinaryFloat.epsT t)
    ∧ (∀ x, BinaryFloat.roundBin 52 x = Binary64.roundBinary64 x)
    ∧ BinaryFloat.epsT 52 = eps64 ∧ BinaryFloat.epsT 23 = eps32 ∧ BinaryFloat.epsT 10 = eps16 :=
  ⟨BinaryFloat.roundBin_contract t, BinaryFloat.roundBin_52, BinaryFloat.epsT_52, BinaryFloat.epsT_23,
   BinaryFloat.epsT_10⟩

/-- the frequency returned for `dtype = float32` (`afreqNarrowAt 23`: binary64 quotient, then cast), compared bit for
    bit with numpy by the harness: in [0,1], exactly 1 / 0 precisely when every copy carries allele 1 / 0, for every
    population of at most 2²⁴ chromosome copies -/
theorem afreq_float32_exact_partial {ploidy nv : Nat} {m : UMat} (hv : ValidU ploidy nv m)
    (hbig : ploidy * m.length ≤ 2 ^ 24) (j : Nat) :
    (0 ≤ afreqNarrowAt 23 ploidy m j ∧ afreqNarrowAt 23 ploidy m j ≤ 1)
    ∧ (afreqNarrowAt 23 ploidy m j = 1 ↔ ∀ r ∈ m, entry r j = (ploidy : Int))
    ∧ (afreqNarrowAt 23 ploidy m j = 0 ↔ ∀ r ∈ m, entry r j = 0) := by
  have h2 := BinaryFloat.roundBin_contract 23
  rw [BinaryFloat.epsT_23] at h2
  obtain ⟨f1, f2, _, _⟩ := BinaryFloat.binary64_fixes_narrow_grid
  exact afreq_cast_exact_partial Binary64.roundBinary64_contract h2 f1 f2 hv (eps32_bound _ hbig) j

/-- … and for `dtype = float16`, for at most 2¹¹ chromosome copies -/
theorem afreq_float16_exact_partial {ploidy nv : Nat} {m : UMat} (hv : ValidU ploidy nv m)
    (hbig : ploidy * m.length ≤ 2 ^ 11) (j : Nat) :
    (0 ≤ afreqNarrowAt 10 ploidy m j ∧ afreqNarrowAt 10 ploidy m j ≤ 1)
    ∧ (afreqNarrowAt 10 ploidy m j = 1 ↔ ∀ r ∈ m, entry r j = (ploidy : Int))
    ∧ (afreqNarrowAt 10 ploidy m j = 0 ↔ ∀ r ∈ m, entry r j = 0) := by
  have h2 := BinaryFloat.roundBin_contract 10
  rw [BinaryFloat.epsT_10] at h2
  obtain ⟨_, _, f1, f2⟩ := BinaryFloat.binary64_fixes_narrow_grid
  exact afreq_cast_exact_partial Binary64.roundBinary64_contract h2 f1 f2 hv (eps16_bound _ hbig) j

/-- the size bounds are those of the formats, not of the proof: one copy of allele 0 among 2·2049 = 4098 is invisible
    in binary16, one among 2²⁵ + 2 in binary32 (kernel-evaluated on the rational rounding models; the first is what
    `DensePhasedGenotypeMatrix(2 × 2049 × 1).afreq("float16")` returns on the real code) -/
theorem narrow_float_size_bound_counterexample :
    BinaryFloat.castF16 (Binary64.roundBinary64 ((4097 : Rat) / 4098)) = 1
    ∧ BinaryFloat.castF16 (Binary64.roundBinary64 ((2047 : Rat) / 2048)) < 1
    ∧ BinaryFloat.castF32 (Binary64.roundBinary64 ((33554433 : Rat) / 33554434)) = 1
    ∧ BinaryFloat.castF32 (Binary64.roundBinary64 ((16777215 : Rat) / 16777216)) < 1 := by decide +kernel

/-! ### integer dtypes: `afreq("int64")`, `tafreq(int)`, … cast the binary64 value, i.e. truncate toward zero -/

/-- **A frequency requested in an integer dtype** is 1 exactly when every copy carries allele 1 and 0 otherwise — for
    every rounding that meets the contract (`ploidy·ntaxa·e ≤ 1`): the `= 1` half of the boundary clause survives the
    cast, and nothing else can (see the counterexample below). -/
theorem afreq_int_cast_exact_partial (h : RoundingContract rnd e) {ploidy nv : Nat} {m : UMat}
    (hv : ValidU ploidy nv m) (hbig : ((ploidy * m.length : ℕ) : ℚ) * e ≤ 1) (j : Nat) :
    (truncRat (rnd (afreqAt (α := ℚ) ploidy m j)) = 1 ↔ ∀ r ∈ m, entry r j = (ploidy : Int))
    ∧ (truncRat (rnd (afreqAt (α := ℚ) ploidy m j)) = 0 ↔ ¬ ∀ r ∈ m, entry r j = (ploidy : Int)) :=
  afreqAt_int_cast h hv hbig j

/-- the same for the value the driver predicts bit for bit: `afreqIntAt` = truncation of the IEEE binary64 quotient -/
theorem afreq_int64_exact_partial {ploidy nv : Nat} {m : UMat} (hv : ValidU ploidy nv m)
    (hbig : ploidy * m.length ≤ 2 ^ 53) (j : Nat) :
    (afreqIntAt ploidy m j = 1 ↔ ∀ r ∈ m, entry r j = (ploidy : Int))
    ∧ (afreqIntAt ploidy m j = 0 ↔ ¬ ∀ r ∈ m, entry r j = (ploidy : Int)) :=
  afreqAt_int_cast Binary64.roundBinary64_contract hv (eps64_bound _ hbig) j

/-- truncation is what the cast does: toward zero, by less than one, exact on integers -/
theorem int_cast_is_truncation (q : ℚ) (n : ℤ) :
    truncRat (n : ℚ) = n
    ∧ (0 ≤ q → 0 ≤ truncRat q ∧ (truncRat q : ℚ) ≤ q ∧ q < truncRat q + 1)
    ∧ (q < 0 → truncRat q ≤ 0 ∧ q ≤ (truncRat q : ℚ) ∧ (truncRat q : ℚ) - 1 < q) :=
  ⟨truncRat_int n, (truncRat_toward_zero q).1, (truncRat_toward_zero q).2⟩

/-
FULL STATEMENT (false in every integer dtype, see `afreq_int_cast_zero_half_counterexample`):
  "for every requested output dtype the returned frequency is exactly 0 precisely when no copy carries allele 1".
An integer cannot hold a value strictly between 0 and 1: a heterozygous individual has frequency 1/2 and
`afreq("int64")` returns 0 although a copy carries allele 1 — and so would any implementation returning that dtype.
-/
theorem afreq_int_cast_zero_half_counterexample :
    afreqIntAt 2 [[1]] 0 = 0 ∧ ¬ (∀ r ∈ ([[1]] : UMat), entry r 0 = 0)
    ∧ afreqIntAt 2 [[2]] 0 = 1 ∧ mafIntOf (afreqIntAt 2 [[2]] 0) = 0 ∧ tafreqIntAt 4 3 = 0 ∧ tafreqIntAt 4 4 = 1 := by
  decide +kernel

/-- the size hypothesis of `afreq_ieee_exact_partial` / `afreq_int64_exact_partial` is needed for the IEEE rounding
    itself (not only for the artificial `snapUp`): with 2⁵⁴ chromosome copies, one of them allele 0, the binary64
    quotient is exactly 1 (kernel-evaluated on the rational rounding model) -/
theorem ieee_size_bound_counterexample :
    Binary64.roundBinary64 (((2 ^ 54 - 1 : Nat) : Rat) / ((2 ^ 54 : Nat) : Rat)) = 1
    ∧ Binary64.roundBinary64 (((2 ^ 53 - 1 : Nat) : Rat) / ((2 ^ 53 : Nat) : Rat)) < 1 := by decide +kernel

end rounding

/-! ## 4. One object, many queries: what a memo needs (Model/GenotypeCache) -/
section memo
open GenotypeCache

/-- **Memo soundness.**  If EVERY write — element assignment on the stored array, re-assignment through the `mat`
    setter, in-place culling — drops the memo, then along every history of writes and queries on one object, of any
    length, every `afreq()` answers what the stateless statistic gives for the data the object holds at that moment
    (so every theorem of sections 1-3 applies to the answer). -/
theorem memo_sound_when_every_write_invalidates {α : Type} [Div α] [NatCast α] [IntCast α]
    (ploidy nv : Nat) (m : UMat) (ops : List Op) :
    ∀ x ∈ run (α := α) full (fresh ploidy nv m) ops, x.1 = x.2 :=
  run_full_sound ops _ (Or.inl rfl)

/-- **Each omission is a defect**: a discipline that forgets one kind of write returns a stale frequency on a
    three-step history (query, that write, query).  Setter-only invalidation — the natural place to put it — is
    stale after an in-place edit of the same array and after `remove_taxa` (which assigns `_mat` directly). -/
theorem memo_stale_counterexample :
    run (α := Rat) ⟨false, true, true⟩ (fresh 2 1 [[2], [0]]) [.query, .edit 1 0 2, .query] = [([1/2], [1/2]), ([1/2], [1])]
    ∧ run (α := Rat) ⟨true, false, true⟩ (fresh 2 1 [[2], [0]]) [.query, .setMat [[2], [2]], .query] = [([1/2], [1/2]), ([1/2], [1])]
    ∧ run (α := Rat) ⟨true, true, false⟩ (fresh 2 1 [[2], [0]]) [.query, .remove [1], .query] = [([1/2], [1/2]), ([1/2], [1])]
    ∧ run (α := Rat) full (fresh 2 1 [[2], [0]]) [.query, .edit 1 0 2, .query, .remove [1], .query]
        = [([1/2], [1/2]), ([1], [1]), ([1], [1])] := by decide +kernel

end memo

/-! ## 5. The Spec oracle the driver evaluates on the implementation's outputs (Model/GenotypeSpec.lean) -/
section spec
open GenotypeSpec

/-- **spec_sound (unphased).**  What the model computes for a valid dosage matrix passes EVERY clause of the Spec —
    the 18 clauses written from the textbook definitions on the raw calls that the driver evaluates on the
    implementation's outputs in every case — for every ploidy, size and tolerance ≥ 0.  So a Spec failure on the real
    code is never an artefact of the oracle disagreeing with the model. -/
theorem spec_sound_unphased {ploidy nv : Nat} {m : UMat} (hv : ValidU ploidy nv m) (t : Tol) (ht : 0 ≤ t.maf) :
    specOne (rawOfU ploidy nv m) t {} (modelU ploidy nv m) = [] :=
  specOne_modelU hv (agrees_rawOfU ploidy nv m) t ht

/-- the 13 outputs of the phased model ARE those of the unphased model on the projection (record form of
    `phased_eq_projection`) -/
theorem modelP_eq_modelU_project {nt nv : Nat} {G : PMat} (hv : ValidP nt nv G) :
    modelP nt nv G = modelU (project nt nv G).1 nv (project nt nv G).2 := by
  obtain ⟨h1, h2, h3, h4, h5, h6, h7, h8, h9, h10, h11, h12, h13⟩ := phased_eq_projection (α := ℚ) hv
  unfold modelP modelU
  rw [h1, h2, h3, h4, h5, h6, h7, h8, h9, h10, h11, h12, h13]

/-- **spec_sound (phased and projection).**  For a valid phased matrix (any number of phases) the model's answers for
    the phased object AND for its unphased projection pass every clause of the Spec evaluated on the raw phased calls
    (copies counted per taxon and locus), and the two sets of answers pass the "identical answers" clauses. -/
theorem spec_sound_phased {nt nv : Nat} {G : PMat} (hv : ValidP nt nv G) (t : Tol) (ht : 0 ≤ t.maf) :
    specOne (rawOfP nt nv G) t {} (modelP nt nv G) = []
    ∧ specOne (rawOfP nt nv G) t {} (modelU (project nt nv G).1 nv (project nt nv G).2) = []
    ∧ specSame t (modelP nt nv G) (modelU (project nt nv G).1 nv (project nt nv G).2) = [] := by
  have hU := specOne_modelU (psum_valid hv) (agrees_rawOfP hv) t ht
  rw [modelP_eq_modelU_project hv]
  exact ⟨hU, hU, specSame_self t _⟩

/-- **spec_iff (the boundary clauses).**  The two Bool clauses say exactly what the property states: the output has one
    entry per locus, entry `j` is 1 iff every copy of the population carries allele 1 at locus `j`, and 0 iff none
    does (raw calls of an unphased matrix). -/
theorem spec_iff_boundary {ploidy nv : Nat} {m : UMat} (o : Outs) :
    (clOne (rawOfU ploidy nv m) o = true ↔ o.afreq.length = nv ∧ ∀ j, j < nv → ∀ x, o.afreq[j]? = some x →
        (x = 1 ↔ ∀ r ∈ m, entry r j = (ploidy : Int)))
    ∧ (clZero (rawOfU ploidy nv m) {} o = true ↔ o.afreq.length = nv ∧ ∀ j, j < nv → ∀ x, o.afreq[j]? = some x →
        (x = 0 ↔ ∀ r ∈ m, entry r j = 0)) := by
  have ha := agrees_rawOfU ploidy nv m
  have e : (rawOfU ploidy nv m).nv = nv := rfl
  constructor
  · unfold clOne
    rw [e, vecIs_iff]
    refine and_congr_right (fun _ => forall_congr' (fun j => forall_congr' (fun hj => forall_congr' (fun x =>
      forall_congr' (fun _ => ?_)))))
    rw [bool_beq_iff, allOne_iff ha j hj, beq_iff_eq]
  · unfold clZero
    simp only [Bool.false_or]
    rw [e, vecIs_iff]
    refine and_congr_right (fun _ => forall_congr' (fun j => forall_congr' (fun hj => forall_congr' (fun x =>
      forall_congr' (fun _ => ?_)))))
    rw [bool_beq_iff, allZero_iff ha j hj, beq_iff_eq]

end spec

/-! ## non-vacuity: concrete non-trivial inputs satisfy the hypotheses (kernel-evaluated) -/

example : ValidU 2 3 [[2, 0, 1], [2, 0, 2], [2, 0, 0]] := by decide
example : ValidU 4 2 [[4, 3], [4, 0], [4, 1]] := by decide
example : ValidP 2 3 [[[1, 0, 1], [1, 0, 0]], [[1, 0, 0], [1, 0, 1]]] := by decide
example : afreq (α := Rat) 2 3 [[2, 0, 1], [2, 0, 2], [2, 0, 0]] = [1, 0, 1 / 2] := by decide +kernel
example : afixed (α := Rat) 2 3 [[2, 0, 1], [2, 0, 2], [2, 0, 0]] = [true, true, false] := by decide +kernel
example : gtcount 2 3 [[2, 0, 1], [2, 0, 2], [2, 0, 0]] = [[0, 3, 1], [0, 0, 1], [3, 0, 1]] := by decide
example : project 2 3 [[[1, 0, 1], [1, 0, 0]], [[1, 0, 0], [1, 0, 1]]] = (2, [[2, 0, 1], [2, 0, 1]]) := by decide
example : papoly 3 [[[1, 0, 1], [1, 0, 0]], [[1, 0, 0], [1, 0, 1]]] = [false, false, true] := by decide
example : m1Loop (α := Rat) 2 [[2, 1], [1, 1], [0, 2]] = [[1, 1 / 3], [0, 1 / 3], [-1, 1]] := by decide +kernel
/-- the Spec accepts the model's answers on a concrete matrix and rejects an answer with one frequency off -/
example : GenotypeSpec.specOne (GenotypeSpec.rawOfU 2 3 [[2, 0, 1], [2, 0, 2], [2, 0, 0]])
    ⟨0, 0, 0, 0, 0, 0⟩ {} (GenotypeSpec.modelU 2 3 [[2, 0, 1], [2, 0, 2], [2, 0, 0]]) = [] := by decide +kernel
example : GenotypeSpec.specOne (GenotypeSpec.rawOfU 2 3 [[2, 0, 1], [2, 0, 2], [2, 0, 0]])
    ⟨0, 0, 0, 0, 0, 0⟩ {} { GenotypeSpec.modelU 2 3 [[2, 0, 1], [2, 0, 2], [2, 0, 0]] with afreq := [1, 0, 1 / 3] }
    = ["afreq=definition"] := by decide +kernel
/-- a memoised object answers like the stateless class when every write drops the memo (a five-step history) -/
example : (GenotypeCache.run (α := Rat) GenotypeCache.full (GenotypeCache.fresh 2 1 [[2], [0]])
    [.query, .edit 1 0 2, .query, .setMat [[0], [1]], .query]).map Prod.fst = [[1 / 2], [1], [1 / 4]] := by decide +kernel
/-- the rounding contract is inhabited (exact arithmetic), and 98 copies are within the binary64 range -/
example : RoundingContract id eps64 := contract_id _ (by unfold eps64; positivity)
example : ((2 * 49 : ℕ) : ℚ) * eps64 ≤ 1 := eps64_bound _ (by norm_num)

end C09
