/-
C10 — Selection limits bound every attainable value and only ever tighten.
Property theorems only (helper lemmas: Lemmas/SelLimitBounds, SelLimitMating, SelLimitProtocols,
SelLimitHistory, GenotypeRounding).

Model: PybropsModel/Model/SelLimit.lean transcribes `usl_numpy` / `lsl_numpy` (tests `u_a > 0`, `p > 0`,
`p >= 1`, factor `float(ploidy)`), `gebv_numpy`, the location added by `unscale=True` and by `gebv`,
`mat_meiosis` (literal segment-copy loop), `mat_mate`, `mat_dh` and the progeny-generation part of the
seven mating protocols; frequencies come from Model/Genotype as `usl`/`lsl` call `afreq()`.

Quantifier of the property: all founder populations and additive models (any effect signs, zero effects,
several traits), all population sizes in every generation, all selection rules, all mating
protocols/parameters, any number of generations, all generator states.  In the theorems the effect vector
`u : ℕ → α` of a trait is arbitrary (so every sign pattern, and every trait of a multi-trait model), the
populations are arbitrary valid ones of any size, selection is an arbitrary index list, the protocol,
its cross configuration, counts, selfing depth and the generator draws are universally quantified, and
histories have any length.
-/
import PybropsModel.Lemmas.SelLimitHistory
import PybropsModel.Lemmas.GenotypeRounding
import PybropsModel.Lemmas.SelLimitC01
import PybropsModel.Lemmas.SelLimitUnphased
import PybropsModel.Lemmas.MatingFull
import PybropsModel.Lemmas.SelLimitSpec
import PybropsModel.Lemmas.Binary64
set_option autoImplicit false
set_option linter.unusedSectionVars false
set_option linter.unusedVariables false

namespace C10
open Genotype SelLimit Rounding

/-! ## 1. One population: bracket and collapse (exact arithmetic, any ordered field) -/
section static
variable {α : Type} [Field α] [LinearOrder α] [IsStrictOrderedRing α]

/-- **Bracket (dosage matrix, any ploidy).**  The limits computed from the population's allele frequencies
    bracket the breeding value of every member, for every effect vector; adding the same location
    (`unscale=True` vs. `gebv()`) keeps the bracket. -/
theorem bracket {ploidy nv : Nat} {m : UMat} (hv : ValidU ploidy nv m) (u : Nat → α) (loc : α)
    (r : List Int) (hr : r ∈ m) :
    lslF ploidy nv u (afreqAt (α := α) ploidy m) ≤ gebvF nv u (entry r)
    ∧ gebvF nv u (entry r) ≤ uslF ploidy nv u (afreqAt (α := α) ploidy m)
    ∧ lslF ploidy nv u (afreqAt (α := α) ploidy m) + loc ≤ gebvF nv u (entry r) + loc
    ∧ gebvF nv u (entry r) + loc ≤ uslF ploidy nv u (afreqAt (α := α) ploidy m) + loc := by
  obtain ⟨a, b⟩ := bracketU (α := α) hv u hr
  exact ⟨a, b, by linarith, by linarith⟩

/-- **Collapse.**  When the population is fixed at all loci both limits equal the common breeding value. -/
theorem fixed_collapse {ploidy nv : Nat} {m : UMat} (hv : ValidU ploidy nv m) (u : Nat → α)
    (hfix : ∀ j, j < nv → afixedOf (afreqAt (α := α) ploidy m j) = true) (r : List Int) (hr : r ∈ m) :
    lslF ploidy nv u (afreqAt (α := α) ploidy m) = gebvF nv u (entry r)
    ∧ uslF ploidy nv u (afreqAt (α := α) ploidy m) = gebvF nv u (entry r) :=
  collapseU hv u hfix hr

/-- **Several traits.**  The arrays the driver computes (`usl`/`lsl` of all traits from the frequency array,
    `gebv` of all taxa and traits) are, trait by trait, the pointwise limits of the theorems above with
    `u = ` the trait's column of `u_a`; so bracket, collapse and monotonicity hold for every trait of a
    multi-trait model. -/
theorem limits_all_traits (ploidy nv ntr : Nat) (U : List (List α)) (m : UMat) :
    usl ploidy nv ntr U (afreq (α := α) ploidy nv m)
        = (List.range ntr).map (fun t => uslF ploidy nv (eff U t) (afreqAt (α := α) ploidy m))
    ∧ lsl ploidy nv ntr U (afreq (α := α) ploidy nv m)
        = (List.range ntr).map (fun t => lslF ploidy nv (eff U t) (afreqAt (α := α) ploidy m))
    ∧ gebv nv ntr U m = m.map (fun r => (List.range ntr).map (fun t => gebvF nv (eff U t) (entry r))) :=
  ⟨(usl_list_eq ploidy nv ntr U m).1, (usl_list_eq ploidy nv ntr U m).2, rfl⟩

/-- **Several traits with fixed effects.**  `unscale = True` adds the location `Xstar @ beta`
    (`Xstar = [1, 1/q, …, 1/q]`, `q` fixed effects) of the trait to both limits, and `gebv(...).unscale()` adds the same
    location to every breeding value: for every trait `t` of the model, every taxon and every `beta`, the unscaled
    limits bracket the unscaled breeding value, and they coincide with it when all loci are fixed. -/
theorem bracket_unscaled_all_traits {ploidy nv : Nat} {m : UMat} (hv : ValidU ploidy nv m) (U beta : List (List α))
    (t : Nat) (r : List Int) (hr : r ∈ m) :
    lslF ploidy nv (eff U t) (afreqAt (α := α) ploidy m) + location beta t ≤ gebvF nv (eff U t) (entry r) + location beta t
    ∧ gebvF nv (eff U t) (entry r) + location beta t ≤ uslF ploidy nv (eff U t) (afreqAt (α := α) ploidy m) + location beta t
    ∧ ((∀ j, j < nv → afixedOf (afreqAt (α := α) ploidy m j) = true) →
        lslF ploidy nv (eff U t) (afreqAt (α := α) ploidy m) + location beta t = gebvF nv (eff U t) (entry r) + location beta t
        ∧ uslF ploidy nv (eff U t) (afreqAt (α := α) ploidy m) + location beta t = gebvF nv (eff U t) (entry r) + location beta t) := by
  obtain ⟨_, _, c, d⟩ := bracket hv (eff U t) (location beta t) r hr
  refine ⟨c, d, fun hfix => ?_⟩
  obtain ⟨e1, e2⟩ := fixed_collapse hv (eff U t) hfix r hr
  exact ⟨by rw [e1], by rw [e2]⟩

/-- bracket for a phased population: taxon `i` has dosages `psumAt G i` -/
theorem bracket_phased {nt nv : Nat} {G : PMat} (hv : ValidP nt nv G) (u : Nat → α) (i : Nat) (hi : i < nt) :
    lslF G.length nv u (pafreqAt (α := α) nt G) ≤ gebvF nv u (psumAt G i)
    ∧ gebvF nv u (psumAt G i) ≤ uslF G.length nv u (pafreqAt (α := α) nt G) :=
  bracketP hv u i hi

theorem fixed_collapse_phased {nt nv : Nat} {G : PMat} (hv : ValidP nt nv G) (u : Nat → α)
    (hfix : ∀ j, j < nv → afixedOf (pafreqAt (α := α) nt G j) = true) (i : Nat) (hi : i < nt) :
    lslF G.length nv u (pafreqAt (α := α) nt G) = gebvF nv u (psumAt G i)
    ∧ uslF G.length nv u (pafreqAt (α := α) nt G) = gebvF nv u (psumAt G i) :=
  collapseP hv u hfix i hi

/-! ### 1b. The model object: miscellaneous random effects, in-place edits of the effect arrays, copies

The model object stores `beta`, `u_misc`, `u_a` and hands the stored arrays out, so a caller may edit them in place
(`model.u_a[:,t] *= -1`, `model.u_a[j,t] = v`, `model.u_a -= c`, the same on `beta`, or on the arrays that were passed to
the constructor) between two requests.  `usl` / `lsl` / `gebv` read `self.u_a` and `self.beta` at the time of the call;
`u_misc` only shows in `self.u = [u_misc; u_a]`. -/

/-- **The marker effects are the block of `u` AFTER the miscellaneous effects**, for every `u_misc`. -/
theorem marker_block_of_u (uMisc U : List (List α)) : markerBlock uMisc (randomEffects uMisc U) = U := by
  simp [markerBlock, randomEffects]

/-- ... and the FIRST `p_a` rows of `u` are not: two miscellaneous effects shift every marker effect by two rows. -/
theorem u_prefix_is_not_marker_block_counterexample :
    (randomEffects (α := Int) [[1], [-2]] [[3], [-1], [2]]).take 3 ≠ [[3], [-1], [2]] := by decide

/-- **Any history of one model object.**  Start from any object (any `beta`, any `u_misc`, any `u_a`), apply any
    sequence of in-place edits to `u_a` and to `beta`, copy it: the limits computed from the arrays the object then holds
    bracket the breeding values computed from the same arrays, trait by trait, with and without the location, and
    collapse onto them when the population is fixed; `u_misc` is untouched and plays no role. -/
theorem edited_model_bracket {ploidy nv : Nat} {m : UMat} (hv : ValidU ploidy nv m) (M0 : ModelObj α)
    (eu eb : List (Edit α)) (t : Nat) (r : List Int) (hr : r ∈ m) :
    let M := (M0.edit eu eb).copy
    M.uA = applyEdits eu M0.uA ∧ M.beta = applyEdits eb M0.beta ∧ M.uMisc = M0.uMisc
    ∧ lslF ploidy nv (eff M.uA t) (afreqAt (α := α) ploidy m) + location M.beta t ≤ gebvF nv (eff M.uA t) (entry r) + location M.beta t
    ∧ gebvF nv (eff M.uA t) (entry r) + location M.beta t ≤ uslF ploidy nv (eff M.uA t) (afreqAt (α := α) ploidy m) + location M.beta t
    ∧ lslF ploidy nv (eff M.uA t) (afreqAt (α := α) ploidy m) ≤ gebvF nv (eff M.uA t) (entry r)
    ∧ gebvF nv (eff M.uA t) (entry r) ≤ uslF ploidy nv (eff M.uA t) (afreqAt (α := α) ploidy m)
    ∧ ((∀ j, j < nv → afixedOf (afreqAt (α := α) ploidy m j) = true) →
        lslF ploidy nv (eff M.uA t) (afreqAt (α := α) ploidy m) = gebvF nv (eff M.uA t) (entry r)
        ∧ uslF ploidy nv (eff M.uA t) (afreqAt (α := α) ploidy m) = gebvF nv (eff M.uA t) (entry r)) := by
  intro M
  obtain ⟨a, b, c, d⟩ := bracket hv (eff M.uA t) (location M.beta t) r hr
  exact ⟨rfl, rfl, rfl, c, d, a, b, fun hfix => fixed_collapse hv (eff M.uA t) hfix r hr⟩

/-- turning a trait around in place (`u_a[:,0] *= -1`) and overwriting one effect: the arrays the object then holds -/
example : let M := ((ModelObj.mk (α := Rat) [[1]] [[9], [9]] [[3], [-1], [2]]).edit [.scaleCol 0 (-1), .setCell 2 0 1] [.addAll 2]).copy
    (M.beta, M.uMisc, M.uA) = ([[3]], [[9], [9]], [[-3], [1], [1]]) := by decide +kernel

end static

/-! ## 2. Closed histories: limits only tighten, descendants stay inside, lost alleles stay lost -/
section history
variable {α : Type} [Field α] [LinearOrder α] [IsStrictOrderedRing α]

/-- **Along any closed history** (each population obtained from the previous one by a step in which every
    allele at every locus comes from the previous population — any selection, any mating, any draws),
    for any two positions `a ≤ b` and any effect vector:
    the upper limit at `b` is ≤ the one at `a`, the lower limit at `b` is ≥ the one at `a`, every member
    of population `b` lies between the limits of population `a`, and an allele absent at `a` is absent
    at `b`. -/
theorem history_limits_only_tighten {nv : Nat} (h : List Pop) (hh : IsHistory nv h)
    (hv : ∀ P ∈ h, ValidP P.nt nv P.G) (a b : Nat) (hab : a ≤ b) (hb : b < h.length) (u : Nat → α) :
    let A := h[a]'(lt_of_le_of_lt hab hb)
    let B := h[b]
    uslF B.G.length nv u (pafreqAt (α := α) B.nt B.G) ≤ uslF A.G.length nv u (pafreqAt (α := α) A.nt A.G)
    ∧ lslF A.G.length nv u (pafreqAt (α := α) A.nt A.G) ≤ lslF B.G.length nv u (pafreqAt (α := α) B.nt B.G)
    ∧ (∀ i, i < B.nt →
        lslF A.G.length nv u (pafreqAt (α := α) A.nt A.G) ≤ gebvF nv u (psumAt B.G i)
        ∧ gebvF nv u (psumAt B.G i) ≤ uslF A.G.length nv u (pafreqAt (α := α) A.nt A.G))
    ∧ (∀ j, j < nv → ∀ allele, allele ∉ popCopies A.G j → allele ∉ popCopies B.G j) := by
  intro A B
  have ha : a < h.length := lt_of_le_of_lt hab hb
  have hA : ValidP A.nt nv A.G := hv A (List.getElem_mem ha)
  have hB : ValidP B.nt nv B.G := hv B (List.getElem_mem hb)
  have hstep : ClosedStep nv A B := by
    rcases Nat.lt_or_eq_of_le hab with hlt | heq
    · exact (List.pairwise_iff_getElem.mp (history_pairwise nv h hh)) a b ha hb hlt
    · subst heq; exact closedStep_refl nv _
  obtain ⟨s1, s2⟩ := step_limits (α := α) hA hB hstep u
  refine ⟨s1, s2, ?_, ?_⟩
  · intro i hi
    obtain ⟨b1, b2⟩ := bracketP (α := α) hB u i hi
    exact ⟨le_trans s2 b1, le_trans b2 s1⟩
  · intro j hj allele hna hin
    exact hna (hstep.2 j hj allele hin)

/-- **Selection is a closed step** (any index list, repeats allowed): `select_taxa`. -/
theorem selection_is_closed (nv nt : Nat) (idx : List Nat) (G : PMat) :
    ClosedStep nv ⟨nt, G⟩ ⟨idx.length, selectTaxa idx G⟩ := selectTaxa_closed nv nt idx G

/-- **Selection by IN-PLACE culling is a closed step**: `remove_taxa(idx)` on the population object itself (the
    survivors are the taxa whose index is not listed, in their order, in every phase) leaves a valid population of
    `keptCount idx nt` taxa all of whose alleles, locus by locus, were in the population before — so by
    `history_limits_only_tighten` the limits evaluated after the culling lie inside those evaluated before. -/
theorem inplace_culling_is_closed {nt nv : Nat} {G : PMat} (hv : ValidP nt nv G) (idx : List Nat)
    (hpos : 0 < keptCount idx nt) (u : Nat → α) :
    ClosedStep nv ⟨nt, G⟩ ⟨keptCount idx nt, removeTaxa idx G⟩
    ∧ ValidP (keptCount idx nt) nv (removeTaxa idx G)
    ∧ uslF (removeTaxa idx G).length nv u (pafreqAt (α := α) (keptCount idx nt) (removeTaxa idx G))
        ≤ uslF G.length nv u (pafreqAt (α := α) nt G)
    ∧ lslF G.length nv u (pafreqAt (α := α) nt G)
        ≤ lslF (removeTaxa idx G).length nv u (pafreqAt (α := α) (keptCount idx nt) (removeTaxa idx G)) := by
  have hc := removeTaxa_closed nv nt (keptCount idx nt) idx G
  have hq := removeTaxa_valid hv idx hpos
  obtain ⟨s1, s2⟩ := step_limits (α := α) (P := ⟨nt, G⟩) (Q := ⟨keptCount idx nt, removeTaxa idx G⟩) hv hq hc u
  exact ⟨hc, hq, s1, s2⟩

/-- **Unphased populations of ANY ploidy** (dosage matrices, genotype codes `0..ploidy`): along any history of closed
    steps on dosage matrices — allele 1 (some dosage `> 0`) and allele 0 (some dosage `< ploidy`) are present at a
    locus of the later population only if present in the earlier one — for positions `a ≤ b` and any effect vector:
    the upper limit at `b` is ≤ the one at `a`, the lower limit at `b` is ≥ the one at `a`, every member of
    population `b` lies between the limits of population `a`, and a lost allele stays lost. -/
theorem unphased_history_limits_only_tighten {ploidy nv : Nat} (h : List UMat) (hh : IsHistoryU ploidy nv h)
    (hv : ∀ P ∈ h, ValidU ploidy nv P) (a b : Nat) (hab : a ≤ b) (hb : b < h.length) (u : Nat → α) :
    let A := h[a]'(lt_of_le_of_lt hab hb)
    let B := h[b]
    uslF ploidy nv u (afreqAt (α := α) ploidy B) ≤ uslF ploidy nv u (afreqAt (α := α) ploidy A)
    ∧ lslF ploidy nv u (afreqAt (α := α) ploidy A) ≤ lslF ploidy nv u (afreqAt (α := α) ploidy B)
    ∧ (∀ r ∈ B, lslF ploidy nv u (afreqAt (α := α) ploidy A) ≤ gebvF nv u (entry r)
        ∧ gebvF nv u (entry r) ≤ uslF ploidy nv u (afreqAt (α := α) ploidy A))
    ∧ (∀ j, j < nv → ((¬ ∃ r ∈ A, 0 < entry r j) → ¬ ∃ r ∈ B, 0 < entry r j)
        ∧ ((¬ ∃ r ∈ A, entry r j < (ploidy : Int)) → ¬ ∃ r ∈ B, entry r j < (ploidy : Int))) := by
  intro A B
  have ha : a < h.length := lt_of_le_of_lt hab hb
  have hA : ValidU ploidy nv A := hv A (List.getElem_mem ha)
  have hB : ValidU ploidy nv B := hv B (List.getElem_mem hb)
  have hstep : ClosedStepU ploidy nv A B := by
    rcases Nat.lt_or_eq_of_le hab with hlt | heq
    · exact (List.pairwise_iff_getElem.mp (historyU_pairwise ploidy nv h hh)) a b ha hb hlt
    · subst heq; exact closedStepU_refl ploidy nv _
  obtain ⟨s1, s2⟩ := step_limits_U (α := α) hA hB hstep u
  refine ⟨s1, s2, ?_, ?_⟩
  · intro r hr
    obtain ⟨b1, b2⟩ := bracketU (α := α) hB u hr
    exact ⟨le_trans s2 b1, le_trans b2 s1⟩
  · intro j hj
    exact ⟨fun hna hin => hna ((hstep j hj).1 hin), fun hna hin => hna ((hstep j hj).2 hin)⟩

/-- **Selection rounds on an unphased population** — `select_taxa` (any index list, a new object) and `remove_taxa`
    (in place), in any order and number — form such a history, for every ploidy. -/
theorem unphased_selection_rounds_form_a_history (ploidy nv : Nat) (m : UMat) (steps : List Cull) :
    IsHistoryU ploidy nv (cullTrajectory m steps) := cullTrajectory_history ploidy nv steps m

end history

section mating
variable {β : Type} [LT β] [DecidableLT β]

/-- **Meiosis only copies parental alleles**: every locus of a gamete produced by the segment-copy loop
    carries the allele of one of the two chromosomes of the parent at that locus — for every vector of
    uniform draws and every crossover-probability vector. -/
theorem gamete_copies_parental_alleles {nv : Nat} {X : PMat} (hl : X.length = 2) {nt : Nat}
    (hX : ∀ ph ∈ X, ph.length = nt ∧ ∀ r ∈ ph, r.length = nv) (xo r : List β) (s : Nat) (hs : s < nt)
    (j : Nat) (hj : j < nv) :
    (gamete X xo s r).length = nv
    ∧ (entry (gamete X xo s r) j = entry (chrom X 0 s) j ∨ entry (gamete X xo s r) j = entry (chrom X 1 s) j) := by
  have g0 := good_self hl hX
  obtain ⟨l0, _⟩ := good_chrom g0 0 s (by omega) hs
  obtain ⟨l1, _⟩ := good_chrom g0 1 s (by omega) hs
  have hp := segLoop_pick (chrom X 0 s) (chrom X 1 s) (l0.trans l1.symm)
    (Np.flatnonzero (xoMask r xo)) 0 false (flatnonzeroFrom_asc _ 0)
  rw [List.drop_zero] at hp
  have hlen : (gamete X xo s r).length = nv := (gamete_rows g0 xo r s hs).1
  refine ⟨hlen, ?_⟩
  obtain ⟨_, hget⟩ := List.forall₂_iff_get.mp hp
  have hjz : j < ((chrom X 0 s).zip (chrom X 1 s)).length := by
    rw [List.length_zip, l0, l1, Nat.min_self]; exact hj
  have hg := hget j (by unfold gamete at hlen; rw [hlen]; exact hj) hjz
  rw [entry_eq_getElem _ j (by rw [hlen]; exact hj), entry_eq_getElem _ j (by rw [l0]; exact hj),
    entry_eq_getElem _ j (by rw [l1]; exact hj)]
  simp only [List.get_eq_getElem, List.getElem_zip] at hg
  exact hg

/-- **Each of the seven mating protocols is a closed step**, for every cross configuration over existing
    parents, every count vector, every selfing depth and every generator state: the progeny array is
    diploid, has Σ nmating·nprogeny taxa, is a valid population, and every allele of it at every locus is
    an allele of the parent population at that locus. -/
theorem mating_is_closed (pr : Protocol) {nt nv : Nat} {X : PMat} (hX : ValidP nt nv X) (hl : X.length = 2)
    (xo : List β) (xc : List (List Nat)) (hx : ∀ r ∈ xc, ∀ x ∈ r, x < nt)
    (nm np : List Nat) (hnm : nm.length = xc.length) (hnp : np.length = xc.length)
    (hpos : 0 < (mulCounts nm np).sum) (nself : Nat) (draws : List (List (List β))) :
    let prog := mateProtocol pr X xo xc nm np nself draws
    ClosedStep nv ⟨nt, X⟩ ⟨(mulCounts nm np).sum, prog⟩
    ∧ ValidP (mulCounts nm np).sum nv prog := by
  intro prog
  have hrect : ∀ ph ∈ X, ph.length = nt ∧ ∀ r ∈ ph, r.length = nv :=
    fun ph hph => ⟨(hX.2.2 ph hph).1, fun r hr => ((hX.2.2 ph hph).2 r hr).1⟩
  have hg := mateProtocol_good pr hl hrect hX.2.1 xo xc hx nm np hnm hnp nself draws
  exact ⟨good_closedStep hl hg, good_valid hX hg hpos⟩

end mating

/-! ### the tie to C01's mating model (the one C01 checks against the real protocols with scripted draws) -/
section c01
variable {α : Type} [Field α] [LinearOrder α] [IsStrictOrderedRing α]
variable {ρ : Type} [Preorder ρ] [DecidableLT ρ] [Zero ρ]

/-- **The loop of this model is C01's loop**: `SelLimit.segLoop` and C01's `Meiosis.segLoop` are the same function
    on every input, and a gamete of this model is C01's `gameteLoop` of the parent's two chromosomes under
    C01's crossover mask — so `gamete_copies_parental_alleles` and `mating_is_closed` speak about the loop whose
    mosaic theorems C01 proves. -/
theorem loop_is_C01_loop (geno : PMat) (xo r : List ρ) (s : Nat) (h0 h1 : List Int) (xs : List Nat)
    (stix : Nat) (ph : Bool) :
    segLoop h0 h1 stix ph xs = Meiosis.segLoop h0 h1 stix ph xs
    ∧ gamete geno xo s r = Meiosis.gameteLoop (chrom geno 0 s, chrom geno 1 s) (Meiosis.xoMask r xo) :=
  ⟨segLoop_eq_C01 h0 h1 xs stix ph, gamete_eq_C01 geno xo r s⟩

/-- **No assumption on the count arrays is left**: C01's `Mating.mate` is the whole `mate()` call including the
    code's own checks (`nmating`/`nprogeny` scalar or array of length `len(xconfig)`, xconfig width, parent
    indices, shapes; anything else is an error value).  Whenever it returns a progeny — for every protocol,
    every cross configuration, scalar or array counts, every selfing depth and every non-negative draw
    stream — the step from the parents to the progeny is closed, the progeny is a valid population (when it
    is non-empty), and therefore the upper limit cannot rise and the lower limit cannot fall. -/
theorem mating_is_closed_C01 {P : Mating.Proto} {pop : Meiosis.Pop Int} {xc : List (List Nat)}
    {nmating nprogeny : Mating.Cnt} {nself : Nat} {xo : List ρ} {pc fc : Nat}
    {draws : List (Meiosis.DrawMat ρ)} {out : Mating.Out Int}
    (h : Mating.mate P pop xc nmating nprogeny nself xo pc fc draws = .ok out) (hnn : Mating.Nonneg draws)
    (hpop : ValidP pop.length xo.length (toPM pop)) (hne : out.rows ≠ []) (u : Nat → α) :
    let parents : Pop := ⟨pop.length, toPM pop⟩
    let prog : Pop := ⟨out.rows.length, toPM (out.rows.map Mating.Row.ind)⟩
    ClosedStep xo.length parents prog
    ∧ ValidP prog.nt xo.length prog.G
    ∧ uslF prog.G.length xo.length u (pafreqAt (α := α) prog.nt prog.G)
        ≤ uslF parents.G.length xo.length u (pafreqAt (α := α) parents.nt parents.G)
    ∧ lslF parents.G.length xo.length u (pafreqAt (α := α) parents.nt parents.G)
        ≤ lslF prog.G.length xo.length u (pafreqAt (α := α) prog.nt prog.G) := by
  intro parents prog
  have hc := c01_mate_closed h hnn
  have hv := c01_mate_valid h hnn hpop hne
  obtain ⟨s1, s2⟩ := step_limits (α := α) (P := parents) (Q := prog) hpop hv hc u
  exact ⟨hc, hv, s1, s2⟩

/-- **Marker order is preserved through mating** (the tie to C01's metadata theorem).  For the public call of every
    protocol (C01's `Mating.mateFull`: integer cross configuration with numpy's index rule, counts, selfing, any
    non-negative draws): the marker metadata of the progeny matrix is that of the parents, unchanged and in the same
    order (`C01.metadata_carried_over`), every progeny chromosome has one entry per marker, and the allele a progeny
    carries at marker `j` is an allele a parent carries AT MARKER `j` — so the effect vector of the genomic model, which
    is positional, keeps meaning the same markers in every generation. -/
theorem marker_order_preserved_C01 {μ : Type} {P : Mating.Proto} {pop : Meiosis.Pop Int} {pg m : Mating.VMeta μ}
    {xc : List (List Int)} {nmating nprogeny : Mating.Cnt} {nself : Nat} {xo : List ρ} {pc fc : Nat}
    {draws : List (Meiosis.DrawMat ρ)} {out : Mating.Out Int}
    (h : Mating.mateFull P pop pg xc nmating nprogeny nself xo pc fc draws = .ok (out, m)) (hnn : Mating.Nonneg draws) :
    m = pg
    ∧ ∀ r ∈ out.rows, (r.ind.1.length = xo.length ∧ r.ind.2.length = xo.length)
        ∧ ∀ j, j < xo.length → entry r.ind.1 j ∈ popCopies (toPM pop) j ∧ entry r.ind.2 j ∈ popCopies (toPM pop) j := by
  obtain ⟨hcore, hm⟩ := Mating.mateFull_inv h
  exact ⟨hm, c01_mate_rows hcore hnn⟩

/-- the code's check on a count argument yields exactly one count per cross (what `mating_is_closed` assumes) -/
theorem count_check_gives_one_count_per_cross (c : Mating.Cnt) (ncross : Nat) (l : List Nat)
    (h : c.expand ncross = .ok l) : l.length = ncross := by
  cases c with
  | scalar n =>
    simp only [Mating.Cnt.expand] at h
    cases h; simp
  | arr a =>
    simp only [Mating.Cnt.expand] at h
    split at h
    · next hl => cases h; exact hl
    · cases h

end c01

section programme
variable {α : Type} [Field α] [LinearOrder α] [IsStrictOrderedRing α]
variable {β : Type} [LT β] [DecidableLT β]

/-- **Whole programmes.**  Start from any valid diploid founder population and apply any number of
    generations, each an arbitrary selection followed by any of the seven protocols with any valid
    arguments and any draws (`StepsOk`): for any two populations `a ≤ b` of the trajectory
    (founders, parents, progeny, parents, progeny, …) the limits at `b` are inside those at `a`, every
    member at `b` lies within the limits at `a`, and lost alleles stay lost. -/
theorem closed_programme_limits {nv : Nat} (xo : List β) (F : Pop) (hF : ValidP F.nt nv F.G)
    (hd : F.G.length = 2) (steps : List (Step β)) (hok : StepsOk F.nt steps)
    (a b : Nat) (hab : a ≤ b) (hb : b < (trajectory xo F steps).length) (u : Nat → α) :
    let A := (trajectory xo F steps)[a]'(lt_of_le_of_lt hab hb)
    let B := (trajectory xo F steps)[b]
    uslF B.G.length nv u (pafreqAt (α := α) B.nt B.G) ≤ uslF A.G.length nv u (pafreqAt (α := α) A.nt A.G)
    ∧ lslF A.G.length nv u (pafreqAt (α := α) A.nt A.G) ≤ lslF B.G.length nv u (pafreqAt (α := α) B.nt B.G)
    ∧ (∀ i, i < B.nt →
        lslF A.G.length nv u (pafreqAt (α := α) A.nt A.G) ≤ gebvF nv u (psumAt B.G i)
        ∧ gebvF nv u (psumAt B.G i) ≤ uslF A.G.length nv u (pafreqAt (α := α) A.nt A.G))
    ∧ (∀ j, j < nv → ∀ allele, allele ∉ popCopies A.G j → allele ∉ popCopies B.G j) := by
  obtain ⟨hh, hv⟩ := trajectory_history (nv := nv) xo steps F hF hd hok
  exact history_limits_only_tighten (α := α) _ hh hv a b hab hb u

end programme

/-! ## 3. Floating point: the comparisons `p > 0.0`, `p >= 1.0` on the division-form frequency -/
section rounding
variable {rnd : ℚ → ℚ} {e : ℚ}

/-
FULL STATEMENT (false of every floating-point format, see C09.rounded_exact_full_statement_counterexample):
  "for every population size the limits computed from the floating-point frequencies equal the limits
   computed from the exact ones".
binary64 cannot separate `(m-1)/m` from 1 beyond `m = 2⁵³` copies, so a population of more than 2⁵³
chromosome copies (9·10¹⁵ — no numpy array of that size can exist) with one copy off would be treated as
fixed.  The two theorems below carry the hypothesis `ploidy·ntaxa·e ≤ 1` and are named `_partial`.
-/

/-- **The limits computed from the rounded frequencies are the limits computed from the exact ones**, for
    every IEEE-style rounding (binary64: `ploidy·ntaxa ≤ 2⁵³`): `usl`/`lsl` only compare `p` with 0 and 1,
    and the division form is exact there (`C09.div_form_exact`).  Hence bracket and collapse hold for the
    floating-point limits as well. -/
theorem limits_rounded_exact_partial (h : RoundingContract rnd e) {ploidy nv : Nat} {m : UMat}
    (hv : ValidU ploidy nv m) (hbig : ((ploidy * m.length : ℕ) : ℚ) * e ≤ 1) (u : Nat → ℚ) :
    uslF ploidy nv u (fun j => rnd (afreqAt (α := ℚ) ploidy m j)) = uslF ploidy nv u (afreqAt (α := ℚ) ploidy m)
    ∧ lslF ploidy nv u (fun j => rnd (afreqAt (α := ℚ) ploidy m j)) = lslF ploidy nv u (afreqAt (α := ℚ) ploidy m) := by
  have key : ∀ j, uslGeno (u j) (rnd (afreqAt (α := ℚ) ploidy m j)) = uslGeno (u j) (afreqAt (α := ℚ) ploidy m j)
      ∧ lslGeno (u j) (rnd (afreqAt (α := ℚ) ploidy m j)) = lslGeno (u j) (afreqAt (α := ℚ) ploidy m j) := by
    intro j
    obtain ⟨_, _, t0, _, t1⟩ := afreqAt_rounded_tests h hv hbig j
    unfold uslGeno lslGeno
    constructor <;> split <;> simp only [decide_eq_decide] <;> assumption
  unfold uslF lslF uslTerm lslTerm
  constructor
  · apply sumF_map_congr; intro j _; rw [(key j).1]
  · apply sumF_map_congr; intro j _; rw [(key j).2]

/-- the limits with the IEEE binary64 rounding itself (`Binary64.roundBinary64`, proved to satisfy the contract):
    for every valid population of at most 2⁵³ chromosome copies the float limits are the exact ones -/
theorem limits_ieee_exact_partial {ploidy nv : Nat} {m : UMat} (hv : ValidU ploidy nv m)
    (hbig : ploidy * m.length ≤ 2 ^ 53) (u : Nat → ℚ) :
    uslF ploidy nv u (fun j => Binary64.roundBinary64 (afreqAt (α := ℚ) ploidy m j))
        = uslF ploidy nv u (afreqAt (α := ℚ) ploidy m)
    ∧ lslF ploidy nv u (fun j => Binary64.roundBinary64 (afreqAt (α := ℚ) ploidy m j))
        = lslF ploidy nv u (afreqAt (α := ℚ) ploidy m) :=
  limits_rounded_exact_partial Binary64.roundBinary64_contract hv (eps64_bound _ hbig) u

/-- the same for a phased population (`usl(pgmat)` calls the phased `afreq()`) -/
theorem limits_rounded_exact_phased_partial (h : RoundingContract rnd e) {nt nv : Nat} {G : PMat}
    (hv : ValidP nt nv G) (hbig : ((G.length * nt : ℕ) : ℚ) * e ≤ 1) (u : Nat → ℚ) :
    uslF G.length nv u (fun j => rnd (pafreqAt (α := ℚ) nt G j)) = uslF G.length nv u (pafreqAt (α := ℚ) nt G)
    ∧ lslF G.length nv u (fun j => rnd (pafreqAt (α := ℚ) nt G j)) = lslF G.length nv u (pafreqAt (α := ℚ) nt G) := by
  have hrect : ∀ ph ∈ G, ph.length = nt := fun ph hph => (hv.2.2 ph hph).1
  have hbig' : ((G.length * (psum nt nv G).length : ℕ) : ℚ) * e ≤ 1 := by rw [psum_length]; exact hbig
  obtain ⟨a, b⟩ := limits_rounded_exact_partial h (psum_valid hv) hbig' u
  have e1 : ∀ j, j < nv → pafreqAt (α := ℚ) nt G j = afreqAt (α := ℚ) G.length (psum nt nv G) j :=
    fun j hj => pafreqAt_eq_afreqAt_psum hrect j hj
  have e2 : ∀ j, j < nv → rnd (pafreqAt (α := ℚ) nt G j) = rnd (afreqAt (α := ℚ) G.length (psum nt nv G) j) :=
    fun j hj => by rw [e1 j hj]
  rw [uslF_congr G.length nv u _ _ e2, uslF_congr G.length nv u (pafreqAt (α := ℚ) nt G) _ e1,
    lslF_congr G.length nv u _ _ e2, lslF_congr G.length nv u (pafreqAt (α := ℚ) nt G) _ e1]
  exact ⟨a, b⟩

/-- the size hypothesis of the three `_partial` theorems above cannot be dropped: `snapUp (1/4)` meets the rounding
    contract with half-ulp 1/4, and for five haploid taxa one of which carries allele 0 (`5 · 1/4 > 1`) the limit
    computed from the rounded frequency treats the locus as fixed: upper limit −1 instead of 0 (effect −1), while the
    member carrying allele 0 has breeding value 0 — outside the rounded limits -/
theorem limits_rounded_full_statement_counterexample :
    RoundingContract (snapUp (1 / 4)) (1 / 4)
    ∧ uslF 1 1 (fun _ => (-1 : ℚ)) (fun j => snapUp (1 / 4) (afreqAt (α := ℚ) 1 [[1], [1], [1], [1], [0]] j)) = -1
    ∧ uslF 1 1 (fun _ => (-1 : ℚ)) (afreqAt (α := ℚ) 1 [[1], [1], [1], [1], [0]]) = 0
    ∧ gebvF 1 (fun _ => (-1 : ℚ)) (entry [0]) = 0 := by
  refine ⟨snapUp_contract _ (by norm_num) (by norm_num), ?_, ?_, ?_⟩ <;> decide +kernel

/-- **Why the repair of the frequency matters for the limits (defect D1, fixed in /repo).**  49 diploid
    taxa fixed for allele 1 at one locus with effect −1: every member has breeding value −2.  On binary64
    (`Float`, evaluated by the kernel) the pre-repair frequency `(1/98)·98 < 1` makes the upper limit 0
    instead of −2, and with effect +1 the lower limit 0 instead of 2; with the division form both
    limits equal the common value. -/
theorem recip_form_limits_counterexample :
    let m : UMat := List.replicate 49 [2]
    (uslF (α := Float) 2 1 (fun _ => -1.0) (afreqRecipAt (α := Float) 2 m) == -2.0) = false
    ∧ (lslF (α := Float) 2 1 (fun _ => 1.0) (afreqRecipAt (α := Float) 2 m) == 2.0) = false
    ∧ (uslF (α := Float) 2 1 (fun _ => -1.0) (afreqAt (α := Float) 2 m) == -2.0) = true
    ∧ (lslF (α := Float) 2 1 (fun _ => 1.0) (afreqAt (α := Float) 2 m) == 2.0) = true
    ∧ (gebvF (α := Float) 1 (fun _ => -1.0) (entry [2]) == -2.0) = true := by decide +kernel

end rounding

/-- **`ploidy` handed to the ndarray form as a numpy int8 scalar (defect D62, fixed in /repo).**  64 diploid taxa, all
    homozygous for the allele with effect `3`: every breeding value is 6, but before the repair `ploidy * shape[0] = 2 * 64`
    wrapped to `-128` in int8, the "frequency" was `-1`, and both limits came out as 0.  The repaired code forms the product
    with `int(ploidy)` - a Python int, the natural-number product of `afreqAt` - and both limits are 6; the theorems of
    sections 1-2 (ploidy a natural number) therefore cover every Integral the caller may pass. -/
theorem np_int8_ploidy_limits_prerepair_counterexample :
    let m : UMat := List.replicate 64 [2]
    let p : List Rat := afreqNpPloidyPrerepair (α := Rat) 8 2 1 m
    p = [-1]
    ∧ uslF (α := Rat) 2 1 (fun _ => 3) (fun j => p.getD j 0) = 0
    ∧ lslF (α := Rat) 2 1 (fun _ => 3) (fun j => p.getD j 0) = 0
    ∧ gebvF (α := Rat) 1 (fun _ => 3) (entry [2]) = 6
    ∧ uslF (α := Rat) 2 1 (fun _ => 3) (afreqAt (α := Rat) 2 m) = 6
    ∧ lslF (α := Rat) 2 1 (fun _ => 3) (afreqAt (α := Rat) 2 m) = 6 := by decide +kernel

/-! ## 4. The Spec oracle the driver evaluates on the implementation's trajectory (Model/SelLimitSpec.lean) -/
section spec
open SelLimitSpec
variable {α : Type} [Field α] [LinearOrder α] [IsStrictOrderedRing α]

/-- **spec_sound (phased histories).**  Along ANY closed history of valid phased populations (selection by
    `select_taxa`, in-place culling, any of the seven protocols: any closed steps), what the model reports for every
    population — limits with and without the location, breeding values of all traits and taxa, for every additive
    model `U`, `beta` — passes EVERY clause of the Spec the driver evaluates on the implementation's trajectory
    (`specHistory`: shape, bracket, unscaled bracket, collapse when fixed, limits only tighten for every pair of
    generations, descendants inside every ancestor's limits, no allele reappears), for every tolerance ≥ 0. -/
theorem spec_sound_phased_history {nv : Nat} (ntr : Nat) (U beta : List (List α)) (tol : α) (ht : 0 ≤ tol)
    (h : List Pop) (hh : IsHistory nv h) (hv : ∀ P ∈ h, ValidP P.nt nv P.G) :
    specHistory nv ntr tol (h.map (popInP nv)) (h.map (obsP nv ntr U beta)) = [] :=
  specHistory_sound_P ntr U beta tol ht h hh hv

/-- **spec_sound (unphased histories, any ploidy)** — dosage matrices with genotype codes `0..ploidy`, steps closed at
    the dosage level (rounds of `select_taxa` / `remove_taxa` are: `unphased_selection_rounds_form_a_history`). -/
theorem spec_sound_unphased_history {ploidy nv : Nat} (ntr : Nat) (U beta : List (List α)) (tol : α) (ht : 0 ≤ tol)
    (h : List UMat) (hh : IsHistoryU ploidy nv h) (hv : ∀ Z ∈ h, ValidU ploidy nv Z) :
    specHistory nv ntr tol (h.map (popInU ploidy)) (h.map (obsU nv ntr U beta ploidy)) = [] :=
  specHistory_sound_U ntr U beta tol ht h hh hv

/-- **spec_iff (the step oracles).**  The two Bool tests the Spec applies to consecutive populations decide exactly the
    closed-step relations of the theorems: allele level for phased populations, dosage level for unphased ones. -/
theorem spec_iff_step (ploidy nv : Nat) (P Q : Pop) (A B : UMat) :
    (closedStepB nv P Q = true ↔ ClosedStep nv P Q)
    ∧ (closedStepUB ploidy nv A B = true ↔ ClosedStepU ploidy nv A B) :=
  ⟨closedStepB_iff nv P Q, closedStepUB_iff ploidy nv A B⟩

end spec

/-! ## non-vacuity (kernel-evaluated) -/

/-- a valid population with a fixed and a polymorphic locus, effects of both signs and a zero -/
example : ValidU 2 3 [[2, 0, 1], [2, 1, 0], [2, 2, 2]] := by decide
example : uslF (α := Rat) 2 3 (fun j => [3, -1, 0].getD j 0) (afreqAt (α := Rat) 2 [[2, 0, 1], [2, 1, 0], [2, 2, 2]]) = 6
    ∧ lslF (α := Rat) 2 3 (fun j => [3, -1, 0].getD j 0) (afreqAt (α := Rat) 2 [[2, 0, 1], [2, 1, 0], [2, 2, 2]]) = 4
    ∧ gebvF (α := Rat) 3 (fun j => [3, -1, 0].getD j 0) (entry [2, 1, 0]) = 5 := by decide +kernel
/-- a two-way cross with selfing between two valid parents is covered by `mating_is_closed` -/
example : ValidP 2 3 [[[1, 0, 1], [0, 0, 1]], [[1, 1, 0], [0, 0, 1]]] := by decide
example : mateProtocol (α := Int) .twoWay [[[1, 0, 1], [0, 0, 1]], [[1, 1, 0], [0, 0, 1]]] [1, 1, 1]
    [[0, 1]] [1] [2] 0 [[[0, 1, 0], [1, 1, 1]], [[1, 1, 1], [1, 0, 1]]]
    = [[[1, 1, 1], [1, 0, 1]], [[0, 0, 1], [0, 0, 1]]] := by decide
example : StepsOk (α := Rat) 2 [⟨[1, 0], .twoWayDH, [[0, 1]], [1], [3], 1, []⟩] := by
  simp [StepsOk, StepOk, mulCounts]
/-- a history in which an allele is lost: locus 0 loses allele 0, locus 1 loses allele 1 -/
example : IsHistory 2 [⟨2, [[[1, 0], [0, 1]], [[1, 0], [1, 0]]]⟩, ⟨1, [[[1, 0]], [[1, 0]]]⟩] := by
  refine ⟨(closedStepB_iff _ _ _).mp (by decide), trivial⟩

/-- unphased tetraploids: a selection round (select_taxa, then in-place culling) is a history; an allele is lost -/
example : ValidU 4 2 [[4, 0], [3, 1], [4, 4]] := by decide
example : cullTrajectory [[4, 0], [3, 1], [4, 4]] [.select [0, 2, 2], .remove [1]] =
    [[[4, 0], [3, 1], [4, 4]], [[4, 0], [4, 4], [4, 4]], [[4, 0], [4, 4]]] := by decide
example : closedStepUB 4 2 [[4, 0], [3, 1], [4, 4]] [[4, 0], [4, 4]] = true
    ∧ closedStepUB 4 2 [[4, 0], [4, 4]] [[4, 0], [3, 1], [4, 4]] = false := by decide
/-- in-place culling of a phased population down to one homozygous line -/
example : removeTaxa [0, 2] [[[1, 0], [0, 1], [1, 1]], [[1, 0], [0, 1], [0, 1]]] = [[[0, 1]], [[0, 1]]]
    ∧ keptCount [0, 2] 3 = 1 := by decide

/-- the Spec accepts the model's report on a two-generation history and rejects a report whose upper limit rises -/
example : SelLimitSpec.specHistory (α := Rat) 2 1 0
    [SelLimitSpec.popInU 4 [[4, 0], [3, 1], [4, 4]], SelLimitSpec.popInU 4 [[4, 0], [4, 4]]]
    [SelLimitSpec.obsU 2 1 [[1], [-2]] [[3]] 4 [[4, 0], [3, 1], [4, 4]],
     SelLimitSpec.obsU 2 1 [[1], [-2]] [[3]] 4 [[4, 0], [4, 4]]] = [] := by decide +kernel
example : SelLimitSpec.specHistory (α := Rat) 2 1 0
    [SelLimitSpec.popInU 4 [[4, 0], [4, 4]], SelLimitSpec.popInU 4 [[4, 0], [4, 4]]]
    [SelLimitSpec.obsU 2 1 [[1], [-2]] [[3]] 4 [[4, 0], [4, 4]],
     { SelLimitSpec.obsU 2 1 [[1], [-2]] [[3]] 4 [[4, 0], [4, 4]] with usl := [5] }] ≠ [] := by decide +kernel

/-- `mating_is_closed_C01` is not vacuous: C01's model accepts a three-way DH cross with array counts and selfing
    between binary parents (and rejects a count array of the wrong length) -/
example : (match Mating.mate (ρ := Int) .threeWayDH [([1, 0, 1], [0, 0, 1]), ([1, 1, 0], [0, 0, 1]), ([0, 1, 1], [1, 1, 1])]
    [[0, 1, 2]] (.arr [2]) (.scalar 2) 1 [1, 0, 1] 0 0
    (List.replicate 6 (List.replicate 2 [0, 0, 1]) ++ [List.replicate 4 [0, 0, 1]]) with
    | .ok o => o.rows.length == 4 | .error _ => false) = true := by decide +kernel
example : (match Mating.mate (ρ := Int) .twoWay [([1, 0], [0, 0]), ([1, 1], [0, 0])] [[0, 1]] (.arr [1, 1]) (.scalar 1) 0
    [1, 1] 0 0 [[[0, 0]], [[0, 0]]] with | .ok _ => false | .error e => e == Meiosis.Err.value) = true := by decide +kernel
example : ValidP 3 3 (toPM [([1, 0, 1], [0, 0, 1]), ([1, 1, 0], [0, 0, 1]), ([0, 1, 1], [1, 1, 1])]) := by decide

end C10
