/-
C17 — Sampling utilities honour their proportionality and balance guarantees.
Property theorems only (helper lemmas live in Lemmas/Sampling*.lean).

Model: PybropsModel/Model/Sampling.lean transcribes pybrops/core/random/sampling.py as it is after fix fc545079
(`susIdx`/`susDraws`/`sus` = stochastic_universal_sampling; `tiledIdx`/`tiledChoice` = tiled_choice, `tiledLoopIdx` its
literal slice-assignment loop; `tiledAddon` = the second copy opt/algo/pymoo_addon.py:tiled_choice;
`axisShuffleLoop`/`axisShuffleZ` = axis_shuffle as the literal loop over `sliceTuples` = core/util/array.py:sliceaxisix
(`axisShuffle` is its proved-equal gather form); `outcross` = outcross_shuffle on the logical content of the table,
`outcrossBuf` the literal in-place exchange / exchange-back loop through `xconfig.flat` on a table of any memory layout)
with the generator's draws as explicit oracle inputs.  All theorems quantify over every input size and every draw the
generator can deliver, in exact arithmetic over any ordered field (ℚ, ℝ).
Binary64: `sus_loop_safe_under_any_rounding` covers what does not depend on arithmetic; `sus_floor_ceil_rounded_partial` the
floor/ceiling claim under an abstract closeness contract; `sus_floor_ceil_binary64_partial` derives that contract from the standard
model of floating-point arithmetic applied to the operations the code performs (explicit ε);
`sus_binary64_tie_counterexample` shows on Lean's `Float` that the excluded ties do fail (open finding D7g).
`…_spec_iff`: each Bool Spec oracle the harness evaluates on the implementation's output is equivalent to the Prop
of the theorems; `…_meets_spec`: the model's output satisfies it.
`…_prerepair_counterexample`: the functions before the fixes fc545079 (D7a/D7b/D7c), f1943417 (D7d empty request),
5d3f529a (D7e non-contiguous cross table), 5396d924 (D7f negative axis).  Open finding: D7g (binary64 ties; the full
binary64 statement is false, `sus_floor_ceil_binary64_partial` is the provable restriction — its separation hypothesis is the exact
description of what remains).
-/
import PybropsModel.Lemmas.SamplingSusFinal
import PybropsModel.Lemmas.SamplingTiled
import PybropsModel.Lemmas.SamplingRows
import PybropsModel.Lemmas.SamplingAxis
import PybropsModel.Lemmas.SamplingSpec
import PybropsModel.Lemmas.SamplingRounded
import PybropsModel.Lemmas.SamplingAxisLoop
import PybropsModel.Lemmas.SamplingFl
import PybropsModel.Lemmas.SamplingTiledAddon
import PybropsModel.Lemmas.SamplingSlices
import PybropsModel.Lemmas.SamplingLoops
set_option linter.unusedSectionVars false
set_option autoImplicit false

namespace C17
open Sampling

/-! ## stochastic universal sampling (the code after fixes fc545079 and f1943417) -/
section sus
variable {α : Type} [Field α] [LinearOrder α] [IsStrictOrderedRing α]

/-- the inputs of the quantifier: weights non-negative with positive sum; any size, the empty request included -/
def SusValid (p : List α) : Prop := (∀ x ∈ p, 0 ≤ x) ∧ 0 < Np.sum p

/-- what numpy and the generator can hand to the function: a sort order of `p` (ties in any order), a
    rearrangement of the `k` draws and — when there is anything to draw — an offset in `[0, ptr_dist)`, 0 included -/
def SusOracle (p : List α) (size : List Nat) (sigma : List Nat) (o : α) (perm : List Nat) : Prop :=
  isPerm sigma p.length = true ∧ nonIncreasing (sigma.map (fun i => p.getD i 0)) = true ∧
  (0 < size.prod → 0 ≤ o ∧ o < Np.sum p / ((size.prod : Nat) : α)) ∧ isPerm perm size.prod = true

/-- **Exactly the requested number of draws, for every size — the empty request included.**  The function never
    fails and returns `prod(size)` indices, whatever the weights, the size, the tie order, the offset (0
    included) and the shuffle.  (The returned array is this flat list reshaped to `size`.) -/
theorem sus_returns_requested_number (p : List α) (size sigma perm : List Nat) (o : α)
    (hv : SusValid p) (ho : SusOracle p size sigma o perm) :
    ∃ idx, susDraws p size sigma o perm = .ok idx ∧ idx.length = size.prod := by
  obtain ⟨hnn, hpos⟩ := hv
  obtain ⟨hsp, hss, hoff, hpm⟩ := ho
  by_cases hk : size.prod = 0
  · have hperm : perm.Perm (List.range ([] : List Nat).length) := by
      have := (isPerm_iff perm size.prod).mp hpm
      rwa [hk] at this
    refine ⟨applyPerm perm [], (susDraws_ok_iff p size sigma o perm _).mpr ⟨[], by rw [hk, susIdx_zero], hperm, rfl⟩, ?_⟩
    rw [applyPerm_length perm [] hperm, hk]; rfl
  · have hdraws : 0 < size.prod := Nat.pos_of_ne_zero hk
    obtain ⟨hlo, hhi⟩ := hoff hdraws
    obtain ⟨sel, hsel, hlen⟩ := susIdxCore_defined p size.prod sigma o hnn hpos hdraws hsp hss hlo hhi
    have hperm : perm.Perm (List.range sel.length) := by
      rw [hlen]; exact (isPerm_iff perm size.prod).mp hpm
    refine ⟨applyPerm perm sel, (susDraws_ok_iff p size sigma o perm _).mpr
      ⟨sel, by rw [susIdx_pos p _ sigma o hk]; exact hsel, hperm, rfl⟩, ?_⟩
    rw [applyPerm_length perm sel hperm, hlen]

/-- **D7d, before fix f1943417** (and before fc545079 alike): a request of zero draws raised — `ptr_dist = tot/0 = inf`,
    `rng.uniform(0.0, inf)` raises `OverflowError` (model: error tag `value`) — for any valid weights. -/
theorem sus_size_zero_prerepair_counterexample :
    SusValid (α := ℚ) [1, 2] ∧
    susIdxPrerepair (α := ℚ) [1, 2] ([0] : List Nat).prod [1, 0] 0 = .error "value" ∧
    susIdxPrerepair (α := ℚ) [1, 2] ([2, 0] : List Nat).prod [1, 0] 0 = .error "value" ∧
    susDraws (α := ℚ) [1, 2] [2, 0] [1, 0] 0 [] = .ok [] := by
  refine ⟨⟨by decide, by decide +kernel⟩, ?_, ?_, ?_⟩ <;> rfl

/-- the length claim for any successful run of the model (this is what `reshape(size)` needs) -/
theorem sus_length (p : List α) (size sigma perm idx : List Nat) (o : α)
    (h : susDraws p size sigma o perm = .ok idx) : idx.length = size.prod := by
  rcases susDraws_cases p size sigma perm idx o h with ⟨hk, rfl⟩ | ⟨_, sel, hsel, hperm, rfl⟩
  · rw [hk]; rfl
  · rw [applyPerm_length perm sel hperm]
    exact susIdxCore_length p size.prod sigma sel o hsel

/-- every draw is an index of the weight vector (so `a[sel]` only returns elements of `a`) -/
theorem sus_members (p : List α) (size sigma perm idx : List Nat) (o : α)
    (hp : ∀ x ∈ p, 0 ≤ x) (hT : 0 < Np.sum p)
    (h : susDraws p size sigma o perm = .ok idx) : ∀ i ∈ idx, i < p.length := by
  rcases susDraws_cases p size sigma perm idx o h with ⟨_, rfl⟩ | ⟨_, sel, hsel, hperm, rfl⟩
  · simp
  intro i hi
  have hi' : i ∈ sel := (applyPerm_perm perm sel hperm).mem_iff.mp hi
  obtain ⟨hclosed, hlt⟩ := susIdxCore_closed p size.prod sigma o sel hp hT hsel
  have hs := sigmaFacts p sigma ((susIdxCore_ok_iff p size.prod sigma o sel).mp hsel).1
  rw [hclosed] at hi'
  simp only [List.mem_map, List.mem_range] at hi'
  obtain ⟨q, ⟨j, hj, rfl⟩, rfl⟩ := hi'
  have := hlt j hj
  simp only [this, List.getElem?_eq_getElem, Option.getD_some]
  exact hs.lt _ (List.getElem_mem _)

/-- **Whatever binary64 rounding does** to the pointers, to the cumulative weights and to the outcome of
    every comparison in the loop (all three are arbitrary here): given the exact ingredients — the sort order
    and `last = count_nonzero(p) - 1`, which involve no arithmetic — the guarded loop yields one index per
    pointer, never raises, and never selects an element of weight zero.  (The defects D7b, D7c of the
    pre-repair code cannot recur through rounding.) -/
theorem sus_loop_safe_under_any_rounding (p : List α) (sigma : List Nat)
    (hp : ∀ x ∈ p, 0 ≤ x) (hT : 0 < Np.sum p)
    (h1 : isPerm sigma p.length = true) (h2 : nonIncreasing (sigma.map (fun i => p.getD i 0)) = true)
    {γ : Type} (cnd : γ → γ → Bool) (cs ptrs : List γ) (hcs : cs.length = sigma.length) :
    ∃ sel, walkG cnd (cs.zip sigma)
        ((p.filter (fun x => decide (0 < x) || decide (x < 0))).length - 1) ptrs = some sel ∧
      sel.length = ptrs.length ∧ ∀ i ∈ sel, ∃ hi : i < p.length, 0 < p[i] := by
  have hs := sigmaFacts p sigma h1
  obtain ⟨hlast, _, hnzpos⟩ := guard_total p sigma hp hT h1 h2
  set w := sigma.map (fun i => p.getD i 0) with hw
  set nz := fun x : α => decide (0 < x) || decide (x < 0) with hnz
  have hwl : w.length = sigma.length := by simp [hw]
  have hc : (p.filter nz).length = (w.filter nz).length := (hs.wperm.filter nz).length_eq.symm
  have hzlen : (cs.zip sigma).length = sigma.length := by simp [hcs]
  obtain ⟨sel, hwalk, hlen, hmem⟩ := walkG_total cnd (cs.zip sigma) ((p.filter nz).length - 1) ptrs
    (by rw [hzlen, ← hwl]; exact hlast)
  refine ⟨sel, hwalk, hlen, fun i hi => ?_⟩
  obtain ⟨q, hq, hqr, hqi⟩ := hmem i hi
  have hqs : q < sigma.length := by rw [← hzlen]; exact hq
  have hiq : i = sigma[q] := by rw [← hqi]; simp
  have hilt : i < p.length := by rw [hiq]; exact hs.lt _ (List.getElem_mem hqs)
  refine ⟨hilt, ?_⟩
  have hnzpos' : 0 < (p.filter nz).length := hnzpos
  have hqr' : q ≤ (p.filter nz).length - 1 := hqr
  have hqc : q < (w.filter nz).length := by rw [← hc]; omega
  have hpos := take_nonzero_pos w (hs.nonneg hp) h2 q hqc (by rw [hwl]; exact hqs)
  have : w[q]'(by rw [hwl]; exact hqs) = p[i] := by
    simp only [hw, List.getElem_map, hiq]
    have : sigma[q] < p.length := hs.lt _ (List.getElem_mem hqs)
    simp [this]
  rwa [this] at hpos

/-- **Why the guard is the NUMBER of positive weights** (`last = numpy.count_nonzero(p) - 1`, hypothesis `hlast` of the
    theorem above): the guard bounds a position in the *descending sorted* order.  Taking instead the position of the last
    positive weight in the original order (`numpy.flatnonzero(p)[-1]`) is right only when every zero weight sits at the
    end of `p`.  For `p = (0, 1, 2)` — a zero in front — that position is 2, and a pointer beyond the end of the computed
    cumulative weights (every comparison true: what rounding of `p.sum()` against `cumsum()[-1]` produces) walks on to
    sorted position 2 = element 0, of weight zero; with the guard of the code (1) it stays on element 1. -/
theorem sus_guard_needs_count_of_positive_weights :
    let p : List ℚ := [0, 1, 2]
    let sigma := [2, 1, 0]
    let cs := Np.cumsum (sigma.map (fun i => p.getD i 0))
    isPerm sigma p.length = true ∧ nonIncreasing (sigma.map (fun i => p.getD i 0)) = true ∧
    walkG (fun _ _ => true) (cs.zip sigma) 2 [(4 : ℚ)] = some [0] ∧ p.getD 0 0 = 0 ∧
    walkG (fun _ _ => true) (cs.zip sigma)
      ((p.filter (fun x => decide (0 < x) || decide (x < 0))).length - 1) [(4 : ℚ)] = some [1] := by
  refine ⟨by decide, by decide +kernel, by decide +kernel, by decide +kernel, by decide +kernel⟩

end sus

section floorceil
variable {α : Type} [Field α] [LinearOrder α] [IsStrictOrderedRing α] [FloorRing α]

/-- **Floor / ceiling guarantee, full strength**: for every weight vector of the quantifier, every size,
    every tie order, every offset in `[0, ptr_dist)` — exactly 0 included — and every shuffle, each element
    is selected the floor or the ceiling of its expected count `k·p_i / Σp`. -/
theorem sus_floor_ceil (p : List α) (size sigma perm idx : List Nat) (o : α)
    (hp : ∀ x ∈ p, 0 ≤ x) (hT : 0 < Np.sum p)
    (h : susDraws p size sigma o perm = .ok idx) (i : Nat) (hi : i < p.length) :
    (idx.count i : ℤ) = ⌊(size.prod : α) * p[i] / Np.sum p⌋ ∨
    (idx.count i : ℤ) = ⌈(size.prod : α) * p[i] / Np.sum p⌉ := by
  rcases susDraws_cases p size sigma perm idx o h with ⟨hk, rfl⟩ | ⟨_, sel, hsel, hperm, rfl⟩
  · left
    rw [hk]
    simp
  have hs := sigmaFacts p sigma ((susIdxCore_ok_iff p size.prod sigma o sel).mp hsel).1
  obtain ⟨r, hr, rfl⟩ := hs.exists_pos i hi
  have := susIdxCore_floor_ceil_pos p size.prod sigma o sel hp hT hsel r hr
  have hg : p.getD sigma[r] 0 = p[sigma[r]] := by simp [hi]
  rw [hg] at this
  rw [(applyPerm_perm perm sel hperm).count_eq]
  exact this

/-- **An element of weight zero is never selected** (any offset, 0 included). -/
theorem sus_zero_weight_never_selected (p : List α) (size sigma perm idx : List Nat) (o : α)
    (hp : ∀ x ∈ p, 0 ≤ x) (hT : 0 < Np.sum p)
    (h : susDraws p size sigma o perm = .ok idx) (i : Nat) (hi : i < p.length) (hz : p[i] = 0) :
    i ∉ idx := by
  have := sus_floor_ceil p size sigma perm idx o hp hT h i hi
  rw [hz, mul_zero, zero_div, Int.floor_zero, Int.ceil_zero, or_self] at this
  rw [← List.count_eq_zero]
  exact_mod_cast this

/-- the same guarantees read off the returned values, when the entries of `a` are distinct
    (this is the form the Spec oracle `c17.spec_sus` evaluates on the implementation's output) -/
theorem sus_floor_ceil_values {β : Type} [DecidableEq β] (a : List β) (p : List α)
    (size sigma perm : List Nat) (o : α) (out : List β)
    (hp : ∀ x ∈ p, 0 ≤ x) (hT : 0 < Np.sum p) (ha : a.Nodup) (hlen : a.length = p.length)
    (h : sus a p size sigma o perm = .ok out) (i : Nat) (hi : i < p.length) :
    out.length = size.prod ∧ (∀ v ∈ out, v ∈ a) ∧
    ((out.count (a[i]'(hlen ▸ hi)) : ℤ) = ⌊(size.prod : α) * p[i] / Np.sum p⌋ ∨
     (out.count (a[i]'(hlen ▸ hi)) : ℤ) = ⌈(size.prod : α) * p[i] / Np.sum p⌉) ∧
    (p[i] = 0 → out.count (a[i]'(hlen ▸ hi)) = 0) := by
  obtain ⟨idx, hidx, hlt, rfl⟩ := (sus_ok_iff a p size sigma o perm out).mp h
  refine ⟨?_, fun v hv => take_mem idx a v hv, ?_, ?_⟩
  · rw [take_length_of_lt idx a hlt, sus_length p size sigma perm idx o hidx]
  · rw [take_count idx a ha hlt i (hlen ▸ hi)]
    exact sus_floor_ceil p size sigma perm idx o hp hT hidx i hi
  · intro hz
    rw [take_count idx a ha hlt i (hlen ▸ hi), List.count_eq_zero]
    exact sus_zero_weight_never_selected p size sigma perm idx o hp hT hidx i hi hz

/-- **The model's output satisfies the SUS clause** `SusSpec` for every offset … -/
theorem sus_satisfies_spec {β : Type} [DecidableEq β] (a : List β) (p : List α)
    (size sigma perm : List Nat) (o : α) (out : List β)
    (hp : ∀ x ∈ p, 0 ≤ x) (hT : 0 < Np.sum p) (ha : a.Nodup) (hlen : a.length = p.length)
    (h : sus a p size sigma o perm = .ok out) : SusSpec p size.prod a out := by
  have hmain := fun i hi => sus_floor_ceil_values a p size sigma perm o out hp hT ha hlen h i hi
  obtain ⟨idx, hidx, hlt, hout⟩ := (sus_ok_iff a p size sigma o perm out).mp h
  refine ⟨?_, ?_, fun i hi => ⟨hlen ▸ hi, ?_, ?_⟩⟩
  · rw [hout, take_length_of_lt idx a hlt, sus_length p size sigma perm idx o hidx]
  · intro v hv; rw [hout] at hv; exact take_mem idx a v hv
  · have hg : p.getD i 0 = p[i] := by simp [hi]
    rw [hg]; exact (hmain i hi).2.2.1
  · have hg : p.getD i 0 = p[i] := by simp [hi]
    rw [hg]; exact (hmain i hi).2.2.2

/-- … and therefore **passes the Bool oracle** `c17.spec_sus` that is evaluated on the implementation's output. -/
theorem sus_meets_spec {β : Type} [DecidableEq β] (a : List β) (p : List α)
    (size sigma perm : List Nat) (o : α) (out : List β)
    (hp : ∀ x ∈ p, 0 ≤ x) (hT : 0 < Np.sum p) (ha : a.Nodup) (hlen : a.length = p.length)
    (h : sus a p size sigma o perm = .ok out) :
    (specSus p size.prod a out).ok = true :=
  (specSus_iff p size.prod a out).mpr (sus_satisfies_spec a p size sigma perm o out hp hT ha hlen h)

/-- **Spec oracle = statement**: `specSus` is true exactly when the returned array has the requested length,
    consists of elements of `a`, every element occurs the floor or the ceiling of its expected count and no
    element of weight zero occurs. -/
theorem sus_spec_iff {β : Type} [DecidableEq β] (p : List α) (k : Nat) (a out : List β) :
    (specSus p k a out).ok = true ↔ SusSpec p k a out := specSus_iff p k a out

/-! ### binary64: the rounding contract

FULL STATEMENT (false of the as-is code on binary64, see `sus_binary64_tie_counterexample`; finding D7g):
  for every weight vector of binary64 numbers, every size, every offset `rng.uniform(0, ptr_dist)` can return and every
  shuffle, the loop run on the binary64 cumulative sums and pointers selects each element the floor or the ceiling of
  its exact expected count `k·p_i / Σp`.
The two `_partial` theorems below prove it under the extra hypothesis that no exact pointer lies within `2ε` of an exact
cumulative boundary before the last element of positive weight (`ε` abstract in the first, explicit for the standard
model of floating-point arithmetic in the second); the counterexample shows that the hypothesis cannot be dropped. -/

/-- **Floor / ceiling under rounding.**  Let the loop run on *computed* cumulative sums `cs'` and pointers `ptrs'`
    (any rounding function, any summation order, any computed spacing) and any interval convention `lo'`
    that is right-open when the offset is exactly 0 (the code's `lo = offset < 0.5*ptr_dist` is).  If every
    computed value is within `ε` of its exact value and **no exact pointer lies within `2ε` of an exact
    cumulative-weight boundary before the last element of positive weight**, the draws are exactly those of the
    exact loop: `k` of them, each element the floor or the ceiling of its expected count.
    What this leaves open is exactly the excluded ties (see `sus_rounded_tie_counterexample`) and an offset that
    rounding pushes to or beyond the exact spacing `Σp/k`. -/
theorem sus_floor_ceil_rounded_partial (p : List α) (k : Nat) (sigma : List Nat) (o : α) (lo' : Bool)
    (hp : ∀ x ∈ p, 0 ≤ x) (hT : 0 < Np.sum p)
    (h1 : isPerm sigma p.length = true) (h2 : nonIncreasing (sigma.map (fun i => p.getD i 0)) = true)
    (hk : k ≠ 0) (ho : 0 ≤ o) (hod : o < Np.sum p / (k : α)) (hlo : lo' = false → 0 < o)
    (ε : α) (cs' ptrs' : List α) (hcs' : cs'.length = sigma.length) (hptrs' : ptrs'.length = k)
    (hclose_c : ∀ r < (p.filter (fun x => decide (0 < x) || decide (x < 0))).length - 1, r < sigma.length →
      |cs'.getD r 0 - (Np.cumsum (sigma.map (fun i => p.getD i 0))).getD r 0| ≤ ε)
    (hclose_t : ∀ j < k, |ptrs'.getD j 0 - (o + (j : α) * (Np.sum p / (k : α)))| ≤ ε)
    (hsep : ∀ r < (p.filter (fun x => decide (0 < x) || decide (x < 0))).length - 1, r < sigma.length →
      ∀ j < k, 2 * ε < |(o + (j : α) * (Np.sum p / (k : α)))
                        - (Np.cumsum (sigma.map (fun i => p.getD i 0))).getD r 0|) :
    ∃ sel, walkG (ptrCmp lo') (cs'.zip sigma)
        ((p.filter (fun x => decide (0 < x) || decide (x < 0))).length - 1) ptrs' = some sel ∧
      sel.length = k ∧
      ∀ i (hi : i < p.length),
        (sel.count i : ℤ) = ⌊(k : α) * p[i] / Np.sum p⌋ ∨ (sel.count i : ℤ) = ⌈(k : α) * p[i] / Np.sum p⌉ := by
  obtain ⟨sel, hsel, hrun⟩ := run_rounded p k sigma o lo' hp hT h1 h2 hk ho hod ε cs' ptrs' hcs' hptrs'
    hclose_c hclose_t hsep
  refine ⟨sel, hsel, ?_, fun i hi => ?_⟩
  · rw [walkG_length _ _ _ _ _ hsel, hptrs']
  · have hs := sigmaFacts p sigma h1
    obtain ⟨r, hr, rfl⟩ := hs.exists_pos i hi
    have := run_floor_ceil_pos p k sigma o lo' sel hp hT hrun hlo r hr
    have hg : p.getD sigma[r] 0 = p[sigma[r]] := by simp [hi]
    rwa [hg] at this

/-- **Floor / ceiling in floating-point arithmetic, standard model** (`|fl x - x| ≤ u·|x|` for every rounded
    operation; binary64: `u = 2^-53`).  The loop runs on exactly what the code computes: `numpy.cumsum` of the sorted
    weights with every addition rounded (`flCumsum`), the spacing `fl (T'/k)` from a computed total `T'` within `γ·Σp`
    of the exact total (`p.sum()`: pairwise summation, `γ ≤ (1+u)^⌈log₂ n⌉ - 1`), the pointers
    `fl (offset + fl (j · ptr_dist))`.  With `ε := max((1+u)^n - 1, (1+u)³(1+γ) - 1) · Σp` (about `max(n, 3 + log₂ n)`
    rounding units of the total) the draws are the exact ones — `k` of them, every element the floor or the ceiling
    of its expected count — **unless an exact pointer lies within `2ε` of an exact cumulative boundary before the last
    element of positive weight**.  That is the exact statement of the residual: `sus_binary64_tie_counterexample`
    shows the excluded inputs do fail on binary64 (finding D7g). -/
theorem sus_floor_ceil_binary64_partial (p : List α) (k : Nat) (sigma : List Nat) (o : α) (lo' : Bool)
    (hp : ∀ x ∈ p, 0 ≤ x) (hT : 0 < Np.sum p)
    (h1 : isPerm sigma p.length = true) (h2 : nonIncreasing (sigma.map (fun i => p.getD i 0)) = true)
    (hk : k ≠ 0) (ho : 0 ≤ o) (hod : o < Np.sum p / (k : α)) (hlo : lo' = false → 0 < o)
    (fl : α → α) (u γ : α) (hu : 0 ≤ u) (hγ : 0 ≤ γ) (hfl : ∀ x, |fl x - x| ≤ u * |x|)
    (T' : α) (hT' : |T' - Np.sum p| ≤ γ * Np.sum p)
    (hsep : ∀ r < (p.filter (fun x => decide (0 < x) || decide (x < 0))).length - 1, r < sigma.length →
      ∀ j < k, 2 * ((max ((1 + u) ^ p.length - 1) ((1 + u) ^ 3 * (1 + γ) - 1)) * Np.sum p)
        < |(o + (j : α) * (Np.sum p / (k : α))) - (Np.cumsum (sigma.map (fun i => p.getD i 0))).getD r 0|) :
    ∃ sel, walkG (ptrCmp lo') ((flCumsum fl (sigma.map (fun i => p.getD i 0))).zip sigma)
        ((p.filter (fun x => decide (0 < x) || decide (x < 0))).length - 1)
        ((List.range k).map (fun (j : Nat) => fl (o + fl ((j : α) * fl (T' / (k : α)))))) = some sel ∧
      sel.length = k ∧
      ∀ i (hi : i < p.length),
        (sel.count i : ℤ) = ⌊(k : α) * p[i] / Np.sum p⌋ ∨ (sel.count i : ℤ) = ⌈(k : α) * p[i] / Np.sum p⌉ := by
  have hs := sigmaFacts p sigma h1
  set w := sigma.map (fun i => p.getD i 0) with hw
  have hwl : w.length = p.length := by rw [hw, List.length_map, hs.len]
  have hwsum : w.sum = Np.sum p := hs.sum
  have hkpos : (0 : α) < (k : α) := Nat.cast_pos.mpr (Nat.pos_of_ne_zero hk)
  have hd : 0 ≤ Np.sum p / (k : α) := div_nonneg hT.le hkpos.le
  set η := (1 + u) * (1 + γ) - 1 with hη
  have hη0 : 0 ≤ η := by rw [hη]; nlinarith [mul_nonneg hu hγ]
  have hdd := flSpacing_err fl u γ hu hfl (Np.sum p) T' k hk hT.le hT'
  apply sus_floor_ceil_rounded_partial p k sigma o lo' hp hT h1 h2 hk ho hod hlo
    ((max ((1 + u) ^ p.length - 1) ((1 + u) ^ 3 * (1 + γ) - 1)) * Np.sum p)
  · rw [flCumsum, flCumsumFrom_length, hw, List.length_map]
  · simp
  · intro r _ hr
    have hr' : r < w.length := by rw [hwl, ← hs.len]; exact hr
    have := flCumsum_err fl u hu hfl w (hs.nonneg hp) r hr'
    rw [hwl, hwsum] at this
    exact this.trans (mul_le_mul_of_nonneg_right (le_max_left _ _) hT.le)
  · intro j hj
    have hjk : (j : α) + 1 ≤ (k : α) := by exact_mod_cast hj
    have hTj : o + (j : α) * (Np.sum p / (k : α)) ≤ Np.sum p := by
      have : ((j : α) + 1) * (Np.sum p / (k : α)) ≤ (k : α) * (Np.sum p / (k : α)) :=
        mul_le_mul_of_nonneg_right hjk hd
      rw [mul_div_cancel₀ _ hkpos.ne'] at this
      linarith
    have := flPointer_err fl u η hu hfl o (Np.sum p / (k : α)) (fl (T' / (k : α))) (Np.sum p) j ho hd hη0 hdd hTj
    have hget : ((List.range k).map (fun (j : Nat) => fl (o + fl ((j : α) * fl (T' / (k : α)))))).getD j 0
        = fl (o + fl ((j : α) * fl (T' / (k : α)))) := by simp [hj]
    rw [hget]
    refine this.trans (mul_le_mul_of_nonneg_right ?_ hT.le)
    have : (1 + u) ^ 2 * (1 + η) - 1 = (1 + u) ^ 3 * (1 + γ) - 1 := by rw [hη]; ring
    rw [this]; exact le_max_right _ _
  · exact hsep

/-- **D7g (open finding): the excluded ties fail on binary64.**  The loop as it is, evaluated by the kernel on Lean's
    `Float` (IEEE binary64) for three equal weights `0.7` (= 3152519739159347·2^-52, not a dyadic with a short
    mantissa), 3 draws and the offset exactly `0.0`: the computed spacing `(0.7+0.7+0.7)/3` is one ulp below `0.7`,
    so pointers 1 and 2 fall just below the boundaries they sit on in exact arithmetic and the draws are
    `[2, 2, 1]` — element 0 is never drawn, element 2 twice, although every expected count is exactly 1
    (the exact run on the same three numbers gives `[2, 1, 0]`).  Reproduced on numpy with a genuine `RandomState`
    state whose next variate is 0.0 (corpus of harness/props/c17.py). -/
theorem sus_binary64_tie_counterexample :
    ((0.7 : Float) == Float.ofBits 0x3FE6666666666666) = true ∧
    (susIdxCore (α := Float) [0.7, 0.7, 0.7] 3 [2, 1, 0] 0.0).toOption = some [2, 2, 1] ∧
    (susIdxCore (α := ℚ) [3152519739159347/4503599627370496, 3152519739159347/4503599627370496,
      3152519739159347/4503599627370496] 3 [2, 1, 0] 0).toOption = some [2, 1, 0] ∧
    ¬ ((([2, 2, 1] : List Nat).count 0 : ℤ)
        = ⌊((3 : Nat) : ℚ) * (3152519739159347/4503599627370496) / Np.sum [(3152519739159347/4503599627370496 : ℚ),
            3152519739159347/4503599627370496, 3152519739159347/4503599627370496]⌋ ∨
       (([2, 2, 1] : List Nat).count 0 : ℤ)
        = ⌈((3 : Nat) : ℚ) * (3152519739159347/4503599627370496) / Np.sum [(3152519739159347/4503599627370496 : ℚ),
            3152519739159347/4503599627370496, 3152519739159347/4503599627370496]⌉) := by
  have hs : Np.sum [(3152519739159347/4503599627370496 : ℚ), 3152519739159347/4503599627370496,
      3152519739159347/4503599627370496] = 3 * (3152519739159347/4503599627370496) := by decide +kernel
  refine ⟨by decide +kernel, by decide +kernel, by decide +kernel, ?_⟩
  rw [hs]; norm_num

/-- **The ties the rounding contract excludes are real**: `p = (1,1)`, 2 draws, exact offset `7/8` (pointers
    `7/8, 15/8`, boundary 1).  A computed first pointer `9/8` (within `ε = 1/4` of `7/8`, which is within `2ε` of
    the boundary) makes the loop return the second element twice: counts (0, 2), expected (1, 1). -/
theorem sus_rounded_tie_counterexample :
    walkG (ptrCmp (α := ℚ) false) (([1, 2] : List ℚ).zip [0, 1]) 1 [9/8, 15/8] = some [1, 1] ∧
    |(9/8 : ℚ) - 7/8| ≤ 1/4 ∧ ¬ (2 * (1/4 : ℚ) < |7/8 - 1|) ∧
    ¬ ((([1, 1] : List Nat).count 0 : ℤ) = ⌊((2 : Nat) : ℚ) * 1 / Np.sum [1, 1]⌋ ∨
       (([1, 1] : List Nat).count 0 : ℤ) = ⌈((2 : Nat) : ℚ) * 1 / Np.sum [1, 1]⌉) := by
  have hs : Np.sum ([1, 1] : List ℚ) = 2 := by decide +kernel
  refine ⟨by decide +kernel, by norm_num [abs_le], by norm_num [abs_lt], ?_⟩
  rw [hs]; norm_num

/-! ### why fix fc545079 matters: the function before the fix (`susIdxPrerepair`; findings D7a, D7b, D7c) -/

/-- **D7a, pre-repair.**  With the offset exactly 0 (a value `rng.uniform(0, ptr_dist)` can return: replayed with
    genuine `RandomState` / `Generator(MT19937)` states) three equal weights and three draws gave the counts
    (0, 1, 2) although every expected count is exactly 1. -/
theorem sus_offset_zero_prerepair_counterexample :
    SusValid (α := ℚ) [1, 1, 1] ∧ SusOracle (α := ℚ) [1, 1, 1] [3] [2, 1, 0] 0 [0, 1, 2] ∧
    susIdxPrerepair (α := ℚ) [1, 1, 1] 3 [2, 1, 0] 0 = .ok [2, 2, 1] ∧
    ¬ ((([2, 2, 1] : List Nat).count 0 : ℤ) = ⌊((3 : Nat) : ℚ) * 1 / Np.sum [1, 1, 1]⌋ ∨
       (([2, 2, 1] : List Nat).count 0 : ℤ) = ⌈((3 : Nat) : ℚ) * 1 / Np.sum [1, 1, 1]⌉) ∧
    ¬ ((([2, 2, 1] : List Nat).count 2 : ℤ) = ⌊((3 : Nat) : ℚ) * 1 / Np.sum [1, 1, 1]⌋ ∨
       (([2, 2, 1] : List Nat).count 2 : ℤ) = ⌈((3 : Nat) : ℚ) * 1 / Np.sum [1, 1, 1]⌉) := by
  have hs : Np.sum ([1, 1, 1] : List ℚ) = 3 := by decide +kernel
  refine ⟨⟨by decide, by decide +kernel⟩,
    ⟨by decide, by decide +kernel, fun _ => ⟨by decide +kernel, by decide +kernel⟩, by decide⟩, ?_, ?_, ?_⟩
  · rw [← toOption_eq_some]; decide +kernel
  · rw [hs]; norm_num
  · rw [hs]; norm_num

/-- **D7a was a family, not an accident** (pre-repair): whenever the offset is 0, at least two elements have
    positive weight and the expected count of the largest weight is an integer `z`, that element was selected
    `z + 1` times — neither the floor nor the ceiling of `z`. -/
theorem sus_offset_zero_family_prerepair_counterexample (p : List α) (k : Nat) (sigma sel : List Nat) (z : ℤ)
    (hp : ∀ x ∈ p, 0 ≤ x) (hT : 0 < Np.sum p)
    (h : susIdxPrerepair p k sigma 0 = .ok sel) (h0 : 0 < sigma.length)
    (hlt : p.getD sigma[0] 0 < Np.sum p)
    (hz : (k : α) * p.getD sigma[0] 0 / Np.sum p = (z : α)) :
    (sel.count sigma[0] : ℤ) = z + 1 ∧
    ¬ ((sel.count sigma[0] : ℤ) = ⌊(k : α) * p.getD sigma[0] 0 / Np.sum p⌋ ∨
       (sel.count sigma[0] : ℤ) = ⌈(k : α) * p.getD sigma[0] 0 / Np.sum p⌉) := by
  have := susIdxPrerepair_zero_first_lt p k sigma sel hp hT h h0 hlt
  rw [hz, Int.floor_intCast] at this
  refine ⟨this, ?_⟩
  rw [hz, Int.floor_intCast, Int.ceil_intCast, this]
  omega

end floorceil

/-- **D7b, pre-repair** (binary64).  `numpy.arange(offset, tot_fit, ptr_dist)` has
    `ceil((tot_fit - offset)/ptr_dist)` entries, computed in binary64.  For `p = (1,1,1)`, 3 draws and the
    uniform variate `1 - 2^-53` (a value `random_sample()` returns) that number was 2, not 3:
    `sel.reshape(size)` then raised.  Evaluated on Lean's `Float` by the kernel. -/
theorem sus_pointer_count_float_prerepair_counterexample :
    F.nPointersIs 3.0 3 (Float.ofBits 0x3FEFFFFFFFFFFFFF) 2 = true ∧
    F.nPointersIs 3.0 3 (Float.ofBits 0x3FEFFFFFFFFFFFFF) 3 = false := by
  constructor <;> decide +kernel

/-- D7b, the other direction (pre-repair): offset 0, total weight 3.125, 29 draws: `tot/(tot/29)` rounds above
    29 and `arange` yielded 30 pointers. -/
theorem sus_pointer_count_float_excess_prerepair_counterexample :
    F.nPointersIs 3.125 29 0.0 30 = true ∧ F.nPointersIs 3.125 29 0.0 29 = false := by
  constructor <;> decide +kernel

/-- D7a in binary64 (pre-repair): a strictly positive offset (`2^-53 · ptr_dist`) is absorbed by the additions
    that build the pointers: for total weight 6 and 36 draws pointer 18 is *exactly* 3.0, the boundary between
    the first and the second element of `p = (1,3,0,2)` sorted, as if the offset were 0.  (This is why the
    repaired loop chooses the interval convention by the half of `[0, ptr_dist)` the offset lies in.) -/
theorem sus_offset_absorbed_float_prerepair_counterexample :
    (decide (0.0 < F.offset (F.ptrDist 6.0 36) (Float.ofBits 0x3CA0000000000000)) &&
     (F.pointer (F.offset (F.ptrDist 6.0 36) (Float.ofBits 0x3CA0000000000000)) (F.ptrDist 6.0 36) 18 == 3.0)) = true := by
  decide +kernel

/-! ## tiled choice -/
section tiled

/-- **Balance of tiled sampling without replacement**, for every option count, every size and every
    draw / shuffle of the generator: the output has exactly `nsample` entries, all of them options; every
    option is used `⌊nsample/noption⌋` times or once more, so two options never differ by more than one
    use; and the options used once more are exactly `nsample mod noption` many. -/
theorem tiled_balance (noption nsample : Nat) (draw perm idx : List Nat)
    (h : tiledIdx noption nsample false draw perm = .ok idx) :
    idx.length = nsample ∧ (∀ i ∈ idx, i < noption) ∧
    (∀ i < noption, idx.count i = nsample / noption ∨ idx.count i = nsample / noption + 1) ∧
    (∀ i < noption, ∀ j < noption, idx.count i ≤ idx.count j + 1) ∧
    ((List.range noption).filter (fun i => decide (idx.count i = nsample / noption + 1))).length
      = nsample % noption := by
  have hc := tiled_count noption nsample draw perm idx h
  refine ⟨tiled_length noption nsample draw perm idx h, tiled_mem noption nsample draw perm idx h, ?_, ?_, ?_⟩
  · intro i hi
    rw [hc i hi]
    split_ifs <;> simp
  · intro i hi j hj
    rw [hc i hi, hc j hj]
    split_ifs <;> omega
  · obtain ⟨_, hlen, hlt, hnd, _, _⟩ := (tiledIdx_false_ok_iff noption nsample draw perm idx).mp h
    rw [← hlen, ← tiled_extra noption draw hlt hnd]
    congr 1
    apply List.filter_congr
    intro i hi
    rw [hc i (List.mem_range.mp hi)]
    by_cases hm : i ∈ draw <;> simp [hm]

/-- the model never fails on a non-empty option set: whatever `rng.choice(a, re, False, p)` and
    `rng.shuffle` deliver, an output exists -/
theorem tiled_defined (noption nsample : Nat) (draw perm : List Nat) (hn : 0 < noption)
    (hlen : draw.length = nsample % noption) (hlt : ∀ i ∈ draw, i < noption) (hnd : draw.Nodup)
    (hperm : isPerm perm nsample = true) :
    ∃ idx, tiledIdx noption nsample false draw perm = .ok idx :=
  ⟨_, (tiledIdx_false_ok_iff noption nsample draw perm _).mpr
    ⟨by omega, hlen, hlt, hnd, (isPerm_iff perm nsample).mp hperm, rfl⟩⟩

/-- the same balance read off the returned values when the options are distinct (the form evaluated by
    the Spec oracle `c17.spec_tiled`) -/
theorem tiled_balance_values {β : Type} [DecidableEq β] (a : List β) (size draw perm : List Nat) (out : List β)
    (ha : a.Nodup) (h : tiledChoice a size false draw perm = .ok out) :
    out.length = size.prod ∧ (∀ v ∈ out, v ∈ a) ∧
    ∀ (i : Nat) (hi : i < a.length) (j : Nat) (hj : j < a.length), out.count a[i] ≤ out.count a[j] + 1 := by
  obtain ⟨idx, hidx, rfl⟩ := (tiledChoice_ok_iff a size false draw perm out).mp h
  obtain ⟨hl, hm, _, hb, _⟩ := tiled_balance a.length size.prod draw perm idx hidx
  refine ⟨by rw [take_length_of_lt idx a hm, hl], fun v hv => take_mem idx a v hv, ?_⟩
  intro i hi j hj
  rw [take_count idx a ha hm i hi, take_count idx a ha hm j hj]
  exact hb i hi j hj

/-- the model's output satisfies the tiled-choice clause `TiledSpec`, i.e. passes the Spec oracle `c17.spec_tiled` -/
theorem tiled_meets_spec {β : Type} [DecidableEq β] (a : List β) (size draw perm : List Nat) (out : List β)
    (ha : a.Nodup) (h : tiledChoice a size false draw perm = .ok out) :
    TiledSpec a out size.prod ∧ specTiled a out size.prod = true := by
  obtain ⟨idx, hidx, rfl⟩ := (tiledChoice_ok_iff a size false draw perm out).mp h
  obtain ⟨hl, hm, hq, hb, _⟩ := tiled_balance a.length size.prod draw perm idx hidx
  have hspec : TiledSpec a (Np.take idx a) size.prod := by
    refine ⟨by rw [take_length_of_lt idx a hm, hl], fun v hv => take_mem idx a v hv, ?_, ?_⟩
    · intro u hu
      obtain ⟨i, hi, rfl⟩ := List.mem_iff_getElem.mp hu
      rw [take_count idx a ha hm i hi]
      exact hq i hi
    · intro u hu v hv
      obtain ⟨i, hi, rfl⟩ := List.mem_iff_getElem.mp hu
      obtain ⟨j, hj, rfl⟩ := List.mem_iff_getElem.mp hv
      rw [take_count idx a ha hm i hi, take_count idx a ha hm j hj]
      exact hb i hi j hj
  exact ⟨hspec, (specTiled_iff _ _ _).mpr hspec⟩

/-- Spec oracle = statement -/
theorem tiled_spec_iff {β : Type} [DecidableEq β] (a out : List β) (nsample : Nat) :
    specTiled a out nsample = true ↔ TiledSpec a out nsample := specTiled_iff a out nsample

/-- **The literal loop of `tiled_choice` is the functional form**: `out = numpy.empty(nsample)`, one slice assignment
    `out[i*noption:(i+1)*noption] = a` per whole tile, `out[qu*noption:] = rng.choice(a, re, False, p)`, `rng.shuffle(out)`
    (`tiledLoopIdx`) returns what `tiledIdx` returns — whatever `numpy.empty` left in the buffer (`init`). -/
theorem tiled_literal_loop_eq (noption nsample : Nat) (draw perm init : List Nat) (hi : init.length = nsample) :
    tiledLoopIdx noption nsample draw perm init = tiledIdx noption nsample false draw perm :=
  tiledLoopIdx_eq noption nsample draw perm init hi

/-- **The second copy of the tiling mechanism** (`opt/algo/pymoo_addon.py:tiled_choice(a, size)`, used by the
    memetic subset mutators): `size // a` full draws without replacement followed by one draw of `size % a` options.
    For every option count, every size and every result `np.random.choice(·, ·, replace=False)` can deliver, the
    output has `size` entries below `a`, every option is used `⌊size/a⌋` times or once more, exactly `size mod a`
    options once more — and it passes the Bool oracle `c17.spec_tiled` evaluated on the implementation's output. -/
theorem tiled_addon_balance (a size : Nat) (tiles : List (List Nat)) (idx : List Nat)
    (h : tiledAddon a size tiles = .ok idx) :
    idx.length = size ∧ (∀ i ∈ idx, i < a) ∧
    (∀ i < a, idx.count i = size / a ∨ idx.count i = size / a + 1) ∧
    (∀ i < a, ∀ j < a, idx.count i ≤ idx.count j + 1) ∧
    ((List.range a).filter (fun i => decide (idx.count i = size / a + 1))).length = size % a ∧
    specTiled (List.range a) idx size = true := by
  obtain ⟨hl, hm, last, hll, hlnd, hllt, hc⟩ := tiledAddon_facts a size tiles idx h
  have hq : ∀ i < a, idx.count i = size / a ∨ idx.count i = size / a + 1 := by
    intro i hi; rw [hc i hi]; split_ifs <;> simp
  have hb : ∀ i < a, ∀ j < a, idx.count i ≤ idx.count j + 1 := by
    intro i hi j hj; rw [hc i hi, hc j hj]; split_ifs <;> omega
  refine ⟨hl, hm, hq, hb, ?_, ?_⟩
  · rw [← hll, ← tiled_extra a last hllt hlnd]
    congr 1
    apply List.filter_congr
    intro i hi
    rw [hc i (List.mem_range.mp hi)]
    by_cases hmem : i ∈ last <;> simp [hmem]
  · rw [specTiled_iff]
    refine ⟨hl, fun v hv => List.mem_range.mpr (hm v hv), ?_, ?_⟩
    · intro u hu
      rw [List.length_range]
      exact hq u (List.mem_range.mp hu)
    · intro u hu v hv
      exact hb u (List.mem_range.mp hu) v (List.mem_range.mp hv)

/-- the model of the second copy accepts whatever the draws without replacement deliver -/
theorem tiled_addon_defined (a size : Nat) (full : List (List Nat)) (last : List Nat) (ha : a ≠ 0)
    (hfl : full.length = size / a) (hfull : ∀ t ∈ full, isDistinctDraw a a t = true)
    (hlast : isDistinctDraw a (size % a) last = true) :
    ∃ idx, tiledAddon a size (full ++ [last]) = .ok idx :=
  ⟨_, (tiledAddon_ok_iff a size (full ++ [last]) _).mpr ⟨ha, full, last, rfl, hfl, hfull, hlast, rfl⟩⟩

end tiled

/-! ## outcross shuffle -/
section outcross
variable {β : Type} [DecidableEq β]

/-- **The multiset of entries is preserved**: the returned table is a rearrangement of the given one,
    for every table shape, every content and every sequence of pair orders the generator produces. -/
theorem outcross_multiset (nrow ncol : Nat) (x y : List β) (orders : List (List (Nat × Nat)))
    (h : outcross nrow ncol x orders = .ok y) : y.Perm x := by
  obtain ⟨_, _, hc⟩ := (outcross_ok_iff nrow ncol x orders y).mp h
  exact (climb_ok (score nrow ncol) (fun a b => b.Perm a) (fun a => List.Perm.refl a)
    (fun a b c hab hbc => hbc.trans hab) (fun a i j _ => swap_perm a i j) orders x y hc).1

/-- **The number of repeated individuals (summed over the crosses) never increases.** -/
theorem outcross_score_antitone (nrow ncol : Nat) (x y : List β) (orders : List (List (Nat × Nat)))
    (h : outcross nrow ncol x orders = .ok y) : score nrow ncol y ≤ score nrow ncol x := by
  obtain ⟨_, _, hc⟩ := (outcross_ok_iff nrow ncol x orders y).mp h
  exact (climb_ok (score nrow ncol) (fun _ _ => True) (fun _ => trivial) (fun _ _ _ _ _ => trivial)
    (fun _ _ _ _ => trivial) orders x y hc).2.1

/-- **Within every single cross the number of repeated individuals never increases** (the search accepts
    an exchange only when the total drops, and such an exchange cannot raise the count of either row it
    touches). -/
theorem outcross_rows_antitone (nrow ncol : Nat) (x y : List β) (orders : List (List (Nat × Nat)))
    (h : outcross nrow ncol x orders = .ok y) (r : Nat) :
    dupCount (row ncol y r) ≤ dupCount (row ncol x r) := by
  obtain ⟨hx, _, hc⟩ := (outcross_ok_iff nrow ncol x orders y).mp h
  have := (climb_ok (score nrow ncol)
    (fun a b => a.length = nrow * ncol →
      (b.length = nrow * ncol ∧ ∀ r, dupCount (row ncol b r) ≤ dupCount (row ncol a r)))
    (fun a ha => ⟨ha, fun _ => le_refl _⟩)
    (fun a b c hab hbc ha => by
      obtain ⟨hb, h1⟩ := hab ha
      obtain ⟨hc, h2⟩ := hbc hb
      exact ⟨hc, fun r => le_trans (h2 r) (h1 r)⟩)
    (fun a i j hlt ha => ⟨by rw [(swap_perm a i j).length_eq]; exact ha,
      fun r => swap_rows_le nrow ncol a ha i j hlt r⟩) orders x y hc).1 hx
  exact this.2 r

/-- **It stops only at a local optimum**: in the returned table no exchange of two entries (any two
    positions, in either order, equal positions and positions outside the table included) lowers the
    number of repeated individuals. -/
theorem outcross_local_opt (nrow ncol : Nat) (x y : List β) (orders : List (List (Nat × Nat)))
    (h : outcross nrow ncol x orders = .ok y) (i j : Nat) :
    score nrow ncol y ≤ score nrow ncol (swap y i j) := by
  obtain ⟨_, hord, hc⟩ := (outcross_ok_iff nrow ncol x orders y).mp h
  obtain ⟨hperm, _, o, ho, hopt⟩ := climb_ok (score nrow ncol) (fun a b => b.Perm a) (fun a => List.Perm.refl a)
    (fun a b c hab hbc => hbc.trans hab) (fun a i j _ => swap_perm a i j) orders x y hc
  have hlen : y.length = x.length := hperm.length_eq
  have key : ∀ i j, i < j → score nrow ncol y ≤ score nrow ncol (swap y i j) := by
    intro i j hij
    by_cases hj : j < y.length
    · exact hopt (i, j) (isPairOrder_mem x.length o (hord o ho) i j hij (hlen ▸ hj))
    · rw [swap_of_not_lt y i j (fun hh => hj hh.2)]
  rcases Nat.lt_trichotomy i j with hij | hij | hij
  · exact key i j hij
  · subst hij; rw [swap_self]
  · rw [swap_comm]; exact key j i hij

/-- **Termination**: the search ends within `score + 1` passes over the pairs (each pass but the last
    lowers the score), so with that many pair orders supplied the model returns a table. -/
theorem outcross_terminates (nrow ncol : Nat) (x : List β) (orders : List (List (Nat × Nat)))
    (hx : x.length = nrow * ncol) (hord : ∀ o ∈ orders, isPairOrder x.length o = true)
    (hn : score nrow ncol x < orders.length) : ∃ y, outcross nrow ncol x orders = .ok y := by
  obtain ⟨y, hy⟩ := climb_terminates (score nrow ncol) orders x hn
  exact ⟨y, (outcross_ok_iff nrow ncol x orders y).mpr ⟨hx, hord, hy⟩⟩

/-- **The literal loop on a table of any memory layout is the functional form.**  `xconfig.flat` addresses the
    entries in C order wherever they lie in memory (`addr`: distinct in-range offsets into the underlying buffer — C or
    Fortran order, a column / row subset of a larger array, negative strides …).  The loop that exchanges **in place**,
    re-scores the table and exchanges **back** unless the score dropped (`outcrossBuf`) leaves in the table exactly what
    `outcross` computes from its logical content — so every theorem of this section holds for every layout — and it
    writes nowhere else: the buffer keeps its size and every element that does not belong to the table. -/
theorem outcross_literal_any_layout (nrow ncol : Nat) (buf : List β) (addr : List Nat)
    (orders : List (List (Nat × Nat))) (hlen : addr.length = nrow * ncol) (hnd : addr.Nodup)
    (hin : ∀ a ∈ addr, a < buf.length) :
    (outcrossBuf nrow ncol buf addr orders).map (fun b => gather b addr)
      = outcross nrow ncol (gather buf addr) orders ∧
    ∀ b', outcrossBuf nrow ncol buf addr orders = .ok b' →
      b'.length = buf.length ∧ ∀ c, c ∉ addr → b'[c]? = buf[c]? := by
  have hgl : (gather buf addr).length = addr.length := gather_length buf addr hin
  unfold outcrossBuf outcross
  rw [if_pos (⟨hlen, hnd, hin⟩ : addr.length = nrow * ncol ∧ addr.Nodup ∧ ∀ a ∈ addr, a < buf.length),
    hgl, if_pos hlen]
  by_cases ho : orders.all (isPairOrder addr.length) = true
  · rw [if_pos ho, if_pos ho]
    exact climbLit_spec (score nrow ncol) addr hnd orders buf _ hin
  · rw [if_neg ho, if_neg ho]
    exact ⟨rfl, fun b' hb' => by cases hb'⟩

/-- **D7e, before fix 5d3f529a.**  On a table that is not C-contiguous (Fortran order, a column slice, …)
    `xconfig.ravel()` was a copy: the table `[[1,1],[2,2]]` came back unchanged (2 repeated individuals) although
    exchanging flat positions 0 and 2 leaves none.  (After the fix `xconfig.flat` writes through: `outcross` and
    the theorems above hold for every layout — the layout no longer enters the model.) -/
theorem outcross_noncontiguous_prerepair_counterexample :
    outcrossPrerepair (β := Nat) false 2 2 [1, 1, 2, 2] [allPairs 4] = .ok [1, 1, 2, 2] ∧
    score (β := Nat) 2 2 (swap [1, 1, 2, 2] 0 2) < score (β := Nat) 2 2 [1, 1, 2, 2] ∧
    (outcross (β := Nat) 2 2 [1, 1, 2, 2] [allPairs 4, allPairs 4, allPairs 4]).toOption = some [2, 1, 1, 2] := by
  refine ⟨by rfl, by decide, by decide⟩

/-- **Why every pass must visit every pair** (`isPairOrder` in `outcross`; hypothesis of `outcross_local_opt`): a
    candidate list that is built once and leaves out the pairs of positions holding the same individual *at the start*
    (`[[1,1],[2,2],[2,2],[0,0]]`: 20 of the 28 pairs) is stale after the first accepted exchange.  With the 20 pairs in
    the order below the descent stops after three passes at `[[1,2],[0,1],[2,2],[2,0]]` (one repeated individual) although
    exchanging flat positions 2 and 4 — which held the same individual at the start — leaves none.  The model rejects
    such pair orders (`oracle: every pass …`), so a changed tree that prunes the list shows as a Spec failure on the
    implementation's table (`specOutcross … .improving ≠ []`), never as an accepted run. -/
theorem outcross_needs_every_pair_in_every_pass :
    let x : List Nat := [1, 1, 2, 2, 2, 2, 0, 0]
    let o : List (Nat × Nat) := [(1, 3), (0, 2), (2, 6), (0, 4), (4, 7), (2, 7), (1, 2), (5, 6), (5, 7), (0, 7), (3, 6),
      (0, 3), (1, 7), (0, 6), (1, 4), (1, 5), (0, 5), (3, 7), (4, 6), (1, 6)]
    (∀ q ∈ allPairs 8, (q ∈ o ↔ x[q.1]? ≠ x[q.2]?)) ∧
    climb (score 4 2) [o, o, o, o, o] x (score 4 2 x) = .ok [1, 2, 0, 1, 2, 2, 2, 0] ∧
    score 4 2 (swap [1, 2, 0, 1, 2, 2, 2, 0] 2 4) < score (β := Nat) 4 2 [1, 2, 0, 1, 2, 2, 2, 0] ∧
    (specOutcross 4 2 x [1, 2, 0, 1, 2, 2, 2, 0]).ok = false ∧
    (outcross 4 2 x [o, o, o, o, o]).toOption = none := by
  refine ⟨by decide +kernel, by decide +kernel, by decide +kernel, by decide +kernel, by decide +kernel⟩

/-- the model's output satisfies the outcross clause `OutcrossSpec`, i.e. passes the Spec oracle
    `c17.spec_outcross` (multiset, per-cross counts, no improving exchange left, total not increased) -/
theorem outcross_meets_spec {β : Type} [DecidableEq β] (nrow ncol : Nat) (x y : List β)
    (orders : List (List (Nat × Nat))) (h : outcross nrow ncol x orders = .ok y) :
    OutcrossSpec nrow ncol x y ∧ (specOutcross nrow ncol x y).ok = true := by
  have hspec : OutcrossSpec nrow ncol x y :=
    ⟨outcross_multiset nrow ncol x y orders h, fun r _ => outcross_rows_antitone nrow ncol x y orders h r,
     fun i j _ _ => outcross_local_opt nrow ncol x y orders h i j, outcross_score_antitone nrow ncol x y orders h⟩
  exact ⟨hspec, (specOutcross_iff _ _ _ _).mpr hspec⟩

/-- Spec oracle = statement -/
theorem outcross_spec_iff {β : Type} [DecidableEq β] (nrow ncol : Nat) (before after : List β) :
    (specOutcross nrow ncol before after).ok = true ↔ OutcrossSpec nrow ncol before after :=
  specOutcross_iff nrow ncol before after

end outcross

/-! ## axis shuffle -/
section axis
variable {β : Type} [Inhabited β]

/-- **The literal loop is the gather form**: the sequence of in-place shuffles
    `for s in sliceaxisix(a.shape, axis): rng.shuffle(a[s])` (`axisShuffleLoop`: each view rearranged along its
    axis 0, one view after the other, on the same flat storage) returns exactly what the closed form
    `axisShuffle` returns, for every shape, axis list, content and family of rearrangements. -/
theorem axis_shuffle_loop_eq_gather (shape axis : List Nat) (data : List β) (perms : List (List Nat)) :
    axisShuffleLoop shape axis data perms = axisShuffle shape axis data perms :=
  axisShuffleLoop_eq shape axis data perms

/-- within-slices claim for the literal loop, axes as the code reads them (non-negative entries) -/
theorem axis_loop_within_slices (shape axis : List Nat) (data out : List β) (perms : List (List Nat))
    (h : axisShuffleLoop shape axis data perms = .ok out) :
    out.length = data.length ∧
    ∀ key, (sliceVals shape axis out key).Perm (sliceVals shape axis data key) := by
  rw [axisShuffleLoop_eq] at h
  obtain ⟨hlen, _, hcase⟩ := (axisShuffle_ok_iff shape axis data perms out).mp h
  rcases hcase with ⟨_, _, rfl⟩ | ⟨f, hf, _, hperms, rfl⟩
  · exact ⟨rfl, fun _ => List.Perm.refl _⟩
  · refine ⟨by rw [List.length_map, allIdx_length, hlen], fun key => ?_⟩
    have hd := data_eq_map_ndVal shape data hlen
    conv_rhs => rw [hd]
    rw [sliceVals_map, sliceVals_map]
    have := (axisSrc_perm_slice shape axis perms f hf hperms key).map (ndVal shape data)
    rw [List.map_map] at this
    exact this

/-- **An axis shuffle permutes values only within the requested slices** — axes of either sign, a negative one
    counting from the last axis: for every shape, every axis list and every sequence of rearrangements the
    generator produces, the literal loop keeps the array's size and the values found in each requested slice
    (identified by its coordinates at the requested axes; every index tuple lies in exactly one) are a
    rearrangement of the values that were in that slice. -/
theorem axis_shuffle_within_slices (shape : List Nat) (axis : List Int) (data out : List β)
    (perms : List (List Nat)) (h : axisShuffleZ shape axis data perms = .ok out) :
    AxisSpec shape (axisReq shape.length axis) data out := by
  unfold axisShuffleZ at h
  obtain ⟨hl, hp⟩ := axis_loop_within_slices shape (axisReq shape.length axis) data out perms h
  exact ⟨hl, fun key _ => hp key⟩

/-- **D7f, before fix 5396d924.**  A negative axis was not normalised; `sliceaxisix` never matched it, so it was
    silently ignored: `axis_shuffle(a, -2)` on a 2×2 array (requested slices: the rows) shuffled the whole array
    along axis 0 — with the rearrangement `[1, 0]` the rows changed places and both requested slices held foreign
    values.  The code as it is now shuffles inside each row. -/
theorem axis_negative_axis_prerepair_counterexample :
    axisShuffleZPrerepair (β := Nat) [2, 2] [-2] [0, 1, 2, 3] [[1, 0]] = .ok [2, 3, 0, 1] ∧
    axisReq 2 [-2] = [0] ∧
    ¬ AxisSpec (β := Nat) [2, 2] (axisReq 2 [-2]) [0, 1, 2, 3] [2, 3, 0, 1] ∧
    (axisShuffleZ (β := Nat) [2, 2] [-2] [0, 1, 2, 3] [[1, 0], [0, 1]]).toOption = some [1, 0, 2, 3] := by
  refine ⟨by rfl, by decide, ?_, by decide⟩
  rw [← specAxis_iff]
  decide

/-- **The slice-index generator** (`sliceaxisix`, transcribed literally as `sliceTuples`): it yields exactly
    one index tuple per combination of coordinates at the iterated axes, in lexicographic order; every tuple
    has one entry per axis, `slice(None)` exactly at the axes that are not iterated, and in-range
    coordinates elsewhere.  (`sliceKeys`, used by the model and by the Spec oracle, is its closed form.) -/
theorem sliceaxisix_keys (shape axis : List Nat) :
    (sliceTuples axis 0 shape).map tupleKey = sliceKeys shape axis ∧
    ∀ t ∈ sliceTuples axis 0 shape, t.length = shape.length ∧
      ∀ e (he : e < t.length), (t[e] = none ↔ axis.contains e = false) ∧
        ∀ v, t[e] = some v → v < shape.getD e 0 := by
  refine ⟨sliceTuples_keys axis 0 shape, fun t ht => ?_⟩
  obtain ⟨hl, h⟩ := sliceTuples_shape axis 0 shape t ht
  refine ⟨hl, fun e he => ?_⟩
  have := h e he
  rwa [Nat.zero_add] at this

/-- **The generated index tuples enumerate exactly the slices**: every index tuple of the array lies in exactly
    one of the views `a[s]`, `s` ranging over `sliceaxisix(a.shape, axis)` — for every shape and every axis tuple
    (any order, duplicates, out-of-range entries; `axis_shuffle` hands over the normalised axes). -/
theorem sliceaxisix_partition (shape axis : List Nat) (m : List Nat) (hm : m ∈ allIdx shape) :
    ∃ t ∈ sliceTuples axis 0 shape, matchesT t m = true ∧
      ∀ t' ∈ sliceTuples axis 0 shape, matchesT t' m = true → t' = t :=
  sliceTuples_partition shape axis m hm

/-- Spec oracle = statement, for `sliceaxisix`; the literal recursion meets it; and the statement pins the output
    down: a list of tuples passes the oracle `c17.spec_slices` **iff** it is the list the recursion generates. -/
theorem slices_spec_iff (shape axis : List Nat) (tuples : List (List (Option Nat))) :
    (specSlices shape axis tuples = true ↔ SlicesSpec shape axis tuples) ∧
    (specSlices shape axis tuples = true ↔ tuples = sliceTuples axis 0 shape) := by
  refine ⟨specSlices_iff shape axis tuples, ?_⟩
  rw [specSlices_iff]
  exact ⟨slicesSpec_unique shape axis tuples, fun h => h ▸ sliceTuples_spec shape axis⟩

theorem slices_meets_spec (shape axis : List Nat) : specSlices shape axis (sliceTuples axis 0 shape) = true :=
  (specSlices_iff _ _ _).mpr (sliceTuples_spec shape axis)

/-- the model accepts every array with a free axis and every family of rearrangements of that axis,
    one per slice (what `rng.shuffle` delivers) -/
theorem axis_shuffle_defined (shape axis : List Nat) (data : List β) (perms : List (List Nat)) (f : Nat)
    (hlen : data.length = shape.prod) (hne : shape ≠ []) (hf : firstFree axis shape.length = some f)
    (hn : perms.length = (sliceKeys shape axis).length)
    (hp : ∀ q ∈ perms, isPerm q (shape.getD f 0) = true) :
    ∃ out, axisShuffleLoop shape axis data perms = .ok out := by
  rw [axisShuffleLoop_eq]
  exact ⟨_, (axisShuffle_ok_iff shape axis data perms _).mpr
    ⟨hlen, hne, Or.inr ⟨f, hf, hn, fun q hq => (isPerm_iff q _).mp (hp q hq), rfl⟩⟩⟩

/-- the model's output (axes of either sign) passes the Spec oracle `c17.spec_axis` -/
theorem axis_meets_spec {β : Type} [Inhabited β] [DecidableEq β] (shape : List Nat) (axis : List Int)
    (data out : List β) (perms : List (List Nat)) (h : axisShuffleZ shape axis data perms = .ok out) :
    specAxis shape (axisReq shape.length axis) data out = true :=
  (specAxis_iff _ _ _ _).mpr (axis_shuffle_within_slices shape axis data out perms h)

/-- Spec oracle = statement -/
theorem axis_spec_iff {β : Type} [DecidableEq β] (shape axis : List Nat) (before after : List β) :
    specAxis shape axis before after = true ↔ AxisSpec shape axis before after := specAxis_iff shape axis before after

end axis

/-! ### non-vacuity: concrete non-trivial inputs meet the hypotheses (evaluated by the kernel) -/

example : SusValid (α := ℚ) [3, 0, 2, 1] := ⟨by decide, by decide +kernel⟩
example : SusOracle (α := ℚ) [3, 0, 2, 1] [2, 3] [0, 2, 3, 1] (1/2) [5, 4, 3, 2, 1, 0] :=
  ⟨by decide, by decide +kernel, fun _ => ⟨by decide +kernel, by decide +kernel⟩, by decide⟩
example : (susDraws (α := ℚ) [3, 0, 2, 1] [2, 3] [0, 2, 3, 1] (1/2) [5, 4, 3, 2, 1, 0]).toOption
    = some [3, 2, 2, 0, 0, 0] := by decide +kernel
example : (sus (α := ℚ) [10, 11, 12, 13] [3, 0, 2, 1] [2, 3] [0, 2, 3, 1] (1/2) [5, 4, 3, 2, 1, 0]).toOption
    = some [13, 12, 12, 10, 10, 10] := by decide +kernel
-- hypotheses of `sus_offset_zero_family_prerepair_counterexample` on p = (1,1,1), 3 draws
example : (([1, 1, 1] : List ℚ).getD ([2, 1, 0] : List Nat)[0] 0 < Np.sum ([1, 1, 1] : List ℚ)) ∧
    ((3 : Nat) : ℚ) * ([1, 1, 1] : List ℚ).getD ([2, 1, 0] : List Nat)[0] 0 / Np.sum ([1, 1, 1] : List ℚ)
      = ((1 : ℤ) : ℚ) := by
  constructor <;> decide +kernel
-- offset exactly 0 (the D7a witnesses): before the fix (4,2,0) / (2,1,0) wrong, now one draw per expected unit
example : (susIdxPrerepair (α := ℚ) [3, 2, 1] 6 [0, 1, 2] 0).toOption = some [0, 0, 0, 0, 1, 1] := by decide +kernel
example : (susIdx (α := ℚ) [3, 2, 1] 6 [0, 1, 2] 0).toOption = some [0, 0, 0, 1, 1, 2] := by decide +kernel
example : (susIdx (α := ℚ) [1, 1, 1] 3 [2, 1, 0] 0).toOption = some [2, 1, 0] := by decide +kernel
example : SusValid (α := ℚ) [1, 1, 1] ∧ SusOracle (α := ℚ) [1, 1, 1] [3] [2, 1, 0] 0 [0, 1, 2] :=
  ⟨⟨by decide, by decide +kernel⟩,
   ⟨by decide, by decide +kernel, fun _ => ⟨by decide +kernel, by decide +kernel⟩, by decide⟩⟩
-- the empty request: hypotheses of `sus_returns_requested_number` with prod(size) = 0, and the model's answer
example : SusOracle (α := ℚ) [1, 2] [2, 0] [1, 0] 0 [] := ⟨by decide, by decide +kernel, fun h => absurd h (by decide), by decide⟩
example : (susDraws (α := ℚ) [1, 2] [2, 0] [1, 0] 0 []).toOption = some [] := by decide +kernel
-- a pointer exactly on a boundary with an interior offset (ties are covered by the partial theorem)
example : (susDraws (α := ℚ) [1, 1, 1, 1] [8] [3, 2, 1, 0] (1/4) [0, 1, 2, 3, 4, 5, 6, 7]).toOption
    = some [3, 3, 2, 2, 1, 1, 0, 0] := by decide +kernel

-- hypotheses of `sus_floor_ceil_rounded_partial` for p = (3,2,1), 6 draws, offset 1/2, ε = 1/8: no pointer within 1/4 of
-- the interior boundaries 3 and 5
example : ∀ r < (([3, 2, 1] : List ℚ).filter (fun x => decide (0 < x) || decide (x < 0))).length - 1, r < 3 →
    ∀ j : ℕ, j < 6 → 2 * (1/8 : ℚ) < |((1/2 : ℚ) + (j : ℚ) * (Np.sum ([3, 2, 1] : List ℚ) / ((6 : Nat) : ℚ)))
      - (Np.cumsum (([0, 1, 2] : List Nat).map (fun i => ([3, 2, 1] : List ℚ).getD i 0))).getD r 0| := by
  decide +kernel
-- hypotheses of `sus_floor_ceil_binary64_partial` for the same call with u = γ = 2^-10 (any rounding that coarse or finer, e.g. the
-- identity): ε = max((1+u)^3 - 1, (1+u)^3 (1+γ) - 1)·6 < 1/40, every pointer is 1/2 away from the boundaries 3 and 5
example : ∀ r < (([3, 2, 1] : List ℚ).filter (fun x => decide (0 < x) || decide (x < 0))).length - 1, r < 3 →
    ∀ j : ℕ, j < 6 → 2 * ((max ((1 + (1/1024 : ℚ)) ^ ([3, 2, 1] : List ℚ).length - 1)
        ((1 + (1/1024 : ℚ)) ^ 3 * (1 + 1/1024) - 1)) * Np.sum ([3, 2, 1] : List ℚ))
      < |((1/2 : ℚ) + (j : ℚ) * (Np.sum ([3, 2, 1] : List ℚ) / ((6 : Nat) : ℚ)))
      - (Np.cumsum (([0, 1, 2] : List Nat).map (fun i => ([3, 2, 1] : List ℚ).getD i 0))).getD r 0| := by
  decide +kernel
example : ∀ x : ℚ, |id x - x| ≤ (1/1024 : ℚ) * |x| := fun x => by simp [abs_nonneg]
example : (axisShuffleLoop (β := Nat) [2, 3] [1] [0, 1, 2, 3, 4, 5] [[1, 0], [0, 1], [1, 0]]).toOption
    = some [3, 1, 5, 0, 4, 2] := by decide
example : (tiledIdx 3 7 false [1] [6, 5, 4, 3, 2, 1, 0]).toOption = some [1, 2, 1, 0, 2, 1, 0] := by decide
example : (tiledChoice [5, 6, 7] [7] false [1] [6, 5, 4, 3, 2, 1, 0]).toOption = some [6, 7, 6, 5, 7, 6, 5] := by decide

example : (tiledAddon 3 7 [[2, 0, 1], [1, 0, 2], [1]]).toOption = some [2, 0, 1, 1, 0, 2, 1] := by decide
example : isDistinctDraw 3 3 [2, 0, 1] = true ∧ isDistinctDraw 3 (7 % 3) [1] = true := by decide

example : (outcross (β := Nat) 3 2 [1, 1, 2, 2, 3, 4] [allPairs 6, allPairs 6, allPairs 6]).toOption
    = some [2, 1, 1, 2, 3, 4] := by decide
example : score (β := Nat) 3 2 [1, 1, 2, 2, 3, 4] = 2 ∧ score (β := Nat) 3 2 [2, 1, 1, 2, 3, 4] = 0 := by decide
example : isPairOrder 6 (allPairs 6) = true := by decide
-- the table [[1,1],[2,2]] in Fortran order (buffer 1,2,1,2; C-order positions at offsets 0,2,1,3) and as the two
-- leading columns of a 2x3 array padded with 7 (offsets 0,1,3,4): same logical result, padding untouched
example : gather (β := Nat) [1, 2, 1, 2] [0, 2, 1, 3] = [1, 1, 2, 2] := by decide
example : (outcrossBuf (β := Nat) 2 2 [1, 2, 1, 2] [0, 2, 1, 3] [allPairs 4, allPairs 4, allPairs 4]).toOption
    = some [2, 1, 1, 2] := by decide
example : (outcrossBuf (β := Nat) 2 2 [1, 1, 7, 2, 2, 7] [0, 1, 3, 4] [allPairs 4, allPairs 4, allPairs 4]).toOption
    = some [2, 1, 7, 1, 2, 7] := by decide
example : (tiledLoopIdx 3 7 [1] [6, 5, 4, 3, 2, 1, 0] [9, 9, 9, 9, 9, 9, 9]).toOption = some [1, 2, 1, 0, 2, 1, 0] := by
  decide

example : (axisShuffle (β := Nat) [2, 3] [0] [0, 1, 2, 3, 4, 5] [[2, 0, 1], [0, 2, 1]]).toOption
    = some [2, 0, 1, 3, 5, 4] := by decide
example : (axisShuffle (β := Nat) [2, 3] [1] [0, 1, 2, 3, 4, 5] [[1, 0], [0, 1], [1, 0]]).toOption
    = some [3, 1, 5, 0, 4, 2] := by decide
example : sliceKeys [2, 3] [1] = [[0], [1], [2]] ∧ firstFree [1] 2 = some 0 := by decide
example : sliceTuples [0, 2] 0 [2, 3, 2] = [[some 0, none, some 0], [some 0, none, some 1],
    [some 1, none, some 0], [some 1, none, some 1]] := by decide
example : sliceVals (β := Nat) [2, 3] [1] [3, 1, 5, 0, 4, 2] [2] = [5, 2] := by decide
example : [1, 2, 1] ∈ allIdx [2, 3, 2] ∧ matchesT [some 1, none, some 1] [1, 2, 1] = true := by decide
example : specSlices [2, 3, 2] [2, 0] [[some 0, none, some 0], [some 0, none, some 1],
    [some 1, none, some 0], [some 1, none, some 1]] = true := by decide

end C17
