/-
C02 — realised recombination and segregation match the crossover probabilities.
Property theorems only (helper lemmas: Lemmas/RecombLoop, RecombLaw, RecombMap, RecombLLN, RecombSpec,
RecombWiring, RecombKosambi, RecombTV, (round 3) RecombSpecObs, RecombDense, RecombSelf, RecombGMap and (round 4) RecombGenN; section F
imports C01's Model/Meiosis, Model/Mating and its Lemmas/Mating*; section C' imports C11's Lemmas/GMapSeq).

Model: PybropsModel/Model/Recomb.lean.
  * `meiosisRow` / `matMeiosis` transcribe mat_meiosis (= dense_meiosis): one uniform draw per gamete
    and marker, compared with `<` against `xoprob`; the copy in use toggles at every hit.
  * `E xs F` is the expectation of `F(mask)` when the crossover indicators are independent
    Bernoulli(xs_k); `Edraw pts xs F` is the expectation one level lower, over the draws themselves
    (each draw equally likely on the finite value set `pts`, independent per marker).
  * `rprob1g` is the assignment of crossover probabilities from a genetic map.

What is proved here is a statement about the push-forward of the product measure on the draws
through the deterministic model.  "numpy's generator delivers independent draws, uniform on the grid
k/2^53" is the trusted part (harness: statistical support at fixed seeds).
-/
import PybropsModel.Lemmas.RecombMap
import PybropsModel.Lemmas.RecombLLN
import PybropsModel.Lemmas.RecombSpec
import PybropsModel.Lemmas.RecombWiring
import PybropsModel.Lemmas.RecombKosambi
import PybropsModel.Lemmas.RecombTV
import PybropsModel.Lemmas.RecombSpecObs
import PybropsModel.Lemmas.RecombDense
import PybropsModel.Lemmas.RecombSelf
import PybropsModel.Lemmas.RecombGMap
import PybropsModel.Lemmas.RecombGenN
import PybropsModel.Lemmas.RecombStarts
import PybropsModel.Lemmas.RecombShare
set_option autoImplicit false
set_option linter.unusedSectionVars false

namespace C02
open Recomb

/-! ## A. what one call of `mat_meiosis` computes -/
section code
variable {α : Type} {β : Type} [LT β] [DecidableLT β]

/-- **The loop is the mosaic.**  Cell j of a gamete is the cell of parental copy 1 exactly when an odd
    number of the gamete's own draws `r_0 … r_j` fell strictly below the stored probabilities
    `xo_0 … xo_j`, and of copy 0 otherwise — for every chromosome length and every draw vector. -/
theorem gamete_cell (h0 h1 : List α) (r xo : List β)
    (e0 : h0.length = xo.length) (e1 : h1.length = xo.length) (er : r.length = xo.length)
    (j : Nat) (hj : j < xo.length) :
    (meiosisRow h0 h1 r xo)[j]? =
      some (if xorAll ((xoMask r xo).take (j + 1)) then h1[j] else h0[j]) := by
  rw [meiosisRow_eq_mosaic h0 h1 r xo e0 e1 er]
  have hm := xoMask_length r xo er
  have hp : (phases (xoMask r xo)).length = xo.length := by
    unfold phases; rw [phasesFrom_length, hm]
  have hl : (mosaic (phases (xoMask r xo)) h0 h1).length = xo.length := by
    rw [mosaic_length _ _ _ (by omega) (by omega), hp]
  rw [List.getElem?_eq_getElem (by omega), mosaic_getElem _ _ _ _ (by omega) (by omega) (by omega) (by omega)]
  have : (phases (xoMask r xo))[j]'(by omega) = xorAll ((xoMask r xo).take (j + 1)) := by
    unfold phases
    rw [phasesFrom_getElem]; simp
  rw [this]

/-- the copy switches between markers j and j+1 exactly when draw j+1 is below `xo[j+1]`
    (strict comparison: a tie `r = xo` is not a crossover), and the gamete starts on copy 1 exactly
    when draw 0 is below `xo[0]` -/
theorem phase_switch_iff (r xo : List β) (er : r.length = xo.length) (j : Nat) (hj : j + 1 < xo.length) :
    (xorAll ((xoMask r xo).take (j + 2)) != xorAll ((xoMask r xo).take (j + 1))) =
      decide (r[j + 1] < xo[j + 1]) := by
  have hm := xoMask_length r xo er
  have : (xoMask r xo).take (j + 2) = (xoMask r xo).take (j + 1) ++ [(xoMask r xo)[j + 1]] := by
    rw [List.take_succ_eq_append_getElem (by omega)]
  rw [this, xorAll_append, xoMask_getElem r xo (j + 1) (by omega) (by omega) hj]
  cases xorAll ((xoMask r xo).take (j + 1)) <;> simp [xorAll]

/-- the gamete starts on copy 1 exactly when draw 0 is below `xo[0]` -/
theorem phase_start_iff (r xo : List β) (er : r.length = xo.length) (h0 : 0 < xo.length) :
    xorAll ((xoMask r xo).take 1) = decide (r[0] < xo[0]) := by
  have hm := xoMask_length r xo er
  have : (xoMask r xo).take (0 + 1) = (xoMask r xo).take 0 ++ [(xoMask r xo)[0]] := by
    rw [List.take_succ_eq_append_getElem (by omega)]
  rw [show (1 : Nat) = 0 + 1 from rfl, this, xoMask_getElem r xo 0 (by omega) (by omega) h0]
  simp [xorAll]

/-- **Every row of `mat_meiosis`.**  Whenever the call succeeds, gamete i is the mosaic of the two
    chromosome copies of individual `sel[i]` along the phases of row i of the single draw matrix,
    compared with `xoprob` — for every number of gametes, markers and taxa. -/
theorem mat_meiosis_mosaic (g0 g1 : List (List α)) (rest : List (List (List α))) (sel : List Nat) (xo : List β)
    (rnd : List (List β)) (out : List (List α))
    (h : matMeiosis (g0 :: g1 :: rest) sel xo rnd = .ok out) :
    out.length = sel.length ∧ rnd.length = sel.length ∧
    ∀ i (hi : i < sel.length), ∃ h0 h1 r, g0[sel[i]]? = some h0 ∧ g1[sel[i]]? = some h1 ∧ rnd[i]? = some r ∧
      h0.length = xo.length ∧ h1.length = xo.length ∧ r.length = xo.length ∧
      out[i]? = some (mosaic (phases (xoMask r xo)) h0 h1) := by
  unfold matMeiosis at h
  simp only at h
  split at h
  · cases h
  · rename_i hlen
    have hlen : rnd.length = sel.length := by simpa using hlen
    obtain ⟨h1, h2⟩ := mapM_except_ok _ _ _ h
    have hz : (List.zip sel rnd).length = sel.length := by simp [hlen]
    refine ⟨by omega, hlen, ?_⟩
    intro i hi
    have := h2 i (by omega) (by omega)
    simp only [List.getElem_zip] at this
    split at this
    · rename_i h0 h1' e0 e1
      split at this
      · cases this
      · split at this
        · cases this
        · rename_i c1 c2
          simp only [bne_iff_ne, ne_eq, Bool.or_eq_true, not_or, Decidable.not_not] at c1 c2
          refine ⟨h0, h1', rnd[i], e0, e1, by simp, c1.1, c1.2, c2, ?_⟩
          rw [List.getElem?_eq_getElem (by omega)]
          simp only [Except.ok.injEq] at this
          rw [← this, meiosisRow_eq_mosaic h0 h1' rnd[i] xo c1.1 c1.2 c2]
    · cases this

example : matMeiosis [[[10, 11, 12], [30, 31, 32]], [[20, 21, 22], [40, 41, 42]]] [1, 0]
    [(1:Rat)/2, 1/4, 1/2] [[1/4, 1/4, 3/4], [3/4, 1/8, 1/4]] = .ok [[40, 41, 42], [10, 21, 12]] := by
  decide +kernel

example : meiosisRow [10, 11, 12, 13] [20, 21, 22, 23] [(1:Rat)/2, 0, 1/4, 1/4] [(1:Rat)/2, 0, 1/2, 1/4]
    = [10, 11, 22, 23] := by decide +kernel

/-- `mat_mate`: the female and the male gametes are two independent calls of `mat_meiosis`, each with
    its own draw matrix; `mat_dh`: one call, the gamete doubled -/
theorem mat_mate_gametes (fgeno mgeno : List (List (List α))) (fsel msel : List Nat) (xo : List β)
    (rndF rndM : List (List β)) (out : List (List (List α)))
    (h : matMate fgeno mgeno fsel msel xo rndF rndM = .ok out) :
    ∃ f m, matMeiosis fgeno fsel xo rndF = .ok f ∧ matMeiosis mgeno msel xo rndM = .ok m ∧ out = [f, m] := by
  unfold matMate at h
  cases hf : matMeiosis fgeno fsel xo rndF with
  | error e => rw [hf] at h; cases h
  | ok f =>
    cases hm : matMeiosis mgeno msel xo rndM with
    | error e => rw [hf, hm] at h; cases h
    | ok m =>
      rw [hf, hm] at h
      cases h
      exact ⟨f, m, rfl, rfl, rfl⟩

theorem mat_dh_gametes (geno : List (List (List α))) (sel : List Nat) (xo : List β)
    (rnd : List (List β)) (out : List (List (List α))) (h : matDH geno sel xo rnd = .ok out) :
    ∃ g, matMeiosis geno sel xo rnd = .ok g ∧ out = [g, g] := by
  unfold matDH at h
  cases hg : matMeiosis geno sel xo rnd with
  | error e => rw [hg] at h; cases h
  | ok g =>
    rw [hg] at h
    cases h
    exact ⟨g, rfl, rfl⟩

end code

/-! ## A''. the second copy of the code (core/util/mate.py) and its use by the EMBV matrix -/
section twin
variable {α : Type} {β : Type} [LT β] [DecidableLT β]

/-- **One function, two files.**  `dense_meiosis` / `dense_dh` / `dense_cross` (transcribed on their own, with
    the integer `phase = 1 - phase` of the source) compute exactly what `mat_meiosis` / `mat_dh` / `mat_mate`
    compute, for every input; every theorem of this file about the latter therefore holds of the former. -/
theorem dense_twin_same_function (geno mgeno : List (List (List α))) (sel msel : List Nat) (xo : List β)
    (rnd rndM : List (List β)) :
    denseMeiosis geno sel xo rnd = matMeiosis geno sel xo rnd ∧
    denseDH geno sel xo rnd = matDH geno sel xo rnd ∧
    denseCross geno mgeno sel msel xo rnd rndM = matMate geno mgeno sel msel xo rnd rndM :=
  ⟨denseMeiosis_eq_matMeiosis _ _ _ _, denseDH_eq_matDH _ _ _ _, denseCross_eq_matMate _ _ _ _ _ _ _⟩

/-- the literal loop with the integer phase is the loop with the Boolean phase -/
theorem dense_loop_eq_segLoop (h0 h1 : List α) (r xo : List β) :
    denseRow h0 h1 r xo = meiosisRow h0 h1 r xo :=
  denseRow_eq_meiosisRow h0 h1 r xo

/-- **The doubled haploids of `from_gmod`.**  Whenever the loop over taxa and replicates succeeds on the
    recorded draw matrices, it consumed exactly one matrix per (taxon, replicate) — as many as `embvCalls`
    lists — and the k-th doubled-haploid family is `[g, g]` with `g` the single meiosis (`matMeiosis`, hence
    `mat_meiosis_mosaic`) of `numpy.repeat(i, nprogeny[i])` on the k-th draw matrix: every replicate of every
    taxon is an independent instance of the one-meiosis law, for all taxon counts and count vectors. -/
theorem embv_doubled_haploids (geno : List (List (List α))) (xo : List β) (nprogeny nrep : List Nat)
    (draws : List (List (List β))) (ms : List (List (List (List α))))
    (h : embvDH geno xo nprogeny nrep draws = .ok ms) :
    nprogeny.length = nrep.length ∧ draws.length = (embvCalls nprogeny nrep).length ∧
    List.Forall₂ (IsDH geno xo) (List.zip (embvSels 0 nprogeny nrep) draws) ms := by
  unfold embvDH at h
  simp only [bind, Except.bind] at h
  cases hf : embvFrom geno xo 0 nprogeny nrep draws with
  | error e => simp [hf] at h
  | ok res =>
    obtain ⟨ms1, rest⟩ := res
    simp only [hf] at h
    split at h
    · rename_i he
      simp only [pure, Except.pure, Except.ok.injEq] at h
      subst h
      obtain ⟨f1, f2, f3, f4⟩ := embvFrom_spec geno xo nprogeny nrep 0 draws ms1 rest hf
      have hr : rest = [] := by simpa using he
      rw [hr] at f3
      have : draws.length ≤ (embvSels 0 nprogeny nrep).length := by
        have := congrArg List.length f3
        simp only [List.length_nil, List.length_drop] at this
        omega
      refine ⟨f1, ?_, f4⟩
      rw [← embvSels_length 0 nprogeny nrep f1]
      omega
    · cases h

example : embvDH [[[10, 11], [30, 31]], [[20, 21], [40, 41]]] [(1:Rat)/2, 1/4] [2, 1] [1, 2]
    [[[1/4, 1/2], [3/4, 1/8]], [[3/4, 3/4]], [[1/4, 0]]] =
    .ok [[[[20, 21], [10, 21]], [[20, 21], [10, 21]]], [[[30, 31]], [[30, 31]]], [[[40, 31]], [[40, 31]]]] := by
  decide +kernel
example : embvSels 0 [2, 1] [1, 2] = [[0, 0], [1], [1]] := by decide

end twin

/-! ## A'. the Spec oracle that is evaluated on the implementation's gametes -/
section spec
variable {β : Type} [LinearOrder β] [Zero β]

/-- **The Spec accepts the model** (so a run of code that behaves like the model can never be flagged):
    the copy sequence computed by the model from the draws satisfies `specRow`, ties included. -/
theorem spec_accepts_model (r xo : List β) (er : r.length = xo.length) :
    specRow (phases (xoMask r xo)) r xo = true := by
  unfold specRow phases
  rw [toggles_phasesFrom, phasesFrom_length, xoMask_length r xo er, all_specCell_model]
  simp [er]

/-- **… and nothing else, away from ties.**  When no draw equals its stored probability, an observed
    copy sequence passes the Spec exactly when it is the model's: the copy switches at marker j iff
    `r_j < xo_j`, starting from copy 0.

    FULL STATEMENT (false by design, see `spec_iff_model_counterexample`: at an exact tie `r = x` with
    `x > 0` — an event of probability zero — the Spec accepts both outcomes and leaves the strict `<` to the
    correspondence check; the exact characterisation with NO hypothesis on ties is `spec_iff_model` below):
      ∀ lab r xo, r.length = xo.length → (specRow lab r xo = true ↔ lab = phases (xoMask r xo)) -/
theorem spec_iff_model_partial (lab : List Bool) (r xo : List β) (er : r.length = xo.length)
    (hne : ∀ j (h1 : j < r.length) (h2 : j < xo.length), r[j] ≠ xo[j]) :
    specRow lab r xo = true ↔ lab = phases (xoMask r xo) := by
  constructor
  · intro h
    unfold specRow at h
    simp only [Bool.and_eq_true, beq_iff_eq] at h
    obtain ⟨⟨hl, _⟩, hall⟩ := h
    have := all_specCell_no_tie (toggles false lab) r xo (by rw [toggles_length, hl]) er hne hall
    unfold phases
    rw [← this, phasesFrom_toggles]
  · rintro rfl
    exact spec_accepts_model r xo er

theorem spec_iff_model_counterexample :
    specRow [true] [(1:Rat)/2] [(1:Rat)/2] = true ∧ [true] ≠ phases (xoMask [(1:Rat)/2] [(1:Rat)/2]) := by
  decide +kernel

example : ∀ j (h1 : j < [(1:Rat)/4, 3/4].length) (h2 : j < [(1:Rat)/2, 1/2].length),
    [(1:Rat)/4, 3/4][j] ≠ [(1:Rat)/2, 1/2][j] := by decide +kernel
example : specRow [false, false, true, true] [(1:Rat)/2, 0, 1/4, 1/4] [(1:Rat)/2, 0, 1/2, 1/4] = true := by
  decide +kernel
-- a crossover at a tie with stored probability 0 is rejected
example : specRow [true] [(0:Rat)] [(0:Rat)] = false := by decide +kernel

/-- **Exact characterisation of `specRow`, ties included** (the corrected full statement behind
    `spec_iff_model_partial`): an observed copy sequence passes iff it is the copy sequence of a crossover mask
    that agrees with the comparisons `r_j < xo_j` everywhere except, possibly, at exact ties `r_j = xo_j` with
    `xo_j ≠ 0`.  The discrepancy between "passes the Spec" and "is the model's output" is exactly the freedom at
    those ties (probability `≤ m·2^-53` under numpy's draws, by `draws_pushforward_tv`). -/
theorem spec_iff_model (lab : List Bool) (r xo : List β) :
    specRow lab r xo = true ↔ ∃ m, maskOK r xo m ∧ lab = phases m := by
  have h0 : specRow lab r xo = specObsFrom (single false) (lab.map some) r xo :=
    (specObsFrom_all_observed lab r xo false).symm
  rw [h0, specObsFrom_iff]
  constructor
  · rintro ⟨ph, m, hm, h1, h2⟩
    have : ph = false := by cases ph <;> simp_all [memC, single]
    subst this
    exact ⟨m, h1, (obsOK_map_some _ _).mp h2⟩
  · rintro ⟨m, h1, rfl⟩
    exact ⟨false, m, rfl, h1, (obsOK_map_some _ _).mpr rfl⟩

/-- **Partly observable provenance: the oracle accepts the model**, whatever the heterozygosity pattern of the
    parent (`het[j]` = the two copies differ at marker j), exact ties included — a run of code that behaves
    like the model on a partly inbred parent can never be flagged. -/
theorem spec_obs_accepts_model (het : List Bool) (r xo : List β) (eh : het.length = xo.length)
    (er : r.length = xo.length) :
    specRowObs (seen het (phases (xoMask r xo))) r xo = true :=
  specObsFrom_accepts xo r het (true, false) false rfl eh er

/-- **… and exactly what it accepts** (no hypothesis on ties): a partly observed copy sequence passes iff
    some crossover mask admissible for the draws (equal to the comparisons off positive ties) produces a copy
    sequence that shows every observed copy. -/
theorem spec_obs_iff (obs : List (Option Bool)) (r xo : List β) :
    specRowObs obs r xo = true ↔ ∃ m, maskOK r xo m ∧ obsOK obs (phases m) := by
  unfold specRowObs
  rw [specObsFrom_iff]
  constructor
  · rintro ⟨ph, m, hm, h1, h2⟩
    have : ph = false := by cases ph <;> simp_all [memC]
    subst this
    exact ⟨m, h1, h2⟩
  · rintro ⟨m, h1, h2⟩
    exact ⟨false, m, rfl, h1, h2⟩

/-- away from positive ties the admissible mask is the model's, so the oracle demands exactly: every
    observed copy is the copy the model computes from the draws.

    FULL STATEMENT (false by design at exact ties `r = x` with `x ≠ 0`, as for `specRow`:
    `spec_iff_model_counterexample` is the all-observed instance; the exact version without hypothesis is
    `spec_obs_iff`):
      ∀ obs r xo, r.length = xo.length → (specRowObs obs r xo = true ↔ obsOK obs (phases (xoMask r xo))) -/
theorem spec_obs_iff_model_partial (obs : List (Option Bool)) (r xo : List β) (er : r.length = xo.length)
    (hne : ∀ p ∈ r.zip xo, p.1 = p.2 → p.2 = 0) :
    specRowObs obs r xo = true ↔ obsOK obs (phases (xoMask r xo)) := by
  rw [spec_obs_iff]
  constructor
  · rintro ⟨m, h1, h2⟩
    rwa [maskOK_unique r xo m hne h1] at h2
  · intro h
    exact ⟨_, maskOK_xoMask r xo er, h⟩

/-- **The whole oracle is sound on the model's gametes.**  For any parent — fully heterozygous, partly or fully
    inbred — reading the provenance off the gamete the model computes (`observeRow`, the function the driver
    op `c02.spec_meiosis` applies to the implementation's gametes) succeeds, and what is read passes
    `specRowObs` against the same draws: code that computes what the model computes is never flagged. -/
theorem spec_meiosis_sound {γ : Type} [BEq γ] [LawfulBEq γ] (h0 h1 : List γ) (r xo : List β)
    (e0 : h0.length = xo.length) (e1 : h1.length = xo.length) (er : r.length = xo.length) :
    ∃ obs, observeRow h0 h1 (meiosisRow h0 h1 r xo) = some obs ∧ specRowObs obs r xo = true := by
  have hp : (phases (xoMask r xo)).length = xo.length := by
    unfold phases; rw [phasesFrom_length, xoMask_length r xo er]
  refine ⟨seen (hetMask h0 h1) (phases (xoMask r xo)), ?_, ?_⟩
  · rw [meiosisRow_eq_mosaic h0 h1 r xo e0 e1 er]
    exact observeRow_mosaic _ h0 h1 (by omega) (by omega)
  · exact spec_obs_accepts_model (hetMask h0 h1) r xo (by rw [hetMask_length h0 h1 (by omega), e0]) er

example : observeRow [10, 11, 12, 13] [20, 11, 12, 23] (meiosisRow [10, 11, 12, 13] [20, 11, 12, 23]
    [(3:Rat)/4, 0, 3/4, 3/4] [(1:Rat)/2, 1/4, 1/4, 1/4]) = some [some false, none, none, some true] := by
  decide +kernel

/-- with every marker observed (a fully heterozygous parent) it is the cell-by-cell oracle -/
theorem spec_obs_all_observed (lab : List Bool) (r xo : List β) :
    specRowObs (lab.map some) r xo = specRow lab r xo :=
  specObsFrom_all_observed lab r xo false

-- a parent homozygous at markers 1 and 2: the crossover drawn AT marker 1 is invisible there, but the copy seen
-- at marker 3 must reflect it
example : specRowObs [some false, none, none, some true] [(3:Rat)/4, 0, 3/4, 3/4] [(1:Rat)/2, 1/4, 1/4, 1/4] = true := by
  decide +kernel
example : specRowObs [some false, none, none, some false] [(3:Rat)/4, 0, 3/4, 3/4] [(1:Rat)/2, 1/4, 1/4, 1/4] = false := by
  decide +kernel
example : seen [true, false, false, true] [false, true, true, true] = [some false, none, none, some true] := by decide
example : ∀ p ∈ [(3:Rat)/4, 0].zip [(1:Rat)/2, 0], p.1 = p.2 → p.2 = 0 := by decide +kernel

end spec

/-! ## B. the law of the realised recombinations under independent crossover indicators -/
section law
variable {α : Type} [Field α] [CharZero α]

/-- **Pairwise recombination frequency.**  For any crossover-probability vector and any two markers
    i < j, the probability that the gamete carries different parental copies at i and j is
    `(1 - Π_{i<k≤j} (1 - 2 x_k)) / 2`. -/
theorem recomb_pair (xs : List α) (i j : Nat) (hij : i < j) (hj : j < xs.length) :
    E xs (fun b => ind ((phases b).getD i false != (phases b).getD j false)) = pairProb xs i j := by
  have h1 : E xs (fun b => ind ((phases b).getD i false != (phases b).getD j false)) =
      E xs (fun b => (ind (xorAll ((b.drop (i + 1)).take (j - i))) : α)) := by
    apply E_congr
    intro b hb
    rw [phase_eq b i (by omega), phase_eq b j (by omega), phase_pair_eq b i j hij]
    cases xorAll (b.take (i + 1)) <;> cases xorAll ((b.drop (i + 1)).take (j - i)) <;> rfl
  rw [h1]
  have h2 := E_drop (i + 1) xs (fun t => (ind (xorAll (t.take (j - i))) : α))
  have h3 := E_take (j - i) (xs.drop (i + 1)) (fun u => (ind (xorAll u) : α))
  exact h2.trans (h3.trans (E_xorAll _))

/-- **Adjacent markers.**  The proportion of gametes in which markers j-1 and j come from different
    parental copies is the crossover probability stored for marker j. -/
theorem recomb_adjacent (xs : List α) (j : Nat) (hj0 : 0 < j) (hj : j < xs.length) :
    E xs (fun b => ind ((phases b).getD (j - 1) false != (phases b).getD j false)) = xs[j] := by
  rw [recomb_pair xs (j - 1) j (by omega) hj]
  unfold pairProb
  have e1 : j - 1 + 1 = j := by omega
  have e2 : j - (j - 1) = 1 := by omega
  rw [e1, e2, List.drop_eq_getElem_cons hj, List.take_succ_cons, List.take_zero, oddProb_singleton]

/-- **Law of the copy transmitted at a marker.**  `P(copy 1 at j) = (1 - Π_{k≤j} (1 - 2 x_k)) / 2`. -/
theorem phase_law (xs : List α) (j : Nat) (hj : j < xs.length) (a : Bool) :
    E xs (fun b => ind ((phases b).getD j false == a)) =
      if a then phaseProb xs j else 1 - phaseProb xs j := by
  have h1 : E xs (fun b => ind ((phases b).getD j false == a)) =
      E xs (fun b => (ind (xorAll (b.take (j + 1)) == a) : α)) := by
    apply E_congr
    intro b hb
    rw [phase_eq b j (by omega)]
  rw [h1]
  have h2 := E_take (j + 1) xs (fun u => (ind (xorAll u == a) : α))
  exact h2.trans (E_xorAll_eq _ a)

/-- **Segregation.**  If some marker k ≤ j carries crossover probability 1/2 (the first marker of a
    chromosome, as assigned from a genetic map), each of the two parental copies is transmitted at
    marker j with probability exactly 1/2. -/
theorem segregation_half (xs : List α) (k j : Nat) (hkj : k ≤ j) (hj : j < xs.length)
    (hk : xs[k] = 1 / 2) (a : Bool) :
    E xs (fun b => ind ((phases b).getD j false == a)) = 1 / 2 := by
  rw [phase_law xs j hj a]
  have hmem : (1 / 2 : α) ∈ xs.take (j + 1) := by
    rw [← hk, List.mem_iff_getElem]
    exact ⟨k, by simp; omega, by simp⟩
  have : phaseProb xs j = 1 / 2 := oddProb_half _ hmem
  rw [this]
  cases a <;> norm_num

/-- **Joint law of the copies at two markers.**  The copy at i and the change of copy between i and j
    depend on disjoint blocks of intervals, hence are independent. -/
theorem joint_phase_law (xs : List α) (i j : Nat) (hij : i < j) (hj : j < xs.length) (a c : Bool) :
    E xs (fun b => ind ((phases b).getD i false == a && (phases b).getD j false == c)) =
      (if a then phaseProb xs i else 1 - phaseProb xs i) *
      (if xor a c then pairProb xs i j else 1 - pairProb xs i j) := by
  have h1 : E xs (fun b => ind ((phases b).getD i false == a && (phases b).getD j false == c)) =
      E xs (fun b => (ind (xorAll (b.take (i + 1)) == a) : α) *
                     ind (xorAll ((b.drop (i + 1)).take (j - i)) == xor a c)) := by
    apply E_congr
    intro b hb
    rw [phase_eq b i (by omega), phase_eq b j (by omega), phase_pair_eq b i j hij, ← ind_and]
    cases xorAll (b.take (i + 1)) <;> cases xorAll ((b.drop (i + 1)).take (j - i)) <;>
      cases a <;> cases c <;> rfl
  rw [h1]
  have h2 := E_split_mul (i + 1) xs (fun u => (ind (xorAll u == a) : α))
    (fun t => (ind (xorAll (t.take (j - i)) == xor a c) : α))
  have h3 := E_take (j - i) (xs.drop (i + 1)) (fun u => (ind (xorAll u == xor a c) : α))
  refine h2.trans ?_
  rw [E_xorAll_eq]
  refine congrArg _ (h3.trans ?_)
  rw [E_xorAll_eq]
  rfl

/-- **Independent assortment.**  If a crossover probability 1/2 sits at or before marker i and another
    one in (i, j] (i and j lie on different chromosomes whose first markers carry 1/2), the copies
    transmitted at i and j are independent and each combination has probability 1/4. -/
theorem independent_assortment (xs : List α) (i j k0 k1 : Nat) (hj : j < xs.length)
    (h0 : k0 ≤ i) (h1 : i < k1) (h2 : k1 ≤ j) (hk0 : xs[k0] = 1 / 2) (hk1 : xs[k1] = 1 / 2) (a c : Bool) :
    E xs (fun b => ind ((phases b).getD i false == a && (phases b).getD j false == c)) =
      E xs (fun b => ind ((phases b).getD i false == a)) * E xs (fun b => ind ((phases b).getD j false == c))
    ∧ E xs (fun b => ind ((phases b).getD i false == a && (phases b).getD j false == c)) = 1 / 4 := by
  have hij : i < j := by omega
  have hp : phaseProb xs i = 1 / 2 := by
    apply oddProb_half
    rw [← hk0, List.mem_iff_getElem]
    exact ⟨k0, by simp; omega, by simp⟩
  have hq : pairProb xs i j = 1 / 2 := by
    apply oddProb_half
    rw [← hk1, List.mem_iff_getElem]
    refine ⟨k1 - (i + 1), by simp; omega, ?_⟩
    simp only [List.getElem_take, List.getElem_drop]
    congr 1; omega
  have hjoint : E xs (fun b => ind ((phases b).getD i false == a && (phases b).getD j false == c)) = 1 / 4 := by
    rw [joint_phase_law xs i j hij hj, hp, hq]
    cases a <;> cases c <;> simp <;> ring
  refine ⟨?_, hjoint⟩
  rw [hjoint, segregation_half xs k0 i h0 (by omega) hk0, segregation_half xs k0 j (by omega) hj hk0]
  ring

/-- **Crossovers in different intervals are independent.**  For every set `K` of intervals and every
    pattern `p`, the probability that the crossover indicators equal `p` on `K` is the product over
    `K` of the single-interval probabilities (`x_k` for a crossover, `1 - x_k` for none). -/
theorem crossovers_independent (xs : List α) (K p : List Bool) :
    E xs (fun b => ind (agree K p b)) = patProb K p xs :=
  E_agree xs K p

/-- a crossover occurs in interval k with the stored probability `xs[k]` -/
theorem crossover_law (xs : List α) (k : Nat) (hk : k < xs.length) (u : Bool) :
    E xs (fun b => ind (b.getD k false == u)) = if u then xs[k] else 1 - xs[k] :=
  E_getD xs k hk u

/-- two-interval form of the independence statement -/
theorem crossover_pair_independent (xs : List α) (i j : Nat) (hij : i < j) (u v : Bool) :
    E xs (fun b => ind (b.getD i false == u && b.getD j false == v)) =
      E xs (fun b => ind (b.getD i false == u)) * E xs (fun b => ind (b.getD j false == v)) := by
  have g1 : ∀ b : List Bool, (b.take (i + 1)).getD i false = b.getD i false := by
    intro b; simp [List.getD_eq_getElem?_getD]
  have g2 : ∀ b : List Bool, (b.drop (i + 1)).getD (j - (i + 1)) false = b.getD j false := by
    intro b
    simp only [List.getD_eq_getElem?_getD, List.getElem?_drop]
    have : i + 1 + (j - (i + 1)) = j := by omega
    rw [this]
  have h1 : E xs (fun b => ind (b.getD i false == u && b.getD j false == v)) =
      E xs (fun b => (ind ((b.take (i + 1)).getD i false == u) : α) *
                     ind ((b.drop (i + 1)).getD (j - (i + 1)) false == v)) := by
    apply E_congr
    intro b hb
    rw [← ind_and, g1, g2]
  have h2 : E xs (fun b => ind (b.getD i false == u)) =
      E xs (fun b => (ind ((b.take (i + 1)).getD i false == u) : α)) := by
    apply E_congr; intro b hb; rw [g1]
  have h3 : E xs (fun b => ind (b.getD j false == v)) =
      E xs (fun b => (ind ((b.drop (i + 1)).getD (j - (i + 1)) false == v) : α)) := by
    apply E_congr; intro b hb; rw [g2]
  rw [h1, h2, h3]
  have k1 := E_split_mul (i + 1) xs (fun t : List Bool => (ind (t.getD i false == u) : α))
    (fun t : List Bool => (ind (t.getD (j - (i + 1)) false == v) : α))
  have k2 := E_take (i + 1) xs (fun t : List Bool => (ind (t.getD i false == u) : α))
  have k3 := E_drop (i + 1) xs (fun t : List Bool => (ind (t.getD (j - (i + 1)) false == v) : α))
  refine k1.trans ?_
  rw [← k2, ← k3]

/-- **Parity law on an arbitrary set of intervals** (the sign-product identity): the probability of an
    odd number of crossovers among the intervals selected by `K` is `(1 - Π_{k∈K} (1 - 2 x_k)) / 2`. -/
theorem parity_law (xs : List α) (K : List Bool) :
    E xs (fun b => ind (parityOn K b)) = (1 - prodDOn K xs) / 2 :=
  E_parityOn xs K

-- non-vacuity: a three-chromosome layout with 1/2 at the chromosome starts
example : E [(1:ℚ)/2, 1/10, 1/5, 1/2, 1/3] (fun b => ind ((phases b).getD 1 false != (phases b).getD 2 false))
    = 1/5 := recomb_adjacent _ 2 (by decide) (by decide)
example : pairProb [(1:ℚ)/2, 1/10, 1/5, 1/2, 1/3] 0 2 = 13/50 := by
  norm_num [pairProb, oddProb, prodD, dfac]
example : ([(1:ℚ)/2, 1/10, 1/5, 1/2, 1/3])[3] = 1/2 := by norm_num
-- markers 1 and 4 lie on different chromosomes (1/2 at markers 0 and 3): all four combinations 1/4
example : E [(1:ℚ)/2, 1/10, 1/5, 1/2, 1/3]
    (fun b => ind ((phases b).getD 1 false == true && (phases b).getD 4 false == false)) = 1/4 :=
  (independent_assortment _ 1 4 0 3 (by decide) (by decide) (by decide) (by decide) (by norm_num) (by norm_num)
    true false).2
example : E [(1:ℚ)/2, 1/10, 1/5, 1/2, 1/3] (fun b => ind ((phases b).getD 2 false == true)) = 1/2 :=
  segregation_half _ 0 2 (by decide) (by decide) (by norm_num) true
-- no crossover in interval 1 and a crossover in interval 2, whatever happens elsewhere
example : E [(1:ℚ)/2, 1/10, 1/5, 1/2, 1/3]
    (fun b => ind (agree [false, true, true] [false, false, true] b)) = (1 - 1/10) * (1/5) := by
  rw [crossovers_independent]; norm_num [patProb]

end law

/-! ## C. crossover probabilities assigned from a genetic map -/
section gmap
variable {α : Type} [Field α] [CharZero α]

/-- **Chromosome starts carry 1/2.**  Whatever the map function, `rprob1g` stores exactly 1/2 at the
    first marker of every chromosome (marker 0, and every marker whose label differs from its
    predecessor's). -/
theorem xoprob_half_at_chromosome_start (h : α → α) (chr : List Int) (pos : List α) (k : Nat)
    (hc : k < chr.length) (hp : k < pos.length) (hstart : k = 0 ∨ chr[k] ≠ chr[k - 1]) :
    (rprob1g h chr pos)[k]? = some (1 / 2) := by
  rw [List.getElem?_eq_getElem (by rw [rprob1g_length]; omega), rprob1g_start h chr pos k hc hp hstart]

/-- inside a chromosome the stored value is the map function of the distance to the previous marker -/
theorem xoprob_within_chromosome (h : α → α) (chr : List Int) (pos : List α) (k : Nat)
    (hc : k + 1 < chr.length) (hp : k + 1 < pos.length) (hsame : chr[k + 1] = chr[k]) :
    (rprob1g h chr pos)[k + 1]? = some (h (pos[k + 1] - pos[k])) := by
  rw [List.getElem?_eq_getElem (by rw [rprob1g_length]; omega), rprob1g_within h chr pos k hc hp hsame]

/-- **The Spec oracle on stored crossover probabilities accepts the model** (driver op `c02.spec_starts`, evaluated
    on what `rprob1g` / `rprob1p` / `interp_xoprob` of the implementation store): for every map function, layout
    and position vector, the probabilities the model assigns pass it. -/
theorem spec_starts_sound [DecidableEq α] (h : α → α) (chr : List Int) (pos : List α) (hl : chr.length = pos.length) :
    specStarts chr ((rprob1g h chr pos).map some) = true :=
  specStarts_rprob1g h chr pos hl

/-- **… and what it demands, exactly**: one value per marker, and exactly 1/2 at marker 0 and at every marker
    whose chromosome label differs from its predecessor's (`none` = a stored value that is not a finite number
    never passes there).  Nothing is demanded inside a chromosome (that part of the Spec compares with the map
    function of the distance in floating point, harness side). -/
theorem spec_starts_iff [DecidableEq α] (chr : List Int) (xo : List (Option α)) :
    specStarts chr xo = true ↔
      xo.length = chr.length ∧
      ∀ (k : Nat) (c : Int), chr[k]? = some c → (k = 0 ∨ chr[k - 1]? ≠ some c) → xo[k]? = some (some (1 / 2)) :=
  specStarts_iff chr xo

example : specStarts [7, 7, 3, 5] [some ((1:ℚ)/2), some (1/8), some (1/2), some (1/2)] = true := by decide +kernel
example : specStarts [7, 7, 3, 5] [some ((1:ℚ)/2), some (1/8), none, some (1/2)] = false := by decide +kernel
example : specStarts [1, 1, 2] ((rprob1g (fun d : ℚ => d) [1, 1, 2] [0, 1/8, 0]).map some) = true := by
  decide +kernel

/-- **The `numpy.unique` loop of the source.**  `gdist1g` as written (`uniq, start, counts = numpy.unique(…)`,
    `out = numpy.empty(…)`, `out[st] = inf; out[st+1:sp] = genpos[st+1:sp] - genpos[st:sp-1]` per distinct
    label — C11's literal transcription `GMap.gdist1gLit`) writes every cell and writes exactly the distances
    of the model used in this file, whenever equal chromosome labels are contiguous: sorted or not, chromosomes
    with a single marker included.  (`interp_xoprob` refuses a matrix that has not been grouped.)

    FULL STATEMENT (false of the as-is code, see `gdist1g_loop_ungrouped_counterexample`):
      ∀ chr pos, chr.length ≤ pos.length →
        GMap.gdist1gLit chr (pos.map some) = ((gdist1g chr pos).map toGDist).map some -/
theorem gdist1g_loop_eq_model_partial {γ : Type} [Sub γ] [LT γ] [DecidableLT γ] [OfNat γ 0]
    (chr : List Int) (pos : List γ) (hlen : chr.length ≤ pos.length) (hc : GMap.ContigLabels chr) :
    GMap.gdist1gLit chr (pos.map some) = ((gdist1g chr pos).map toGDist).map some :=
  gdist1gLit_eq_recomb chr pos hlen hc

/-- labels `[1, 2, 1]` (not grouped): the loop leaves the last cell unwritten (uninitialised memory in numpy)
    and never marks it as a chromosome start -/
theorem gdist1g_loop_ungrouped_counterexample :
    GMap.gdist1gLit (α := Int) [1, 2, 1] ([10, 25, 50].map some) ≠
      ((gdist1g [1, 2, 1] [(10 : Int), 25, 50]).map toGDist).map some := by
  decide

example : GMap.ContigLabels [7, 7, 3, 5] := by
  intro i j k hij hjk v hi hk
  have hk4 : k < 4 := by
    by_contra hc
    have : ([7, 7, 3, 5] : List Int)[k]? = none := List.getElem?_eq_none (by simp; omega)
    rw [this] at hk; cases hk
  interval_cases k <;> interval_cases j <;> interval_cases i <;> simp_all <;> omega
example : GMap.gdist1gLit (α := Int) [7, 7, 3, 5] ([10, 25, 50, 0].map some) =
    [some .inf, some (.fin 15), some .inf, some .inf] := by decide

/-- **Markers on different chromosomes recombine with probability 1/2**, for every map function. -/
theorem unlinked_across_chromosomes (h : α → α) (chr : List Int) (pos : List α) (hlen : chr.length = pos.length)
    (i j : Nat) (hij : i < j) (hj : j < chr.length) (hne : chr[i] ≠ chr[j]) :
    pairProb (rprob1g h chr pos) i j = 1 / 2 := by
  obtain ⟨k, h1, h2, hk⟩ := exists_start chr i j hij hj hne
  exact pairProb_different_chromosomes h chr pos hlen i j hij hj k h1 h2 hk

/-- **Markers on different chromosomes assort independently** (in particular the first markers of two
    chromosomes): with crossover probabilities assigned from a genetic map, the copies transmitted at
    i and j are independent and every combination has probability 1/4. -/
theorem different_chromosomes_assort_independently (h : α → α) (chr : List Int) (pos : List α)
    (hlen : chr.length = pos.length) (i j : Nat) (hij : i < j) (hj : j < chr.length)
    (hne : chr[i] ≠ chr[j]) (a c : Bool) :
    let xs := rprob1g h chr pos
    E xs (fun b => ind ((phases b).getD i false == a && (phases b).getD j false == c)) =
      E xs (fun b => ind ((phases b).getD i false == a)) * E xs (fun b => ind ((phases b).getD j false == c))
    ∧ E xs (fun b => ind ((phases b).getD i false == a && (phases b).getD j false == c)) = 1 / 4 := by
  intro xs
  obtain ⟨k, h1, h2, hk⟩ := exists_start chr i j hij hj hne
  have hl : xs.length = chr.length := by simp [xs, rprob1g_length, hlen]
  exact independent_assortment xs i j 0 k (by omega) (by omega) h1 h2
    (rprob1g_start h chr pos 0 (by omega) (by omega) (Or.inl rfl))
    (rprob1g_start h chr pos k (by omega) (by omega) (Or.inr hk)) a c

/-- with a genetic map every marker transmits each parental copy with probability 1/2 -/
theorem map_segregation_half (h : α → α) (chr : List Int) (pos : List α) (hlen : chr.length = pos.length)
    (j : Nat) (hj : j < chr.length) (a : Bool) :
    E (rprob1g h chr pos) (fun b => ind ((phases b).getD j false == a)) = 1 / 2 :=
  segregation_half _ 0 j (by omega) (by rw [rprob1g_length]; omega)
    (rprob1g_start h chr pos 0 (by omega) (by omega) (Or.inl rfl)) a

/-- composition law in abstract form: a map function `h = (1 - e)/2` with `e` multiplicative
    (`e(a+b) = e(a) e(b)`, `e(0) = 1`) composes along a chromosome -/
theorem mapfn_compose (e h : α → α) (hh : ∀ d, h d = (1 - e d) / 2) (he0 : e 0 = 1)
    (hadd : ∀ a b, e (a + b) = e a * e b)
    (chr : List Int) (pos : List α) (hs : chr.Pairwise (· ≤ ·)) (i j : Nat) (hij : i < j)
    (hjc : j < chr.length) (hjp : j < pos.length) (he : chr[i] = chr[j]) :
    pairProb (rprob1g h chr pos) i j = h (pos[j] - pos[i]) :=
  pairProb_same_chromosome e h hh he0 hadd chr pos i j hij hjc hjp
    (fun k hik hkj => sorted_between chr hs i j k hik hkj hjc he)

end gmap

/-- **Haldane composition.**  On a Haldane map (sorted chromosome labels, crossover probabilities
    assigned by `rprob1g`), the probability that two markers i < j of one chromosome come from
    different parental copies is the Haldane function of their genetic distance — for every number
    of markers in between. -/
theorem haldane_compose (chr : List Int) (pos : List ℝ) (hs : chr.Pairwise (· ≤ ·)) (i j : Nat) (hij : i < j)
    (hjc : j < chr.length) (hjp : j < pos.length) (he : chr[i] = chr[j]) :
    pairProb (rprob1g haldane chr pos) i j = haldane (pos[j] - pos[i]) :=
  mapfn_compose (fun d => Real.exp (-2 * d)) haldane (fun _ => rfl) (by simp)
    (fun a b => by rw [← Real.exp_add]; congr 1; ring) chr pos hs i j hij hjc hjp he

/-- and the realised recombination frequency between them is that value -/
theorem haldane_recombination (chr : List Int) (pos : List ℝ) (hlen : chr.length = pos.length)
    (hs : chr.Pairwise (· ≤ ·)) (i j : Nat) (hij : i < j) (hj : j < chr.length) (he : chr[i] = chr[j]) :
    E (rprob1g haldane chr pos) (fun b => ind ((phases b).getD i false != (phases b).getD j false)) =
      haldane (pos[j] - pos[i]) := by
  rw [recomb_pair _ i j hij (by rw [rprob1g_length]; omega)]
  exact haldane_compose chr pos hs i j hij hj (by omega) he

-- non-vacuity: three markers on chromosome 1, two on chromosome 2
example : ([1, 1, 1, 2, 2] : List Int).Pairwise (· ≤ ·) := by decide
example : pairProb (rprob1g haldane [1, 1, 1, 2, 2] [0, 1/8, 1/2, 0, 1/4]) 0 2 = haldane (1/2 - 0) :=
  haldane_compose [1, 1, 1, 2, 2] [0, 1/8, 1/2, 0, 1/4] (by decide) 0 2 (by decide) (by decide) (by simp)
    (by decide)
example : pairProb (rprob1g haldane [1, 1, 1, 2, 2] [0, 1/8, 1/2, 0, 1/4]) 1 3 = 1 / 2 :=
  unlinked_across_chromosomes haldane [1, 1, 1, 2, 2] [0, 1/8, 1/2, 0, 1/4] (by simp) 1 3 (by decide)
    (by decide) (by decide)
example : rprob1g (fun d : ℚ => d) [1, 1, 1, 2, 2] [0, 1/8, 1/2, 0, 1/4] = [1/2, 1/8, 3/8, 1/2, 1/4] := by
  norm_num [rprob1g, gdist1g, gdistFrom, mapOpt]

/-! ### what the property can and cannot claim for other map functions -/

/-- **Non-adjacent markers under ANY map function** (the correct general statement; Haldane's function is
    the special case in which it collapses to `h` of the summed distance): for two markers i < j of one
    chromosome the simulator recombines them with the Haldane-composition of the adjacent values,
    `(1 - Π_{i<k≤j} (1 - 2 h(pos[k] - pos[k-1]))) / 2`. -/
theorem mapfn_nonadjacent_law {α : Type} [Field α] [CharZero α] (h : α → α) (chr : List Int) (pos : List α)
    (hlen : chr.length = pos.length) (hs : chr.Pairwise (· ≤ ·)) (i j : Nat) (hij : i < j)
    (hj : j < chr.length) (he : chr[i] = chr[j]) :
    E (rprob1g h chr pos) (fun b => ind ((phases b).getD i false != (phases b).getD j false)) =
      oddProb ((adjDists pos i j).map h) := by
  rw [recomb_pair _ i j hij (by rw [rprob1g_length]; omega)]
  exact pairProb_adjDists h chr pos i j hij hj (by omega)
    (fun k hik hkj => sorted_between chr hs i j k hik hkj hj he)

/-- Kosambi instance of the correct statement -/
theorem kosambi_nonadjacent_law (chr : List Int) (pos : List ℝ) (hlen : chr.length = pos.length)
    (hs : chr.Pairwise (· ≤ ·)) (i j : Nat) (hij : i < j) (hj : j < chr.length) (he : chr[i] = chr[j]) :
    E (rprob1g kosambiR chr pos) (fun b => ind ((phases b).getD i false != (phases b).getD j false)) =
      oddProb ((adjDists pos i j).map kosambiR) :=
  mapfn_nonadjacent_law kosambiR chr pos hlen hs i j hij hj he

/-- FULL STATEMENT that is *false* of the simulator (and that C02 therefore does not claim): "on a Kosambi
    map the recombination fraction of non-adjacent markers is the Kosambi function of their distance":
      ∀ chr pos i<j on one chromosome, pairProb (rprob1g kosambiR chr pos) i j = kosambiR (pos[j] - pos[i]).
    `mat_meiosis` draws the crossovers of different intervals independently (no interference), Kosambi's
    function assumes positive interference.  Witness: three markers 1/4 Morgan apart. -/
theorem kosambi_nonadjacent_counterexample :
    pairProb (rprob1g kosambiR [1, 1, 1] [0, 1 / 4, 1 / 2]) 0 2 < kosambiR (1 / 2 - 0) ∧
    pairProb (rprob1g kosambiR [1, 1, 1] [0, 1 / 4, 1 / 2]) 0 2 ≠ kosambiR (1 / 2 - 0) := by
  have h : pairProb (rprob1g kosambiR [1, 1, 1] [0, 1 / 4, 1 / 2]) 0 2 =
      oddProb [kosambiR (1 / 4), kosambiR (1 / 4)] := by
    rw [pairProb_adjDists kosambiR [1, 1, 1] [0, 1 / 4, 1 / 2] 0 2 (by decide) (by decide) (by simp)
      (fun k _ hk => by interval_cases k <;> rfl)]
    norm_num [adjDists]
  have hlt := kosambi_compose_lt (1 / 4) (by norm_num)
  have e : (2 : ℝ) * (1 / 4) = 1 / 2 - 0 := by norm_num
  rw [e] at hlt
  rw [h]
  exact ⟨hlt, ne_of_lt hlt⟩

/-- in general: two equal adjacent intervals of any length d > 0 recombine strictly less often than
    Kosambi's function of 2d predicts -/
theorem kosambi_compose_lt_kosambi (d : ℝ) (hd : 0 < d) :
    oddProb [kosambiR d, kosambiR d] < kosambiR (2 * d) :=
  kosambi_compose_lt d hd

/-! ## D. from the draws to the crossover indicators -/
section draws
variable {α : Type} [Field α] [LinearOrder α] [IsStrictOrderedRing α] [FloorRing α]

/-- **Push-forward of the draws.**  If every draw is equally likely on the grid `{0, 1/N, …, (N-1)/N}`
    (numpy's `random_sample`: N = 2^53) and the draws of different markers are independent, then the
    strict comparison `rnd < xoprob` makes the crossover indicators independent Bernoulli variables
    whose parameters are the stored probabilities rounded up to the grid: the expectation over the
    draws is exactly `E` at those parameters — for every vector `xs`, every `N > 0`, every `F`. -/
theorem draws_pushforward (N : Nat) (hN : 0 < N) (xs : List α) (F : List Bool → α) :
    Edraw (gridPts N) xs F = E (xs.map (gridProb N)) F := by
  rw [Edraw_eq_E_below _ (gridPts_ne_nil N hN)]
  congr 1
  apply List.map_congr_left
  intro x _
  exact below_gridPts N hN x

/-- the rounding moves a probability in [0, 1] by less than one grid step (2^-53 for numpy) -/
theorem draws_pushforward_error (N : Nat) (hN : 0 < N) (x : α) (h0 : 0 ≤ x) (h1 : x ≤ 1) :
    x ≤ gridProb N x ∧ gridProb N x < x + 1 / (N : α) :=
  gridProb_close N hN x h0 h1

/-- **Total-variation bound.**  For `m` markers with stored probabilities in [0, 1], the law of the crossover
    mask under grid draws and the exact Bernoulli(xs) law give to every event (every `[0,1]`-valued `F`)
    values that differ by at most `m / N` — `m · 2^-53` for numpy, for every marker count. -/
theorem draws_pushforward_tv (N : Nat) (hN : 0 < N) (xs : List α) (hx : ∀ x ∈ xs, 0 ≤ x ∧ x ≤ 1)
    (F : List Bool → α) (hF : ∀ b, 0 ≤ F b ∧ F b ≤ 1) :
    |Edraw (gridPts N) xs F - E xs F| ≤ (xs.length : α) / (N : α) :=
  Edraw_tv N hN xs hx F hF

/-- exact form, for stored probabilities that lie on the grid (`x_k = c_k / N`; every double in
    [2^-1, 1] and every dyadic value the harness generates is of this form for N = 2^53).

    FULL STATEMENT (false of the model, see `draws_pushforward_exact_counterexample`; the full-strength
    replacement is `draws_pushforward` + `draws_pushforward_error`):
      ∀ N > 0, ∀ xs with 0 ≤ x ≤ 1, ∀ F,  Edraw (gridPts N) xs F = E xs F -/
theorem draws_pushforward_exact_partial (N : Nat) (hN : 0 < N) (cs : List Nat) (hc : ∀ c ∈ cs, c ≤ N)
    (F : List Bool → α) :
    Edraw (gridPts N) (cs.map (fun c : Nat => (c : α) / (N : α))) F =
      E (cs.map (fun c : Nat => (c : α) / (N : α))) F := by
  rw [draws_pushforward N hN]
  congr 1
  rw [List.map_map]
  apply List.map_congr_left
  intro c hcm
  exact gridProb_on_grid N c hN (hc c hcm)

/-- off the grid the equality is not exact: two equally likely draw values {0, 1/2} and a stored
    probability 1/4 give a crossover with probability 1/2 -/
theorem draws_pushforward_exact_counterexample :
    Edraw (gridPts 2) [(1 : ℚ) / 4] (fun b => ind (b.getD 0 false)) ≠
      E [(1 : ℚ) / 4] (fun b => ind (b.getD 0 false)) := by
  decide +kernel

-- the total-variation bound on the counterexample above: |1/2 - 1/4| ≤ 1/2
example : |Edraw (gridPts 2) [(1 : ℚ) / 4] (fun b => ind (b.getD 0 false)) -
      E [(1 : ℚ) / 4] (fun b => ind (b.getD 0 false))| ≤ (1 : ℚ) / 2 := by
  have := draws_pushforward_tv 2 (by decide) [(1 : ℚ) / 4] (by intro x hx; simp at hx; subst hx; norm_num)
    (fun b => ind (b.getD 0 false)) (fun b => by cases b.getD 0 false <;> simp [ind])
  simpa using this
example : Edraw (gridPts 8) ([4, 1, 8, 0].map (fun c : Nat => (c : ℚ) / (8 : Nat)))
    (fun b => ind ((phases b).getD 0 false != (phases b).getD 1 false)) = 1 / 8 := by
  rw [draws_pushforward_exact_partial 8 (by decide) [4, 1, 8, 0] (by decide)]
  have := recomb_adjacent ([4, 1, 8, 0].map (fun c : Nat => (c : ℚ) / (8 : Nat))) 1 (by decide) (by decide)
  rw [this]; norm_num

end draws

/-! ## E. repeated meioses: the observed proportion converges to the probability -/
section lln
variable {α : Type} [Field α] [LinearOrder α] [IsStrictOrderedRing α]

/-- with crossover probabilities in [0, 1/2] (every map function's range) the pairwise recombination
    probability lies in [0, 1/2] -/
theorem pairProb_le_half (xs : List α) (hx : ∀ x ∈ xs, 0 ≤ x ∧ x ≤ 1 / 2) (i j : Nat) :
    0 ≤ pairProb xs i j ∧ pairProb xs i j ≤ 1 / 2 := by
  have := prodD_mem_unit ((xs.drop (i + 1)).take (j - i))
    (fun x hx' => hx x (List.mem_of_mem_drop (List.mem_of_mem_take hx')))
  unfold pairProb oddProb
  constructor
  · linarith [this.2]
  · linarith [this.1]

/-- **Weak law of large numbers for any event of one gamete.**  Over `n` independent meioses on the same
    crossover-probability vector (probabilities in [0, 1]), the proportion of gametes showing an event
    (indicator `g` of the gamete's mask) deviates from the event's probability `p = E xs g` by `ε` or more
    with probability at most `p (1 - p) / (n ε²)`. -/
theorem proportion_concentrates (xs : List α) (hx : ∀ x ∈ xs, 0 ≤ x ∧ x ≤ 1) (g : List Bool → α)
    (hg : ∀ b, g b = 0 ∨ g b = 1) (n : Nat) (hn : 0 < n) (ε : α) (hε : 0 < ε) :
    E (rep n xs) (fun b => ind (decide (ε ≤ |proportion xs.length g n b - E xs g|))) ≤
      E xs g * (1 - E xs g) / ((n : α) * ε ^ 2) :=
  proportion_chebyshev xs hx g hg n hn ε hε

/-- **The realised recombination frequency converges.**  For markers i < j the proportion of `n` gametes
    that carry different parental copies at i and j is within `ε` of `(1 - Π_{i<k≤j}(1 - 2 x_k))/2`
    except with probability at most `1/(4 n ε²)`. -/
theorem recombination_frequency_concentrates (xs : List α) (hx : ∀ x ∈ xs, 0 ≤ x ∧ x ≤ 1)
    (i j : Nat) (hij : i < j) (hj : j < xs.length) (n : Nat) (hn : 0 < n) (ε : α) (hε : 0 < ε) :
    E (rep n xs) (fun b => ind (decide (ε ≤
        |proportion xs.length (fun m => ind ((phases m).getD i false != (phases m).getD j false)) n b
          - pairProb xs i j|))) ≤ 1 / (4 * (n : α) * ε ^ 2) := by
  have hnpos : (0 : α) < (n : α) := by exact_mod_cast hn
  have h := proportion_chebyshev xs hx
    (fun m => ind ((phases m).getD i false != (phases m).getD j false))
    (fun b => by cases ((phases b).getD i false != (phases b).getD j false) <;> simp [ind]) n hn ε hε
  rw [recomb_pair xs i j hij hj] at h
  refine h.trans ?_
  rw [div_le_div_iff₀ (by positivity) (by positivity)]
  nlinarith [sq_nonneg (2 * pairProb xs i j - 1), mul_pos hnpos (pow_pos hε 2)]

/-- convergence in probability, ε–δ form: for every tolerance and every risk level there is a sample
    size from which on the observed recombination frequency misses the model probability by the
    tolerance with at most that risk -/
theorem recombination_frequency_converges [Archimedean α] (xs : List α) (hx : ∀ x ∈ xs, 0 ≤ x ∧ x ≤ 1)
    (i j : Nat) (hij : i < j) (hj : j < xs.length) (ε δ : α) (hε : 0 < ε) (hδ : 0 < δ) :
    ∃ n0 : Nat, ∀ n ≥ n0, 0 < n →
      E (rep n xs) (fun b => ind (decide (ε ≤
        |proportion xs.length (fun m => ind ((phases m).getD i false != (phases m).getD j false)) n b
          - pairProb xs i j|))) ≤ δ := by
  obtain ⟨n0, hn0⟩ := exists_nat_gt (1 / (4 * δ * ε ^ 2))
  refine ⟨n0, fun n hn hpos => ?_⟩
  refine (recombination_frequency_concentrates xs hx i j hij hj n hpos ε hε).trans ?_
  have hnpos : (0 : α) < (n : α) := by exact_mod_cast hpos
  have hle : (n0 : α) ≤ (n : α) := by exact_mod_cast hn
  rw [div_le_iff₀ (by positivity)]
  rw [div_lt_iff₀ (by positivity)] at hn0
  nlinarith [mul_pos hδ (pow_pos hε 2)]

/-- **End to end, from the draws.**  `n` gametes, every one of the `n · m` draws independent and uniform on
    the grid `{0, …, (N-1)/N}`: the observed recombination frequency between markers i < j is within `ε`
    of the pairwise formula at the grid-rounded probabilities, except with probability `≤ 1/(4 n ε²)`. -/
theorem realised_recombination_concentrates [FloorRing α] (N : Nat) (hN : 0 < N) (xs : List α)
    (i j : Nat) (hij : i < j) (hj : j < xs.length) (n : Nat) (hn : 0 < n) (ε : α) (hε : 0 < ε) :
    Edraw (gridPts N) (rep n xs) (fun b => ind (decide (ε ≤
        |proportion xs.length (fun m => ind ((phases m).getD i false != (phases m).getD j false)) n b
          - pairProb (xs.map (gridProb N)) i j|))) ≤ 1 / (4 * (n : α) * ε ^ 2) := by
  rw [draws_pushforward N hN, rep_map]
  have hx : ∀ x ∈ xs.map (gridProb N), 0 ≤ x ∧ x ≤ 1 := by
    intro x hx
    obtain ⟨y, _, rfl⟩ := List.mem_map.mp hx
    exact gridProb_mem_unit N hN y
  have := recombination_frequency_concentrates (xs.map (gridProb N)) hx i j hij (by simpa using hj) n hn ε hε
  simpa using this

-- non-vacuity: 1000 gametes, tolerance 1/10: the recombination frequency between markers 0 and 2 misses
-- 13/50 by 1/10 or more with probability at most 1/40
example : E (rep 1000 [(1:ℚ)/2, 1/10, 1/5]) (fun b => ind (decide ((1:ℚ)/10 ≤
      |proportion 3 (fun m => ind ((phases m).getD 0 false != (phases m).getD 2 false)) 1000 b
        - pairProb [(1:ℚ)/2, 1/10, 1/5] 0 2|))) ≤ 1 / 40 := by
  have := recombination_frequency_concentrates [(1:ℚ)/2, 1/10, 1/5]
    (by intro x hx; simp at hx; rcases hx with rfl | rfl | rfl <;> norm_num) 0 2 (by decide) (by decide)
    1000 (by decide) (1/10) (by norm_num)
  refine this.trans (by norm_num)
-- two gametes on three markers, event = recombination between markers 0 and 2
example : rep 2 [(1:ℚ)/2, 1/10, 1/5] = [1/2, 1/10, 1/5, 1/2, 1/10, 1/5] := by simp [rep]
example : proportion 3 (fun m => (ind ((phases m).getD 0 false != (phases m).getD 2 false) : ℚ)) 2
    [true, false, true, false, false, false] = 1 / 2 := by decide +kernel
example : ∀ x ∈ [(1:ℚ)/2, 1/10, 1/5], 0 ≤ x ∧ x ≤ 1 := by
  intro x hx; simp at hx; rcases hx with rfl | rfl | rfl <;> norm_num

end lln

/-! ## F. through the protocol wiring (C01's model of `mate()`: Model/Meiosis, Model/Mating) -/
section unify
variable {α ρ : Type} [LT ρ] [DecidableLT ρ]

/-- **One loop.**  The transcription of `mat_meiosis` used here and the one of C01 (`Meiosis.gameteLoop`
    on `Meiosis.xoMask`) are the same function, and the running phase is C01's `phaseAt`; every theorem
    of sections A–E therefore speaks about the gametes inside C01's `mate`. -/
theorem same_loop_as_C01 (ind : Meiosis.Ind α) (r xo : List ρ) :
    meiosisRow ind.1 ind.2 r xo = Meiosis.gameteLoop ind (Meiosis.xoMask r xo) ∧
    Recomb.xoMask r xo = Meiosis.xoMask r xo ∧
    ∀ j (hj : j < (phases (Recomb.xoMask r xo)).length),
      (phases (Recomb.xoMask r xo))[j] = Meiosis.phaseAt (Meiosis.xoMask r xo) j := by
  refine ⟨meiosisRow_eq_gameteLoop ind r xo, xoMask_eq r xo, fun j hj => ?_⟩
  rw [phases_getElem_eq_phaseAt, xoMask_eq]

end unify

section wiring
open Meiosis Mating
variable {α ρ : Type} [LinearOrder ρ] [Zero ρ]

/-- **Two-way cross (no selfing): where the two copies of a progeny come from.**  With `rf`, `rm` the two
    draw matrices the protocol requests, chromosome copy 0 of progeny k is the gamete of the female parent
    `repeat(xconfig[:,0], nmating*nprogeny)[k]` under row k of `rf`, copy 1 the gamete of the male parent
    `repeat(xconfig[:,1], …)[k]` under row k of `rm` — for every configuration, count vector and layout. -/
theorem two_way_progeny_copies (pop : Pop α) (xc : List (List Nat)) (nm np : List Nat) (xo : List ρ)
    (rf rm : DrawMat ρ) (rest rest' : List (DrawMat ρ)) (prog : Pop α)
    (h : generate .twoWay pop xc nm np 0 xo (rf :: rm :: rest) = .ok (prog, rest')) :
    rest' = rest ∧
    prog.length = (Np.repeatEach (List.zipWith (· * ·) nm np) (col xc 0)).length ∧
    ∀ k (hk : k < prog.length), ∃ f m,
      pop[(Np.repeatEach (List.zipWith (· * ·) nm np) (col xc 0)).getD k 0]? = some f ∧
      pop[(Np.repeatEach (List.zipWith (· * ·) nm np) (col xc 1)).getD k 0]? = some m ∧
      prog[k]? = some (meiosisRow f.1 f.2 (rf.getD k []) xo, meiosisRow m.1 m.2 (rm.getD k []) xo) := by
  rw [generate_twoWay_zero] at h
  obtain ⟨h1, h2, _, h4⟩ := mateE_row h
  exact ⟨h1, h2, h4⟩

/-- self cross (no further selfing): both copies are gametes of the same parent under different draws -/
theorem self_progeny_copies (pop : Pop α) (xc : List (List Nat)) (nm np : List Nat) (xo : List ρ)
    (rf rm : DrawMat ρ) (rest rest' : List (DrawMat ρ)) (prog : Pop α)
    (h : generate .self pop xc nm np 0 xo (rf :: rm :: rest) = .ok (prog, rest')) :
    rest' = rest ∧
    ∀ k (hk : k < prog.length), ∃ f,
      pop[(Np.repeatEach (List.zipWith (· * ·) nm np) (col xc 0)).getD k 0]? = some f ∧
      prog[k]? = some (meiosisRow f.1 f.2 (rf.getD k []) xo, meiosisRow f.1 f.2 (rm.getD k []) xo) := by
  rw [generate_self_zero] at h
  obtain ⟨h1, _, _, h4⟩ := mateE_row h
  refine ⟨h1, fun k hk => ?_⟩
  obtain ⟨f, m, hf, hm, hp⟩ := h4 k hk
  rw [hf] at hm
  cases hm
  exact ⟨f, hf, hp⟩

/-- **Doubled-haploid protocols (two-, three-, four-way; any number of selfing generations).**  The
    progeny are produced by one last `mat_dh`: there is an intermediate population `inter` and a last
    draw matrix `r` such that both copies of progeny k are the same gamete of
    `inter[repeat(arange, repeat(nprogeny, nmating))[k]]` under row k of `r`. -/
theorem dh_progeny_copies (P : Proto) (hP : P.isDH = true) (pop : Pop α) (xc : List (List Nat))
    (nm np : List Nat) (nself : Nat) (xo : List ρ) (d rest : List (DrawMat ρ)) (prog : Pop α)
    (h : generate P pop xc nm np nself xo d = .ok (prog, rest)) :
    ∃ (inter : Pop α) (r : DrawMat ρ), ∀ k (hk : k < prog.length), ∃ ind,
      inter[(Np.repeatEach (Np.repeatEach nm np) (Np.arange 0 inter.length)).getD k 0]? = some ind ∧
      prog[k]? = some (meiosisRow ind.1 ind.2 (r.getD k []) xo, meiosisRow ind.1 ind.2 (r.getD k []) xo) := by
  obtain ⟨inter, d1, hd⟩ := generate_dh_last P hP pop xc nm np nself xo d prog rest h
  cases d1 with
  | nil => simp [dhE] at hd
  | cons r rest1 =>
    obtain ⟨_, _, h3⟩ := dhE_row hd
    exact ⟨inter, r, h3⟩

/-- **Two-way DH (no selfing), all three meioses.**  Hybrid p = (female gamete under row p of `rf`, male
    gamete under row p of `rm`); DH progeny k = the gamete of hybrid `psel[k]` under row k of the third
    draw matrix, doubled: its copy switches between the female-derived and the male-derived chromosome
    of the hybrid exactly where `r3[k] < xoprob`. -/
theorem two_way_dh_progeny_copies (pop : Pop α) (xc : List (List Nat)) (nm np : List Nat) (xo : List ρ)
    (rf rm r3 : DrawMat ρ) (rest rest' : List (DrawMat ρ)) (prog : Pop α)
    (h : generate .twoWayDH pop xc nm np 0 xo (rf :: rm :: r3 :: rest) = .ok (prog, rest')) :
    ∃ hyb : Pop α, rest' = rest ∧
      (∀ p (hp : p < hyb.length), ∃ f m,
        pop[(Np.repeatEach nm (col xc 0)).getD p 0]? = some f ∧ pop[(Np.repeatEach nm (col xc 1)).getD p 0]? = some m ∧
        hyb[p]? = some (meiosisRow f.1 f.2 (rf.getD p []) xo, meiosisRow m.1 m.2 (rm.getD p []) xo)) ∧
      (∀ k (hk : k < prog.length), ∃ ind,
        hyb[(Np.repeatEach (Np.repeatEach nm np) (Np.arange 0 hyb.length)).getD k 0]? = some ind ∧
        prog[k]? = some (meiosisRow ind.1 ind.2 (r3.getD k []) xo, meiosisRow ind.1 ind.2 (r3.getD k []) xo)) := by
  obtain ⟨hyb, d1, hm, hd⟩ := generate_twoWayDH_zero pop xc nm np xo _ prog rest' h
  obtain ⟨e1, _, _, h4⟩ := mateE_row hm
  subst e1
  obtain ⟨e2, _, h6⟩ := dhE_row hd
  exact ⟨hyb, e2, h4, h6⟩

/-- **The same at the level of the public `mate()` (after `group_taxa`).**  For a two-way cross without
    selfing the protocol consumes exactly the two draw matrices `rf`, `rm`, and every row of the returned
    matrix is identified by its name `"2w" + zfill7(pc + k)` with a generation index k: its copy 0 is the
    gamete of the k-th repeated female parent under row k of `rf`, its copy 1 the gamete of the k-th
    repeated male parent under row k of `rm`.  So each progeny's two copies are functions of disjoint
    draw rows, and different progeny use different rows. -/
theorem two_way_mate_rows (pop : Pop α) (xc : List (List Nat)) (nmating nprogeny : Cnt) (xo : List ρ)
    (pc fc : Nat) (rf rm : DrawMat ρ) (out : Out α)
    (h : mate .twoWay pop xc nmating nprogeny 0 xo pc fc [rf, rm] = .ok out) :
    ∃ nm np, nmating.expand xc.length = .ok nm ∧ nprogeny.expand xc.length = .ok np ∧
      ∀ r ∈ out.rows, ∃ k f m, r.name = name Proto.twoWay.pre (pc + k) ∧
        pop[(Np.repeatEach (List.zipWith (· * ·) nm np) (col xc 0)).getD k 0]? = some f ∧
        pop[(Np.repeatEach (List.zipWith (· * ·) nm np) (col xc 1)).getD k 0]? = some m ∧
        r.ind = (meiosisRow f.1 f.2 (rf.getD k []) xo, meiosisRow m.1 m.2 (rm.getD k []) xo) := by
  obtain ⟨nm, np, prog, hnm, hnp, hgen, _, hrows⟩ := mate_row_index h
  refine ⟨nm, np, hnm, hnp, fun r hr => ?_⟩
  obtain ⟨k, hk, hind, hname⟩ := hrows r hr
  obtain ⟨_, _, h3⟩ := two_way_progeny_copies pop xc nm np xo rf rm [] [] prog hgen
  obtain ⟨f, m, hf, hm, hp⟩ := h3 k hk
  refine ⟨k, f, m, hname, hf, hm, ?_⟩
  rw [List.getElem?_eq_getElem hk] at hp
  rw [hind]; exact Option.some.inj hp

/-- **Selfing generations are iterated single meioses — every protocol, every `nself`.**  Whenever `generate`
    succeeds there are the hybrid population `hyb` (built by the protocol's crosses) and the draw matrices `d1`
    still unread at that point such that the selfing loop consumed exactly the next `2·nself` matrices and
    produced `selfGens xo nself hyb d1`: generation by generation, both chromosome copies of plant k are the
    gametes `meiosisRow` of plant k of the previous generation (`selfing_generation_row`), copy 0 under row k of
    the first matrix of that generation, copy 1 under row k of the second.  The four non-DH protocols return
    that population; the three DH protocols apply one `mat_dh` to it (`dh_progeny_copies`).  So every meiosis
    of the pedigree is an instance of `mat_meiosis_mosaic` on draw rows used by no other meiosis, and the laws
    of sections B–E apply to each of them (`progeny_copies_independent`, `two_generation_recombination_law`). -/
theorem selfing_generations_are_single_meioses (P : Proto) (pop : Pop α) (xc : List (List Nat))
    (nm np : List Nat) (nself : Nat) (xo : List ρ) (d rest : List (DrawMat ρ)) (prog : Pop α)
    (h : generate P pop xc nm np nself xo d = .ok (prog, rest)) :
    ∃ (hyb : Pop α) (d1 : List (DrawMat ρ)), 2 * nself ≤ d1.length ∧
      (selfGens xo nself hyb d1).length = hyb.length ∧
      (if P.isDH then
         dhE (selfGens xo nself hyb d1) (Np.repeatEach (Np.repeatEach nm np) (Np.arange 0 hyb.length)) xo
           (d1.drop (2 * nself)) = .ok (prog, rest)
       else prog = selfGens xo nself hyb d1 ∧ rest = d1.drop (2 * nself)) := by
  obtain ⟨hyb, d1, selfed, d2, hs, ht⟩ := generate_selfing_stage P pop xc nm np nself xo d prog rest h
  obtain ⟨i1, i2, i3, i4⟩ := selfLoop_eq_selfGens hyb.length nself rfl hs
  refine ⟨hyb, d1, i1, by rw [← i3]; exact i4, ?_⟩
  cases hP : P.isDH
  · simp only [hP, Bool.false_eq_true, if_false, Prod.mk.injEq] at ht ⊢
    exact ⟨ht.1.trans i3, ht.2.trans i2⟩
  · simp only [hP, if_true] at ht ⊢
    rw [← i3, ← i2, ← i4]
    exact ht

/-- **The call pattern, from C01's protocol model.**  Whenever `generate` succeeds it has consumed exactly
    `nCalls P nself` draw matrices (two per `mat_mate`, one per `mat_dh`: the crosses of the protocol, two per
    selfing generation, one for the doubled haploids) — and each of them had the shape `(len(sel), nvrnt)` the
    meiosis it fed asks for (`Meiosis.meiosisE` rejects any other).  `protoCalls`, the call-pattern oracle of the
    harness, lists that many calls. -/
theorem draw_matrices_consumed (P : Proto) (pop : Pop α) (xc : List (List Nat)) (nm np : List Nat) (nself : Nat)
    (xo : List ρ) (d rest : List (DrawMat ρ)) (prog : Pop α)
    (h : generate P pop xc nm np nself xo d = .ok (prog, rest)) :
    d.length = rest.length + nCalls P nself ∧
    ∀ M N, (protoCalls (protoName P) M N nself).map List.length = some (nCalls P nself) :=
  ⟨generate_consumes P pop xc nm np nself xo d prog rest h, fun M N => protoCalls_length P M N nself⟩

/-- **Two-way cross with `nself` selfing generations, all meioses named.**  Hybrid k = (gamete of the k-th
    repeated female under row k of `rf`, gamete of the k-th repeated male under row k of `rm`); the progeny
    returned are `selfGens xo nself hyb rest`, i.e. the next `2·nself` draw matrices read two per generation. -/
theorem two_way_selfed_progeny_copies (pop : Pop α) (xc : List (List Nat)) (nm np : List Nat) (nself : Nat)
    (xo : List ρ) (rf rm : DrawMat ρ) (rest rest' : List (DrawMat ρ)) (prog : Pop α)
    (h : generate .twoWay pop xc nm np nself xo (rf :: rm :: rest) = .ok (prog, rest')) :
    ∃ hyb : Pop α,
      (∀ k (hk : k < hyb.length), ∃ f m,
        pop[(Np.repeatEach (List.zipWith (· * ·) nm np) (col xc 0)).getD k 0]? = some f ∧
        pop[(Np.repeatEach (List.zipWith (· * ·) nm np) (col xc 1)).getD k 0]? = some m ∧
        hyb[k]? = some (meiosisRow f.1 f.2 (rf.getD k []) xo, meiosisRow m.1 m.2 (rm.getD k []) xo)) ∧
      2 * nself ≤ rest.length ∧ prog = selfGens xo nself hyb rest ∧ rest' = rest.drop (2 * nself) := by
  simp only [generate] at h
  split at h
  · cases h
  · rename_i hyb d1 hm
    obtain ⟨e1, _, _, h4⟩ := mateE_row hm
    subst e1
    obtain ⟨i1, i2, i3, _⟩ := selfLoop_eq_selfGens hyb.length nself rfl h
    exact ⟨hyb, h4, i1, i3, i2⟩

/-- one generation of `selfGens`: progeny k from plant k, one draw row per copy -/
theorem selfing_generation_row (xo : List ρ) (pop : Pop α) (rf rm : DrawMat ρ) (k : Nat) (hk : k < pop.length) :
    (selfGen xo pop rf rm)[k]? =
      some (meiosisRow pop[k].1 pop[k].2 (rf.getD k []) xo, meiosisRow pop[k].1 pop[k].2 (rm.getD k []) xo) := by
  simp [selfGen, List.getElem?_map, List.getElem?_zipIdx, hk]

end wiring

section wiringlaw
variable {α : Type} [Field α] [CharZero α]

/-- **The two copies of a progeny recombine independently.**  The crossover indicators of the female and of
    the male meiosis of one progeny are the masks of two different draw rows (`two_way_progeny_copies`);
    laid side by side they are independent Bernoulli(xs ++ xs), and any event of the first copy is
    independent of any event of the second. -/
theorem progeny_copies_independent (xs : List α) (G H : List Bool → α) :
    E (xs ++ xs) (fun b => G (b.take xs.length) * H (b.drop xs.length)) = E xs G * E xs H :=
  E_split_append xs xs G H

/-- **Recombination law of the progeny's two copies.**  P(copy 0 recombines between i<j and copy 1
    recombines between i'<j') = pairProb(i,j) · pairProb(i',j'); in particular each copy alone follows
    `recomb_pair`. -/
theorem progeny_recombination_law (xs : List α) (i j i' j' : Nat) (hij : i < j) (hj : j < xs.length)
    (hij' : i' < j') (hj' : j' < xs.length) :
    E (xs ++ xs) (fun b =>
        ind ((phases (b.take xs.length)).getD i false != (phases (b.take xs.length)).getD j false) *
        ind ((phases (b.drop xs.length)).getD i' false != (phases (b.drop xs.length)).getD j' false)) =
      pairProb xs i j * pairProb xs i' j' := by
  have := progeny_copies_independent xs
    (fun m => ind ((phases m).getD i false != (phases m).getD j false))
    (fun m => ind ((phases m).getD i' false != (phases m).getD j' false))
  rw [recomb_pair xs i j hij hj, recomb_pair xs i' j' hij' hj'] at this
  exact this

/-- the copies transmitted by the mother and by the father at any two loci are independent, and with a
    1/2 at or before each locus every combination has probability 1/4 -/
theorem progeny_segregation_law (xs : List α) (k k' j j' : Nat) (hk : k ≤ j) (hj : j < xs.length)
    (hk' : k' ≤ j') (hj' : j' < xs.length) (h1 : xs[k] = 1 / 2) (h2 : xs[k'] = 1 / 2) (a c : Bool) :
    E (xs ++ xs) (fun b => ind ((phases (b.take xs.length)).getD j false == a) *
                           ind ((phases (b.drop xs.length)).getD j' false == c)) = 1 / 4 := by
  have := progeny_copies_independent xs (fun m => ind ((phases m).getD j false == a))
    (fun m => ind ((phases m).getD j' false == c))
  rw [segregation_half xs k j hk hj h1, segregation_half xs k' j' hk' hj' h2] at this
  rw [this]; norm_num

/-- **Identical gametes.**  Two independent meioses on the same vector transmit the same parental copy at EVERY
    marker with probability `Π (x_k² + (1 - x_k)²)` (the statistic "identical gametes k rows apart" of the
    harness: recycled blocks of random numbers make it 1). -/
theorem identical_gametes_law (xs : List α) :
    E (xs ++ xs) (fun b => ind (phases (b.take xs.length) == phases (b.drop xs.length))) = sameProb xs :=
  E_same_phases xs

example : sameProb [(1:ℚ)/2, 1/4] = 1/2 * (5/8) := by norm_num [sameProb]

example : E ([(1:ℚ)/2, 1/10, 1/5] ++ [(1:ℚ)/2, 1/10, 1/5]) (fun b =>
      ind ((phases (b.take 3)).getD 0 false != (phases (b.take 3)).getD 2 false) *
      ind ((phases (b.drop 3)).getD 1 false != (phases (b.drop 3)).getD 2 false)) = 13/50 * (1/5) := by
  have := progeny_recombination_law [(1:ℚ)/2, 1/10, 1/5] 0 2 1 2 (by decide) (by decide) (by decide) (by decide)
  simp only [List.length_cons, List.length_nil] at this
  rw [this]; norm_num [pairProb, oddProb, prodD, dfac]

/-- **Two generations, cell by cell** (the deterministic fact behind the law below): grandparent with copies
    `g0`, `g1`; the parent's two copies are its gametes under the masks `b0`, `b1`; the parent's gamete under
    mask `a` carries at marker k the allele of grandparental copy `lab2 a b0 b1 k`.  Instances in the code:
    a progeny copy of `SelfCross` with `nself = 1`, a doubled haploid of a two-way hybrid selfed once, a
    progeny copy of a two-way cross with `nself = 2` (`selfing_generations_are_single_meioses`). -/
theorem two_generation_cell {γ : Type} (g0 g1 : List γ) (a b0 b1 : List Bool) (n : Nat)
    (e0 : g0.length = n) (e1 : g1.length = n) (ea : a.length = n) (eb0 : b0.length = n) (eb1 : b1.length = n)
    (k : Nat) (hk : k < n) :
    (mosaic (phases a) (mosaic (phases b0) g0 g1) (mosaic (phases b1) g0 g1))[k]? =
      some (if lab2 a b0 b1 k then g1[k] else g0[k]) :=
  two_generation_cell_aux g0 g1 a b0 b1 n e0 e1 ea eb0 eb1 k hk

/-- **Recombination law after a selfing generation.**  Three independent meioses on the same vector `xs` (the
    last one and the two that made the parent's copies; masks laid side by side): markers i < j of the resulting
    gamete carry different grandparental copies with probability
    `(1 - r) r + r (u (1 - v) + (1 - u) v)`, `r = pairProb i j`, `u = phaseProb i`, `v = phaseProb j` — both
    markers read the same parental copy and that copy is recombinant, or they read different parental copies,
    which are independent gametes.  For every vector, every pair of markers. -/
theorem two_generation_recombination_law (xs : List α) (i j : Nat) (hij : i < j) (hj : j < xs.length) :
    E (xs ++ (xs ++ xs)) (fun b =>
        ind (lab2 (b.take xs.length) ((b.drop xs.length).take xs.length) ((b.drop xs.length).drop xs.length) i !=
             lab2 (b.take xs.length) ((b.drop xs.length).take xs.length) ((b.drop xs.length).drop xs.length) j)) =
      pairProb2 xs i j := by
  have hi : i < xs.length := by omega
  -- events of the last meiosis
  let A : Bool → Bool → List Bool → α := fun p q a =>
    ind ((phases a).getD i false == p && (phases a).getD j false == q)
  -- events of the two earlier meioses (t = b0 ++ b1)
  let R0 : List Bool → α := fun t => ind ((phases (t.take xs.length)).getD i false != (phases (t.take xs.length)).getD j false)
  let R1 : List Bool → α := fun t => ind ((phases (t.drop xs.length)).getD i false != (phases (t.drop xs.length)).getD j false)
  let U : Nat → List Bool → α := fun k u => ind ((phases u).getD k false)
  let X01 : List Bool → α := fun t =>
    U i (t.take xs.length) * (1 - U j (t.drop xs.length)) + (1 - U i (t.take xs.length)) * U j (t.drop xs.length)
  let X10 : List Bool → α := fun t =>
    (1 - U j (t.take xs.length)) * U i (t.drop xs.length) + U j (t.take xs.length) * (1 - U i (t.drop xs.length))
  have hsplit : (fun b : List Bool =>
        (ind (lab2 (b.take xs.length) ((b.drop xs.length).take xs.length) ((b.drop xs.length).drop xs.length) i !=
             lab2 (b.take xs.length) ((b.drop xs.length).take xs.length) ((b.drop xs.length).drop xs.length) j) : α)) =
      fun b => A false false (b.take xs.length) * R0 (b.drop xs.length) +
               A true true (b.take xs.length) * R1 (b.drop xs.length) +
               A false true (b.take xs.length) * X01 (b.drop xs.length) +
               A true false (b.take xs.length) * X10 (b.drop xs.length) := by
    funext b
    rw [ind_lab2_bne]
    have e3 : (ind ((phases ((b.drop xs.length).take xs.length)).getD i false !=
        (phases ((b.drop xs.length).drop xs.length)).getD j false) : α) = X01 (b.drop xs.length) := by
      simp only [X01, U]; exact ind_bne _ _
    have e4 : (ind ((phases ((b.drop xs.length).drop xs.length)).getD i false !=
        (phases ((b.drop xs.length).take xs.length)).getD j false) : α) = X10 (b.drop xs.length) := by
      simp only [X10, U]; rw [ind_bne]; ring
    rw [e3, e4]
  rw [hsplit, E_add, E_add, E_add, E_split_append, E_split_append, E_split_append, E_split_append]
  -- the last meiosis
  have hA : ∀ p q, E xs (A p q) =
      (if p then phaseProb xs i else 1 - phaseProb xs i) * (if xor p q then pairProb xs i j else 1 - pairProb xs i j) :=
    fun p q => joint_phase_law xs i j hij hj p q
  -- the two earlier meioses
  have hU : ∀ k, k < xs.length → E xs (U k) = phaseProb xs k := by
    intro k hk
    have := phase_law xs k hk true
    simp only [if_true] at this
    rw [← this]
    apply E_congr; intro b _; simp only [U]; cases (phases b).getD k false <;> rfl
  have hU' : ∀ k, k < xs.length → E xs (fun u => 1 - U k u) = 1 - phaseProb xs k := by
    intro k hk
    rw [E_sub, E_const, hU k hk]
  have hR0 : E (xs ++ xs) R0 = pairProb xs i j := by
    rw [E_take_append xs xs (fun u => ind ((phases u).getD i false != (phases u).getD j false))]
    exact recomb_pair xs i j hij hj
  have hR1 : E (xs ++ xs) R1 = pairProb xs i j := by
    rw [E_drop_append xs xs (fun u => ind ((phases u).getD i false != (phases u).getD j false))]
    exact recomb_pair xs i j hij hj
  have hX01 : E (xs ++ xs) X01 =
      phaseProb xs i * (1 - phaseProb xs j) + (1 - phaseProb xs i) * phaseProb xs j := by
    simp only [X01]
    rw [E_add, E_split_append xs xs (U i) (fun v => 1 - U j v), E_split_append xs xs (fun u => 1 - U i u) (U j),
        hU i hi, hU j hj, hU' i hi, hU' j hj]
  have hX10 : E (xs ++ xs) X10 =
      (1 - phaseProb xs j) * phaseProb xs i + phaseProb xs j * (1 - phaseProb xs i) := by
    simp only [X10]
    rw [E_add, E_split_append xs xs (fun u => 1 - U j u) (U i), E_split_append xs xs (U j) (fun v => 1 - U i v),
        hU i hi, hU j hj, hU' i hi, hU' j hj]
  rw [hA, hA, hA, hA, hR0, hR1, hX01, hX10]
  simp only [Bool.xor_self, Bool.false_eq_true, if_false, if_true, Bool.xor_true, Bool.not_false, Bool.xor_false,
    Bool.not_true, Bool.false_xor, Bool.true_xor]
  unfold pairProb2
  ring

/-- with one half at (or before) both markers — chromosome starts from a genetic map — the two-generation value
    is `r (1 - r) + r/2`; in particular two markers that are unlinked in one meiosis (`r = 1/2`) stay unlinked -/
theorem two_generation_half (xs : List α) (i j k0 k1 : Nat) (hj : j < xs.length) (hk0 : k0 ≤ i) (hk1 : k1 ≤ j)
    (hij : i < j) (h0 : xs[k0] = 1 / 2) (h1 : xs[k1] = 1 / 2) :
    pairProb2 xs i j = pairProb xs i j * (1 - pairProb xs i j) + pairProb xs i j / 2 := by
  have hu : phaseProb xs i = 1 / 2 := by
    have := segregation_half xs k0 i hk0 (by omega) h0 true
    rw [phase_law xs i (by omega) true] at this
    simpa using this
  have hv : phaseProb xs j = 1 / 2 := by
    have := segregation_half xs k1 j hk1 hj h1 true
    rw [phase_law xs j hj true] at this
    simpa using this
  unfold pairProb2
  rw [hu, hv]
  ring

example : pairProb2 [(1:ℚ)/2, 1/10, 1/5] 0 2 = 13/50 * (37/50) + 13/50 / 2 := by
  norm_num [pairProb2, pairProb, phaseProb, oddProb, prodD, dfac]
example : E ([(1:ℚ)/2, 1/4] ++ ([(1:ℚ)/2, 1/4] ++ [(1:ℚ)/2, 1/4])) (fun b =>
      ind (lab2 (b.take 2) ((b.drop 2).take 2) ((b.drop 2).drop 2) 0 !=
           lab2 (b.take 2) ((b.drop 2).take 2) ((b.drop 2).drop 2) 1)) = 5/16 := by
  have := two_generation_recombination_law [(1:ℚ)/2, 1/4] 0 1 (by decide) (by decide)
  simp only [List.length_cons, List.length_nil] at this
  rw [this]; norm_num [pairProb2, pairProb, phaseProb, oddProb, prodD, dfac]
example : lab2 [true, false] [false, true] [false, false] 0 = false ∧
    lab2 [true, false] [false, true] [false, false] 1 = false := by decide

end wiringlaw

section wiringdraws
variable {α : Type} [Field α] [LinearOrder α] [IsStrictOrderedRing α] [FloorRing α]

/-- the same from the draws: the `2m` draws of one progeny (row k of the female matrix, row k of the male
    matrix) independent and uniform on the grid ⇒ the two copies recombine independently with the pairwise
    formula at the grid-rounded probabilities; the mask of the concatenated draw rows is the two masks side
    by side (`xoMask_append`). -/
theorem progeny_recombination_law_draws (N : Nat) (hN : 0 < N) (xo : List α) (i j i' j' : Nat)
    (hij : i < j) (hj : j < xo.length) (hij' : i' < j') (hj' : j' < xo.length) :
    Edraw (gridPts N) (xo ++ xo) (fun b =>
        ind ((phases (b.take xo.length)).getD i false != (phases (b.take xo.length)).getD j false) *
        ind ((phases (b.drop xo.length)).getD i' false != (phases (b.drop xo.length)).getD j' false)) =
      pairProb (xo.map (gridProb N)) i j * pairProb (xo.map (gridProb N)) i' j' := by
  rw [draws_pushforward N hN, List.map_append]
  have := progeny_recombination_law (xo.map (gridProb N)) i j i' j' hij (by simpa using hj) hij' (by simpa using hj')
  simpa using this

theorem progeny_masks_side_by_side (a b xo : List α) (h : a.length = xo.length) :
    xoMask (a ++ b) (xo ++ xo) = xoMask a xo ++ xoMask b xo :=
  xoMask_append a b xo xo h

end wiringdraws

/-! ## G. any number of selfing generations (`nself` arbitrary) -/
section generations
variable {α : Type} [Field α] [CharZero α]

/-- **Recombination law after `n` selfing generations — every `n`, every vector, every pair of markers, both
    copies.**  A founder (copies 0 and 1) is selfed `n` times; the `2n` meioses of the line are independent
    instances of the single-meiosis law (masks laid side by side, oldest generation first:
    `selfing_generations_are_single_meioses`, `selfed_plant_cell`).  Marker i of copy `c` and marker j of copy
    `c'` of the generation-`n` plant carry different founder copies with probability
      `pairProbN = selfIter r w n 0`  when `c = c'` (one chromosome copy: the realised recombination),
      `crossProbN = selfIter r w n 1` when `c ≠ c'` (the two copies of one plant),
    where `r = pairProb i j`, `w = u (1 - v) + (1 - u) v`, `u, v = phaseProb i, j`, and one generation acts by
    `x ↦ r (1 - x) + w x`.  `n = 1` is `recomb_pair`, `n = 2` is `two_generation_recombination_law`
    (`pairProbN_two`). -/
theorem n_generation_recombination_law (xs : List α) (i j : Nat) (hij : i < j) (hj : j < xs.length)
    (n : Nat) (c c' : Bool) :
    E (rep (2 * n) xs) (fun b => ind (labO xs.length n b c i != labO xs.length n b c' j)) =
      if c = c' then pairProbN xs i j n else crossProbN xs i j n := by
  have hU : ∀ k, k < xs.length → E xs (fun b => ind ((phases b).getD k false)) = phaseProb xs k := by
    intro k hk
    have := phase_law xs k hk true
    simp only [if_true] at this
    rw [← this]
    apply E_congr; intro b _; cases (phases b).getD k false <;> rfl
  rw [labO_law_aux xs i j _ _ _ (recomb_pair xs i j hij hj) (hU i (by omega)) (hU j hj) n c c']
  unfold pairProbN crossProbN crossProb
  cases c <;> cases c' <;> simp [ind]

/-- one and two generations are the earlier theorems' closed forms -/
theorem pairProbN_one (xs : List α) (i j : Nat) : pairProbN xs i j 1 = pairProb xs i j := by
  simp [pairProbN, selfIter, selfStep]

theorem pairProbN_two (xs : List α) (i j : Nat) : pairProbN xs i j 2 = pairProb2 xs i j := by
  simp only [pairProbN, selfIter, selfStep, pairProb2, crossProb]
  ring

/-- **Closed form with fair segregation** (a crossover probability 1/2 at or before both markers — chromosome
    starts assigned from a genetic map): after `n` selfing generations the recombination frequency inside one
    chromosome copy is `2r (1 - (1/2 - r)^n) / (1 + 2r)` (division-free form; `1 + 2r ≠ 0` for `r ≥ 0`). -/
theorem selfing_recombination_closed_form (xs : List α) (i j k0 k1 : Nat) (hij : i < j) (hj : j < xs.length)
    (hk0 : k0 ≤ i) (hk1 : k1 ≤ j) (h0 : xs[k0] = 1 / 2) (h1 : xs[k1] = 1 / 2) (n : Nat) :
    (1 + 2 * pairProb xs i j) * pairProbN xs i j n =
      2 * pairProb xs i j * (1 - (1 / 2 - pairProb xs i j) ^ n) := by
  have hu : phaseProb xs i = 1 / 2 := by
    have := segregation_half xs k0 i hk0 (by omega) h0 true
    rw [phase_law xs i (by omega) true] at this
    simpa using this
  have hv : phaseProb xs j = 1 / 2 := by
    have := segregation_half xs k1 j hk1 hj h1 true
    rw [phase_law xs j hj true] at this
    simpa using this
  have hw : crossProb xs i j = 1 / 2 := by
    unfold crossProb; rw [hu, hv]; norm_num
  have := selfIter_closed (pairProb xs i j) (1 / 2) 0 n
  unfold pairProbN
  rw [hw]
  linear_combination 2 * this

/-- **Doubled haploids after `n` selfing generations** (the DH protocols with `nself = n`: `dh_progeny_copies`
    is one more `mat_dh` on the selfed population).  The gamete's own meiosis and the `2n` meioses of the plant's
    line are independent; markers i < j of the doubled haploid carry different founder copies with probability
    `pairProbN … (n + 1)` — the doubled haploid is, in law, one chromosome copy of generation `n + 1`. -/
theorem dh_after_selfing_recombination_law (xs : List α) (i j : Nat) (hij : i < j) (hj : j < xs.length) (n : Nat) :
    E (xs ++ rep (2 * n) xs) (fun b => ind (labDH xs.length n b i != labDH xs.length n b j)) =
      pairProbN xs i j (n + 1) := by
  let A : Bool → Bool → List Bool → α := fun p q a =>
    ind ((phases a).getD i false == p && (phases a).getD j false == q)
  let Q : Bool → Bool → List Bool → α := fun p q t =>
    ind (labO xs.length n t p i != labO xs.length n t q j)
  have hsplit : (fun b : List Bool => (ind (labDH xs.length n b i != labDH xs.length n b j) : α)) =
      fun b => A false false (b.take xs.length) * Q false false (b.drop xs.length) +
               A false true (b.take xs.length) * Q false true (b.drop xs.length) +
               A true false (b.take xs.length) * Q true false (b.drop xs.length) +
               A true true (b.take xs.length) * Q true true (b.drop xs.length) := by
    funext b
    simp only [labDH, A, Q]
    cases (phases (b.take xs.length)).getD i false <;> cases (phases (b.take xs.length)).getD j false <;>
      simp [ind]
  rw [hsplit, E_add, E_add, E_add, E_split_append, E_split_append, E_split_append, E_split_append]
  have hA : ∀ p q, E xs (A p q) =
      (if p then phaseProb xs i else 1 - phaseProb xs i) * (if xor p q then pairProb xs i j else 1 - pairProb xs i j) :=
    fun p q => joint_phase_law xs i j hij hj p q
  have hQ : ∀ p q, E (rep (2 * n) xs) (Q p q) = if p = q then pairProbN xs i j n else crossProbN xs i j n :=
    fun p q => n_generation_recombination_law xs i j hij hj n p q
  rw [hA, hA, hA, hA, hQ, hQ, hQ, hQ]
  have hnew := selfIter_newest (pairProb xs i j) (crossProb xs i j) n
  simp only [pairProbN, crossProbN] at hnew ⊢
  rw [hnew]
  simp
  ring

example : pairProbN [(1:ℚ)/2, 1/10, 1/5] 0 2 3 = 13/50 * (1 - (1/2 - 13/50)^3) * 2 / (1 + 2 * (13/50)) := by
  norm_num [pairProbN, selfIter, selfStep, crossProb, pairProb, phaseProb, oddProb, prodD, dfac]
example : E (rep (2 * 1) [(1:ℚ)/2, 1/4]) (fun b => ind (labO 2 1 b false 0 != labO 2 1 b true 1)) = 1/2 := by
  have := n_generation_recombination_law [(1:ℚ)/2, 1/4] 0 1 (by decide) (by decide) 1 false true
  simp only [List.length_cons, List.length_nil] at this
  rw [this]; norm_num [crossProbN, selfIter, selfStep, crossProb, pairProb, phaseProb, oddProb, prodD, dfac]
example : labO 2 2 ([true, false] ++ [false, true] ++ ([false, false] ++ [true, true])) true 1 = true := by decide

end generations

section generationsOrd
variable {α : Type} [Field α] [LinearOrder α] [IsStrictOrderedRing α]

/-- **Selfing to fixation.**  With crossover probabilities in [0, 1/2] and fair segregation, the recombination
    frequency inside one chromosome copy after `n` selfing generations is within `(1/2)^n` of the
    Haldane–Waddington value `2r / (1 + 2r)` of recombinant inbred lines — for every vector and marker pair. -/
theorem selfing_recombination_converges (xs : List α) (hx : ∀ x ∈ xs, 0 ≤ x ∧ x ≤ 1 / 2)
    (i j k0 k1 : Nat) (hij : i < j) (hj : j < xs.length) (hk0 : k0 ≤ i) (hk1 : k1 ≤ j)
    (h0 : xs[k0] = 1 / 2) (h1 : xs[k1] = 1 / 2) (n : Nat) :
    |pairProbN xs i j n - 2 * pairProb xs i j / (1 + 2 * pairProb xs i j)| ≤ (1 / 2) ^ n := by
  have hu : phaseProb xs i = 1 / 2 := by
    have := segregation_half xs k0 i hk0 (by omega) h0 true
    rw [phase_law xs i (by omega) true] at this
    simpa using this
  have hv : phaseProb xs j = 1 / 2 := by
    have := segregation_half xs k1 j hk1 hj h1 true
    rw [phase_law xs j hj true] at this
    simpa using this
  have hw : crossProb xs i j = 1 / 2 := by
    unfold crossProb; rw [hu, hv]; norm_num
  obtain ⟨r0, r1⟩ := pairProb_le_half xs hx i j
  unfold pairProbN
  rw [hw]
  exact selfIter_half_close _ r0 r1 n

end generationsOrd

section generationsCells
open Meiosis Mating
variable {α ρ : Type} [LinearOrder ρ] [Zero ρ]

/-- **`n` generations, cell by cell** (the deterministic fact behind `n_generation_recombination_law`): founder
    copies `g0`, `g1`; masks of the `2n` meioses oldest generation first; copy `c` of the generation-`n` plant
    carries at marker k the allele of founder copy `labO m n b c k`. -/
theorem n_generation_cell {γ : Type} (m n : Nat) (g0 g1 : List γ) (b : List Bool)
    (e0 : g0.length = m) (e1 : g1.length = m) (eb : b.length = 2 * n * m) (c : Bool) (k : Nat) (hk : k < m) :
    (if c then (selfMosaic m n g0 g1 b).2 else (selfMosaic m n g0 g1 b).1)[k]? =
      (if labO m n b c k then g1 else g0)[k]? :=
  selfMosaic_cell m n g0 g1 b e0 e1 eb c k hk

/-- **The selfing loop of every protocol, plant by plant and cell by cell.**  `selfGens xo n pop d` is what the
    `for i in range(nself)` loop of all seven `mate()` computes (`selfing_generations_are_single_meioses`).  For
    plant `k` whose draw rows have one entry per marker (`RowsOK`): copy `c` of its `n`-th selfed descendant
    carries at marker `j` the allele of copy `labO … c j` of plant `k` itself, where the masks are the
    comparisons of ITS OWN rows (row k of the two draw matrices of each generation) with `xoprob` — no draw of
    another plant or another generation enters. -/
theorem selfed_plant_cell (xo : List ρ) (n : Nat) (pop : Pop α) (d : List (DrawMat ρ)) (k : Nat)
    (hk : k < pop.length) (e0 : pop[k].1.length = xo.length) (e1 : pop[k].2.length = xo.length)
    (hd : RowsOK xo k n d) (c : Bool) (j : Nat) (hj : j < xo.length) :
    ∃ q, (selfGens xo n pop d)[k]? = some q ∧
      (if c then q.2 else q.1)[j]? =
        (if labO xo.length n (plantMasks xo k n d) c j then pop[k].2 else pop[k].1)[j]? := by
  refine ⟨_, selfGens_eq_selfMosaic xo n pop d k hk e0 e1 hd, ?_⟩
  exact selfMosaic_cell xo.length n _ _ _ e0 e1 (plantMasks_length xo k n d hd) c j hj

/-- **Every non-DH protocol, every `nself`: the returned progeny cell by cell.**  Whenever `generate` succeeds
    for `SelfCross`, `TwoWayCross`, `ThreeWayCross` or `FourWayCross` there are the hybrid population `hyb` built by
    the protocol's crosses and the draw matrices `d1` of the selfing stage such that progeny k is the `nself`-th
    selfed descendant of hybrid k: copy `c`, marker `j` carries the allele of copy `labO …` of hybrid k, the masks
    being the comparisons of row k of the `2·nself` selfing draw matrices with `xoprob`
    (`n_generation_recombination_law` is the law of exactly this label). -/
theorem protocol_selfed_progeny_cell (P : Proto) (hP : P.isDH = false) (pop : Pop α) (xc : List (List Nat))
    (nm np : List Nat) (nself : Nat) (xo : List ρ) (d rest : List (DrawMat ρ)) (prog : Pop α)
    (h : generate P pop xc nm np nself xo d = .ok (prog, rest)) :
    ∃ (hyb : Pop α) (d1 : List (DrawMat ρ)), prog.length = hyb.length ∧
      ∀ (k : Nat) (hk : k < hyb.length), hyb[k].1.length = xo.length → hyb[k].2.length = xo.length →
        RowsOK xo k nself d1 → ∀ (c : Bool) (j : Nat), j < xo.length →
          ∃ q, prog[k]? = some q ∧
            (if c then q.2 else q.1)[j]? =
              (if labO xo.length nself (plantMasks xo k nself d1) c j then hyb[k].2 else hyb[k].1)[j]? := by
  obtain ⟨hyb, d1, _, hlen, hrest⟩ := selfing_generations_are_single_meioses P pop xc nm np nself xo d rest prog h
  simp only [hP, Bool.false_eq_true, if_false] at hrest
  obtain ⟨hprog, _⟩ := hrest
  refine ⟨hyb, d1, by rw [hprog, hlen], fun k hk e0 e1 hd c j hj => ?_⟩
  rw [hprog]
  exact selfed_plant_cell xo nself hyb d1 k hk e0 e1 hd c j hj

example : selfMosaic 2 2 [10, 11] [20, 21] [true, false, false, true, true, true, false, false] =
    ([10, 21], [20, 21]) := by decide
example : labO 2 2 [true, false, false, true, true, true, false, false] false 1 = true := by decide
example : plantMasks [(1:Rat)/2, 1/4] 0 2 [[[1/4, 1/2]], [[3/4, 1/8]], [[1/4, 1/8]], [[3/4, 3/4]]] =
    [true, false, false, true, true, true, false, false] := by decide +kernel
example : RowsOK [(1:Rat)/2, 1/4] 0 2 [[[1/4, 1/2]], [[3/4, 1/8]], [[1/4, 1/8]], [[3/4, 3/4]]] := by
  simp [RowsOK]

end generationsCells

-- non-vacuity of the wiring theorems: a two-way cross 0 x 1 with one mating and two progeny
example : Mating.generate (α := Int) .twoWay [([10, 11], [20, 21]), ([30, 31], [40, 41])] [[0, 1]] [1] [2] 0
    [(1:Rat)/2, 1/4] [[[1/4, 1/2], [3/4, 1/8]], [[3/4, 3/4], [1/4, 1/8]]] =
    .ok ([([20, 21], [30, 31]), ([10, 21], [40, 31])], []) := by decide +kernel
example : Mating.generate (α := Int) .twoWay [([10, 11], [20, 21]), ([30, 31], [40, 41])] [[0, 1]] [1] [1] 1
    [(1:Rat)/2, 1/4] [[[1/4, 1/2]], [[3/4, 3/4]], [[3/4, 1/8]], [[1/4, 1/2]]] =
    .ok ([([20, 31], [30, 31])], []) := by decide +kernel
example : Recomb.selfGens (α := Int) [(1:Rat)/2, 1/4] 1 [([20, 21], [30, 31])] [[[3/4, 1/8]], [[1/4, 1/2]]] =
    [([20, 31], [30, 31])] := by decide +kernel
example : Mating.generate (α := Int) .twoWayDH [([10, 11], [20, 21]), ([30, 31], [40, 41])] [[0, 1]] [1] [2] 0
    [(1:Rat)/2, 1/4] [[[1/4, 1/2]], [[3/4, 3/4]], [[1/4, 1/2], [3/4, 1/8]]] =
    .ok ([([30, 31], [30, 31]), ([20, 31], [20, 31])], []) := by decide +kernel

/-! ## Round 5: histories over several matrix objects that hold their arrays by reference

Every mating protocol, `select_taxa` and a constructor call on the arrays of another matrix hand the parents'
`vrnt_genpos` / `vrnt_xoprob` array OBJECTS on; `interp_xoprob` assigns two new arrays to the object it is called on
(`Model/RecombShare.lean`: a heap that only grows, objects = pairs of references). -/
section sharedArrays
variable {α : Type} [Field α] [CharZero α]
open RecombShare

/-- **`interp_xoprob` on one object leaves every other object alone**: whatever the history before (any number of
    objects derived from each other, all sharing arrays), object `j ≠ i` reads the same genetic positions and
    crossover probabilities after `interp_xoprob` on object `i` as before. -/
theorem interp_leaves_others_alone {β : Type} (st : St β) (ops : List (Op β)) (i j : Nat) (gp xo : β)
    (h : WF st) (hij : j ≠ i) :
    read (step (run st ops) (.interp i gp xo)) j = read (run st ops) j := by
  have hwf : ∀ (ops : List (Op β)) (st : St β), WF st → WF (run st ops) := by
    intro ops
    induction ops with
    | nil => intro st h; exact h
    | cons op rest ih => intro st h; exact ih _ (wf_step st op h)
  exact read_interp_ne _ i j gp xo (hwf ops st h) hij

/-- … and the object itself reads exactly what was assigned. -/
theorem interp_reads_assigned {β : Type} (st : St β) (i : Nat) (gp xo : β) (hi : i < st.objs.length) :
    read (step st (.interp i gp xo)) i = some (gp, xo) :=
  read_interp_self st i gp xo hi

/-- **Every object of every history stays consistent**: if every `interp_xoprob` of the history assigns a pair
    (positions, probabilities) related by `P`, then after the whole history (objects derived from each other in any
    order, any of them re-interpolated any number of times) EVERY object reads a pair related by `P`. -/
theorem history_objects_consistent {β : Type} (P : β → β → Prop) (st : St β) (ops : List (Op β))
    (hg : Good P st) (hops : ∀ op ∈ ops, OkOp P op) : Good P (run st ops) :=
  good_run P ops st hg hops

/-- the instance the harness checks (`kind = shared`): `P gp xo` := "xo is what SOME map function assigns to the
    distances of gp"; every object of the history then passes the chromosome-start Spec `specStarts` on what it reads -/
theorem history_objects_pass_spec_starts [DecidableEq α] (chr : List Int) (st : St (List α)) (ops : List (Op (List α)))
    (hg : Good (fun gp xo => chr.length = gp.length ∧ ∃ h : α → α, xo = rprob1g h chr gp) st)
    (hops : ∀ op ∈ ops, OkOp (fun gp xo => chr.length = gp.length ∧ ∃ h : α → α, xo = rprob1g h chr gp) op)
    (i : Nat) (hi : i < (run st ops).objs.length) :
    ∃ gp xo, read (run st ops) i = some (gp, xo) ∧ specStarts chr (xo.map some) = true := by
  obtain ⟨p, hp, hl, h, hx⟩ := (good_run _ ops st hg hops).2 i hi
  exact ⟨p.1, p.2, by rw [hp], by rw [hx]; exact spec_starts_sound h chr p.1 hl⟩

-- non-vacuity: parent interpolated (arrays 0/1), child derived, child re-interpolated: the parent reads the old arrays
example : let st := run (⟨[10, 11], [⟨1, 0⟩]⟩ : St Nat) [.derive 0, .interp 1 20 21]
    (read st 0, read st 1) = (some (10, 11), some (20, 21)) := by decide
example : WF (⟨[10, 11], [⟨1, 0⟩]⟩ : St Nat) := by
  intro o ho; simp at ho; subst ho; simp
example : Good (fun gp xo => xo = gp + 1) (⟨[10, 11], [⟨1, 0⟩]⟩ : St Nat) := by
  refine ⟨by intro o ho; simp at ho; subst ho; simp, ?_⟩
  intro i hi
  have : i = 0 := by simpa using hi
  subst this
  exact ⟨(10, 11), by decide, rfl⟩
/-- the in-place variant (`self._vrnt_xoprob[:] = xoprob`, NOT what the code does) breaks the other object: the
    parent then reads the new probabilities next to its old positions -/
example : let st := interpInPlace (run (⟨[10, 11], [⟨1, 0⟩]⟩ : St Nat) [.derive 0]) 1 20 21
    read st 0 = some (10, 21) := by decide

end sharedArrays

end C02
