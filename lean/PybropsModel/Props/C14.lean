/-
C14 — Phenotyping and breeding-value estimation preserve truth and alignment.
Property theorems only (helper lemmas: Lemmas/PhenoLoop, PhenoBV, PhenoKey, PhenoH2).

Model: PybropsModel/Model/Pheno.lean
  `envLoop` / `repLoop` / `block` transcribe G_E_Phenotyping.phenotype l.415-451 (the normal draws are the oracle
  stream consumed in call order), `phenotype` adds the default labels and the shape checks;
  `errVar` / `setH2` transcribe set_h2 / set_H2; `meanBV` (= `aggKeys`, `agg`, `lookupLast`) transcribes
  MeanPhenotypicBreedingValue.estimate l.132-185.

Clause "with noise the realised environment, replicate and error variances converge to the requested ones":
the model proves that the realised effects of every record ARE the generator's draws, unscaled and unmixed
(`trial_cells`, second component); that the draws are N(0, diag(var_*)) is numpy's contract, whose arguments the
harness records and compares on every case; the limit itself is only tested statistically (`stat` stream).
-/
import PybropsModel.Lemmas.PhenoLoop
import PybropsModel.Lemmas.PhenoBV
import PybropsModel.Lemmas.PhenoKey
import PybropsModel.Lemmas.PhenoH2
set_option autoImplicit false
set_option linter.unusedSectionVars false

namespace C14
open Pheno

/-! ## 1. the simulated field trial -/
section trial
variable {L G α : Type} [Add α]

/-- **The transcribed double loop is the closed form.**  Fed with the stream of draws in call order, the literal loop
    returns the (environment, replicate)-lexicographic concatenation of the blocks, and leaves the rest of the
    stream untouched; conversely every successful run consumed such a stream. -/
theorem loop_eq_closed_form (gv : List (List α)) (labs : List (L × Option G)) (ds : List (EnvDraw α))
    (rest : List (Draw α)) :
    envLoop gv labs 0 (ds.map (fun d => d.reps.length)) (flattenDraws ds ++ rest) = some (envBlocks gv labs 0 ds) :=
  envLoop_flatten gv labs ds 0 rest

/-- **One record per taxon, environment and replicate, with that taxon's labels and value.**
    For every successful run of the loop on `nrep` (replicates per environment) there is a structured view `ds` of the
    consumed draws such that
    * the frame has `ntaxa · Σ nrep` rows;
    * for every environment `e` and replicate `r < nrep[e]` the rows labelled `(e+1, r+1)` are, in genotype order,
      one per taxon: their label columns are exactly the population's label arrays, and their values are
      `true value + env effect(e) + rep effect(e,r) + error(e,r,taxon)` with the effects being the draws themselves;
    * no other rows exist. -/
theorem trial_cells (gv : List (List α)) (labs : List (L × Option G)) (nrep : List Nat) (s : List (Draw α))
    (rows : List (Rec L G α)) (hrun : envLoop gv labs 0 nrep s = some rows)
    (hlab : labs.length = gv.length) (hshape : ∀ m, Draw.mat m ∈ s → m.length = gv.length) :
    ∃ (ds : List (EnvDraw α)) (rest : List (Draw α)),
      ds.map (fun d => d.reps.length) = nrep ∧ s = flattenDraws ds ++ rest ∧
      rows.length = gv.length * nrep.sum ∧
      (∀ e (he : e < ds.length) r (hr : r < ds[e].reps.length),
        (rows.filter (fun x => x.env = e + 1 ∧ x.rep = r + 1)).map (fun x => (x.taxa, x.grp)) = labs ∧
        (rows.filter (fun x => x.env = e + 1 ∧ x.rep = r + 1)).map (fun x => x.vals) =
          List.zipWith (fun g er => vadd (vadd (vadd g ds[e].env) ds[e].reps[r].rep) er) gv ds[e].reps[r].err) ∧
      (∀ x ∈ rows, ∃ e, ∃ (he : e < ds.length), ∃ r, r < ds[e].reps.length ∧ x.env = e + 1 ∧ x.rep = r + 1) := by
  obtain ⟨ds, rest, hd, hs, hrows⟩ := envLoop_some gv labs nrep 0 s rows hrun
  have herr : ∀ d ∈ ds, ∀ rd ∈ d.reps, rd.err.length = gv.length := by
    intro d hd' rd hrd
    apply hshape
    rw [hs]
    exact List.mem_append_left _ (mem_flattenDraws_err ds d hd' rd hrd).1
  refine ⟨ds, rest, hd, hs, ?_, ?_, ?_⟩
  · rw [hrows, envBlocks_length gv labs 0 ds hlab herr, hd]
  · intro e he r hr
    rw [hrows, envBlocks_cell gv labs ds e he r hr]
    have h2 : ds[e].reps[r].err.length = gv.length :=
      herr _ (List.getElem_mem he) _ (List.getElem_mem hr)
    exact ⟨block_labels _ _ _ _ _ _ _ hlab h2, block_vals _ _ _ _ _ _ _ hlab⟩
  · intro x hx
    rw [hrows] at hx
    obtain ⟨e, he, r, hr, hb⟩ := (envBlocks_mem gv labs ds x).mp hx
    obtain ⟨h1, h2⟩ := block_env_rep _ _ _ _ _ _ _ x hb
    exact ⟨e, he, r, hr, h1, h2⟩

/-- the same, indexed by the replicate counts handed to the loop: the cell `(e, r)` exists for every `e < nenv`,
    `r < nrep[e]` and lists every taxon's labels exactly once, in genotype order -/
theorem one_record_per_taxon_env_rep (gv : List (List α)) (labs : List (L × Option G)) (nrep : List Nat)
    (s : List (Draw α)) (rows : List (Rec L G α)) (hrun : envLoop gv labs 0 nrep s = some rows)
    (hlab : labs.length = gv.length) (hshape : ∀ m, Draw.mat m ∈ s → m.length = gv.length) :
    rows.length = gv.length * nrep.sum ∧
    (∀ e (he : e < nrep.length) r, r < nrep[e] →
      (rows.filter (fun x => x.env = e + 1 ∧ x.rep = r + 1)).map (fun x => (x.taxa, x.grp)) = labs) ∧
    (∀ x ∈ rows, ∃ e, ∃ (he : e < nrep.length), ∃ r, r < nrep[e] ∧ x.env = e + 1 ∧ x.rep = r + 1) := by
  obtain ⟨ds, rest, hd, _, hlen, hcell, hrange⟩ := trial_cells gv labs nrep s rows hrun hlab hshape
  subst hd
  refine ⟨hlen, ?_, ?_⟩
  · intro e he r hr
    have he' : e < ds.length := by simpa using he
    have hr' : r < ds[e].reps.length := by simpa using hr
    exact (hcell e he' r hr').1
  · intro x hx
    obtain ⟨e, he, r, hr, h1, h2⟩ := hrange x hx
    exact ⟨e, by simpa using he, r, by simpa using hr, h1, h2⟩

end trial

section zero
variable {L G α : Type} [AddMonoid α]

/-- **Zero noise is exact.**  When every draw is zero (all variances zero) each record equals its taxon's true
    genotypic value: in every cell the pairs (labels, values) are the population's (labels, true values), in order. -/
theorem zero_noise_exact (gv : List (List α)) (labs : List (L × Option G)) (t : Nat) (nrep : List Nat)
    (s : List (Draw α)) (rows : List (Rec L G α)) (hrun : envLoop gv labs 0 nrep s = some rows)
    (hlab : labs.length = gv.length) (hgv : ∀ g ∈ gv, g.length = t)
    (hshape : ∀ d ∈ s, drawShapeOk gv.length t d = true)
    (hzero : ∀ d ∈ s, match d with
      | .vec v => ∀ x ∈ v, x = 0
      | .mat m => ∀ row ∈ m, ∀ x ∈ row, x = 0) :
    ∀ e (he : e < nrep.length) r, r < nrep[e] →
      (rows.filter (fun x => x.env = e + 1 ∧ x.rep = r + 1)).map (fun x => ((x.taxa, x.grp), x.vals)) =
        List.zip labs gv := by
  have hmat : ∀ m, Draw.mat m ∈ s → m.length = gv.length := by
    intro m hm
    have := hshape _ hm
    simp only [drawShapeOk, Bool.and_eq_true, beq_iff_eq] at this
    exact this.1
  obtain ⟨ds, rest, hd, hs, _, hcell, _⟩ := trial_cells gv labs nrep s rows hrun hlab hmat
  subst hd
  intro e he r hr
  have he' : e < ds.length := by simpa using he
  have hr' : r < ds[e].reps.length := by simpa using hr
  obtain ⟨hl, hv⟩ := hcell e he' r hr'
  obtain ⟨hin1, hin2, hin3⟩ := mem_flattenDraws_err ds ds[e] (List.getElem_mem he') ds[e].reps[r] (List.getElem_mem hr')
  have mem : ∀ d, d ∈ flattenDraws ds → d ∈ s := fun d hd => hs ▸ List.mem_append_left _ hd
  -- shapes and zeros of the three draws of this cell
  have henv_len : ds[e].env.length = t := by simpa [drawShapeOk] using hshape _ (mem _ hin3)
  have hrep_len : ds[e].reps[r].rep.length = t := by simpa [drawShapeOk] using hshape _ (mem _ hin2)
  have herr_shape := hshape _ (mem _ hin1)
  simp only [drawShapeOk, Bool.and_eq_true, beq_iff_eq, List.all_eq_true] at herr_shape
  have henv0 := hzero _ (mem _ hin3)
  have hrep0 := hzero _ (mem _ hin2)
  have herr0 := hzero _ (mem _ hin1)
  simp only at henv0 hrep0 herr0
  have hvals : (rows.filter (fun x => x.env = e + 1 ∧ x.rep = r + 1)).map (fun x => x.vals) = gv := by
    rw [hv]
    apply List.ext_getElem
    · simp [herr_shape.1]
    · intro i h1 h2
      simp only [List.getElem_zipWith]
      have hg : gv[i].length = t := hgv _ (List.getElem_mem _)
      have hi : i < ds[e].reps[r].err.length := by simpa using (by simpa using h1 : i < gv.length ∧ _).2
      have her : (ds[e].reps[r].err[i]).length = t := herr_shape.2 _ (List.getElem_mem hi)
      rw [vadd_zero _ _ (by rw [henv_len, hg]) henv0, vadd_zero _ _ (by rw [hrep_len, hg]) hrep0,
        vadd_zero _ _ (by rw [her, hg]) (herr0 _ (List.getElem_mem hi))]
  rw [← hl, ← hvals, List.zip_map']

end zero

section var
variable {L G α : Type} [Field α] [CharZero α]

/-- **Variance clause, algebraic half (error component).**  In every (environment, replicate) cell and every trait the
    realised error variance — the population variance of `record − true value` over the taxa of the cell — equals the
    variance of the error draws themselves: the environment and replicate effects are constant within a cell and cancel,
    nothing is rescaled.  Together with numpy's contract (the draws are i.i.d. N(0, var_err); the covariance argument
    `diag(var_err)` is recorded and compared by the harness on every case) this is what makes the realised error variance
    converge to the requested one.
    FULL STATEMENT (not proved; needs the law of large numbers for the generator's output): for i.i.d. N(0, diag(var_*))
    draws the realised environment, replicate and error variances converge almost surely to var_env, var_rep, var_err as
    the numbers of environments, replicates and taxa grow.  Only tested statistically (`stat` stream of the harness). -/
theorem realised_error_variance_partial (gv : List (List α)) (labs : List (L × Option G)) (t : Nat) (nrep : List Nat)
    (s : List (Draw α)) (rows : List (Rec L G α)) (hrun : envLoop gv labs 0 nrep s = some rows)
    (hlab : labs.length = gv.length) (hgv : ∀ g ∈ gv, g.length = t)
    (hshape : ∀ d ∈ s, drawShapeOk gv.length t d = true) :
    ∃ (ds : List (EnvDraw α)) (rest : List (Draw α)), ds.map (fun d => d.reps.length) = nrep ∧
      s = flattenDraws ds ++ rest ∧
      ∀ e (he : e < ds.length) r (hr : r < ds[e].reps.length) j, j < t →
        popVar (List.zipWith (fun v g => v.getD j 0 - g.getD j 0)
          ((rows.filter (fun x => x.env = e + 1 ∧ x.rep = r + 1)).map (fun x => x.vals)) gv) =
        popVar (ds[e].reps[r].err.map (fun er => er.getD j 0)) := by
  have hmat : ∀ m, Draw.mat m ∈ s → m.length = gv.length := by
    intro m hm
    have := hshape _ hm
    simp only [drawShapeOk, Bool.and_eq_true, beq_iff_eq] at this
    exact this.1
  obtain ⟨ds, rest, hd, hs, _, hcell, _⟩ := trial_cells gv labs nrep s rows hrun hlab hmat
  refine ⟨ds, rest, hd, hs, ?_⟩
  intro e he r hr j hj
  obtain ⟨_, hv⟩ := hcell e he r hr
  obtain ⟨hin1, hin2, hin3⟩ := mem_flattenDraws_err ds ds[e] (List.getElem_mem he) ds[e].reps[r] (List.getElem_mem hr)
  have mem : ∀ d, d ∈ flattenDraws ds → d ∈ s := fun d hd => hs ▸ List.mem_append_left _ hd
  have henv_len : ds[e].env.length = t := by simpa [drawShapeOk] using hshape _ (mem _ hin3)
  have hrep_len : ds[e].reps[r].rep.length = t := by simpa [drawShapeOk] using hshape _ (mem _ hin2)
  have herr_shape := hshape _ (mem _ hin1)
  simp only [drawShapeOk, Bool.and_eq_true, beq_iff_eq, List.all_eq_true] at herr_shape
  rw [hv]
  have : List.zipWith (fun v g => v.getD j 0 - g.getD j 0)
      (List.zipWith (fun g er => vadd (vadd (vadd g ds[e].env) ds[e].reps[r].rep) er) gv ds[e].reps[r].err) gv =
      (ds[e].reps[r].err.map (fun er => er.getD j 0)).map
        (fun x => (ds[e].env.getD j 0 + ds[e].reps[r].rep.getD j 0) + x) := by
    apply List.ext_getElem
    · simp [herr_shape.1]
    · intro i h1 h2
      have hi : i < gv.length := by simp at h1; omega
      have hie : i < ds[e].reps[r].err.length := by rw [herr_shape.1]; exact hi
      have hg : gv[i].length = t := hgv _ (List.getElem_mem _)
      have her : (ds[e].reps[r].err[i]).length = t := herr_shape.2 _ (List.getElem_mem hie)
      simp only [List.getElem_zipWith, List.getElem_map]
      rw [vadd_getD _ _ j (by simp [vadd_length, hg, henv_len, hrep_len, hj]) (by rw [her]; exact hj),
        vadd_getD _ _ j (by simp [vadd_length, hg, henv_len, hj]) (by rw [hrep_len]; exact hj),
        vadd_getD _ _ j (by rw [hg]; exact hj) (by rw [henv_len]; exact hj)]
      ring
  rw [this, popVar_translate]

end var

section toplevel
variable {G α : Type} [Add α]

/-- the wrapper `phenotype` (default names, column names, shape checks) around the loop: what a successful call
    returned.  With names supplied (`taxa = some l`) the labels are those names. -/
theorem phenotype_unfold (gv : List (List α)) (taxa : Option (List String)) (grp : Option (List G))
    (trait : Option (List String)) (t nenv : Nat) (nrep : List Nat) (draws : List (Draw α))
    (cols : List String) (rows : List (Rec String G α))
    (h : phenotype gv taxa grp trait t nenv nrep draws = some (cols, rows)) :
    ∃ tx tr, namesOrDefault "Taxon" taxa gv.length = some tx ∧ namesOrDefault "Trait" trait t = some tr ∧
      (∀ l, taxa = some l → tx = l) ∧
      cols = ["taxa", "taxa_grp", "env", "rep"] ++ tr ∧ tr.length = t ∧
      (labels tx grp).length = gv.length ∧ (∀ g ∈ gv, g.length = t) ∧
      (∀ d ∈ draws, drawShapeOk gv.length t d = true) ∧
      envLoop gv (labels tx grp) 0 (nrep.take nenv) draws = some rows := by
  unfold phenotype at h
  split at h
  · rename_i tx tr htx htr
    split at h
    · rename_i hshape
      simp only [phenoShapeOk, Bool.and_eq_true, beq_iff_eq, List.all_eq_true] at hshape
      obtain ⟨⟨⟨⟨h1, h2⟩, h3⟩, h4⟩, h5⟩ := hshape
      split at h
      · rename_i rws hrun
        simp only [Option.some.injEq, Prod.mk.injEq] at h
        refine ⟨tx, tr, htx, htr, ?_, h.1.symm, h2, ?_, h3, h5, h.2 ▸ hrun⟩
        · intro l hl
          subst hl
          simp only [namesOrDefault, Option.some.injEq] at htx
          exact htx.symm
        · cases grp with
          | none => simp [labels, h1]
          | some g =>
            have : g.length = gv.length := by simpa [grpLenOk] using h4
            simp [labels, h1, this]
      · simp at h
    · simp at h
  · simp at h

/-- **The field-trial clause for `phenotype()`**: exactly one record per taxon, environment and replicate, each carrying
    that taxon's labels (`nenv` environments, `nrep[e]` replicates in environment `e`). -/
theorem phenotype_one_record_per (gv : List (List α)) (taxa : List String) (grp : Option (List G))
    (trait : Option (List String)) (t nenv : Nat) (nrep : List Nat) (draws : List (Draw α))
    (cols : List String) (rows : List (Rec String G α)) (hn : nrep.length = nenv)
    (h : phenotype gv (some taxa) grp trait t nenv nrep draws = some (cols, rows)) :
    rows.length = gv.length * nrep.sum ∧
    (∀ e (he : e < nrep.length) r, r < nrep[e] →
      (rows.filter (fun x => x.env = e + 1 ∧ x.rep = r + 1)).map (fun x => (x.taxa, x.grp)) = labels taxa grp) ∧
    (∀ x ∈ rows, ∃ e, ∃ (he : e < nrep.length), ∃ r, r < nrep[e] ∧ x.env = e + 1 ∧ x.rep = r + 1) := by
  obtain ⟨tx, tr, _, _, htx, _, _, hlab, _, hshape, hrun⟩ := phenotype_unfold gv (some taxa) grp trait t nenv nrep draws cols rows h
  have := htx taxa rfl
  subst this
  have htake : nrep.take nenv = nrep := by rw [← hn]; exact List.take_length
  rw [htake] at hrun
  have hmat : ∀ m, Draw.mat m ∈ draws → m.length = gv.length := by
    intro m hm
    have := hshape _ hm
    simp only [drawShapeOk, Bool.and_eq_true, beq_iff_eq] at this
    exact this.1
  exact one_record_per_taxon_env_rep gv (labels tx grp) nrep draws rows hrun hlab hmat

end toplevel

section truepheno
variable {G α : Type}

/-- **`TruePhenotyping`**: one record per taxon, carrying that taxon's labels, equal to its true genotypic value -/
theorem truePhenotype_rows (gv : List (List α)) (taxa : List String) (grp : Option (List G))
    (trait : Option (List String)) (t : Nat) (cols : List String) (rows : List (String × Option G × List α))
    (h : truePhenotype gv (some taxa) grp trait t = some (cols, rows)) :
    rows.length = gv.length ∧ rows.map (fun r => (r.1, r.2.1)) = labels taxa grp ∧ rows.map (fun r => r.2.2) = gv := by
  unfold truePhenotype at h
  simp only [namesOrDefault] at h
  split at h
  · rename_i tx tr htx htr
    simp only [Option.some.injEq] at htx
    subst htx
    split at h
    · rename_i hshape
      simp only [Bool.and_eq_true, beq_iff_eq] at hshape
      obtain ⟨⟨h1, _⟩, h3⟩ := hshape
      simp only [Option.some.injEq, Prod.mk.injEq] at h
      have hl : (labels taxa grp).length = gv.length := by
        cases grp with
        | none => simp [labels, h1]
        | some g =>
          have : g.length = gv.length := by simpa [grpLenOk] using h3
          simp [labels, h1, this]
      rw [← h.2]
      refine ⟨by simp [hl], ?_, ?_⟩
      · apply List.ext_getElem
        · simp [hl]
        · intro i h1 h2; simp
      · apply List.ext_getElem
        · simp [hl]
        · intro i h1 h2; simp
    · simp at h
  · simp at h

end truepheno

/-! ## 2. heritability -/
section herit
variable {α : Type} [Field α] [LinearOrder α] [IsStrictOrderedRing α]

/-- **Setting a heritability fixes the error variance**: with `var_err = (1 - h²)/h² · var_A`, genetic over
    genetic-plus-error variance equals the target, for every target in `(0,1]` and every positive genetic variance;
    the computed error variance is a variance (non-negative, so the setter accepts it). -/
theorem h2_fixes_error_variance (h2 varA : α) (h0 : 0 < h2) (h1 : h2 ≤ 1) (hA : 0 < varA) :
    heritability varA (errVar h2 varA) = h2 ∧ 0 ≤ errVar h2 varA :=
  ⟨heritability_errVar h2 varA h0 hA, errVar_nonneg h2 varA h0 h1 hA.le⟩

/-- a target of exactly 1 means no error variance -/
theorem h2_one_no_error (varA : α) : errVar 1 varA = 0 := by simp [errVar]

/-- the hypothesis `0 < var_A` is necessary, not a restriction of the code: without genetic variance no error variance
    whatsoever attains a positive target -/
theorem h2_unattainable_without_genetic_variance (h2 varE : α) (h0 : 0 < h2) : heritability 0 varE ≠ h2 := by
  simp only [heritability, zero_div]
  exact ne_of_lt h0

/-- **`set_h2` / `set_H2` on a population, trait by trait**: whatever the true values `gv` (the variance is the
    population variance of each column, hence non-negative), for targets in `(0,1]` the setter succeeds and every trait
    with genetic variance attains its own target. -/
theorem set_h2_per_trait (t : Nat) (gv : List (List α)) (h2 : List α) (hl : h2.length = t)
    (hh : ∀ h ∈ h2, 0 < h ∧ h ≤ 1) :
    ∃ v, setH2 h2 (varCols t gv) = some v ∧ v.length = t ∧
      ∀ j (hj : j < t), 0 < (varCols t gv)[j]'(by rw [varCols_length]; exact hj) →
        heritability ((varCols t gv)[j]'(by rw [varCols_length]; exact hj)) (v[j]?.getD 0) = h2[j]'(hl ▸ hj) := by
  refine ⟨_, setH2_eq h2 (varCols t gv) hh (varCols_nonneg t gv), by simp [hl, varCols_length], ?_⟩
  intro j hj hpos
  have h1 : j < h2.length := hl ▸ hj
  have h2' : j < (varCols t gv).length := by rw [varCols_length]; exact hj
  have : (List.zipWith errVar h2 (varCols t gv))[j]? = some (errVar h2[j] (varCols t gv)[j]) := by
    rw [List.getElem?_eq_getElem (by simp [h1, h2'])]
    simp
  rw [this]
  exact heritability_errVar _ _ (hh _ (List.getElem_mem h1)).1 hpos

end herit

/-! ## 3. mean-phenotype breeding values -/
section bv
variable {L G α : Type} [DecidableEq L] [DecidableEq G] [Field α]

/-- **Mean, missing and alignment in one equation (taxon = name, `taxa_grp_col = None`).**  For every phenotype table
    and every list of genotype taxa — unsorted, with repeats, with taxa that were never phenotyped — row `i` of the
    result is the per-trait arithmetic mean over the records named `gtTaxa[i]`, or missing if there is none. -/
theorem meanBV_eq_mean (le : (L × Option G) → (L × Option G) → Bool) (t : Nat) (recs : List (Rec L G α))
    (gtTaxa : List L) :
    meanBV le false t recs gtTaxa = gtTaxa.map (meanOrMissing t recs) := by
  unfold meanBV
  apply List.map_congr_left
  intro name _
  exact lookupLast_eq_meanOrMissing le false t recs (keyByName_nogrp recs) name

/-- what "arithmetic mean" means here: trait `j` of the row is `Σ values / count` over the taxon's records -/
theorem meanOrMissing_entry (t : Nat) (recs : List (Rec L G α)) (name : L) (hne : recordsOf recs name ≠ [])
    (j : Nat) (hj : j < t) :
    ((meanOrMissing t recs name).map (fun row => row[j]?)) =
      some (some (Np.sum ((recordsOf recs name).filterMap (fun r => r.vals[j]?)) /
        (((recordsOf recs name).filterMap (fun r => r.vals[j]?)).length : α))) := by
  unfold meanOrMissing
  rw [if_neg hne]
  simp only [Option.map_some, colMeans, Option.some.injEq]
  rw [List.getElem?_eq_getElem (by simpa using hj)]
  simp [mean, List.filterMap_map]

/-- with `taxa_grp_col` set: the same equation when a name never occurs under two different group labels (`KeyByName`;
    taxon identity = name).  Records without group label (ungrouped population) are kept by the group-by (D18 fixed).
    FULL STATEMENT (false when one name is used under two groups: the hash join keeps the last group only):
      ∀ useGrp recs gtTaxa, meanBV le useGrp t recs gtTaxa = gtTaxa.map (meanOrMissing t recs) -/
theorem meanBV_eq_mean_partial (le : (L × Option G) → (L × Option G) → Bool) (useGrp : Bool) (t : Nat)
    (recs : List (Rec L G α)) (hk : KeyByName useGrp recs) (gtTaxa : List L) :
    meanBV le useGrp t recs gtTaxa = gtTaxa.map (meanOrMissing t recs) := by
  unfold meanBV
  apply List.map_congr_left
  intro name _
  exact lookupLast_eq_meanOrMissing le useGrp t recs hk name

/-- **Unphenotyped taxa are reported as missing** — in every configuration. -/
theorem meanBV_missing (le : (L × Option G) → (L × Option G) → Bool) (useGrp : Bool) (t : Nat)
    (recs : List (Rec L G α)) (gtTaxa : List L) (i : Nat) (hi : i < gtTaxa.length)
    (hno : ∀ r ∈ recs, r.taxa ≠ gtTaxa[i]) :
    (meanBV le useGrp t recs gtTaxa)[i]? = some none := by
  unfold meanBV
  rw [List.getElem?_map, List.getElem?_eq_getElem hi]
  simp only [Option.map_some, Option.some.injEq]
  apply lookupLast_none
  intro r hr hn
  exact absurd hn (hno r hr)

/-- **Invariance to the row order of the phenotype table** — for every table (duplicate names, missing group labels
    included) and every configuration, given that the group-by sorts its keys by a total order. -/
theorem meanBV_row_perm_invariant (le : (L × Option G) → (L × Option G) → Bool)
    (htot : ∀ a b, le a b = true ∨ le b a = true)
    (htrans : ∀ a b c, le a b = true → le b c = true → le a c = true)
    (hanti : ∀ a b, le a b = true → le b a = true → a = b)
    (useGrp : Bool) (t : Nat) (recs recs' : List (Rec L G α)) (hperm : recs.Perm recs') (gtTaxa : List L) :
    meanBV le useGrp t recs gtTaxa = meanBV le useGrp t recs' gtTaxa := by
  unfold meanBV
  rw [agg_perm le htot htrans hanti useGrp t hperm]

/-- **Alignment to the genotype matrix supplied**: one row per genotype taxon, and re-ordering / sub-setting /
    repeating the genotype taxa by any index list re-orders the rows in the same way (row `i` depends on `gtTaxa[i]`
    only). -/
theorem meanBV_aligned (le : (L × Option G) → (L × Option G) → Bool) (useGrp : Bool) (t : Nat)
    (recs : List (Rec L G α)) (gtTaxa : List L) :
    (meanBV le useGrp t recs gtTaxa).length = gtTaxa.length ∧
    ∀ idx : List Nat, meanBV le useGrp t recs (Np.take idx gtTaxa) = Np.take idx (meanBV le useGrp t recs gtTaxa) := by
  refine ⟨by simp [meanBV], ?_⟩
  intro idx
  unfold meanBV Np.take
  rw [List.map_filterMap]
  apply List.filterMap_congr
  intro i _
  rw [List.getElem?_map]

end bv

section bvkey
variable {α : Type} [Field α]

/-- row-order invariance for the order the driver (and pandas) uses on `(name, group)` keys: no hypothesis left -/
theorem meanBV_row_perm_invariant_keyLe (useGrp : Bool) (t : Nat) (recs recs' : List (Rec String Int α))
    (hperm : recs.Perm recs') (gtTaxa : List String) :
    meanBV keyLe useGrp t recs gtTaxa = meanBV keyLe useGrp t recs' gtTaxa :=
  meanBV_row_perm_invariant keyLe keyLe_total keyLe_trans keyLe_antisymm useGrp t recs recs' hperm gtTaxa

end bvkey

section nogt
variable {L G α : Type} [DecidableEq L] [DecidableEq G] [Field α]

/-- **Estimation without a genotype matrix** (`taxa_grp_col = None`): one row per distinct taxon name of the table, each the
    per-trait arithmetic mean over that name's records -/
theorem meanBV_without_genotypes (le : (L × Option G) → (L × Option G) → Bool) (t : Nat) (recs : List (Rec L G α)) :
    (meanBVNoGt le false t recs).1.Nodup ∧
    (∀ name, name ∈ (meanBVNoGt le false t recs).1 ↔ ∃ r ∈ recs, r.taxa = name) ∧
    (meanBVNoGt le false t recs).2.2 =
      (meanBVNoGt le false t recs).1.map (fun name => colMeans t ((recordsOf recs name).map (·.vals))) := by
  have hkeys : ∀ k ∈ aggKeys le false recs, k = (k.1, none) := by
    intro k hk
    obtain ⟨r, _, hr⟩ := (mem_aggKeys le false recs k).mp hk
    rw [keyOf_nogrp] at hr
    have := Option.some.inj hr
    rw [← this]
  have hinj : ∀ a ∈ aggKeys le false recs, ∀ b ∈ aggKeys le false recs, a.1 = b.1 → a = b := by
    intro a ha b hb hab
    rw [hkeys a ha, hkeys b hb, hab]
  simp only [meanBVNoGt, agg, List.map_map]
  refine ⟨?_, ?_, ?_⟩
  · exact (List.nodup_map_iff_inj_on (nodup_aggKeys le false recs)).mpr hinj
  · intro name
    simp only [List.mem_map, Function.comp]
    constructor
    · rintro ⟨k, hk, rfl⟩
      obtain ⟨r, hr, hrk⟩ := (mem_aggKeys le false recs k).mp hk
      exact ⟨r, hr, (keyOf_fst false r k hrk).symm⟩
    · rintro ⟨r, hr, rfl⟩
      exact ⟨(r.taxa, none), (mem_aggKeys le false recs _).mpr ⟨r, hr, keyOf_nogrp r⟩, rfl⟩
  · apply List.map_congr_left
    intro k hk
    simp only [Function.comp]
    congr 1
    unfold groupRows recordsOf
    congr 1
    apply List.filter_congr
    intro r _
    rw [keyOf_nogrp, hkeys k hk]
    simp

end nogt

/-! ## 4. end to end: a noiseless trial followed by mean-phenotype estimation returns the truth -/
section pipeline
variable {L G α : Type} [DecidableEq L] [DecidableEq G] [Field α] [CharZero α]

/-- **Truth is preserved end to end.**  Phenotype a population with pairwise distinct names (grouped or not) in any
    layout with at least one (environment, replicate) cell and zero noise, then estimate mean-phenotype breeding values
    (with or without `taxa_grp_col`, grouped or not — D18 fixed) against the genotype taxa re-ordered,
    sub-set or repeated by ANY index list `idx`: row `k` is exactly the true genotypic value of taxon `idx[k]`. -/
theorem noiseless_pipeline_returns_truth (le : (L × Option G) → (L × Option G) → Bool) (useGrp : Bool)
    (gv : List (List α)) (taxa : List L) (grp : Option (List G)) (t : Nat) (nrep : List Nat)
    (s : List (Draw α)) (rows : List (Rec L G α))
    (hrun : envLoop gv (labels taxa grp) 0 nrep s = some rows)
    (hlab : taxa.length = gv.length) (hgrp : ∀ g, grp = some g → g.length = taxa.length)
    (huse : useGrp = true → grp.isSome = true)
    (hnodup : taxa.Nodup) (hgv : ∀ g ∈ gv, g.length = t)
    (hshape : ∀ d ∈ s, drawShapeOk gv.length t d = true)
    (hzero : ∀ d ∈ s, match d with
      | .vec v => ∀ x ∈ v, x = 0
      | .mat m => ∀ row ∈ m, ∀ x ∈ row, x = 0)
    (hcell : ∃ e, ∃ (he : e < nrep.length), 0 < nrep[e])
    (idx : List Nat) (hidx : ∀ i ∈ idx, i < taxa.length) :
    meanBV le useGrp t rows (Np.take idx taxa) = (Np.take idx gv).map some := by
  have hlabs : (labels taxa grp).length = gv.length := by rw [labels_length taxa grp hgrp, hlab]
  have hz := zero_noise_exact gv (labels taxa grp) t nrep s rows hrun hlabs hgv hshape hzero
  have hmat : ∀ m, Draw.mat m ∈ s → m.length = gv.length := by
    intro m hm
    have := hshape _ hm
    simp only [drawShapeOk, Bool.and_eq_true, beq_iff_eq] at this
    exact this.1
  obtain ⟨_, _, hrange⟩ := one_record_per_taxon_env_rep gv (labels taxa grp) nrep s rows hrun hlabs hmat
  -- every record is (labels k, gv k) for some k
  have hrec : ∀ x ∈ rows, ∃ k, ∃ (hk : k < taxa.length), x.taxa = taxa[k] ∧
      (x.taxa, x.grp) = (labels taxa grp)[k]'(by rw [hlabs, ← hlab]; exact hk) ∧ x.vals = gv[k]'(hlab ▸ hk) := by
    intro x hx
    obtain ⟨e, he, r, hr, h1, h2⟩ := hrange x hx
    have hmem : ((x.taxa, x.grp), x.vals) ∈ List.zip (labels taxa grp) gv := by
      rw [← hz e he r hr]
      exact List.mem_map.mpr ⟨x, by simp [hx, h1, h2], rfl⟩
    obtain ⟨k, hk, hkeq⟩ := List.mem_iff_getElem.mp hmem
    simp only [List.length_zip, lt_min_iff] at hk
    have hk' : k < taxa.length := by rw [hlab]; exact hk.2
    rw [List.getElem_zip] at hkeq
    have e1 : (labels taxa grp)[k] = (x.taxa, x.grp) := congrArg Prod.fst hkeq
    have e2 : gv[k] = x.vals := congrArg Prod.snd hkeq
    refine ⟨k, hk', ?_, e1.symm, e2.symm⟩
    have := (labels_getElem taxa grp k hk.1 hk').1
    rw [e1] at this
    exact this
  -- names determine the group key
  have hkey : KeyByName useGrp rows := by
    intro x hx
    obtain ⟨k, hk, hkt, hkl, _⟩ := hrec x hx
    have hsome : useGrp = true → x.grp.isSome = true := by
      intro hu
      have := (labels_getElem taxa grp k (by rw [hlabs, ← hlab]; exact hk) hk).2 (huse hu)
      rw [← hkl] at this
      exact this
    have hkx : ∃ key, keyOf useGrp x = some key ∧ key = (x.taxa, if useGrp then x.grp else none) :=
      ⟨_, rfl, rfl⟩
    obtain ⟨key, hkey1, hkey2⟩ := hkx
    refine ⟨key, hkey1, ?_⟩
    intro x' hx' hsame
    obtain ⟨k', hk', hkt', hkl', _⟩ := hrec x' hx'
    have : k' = k := (List.Nodup.getElem_inj_iff hnodup).mp (hkt'.symm.trans (hsame.trans hkt))
    subst this
    have hxx : (x'.taxa, x'.grp) = (x.taxa, x.grp) := hkl'.trans hkl.symm
    have h1 : x'.taxa = x.taxa := congrArg Prod.fst hxx
    have h2 : x'.grp = x.grp := congrArg Prod.snd hxx
    rw [hkey2]
    unfold keyOf
    rw [h1, h2]
  -- the records named taxa[i] are non-empty and all carry gv[i]
  obtain ⟨e, he, hpos⟩ := hcell
  have hcellrows := hz e he 0 hpos
  have hmean : ∀ i (hi : i < taxa.length), meanOrMissing t rows taxa[i] = some (gv[i]'(hlab ▸ hi)) := by
    intro i hi
    have hne : recordsOf rows taxa[i] ≠ [] := by
      have hil : i < (labels taxa grp).length := by rw [hlabs, ← hlab]; exact hi
      have hmem : ((labels taxa grp)[i], gv[i]'(hlab ▸ hi)) ∈ List.zip (labels taxa grp) gv := by
        rw [List.mem_iff_getElem]
        exact ⟨i, by simp [hil, ← hlab, hi], by simp⟩
      rw [← hcellrows] at hmem
      obtain ⟨x, hx, hxe⟩ := List.mem_map.mp hmem
      have hxt : x.taxa = taxa[i] := by
        have h1 : (x.taxa, x.grp) = (labels taxa grp)[i] := congrArg Prod.fst hxe
        have := (labels_getElem taxa grp i hil hi).1
        rw [← h1] at this
        exact this
      intro hnil
      have : x ∈ recordsOf rows taxa[i] := by
        unfold recordsOf
        simp only [List.mem_filter, decide_eq_true_eq]
        exact ⟨(List.mem_filter.mp hx).1, hxt⟩
      rw [hnil] at this
      simp at this
    have hall : ∀ row ∈ (recordsOf rows taxa[i]).map (·.vals), row = gv[i]'(hlab ▸ hi) := by
      intro row hrow
      obtain ⟨x, hx, rfl⟩ := List.mem_map.mp hrow
      unfold recordsOf at hx
      simp only [List.mem_filter, decide_eq_true_eq] at hx
      obtain ⟨k, hk, hkt, _, hkv⟩ := hrec x hx.1
      have : k = i := (List.Nodup.getElem_inj_iff hnodup).mp (hkt.symm.trans hx.2)
      subst this
      exact hkv
    unfold meanOrMissing
    rw [if_neg hne]
    congr 1
    apply colMeans_const t _ (hgv _ (List.getElem_mem _)) _ _ hall
    simpa using hne
  rw [meanBV_eq_mean_partial le useGrp t rows hkey]
  unfold Np.take
  rw [List.map_filterMap, List.map_filterMap]
  apply List.filterMap_congr
  intro i hi
  have hi' := hidx i hi
  have hig : i < gv.length := hlab ▸ hi'
  rw [List.getElem?_eq_getElem hi', List.getElem?_eq_getElem hig]
  simp [hmean i hi']

end pipeline

/-! ## non-vacuity: concrete non-trivial inputs meeting the hypotheses (evaluated by the kernel) -/

/-- 3 taxa (names not sorted, grouped), 2 environments with 2 and 1 replicates, two traits, non-zero draws:
    the run succeeds with 9 records, first record = 4 + 1 + 1/2 + 1, 23 + 2 + 1/4 + 1 -/
example :
    (envLoop (L := String) (G := Int) (α := Rat) [[4, 23], [6, 20], [3, 19]] (labels ["d", "b", "a"] (some [2, 1, 2])) 0 [2, 1]
      [.vec [1, 2], .vec [1/2, 1/4], .mat [[1, 1], [2, 2], [3, 3]], .vec [1/8, 0], .mat [[0, 0], [0, 1], [1, 0]],
       .vec [-1, 1/2], .vec [0, 0], .mat [[-1/2, 0], [0, 0], [2, -2]]]).map
      (fun rows => (rows.length, rows.head?.map (·.vals))) = some (9, some [13/2, 105/4]) := by
  decide +kernel

/-- hypotheses of `zero_noise_exact` / `noiseless_pipeline_returns_truth` are satisfiable: zero stream, distinct names -/
example :
    envLoop (L := String) (G := Int) (α := Rat) [[4, 23], [6, 20]] (labels ["d", "b"] none) 0 [1, 1]
      [.vec [0, 0], .vec [0, 0], .mat [[0, 0], [0, 0]], .vec [0, 0], .vec [0, 0], .mat [[0, 0], [0, 0]]]
      = some [⟨"d", none, 1, 1, [4, 23]⟩, ⟨"b", none, 1, 1, [6, 20]⟩, ⟨"d", none, 2, 1, [4, 23]⟩, ⟨"b", none, 2, 1, [6, 20]⟩] := by
  decide +kernel

/-- the pipeline theorem on numbers: grouped population, names unsorted, `taxa_grp_col` set, genotype taxa re-ordered and
    repeated (`idx = [1, 0, 1]`): the true values come back in that order -/
example :
    (envLoop (L := String) (G := Int) (α := Rat) [[4, 23], [6, 20]] (labels ["d", "b"] (some [2, 1])) 0 [1, 2]
      [.vec [0, 0], .vec [0, 0], .mat [[0, 0], [0, 0]], .vec [0, 0], .vec [0, 0], .mat [[0, 0], [0, 0]],
       .vec [0, 0], .mat [[0, 0], [0, 0]]]).map
      (fun rows => meanBV keyLe true 2 rows (Np.take [1, 0, 1] ["d", "b"]))
      = some [some [6, 20], some [4, 23], some [6, 20]] := by
  decide +kernel

/-- the shape and zero hypotheses hold of that stream; the top-level `phenotype` (named taxa, default trait names, scalar
    `nrep = 1` broadcast over 2 environments by the setter) succeeds with 4 records and the frame's column names -/
example : ([.vec [0, 0], .vec [0, 0], .mat [[0, 0], [0, 0]], .vec [0, 0], .vec [0, 0], .mat [[0, 0], [0, 0]]] :
    List (Draw Rat)).all (drawShapeOk 2 2) = true := by decide +kernel

example : nrepSetter 2 (.inl 1) = some [1, 1] := by decide

example :
    ((phenotype (G := Int) (α := Rat) [[4, 23], [6, 20]] (some ["d", "b"]) (some [2, 1]) none 2 2 [1, 1]
        [.vec [1, 0], .vec [0, 0], .mat [[0, 0], [0, 0]], .vec [0, 2], .vec [0, 0], .mat [[0, 0], [0, 1]]]).map
        (fun cr => (cr.1, cr.2.length, (cr.2.getLast?.map (fun r => r.vals)).getD [])) :
          Option (List String × Nat × List Rat)) =
      some (["taxa", "taxa_grp", "env", "rep", "Trait01", "Trait02"], 4, [6, 23]) := by
  decide +kernel

/-- heritability: target 1/4 on variance 14/9 gives error variance 14/3 and ratio 1/4 -/
example : errVar (1/4 : Rat) (14/9) = 14/3 ∧ heritability (14/9 : Rat) (14/3) = 1/4 ∧
    varCols (α := Rat) 2 [[4, 23], [6, 20], [3, 19]] = [14/9, 26/9] := by decide +kernel

/-- mean BV: unsorted genotype taxa, an unphenotyped taxon "zz", a taxon with three records;
    grouped table with consistent groups satisfies `KeyByName true` -/
example :
    meanBV (α := Rat) keyLe true 1
      [⟨"b", some 1, 1, 1, [1]⟩, ⟨"a", some 2, 1, 1, [2]⟩, ⟨"b", some 1, 2, 1, [4]⟩, ⟨"b", some 1, 3, 1, [7]⟩]
      ["b", "zz", "a"] = [some [4], none, some [2]] := by decide +kernel

example : KeyByName (α := Rat) true
    [(⟨"b", some 1, 1, 1, [1]⟩ : Rec String Int Rat), ⟨"a", some 2, 1, 1, [2]⟩, ⟨"b", some 1, 2, 1, [4]⟩] := by
  intro r hr
  simp only [List.mem_cons, List.not_mem_nil, or_false] at hr
  rcases hr with rfl | rfl | rfl <;> simp [keyOf]

/-- `realised_error_variance_partial` on numbers: cell (env 1, rep 1) of the first example, trait 0: the residuals
    5/2, 7/2, 9/2 (= 1 + 1/2 + error 1, 2, 3) have the variance 2/3 of the error draws 1, 2, 3 -/
example : popVar ([13/2 - 4, 19/2 - 6, 15/2 - 3] : List Rat) = popVar [1, 2, 3] := by decide +kernel

/-- estimation without genotype matrix: names come out sorted, one row each -/
example : meanBVNoGt (α := Rat) keyLe false 1
    [⟨"b", some 1, 1, 1, [1]⟩, ⟨"a", some 2, 1, 1, [2]⟩, ⟨"b", some 1, 2, 1, [4]⟩] = (["a", "b"], none, [[2], [5/2]]) := by
  decide +kernel

example : truePhenotype (G := Int) (α := Rat) [[4, 23], [6, 20]] (some ["d", "b"]) (some [2, 1]) none 2 =
    some (["taxa", "taxa_grp", "Trait01", "Trait02"], [("d", some 2, [4, 23]), ("b", some 1, [6, 20])]) := by decide +kernel

end C14
