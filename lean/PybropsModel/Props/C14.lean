/-
C14 — Phenotyping and breeding-value estimation preserve truth and alignment.
Property theorems only (helper lemmas: Lemmas/PhenoLoop, PhenoBV, PhenoJoin, PhenoKey, PhenoH2, PhenoVar, PhenoLLN, PhenoExpect,
PhenoNames, PhenoNan, PhenoConfig, PhenoSpecSound, PhenoSpecSound2, PhenoStruct, PhenoDistinct).

Model: PybropsModel/Model/Pheno.lean
  `envLoop` / `repLoop` / `block` transcribe G_E_Phenotyping.phenotype l.415-451 (the normal draws are the oracle
  stream consumed in call order), `phenotype` adds the default labels and the shape checks;
  `errVar` / `setH2` transcribe set_h2 / set_H2; `meanBV` (= `aggKeys`, `agg`, `lookupLast`; repaired: D61) transcribes
  MeanPhenotypicBreedingValue.estimate l.132-185.

Round 4: the model follows the REPAIRED code (fix of D60): the `nenv` setter makes the replicate array follow (`nrepFollow`),
`phenotype` refuses a configuration without one replicate count per environment; the old definitions are kept as
`reassignNenvPrerepair` / `phenotypePrerepair` / `cfgStepPrerepair` with `nenv_reassigned_stale_nrep_prerepair_counterexample`.
`phenotype_one_record_per` is now the FULL field-trial clause (no hypothesis on the configuration).

Clause "with noise the realised environment, replicate and error variances converge to the requested ones":
`realised_variance_components` reduces the three variance components read off the frame to statistics of the generator's
draws (algebra, any field); `realised_error_variance_converges(_to_requested)` proves the almost-sure limit for the error
component for i.i.d. square-integrable draws, in particular for the product measure N(0, var_err)^N (Mathlib's strong law);
the replicate and environment components converge to `var_rep + var_err/ntaxa` etc. (`..._partial`).  That numpy's
`multivariate_normal` delivers such draws is its contract; the arguments handed to it are recorded and compared on every
case by the harness, and the limit is additionally tested statistically (`stat` stream).
-/
import PybropsModel.Lemmas.PhenoLoop
import PybropsModel.Lemmas.PhenoBV
import PybropsModel.Lemmas.PhenoKey
import PybropsModel.Lemmas.PhenoH2
import PybropsModel.Lemmas.PhenoVar
import PybropsModel.Lemmas.PhenoLLN
import PybropsModel.Lemmas.PhenoNames
import PybropsModel.Lemmas.PhenoNan
import PybropsModel.Lemmas.PhenoJoin
import PybropsModel.Lemmas.PhenoConfig
import PybropsModel.Lemmas.PhenoExpect
import PybropsModel.Lemmas.PhenoSpecSound
import PybropsModel.Lemmas.PhenoStruct
import PybropsModel.Lemmas.PhenoDistinct
import PybropsModel.Lemmas.PhenoSpecSound2
set_option autoImplicit false
set_option linter.unusedSectionVars false

namespace C14
open Pheno

/-! ## 1. the simulated field trial -/
section trial
variable {L G α : Type} [Add α]

/-- **The transcribed double loop is the closed form.**  Fed with the stream of draws in call order, the literal loop
    returns the (environment, replicate)-lexicographic concatenation of the blocks, and leaves the rest of the
    stream untouched; conversely every successful run consumed such a stream. -/
theorem loop_eq_closed_form (gv : List (List α)) (labs : List (L × Option G)) (ds : List (EnvDraw α))
    (rest : List (Draw α)) :
    envLoop gv labs 0 (ds.map (fun d => d.reps.length)) (flattenDraws ds ++ rest) = some (envBlocks gv labs 0 ds) :=
  envLoop_flatten gv labs ds 0 rest

/-- **One record per taxon, environment and replicate, with that taxon's labels and value.**
    For every successful run of the loop on `nrep` (replicates per environment) there is a structured view `ds` of the
    consumed draws such that
    * the frame has `ntaxa · Σ nrep` rows;
    * for every environment `e` and replicate `r < nrep[e]` the rows labelled `(e+1, r+1)` are, in genotype order,
      one per taxon: their label columns are exactly the population's label arrays, and their values are
      `true value + env effect(e) + rep effect(e,r) + error(e,r,taxon)` with the effects being the draws themselves;
    * no other rows exist. -/
theorem trial_cells (gv : List (List α)) (labs : List (L × Option G)) (nrep : List Nat) (s : List (Draw α))
    (rows : List (Rec L G α)) (hrun : envLoop gv labs 0 nrep s = some rows)
    (hlab : labs.length = gv.length) (hshape : ∀ m, Draw.mat m ∈ s → m.length = gv.length) :
    ∃ (ds : List (EnvDraw α)) (rest : List (Draw α)),
      ds.map (fun d => d.reps.length) = nrep ∧ s = flattenDraws ds ++ rest ∧
      rows.length = gv.length * nrep.sum ∧
      (∀ e (he : e < ds.length) r (hr : r < ds[e].reps.length),
        (rows.filter (fun x => x.env = e + 1 ∧ x.rep = r + 1)).map (fun x => (x.taxa, x.grp)) = labs ∧
        (rows.filter (fun x => x.env = e + 1 ∧ x.rep = r + 1)).map (fun x => x.vals) =
          List.zipWith (fun g er => vadd (vadd (vadd g ds[e].env) ds[e].reps[r].rep) er) gv ds[e].reps[r].err) ∧
      (∀ x ∈ rows, ∃ e, ∃ (he : e < ds.length), ∃ r, r < ds[e].reps.length ∧ x.env = e + 1 ∧ x.rep = r + 1) := by
  obtain ⟨ds, rest, hd, hs, hrows⟩ := envLoop_some gv labs nrep 0 s rows hrun
  have herr : ∀ d ∈ ds, ∀ rd ∈ d.reps, rd.err.length = gv.length := by
    intro d hd' rd hrd
    apply hshape
    rw [hs]
    exact List.mem_append_left _ (mem_flattenDraws_err ds d hd' rd hrd).1
  refine ⟨ds, rest, hd, hs, ?_, ?_, ?_⟩
  · rw [hrows, envBlocks_length gv labs 0 ds hlab herr, hd]
  · intro e he r hr
    rw [hrows, envBlocks_cell gv labs ds e he r hr]
    have h2 : ds[e].reps[r].err.length = gv.length :=
      herr _ (List.getElem_mem he) _ (List.getElem_mem hr)
    exact ⟨block_labels _ _ _ _ _ _ _ hlab h2, block_vals _ _ _ _ _ _ _ hlab⟩
  · intro x hx
    rw [hrows] at hx
    obtain ⟨e, he, r, hr, hb⟩ := (envBlocks_mem gv labs ds x).mp hx
    obtain ⟨h1, h2⟩ := block_env_rep _ _ _ _ _ _ _ x hb
    exact ⟨e, he, r, hr, h1, h2⟩

/-- the same, indexed by the replicate counts handed to the loop: the cell `(e, r)` exists for every `e < nenv`,
    `r < nrep[e]` and lists every taxon's labels exactly once, in genotype order -/
theorem one_record_per_taxon_env_rep (gv : List (List α)) (labs : List (L × Option G)) (nrep : List Nat)
    (s : List (Draw α)) (rows : List (Rec L G α)) (hrun : envLoop gv labs 0 nrep s = some rows)
    (hlab : labs.length = gv.length) (hshape : ∀ m, Draw.mat m ∈ s → m.length = gv.length) :
    rows.length = gv.length * nrep.sum ∧
    (∀ e (he : e < nrep.length) r, r < nrep[e] →
      (rows.filter (fun x => x.env = e + 1 ∧ x.rep = r + 1)).map (fun x => (x.taxa, x.grp)) = labs) ∧
    (∀ x ∈ rows, ∃ e, ∃ (he : e < nrep.length), ∃ r, r < nrep[e] ∧ x.env = e + 1 ∧ x.rep = r + 1) := by
  obtain ⟨ds, rest, hd, _, hlen, hcell, hrange⟩ := trial_cells gv labs nrep s rows hrun hlab hshape
  subst hd
  refine ⟨hlen, ?_, ?_⟩
  · intro e he r hr
    have he' : e < ds.length := by simpa using he
    have hr' : r < ds[e].reps.length := by simpa using hr
    exact (hcell e he' r hr').1
  · intro x hx
    obtain ⟨e, he, r, hr, h1, h2⟩ := hrange x hx
    exact ⟨e, by simpa using he, r, by simpa using hr, h1, h2⟩

end trial

section zero
variable {L G α : Type} [AddMonoid α]

/-- **Zero noise is exact.**  When every draw is zero (all variances zero) each record equals its taxon's true
    genotypic value: in every cell the pairs (labels, values) are the population's (labels, true values), in order. -/
theorem zero_noise_exact (gv : List (List α)) (labs : List (L × Option G)) (t : Nat) (nrep : List Nat)
    (s : List (Draw α)) (rows : List (Rec L G α)) (hrun : envLoop gv labs 0 nrep s = some rows)
    (hlab : labs.length = gv.length) (hgv : ∀ g ∈ gv, g.length = t)
    (hshape : ∀ d ∈ s, drawShapeOk gv.length t d = true)
    (hzero : ∀ d ∈ s, match d with
      | .vec v => ∀ x ∈ v, x = 0
      | .mat m => ∀ row ∈ m, ∀ x ∈ row, x = 0) :
    ∀ e (he : e < nrep.length) r, r < nrep[e] →
      (rows.filter (fun x => x.env = e + 1 ∧ x.rep = r + 1)).map (fun x => ((x.taxa, x.grp), x.vals)) =
        List.zip labs gv := by
  have hmat : ∀ m, Draw.mat m ∈ s → m.length = gv.length := by
    intro m hm
    have := hshape _ hm
    simp only [drawShapeOk, Bool.and_eq_true, beq_iff_eq] at this
    exact this.1
  obtain ⟨ds, rest, hd, hs, _, hcell, _⟩ := trial_cells gv labs nrep s rows hrun hlab hmat
  subst hd
  intro e he r hr
  have he' : e < ds.length := by simpa using he
  have hr' : r < ds[e].reps.length := by simpa using hr
  obtain ⟨hl, hv⟩ := hcell e he' r hr'
  obtain ⟨hin1, hin2, hin3⟩ := mem_flattenDraws_err ds ds[e] (List.getElem_mem he') ds[e].reps[r] (List.getElem_mem hr')
  have mem : ∀ d, d ∈ flattenDraws ds → d ∈ s := fun d hd => hs ▸ List.mem_append_left _ hd
  -- shapes and zeros of the three draws of this cell
  have henv_len : ds[e].env.length = t := by simpa [drawShapeOk] using hshape _ (mem _ hin3)
  have hrep_len : ds[e].reps[r].rep.length = t := by simpa [drawShapeOk] using hshape _ (mem _ hin2)
  have herr_shape := hshape _ (mem _ hin1)
  simp only [drawShapeOk, Bool.and_eq_true, beq_iff_eq, List.all_eq_true] at herr_shape
  have henv0 := hzero _ (mem _ hin3)
  have hrep0 := hzero _ (mem _ hin2)
  have herr0 := hzero _ (mem _ hin1)
  simp only at henv0 hrep0 herr0
  have hvals : (rows.filter (fun x => x.env = e + 1 ∧ x.rep = r + 1)).map (fun x => x.vals) = gv := by
    rw [hv]
    apply List.ext_getElem
    · simp [herr_shape.1]
    · intro i h1 h2
      simp only [List.getElem_zipWith]
      have hg : gv[i].length = t := hgv _ (List.getElem_mem _)
      have hi : i < ds[e].reps[r].err.length := by simpa using (by simpa using h1 : i < gv.length ∧ _).2
      have her : (ds[e].reps[r].err[i]).length = t := herr_shape.2 _ (List.getElem_mem hi)
      rw [vadd_zero _ _ (by rw [henv_len, hg]) henv0, vadd_zero _ _ (by rw [hrep_len, hg]) hrep0,
        vadd_zero _ _ (by rw [her, hg]) (herr0 _ (List.getElem_mem hi))]
  rw [← hl, ← hvals, List.zip_map']

end zero

section var
variable {L G α : Type} [Field α] [CharZero α]

/-- **Variance clause, algebraic part — all three components.**  What an analyst reads off the frame equals the
    corresponding statistic of the generator's draws, nothing rescaled or mixed (trait `j`, population variance):
    * realised error variance (within a cell, over the taxa, of `record − true value`) = variance of that cell's error draws;
    * realised replicate variance (over the replicates of an environment, of the cell means) = variance of
      `replicate draw + mean error of the cell`;
    * realised environment variance (over the environments, of the environment means) = variance of
      `environment draw + mean over its replicates of (replicate draw + mean error)`.
    The environment effect cancels inside an environment, environment and replicate effects cancel inside a cell. -/
theorem realised_variance_components (gv : List (List α)) (labs : List (L × Option G)) (t : Nat)
    (nrep : List Nat) (s : List (Draw α)) (rows : List (Rec L G α))
    (hrun : envLoop gv labs 0 nrep s = some rows)
    (hlab : labs.length = gv.length) (hgv : ∀ g ∈ gv, g.length = t)
    (hshape : ∀ d ∈ s, drawShapeOk gv.length t d = true)
    (hn : gv ≠ []) (hpos : ∀ k ∈ nrep, 0 < k) :
    ∃ (ds : List (EnvDraw α)) (rest : List (Draw α)), ds.map (fun d => d.reps.length) = nrep ∧
      s = flattenDraws ds ++ rest ∧
      ∀ j, j < t →
        (∀ e (he : e < ds.length) r (hr : r < ds[e].reps.length),
          realisedErrVar rows gv j e r = popVar (errCol ds[e].reps[r] j)) ∧
        (∀ e (he : e < ds.length),
          realisedRepVar rows gv j e ds[e].reps.length = popVar (ds[e].reps.map (repTerm j))) ∧
        realisedEnvVar rows gv j nrep = popVar (ds.map (envTerm j)) := by
  obtain ⟨ds, rest, hd, hs, hrows⟩ := envLoop_some gv labs nrep 0 s rows hrun
  refine ⟨ds, rest, hd, hs, ?_⟩
  intro j hj
  have hsh : DrawsShaped gv.length t ds :=
    drawsShaped_of_stream gv.length t ds s (fun d hd' => hs ▸ List.mem_append_left _ hd') hshape
  have hpos' : ∀ d ∈ ds, d.reps ≠ [] := by
    intro d hd' h
    have : d.reps.length ∈ nrep := by rw [← hd]; exact List.mem_map.mpr ⟨d, hd', rfl⟩
    have := hpos _ this
    rw [h] at this
    simp at this
  have := components_closed_form gv labs t ds hlab hgv hsh hn hpos' j hj
  rw [hrows, ← hd]
  exact this

/-- **Additive structure of every record, and absent components.**  For every successful run of the loop, in every cell
    `(e, r)` and every trait `j` the residuals `record − true value` (taxon by taxon, genotype order) are
    `environment draw(e) + replicate draw(e, r) + error draw(e, r, taxon)`.  Hence a component whose draws vanish — what the
    generator returns for a variance of zero, `N(0, 0)` being the point mass — is absent from the records of that trait:
    with zero error draws all taxa of a cell share one residual (environment + replicate effect); if the replicate draw
    vanishes as well it is the environment draw; if that vanishes too the records equal the true values.  (Per trait and per
    component: the all-zero case is `zero_noise_exact`.  The harness' `noise structure` oracle evaluates exactly these
    equalities on the implementation's frame.) -/
theorem record_structure_absent_components (gv : List (List α)) (labs : List (L × Option G)) (t : Nat)
    (nrep : List Nat) (s : List (Draw α)) (rows : List (Rec L G α))
    (hrun : envLoop gv labs 0 nrep s = some rows)
    (hlab : labs.length = gv.length) (hgv : ∀ g ∈ gv, g.length = t)
    (hshape : ∀ d ∈ s, drawShapeOk gv.length t d = true) :
    ∃ (ds : List (EnvDraw α)) (rest : List (Draw α)), ds.map (fun d => d.reps.length) = nrep ∧
      s = flattenDraws ds ++ rest ∧
      ∀ j, j < t → ∀ e (he : e < ds.length) r (hr : r < ds[e].reps.length),
        cellResid rows gv j e r =
          (errCol ds[e].reps[r] j).map (fun x => (ds[e].env.getD j 0 + ds[e].reps[r].rep.getD j 0) + x) ∧
        ((∀ x ∈ errCol ds[e].reps[r] j, x = 0) →
          cellResid rows gv j e r = List.replicate gv.length (ds[e].env.getD j 0 + ds[e].reps[r].rep.getD j 0) ∧
          (ds[e].reps[r].rep.getD j 0 = 0 → cellResid rows gv j e r = List.replicate gv.length (ds[e].env.getD j 0)) ∧
          (ds[e].reps[r].rep.getD j 0 = 0 → ds[e].env.getD j 0 = 0 → cellResid rows gv j e r = List.replicate gv.length 0)) := by
  obtain ⟨ds, rest, hd, hs, hrows⟩ := envLoop_some gv labs nrep 0 s rows hrun
  refine ⟨ds, rest, hd, hs, ?_⟩
  intro j hj e he r hr
  have hsh : DrawsShaped gv.length t ds :=
    drawsShaped_of_stream gv.length t ds s (fun d hd' => hs ▸ List.mem_append_left _ hd') hshape
  rw [hrows]
  refine ⟨cellResid_closed_form gv labs t ds hlab hgv hsh j hj e he r hr, fun hz => ?_⟩
  have h0 := cellResid_of_zero_error gv labs t ds hlab hgv hsh j hj e he r hr hz
  refine ⟨h0, fun hr0 => ?_, fun hr0 he0 => ?_⟩
  · rw [h0, hr0, add_zero]
  · rw [h0, hr0, he0, add_zero]

end var

section conv
open MeasureTheory ProbabilityTheory Filter Topology
variable {L G Ω : Type} [MeasurableSpace Ω] {μ : Measure Ω} [IsProbabilityMeasure μ]

/-- **Variance clause, probabilistic part — error component.**  If the error draws of a cell are the first `n` terms of a
    pairwise independent, identically distributed, square-integrable sequence `X` (numpy's contract for
    `multivariate_normal(0, diag(var_err), ntaxa)`, whose arguments the harness records on every case), then almost surely
    the realised error variance of that cell converges to `Var[X 0]` — the requested `var_err` — as the number of taxa
    grows (strong law of large numbers for `X` and `X²`; any trial layout, any true values). -/
theorem realised_error_variance_converges (X : ℕ → Ω → ℝ) (hL2 : MemLp (X 0) 2 μ)
    (hindep : Pairwise (Function.onFun (fun f g => f ⟂ᵢ[μ] g) X))
    (hident : ∀ i, IdentDistrib (X i) (X 0) μ μ) :
    ∀ᵐ ω ∂μ, ∀ (gv : ℕ → List (List ℝ)) (labs : ℕ → List (L × Option G)) (ds : ℕ → List (EnvDraw ℝ))
      (t j e r : ℕ), j < t →
      (∀ n, 1 ≤ n → (gv n).length = n ∧ (labs n).length = n ∧ (∀ g ∈ gv n, g.length = t) ∧
        DrawsShaped n t (ds n) ∧ (∀ d ∈ ds n, d.reps ≠ []) ∧
        ∃ (he : e < (ds n).length) (hr : r < (ds n)[e].reps.length),
          errCol (ds n)[e].reps[r] j = (List.range n).map (fun i => X i ω)) →
      Tendsto (fun n => realisedErrVar (envBlocks (gv n) (labs n) 0 (ds n)) (gv n) j e r) atTop
        (𝓝 (Var[X 0; μ])) := by
  filter_upwards [popVar_tendsto_variance X hL2 hindep hident] with ω hω
  intro gv labs ds t j e r hj hfam
  refine hω.congr' ?_
  filter_upwards [eventually_ge_atTop 1] with n hn
  obtain ⟨h1, h2, h3, h4, h5, he, hr, hcol⟩ := hfam n hn
  have hne : gv n ≠ [] := by
    intro h
    rw [h] at h1
    simp at h1
    omega
  have := (components_closed_form (gv n) (labs n) t (ds n) (h2.trans h1.symm) h3 (by rw [h1]; exact h4) hne h5 j hj).1 e he r hr
  rw [this, hcol]

/-- **Replicate component.**  If the replicate terms `replicate draw + mean error of the cell` of environment `e` are the
    first `k` terms of an i.i.d. square-integrable sequence `Y`, the realised replicate variance converges almost surely
    to `Var[Y 0]` as the number of replicates grows.  `_partial`: the limit is `var_rep + var_err / ntaxa`
    (`Pheno.variance_effect_add_mean`), i.e. the requested replicate variance PLUS the mean-error term — the statistic the
    frame offers does not converge to `var_rep` alone.
    FULL STATEMENT (as worded in the property, "converge to the requested ones"): true of the error component
    (`realised_error_variance_converges`); for replicate and environment components only up to the stated mean-error terms,
    which vanish as the number of taxa (and replicates) grows as well. -/
theorem realised_replicate_variance_converges_partial (Y : ℕ → Ω → ℝ) (hL2 : MemLp (Y 0) 2 μ)
    (hindep : Pairwise (Function.onFun (fun f g => f ⟂ᵢ[μ] g) Y))
    (hident : ∀ i, IdentDistrib (Y i) (Y 0) μ μ) :
    ∀ᵐ ω ∂μ, ∀ (gv : List (List ℝ)) (labs : List (L × Option G)) (ds : ℕ → List (EnvDraw ℝ)) (t j e : ℕ), j < t →
      labs.length = gv.length → (∀ g ∈ gv, g.length = t) → gv ≠ [] →
      (∀ k, 1 ≤ k → DrawsShaped gv.length t (ds k) ∧ (∀ d ∈ ds k, d.reps ≠ []) ∧
        ∃ (he : e < (ds k).length), (ds k)[e].reps.length = k ∧
          (ds k)[e].reps.map (repTerm j) = (List.range k).map (fun i => Y i ω)) →
      Tendsto (fun k => realisedRepVar (envBlocks gv labs 0 (ds k)) gv j e k) atTop (𝓝 (Var[Y 0; μ])) := by
  filter_upwards [popVar_tendsto_variance Y hL2 hindep hident] with ω hω
  intro gv labs ds t j e hj hlab hgv hne hfam
  refine hω.congr' ?_
  filter_upwards [eventually_ge_atTop 1] with k hk
  obtain ⟨h4, h5, he, hlen, hcol⟩ := hfam k hk
  have := (components_closed_form gv labs t (ds k) hlab hgv h4 hne h5 j hj).2.1 e he
  rw [hlen] at this
  rw [this, hcol]

/-- **Environment component.**  If the environment terms `environment draw + mean of the replicate terms` are the first
    `m` terms of an i.i.d. square-integrable sequence `Z`, the realised environment variance converges almost surely to
    `Var[Z 0]` (= `var_env + (var_rep + var_err/ntaxa)/nrep` for equal replicate counts) as the number of environments
    grows.  `_partial` for the same reason as the replicate component. -/
theorem realised_environment_variance_converges_partial (Z : ℕ → Ω → ℝ) (hL2 : MemLp (Z 0) 2 μ)
    (hindep : Pairwise (Function.onFun (fun f g => f ⟂ᵢ[μ] g) Z))
    (hident : ∀ i, IdentDistrib (Z i) (Z 0) μ μ) :
    ∀ᵐ ω ∂μ, ∀ (gv : List (List ℝ)) (labs : List (L × Option G)) (ds : ℕ → List (EnvDraw ℝ)) (t j : ℕ), j < t →
      labs.length = gv.length → (∀ g ∈ gv, g.length = t) → gv ≠ [] →
      (∀ m, 1 ≤ m → DrawsShaped gv.length t (ds m) ∧ (∀ d ∈ ds m, d.reps ≠ []) ∧
        (ds m).map (envTerm j) = (List.range m).map (fun i => Z i ω)) →
      Tendsto (fun m => realisedEnvVar (envBlocks gv labs 0 (ds m)) gv j ((ds m).map (fun d => d.reps.length))) atTop
        (𝓝 (Var[Z 0; μ])) := by
  filter_upwards [popVar_tendsto_variance Z hL2 hindep hident] with ω hω
  intro gv labs ds t j hj hlab hgv hne hfam
  refine hω.congr' ?_
  filter_upwards [eventually_ge_atTop 1] with m hm
  obtain ⟨h4, h5, hcol⟩ := hfam m hm
  have := (components_closed_form gv labs t (ds m) hlab hgv h4 hne h5 j hj).2.2
  rw [this, hcol]

/-- **Expectation of the realised replicate variance** (`k ≥ 1` replicates whose terms `replicate draw + mean error of the
    cell` are the first `k` terms of an i.i.d. square-integrable sequence `Y`): `(k-1)/k · Var[Y 0]`.  `_partial` for the
    same reason as the limit: `Var[Y 0] = var_rep + var_err/ntaxa` (`replicate_term_variance`), not `var_rep` alone. -/
theorem realised_replicate_variance_expectation_partial (Y : ℕ → Ω → ℝ) (hL2 : MemLp (Y 0) 2 μ)
    (hindep : Pairwise (Function.onFun (fun f g => f ⟂ᵢ[μ] g) Y))
    (hident : ∀ i, IdentDistrib (Y i) (Y 0) μ μ) (k : ℕ) (hk : 0 < k)
    (gv : List (List ℝ)) (labs : List (L × Option G)) (t j e : ℕ) (hj : j < t)
    (hlab : labs.length = gv.length) (hgv : ∀ g ∈ gv, g.length = t) (hne : gv ≠ [])
    (ds : Ω → List (EnvDraw ℝ))
    (hds : ∀ ω, DrawsShaped gv.length t (ds ω) ∧ (∀ d ∈ ds ω, d.reps ≠ []) ∧
      ∃ (he : e < (ds ω).length), (ds ω)[e].reps.length = k ∧
        (ds ω)[e].reps.map (repTerm j) = (List.range k).map (fun i => Y i ω)) :
    ∫ ω, realisedRepVar (envBlocks gv labs 0 (ds ω)) gv j e k ∂μ = ((k : ℝ) - 1) / k * Var[Y 0; μ] := by
  rw [← popVar_integral Y hL2 hindep hident k hk]
  apply integral_congr_ae
  refine Filter.Eventually.of_forall (fun ω => ?_)
  obtain ⟨h4, h5, he, hlen, hcol⟩ := hds ω
  have := (components_closed_form gv labs t (ds ω) hlab hgv h4 hne h5 j hj).2.1 e he
  rw [hlen] at this
  simp only [this, hcol]

/-- **Expectation of the realised environment variance** (`m ≥ 1` environments whose terms are the first `m` terms of an
    i.i.d. square-integrable sequence `Z`): `(m-1)/m · Var[Z 0]`; `_partial` as above. -/
theorem realised_environment_variance_expectation_partial (Z : ℕ → Ω → ℝ) (hL2 : MemLp (Z 0) 2 μ)
    (hindep : Pairwise (Function.onFun (fun f g => f ⟂ᵢ[μ] g) Z))
    (hident : ∀ i, IdentDistrib (Z i) (Z 0) μ μ) (m : ℕ) (hm : 0 < m)
    (gv : List (List ℝ)) (labs : List (L × Option G)) (t j : ℕ) (hj : j < t)
    (hlab : labs.length = gv.length) (hgv : ∀ g ∈ gv, g.length = t) (hne : gv ≠ [])
    (ds : Ω → List (EnvDraw ℝ))
    (hds : ∀ ω, DrawsShaped gv.length t (ds ω) ∧ (∀ d ∈ ds ω, d.reps ≠ []) ∧
      (ds ω).map (envTerm j) = (List.range m).map (fun i => Z i ω)) :
    ∫ ω, realisedEnvVar (envBlocks gv labs 0 (ds ω)) gv j ((ds ω).map (fun d => d.reps.length)) ∂μ =
      ((m : ℝ) - 1) / m * Var[Z 0; μ] := by
  rw [← popVar_integral Z hL2 hindep hident m hm]
  apply integral_congr_ae
  refine Filter.Eventually.of_forall (fun ω => ?_)
  obtain ⟨h4, h5, hcol⟩ := hds ω
  have := (components_closed_form gv labs t (ds ω) hlab hgv h4 hne h5 j hj).2.2
  simp only [this, hcol]

/-- **Why the replicate / environment clauses are `_partial`: the hypothesis cannot be dropped.**  The replicate term of a
    cell is `replicate draw + mean of the ntaxa error draws`; for independent draws its variance is
    `var_rep + var_err/ntaxa`, which exceeds the requested `var_rep` whenever there is error variance.  So the statistic the
    frame offers converges (and has expectation proportional) to that number, never to `var_rep` alone, unless
    `var_err = 0` or the number of taxa grows as well. -/
theorem replicate_term_variance (R : Ω → ℝ) (E : ℕ → Ω → ℝ) (n : ℕ) (hn : 0 < n) (v : ℝ)
    (hR : MemLp R 2 μ) (hE : ∀ i ∈ Finset.range n, MemLp (E i) 2 μ)
    (hEE : (↑(Finset.range n) : Set ℕ).Pairwise (fun i j => E i ⟂ᵢ[μ] E j))
    (hRE : R ⟂ᵢ[μ] (∑ i ∈ Finset.range n, E i))
    (hv : ∀ i ∈ Finset.range n, Var[E i; μ] = v) :
    Var[fun ω => R ω + (∑ i ∈ Finset.range n, E i ω) / (n : ℝ); μ] = Var[R; μ] + v / n ∧
    (0 < v → Var[fun ω => R ω + (∑ i ∈ Finset.range n, E i ω) / (n : ℝ); μ] ≠ Var[R; μ]) := by
  have h := variance_effect_add_mean R E n hn v hR hE hEE hRE hv
  refine ⟨h, fun hv0 => ?_⟩
  rw [h]
  have : 0 < v / n := div_pos hv0 (by exact_mod_cast hn)
  linarith

end conv

section gauss
open MeasureTheory ProbabilityTheory Filter Topology
variable {L G : Type}

/-- **Variance clause for the error component, as the property words it.**  Let the error draws be independent
    `N(0, var_err)` variates — the push-forward of the product measure `N(0, var_err)^ℕ` through the model, which is numpy's
    contract for `multivariate_normal(0, diag(var_err), ntaxa)` per trait.  For almost every generator stream `ω`, for
    every family of trials (any true values, labels, layouts, other draws) in which the error column of cell `(e, r)` of
    the `n`-taxon trial is the first `n` draws of the stream, the realised error variance of that cell converges to the
    REQUESTED `var_err` as the number of taxa grows. -/
theorem realised_error_variance_converges_to_requested (varErr : NNReal) :
    ∀ᵐ ω ∂(Measure.infinitePi (fun _ : ℕ => gaussianReal 0 varErr)),
      ∀ (gv : ℕ → List (List ℝ)) (labs : ℕ → List (L × Option G)) (ds : ℕ → List (EnvDraw ℝ))
      (t j e r : ℕ), j < t →
      (∀ n, 1 ≤ n → (gv n).length = n ∧ (labs n).length = n ∧ (∀ g ∈ gv n, g.length = t) ∧
        DrawsShaped n t (ds n) ∧ (∀ d ∈ ds n, d.reps ≠ []) ∧
        ∃ (he : e < (ds n).length) (hr : r < (ds n)[e].reps.length),
          errCol (ds n)[e].reps[r] j = (List.range n).map (fun i => coord i ω)) →
      Tendsto (fun n => realisedErrVar (envBlocks (gv n) (labs n) 0 (ds n)) (gv n) j e r) atTop
        (𝓝 (varErr : ℝ)) := by
  obtain ⟨hL2, hindep, hident, hvar⟩ := coord_iid (gaussianReal 0 varErr) (memLp_id_gaussianReal 2)
  have := realised_error_variance_converges (L := L) (G := G) coord hL2 hindep hident
  rw [hvar, variance_id_gaussianReal] at this
  exact this

/-- **Expectation of the realised error variance.**  Under the same push-forward (independent `N(0, var_err)` error draws),
    for a trial of `n ≥ 1` taxa (any true values, labels, layout and other draws, possibly depending on the stream) in which
    the error column of cell `(e, r)` is the first `n` draws of the stream, the realised error variance of that cell has
    expectation `(n-1)/n · var_err` — the classical bias of the population variance; `n/(n-1)` times it is an unbiased
    estimate of the REQUESTED `var_err`. -/
theorem realised_error_variance_expectation (varErr : NNReal) (n : ℕ) (hn : 0 < n)
    (gv : List (List ℝ)) (labs : List (L × Option G)) (t j e r : ℕ) (hj : j < t)
    (hgvn : gv.length = n) (hlab : labs.length = n) (hgv : ∀ g ∈ gv, g.length = t)
    (ds : (ℕ → ℝ) → List (EnvDraw ℝ))
    (hds : ∀ ω, DrawsShaped n t (ds ω) ∧ (∀ d ∈ ds ω, d.reps ≠ []) ∧
      ∃ (he : e < (ds ω).length) (hr : r < (ds ω)[e].reps.length),
        errCol (ds ω)[e].reps[r] j = (List.range n).map (fun i => coord i ω)) :
    ∫ ω, realisedErrVar (envBlocks gv labs 0 (ds ω)) gv j e r ∂(Measure.infinitePi (fun _ : ℕ => gaussianReal 0 varErr)) =
      ((n : ℝ) - 1) / n * (varErr : ℝ) := by
  rw [← popVar_integral_gaussian varErr n hn]
  apply integral_congr_ae
  refine Filter.Eventually.of_forall (fun ω => ?_)
  obtain ⟨h4, h5, he, hr, hcol⟩ := hds ω
  have hne : gv ≠ [] := by
    intro h
    rw [h] at hgvn
    simp at hgvn
    omega
  have := (components_closed_form gv labs t (ds ω) (hlab.trans hgvn.symm) hgv (by rw [hgvn]; exact h4) hne h5 j hj).1 e he r hr
  simp only [this, hcol]

/-- **A component with positive variance shows in the records.**  Let the error draws be independent `N(0, var_err)` variates
    with `var_err ≠ 0`.  For almost every generator stream, in every trial in which the error column of cell `(e, r)` (trait
    `j`) is the first `n` draws of the stream, the `n` residuals `record − true value` of that cell are pairwise distinct —
    no two taxa share a residual, whatever the true values and the other draws.  (The harness' `noise structure` oracle tests
    this consequence on the implementation's frame when a genuine generator is used; a rewrite that hands the same error
    to two records — e.g. replicate blocks that alias one array — fails it with probability one.) -/
theorem positive_error_variance_shows (varErr : NNReal) (hv : varErr ≠ 0) :
    ∀ᵐ ω ∂(Measure.infinitePi (fun _ : ℕ => gaussianReal 0 varErr)),
      ∀ (gv : List (List ℝ)) (labs : List (L × Option G)) (ds : List (EnvDraw ℝ)) (t j e r n : ℕ), j < t →
        gv.length = n → labs.length = n → (∀ g ∈ gv, g.length = t) → DrawsShaped n t ds →
        ∀ (he : e < ds.length) (hr : r < ds[e].reps.length),
          errCol ds[e].reps[r] j = (List.range n).map (fun i => coord i ω) →
          (cellResid (envBlocks gv labs 0 ds) gv j e r).Nodup := by
  filter_upwards [gaussian_draws_pairwise_distinct varErr hv] with ω hω
  intro gv labs ds t j e r n hj hgvn hlab hgv hsh he hr hcol
  rw [cellResid_closed_form gv labs t ds (hlab.trans hgvn.symm) hgv (by rw [hgvn]; exact hsh) j hj e he r hr, hcol,
    List.map_map]
  refine List.Nodup.map_on ?_ List.nodup_range
  intro a _ b _ hab
  by_contra hne
  exact hω a b hne (by simpa using hab)

end gauss

section toplevel
variable {G α : Type} [Add α]

/-- the wrapper `phenotype` (configuration guard, default names, column names, shape checks) around the loop: what a
    successful call returned.  With names supplied (`taxa = some l`) the labels are those names.  In particular a
    successful call had one replicate count per environment (`nrep.length = nenv`, the guard of the repaired code) and
    walked through exactly that layout. -/
theorem phenotype_unfold (gv : List (List α)) (taxa : Option (List String)) (grp : Option (List G))
    (trait : Option (List String)) (t nenv : Nat) (nrep : List Nat) (draws : List (Draw α))
    (cols : List String) (rows : List (Rec String G α))
    (h : phenotype gv taxa grp trait t nenv nrep draws = some (cols, rows)) :
    ∃ tx tr, namesOrDefault "Taxon" taxa gv.length = some tx ∧ namesOrDefault "Trait" trait t = some tr ∧
      (∀ l, taxa = some l → tx = l) ∧
      cols = ["taxa", "taxa_grp", "env", "rep"] ++ tr ∧ tr.length = t ∧
      (labels tx grp).length = gv.length ∧ (∀ g ∈ gv, g.length = t) ∧
      (∀ d ∈ draws, drawShapeOk gv.length t d = true) ∧
      envLoop gv (labels tx grp) 0 nrep draws = some rows ∧
      tx.length = gv.length ∧ (∀ g, grp = some g → g.length = gv.length) ∧ nrep.length = nenv := by
  unfold phenotype at h
  split at h
  · rename_i hn
    have htake : nrep.take nenv = nrep := by rw [← hn]; exact List.take_length
    unfold phenotypePrerepair at h
    rw [htake] at h
    split at h
    · rename_i tx tr htx htr
      split at h
      · rename_i hshape
        simp only [phenoShapeOk, Bool.and_eq_true, beq_iff_eq, List.all_eq_true] at hshape
        obtain ⟨⟨⟨⟨h1, h2⟩, h3⟩, h4⟩, h5⟩ := hshape
        split at h
        · rename_i rws hrun
          simp only [Option.some.injEq, Prod.mk.injEq] at h
          refine ⟨tx, tr, htx, htr, ?_, h.1.symm, h2, ?_, h3, h5, h.2 ▸ hrun, h1, ?_, hn⟩
          · intro l hl
            subst hl
            simp only [namesOrDefault, Option.some.injEq] at htx
            exact htx.symm
          · cases grp with
            | none => simp [labels, h1]
            | some g =>
              have : g.length = gv.length := by simpa [grpLenOk] using h4
              simp [labels, h1, this]
          · intro g hg
            subst hg
            simpa [grpLenOk] using h4
        · simp at h
      · simp at h
    · simp at h
  · simp at h

/-- **The field-trial clause for `phenotype()`, every configuration** (constructor or ANY setter history — no hypothesis on the
    configuration): whenever the call returns a frame, it holds exactly one record per taxon, environment and replicate, each
    carrying that taxon's labels — `nenv` environments, `nrep[e]` replicates in environment `e`, and the replicate array has
    one entry per environment.  (Before the repair of D60 this needed the hypothesis `nrep.length = nenv` and was false
    without it: `nenv_reassigned_stale_nrep_prerepair_counterexample`.) -/
theorem phenotype_one_record_per (gv : List (List α)) (taxa : List String) (grp : Option (List G))
    (trait : Option (List String)) (t nenv : Nat) (nrep : List Nat) (draws : List (Draw α))
    (cols : List String) (rows : List (Rec String G α))
    (h : phenotype gv (some taxa) grp trait t nenv nrep draws = some (cols, rows)) :
    nrep.length = nenv ∧
    rows.length = gv.length * nrep.sum ∧
    (∀ e (he : e < nrep.length) r, r < nrep[e] →
      (rows.filter (fun x => x.env = e + 1 ∧ x.rep = r + 1)).map (fun x => (x.taxa, x.grp)) = labels taxa grp) ∧
    (∀ x ∈ rows, ∃ e, ∃ (he : e < nrep.length), ∃ r, r < nrep[e] ∧ x.env = e + 1 ∧ x.rep = r + 1) := by
  obtain ⟨tx, tr, _, _, htx, _, _, hlab, _, hshape, hrun, _, _, hn⟩ := phenotype_unfold gv (some taxa) grp trait t nenv nrep draws cols rows h
  have := htx taxa rfl
  subst this
  have hmat : ∀ m, Draw.mat m ∈ draws → m.length = gv.length := by
    intro m hm
    have := hshape _ hm
    simp only [drawShapeOk, Bool.and_eq_true, beq_iff_eq] at this
    exact this.1
  exact ⟨hn, one_record_per_taxon_env_rep gv (labels tx grp) nrep draws rows hrun hlab hmat⟩

/-- the guard is the only difference between the repaired `phenotype` and the pre-repair one: on a configuration with one
    replicate count per environment they agree, on any other the repaired one refuses -/
theorem phenotype_eq_prerepair_iff (gv : List (List α)) (taxa : Option (List String)) (grp : Option (List G))
    (trait : Option (List String)) (t nenv : Nat) (nrep : List Nat) (draws : List (Draw α)) :
    (nrep.length = nenv → phenotype gv taxa grp trait t nenv nrep draws = phenotypePrerepair gv taxa grp trait t nenv nrep draws) ∧
    (nrep.length ≠ nenv → phenotype gv taxa grp trait t nenv nrep draws = none) := by
  unfold phenotype
  exact ⟨fun h => by rw [if_pos h], fun h => by rw [if_neg h]⟩

/-- what the constructor (`nenv` then `nrep` assignment, l.116-117) establishes: one positive replicate count per environment -/
theorem constructed_config_consistent (nenv : Nat) (x : Nat ⊕ List Nat) (nrep : List Nat)
    (h : nrepSetter nenv x = some nrep) : nrep.length = nenv ∧ ∀ k ∈ nrep, 0 < k :=
  nrepSetter_length nenv x nrep h

/-- **D60 (code before the repair).**  Constructed with 1 environment and the scalar `nrep = 1`, then `nenv` raised to 2
    through its setter: the replicate array kept its single entry, the trial of 2 taxa returned 2 records (environment 1
    only) instead of 4 — no record for environment 2. -/
theorem nenv_reassigned_stale_nrep_prerepair_counterexample :
    ((nrepSetter 1 (.inl 1)).bind (fun nrep0 => (reassignNenvPrerepair 2 (1, nrep0)).bind (fun cfg =>
      (phenotypePrerepair (G := Int) (α := Rat) [[4], [6]] (some ["d", "b"]) none none 1 cfg.1 cfg.2
        [.vec [0], .vec [0], .mat [[0], [0]], .vec [0], .vec [0], .mat [[0], [0]]]).map
        (fun cr => (cfg.1, cr.2.length, cr.2.map (fun r => r.env)))))) = some (2, 2, [1, 1]) := by
  decide +kernel

/-- the same history on the repaired model: the broadcast replicate count follows, 4 records, environments 1 and 2 -/
example :
    ((nrepSetter 1 (.inl 1)).bind (fun nrep0 => (reassignNenv 2 (1, nrep0)).bind (fun cfg =>
      (phenotype (G := Int) (α := Rat) [[4], [6]] (some ["d", "b"]) none none 1 cfg.1 cfg.2
        [.vec [0], .vec [0], .mat [[0], [0]], .vec [0], .vec [0], .mat [[0], [0]]]).map
        (fun cr => (cfg.1, cfg.2, cr.2.length, cr.2.map (fun r => r.env)))))) = some (2, [1, 1], 4, [1, 1, 2, 2]) := by
  decide +kernel

/-- `nenv` raised over a NON-constant replicate array: no count is defined for the new environment, the repaired
    `phenotype` refuses (the pre-repair code silently returned the first two environments) -/
example :
    ((nrepSetter 2 (.inr [2, 1])).bind (fun nrep0 => (reassignNenv 3 (2, nrep0)).map (fun cfg =>
      (cfg, (phenotype (G := Int) (α := Rat) [[4], [6]] (some ["d", "b"]) none none 1 cfg.1 cfg.2 []).isSome)))) =
      some ((3, [2, 1]), false) := by
  decide +kernel

end toplevel

/-! ## 1b. the configuration object: constructor and public setters (D60 repaired; the pre-repair setter characterised exactly) -/
section config
variable {α : Type} [OfNat α 0] [LT α] [DecidableLT α]

/-- **The constructor establishes a consistent configuration**: one positive replicate count per environment (scalar `nrep`
    broadcast, or a per-environment array of the right length), one variance per trait (`None` ↦ 0, scalar broadcast, or a
    per-trait array). -/
theorem constructor_establishes_layout (t nenv : Nat) (nrep : Nat ⊕ List Nat) (ve vr vx : VarArg α) (c : Cfg α)
    (h : cfgInit t nenv nrep ve vr vx = some c) :
    c.Consistent ∧ c.nenv = nenv ∧ 0 < nenv ∧ c.varEnv.length = t ∧ c.varRep.length = t ∧ c.varErr.length = t :=
  cfgInit_consistent t nenv nrep ve vr vx c h

/-- **Every `nrep` assignment re-establishes a consistent configuration**, whatever happened before. -/
theorem nrep_assignment_restores_layout (t : Nat) (c c' : Cfg α) (x : Nat ⊕ List Nat)
    (h : cfgStep t c (.setNrep x) = some c') : c'.Consistent ∧ c'.nenv = c.nenv :=
  cfgStep_setNrep_consistent t c c' x h

/-- **The repaired `nenv` setter, exactly**: it stores the number and makes the replicate array follow — truncated when the
    number goes down, re-broadcast when it goes up over a constant array (in particular a broadcast integer `nrep`), left
    alone when it goes up over a non-constant array; from a consistent configuration the result is consistent iff the
    number did not go up or the array is constant. -/
theorem nenv_assignment_consistent_iff (t : Nat) (c c' : Cfg α) (n : Nat) (hc : c.Consistent) (hpos : 0 < c.nenv)
    (h : cfgStep t c (.setNenv n) = some c') :
    c'.nenv = n ∧ 0 < n ∧ c'.nrep = nrepFollow n c.nrep ∧ (∀ k ∈ c'.nrep, 0 < k) ∧
      (c'.Consistent ↔ (n ≤ c.nenv ∨ isConst c.nrep = true)) :=
  cfgStep_setNenv_consistent_iff t c c' n hc hpos h

/-- **D60, exactly (pre-repair setter)**: the `nenv` setter stored the number and left the replicate array alone; starting
    from a consistent configuration the result was consistent iff the number of environments did not change. -/
theorem nenv_assignment_consistent_iff_prerepair (t : Nat) (c c' : Cfg α) (n : Nat) (hc : c.Consistent)
    (h : cfgStepPrerepair t c (.setNenv n) = some c') :
    c'.nrep = c.nrep ∧ c'.nenv = n ∧ (c'.Consistent ↔ n = c.nenv) :=
  cfgStepPrerepair_setNenv_consistent_iff t c c' n hc h

/-- **A scalar `nrep` follows every later `nenv` assignment** (D60 repaired, histories of any length): constructed with the
    integer `nrep = k`, after ANY accepted history of `nenv` / variance assignments the replicate array is `[k] * nenv` for
    the number of environments now in force — the configuration is consistent and every environment has `k` replicates. -/
theorem scalar_nrep_follows_nenv (t nenv k : Nat) (ve vr vx : VarArg α) (c c' : Cfg α) (ops : List (CfgOp α))
    (hinit : cfgInit t nenv (.inl k) ve vr vx = some c) (hops : ∀ op ∈ ops, ∀ x, op ≠ .setNrep x)
    (h : cfgRun t c ops = some c') :
    c'.nrep = List.replicate c'.nenv k ∧ c'.Consistent ∧ c'.layout = List.replicate c'.nenv k := by
  have hb := cfgRun_broadcast t ops c c' k (cfgInit_broadcast t nenv k ve vr vx c hinit) hops h
  refine ⟨hb.1, hb.consistent, ?_⟩
  rw [layout_of_consistent c' hb.consistent, hb.1]

/-- **Setter histories of any length (repaired)**: the replicate array never has more entries than there are environments
    and its entries are positive; so the only inconsistent state is "fewer counts than environments" (`nenv` raised over a
    non-constant array, no `nrep` assignment since), which `phenotype` refuses (`phenotype_one_record_per`). -/
theorem setter_history_invariant (t : Nat) (ops : List (CfgOp α)) (c c' : Cfg α) (hc : c.Consistent)
    (h : cfgRun t c ops = some c') : c'.nrep.length ≤ c'.nenv ∧ ∀ k ∈ c'.nrep, 0 < k :=
  cfgRun_inv t ops c c' hc.inv h

/-- **Setter histories before the repair**: the stored number of environments was the one assigned last, the replicate array
    had the length in force at the last `nrep` assignment (bookkeeping function `trackNenv`). -/
theorem setter_history_lengths_prerepair (t : Nat) (ops : List (CfgOp α)) (c c' : Cfg α)
    (h : cfgRunPrerepair t c ops = some c') :
    c'.nenv = (trackNenv (c.nenv, c.nrep.length) ops).1 ∧ c'.nrep.length = (trackNenv (c.nenv, c.nrep.length) ops).2 :=
  cfgRunPrerepair_lengths t ops c c' h

/-- the number of environments the loop covers is `min(nenv, len(nrep))`; for a consistent configuration the layout is the
    replicate array itself -/
theorem phenotype_walks_min_nenv_nrep (c : Cfg α) :
    c.layout.length = min c.nenv c.nrep.length ∧ (c.Consistent → c.layout = c.nrep) :=
  ⟨layout_length c, layout_of_consistent c⟩

/-- **The generator calls follow the plan.**  A stream consumed by the loop on the layout of `c` was requested with exactly
    the `size` arguments of `drawPlan c ntaxa`, in order; and every call of the plan carries `diag(var_env)` / `diag(var_rep)`
    (for a `(t,)` draw) or `diag(var_err)` (for an `(ntaxa, t)` draw) of the current configuration.  (The harness compares
    the recorded calls of the real code with this plan on every case.) -/
theorem generator_calls_follow_plan (c : Cfg α) (n : Nat) (ds : List (EnvDraw α))
    (hlay : ds.map (fun d => d.reps.length) = c.layout) (herr : ∀ d ∈ ds, ∀ rd ∈ d.reps, rd.err.length = n) :
    (flattenDraws ds).map drawSize = (drawPlan c n).map (·.size) ∧
    ∀ d ∈ drawPlan c n,
      (d.size = none ∧ (d.covDiag = c.varEnv ∨ d.covDiag = c.varRep)) ∨ (d.size = some n ∧ d.covDiag = c.varErr) :=
  ⟨drawPlan_sizes c n ds hlay herr, fun d hd => drawPlan_cov c n d hd⟩

end config

/-- D60 repaired, on the configuration model: constructed with 2 environments and the scalar `nrep = 1`, then `nenv := 4`:
    the replicate array follows (4 entries, 4 environments covered); before the repair it kept 2 entries and the trial
    covered 2 environments.  Lowering truncates; raising over a non-constant array leaves it alone. -/
example : ((cfgInit (α := Rat) 1 2 (.inl 1) .none .none .none).bind (fun c => cfgRun 1 c [.setNenv 4])).map
      (fun c => (c.nenv, c.nrep, c.layout)) = some (4, [1, 1, 1, 1], [1, 1, 1, 1]) ∧
    ((cfgInit (α := Rat) 1 2 (.inl 1) .none .none .none).bind (fun c => cfgRunPrerepair 1 c [.setNenv 4])).map
      (fun c => (c.nenv, c.nrep, c.layout)) = some (4, [1, 1], [1, 1]) ∧
    ((cfgInit (α := Rat) 1 3 (.inr [2, 1, 2]) .none .none .none).bind (fun c => cfgRun 1 c [.setNenv 2])).map
      (fun c => (c.nenv, c.nrep, c.layout)) = some (2, [2, 1], [2, 1]) ∧
    ((cfgInit (α := Rat) 1 3 (.inr [2, 1, 2]) .none .none .none).bind (fun c => cfgRun 1 c [.setNenv 2, .setNenv 3])).map
      (fun c => (c.nenv, c.nrep, c.layout)) = some (3, [2, 1], [2, 1]) ∧
    ((cfgInit (α := Rat) 1 2 (.inr [3, 3]) .none .none .none).bind (fun c => cfgRun 1 c [.setNenv 4])).map
      (fun c => (c.nenv, c.nrep, c.layout)) = some (4, [3, 3, 3, 3], [3, 3, 3, 3]) := by decide +kernel

/-- the plan of a 2-environment trial with 2 and 1 replicates, 3 taxa: env, (rep, err) x 2, env, (rep, err) -/
example : ((cfgInit (α := Rat) 2 2 (.inr [2, 1]) (.scalar 1) (.array [2, 3]) .none).map
      (fun c => (drawPlan c 3).map (fun d => (d.covDiag, d.size)))) =
    some [([1, 1], none), ([2, 3], none), ([0, 0], some 3), ([2, 3], none), ([0, 0], some 3),
          ([1, 1], none), ([2, 3], none), ([0, 0], some 3)] := by decide +kernel

section truepheno
variable {G α : Type}

/-- **`TruePhenotyping`**: one record per taxon, carrying that taxon's labels, equal to its true genotypic value -/
theorem truePhenotype_rows (gv : List (List α)) (taxa : List String) (grp : Option (List G))
    (trait : Option (List String)) (t : Nat) (cols : List String) (rows : List (String × Option G × List α))
    (h : truePhenotype gv (some taxa) grp trait t = some (cols, rows)) :
    rows.length = gv.length ∧ rows.map (fun r => (r.1, r.2.1)) = labels taxa grp ∧ rows.map (fun r => r.2.2) = gv := by
  unfold truePhenotype at h
  simp only [namesOrDefault] at h
  split at h
  · rename_i tx tr htx htr
    simp only [Option.some.injEq] at htx
    subst htx
    split at h
    · rename_i hshape
      simp only [Bool.and_eq_true, beq_iff_eq] at hshape
      obtain ⟨⟨h1, _⟩, h3⟩ := hshape
      simp only [Option.some.injEq, Prod.mk.injEq] at h
      have hl : (labels taxa grp).length = gv.length := by
        cases grp with
        | none => simp [labels, h1]
        | some g =>
          have : g.length = gv.length := by simpa [grpLenOk] using h3
          simp [labels, h1, this]
      rw [← h.2]
      refine ⟨by simp [hl], ?_, ?_⟩
      · apply List.ext_getElem
        · simp [hl]
        · intro i h1 h2; simp
      · apply List.ext_getElem
        · simp [hl]
        · intro i h1 h2; simp
    · simp at h
  · simp at h

end truepheno

/-! ## 2. heritability -/
section herit
variable {α : Type} [Field α] [LinearOrder α] [IsStrictOrderedRing α]

/-- **Setting a heritability fixes the error variance**: with `var_err = (1 - h²)/h² · var_A`, genetic over
    genetic-plus-error variance equals the target, for every target in `(0,1]` and every positive genetic variance;
    the computed error variance is a variance (non-negative, so the setter accepts it). -/
theorem h2_fixes_error_variance (h2 varA : α) (h0 : 0 < h2) (h1 : h2 ≤ 1) (hA : 0 < varA) :
    heritability varA (errVar h2 varA) = h2 ∧ 0 ≤ errVar h2 varA :=
  ⟨heritability_errVar h2 varA h0 hA, errVar_nonneg h2 varA h0 h1 hA.le⟩

/-- a target of exactly 1 means no error variance -/
theorem h2_one_no_error (varA : α) : errVar 1 varA = 0 := by simp [errVar]

/-- the hypothesis `0 < var_A` is necessary, not a restriction of the code: without genetic variance no error variance
    whatsoever attains a positive target -/
theorem h2_unattainable_without_genetic_variance (h2 varE : α) (h0 : 0 < h2) : heritability 0 varE ≠ h2 := by
  simp only [heritability, zero_div]
  exact ne_of_lt h0

/-- **`set_h2` / `set_H2` on a population, trait by trait**: whatever the true values `gv` (the variance is the
    population variance of each column, hence non-negative), for targets in `(0,1]` the setter succeeds and every trait
    with genetic variance attains its own target. -/
theorem set_h2_per_trait (t : Nat) (gv : List (List α)) (h2 : List α) (hl : h2.length = t)
    (hh : ∀ h ∈ h2, 0 < h ∧ h ≤ 1) :
    ∃ v, setH2 h2 (varCols t gv) = some v ∧ v.length = t ∧
      ∀ j (hj : j < t), 0 < (varCols t gv)[j]'(by rw [varCols_length]; exact hj) →
        heritability ((varCols t gv)[j]'(by rw [varCols_length]; exact hj)) (v[j]?.getD 0) = h2[j]'(hl ▸ hj) := by
  refine ⟨_, setH2_eq h2 (varCols t gv) hh (varCols_nonneg t gv), by simp [hl, varCols_length], ?_⟩
  intro j hj hpos
  have h1 : j < h2.length := hl ▸ hj
  have h2' : j < (varCols t gv).length := by rw [varCols_length]; exact hj
  have : (List.zipWith errVar h2 (varCols t gv))[j]? = some (errVar h2[j] (varCols t gv)[j]) := by
    rw [List.getElem?_eq_getElem (by simp [h1, h2'])]
    simp
  rw [this]
  exact heritability_errVar _ _ (hh _ (List.getElem_mem h1)).1 hpos

end herit

/-! ## 3. mean-phenotype breeding values -/
section bv
variable {L G α : Type} [DecidableEq L] [DecidableEq G] [Field α]

/-- **Mean, missing and alignment in one equation — FULL (repaired code, fix of D61): every table, `taxa_grp_col` set or
    not.**  For every phenotype table (several names, several groups, one name under several group labels) and every list
    of genotype taxa — unsorted, with repeats, with taxa that were never phenotyped — row `i` of the result is the per-trait
    arithmetic mean over ALL records named `gtTaxa[i]`, or missing if there is none.  (Before the repair this needed
    `KeyByName`: `meanBVPrerepair_eq_mean_partial`, `meanBV_name_under_two_groups_prerepair_counterexample`.) -/
theorem meanBV_eq_mean (le : (L × Option G) → (L × Option G) → Bool) (useGrp : Bool) (t : Nat) (recs : List (Rec L G α))
    (gtTaxa : List L) :
    meanBV le useGrp t recs gtTaxa = gtTaxa.map (meanOrMissing t recs) := by
  unfold meanBV meanBVPrerepair
  apply List.map_congr_left
  intro name _
  exact lookupLast_eq_meanOrMissing le false t recs (keyByName_nogrp recs) name

/-- the repaired estimate does not depend on whether `taxa_grp_col` is set (a genotype matrix being supplied) and coincides
    with the pre-repair one on every table in which no name is split over group labels -/
theorem meanBV_eq_prerepair (le : (L × Option G) → (L × Option G) → Bool) (useGrp : Bool) (t : Nat)
    (recs : List (Rec L G α)) (hk : KeyByName useGrp recs) (gtTaxa : List L) :
    meanBV le useGrp t recs gtTaxa = meanBVPrerepair le useGrp t recs gtTaxa := by
  rw [meanBV_eq_mean]
  unfold meanBVPrerepair
  apply List.map_congr_left
  intro name _
  exact (lookupLast_eq_meanOrMissing le useGrp t recs hk name).symm

/-- what "arithmetic mean" means here: trait `j` of the row is `Σ values / count` over the taxon's records -/
theorem meanOrMissing_entry (t : Nat) (recs : List (Rec L G α)) (name : L) (hne : recordsOf recs name ≠ [])
    (j : Nat) (hj : j < t) :
    ((meanOrMissing t recs name).map (fun row => row[j]?)) =
      some (some (Np.sum ((recordsOf recs name).filterMap (fun r => r.vals[j]?)) /
        (((recordsOf recs name).filterMap (fun r => r.vals[j]?)).length : α))) := by
  unfold meanOrMissing
  rw [if_neg hne]
  simp only [Option.map_some, colMeans, Option.some.injEq]
  rw [List.getElem?_eq_getElem (by simpa using hj)]
  simp [mean, List.filterMap_map]

/-- the PRE-REPAIR estimate with `taxa_grp_col` set: the equation held when a name never occurs under two different group
    labels (`KeyByName`).
    FULL STATEMENT (false of the pre-repair code when one name is used under two groups: the hash join kept the last group):
      ∀ useGrp recs gtTaxa, meanBVPrerepair le useGrp t recs gtTaxa = gtTaxa.map (meanOrMissing t recs) -/
theorem meanBVPrerepair_eq_mean_partial (le : (L × Option G) → (L × Option G) → Bool) (useGrp : Bool) (t : Nat)
    (recs : List (Rec L G α)) (hk : KeyByName useGrp recs) (gtTaxa : List L) :
    meanBVPrerepair le useGrp t recs gtTaxa = gtTaxa.map (meanOrMissing t recs) := by
  unfold meanBVPrerepair
  apply List.map_congr_left
  intro name _
  exact lookupLast_eq_meanOrMissing le useGrp t recs hk name

/-- **The pre-repair estimate on EVERY table, exactly**: row `i` was missing iff no record is named `gtTaxa[i]`; otherwise it
    was the per-trait arithmetic mean over the records of that name whose group key is the GREATEST key of that name in the
    group-by order (`IsLastKey`) — the hash join kept the last aggregated row. -/
theorem meanBVPrerepair_row_characterised (le : (L × Option G) → (L × Option G) → Bool)
    (htot : ∀ a b, le a b = true ∨ le b a = true)
    (htrans : ∀ a b c, le a b = true → le b c = true → le a c = true)
    (useGrp : Bool) (t : Nat) (recs : List (Rec L G α)) (gtTaxa : List L) (i : Nat) (hi : i < gtTaxa.length) :
    ((∀ r ∈ recs, r.taxa ≠ gtTaxa[i]) → (meanBVPrerepair le useGrp t recs gtTaxa)[i]? = some none) ∧
    ((∃ r ∈ recs, r.taxa = gtTaxa[i]) → ∃ k, IsLastKey le useGrp recs gtTaxa[i] k ∧
      (meanBVPrerepair le useGrp t recs gtTaxa)[i]? = some (some (colMeans t (groupRows useGrp recs k)))) := by
  obtain ⟨h1, h2⟩ := lookupLast_aggWith_full (colMeans t) le htot htrans useGrp recs gtTaxa[i]
  unfold meanBVPrerepair
  rw [List.getElem?_map, List.getElem?_eq_getElem hi]
  simp only [Option.map_some, Option.some.injEq]
  exact ⟨fun h => h1 h, fun h => h2 h⟩

/-- **D61 (code before the repair).**  With `taxa_grp_col` set, records (a, group 1, 1) and (a, group 2, 5) gave 5 (last group),
    not the mean 3 over the records of `a` — and not the mean of the genotype entry's own group either, whatever that is. -/
theorem meanBV_name_under_two_groups_prerepair_counterexample :
    meanBVPrerepair (α := Rat) keyLe true 1 [⟨"a", some 1, 1, 1, [1]⟩, ⟨"a", some 2, 1, 1, [5]⟩] ["a"] = [some [5]] ∧
    meanOrMissing (L := String) (G := Int) (α := Rat) 1 [⟨"a", some 1, 1, 1, [1]⟩, ⟨"a", some 2, 1, 1, [5]⟩] "a" = some [3] := by
  decide +kernel

/-- the same table on the repaired model: the records of `a` are pooled, 3 -/
example : meanBV (α := Rat) keyLe true 1 [⟨"a", some 1, 1, 1, [1]⟩, ⟨"a", some 2, 1, 1, [5]⟩] ["a", "a"] = [some [3], some [3]] := by
  decide +kernel

/-- **Unphenotyped taxa are reported as missing** — in every configuration. -/
theorem meanBV_missing (le : (L × Option G) → (L × Option G) → Bool) (useGrp : Bool) (t : Nat)
    (recs : List (Rec L G α)) (gtTaxa : List L) (i : Nat) (hi : i < gtTaxa.length)
    (hno : ∀ r ∈ recs, r.taxa ≠ gtTaxa[i]) :
    (meanBV le useGrp t recs gtTaxa)[i]? = some none := by
  unfold meanBV meanBVPrerepair
  rw [List.getElem?_map, List.getElem?_eq_getElem hi]
  simp only [Option.map_some, Option.some.injEq]
  apply lookupLast_none
  intro r hr hn
  exact absurd hn (hno r hr)

/-- **Invariance to the row order of the phenotype table** — for every table (duplicate names, missing group labels
    included) and every configuration, given that the group-by sorts its keys by a total order. -/
theorem meanBV_row_perm_invariant (le : (L × Option G) → (L × Option G) → Bool)
    (htot : ∀ a b, le a b = true ∨ le b a = true)
    (htrans : ∀ a b c, le a b = true → le b c = true → le a c = true)
    (hanti : ∀ a b, le a b = true → le b a = true → a = b)
    (useGrp : Bool) (t : Nat) (recs recs' : List (Rec L G α)) (hperm : recs.Perm recs') (gtTaxa : List L) :
    meanBV le useGrp t recs gtTaxa = meanBV le useGrp t recs' gtTaxa := by
  unfold meanBV meanBVPrerepair
  rw [agg_perm le htot htrans hanti false t hperm]

/-- **Alignment to the genotype matrix supplied**: one row per genotype taxon, and re-ordering / sub-setting /
    repeating the genotype taxa by any index list re-orders the rows in the same way (row `i` depends on `gtTaxa[i]`
    only). -/
theorem meanBV_aligned (le : (L × Option G) → (L × Option G) → Bool) (useGrp : Bool) (t : Nat)
    (recs : List (Rec L G α)) (gtTaxa : List L) :
    (meanBV le useGrp t recs gtTaxa).length = gtTaxa.length ∧
    ∀ idx : List Nat, meanBV le useGrp t recs (Np.take idx gtTaxa) = Np.take idx (meanBV le useGrp t recs gtTaxa) := by
  refine ⟨by simp [meanBV, meanBVPrerepair], ?_⟩
  intro idx
  unfold meanBV meanBVPrerepair Np.take
  rw [List.map_filterMap]
  apply List.filterMap_congr
  intro i _
  rw [List.getElem?_map]

end bv

section bvkey
variable {α : Type} [Field α]

/-- row-order invariance for the order the driver (and pandas) uses on `(name, group)` keys: no hypothesis left -/
theorem meanBV_row_perm_invariant_keyLe (useGrp : Bool) (t : Nat) (recs recs' : List (Rec String Int α))
    (hperm : recs.Perm recs') (gtTaxa : List String) :
    meanBV keyLe useGrp t recs gtTaxa = meanBV keyLe useGrp t recs' gtTaxa :=
  meanBV_row_perm_invariant keyLe keyLe_total keyLe_trans keyLe_antisymm useGrp t recs recs' hperm gtTaxa

end bvkey

section nogt
variable {L G α : Type} [DecidableEq L] [DecidableEq G] [Field α]

/-- **Estimation without a genotype matrix** (`taxa_grp_col = None`): one row per distinct taxon name of the table, each the
    per-trait arithmetic mean over that name's records -/
theorem meanBV_without_genotypes (le : (L × Option G) → (L × Option G) → Bool) (t : Nat) (recs : List (Rec L G α)) :
    (meanBVNoGt le false t recs).1.Nodup ∧
    (∀ name, name ∈ (meanBVNoGt le false t recs).1 ↔ ∃ r ∈ recs, r.taxa = name) ∧
    (meanBVNoGt le false t recs).2.2 =
      (meanBVNoGt le false t recs).1.map (fun name => colMeans t ((recordsOf recs name).map (·.vals))) := by
  have hkeys : ∀ k ∈ aggKeys le false recs, k = (k.1, none) := by
    intro k hk
    obtain ⟨r, _, hr⟩ := (mem_aggKeys le false recs k).mp hk
    rw [keyOf_nogrp] at hr
    have := Option.some.inj hr
    rw [← this]
  have hinj : ∀ a ∈ aggKeys le false recs, ∀ b ∈ aggKeys le false recs, a.1 = b.1 → a = b := by
    intro a ha b hb hab
    rw [hkeys a ha, hkeys b hb, hab]
  simp only [meanBVNoGt, agg, aggWith, List.map_map]
  refine ⟨?_, ?_, ?_⟩
  · exact (List.nodup_map_iff_inj_on (nodup_aggKeys le false recs)).mpr hinj
  · intro name
    simp only [List.mem_map, Function.comp]
    constructor
    · rintro ⟨k, hk, rfl⟩
      obtain ⟨r, hr, hrk⟩ := (mem_aggKeys le false recs k).mp hk
      exact ⟨r, hr, (keyOf_fst false r k hrk).symm⟩
    · rintro ⟨r, hr, rfl⟩
      exact ⟨(r.taxa, none), (mem_aggKeys le false recs _).mpr ⟨r, hr, keyOf_nogrp r⟩, rfl⟩
  · apply List.map_congr_left
    intro k hk
    simp only [Function.comp]
    congr 1
    unfold groupRows recordsOf
    congr 1
    apply List.filter_congr
    intro r _
    rw [keyOf_nogrp, hkeys k hk]
    simp

end nogt

/-! ## 4. end to end: a noiseless trial followed by mean-phenotype estimation returns the truth -/
section pipeline
variable {L G α : Type} [DecidableEq L] [DecidableEq G] [Field α] [CharZero α]

/-- **Truth is preserved end to end.**  Phenotype a population with pairwise distinct names (grouped or not) in any
    layout with at least one (environment, replicate) cell and zero noise, then estimate mean-phenotype breeding values
    (with or without `taxa_grp_col`, grouped or not — D18, D61 fixed: no condition linking `taxa_grp_col` to the population) against the genotype taxa re-ordered,
    sub-set or repeated by ANY index list `idx`: row `k` is exactly the true genotypic value of taxon `idx[k]`. -/
theorem noiseless_pipeline_returns_truth (le : (L × Option G) → (L × Option G) → Bool) (useGrp : Bool)
    (gv : List (List α)) (taxa : List L) (grp : Option (List G)) (t : Nat) (nrep : List Nat)
    (s : List (Draw α)) (rows : List (Rec L G α))
    (hrun : envLoop gv (labels taxa grp) 0 nrep s = some rows)
    (hlab : taxa.length = gv.length) (hgrp : ∀ g, grp = some g → g.length = taxa.length)
    (hnodup : taxa.Nodup) (hgv : ∀ g ∈ gv, g.length = t)
    (hshape : ∀ d ∈ s, drawShapeOk gv.length t d = true)
    (hzero : ∀ d ∈ s, match d with
      | .vec v => ∀ x ∈ v, x = 0
      | .mat m => ∀ row ∈ m, ∀ x ∈ row, x = 0)
    (hcell : ∃ e, ∃ (he : e < nrep.length), 0 < nrep[e])
    (idx : List Nat) (hidx : ∀ i ∈ idx, i < taxa.length) :
    meanBV le useGrp t rows (Np.take idx taxa) = (Np.take idx gv).map some := by
  have hlabs : (labels taxa grp).length = gv.length := by rw [labels_length taxa grp hgrp, hlab]
  have hz := zero_noise_exact gv (labels taxa grp) t nrep s rows hrun hlabs hgv hshape hzero
  have hmat : ∀ m, Draw.mat m ∈ s → m.length = gv.length := by
    intro m hm
    have := hshape _ hm
    simp only [drawShapeOk, Bool.and_eq_true, beq_iff_eq] at this
    exact this.1
  obtain ⟨_, _, hrange⟩ := one_record_per_taxon_env_rep gv (labels taxa grp) nrep s rows hrun hlabs hmat
  -- every record is (labels k, gv k) for some k
  have hrec : ∀ x ∈ rows, ∃ k, ∃ (hk : k < taxa.length), x.taxa = taxa[k] ∧
      (x.taxa, x.grp) = (labels taxa grp)[k]'(by rw [hlabs, ← hlab]; exact hk) ∧ x.vals = gv[k]'(hlab ▸ hk) := by
    intro x hx
    obtain ⟨e, he, r, hr, h1, h2⟩ := hrange x hx
    have hmem : ((x.taxa, x.grp), x.vals) ∈ List.zip (labels taxa grp) gv := by
      rw [← hz e he r hr]
      exact List.mem_map.mpr ⟨x, by simp [hx, h1, h2], rfl⟩
    obtain ⟨k, hk, hkeq⟩ := List.mem_iff_getElem.mp hmem
    simp only [List.length_zip, lt_min_iff] at hk
    have hk' : k < taxa.length := by rw [hlab]; exact hk.2
    rw [List.getElem_zip] at hkeq
    have e1 : (labels taxa grp)[k] = (x.taxa, x.grp) := congrArg Prod.fst hkeq
    have e2 : gv[k] = x.vals := congrArg Prod.snd hkeq
    refine ⟨k, hk', ?_, e1.symm, e2.symm⟩
    have := (labels_getElem taxa grp k hk.1 hk').1
    rw [e1] at this
    exact this
  -- the records named taxa[i] are non-empty and all carry gv[i]
  obtain ⟨e, he, hpos⟩ := hcell
  have hcellrows := hz e he 0 hpos
  have hmean : ∀ i (hi : i < taxa.length), meanOrMissing t rows taxa[i] = some (gv[i]'(hlab ▸ hi)) := by
    intro i hi
    have hne : recordsOf rows taxa[i] ≠ [] := by
      have hil : i < (labels taxa grp).length := by rw [hlabs, ← hlab]; exact hi
      have hmem : ((labels taxa grp)[i], gv[i]'(hlab ▸ hi)) ∈ List.zip (labels taxa grp) gv := by
        rw [List.mem_iff_getElem]
        exact ⟨i, by simp [hil, ← hlab, hi], by simp⟩
      rw [← hcellrows] at hmem
      obtain ⟨x, hx, hxe⟩ := List.mem_map.mp hmem
      have hxt : x.taxa = taxa[i] := by
        have h1 : (x.taxa, x.grp) = (labels taxa grp)[i] := congrArg Prod.fst hxe
        have := (labels_getElem taxa grp i hil hi).1
        rw [← h1] at this
        exact this
      intro hnil
      have : x ∈ recordsOf rows taxa[i] := by
        unfold recordsOf
        simp only [List.mem_filter, decide_eq_true_eq]
        exact ⟨(List.mem_filter.mp hx).1, hxt⟩
      rw [hnil] at this
      simp at this
    have hall : ∀ row ∈ (recordsOf rows taxa[i]).map (·.vals), row = gv[i]'(hlab ▸ hi) := by
      intro row hrow
      obtain ⟨x, hx, rfl⟩ := List.mem_map.mp hrow
      unfold recordsOf at hx
      simp only [List.mem_filter, decide_eq_true_eq] at hx
      obtain ⟨k, hk, hkt, _, hkv⟩ := hrec x hx.1
      have : k = i := (List.Nodup.getElem_inj_iff hnodup).mp (hkt.symm.trans hx.2)
      subst this
      exact hkv
    unfold meanOrMissing
    rw [if_neg hne]
    congr 1
    apply colMeans_const t _ (hgv _ (List.getElem_mem _)) _ _ hall
    simpa using hne
  rw [meanBV_eq_mean le useGrp t rows]
  unfold Np.take
  rw [List.map_filterMap, List.map_filterMap]
  apply List.filterMap_congr
  intro i hi
  have hi' := hidx i hi
  have hig : i < gv.length := hlab ▸ hi'
  rw [List.getElem?_eq_getElem hi', List.getElem?_eq_getElem hig]
  simp [hmean i hi']

end pipeline

/-! ## 5. default labels -/

/-- **Default labels are pairwise distinct**: an unnamed population of `n ≥ 1` taxa gets `n` different names
    `pre ++ str(i+1).zfill(ceil(log10 n)+1)` (holds for any padding width). -/
theorem default_names_distinct (pre : String) (n : Nat) (l : List String) (h : defaultNames pre n = some l) :
    l.Nodup ∧ l.length = n := defaultNames_nodup pre n l h

section
variable {G α : Type} [DecidableEq G] [Field α] [CharZero α]

/-- **Truth is preserved end to end for unnamed populations too**: `phenotype()` of a population without taxa names
    (default names), zero noise, then mean-phenotype estimation against the default names in any order `idx`. -/
theorem noiseless_pipeline_unnamed (le : (String × Option G) → (String × Option G) → Bool) (useGrp : Bool)
    (gv : List (List α)) (grp : Option (List G)) (trait : Option (List String)) (t nenv : Nat) (nrep : List Nat)
    (draws : List (Draw α)) (cols : List String) (rows : List (Rec String G α))
    (h : phenotype gv none grp trait t nenv nrep draws = some (cols, rows))
    (hzero : ∀ d ∈ draws, match d with
      | .vec v => ∀ x ∈ v, x = 0
      | .mat m => ∀ row ∈ m, ∀ x ∈ row, x = 0)
    (hcell : ∃ e, ∃ (he : e < nrep.length), 0 < nrep[e]) :
    ∃ tx, defaultNames "Taxon" gv.length = some tx ∧ tx.Nodup ∧ tx.length = gv.length ∧
      ∀ idx : List Nat, (∀ i ∈ idx, i < tx.length) →
        meanBV le useGrp t rows (Np.take idx tx) = (Np.take idx gv).map some := by
  obtain ⟨tx, tr, htx, _, _, _, _, _, hgv, hshape, hrun, _, hgl, _⟩ :=
    phenotype_unfold gv none grp trait t nenv nrep draws cols rows h
  simp only [namesOrDefault] at htx
  obtain ⟨hnd, hlen⟩ := defaultNames_nodup "Taxon" gv.length tx htx
  refine ⟨tx, htx, hnd, hlen, ?_⟩
  intro idx hidx
  have hgrp : ∀ g, grp = some g → g.length = tx.length := fun g hg => (hgl g hg).trans hlen.symm
  exact noiseless_pipeline_returns_truth le useGrp gv tx grp t nrep draws rows hrun hlen hgrp hnd hgv
    hshape hzero hcell idx hidx

end

/-! ## 6. phenotype tables with missing values (pandas' skip-NaN mean) -/
section nan
variable {L G α : Type} [DecidableEq L] [DecidableEq G] [Field α]

/-- **Mean, missing and alignment with NaN cells — FULL (repaired code): every table, `taxa_grp_col` set or not.**  Row `i` of
    the result is, trait by trait, the mean over those records named `gtTaxa[i]` that HAVE a value; missing where none has
    (all traits, for an unphenotyped taxon).  No hypothesis. -/
theorem meanBVNan_eq_mean (le : (L × Option G) → (L × Option G) → Bool) (useGrp : Bool) (t : Nat)
    (recs : List (Rec L G (Option α))) (gtTaxa : List L) :
    meanBVNan le useGrp t recs gtTaxa = gtTaxa.map (meanOrMissingNan t recs) :=
  meanBVNan_eq le false t recs (fun r _ => ⟨(r.taxa, none), rfl, fun r' _ h => by simp [keyOf, h]⟩) gtTaxa

/-- the PRE-REPAIR estimate with `taxa_grp_col` set, for tables in which a name never occurs under two group labels.
    FULL STATEMENT (false of the pre-repair code when one name is used under two groups: the hash join kept the last group):
      ∀ useGrp recs gtTaxa, meanBVNanPrerepair le useGrp t recs gtTaxa = gtTaxa.map (meanOrMissingNan t recs) -/
theorem meanBVNanPrerepair_eq_mean_partial (le : (L × Option G) → (L × Option G) → Bool) (useGrp : Bool) (t : Nat)
    (recs : List (Rec L G (Option α))) (hk : KeyByName useGrp recs) (gtTaxa : List L) :
    meanBVNanPrerepair le useGrp t recs gtTaxa = gtTaxa.map (meanOrMissingNan t recs) :=
  meanBVNan_eq le useGrp t recs hk gtTaxa

/-- D61 with NaN cells (code before the repair): the last group won -/
theorem meanBVNan_name_under_two_groups_prerepair_counterexample :
    meanBVNanPrerepair (α := Rat) keyLe true 1 [⟨"a", some 1, 1, 1, [some 1]⟩, ⟨"a", some 2, 1, 1, [some 5]⟩] ["a"] = [[some 5]] ∧
    meanOrMissingNan (L := String) (G := Int) (α := Rat) 1 [⟨"a", some 1, 1, 1, [some 1]⟩, ⟨"a", some 2, 1, 1, [some 5]⟩] "a" =
      [some 3] := by
  decide +kernel

/-- the same table on the repaired model: pooled -/
example : meanBVNan (α := Rat) keyLe true 1 [⟨"a", some 1, 1, 1, [some 1]⟩, ⟨"a", some 2, 1, 1, [some 5]⟩] ["a"] = [[some 3]] := by
  decide +kernel

/-- **The pre-repair estimate with NaN cells, every table**: row `i` was all-missing iff no record is named `gtTaxa[i]`;
    otherwise it was the skip-NaN column mean over the records of that name under its greatest group key. -/
theorem meanBVNanPrerepair_row_characterised (le : (L × Option G) → (L × Option G) → Bool)
    (htot : ∀ a b, le a b = true ∨ le b a = true)
    (htrans : ∀ a b c, le a b = true → le b c = true → le a c = true)
    (useGrp : Bool) (t : Nat) (recs : List (Rec L G (Option α))) (gtTaxa : List L) (i : Nat) (hi : i < gtTaxa.length) :
    ((∀ r ∈ recs, r.taxa ≠ gtTaxa[i]) → (meanBVNanPrerepair le useGrp t recs gtTaxa)[i]? = some (List.replicate t none)) ∧
    ((∃ r ∈ recs, r.taxa = gtTaxa[i]) → ∃ k, IsLastKey le useGrp recs gtTaxa[i] k ∧
      (meanBVNanPrerepair le useGrp t recs gtTaxa)[i]? = some (colMeansNan t (groupRows useGrp recs k))) := by
  obtain ⟨h1, h2⟩ := lookupLast_aggWith_full (colMeansNan t) le htot htrans useGrp recs gtTaxa[i]
  unfold meanBVNanPrerepair
  rw [List.getElem?_map, List.getElem?_eq_getElem hi]
  simp only [Option.map_some, Option.some.injEq]
  constructor
  · intro h; rw [h1 h]; rfl
  · intro h
    obtain ⟨k, hk, hl⟩ := h2 h
    exact ⟨k, hk, by rw [hl]; rfl⟩

/-- one entry spelled out: trait `j` of a phenotyped taxon is `Σ present values / their count`, or missing if no record of
    the taxon has a value for that trait -/
theorem meanOrMissingNan_entry (t : Nat) (recs : List (Rec L G (Option α))) (name : L)
    (hne : recordsOf recs name ≠ []) (j : Nat) (hj : j < t) :
    (meanOrMissingNan t recs name)[j]? = some
      (if ((recordsOf recs name).filterMap (fun r => (r.vals[j]?).join)).isEmpty then none
       else some (Np.sum ((recordsOf recs name).filterMap (fun r => (r.vals[j]?).join)) /
              (((recordsOf recs name).filterMap (fun r => (r.vals[j]?).join)).length : α))) := by
  unfold meanOrMissingNan
  rw [if_neg hne]
  unfold colMeansNan
  rw [List.getElem?_eq_getElem (by simpa using hj)]
  simp [mean, List.filterMap_map]

/-- **Conservative extension**: on a table without missing values the NaN-aware estimate coincides with the plain one
    (a missing row becoming a row of missing entries) — every theorem of section 3 carries over. -/
theorem meanBVNan_conservative (le : (L × Option G) → (L × Option G) → Bool) (useGrp : Bool) (t : Nat)
    (recs : List (Rec L G α)) (hlen : ∀ r ∈ recs, r.vals.length = t) (gtTaxa : List L) :
    meanBVNan le useGrp t (recs.map liftRec) gtTaxa =
      (meanBV le useGrp t recs gtTaxa).map (fun o => match o with
        | none => List.replicate t none
        | some row => row.map some) :=
  meanBVNan_lift le false t recs hlen gtTaxa

/-- **Row-order invariance with NaN cells** — every table, every configuration, total order on the keys. -/
theorem meanBVNan_row_perm_invariant (le : (L × Option G) → (L × Option G) → Bool)
    (htot : ∀ a b, le a b = true ∨ le b a = true)
    (htrans : ∀ a b c, le a b = true → le b c = true → le a c = true)
    (hanti : ∀ a b, le a b = true → le b a = true → a = b)
    (useGrp : Bool) (t : Nat) (recs recs' : List (Rec L G (Option α))) (hperm : recs.Perm recs') (gtTaxa : List L) :
    meanBVNan le useGrp t recs gtTaxa = meanBVNan le useGrp t recs' gtTaxa := by
  unfold meanBVNan meanBVNanPrerepair
  rw [aggWith_perm (colMeansNan t) (fun _ _ hp => colMeansNan_perm t hp) le htot htrans hanti false hperm]

end nan

/-! ## 7. the Spec oracles evaluated by the driver on the implementation's outputs: soundness (the model's own output is
accepted, for all inputs) and what an accepted heritability triple means -/
section oracles

/-- **spec_sound, field trial** (named population): the frame the model's loop returns for ANY layout and ANY draws of the
    right shape is accepted by `specPheno` (count + one record per (taxon, env, rep) with that taxon's labels); with all
    draws zero it is accepted with `zeroNoise = true` (every record equals its taxon's true value) as well. -/
theorem spec_pheno_sound (gv : List (List Rat)) (tx : List String) (grp : Option (List Int)) (t : Nat)
    (ds : List (EnvDraw Rat)) (hlab : (labels tx grp).length = gv.length)
    (herr : ∀ d ∈ ds, ∀ rd ∈ d.reps, rd.err.length = gv.length) :
    specPheno gv (some tx) grp (ds.map (fun d => d.reps.length)) false (envBlocks gv (labels tx grp) 0 ds) = true ∧
    ((∀ g ∈ gv, g.length = t) →
      (∀ d ∈ ds, d.env.length = t ∧ ∀ rd ∈ d.reps, rd.rep.length = t ∧ ∀ er ∈ rd.err, er.length = t) →
      (∀ d ∈ ds, (∀ x ∈ d.env, x = 0) ∧ ∀ rd ∈ d.reps, (∀ x ∈ rd.rep, x = 0) ∧ ∀ er ∈ rd.err, ∀ x ∈ er, x = 0) →
      specPheno gv (some tx) grp (ds.map (fun d => d.reps.length)) true (envBlocks gv (labels tx grp) 0 ds) = true) :=
  specPheno_sound gv tx grp t ds hlab herr

/-- **spec_sound, field trial, UNNAMED population** (default names `tx`: pairwise distinct, `default_names_distinct`): the
    frame the model's loop returns for any layout with at least one environment and one replicate per environment and any
    draws of the right shape is accepted by `specPheno … none …` (every cell: one row per taxon, pairwise distinct names, the
    same names and the population's group labels in every cell); with all draws zero also under `zeroNoise = true`. -/
theorem spec_pheno_unnamed_sound (gv : List (List Rat)) (tx : List String) (grp : Option (List Int)) (t : Nat)
    (ds : List (EnvDraw Rat)) (htx : tx.length = gv.length) (hnd : tx.Nodup)
    (hgrp : ∀ g, grp = some g → g.length = tx.length)
    (herr : ∀ d ∈ ds, ∀ rd ∈ d.reps, rd.err.length = gv.length) (hpos : ∀ d ∈ ds, d.reps ≠ []) (hds : ds ≠ []) :
    specPheno gv none grp (ds.map (fun d => d.reps.length)) false (envBlocks gv (labels tx grp) 0 ds) = true ∧
    ((∀ g ∈ gv, g.length = t) →
      (∀ d ∈ ds, d.env.length = t ∧ ∀ rd ∈ d.reps, rd.rep.length = t ∧ ∀ er ∈ rd.err, er.length = t) →
      (∀ d ∈ ds, (∀ x ∈ d.env, x = 0) ∧ ∀ rd ∈ d.reps, (∀ x ∈ rd.rep, x = 0) ∧ ∀ er ∈ rd.err, ∀ x ∈ er, x = 0) →
      specPheno gv none grp (ds.map (fun d => d.reps.length)) true (envBlocks gv (labels tx grp) 0 ds) = true) :=
  specPheno_unnamed_sound gv tx grp t ds htx hnd hgrp herr hpos hds

/-- **spec_iff, field trial** (named population): the Bool oracle accepts a frame iff it has `ntaxa · #cells` rows, its
    `(taxa, taxa_grp, env, rep)` keys are a permutation of `(taxa[i], taxa_grp[i], e+1, r+1)` over all taxa `i` and all
    cells `(e, r)` of the layout — i.e. exactly one record per taxon, environment and replicate, carrying that taxon's
    labels, which is what `one_record_per_taxon_env_rep` concludes of the model — and, under zero noise, the rows are a
    permutation of the expected rows (every record equals its taxon's true value, `zero_noise_exact`). -/
theorem spec_pheno_iff (gv : List (List Rat)) (tx : List String) (grp : Option (List Int)) (nrep : List Nat)
    (zero : Bool) (rows : List RowQ) :
    specPheno gv (some tx) grp nrep zero rows = true ↔
      rows.length = gv.length * (cellsFrom 0 nrep).length ∧
      (rows.map rowKey).Perm ((expectRows gv (labels tx grp) nrep).map rowKey) ∧
      (zero = true → rows.Perm (expectRows gv (labels tx grp) nrep)) :=
  specPheno_named_iff gv tx grp nrep zero rows

/-- **spec_iff, one row of the breeding-value matrix**: with one tolerance per trait, the row oracle accepts `out` iff it
    has one entry per trait and: the taxon has no record ⇒ every entry is missing (`meanBV_missing`); otherwise every entry
    is present and within its tolerance of the arithmetic column mean over the taxon's records (`meanBV_eq_mean`). -/
theorem spec_meanbv_row_iff (tol : List Rat) (t : Nat) (htol : tol.length = t) (mine : List (List Rat))
    (out : List (Option Rat)) :
    specMeanRow tol t mine out = true ↔
      out.length = t ∧
      (mine = [] → ∀ o ∈ out, o = none) ∧
      (mine ≠ [] → ∀ j (hj : j < t), ∃ o, out[j]? = some (some o) ∧
        |o - (colMeans t mine)[j]'(by rw [colMeans_length]; exact hj)| ≤ tol[j]'(htol ▸ hj)) :=
  specMeanRow_iff tol t htol mine out

/-- **spec_sound, heritability**: for targets in `(0,1]` and non-negative genetic variances, what the model's
    `set_h2 / set_H2` stores is accepted by `specH2`. -/
theorem spec_h2_sound (h2 varA v : List Rat) (hl : h2.length = varA.length) (hh : ∀ h ∈ h2, 0 < h ∧ h ≤ 1)
    (hA : ∀ a ∈ varA, 0 ≤ a) (hv : setH2 h2 varA = some v) : specH2 h2 varA v = true :=
  specH2_sound h2 varA v hl hh hA hv

/-- **spec_iff, heritability**: the Bool oracle on one trait decides exactly: the error variance is non-negative and, when
    there is genetic variance, `var_A/(var_A + var_err)` is within 1e-12 (absolute) or 1e-9 (relative) of the target AND
    `var_err` is within a relative 1e-9 of `(1-h²)/h² · var_A` (the form that still separates `h² = 1 - 1e-10` from 1). -/
theorem spec_h2_iff (h a e : Rat) :
    specH2One h a e = true ↔
      0 ≤ e ∧ (0 < a →
        (|heritability a e - h| ≤ 1 / 1000000000000 ∨
          |heritability a e - h| ≤ 1 / 1000000000 * max |heritability a e| |h|) ∧
        |e - errVar h a| ≤ 1 / 1000000000 * max |e| |errVar h a|) :=
  specH2One_iff h a e

/-- **spec_sound, breeding values** (repaired model): the model's `meanBV` output (a missing row reported as a row of missing
    entries), labelled with the genotype matrix' labels and the trait list, is accepted by `specMeanBV` — ANY table,
    `taxa_grp_col` set or not, any genotype taxa list (the hypothesis `KeyByName` of the pre-repair version is gone). -/
theorem spec_meanbv_sound (useGrp : Bool) (recs : List RowQ) (t : Nat) (gtTaxa : List String)
    (gtGrp : Option (List Int)) (traits : List String) :
    specMeanBV recs t gtTaxa gtGrp traits gtTaxa gtGrp traits
      ((meanBV keyLe useGrp t recs gtTaxa).map (bvRowOut t)) = true :=
  specMeanBV_sound false recs (keyByName_nogrp recs) t gtTaxa gtGrp traits

/-- **spec_sound, estimate without genotype matrix** (`taxa_grp_col = None`): the aggregated frame the model returns — one
    row per distinct name, in group-by order — is accepted by `specMeanBVNoGt`, for every table. -/
theorem spec_meanbv_nogt_sound (recs : List RowQ) (t : Nat) :
    specMeanBVNoGt recs t (meanBVNoGt keyLe false t recs).1
      ((meanBVNoGt keyLe false t recs).2.2.map (fun row => row.map some)) = true := by
  obtain ⟨hnd, hmem, hrows⟩ := meanBV_without_genotypes (α := Rat) keyLe t recs
  unfold specMeanBVNoGt
  rw [msetEq_names_of_nodup _ recs hnd hmem, hrows, List.map_map]
  have := specMeanRows_sound_present recs t (meanBVNoGt keyLe false t recs).1 (fun nm h => (hmem nm).mp h)
  exact this

/-- **spec_sound, breeding values with NaN cells** (repaired model): any table, `taxa_grp_col` set or not -/
theorem spec_meanbv_nan_sound (useGrp : Bool) (recs : List RowN) (t : Nat)
    (gtTaxa : List String) (gtGrp : Option (List Int)) (traits : List String) :
    specMeanBVNan recs t gtTaxa gtGrp traits gtTaxa gtGrp traits (meanBVNan keyLe useGrp t recs gtTaxa) = true :=
  specMeanBVNan_sound false recs (fun r _ => ⟨(r.taxa, none), rfl, fun r' _ h => by simp [keyOf, h]⟩) t gtTaxa gtGrp traits

/-- **spec_sound, noise structure**: on the model's own frame — any layout, any stream in which the draws of every
    zero-variance component vanish (what `multivariate_normal` returns for a zero variance) — the noise-structure oracle
    accepts trait `j`, for every tolerance `≥ 0`.  (`genuine = false`: the distinctness half of the oracle is a statement
    about the generator's law, proved as `positive_error_variance_shows`.) -/
theorem spec_noise_sound {L G : Type} (gv : List (List Rat)) (labs : List (L × Option G)) (t : Nat)
    (ds : List (EnvDraw Rat)) (hlab : labs.length = gv.length) (hgv : ∀ g ∈ gv, g.length = t)
    (hsh : DrawsShaped gv.length t ds) (j : Nat) (hj : j < t) (tol : Rat) (htol : 0 ≤ tol) (ve vr vx : Rat)
    (hx : vx = 0 → ∀ e (he : e < ds.length) r (hr : r < ds[e].reps.length), ∀ x ∈ errCol ds[e].reps[r] j, x = 0)
    (hr : vr = 0 → ∀ e (he : e < ds.length) r (hr : r < ds[e].reps.length), ds[e].reps[r].rep.getD j 0 = 0)
    (he : ve = 0 → ∀ e (he : e < ds.length), ds[e].env.getD j 0 = 0) :
    specNoiseTrait tol ve vr vx false (modelCells gv labs ds j) = true :=
  specNoiseTrait_sound gv labs t ds hlab hgv hsh j hj tol htol ve vr vx hx hr he

/-- **spec_sound, TruePhenotyping**: the frame the model's `truePhenotype` returns for a named population, read as a trial
    with one environment and one replicate, is accepted by the field-trial oracle under `zeroNoise` — one record per taxon
    with its labels, equal to its true value (this is how the harness judges the real `TruePhenotyping.phenotype`). -/
theorem spec_truepheno_sound (gv : List (List Rat)) (tx : List String) (grp : Option (List Int))
    (trait : Option (List String)) (t : Nat) (cols : List String) (rows : List (String × Option Int × List Rat))
    (h : truePhenotype gv (some tx) grp trait t = some (cols, rows)) :
    specPheno gv (some tx) grp [1] true (rows.map trueRow) = true :=
  specPheno_truePhenotype_sound gv tx grp trait t cols rows h

/-- **spec_sound, estimate without genotype matrix on a table with NaN cells** (`taxa_grp_col = None`), every table -/
theorem spec_meanbv_nan_nogt_sound (recs : List RowN) (t : Nat) :
    specMeanBVNanNoGt recs t (meanBVNanNoGt keyLe false t recs).1 (meanBVNanNoGt keyLe false t recs).2 = true :=
  specMeanBVNanNoGt_sound recs t

end oracles

/-- the oracles on numbers: a calibrated triple is accepted, `h² = 1 - 2^-30` with the error variance dropped is not
    (the ratio alone would have accepted it), the wrong formula `(1-h²)·var_A` is not -/
example : specH2One (1/4) (14/9) (14/3) = true ∧ specH2One (1 - 1/1073741824) 4 0 = false ∧
    close (heritability (4 : Rat) 0) (1 - 1/1073741824) = true ∧ specH2One (1/4) (14/9) (7/6) = false := by decide +kernel

/-- the row oracle at a common offset of 1e9: the true mean 1e9 + 1/4 is accepted, 1e9 + 3/4 is not (a tolerance relative
    to the result would accept both) -/
example : specMeanRows [⟨"a", none, 1, 1, [1000000000]⟩, ⟨"a", none, 2, 1, [1000000000 + 1/2]⟩] 1 ["a", "zz"]
      [[some (1000000000 + 1/4)], [none]] = true ∧
    specMeanRows [⟨"a", none, 1, 1, [1000000000]⟩, ⟨"a", none, 2, 1, [1000000000 + 1/2]⟩] 1 ["a", "zz"]
      [[some (1000000000 + 3/4)], [none]] = false := by decide +kernel

/-! ## non-vacuity: concrete non-trivial inputs meeting the hypotheses (evaluated by the kernel) -/

/-- 3 taxa (names not sorted, grouped), 2 environments with 2 and 1 replicates, two traits, non-zero draws:
    the run succeeds with 9 records, first record = 4 + 1 + 1/2 + 1, 23 + 2 + 1/4 + 1 -/
example :
    (envLoop (L := String) (G := Int) (α := Rat) [[4, 23], [6, 20], [3, 19]] (labels ["d", "b", "a"] (some [2, 1, 2])) 0 [2, 1]
      [.vec [1, 2], .vec [1/2, 1/4], .mat [[1, 1], [2, 2], [3, 3]], .vec [1/8, 0], .mat [[0, 0], [0, 1], [1, 0]],
       .vec [-1, 1/2], .vec [0, 0], .mat [[-1/2, 0], [0, 0], [2, -2]]]).map
      (fun rows => (rows.length, rows.head?.map (·.vals))) = some (9, some [13/2, 105/4]) := by
  decide +kernel

/-- hypotheses of `zero_noise_exact` / `noiseless_pipeline_returns_truth` are satisfiable: zero stream, distinct names -/
example :
    envLoop (L := String) (G := Int) (α := Rat) [[4, 23], [6, 20]] (labels ["d", "b"] none) 0 [1, 1]
      [.vec [0, 0], .vec [0, 0], .mat [[0, 0], [0, 0]], .vec [0, 0], .vec [0, 0], .mat [[0, 0], [0, 0]]]
      = some [⟨"d", none, 1, 1, [4, 23]⟩, ⟨"b", none, 1, 1, [6, 20]⟩, ⟨"d", none, 2, 1, [4, 23]⟩, ⟨"b", none, 2, 1, [6, 20]⟩] := by
  decide +kernel

/-- the pipeline theorem on numbers: grouped population, names unsorted, `taxa_grp_col` set, genotype taxa re-ordered and
    repeated (`idx = [1, 0, 1]`): the true values come back in that order -/
example :
    (envLoop (L := String) (G := Int) (α := Rat) [[4, 23], [6, 20]] (labels ["d", "b"] (some [2, 1])) 0 [1, 2]
      [.vec [0, 0], .vec [0, 0], .mat [[0, 0], [0, 0]], .vec [0, 0], .vec [0, 0], .mat [[0, 0], [0, 0]],
       .vec [0, 0], .mat [[0, 0], [0, 0]]]).map
      (fun rows => meanBV keyLe true 2 rows (Np.take [1, 0, 1] ["d", "b"]))
      = some [some [6, 20], some [4, 23], some [6, 20]] := by
  decide +kernel

/-- the shape and zero hypotheses hold of that stream; the top-level `phenotype` (named taxa, default trait names, scalar
    `nrep = 1` broadcast over 2 environments by the setter) succeeds with 4 records and the frame's column names -/
example : ([.vec [0, 0], .vec [0, 0], .mat [[0, 0], [0, 0]], .vec [0, 0], .vec [0, 0], .mat [[0, 0], [0, 0]]] :
    List (Draw Rat)).all (drawShapeOk 2 2) = true := by decide +kernel

example : nrepSetter 2 (.inl 1) = some [1, 1] := by decide

example :
    ((phenotype (G := Int) (α := Rat) [[4, 23], [6, 20]] (some ["d", "b"]) (some [2, 1]) none 2 2 [1, 1]
        [.vec [1, 0], .vec [0, 0], .mat [[0, 0], [0, 0]], .vec [0, 2], .vec [0, 0], .mat [[0, 0], [0, 1]]]).map
        (fun cr => (cr.1, cr.2.length, (cr.2.getLast?.map (fun r => r.vals)).getD [])) :
          Option (List String × Nat × List Rat)) =
      some (["taxa", "taxa_grp", "env", "rep", "Trait01", "Trait02"], 4, [6, 23]) := by
  decide +kernel

/-- heritability: target 1/4 on variance 14/9 gives error variance 14/3 and ratio 1/4 -/
example : errVar (1/4 : Rat) (14/9) = 14/3 ∧ heritability (14/9 : Rat) (14/3) = 1/4 ∧
    varCols (α := Rat) 2 [[4, 23], [6, 20], [3, 19]] = [14/9, 26/9] := by decide +kernel

/-- mean BV: unsorted genotype taxa, an unphenotyped taxon "zz", a taxon with three records;
    grouped table with consistent groups satisfies `KeyByName true` -/
example :
    meanBV (α := Rat) keyLe true 1
      [⟨"b", some 1, 1, 1, [1]⟩, ⟨"a", some 2, 1, 1, [2]⟩, ⟨"b", some 1, 2, 1, [4]⟩, ⟨"b", some 1, 3, 1, [7]⟩]
      ["b", "zz", "a"] = [some [4], none, some [2]] := by decide +kernel

example : KeyByName (α := Rat) true
    [(⟨"b", some 1, 1, 1, [1]⟩ : Rec String Int Rat), ⟨"a", some 2, 1, 1, [2]⟩, ⟨"b", some 1, 2, 1, [4]⟩] := by
  intro r hr
  simp only [List.mem_cons, List.not_mem_nil, or_false] at hr
  rcases hr with rfl | rfl | rfl <;> simp [keyOf]

/-- `realised_error_variance_partial` on numbers: cell (env 1, rep 1) of the first example, trait 0: the residuals
    5/2, 7/2, 9/2 (= 1 + 1/2 + error 1, 2, 3) have the variance 2/3 of the error draws 1, 2, 3 -/
example : popVar ([13/2 - 4, 19/2 - 6, 15/2 - 3] : List Rat) = popVar [1, 2, 3] := by decide +kernel

/-- `record_structure_absent_components` on numbers: error draws zero in cell (1,1): both taxa carry the residual
    environment + replicate effect = 1 + 1/2; in cell (2,1) the errors +-3 show -/
example :
    (envLoop (L := String) (G := Int) (α := Rat) [[4], [6]] (labels ["d", "b"] none) 0 [1, 1]
      [.vec [1], .vec [1/2], .mat [[0], [0]], .vec [-1], .vec [2], .mat [[3], [-3]]]).map
      (fun rows => (cellResid rows [[4], [6]] 0 0 0, cellResid rows [[4], [6]] 0 1 0)) = some ([3/2, 3/2], [4, -2]) := by
  decide +kernel

/-- the noise-structure oracle on numbers (one trait, var_err = 0): equal residuals within each cell are accepted, a cell
    whose taxa differ is not; with var_rep = 0 as well two cells of one environment must agree; with a genuine generator and
    var_rep > 0 two cells sharing one effect are rejected -/
example : specNoiseTrait 0 1 1 0 false [⟨1, 1, [3/2, 3/2]⟩, ⟨1, 2, [2, 2]⟩] = true ∧
    specNoiseTrait 0 1 1 0 false [⟨1, 1, [3/2, 1]⟩] = false ∧
    specNoiseTrait 0 1 0 0 false [⟨1, 1, [3/2, 3/2]⟩, ⟨1, 2, [2, 2]⟩] = false ∧
    specNoiseTrait 0 1 1 0 true [⟨1, 1, [3/2, 3/2]⟩, ⟨1, 2, [3/2, 3/2]⟩] = false ∧
    specNoiseTrait 0 1 1 1 true [⟨1, 1, [3/2, 1]⟩, ⟨1, 2, [2, 1]⟩] = false := by decide +kernel

/-- estimation without genotype matrix: names come out sorted, one row each -/
example : meanBVNoGt (α := Rat) keyLe false 1
    [⟨"b", some 1, 1, 1, [1]⟩, ⟨"a", some 2, 1, 1, [2]⟩, ⟨"b", some 1, 2, 1, [4]⟩] = (["a", "b"], none, [[2], [5/2]]) := by
  decide +kernel

example : truePhenotype (G := Int) (α := Rat) [[4, 23], [6, 20]] (some ["d", "b"]) (some [2, 1]) none 2 =
    some (["taxa", "taxa_grp", "Trait01", "Trait02"], [("d", some 2, [4, 23]), ("b", some 1, [6, 20])]) := by decide +kernel

/-- NaN cells: skip-NaN mean, a trait without any value stays missing, an unphenotyped taxon is missing everywhere -/
example : meanBVNan (α := Rat) keyLe true 2
    [⟨"b", some 1, 1, 1, [some 1, none]⟩, ⟨"a", some 2, 1, 1, [none, some 2]⟩, ⟨"b", some 1, 2, 1, [some 4, none]⟩,
     ⟨"b", some 1, 3, 1, [none, none]⟩]
    ["b", "zz", "a"] = [[some (5/2), none], [none, none], [none, some 2]] := by decide +kernel


/-- default names: 11 unnamed taxa get 11 different labels of width 3 -/
example : (defaultNames "Taxon" 11).map (fun l => (l.length, l.head?, l.getLast?, l.eraseDups.length)) =
    some (11, some "Taxon001", some "Taxon011", 11) := by decide +kernel

/-- the three realised variance components on numbers (2 taxa, environment 1 with 2 replicates, environment 2 with 1;
    effects env = 1, -1; rep = 1/2, 0, 2; errors +-1, +-2, +-3): error variance of cell (1,1) = Var{1,-1} = 1;
    replicate variance of environment 1 = Var{1/2, 0} = 1/16; environment variance = Var{1 + 1/4, -1 + 2} = 1/64 -/
example :
    (envLoop (L := String) (G := Int) (α := Rat) [[4], [6]] (labels ["d", "b"] none) 0 [2, 1]
      [.vec [1], .vec [1/2], .mat [[1], [-1]], .vec [0], .mat [[2], [-2]], .vec [-1], .vec [2], .mat [[3], [-3]]]).map
      (fun rows => (realisedErrVar rows [[4], [6]] 0 0 0, realisedRepVar rows [[4], [6]] 0 0 2,
                    realisedEnvVar rows [[4], [6]] 0 [2, 1])) = some (1, 1/16, 1/64) := by
  decide +kernel

end C14
