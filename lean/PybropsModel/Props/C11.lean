/-
C11 — Genetic maps and map functions obey their defining laws.
Property theorems only (helper lemmas: Lemmas/MapFn, GMapSort, GMapInterp, GMapDist, GMapQuery,
GMapSeq, GMapCongr, GMapLex, GMapEdit, GMapSpecInterp, GMapSpecDist, GMapPrune).

Model: PybropsModel/Model/GMap.lean
  `MapKind.fn / MapKind.inv`        Haldane/KosambiMapFunction.mapfn / invmapfn (floats with ±∞/NaN: `GDist`)
  `gdist1g`, `gdist2g`              Standard/ExtendedGeneticMap.gdist1g / gdist2g (gdist1p/2p = ∘ interp_genpos)
  `construct`, `knots`              constructor lexsort + group; build_spline (per-chromosome interp1d knots)
  `interpOne`, `interpGenpos`       interp_genpos (scipy `_call_linear`: searchsorted, clip, de Boor segment)
  `interpXoprob`                    DenseGeneticMappableMatrix.interp_xoprob
Quantifier of the property: all distances in [0, ∞] (`GDist.Valid`), all maps with ≥ 2 markers per
chromosome and no duplicated physical position (`ValidMap`), any row order (`List.Perm`), all query
sets, both map functions (`k : MapKind`); the two map classes share every function modelled here
(the extended class only adds columns that ride along: `Row.tag`).
-/
import PybropsModel.Lemmas.MapFn
import PybropsModel.Lemmas.MapFnCond
import PybropsModel.Lemmas.GMapQuery
import PybropsModel.Lemmas.GMapSeq
import PybropsModel.Lemmas.GMapCongr
import PybropsModel.Lemmas.GMapEdit
import PybropsModel.Lemmas.GMapSpecDist
import PybropsModel.Lemmas.GMapPrune
import PybropsModel.Lemmas.GMapMeta
import PybropsModel.Lemmas.MapFnRound
import PybropsModel.Lemmas.GMapSlice
import PybropsModel.Lemmas.GMapSpecXo
import PybropsModel.Lemmas.GMapReachSorted
import PybropsModel.Lemmas.GMapLexIdx
set_option linter.unusedSectionVars false
set_option autoImplicit false

namespace C11
open GMap Filter Topology

/-! ## 1. The map functions on [0, ∞]  (over ℝ) -/

/-- zero distance ↦ zero recombination probability -/
theorem mapfn_zero (k : MapKind) : mapD (k.fn : ℝ → ℝ) (GDist.fin 0) = GDist.fin 0 := by
  show GDist.fin (k.fn (0 : ℝ)) = _
  rw [k.fn_zero]

/-- infinite distance ↦ one half: this is what the float code computes (`exp(-∞) = 0`, `tanh ∞ = 1`),
    and one half is the limit of the map function at +∞, so the extension is the continuous one -/
theorem mapfn_inf (k : MapKind) :
    mapD (k.fn : ℝ → ℝ) GDist.inf = GDist.fin (1 / 2) ∧ Tendsto (k.fn : ℝ → ℝ) atTop (𝓝 (1 / 2)) :=
  ⟨rfl, k.fn_tendsto⟩

/-- every distance in [0, ∞] is taken into [0, ½] (finite distances into [0, ½)) -/
theorem mapfn_range (k : MapKind) (x : GDist ℝ) (hx : x.Valid) :
    ∃ r : ℝ, mapD (k.fn : ℝ → ℝ) x = GDist.fin r ∧ 0 ≤ r ∧ r ≤ 1 / 2 ∧ (x ≠ GDist.inf → r < 1 / 2) := by
  cases x with
  | fin d => exact ⟨k.fn d, rfl, k.fn_nonneg hx, (k.fn_lt_half d).le, fun _ => k.fn_lt_half d⟩
  | inf => exact ⟨1 / 2, rfl, by norm_num, le_rfl, fun h => absurd rfl h⟩
  | nan => exact absurd hx (by simp [GDist.Valid])

/-- monotone on [0, ∞] -/
theorem mapfn_mono (k : MapKind) (x y : GDist ℝ) (hx : x.Valid) (hy : y.Valid) (hxy : x.le y) :
    (mapD (k.fn : ℝ → ℝ) x).le (mapD (k.fn : ℝ → ℝ) y) := by
  cases x with
  | fin a =>
    cases y with
    | fin b => exact k.fn_strictMono.monotone hxy
    | inf => exact (k.fn_lt_half a).le
    | nan => exact absurd hy (by simp [GDist.Valid])
  | inf =>
    cases y with
    | fin b => exact absurd hxy (by simp [GDist.le])
    | inf => exact le_refl (1 / 2 : ℝ)
    | nan => exact absurd hy (by simp [GDist.Valid])
  | nan => exact absurd hx (by simp [GDist.Valid])

/-- strictly monotone on the finite distances: different distances never share a probability -/
theorem mapfn_strictMono (k : MapKind) : StrictMono (k.fn : ℝ → ℝ) := k.fn_strictMono

/-- **undone by the inverse** on all of [0, ∞] (the inverse of one half is +∞) -/
theorem mapfn_inverse (k : MapKind) (x : GDist ℝ) (hx : x.Valid) :
    invD (k.inv : ℝ → GDist ℝ) (mapD (k.fn : ℝ → ℝ) x) = x := by
  cases x with
  | fin d => exact k.inv_fn d
  | inf => exact k.inv_half
  | nan => exact absurd hx (by simp [GDist.Valid])

/-- conversely every probability in [0, ½] is attained, at the distance the inverse returns -/
theorem mapfn_inverse_right (k : MapKind) (r : ℝ) (h0 : 0 ≤ r) (h1 : r ≤ 1 / 2) :
    ∃ x : GDist ℝ, x.Valid ∧ (k.inv : ℝ → GDist ℝ) r = x ∧ mapD (k.fn : ℝ → ℝ) x = GDist.fin r := by
  rcases lt_or_eq_of_le h1 with h | h
  · obtain ⟨d, hd, hd0, hfd⟩ := k.fn_inv h0 h
    exact ⟨GDist.fin d, hd0, hd, by show GDist.fin (k.fn d) = _; rw [hfd]⟩
  · subst h
    exact ⟨GDist.inf, trivial, k.inv_half, rfl⟩

/-- **the round trip under an abstract rounding contract.**  Whatever the float evaluation of `mapfn`
    does, as long as its result `r'` is within `δ` of the true probability (and `4 δ ≤ e^{-κ d}`, κ = 2
    for Haldane, 4 for Kosambi), the inverse — with its float semantics for 0 and negative arguments —
    returns a finite distance within `2 δ e^{κ d}` of `d`.  This is the statement behind the tolerance
    of the check (`Spec.invTol`): no fixed window of distances, the demanded accuracy degrades with
    the proven conditioning factor and is dropped only where binary64 cannot resolve `1 − 2r`. -/
theorem mapfn_roundtrip_conditioning (k : MapKind) (d r' δ : ℝ) (hd : 0 ≤ d) (h1 : |r' - k.fn d| ≤ δ)
    (h2 : 4 * δ ≤ Real.exp (-((k.kappa : ℝ) * d))) :
    ∃ d' : ℝ, (k.inv : ℝ → GDist ℝ) r' = GDist.fin d' ∧ |d' - d| ≤ 2 * δ * Real.exp ((k.kappa : ℝ) * d) :=
  k.roundtrip_perturbed d r' δ hd h1 h2

/-- the rational factor `3^⌈κ d⌉` the oracle uses dominates the conditioning factor `e^{κ d}` -/
theorem oracle_conditioning_factor_dominates (kappa : ℕ) (a : ℚ) (ha : 0 ≤ a) :
    Real.exp ((kappa : ℝ) * (a : ℝ)) ≤ ((GMap.Spec.condBound kappa a : ℚ) : ℝ) :=
  exp_le_condBound kappa a ha

/-- further defining law (not demanded by the property text): distances add along a chromosome
    (`gdist2_additive` below), and the recombination probabilities of the parts then compose by
    Haldane's rule r₁₃ = r₁₂ + r₂₃ − 2 r₁₂ r₂₃ … -/
theorem haldane_addition_law (a b : ℝ) :
    (MapKind.haldane.fn : ℝ → ℝ) (a + b) =
      MapKind.haldane.fn a + MapKind.haldane.fn b - 2 * MapKind.haldane.fn a * MapKind.haldane.fn b :=
  haldane_add_real a b

/-- … and by Kosambi's rule r₁₃ = (r₁₂ + r₂₃) / (1 + 4 r₁₂ r₂₃) -/
theorem kosambi_addition_law (a b : ℝ) :
    (MapKind.kosambi.fn : ℝ → ℝ) (a + b) =
      (MapKind.kosambi.fn a + MapKind.kosambi.fn b) / (1 + 4 * MapKind.kosambi.fn a * MapKind.kosambi.fn b) :=
  kosambi_add_real a b

/-! ### 1b. The same laws under an abstract rounding contract (tiny and large distances)

`k.fnR rnd` is the code's expression with a rounding `rnd` after every inexact operation (`rnd = id`: the exact
function).  What the property states survives EVERY monotone rounding that fixes 0 and 1 in its non-strict form;
strictness and the exact inverse law do not survive (they are demanded to the proven conditioning only). -/

/-- zero to zero, [0, ∞) into [0, ½], monotone — for every monotone rounding exact at 0 and 1, both kinds -/
theorem mapfn_rounded_laws (k : MapKind) (rnd : ℝ → ℝ) (h : Rounding rnd) :
    k.fnR rnd (0 : ℝ) = 0 ∧ Monotone (k.fnR rnd : ℝ → ℝ) ∧
      ∀ d : ℝ, 0 ≤ d → 0 ≤ k.fnR rnd d ∧ k.fnR rnd d ≤ 1 / 2 :=
  ⟨k.fnR_zero h, k.fnR_mono h, fun _ hd => k.fnR_range h hd⟩

/-- the exact functions are the instance `rnd = id` -/
theorem mapfn_rounded_id (k : MapKind) (d : ℝ) : k.fnR id d = k.fn d := by
  cases k <;> rfl

/-- large distances: with absorption near 1 (round to nearest: `u` = 2⁻⁵⁴ in binary64) the rounded function is
    EXACTLY one half from some distance on — for Haldane from `ln(1/u)/2` (≈ 18.7) — and the inverse of one half
    is +∞: the round trip cannot be resolved there (the oracle asks nothing beyond its conditioning window) -/
theorem mapfn_rounded_saturates (k : MapKind) (rnd : ℝ → ℝ) (u : ℝ) (h : Rounding rnd) (ha : Absorbing rnd u) :
    (∃ D : ℝ, ∀ d, D ≤ d → k.fnR rnd d = 1 / 2) ∧ (k.inv : ℝ → GDist ℝ) (1 / 2) = GDist.inf ∧
    ∀ d : ℝ, -Real.log u / 2 ≤ d → MapKind.haldane.fnR rnd d = 1 / 2 :=
  ⟨k.fnR_eventually_half h ha, k.inv_half, fun _ hd => haldaneR_saturates_of_le h ha hd⟩

/-- the inverse functions under the same contract: zero to zero, and the order of two probabilities is never
    inverted (Haldane: as long as `1 - 2r'` does not round to 0; Kosambi: on (-½, ½)) -/
theorem invmapfn_rounded_laws (rnd : ℝ → ℝ) (h : Rounding rnd) :
    invHaldaneR rnd 0 = 0 ∧ invKosambiR rnd 0 = 0 ∧
    (∀ r r' : ℝ, r ≤ r' → 0 < rnd (1 - 2 * r') → invHaldaneR rnd r ≤ invHaldaneR rnd r') ∧
    (∀ r r' : ℝ, -(1 / 2) < r → r ≤ r' → r' < 1 / 2 → invKosambiR rnd r ≤ invKosambiR rnd r') :=
  ⟨invHaldaneR_zero h, invKosambiR_zero h, fun _ _ hrr hp => invHaldaneR_mono h hrr hp,
   fun _ _ h0 hrr h1 => invKosambiR_mono h h0 hrr h1⟩

/- FULL STATEMENT (false of the as-is model under rounding, see counterexample):
     ∀ rnd, Rounding rnd → StrictMono (MapKind.haldane.fnR rnd)      -- hence: an exact inverse exists
   `1.0 - exp(-2 d)` cancels: for `exp(-2d) ≥ 1 - u` the result is 0. -/

/-- tiny distances: under any absorbing rounding a POSITIVE distance has the same image as distance 0 (Haldane's
    `1 - exp(-2d)`), so the rounded function is not injective and no inverse undoes it exactly -/
theorem mapfn_rounded_tiny_collapse_counterexample (rnd : ℝ → ℝ) (u : ℝ) (h : Rounding rnd) (ha : Absorbing rnd u) :
    ∃ d : ℝ, 0 < d ∧ MapKind.haldane.fnR rnd d = MapKind.haldane.fnR rnd 0 :=
  haldaneR_not_injective h ha

/-- what does hold: absolute rounding error `δ` per operation ⇒ the rounded value is within `δ` of the exact
    one, and then (conditioning theorem above) the EXACT inverse returns a distance within `2 δ e^{κ d}` of `d`.
    Near zero this is an absolute accuracy of `2δ`: the reason the oracle's tolerance near 0 is absolute. -/
theorem mapfn_rounded_roundtrip (k : MapKind) (rnd : ℝ → ℝ) (δ d : ℝ) (hδ : 0 ≤ δ) (herr : ∀ x, |rnd x - x| ≤ δ)
    (hd : 0 ≤ d) (h2 : 4 * δ ≤ Real.exp (-((k.kappa : ℝ) * d))) :
    ∃ d' : ℝ, (k.inv : ℝ → GDist ℝ) (k.fnR rnd d) = GDist.fin d' ∧
      |d' - d| ≤ 2 * δ * Real.exp ((k.kappa : ℝ) * d) :=
  mapfn_roundtrip_conditioning k d (k.fnR rnd d) δ hd (k.fnR_error hδ herr d) h2

-- non-vacuity: the identity is a rounding; "everything in [7/8, 1] rounds to 1" is an absorbing one (u = 1/8)
example : Rounding id := rounding_id
example : Rounding (fun x : ℝ => if 7 / 8 ≤ x ∧ x ≤ 1 then 1 else x) ∧
    Absorbing (fun x : ℝ => if 7 / 8 ≤ x ∧ x ≤ 1 then 1 else x) (1 / 8) := by
  refine ⟨⟨?_, ?_, ?_⟩, ⟨by norm_num, by norm_num, ?_, ?_⟩⟩
  · intro a b hab
    simp only
    split_ifs with h1 h2 h2
    · exact le_rfl
    · rcases not_and_or.mp h2 with h | h
      · linarith [h1.1]
      · linarith
    · rcases not_and_or.mp h1 with h | h
      · linarith
      · linarith [h2.2]
    · exact hab
  · norm_num
  · norm_num
  · norm_num
  · intro x h1 h2
    exact if_pos ⟨by linarith, h2⟩

-- non-vacuity
example : (GDist.fin (3 / 2) : GDist ℝ).Valid ∧ (GDist.inf : GDist ℝ).Valid ∧
    (GDist.fin (3 / 2) : GDist ℝ).le GDist.inf := by
  refine ⟨?_, trivial, trivial⟩
  show (0 : ℝ) ≤ 3 / 2
  norm_num

/-! ## 2. Pairwise and sequential distances  (over any linearly ordered field; positions may be NaN) -/
section distances
variable {α : Type} [Field α] [LinearOrder α] [IsStrictOrderedRing α]

/-- the pairwise matrix is symmetric (entries outside the matrix are `none` on both sides) -/
theorem gdist2_symm (chr : List Int) (gen : List (Option α)) (i j : Nat) :
    entry (gdist2g chr gen) i j = entry (gdist2g chr gen) j i := by
  rw [gdist2g_entry, gdist2g_entry]
  cases (chr.zip gen)[i]? <;> cases (chr.zip gen)[j]? <;> simp [pairDist_symm]

/-- zero on the diagonal (for a marker whose position is known) -/
theorem gdist2_diag (chr : List Int) (gen : List (Option α)) (i : Nat) (a : Int × Option α) (x : α)
    (hi : (chr.zip gen)[i]? = some a) (ha : a.2 = some x) :
    entry (gdist2g chr gen) i i = some (GDist.fin 0) := by
  rw [gdist2g_entry, hi]
  simp [pairDist_self ha]

/-- infinite exactly between different chromosomes, the absolute difference of the positions inside one -/
theorem gdist2_inf_across (chr : List Int) (gen : List (Option α)) (i j : Nat) (a b : Int × Option α)
    (x y : α) (hi : (chr.zip gen)[i]? = some a) (hj : (chr.zip gen)[j]? = some b)
    (ha : a.2 = some x) (hb : b.2 = some y) :
    (entry (gdist2g chr gen) i j = some GDist.inf ↔ a.1 ≠ b.1) ∧
    (a.1 = b.1 → entry (gdist2g chr gen) i j = some (GDist.fin |x - y|)) := by
  rw [gdist2g_entry, hi, hj]
  simp only [Option.bind_some, Option.map_some, Option.some.injEq]
  exact ⟨pairDist_eq_inf_iff ha hb, fun h => pairDist_of_eq h ha hb⟩

/-- additive along a chromosome for ordered markers -/
theorem gdist2_additive (chr : List Int) (gen : List (Option α)) (i j k : Nat) (a b c : Int × Option α)
    (x y z : α) (hi : (chr.zip gen)[i]? = some a) (hj : (chr.zip gen)[j]? = some b)
    (hk : (chr.zip gen)[k]? = some c) (hab : a.1 = b.1) (hbc : b.1 = c.1)
    (ha : a.2 = some x) (hb : b.2 = some y) (hc : c.2 = some z) (hxy : x ≤ y) (hyz : y ≤ z) :
    ∃ dij djk, entry (gdist2g chr gen) i j = some dij ∧ entry (gdist2g chr gen) j k = some djk ∧
      entry (gdist2g chr gen) i k = some (GDist.add dij djk) := by
  refine ⟨pairDist a b, pairDist b c, ?_, ?_, ?_⟩
  · rw [gdist2g_entry, hi, hj]; rfl
  · rw [gdist2g_entry, hj, hk]; rfl
  · rw [gdist2g_entry, hi, hk, ← pairDist_additive hab hbc ha hb hc hxy hyz]; rfl

/-- the sequential array starts with +∞ and has +∞ at every chromosome start -/
theorem gdist1_inf_at_starts (chr : List Int) (gen : List (Option α)) :
    (0 < (chr.zip gen).length → (gdist1g chr gen)[0]? = some GDist.inf) ∧
    ∀ (i : Nat) (p c : Int × Option α), (chr.zip gen)[i]? = some p → (chr.zip gen)[i + 1]? = some c →
      p.1 ≠ c.1 → (gdist1g chr gen)[i + 1]? = some GDist.inf := by
  refine ⟨gdist1g_zero chr gen, ?_⟩
  intro i p c hp hc hne
  rw [gdist1g_succ, hp, hc]
  simp [seqDist_of_ne hne]

/-- sequential distances agree with the pairwise ones: entry i+1 of `gdist1g` is entry (i, i+1) of
    `gdist2g` for ordered adjacent markers, and both are +∞ across a chromosome boundary -/
theorem gdist1_eq_gdist2_adjacent (chr : List Int) (gen : List (Option α)) (i : Nat)
    (p c : Int × Option α) (x y : α) (hp : (chr.zip gen)[i]? = some p) (hc : (chr.zip gen)[i + 1]? = some c)
    (hx : p.2 = some x) (hy : c.2 = some y) (hxy : p.1 = c.1 → x ≤ y) :
    (gdist1g chr gen)[i + 1]? = entry (gdist2g chr gen) i (i + 1) := by
  rw [gdist1g_succ, gdist2g_entry, hp, hc]
  simp [seqDist_eq_pairDist hx hy hxy]

/-- without any hypothesis (unordered or missing positions included) the pairwise entry is the
    absolute value of the sequential one -/
theorem gdist1_abs_eq_gdist2 (chr : List Int) (gen : List (Option α)) (i : Nat)
    (h : i + 1 < (chr.zip gen).length) :
    ((gdist1g chr gen)[i + 1]?).map absD = entry (gdist2g chr gen) i (i + 1) := by
  rw [gdist1g_succ, gdist2g_entry]
  have h1 : (chr.zip gen)[i + 1]? = some (chr.zip gen)[i + 1] := List.getElem?_eq_getElem h
  have h0 : (chr.zip gen)[i]? = some ((chr.zip gen)[i]'(by omega)) := List.getElem?_eq_getElem (by omega)
  rw [h1, h0]
  simp [absD_seqDist]

end distances

/-! ### the `numpy.unique` loop of `gdist1g` versus the closed form used above -/
section loop
variable {α : Type} [Sub α] [LT α] [DecidableLT α] [OfNat α 0]

/- FULL STATEMENT (false of the as-is model, see counterexample):
     ∀ chr gen ast asp, gdist1gLit chr gen ast asp = (gdist1g chr gen ast asp).map some
   The loop visits one run `[first index, first index + count)` per distinct label, so it computes the
   sequential distances only when equal labels are contiguous — the documented precondition
   ("must be sorted") of gdist1g / gdist1p, which interp_xoprob enforces through `is_grouped_vrnt`. -/

/-- on a label array whose equal labels are contiguous the loop writes every cell, and writes exactly
    the closed form `gdist1g` (for every slice `[ast:asp]`) -/
theorem gdist1_loop_eq_closed_form_partial (chr : List Int) (gen : List (Option α)) (ast asp : Option Nat)
    (hc : ContigLabels ((slice ast asp (chr.zip gen)).map Prod.fst)) :
    gdist1gLit chr gen ast asp = (gdist1g chr gen ast asp).map some :=
  gdist1gLit_eq_of_contig _ (contig_of_contigLabels _ hc)

/-- in particular on a sorted label array (whole array) -/
theorem gdist1_loop_eq_closed_form_sorted_partial (chr : List Int) (gen : List (Option α))
    (hlen : chr.length ≤ gen.length) (hs : chr.Pairwise (· ≤ ·)) :
    gdist1gLit chr gen = (gdist1g chr gen).map some := by
  apply gdist1_loop_eq_closed_form_partial
  have : (slice none none (chr.zip gen)).map Prod.fst = chr := by
    show (chr.zip gen).map Prod.fst = chr
    exact List.map_fst_zip hlen
  rw [this]
  exact contigLabels_of_sorted chr hs

/-- labels `[1, 2, 1]`: the run of label 1 is taken to be cells `[0, 2)`, cell 2 is never written
    (uninitialised memory in numpy) and cell 1 is overwritten by the run of label 2 -/
theorem gdist1_loop_unsorted_counterexample :
    gdist1gLit (α := Int) [1, 2, 1] [some 10, some 25, some 50] = [some .inf, some .inf, none] ∧
    (gdist1g (α := Int) [1, 2, 1] [some 10, some 25, some 50]).map some ≠
      gdist1gLit (α := Int) [1, 2, 1] [some 10, some 25, some 50] := by
  decide

end loop

/-! ### the optional slice arguments (`ast/asp`, `rst/rsp/cst/csp`) of gdist1g / gdist2g / gdist1p / gdist2p -/
section slices
variable {α : Type} [Sub α] [LT α] [DecidableLT α] [OfNat α 0]

/-- pairwise distances computed with slice arguments are rows `[rst:rsp]`, columns `[cst:csp]` of the full
    matrix, so every pairwise law above transfers to them -/
theorem gdist2_slices_are_parts_of_full (chr : List Int) (gen : List (Option α)) (rst rsp cst csp : Option Nat) :
    gdist2g chr gen rst rsp cst csp = (slice rst rsp (gdist2g chr gen)).map (slice cst csp) :=
  gdist2g_slices chr gen rst rsp cst csp

/-- sequential distances computed with slice arguments are cells `[ast:asp]` of the full array, except that the
    first cell is +∞ (the slice starts a run) -/
theorem gdist1_slices_are_parts_of_full (chr : List Int) (gen : List (Option α)) (ast asp : Option Nat) :
    gdist1g chr gen ast asp = reheadInf (slice ast asp (gdist1g chr gen)) :=
  gdist1g_slices chr gen ast asp

end slices

section pslices
variable {α β : Type} [Add α] [Sub α] [Mul α] [Div α] [LT α] [DecidableLT α] [OfNat α 0] [OfNat α 1]

/-- the same for the variants that take physical positions (they interpolate ALL positions first) -/
theorem gdistp_slices_are_parts_of_full (rows : List (Row α β)) (qchr : List Int) (qphy : List α)
    (ast asp rst rsp cst csp : Option Nat) :
    gdist1p rows qchr qphy ast asp = reheadInf (slice ast asp (gdist1p rows qchr qphy)) ∧
    gdist2p rows qchr qphy rst rsp cst csp = (slice rst rsp (gdist2p rows qchr qphy)).map (slice cst csp) :=
  ⟨gdist1g_slices _ _ ast asp, gdist2g_slices _ _ rst rsp cst csp⟩

end pslices

-- non-vacuity: a slice that starts inside a run
example : gdist1g (α := ℚ) [1, 1, 1, 2, 2] [some 0, some (1/4), some 1, some (1/2), some 2] (some 1) (some 4)
    = [.inf, .fin (3/4), .inf] := by decide +kernel

-- non-vacuity of the contiguity hypothesis: labels in descending runs are contiguous but not sorted
example : ContigLabels [3, 3, 1, 1, 1, 2] := by
  intro i j k hij hjk v hi hk
  have hk' : k < 6 := by
    have := (List.getElem?_eq_some_iff.mp hk).1; simpa using this
  interval_cases k <;> interval_cases j <;> interval_cases i <;> simp_all <;> omega

-- non-vacuity: two chromosomes, ordered markers, evaluated by the kernel at ℚ
example : gdist1g (α := ℚ) [1, 1, 1, 2, 2] [some 0, some (1/4), some 1, some (1/2), some 2]
    = [.inf, .fin (1/4), .fin (3/4), .inf, .fin (3/2)] := by decide +kernel
example : entry (gdist2g (α := ℚ) [1, 1, 1, 2, 2] [some 0, some (1/4), some 1, some (1/2), some 2]) 0 2
    = some (.fin 1) := by decide +kernel

/-! ## 3. Interpolation against a map -/
section interpolation
variable {α β : Type} [Field α] [LinearOrder α] [IsStrictOrderedRing α]

/-- interpolating a map at its own markers returns their stored positions -/
theorem interp_at_own_markers (rows : List (Row α β)) (hv : ValidMap rows) (r : Row α β) (hr : r ∈ rows) :
    interpOne rows r.chr r.phy = some r.gen :=
  interpOne_at_marker hv.1 hr (hv.2 r hr)

/-- the same, for a whole query array: wherever the query is a marker of the map, the output is its
    stored genetic position -/
theorem interp_genpos_at_own_markers (rows : List (Row α β)) (hv : ValidMap rows) (qchr : List Int)
    (qphy : List α) (i : Nat) (r : Row α β) (hr : r ∈ rows)
    (hq : (qchr.zip qphy)[i]? = some (r.chr, r.phy)) :
    (interpGenpos rows qchr qphy)[i]? = some (some r.gen) := by
  rw [interpGenpos_getElem?, hq]
  simp [interp_at_own_markers rows hv r hr]

/-- between two flanking markers `a`, `b` (no marker of that chromosome strictly between them) the
    interpolation is the chord: linear in the physical position -/
theorem interp_linear_between (rows : List (Row α β)) (hv : ValidMap rows) (a b : Row α β)
    (ha : a ∈ rows) (hb : b ∈ rows) (hab : a.chr = b.chr) (x : α) (h0 : a.phy < x) (h1 : x ≤ b.phy)
    (hflank : ∀ m ∈ rows, m.chr = a.chr → ¬ (a.phy < m.phy ∧ m.phy < b.phy)) :
    interpOne rows a.chr x = some (a.gen + (b.gen - a.gen) * (x - a.phy) / (b.phy - a.phy)) :=
  interpOne_between hv.1 ha hb hab h0 h1 hflank

/-- for a congruent map the interpolated position preserves the physical order (extrapolated
    positions included) -/
theorem interp_order_preserving (rows : List (Row α β)) (hv : ValidMap rows) (hc : Congruent rows)
    (r : Row α β) (hr : r ∈ rows) (x x' : α) (hx : x ≤ x') :
    ∃ y y', interpOne rows r.chr x = some y ∧ interpOne rows r.chr x' = some y' ∧ y ≤ y' :=
  interpOne_mono hv.1 hc (hv.2 r hr) hx

/-- "congruent" is exactly what the code's own test reports: `is_congruent()` of the constructed
    (sorted, grouped) map is true iff the genetic position never decreases with the physical one -/
theorem is_congruent_iff_congruent (rows : List (Row α β)) :
    (congruence (construct rows)).all id = true ↔ Congruent rows :=
  is_congruent_iff rows

/-- order preservation stated with the code's test as hypothesis, for the stored map -/
theorem interp_order_preserving_of_is_congruent (rows : List (Row α β)) (hv : ValidMap rows)
    (hc : (congruence (construct rows)).all id = true)
    (r : Row α β) (hr : r ∈ rows) (x x' : α) (hx : x ≤ x') :
    ∃ y y', interpOne (construct rows) r.chr x = some y ∧ interpOne (construct rows) r.chr x' = some y' ∧
      y ≤ y' := by
  have hp := construct_perm rows
  have hv' : ValidMap (construct rows) := hv.perm hp.symm
  exact interpOne_mono hv'.1 (((is_congruent_iff rows).mp hc).perm hp.symm)
    (hv'.2 r (hp.symm.subset hr)) hx

/-- a position is reported missing (NaN) exactly on the chromosomes absent from the map -/
theorem interp_missing_iff_absent (rows : List (Row α β)) (hv : ValidMap rows) (c : Int) (x : α) :
    interpOne rows c x = none ↔ ∀ r ∈ rows, r.chr ≠ c := by
  constructor
  · intro h r hr hrc
    have := interpOne_isSome hv.1 (hv.2 r hr) x
    rw [hrc, h] at this
    exact absurd this (by simp)
  · exact fun h => interpOne_absent h x

/-- none of this depends on the order in which the map rows were supplied -/
theorem interp_order_independent (rows rows' : List (Row α β)) (hp : rows.Perm rows') (hv : ValidMap rows)
    (qchr : List Int) (qphy : List α) :
    interpGenpos rows qchr qphy = interpGenpos rows' qchr qphy :=
  interpGenpos_perm hp hv.1 qchr qphy

/-- the constructor (stable lexsort by chromosome, physical, genetic position) stores the same arrays
    whatever the supplied order.  For the standard map (`β = Unit`) no hypothesis is needed at all;
    with riding columns, rows with identical keys must carry identical columns. -/
theorem construct_order_independent (rows rows' : List (Row α β)) (hp : rows.Perm rows')
    (htag : ∀ a b, a ∈ rows → b ∈ rows → a.chr = b.chr → a.phy = b.phy → a.gen = b.gen → a.tag = b.tag) :
    construct rows = construct rows' :=
  construct_eq_of_perm hp htag

theorem construct_order_independent_std (rows rows' : List (Row α Unit)) (hp : rows.Perm rows') :
    construct rows = construct rows' :=
  construct_eq_of_perm hp (fun _ _ _ _ _ _ _ => rfl)

/-- `numpy.lexsort((vrnt_genpos, vrnt_phypos, vrnt_chrgrp))` as numpy performs it — three successive
    stable sorts — is the single stable sort by (chromosome, physical, genetic position) that the
    theorems use; on every input: duplicated keys and arbitrary riding columns included -/
theorem lexsort_three_pass_eq_construct (rows : List (Row α β)) : lexsort3 rows = construct rows :=
  lexsort3_eq_construct rows

/-- `sort()` exactly as the code performs it — `indices = numpy.lexsort((vrnt_genpos, vrnt_phypos, vrnt_chrgrp))`
    (three stable ARGsorts of `arange(n)`, the chromosome key last), then `reorder(indices)` (fancy indexing of every
    array, metadata reset) — is the closed form `MapObj.sort` (rows in `construct` order) on every object; and
    `sort(keys)` with any explicit keys stays inside the reachable objects -/
theorem sort_as_performed_eq_closed_form (m : MapObj α β) :
    m.sortKeys [m.rows.map (·.gen), m.rows.map (·.phy), m.rows.map (fun r => (r.chr : α))] = m.sort ∧
    ∀ (keys : List (List α)), Reach m → Reach (m.sortKeys keys) := by
  refine ⟨?_, fun keys h => Reach.reorder _ h⟩
  unfold MapObj.sortKeys MapObj.reorder MapObj.sort
  rw [take_lexsortIdx_eq_construct]

/-- the constructor sort is stable: rows that agree in all three keys keep the order in which they
    were supplied -/
theorem construct_stable (rows : List (Row α β)) (x : Row α β) :
    (construct rows).filter (fun r => rowLe x r && rowLe r x) = rows.filter (fun r => rowLe x r && rowLe r x) :=
  filter_stableSort rowLe rowLe_total rowLe_trans _
    (fun a b ha hb => by
      simp only [Bool.and_eq_true] at ha hb
      exact rowLe_trans _ _ _ ha.2 hb.1) rows

/-- under the property's quantifier (no duplicated physical position) the stored arrays — riding
    columns of the extended class included — do not depend on the supplied row order; no hypothesis on
    the riding columns is needed -/
theorem construct_order_independent_valid (rows rows' : List (Row α β)) (hp : rows.Perm rows')
    (hv : ValidMap rows) : construct rows = construct rows' ∧ lexsort3 rows = lexsort3 rows' := by
  have h := construct_eq_of_perm_of_noDupPhys hp hv.1
  exact ⟨h, by rw [lexsort3_eq_construct, lexsort3_eq_construct, h]⟩

/-- the stored (sorted, grouped) map is a sorted rearrangement of the supplied rows and answers
    every query like the rows as supplied -/
theorem construct_sorted_perm_and_same_answers (rows : List (Row α β)) (hv : ValidMap rows)
    (qchr : List Int) (qphy : List α) :
    (construct rows).Perm rows ∧ (construct rows).Pairwise (fun a b => rowLe a b = true) ∧
      interpGenpos (construct rows) qchr qphy = interpGenpos rows qchr qphy :=
  ⟨construct_perm rows, construct_sorted rows,
    (interpGenpos_perm (construct_perm rows).symm hv.1 qchr qphy).symm⟩

/-- the literal scipy transcription (`searchsorted`, `clip(1, n-1)`) and the recursive form used in
    the proofs are the same function on every valid map -/
theorem interp_literal_eq_recursive (rows : List (Row α β)) (hv : ValidMap rows) (qchr : List Int)
    (qphy : List α) : interpGenpos rows qchr qphy = interpGenposS rows qchr qphy :=
  interpGenpos_eq_interpGenposS hv.1 qchr qphy

end interpolation

-- non-vacuity: a shuffled two-chromosome map over ℚ meets `ValidMap` and `Congruent`; the model
-- sorts it, interpolates at a marker / between markers / outside / on an absent chromosome
example : ValidMap ([⟨2, 10, 0, ()⟩, ⟨1, 30, 1/2, ()⟩, ⟨1, 10, 1/8, ()⟩, ⟨2, 40, 7/8, ()⟩, ⟨1, 20, 1/4, ()⟩,
    ⟨2, 20, 3/8, ()⟩] : List (Row ℚ Unit)) := by
  unfold ValidMap NoDupPhys nMarkers; decide +kernel
example : Congruent ([⟨2, 10, 0, ()⟩, ⟨1, 30, 1/2, ()⟩, ⟨1, 10, 1/8, ()⟩, ⟨2, 40, 7/8, ()⟩, ⟨1, 20, 1/4, ()⟩,
    ⟨2, 20, 3/8, ()⟩] : List (Row ℚ Unit)) := by
  unfold Congruent; decide +kernel
example : construct ([⟨2, 10, 0, ()⟩, ⟨1, 30, 1/2, ()⟩, ⟨1, 10, 1/8, ()⟩, ⟨2, 40, 7/8, ()⟩, ⟨1, 20, 1/4, ()⟩,
    ⟨2, 20, 3/8, ()⟩] : List (Row ℚ Unit)) =
    [⟨1, 10, 1/8, ()⟩, ⟨1, 20, 1/4, ()⟩, ⟨1, 30, 1/2, ()⟩, ⟨2, 10, 0, ()⟩, ⟨2, 20, 3/8, ()⟩, ⟨2, 40, 7/8, ()⟩] := by
  decide +kernel
example : interpGenpos ([⟨2, 10, 0, ()⟩, ⟨1, 30, 1/2, ()⟩, ⟨1, 10, 1/8, ()⟩, ⟨2, 40, 7/8, ()⟩, ⟨1, 20, 1/4, ()⟩,
    ⟨2, 20, 3/8, ()⟩] : List (Row ℚ Unit)) [1, 1, 1, 2, 3] [20, 15, 40, 5, 7] =
    [some (1/4), some (3/16), some (3/4), some (-3/16), none] := by
  decide +kernel

-- non-vacuity: the index array numpy.lexsort returns for the shuffled two-chromosome map, and the rows it selects
example : lexsortIdx ([[0, 1/2, 1/8, 7/8, 1/4, 3/8], [10, 30, 10, 40, 20, 20], [2, 1, 1, 2, 1, 2]] : List (List ℚ)) 6
    = [2, 4, 1, 0, 5, 3] := by decide +kernel

/- FULL STATEMENT (false of the as-is model, see counterexample):
     ∀ rows rows', rows.Perm rows' → construct rows = construct rows'
   With a duplicated key (excluded by the property) the stable sort keeps the supplied order of the tied
   rows, so their riding columns come out in the supplied order. -/
theorem construct_order_dependent_on_duplicate_keys_counterexample :
    construct ([⟨1, 10, 1/2, 7⟩, ⟨1, 10, 1/2, 8⟩] : List (Row ℚ Nat)) ≠
      construct ([⟨1, 10, 1/2, 8⟩, ⟨1, 10, 1/2, 7⟩] : List (Row ℚ Nat)) := by
  decide +kernel

/-! ## 3b. Editing a map: `remove`, `select`, `remove_discrepancies`, `build_spline` -/
section editing
variable {α β : Type} [Field α] [LinearOrder α] [IsStrictOrderedRing α]

/-- `remove_discrepancies()` on a freshly constructed map is the one-pass step `rdStep` on its arrays,
    and `n` calls are `n` steps -/
theorem remove_discrepancies_eq_rdStep (rows : List (Row α β)) (n : Nat) :
    (MapObj.removeDiscrepancies^[n] (MapObj.new rows)).rows = rdStep^[n] (construct rows) :=
  (removeDiscrepancies_iterate rows n).2

/-- a congruent map is left alone; a map that is not congruent loses at least one marker -/
theorem remove_discrepancies_fixed_or_shrinks (rows : List (Row α β)) :
    (Congruent rows → rdStep rows = construct rows) ∧
    (¬ Congruent rows → (rdStep rows).length < rows.length) :=
  ⟨rdStep_of_congruent, rdStep_length_lt⟩

/-- nothing is invented and no chromosome is lost: the result consists of rows of the map, and every
    chromosome keeps at least its first marker -/
theorem remove_discrepancies_keeps_chromosomes (rows : List (Row α β)) :
    (∀ r ∈ rdStep rows, r ∈ rows) ∧
    ∀ c : Int, (∃ r ∈ rdStep rows, r.chr = c) ↔ ∃ r ∈ rows, r.chr = c :=
  ⟨rdStep_subset rows, rdStep_chromosomes rows⟩

/- FULL STATEMENT (false of the as-is model, see counterexample):
     ∀ rows, Congruent (rdStep rows)          -- "remove_discrepancies yields a congruent map"
   One pass compares every marker with its predecessor in the array *as it stands before anything is
   removed*; after the removal new neighbours can be discordant. -/

/-- genetic positions 0, 5, 1, 2, 6: the pass drops the 1 (< 5) but keeps the 2 (≥ 1); the result
    0, 5, 2, 6 is not congruent (`is_congruent()` false) -/
theorem remove_discrepancies_one_pass_counterexample :
    rdStep ([⟨1, 10, 0, ()⟩, ⟨1, 20, 5, ()⟩, ⟨1, 30, 1, ()⟩, ⟨1, 40, 2, ()⟩, ⟨1, 50, 6, ()⟩] : List (Row ℚ Unit)) =
      [⟨1, 10, 0, ()⟩, ⟨1, 20, 5, ()⟩, ⟨1, 40, 2, ()⟩, ⟨1, 50, 6, ()⟩] ∧
    (congruence (rdStep ([⟨1, 10, 0, ()⟩, ⟨1, 20, 5, ()⟩, ⟨1, 30, 1, ()⟩, ⟨1, 40, 2, ()⟩, ⟨1, 50, 6, ()⟩] :
      List (Row ℚ Unit)))).all id = false := by
  decide +kernel

/-- calling `remove_discrepancies()` repeatedly does reach a congruent map: after at most as many
    calls as there are markers, whatever the map (no hypothesis) -/
theorem remove_discrepancies_iterated_congruent_partial (rows : List (Row α β)) (n : Nat)
    (hn : rows.length ≤ n) :
    Congruent (MapObj.removeDiscrepancies^[n] (MapObj.new rows)).rows := by
  rw [remove_discrepancies_eq_rdStep]
  exact rdIter_congruent _ n (by rw [(construct_perm rows).length_eq]; exact hn)

/-- after `build_spline()` the object answers from its stored arrays, so every interpolation theorem
    above applies to the edited map (whenever it is still a `ValidMap`) -/
theorem interp_after_edit_and_build_spline (m : MapObj α β) (qchr : List Int) (qphy : List α) :
    (m.buildSpline.interpGenpos qchr qphy).1 = some (interpGenpos m.rows qchr qphy) := rfl

end editing

section pruning
variable {α γ : Type} [Add α] [Sub α] [Div α] [LT α] [DecidableLT α] [LE α] [DecidableLE α] [HasCeil α]

/-- `ExtendedGeneticMap.prune(nt, M)` in all three modes, for ANY scalar and therefore any outcome of its
    accumulated float comparisons: the index array handed to `select` is strictly increasing, inside the
    map, and contains the first and the last marker of every chromosome run; the selected rows are a
    sublist of the stored rows.  (`runs` = the (stix, spix) table of a grouped map of `n` markers.) -/
theorem prune_keeps_chromosome_ends (chr : Nat → Int) (phy gen : Nat → α) (runs : List (Nat × Nat)) (n : Nat)
    (hc : RunsChain runs 0 n) (nt M : Option α) (idx : List Nat)
    (h : pruneIndices chr phy gen runs nt M = some idx) :
    idx.Pairwise (· < ·) ∧ (∀ x ∈ idx, x < n) ∧ (∀ r ∈ runs, r.1 ∈ idx ∧ r.2 - 1 ∈ idx) ∧
      ∀ rows : List γ, rows.length = n → (Np.take idx rows).Sublist rows := by
  have key : idx.Pairwise (· < ·) ∧ (∀ x ∈ idx, x < n) ∧ (∀ r ∈ runs, r.1 ∈ idx ∧ r.2 - 1 ∈ idx) := by
    unfold pruneIndices at h
    cases nt with
    | none =>
      cases M with
      | none => simp at h
      | some m =>
        simp only [Option.some.injEq] at h; subst h
        exact prunePass1_spec gen m runs n hc
    | some t =>
      cases M with
      | none =>
        simp only [Option.some.injEq] at h; subst h
        exact prunePass1_spec phy t runs n hc
      | some m =>
        simp only [Option.some.injEq] at h; subst h
        obtain ⟨a1, a2, a3⟩ := prunePass1_spec gen m runs n hc
        obtain ⟨b1, b2, b3⟩ := prunePass2_spec chr phy t _ n a1 a2
        exact ⟨b1, b2, fun r hr => ⟨b3 _ (a3 r hr).1, b3 _ (a3 r hr).2⟩⟩
  refine ⟨key.1, key.2.1, key.2.2, ?_⟩
  intro rows hn
  exact take_sublist_of_increasing idx rows key.1 (fun i hi => hn ▸ key.2.1 i hi)

/-- the same for the run table `group()` actually computes, on any stored arrays: no hypothesis left -/
theorem prune_on_grouped_map {β : Type} (rows : List (Row α β)) (chr : Nat → Int) (phy gen : Nat → α)
    (nt M : Option α) (idx : List Nat)
    (h : pruneIndices chr phy gen ((groupMeta rows).map fun r => (r.2.1, r.2.2.1)) nt M = some idx) :
    idx.Pairwise (· < ·) ∧ (∀ x ∈ idx, x < rows.length) ∧
      (∀ r ∈ groupMeta rows, r.2.1 ∈ idx ∧ r.2.2.1 - 1 ∈ idx) ∧ (Np.take idx rows).Sublist rows := by
  obtain ⟨a, b, c, d⟩ := prune_keeps_chromosome_ends (γ := Row α β) chr phy gen _ rows.length
    (groupMeta_runsChain rows) nt M idx h
  refine ⟨a, b, ?_, d rows rfl⟩
  intro r hr
  exact c (r.2.1, r.2.2.1) (List.mem_map.mpr ⟨r, hr, rfl⟩)

end pruning

-- non-vacuity: one chromosome run [0, 6) at ℚ, target spacing 20 → first, two interior, last marker
example : pruneIndices (α := ℚ) (fun _ => 1) (fun i => [10, 12, 19, 31, 40, 60].getD i 0) (fun _ => 0) [(0, 6)]
    (some 20) none = some [0, 3, 4, 5] ∧ RunsChain [(0, 6)] 0 6 := by
  constructor
  · decide +kernel
  · exact ⟨rfl, by norm_num, rfl⟩

/-- … but `remove` / `select` / `remove_discrepancies` do not rebuild the spline: until `build_spline()`
    is called the object keeps interpolating through the removed marker (design of the library: the
    spline is an attribute of its own, cf. `interp_gmap`).  Here marker (20, 5) is removed; position 20
    still maps to 5, while the stored arrays (10 ↦ 0, 30 ↦ 1) would give ½. -/
theorem interp_after_remove_uses_old_spline_counterexample :
    (((MapObj.new ([⟨1, 10, 0, ()⟩, ⟨1, 20, 5, ()⟩, ⟨1, 30, 1, ()⟩] : List (Row ℚ Unit))).remove [1]).interpGenpos
        [1] [20]).1 = some [some 5] ∧
    (((MapObj.new ([⟨1, 10, 0, ()⟩, ⟨1, 20, 5, ()⟩, ⟨1, 30, 1, ()⟩] : List (Row ℚ Unit))).remove [1]).buildSpline.interpGenpos
        [1] [20]).1 = some [some (1/2)] := by
  decide +kernel

section selectorder
variable {α β : Type} [Field α] [LinearOrder α] [IsStrictOrderedRing α]

/-- `select` on a grouped map (`is_grouped()`: "sorted and grouped") does not depend on the order in which the
    markers are listed in the index array: any rearrangement of the indices — ascending, as `prune` passes them, or in
    any other order, as a caller may — gives the SAME object (stored arrays, riding columns, metadata, spline), hence
    the same sequential distances over its own markers, the same congruence, the same answers; and that object's
    metadata describe its arrays and its labels are sorted -/
theorem select_order_independent (m : MapObj α β) (hg : m.grouped = true) (hv : NoDupPhys m.rows)
    (idx idx' : List Nat) (hi : idx.Nodup) (hp : idx.Perm idx') :
    m.select idx = m.select idx' ∧ (m.select idx).MetaOk ∧
      ((m.select idx).rows.map (·.chr)).Pairwise (· ≤ ·) := by
  refine ⟨MapObj.select_perm_eq m hg hp (noDupPhys_take hv hi), MapObj.metaOk_select m idx, ?_⟩
  have : (m.select idx).rows = construct (Np.take idx m.rows) := by
    simp [MapObj.select, MapObj.regroup, hg]
  rw [this]
  exact construct_labels_sorted _

/-- … whereas an UNGROUPED map keeps its rows in the order of the index array (and stays ungrouped: nothing is
    claimed about the order of its rows) -/
theorem select_ungrouped_keeps_supplied_order (m : MapObj α β) (hg : m.grouped = false) (idx : List Nat) :
    (m.select idx).rows = Np.take idx m.rows ∧ (m.select idx).grouped = false :=
  MapObj.select_ungrouped_rows m hg idx

end selectorder

-- non-vacuity: a grouped three-chromosome map, indices interleaving the chromosomes
example : (MapObj.new ([⟨1, 10, 0, ()⟩, ⟨1, 20, 1/8, ()⟩, ⟨2, 5, 0, ()⟩, ⟨2, 9, 1/4, ()⟩, ⟨3, 7, 1/8, ()⟩, ⟨3, 70, 3/4, ()⟩] :
      List (Row ℚ Unit))).grouped = true ∧
    ((MapObj.new ([⟨1, 10, 0, ()⟩, ⟨1, 20, 1/8, ()⟩, ⟨2, 5, 0, ()⟩, ⟨2, 9, 1/4, ()⟩, ⟨3, 7, 1/8, ()⟩, ⟨3, 70, 3/4, ()⟩] :
      List (Row ℚ Unit))).select [5, 2, 0, 4, 3]).rows =
      [⟨1, 10, 0, ()⟩, ⟨2, 5, 0, ()⟩, ⟨2, 9, 1/4, ()⟩, ⟨3, 7, 1/8, ()⟩, ⟨3, 70, 3/4, ()⟩] ∧
    [5, 2, 0, 4, 3].Perm [0, 2, 3, 4, 5] ∧ [5, 2, 0, 4, 3].Nodup := by
  refine ⟨by decide +kernel, by decide +kernel, by decide, by decide⟩

/-! ## 3c. Group metadata as an attribute of its own: derived maps (`interp_gmap`), closure of the laws -/
section metadata
variable {α β : Type} [Field α] [LinearOrder α] [IsStrictOrderedRing α]

/-- the loop of `congruence()` over the stored `(stix, spix)` pairs, transcribed literally (numpy's IndexError /
    broadcasting ValueError included), computes the closed form `congruence` used in all theorems above whenever
    the stored metadata describe the stored arrays — for every list of rows, sorted or not -/
theorem congruence_loop_eq_closed_form (rows : List (Row α β)) :
    congruenceLit rows (groupMeta rows) (List.replicate rows.length false) = .ok (congruence rows) :=
  congruenceLit_groupMeta rows

/-- **invariant over operation histories**: every object reachable from a constructor call through `group`,
    `ungroup`, `reorder`, `sort`, `remove`, `select` (index or mask), `remove_discrepancies`, `build_spline`,
    `interp_genpos`, re-assignment of the position arrays and `interp_gmap` carries metadata that
    describe its own arrays -/
theorem reachable_map_metadata_valid (m : MapObj α β) (h : Reach m) : m.MetaOk := h.metaOk

/-- … hence on every reachable object the methods as written (`…Lit`: they walk the STORED metadata and raise
    when it does not fit) never raise and are the closed forms the theorems are about; after `build_spline()` the
    object answers from its own stored arrays — so every law of section 3 holds again for the edited / derived
    map (closure of the laws under `remove` / `select` / `prune`(= `select`) / `interp_gmap`) -/
theorem reachable_map_closed_forms (m : MapObj α β) (h : Reach m) (qchr : List Int) (qphy : List α) :
    m.interpGenposLit qchr qphy = .ok (m.interpGenpos qchr qphy) ∧
    m.removeDiscrepanciesLit = .ok m.removeDiscrepancies ∧
    (m.buildSpline.interpGenposLit qchr qphy).map Prod.fst = .ok (some (interpGenpos m.rows qchr qphy)) := by
  refine ⟨MapObj.interpGenposLit_of_metaOk h.metaOk _ _, MapObj.removeDiscrepanciesLit_of_metaOk h.metaOk, ?_⟩
  rw [MapObj.interpGenposLit_of_metaOk (MapObj.metaOk_buildSpline h.metaOk)]
  rfl

/-- own-marker law for a reachable map with a rebuilt spline, through the methods as written -/
theorem reachable_map_own_markers (m : MapObj α β) (h : Reach m) (hv : ValidMap m.rows) (r : Row α β)
    (hr : r ∈ m.rows) :
    (m.buildSpline.interpGenposLit [r.chr] [r.phy]).map Prod.fst = .ok (some [some r.gen]) := by
  rw [(reachable_map_closed_forms m h [r.chr] [r.phy]).2.2]
  simp [interpGenpos, interp_at_own_markers m.rows hv r hr]

/-- the map `interp_gmap` returns answers from the parent's spline, and stores at each of its markers exactly
    the value that spline gives there: interpolated at its own markers it returns its stored positions
    (whenever the call returns) -/
theorem derived_map_own_markers (m d m' : MapObj α β) (qchr : List Int) (qphy : List α) (tags : List β)
    (h : m.interpGmap qchr qphy tags = .ok (some (d, m'))) :
    ∃ k, m.spline = some k ∧ d.spline = some k ∧ ∀ r ∈ d.rows, interpOne k r.chr r.phy = some r.gen :=
  MapObj.interpGmap_rows h

/-- **the derived map's metadata describe its own arrays** (it has none: `interp_gmap` leaves the new object
    ungrouped) — for EVERY parent object, every query, every riding column; no hypothesis beyond "the call
    returned".  This is the full statement that was false before the repair of D110 (see the
    `…_prerepair_counterexample` below). -/
theorem derived_map_metadata_valid (m d m' : MapObj α β) (qchr : List Int) (qphy : List α) (tags : List β)
    (h : m.interpGmap qchr qphy tags = .ok (some (d, m'))) : d.gmeta = none ∧ d.MetaOk :=
  ⟨MapObj.interpGmap_gmeta h, MapObj.metaOk_interpGmap h⟩

/-- `interp_gmap` never raises on a reachable map (before the repair it did on derived maps: their
    `interp_genpos` raised) -/
theorem interp_gmap_never_raises (m : MapObj α β) (hm : Reach m) (qchr : List Int) (qphy : List α) (tags : List β) :
    errOf (m.interpGmap qchr qphy tags) = none :=
  MapObj.interpGmap_no_error hm.metaOk qchr qphy tags

/- FULL STATEMENT (false of the PRE-REPAIR model, see counterexample; true of the model as it is now:
   `derived_map_metadata_valid`):
     ∀ m d m' q p t, Reach m → m.interpGmapPrerepair q p t = .ok (some (d, m')) → d.MetaOk
   Before the repair `interp_gmap` copied the four metadata arrays of the PARENT onto the new object; they
   describe the parent's arrays.  The derived map reported `is_grouped()`, and everything that walks
   `(stix, spix)` — `congruence`, `is_congruent`, `remove_discrepancies`, and `interp_genpos` through its
   `is_congruent()` check — read wrong slices or raised. -/

/-- parent: 3 + 3 markers; derived map: 2 + 3 markers.  Before the repair the derived map carried
    `[(1,0,3,3), (2,3,6,3)]`, its own arrays would give `[(1,0,2,2), (2,2,5,3)]`; `interp_genpos` on it raised
    ValueError (operands of shapes (2,) and (1,) in `congruence()`); with the repair (metadata left `None`) it
    answers, and at its own markers returns its stored positions -/
theorem interp_gmap_stale_metadata_prerepair_counterexample :
    let parent : MapObj ℚ Unit := MapObj.new [⟨1, 10, 0, ()⟩, ⟨1, 20, 1/8, ()⟩, ⟨1, 30, 1/4, ()⟩, ⟨2, 10, 0, ()⟩,
      ⟨2, 20, 3/8, ()⟩, ⟨2, 30, 1/2, ()⟩]
    let q : List Int := [1, 1, 2, 2, 2]
    let p : List ℚ := [12, 25, 11, 15, 28]
    let t : List Unit := [(), (), (), (), ()]
    (derivedOf (parent.interpGmapPrerepair q p t)).map (·.gmeta) = some (some [(1, 0, 3, 3), (2, 3, 6, 3)]) ∧
    (derivedOf (parent.interpGmapPrerepair q p t)).map (fun d => groupMeta d.rows) = some [(1, 0, 2, 2), (2, 2, 5, 3)] ∧
    (derivedOf (parent.interpGmapPrerepair q p t)).map (fun d => errOf (d.interpGenposLit q p)) = some (some Err.value) ∧
    (derivedOf (parent.interpGmap q p t)).map (·.grouped) = some false ∧
    (derivedOf (parent.interpGmap q p t)).map (fun d => errOf (d.interpGenposLit q p)) = some none ∧
    (derivedOf (parent.interpGmap q p t)).map (fun d => (d.interpGenpos q p).1 == some (d.rows.map (some ·.gen)))
      = some true := by
  decide +kernel

/-- the pre-repair `interp_gmap` was harmless exactly when the copied metadata happened to fit: same label array
    as the parent (e.g. the parent's own markers, in stored order) -/
theorem derived_map_metadata_valid_prerepair_partial (m d m' : MapObj α β) (qchr : List Int) (qphy : List α)
    (tags : List β) (hm : Reach m) (h : m.interpGmapPrerepair qchr qphy tags = .ok (some (d, m')))
    (hl : d.rows.map (·.chr) = m'.rows.map (·.chr)) : d.MetaOk := by
  -- the parent after the call is `m` after `interp_genpos` (grouped as a side effect): reachable
  unfold MapObj.interpGmapPrerepair at h
  rw [MapObj.interpGenposLit_of_metaOk hm.metaOk] at h
  cases hi : (m.interpGenpos qchr qphy).1 with
  | none =>
    have : m.interpGenpos qchr qphy = (none, (m.interpGenpos qchr qphy).2) := by rw [← hi]
    rw [this] at h; simp at h
  | some gen =>
    have hpair : m.interpGenpos qchr qphy = (some gen, (m.interpGenpos qchr qphy).2) := by rw [← hi]
    rw [hpair] at h
    simp only at h
    cases hd : derivedRows qchr qphy tags gen with
    | none => rw [hd] at h; simp at h
    | some rows =>
      rw [hd] at h
      simp only [Except.ok.injEq, Option.some.injEq, Prod.mk.injEq] at h
      obtain ⟨hdm, hm1⟩ := h
      have hok' : m'.MetaOk := by rw [← hm1]; exact MapObj.metaOk_interpGenpos hm.metaOk qchr qphy
      intro mt hmt
      rw [← hdm] at hmt
      simp only at hmt
      rw [hm1] at hmt
      rw [hok' mt hmt]
      exact (groupMeta_congr hl).symm

/-- and any later call that re-groups — `group()`, `remove`, `select` — restores valid metadata, whatever the
    object looked like before -/
theorem derived_map_healed_by_regrouping (d : MapObj α β) (idx : List Nat) (mask : List Bool) :
    d.group.MetaOk ∧ (d.remove idx).MetaOk ∧ (d.select idx).MetaOk ∧ (d.selectMask mask).MetaOk :=
  ⟨MapObj.metaOk_group d, MapObj.metaOk_remove d idx, MapObj.metaOk_select d idx, MapObj.metaOk_selectMask d mask⟩

/-- the sequential-distance loop of `gdist1g` on the STORED arrays of any constructed map: the constructor's sort
    makes equal labels contiguous, so the precondition of `gdist1_loop_eq_closed_form_partial` is met — no
    hypothesis on the supplied rows is left -/
theorem gdist1_loop_eq_closed_form_stored (rows : List (Row α β)) (gen : List (Option α))
    (hlen : rows.length ≤ gen.length) :
    gdist1gLit ((construct rows).map (·.chr)) gen = (gdist1g ((construct rows).map (·.chr)) gen).map some := by
  apply gdist1_loop_eq_closed_form_sorted_partial
  · rw [List.length_map, (construct_perm rows).length_eq]; exact hlen
  · rw [List.pairwise_map]
    exact (construct_sorted rows).imp (fun h => rowLe_chr_le h)

/-- **second invariant over operation histories**: every reachable object that reports `is_grouped()` has a sorted
    label array (its rows need not be sorted any more: re-assigned position arrays keep labels and metadata), so
    the sequential-distance loop on the object's OWN label array is the closed form — the documented precondition
    of `gdist1g` ("must be sorted") is met by every grouped map however it was edited -/
theorem reachable_grouped_map_gdist1_loop (m : MapObj α β) (h : Reach m) (hg : m.grouped = true)
    (gen : List (Option α)) (hlen : m.rows.length ≤ gen.length) :
    (m.rows.map (·.chr)).Pairwise (· ≤ ·) ∧
    gdist1gLit (m.rows.map (·.chr)) gen = (gdist1g (m.rows.map (·.chr)) gen).map some := by
  have hs := h.groupedSorted hg
  exact ⟨hs, gdist1_loop_eq_closed_form_sorted_partial _ gen (by rw [List.length_map]; exact hlen) hs⟩

end metadata

-- non-vacuity of `reachable_grouped_map_gdist1_loop`: a reachable GROUPED object whose rows are no longer sorted by
-- physical position (`vrnt_phypos` re-assigned: 10, 20 became 20, 10), labels still sorted
example : ∃ m : MapObj ℚ Unit, Reach m ∧ m.grouped = true ∧ construct m.rows ≠ m.rows :=
  ⟨(MapObj.new [⟨1, 10, 0, ()⟩, ⟨1, 20, 1, ()⟩, ⟨2, 5, 0, ()⟩, ⟨2, 7, 1, ()⟩]).assign
      [⟨1, 20, 0, ()⟩, ⟨1, 10, 1, ()⟩, ⟨2, 5, 0, ()⟩, ⟨2, 7, 1, ()⟩],
    Reach.assign _ (Reach.new _ true true) (by decide +kernel), by decide +kernel, by decide +kernel⟩

-- non-vacuity: a reachable derived map over ℚ that is a valid map
example : ∃ d : MapObj ℚ Unit, Reach d ∧ ValidMap d.rows ∧ d.rows.length = 5 := by
  have hd : (derivedOf ((MapObj.new ([⟨1, 10, 0, ()⟩, ⟨1, 20, 1/8, ()⟩, ⟨1, 30, 1/4, ()⟩, ⟨2, 10, 0, ()⟩,
      ⟨2, 20, 3/8, ()⟩, ⟨2, 30, 1/2, ()⟩] : List (Row ℚ Unit))).interpGmap [1, 1, 2, 2, 2] [12, 25, 11, 15, 28]
        [(), (), (), (), ()])).map (·.rows) =
      some [⟨1, 12, 1/40, ()⟩, ⟨1, 25, 3/16, ()⟩, ⟨2, 11, 3/80, ()⟩, ⟨2, 15, 3/16, ()⟩, ⟨2, 28, 19/40, ()⟩] := by
    decide +kernel
  obtain ⟨d, h1, h2⟩ := Option.map_eq_some_iff.mp hd
  obtain ⟨m', h3⟩ := derivedOf_eq_some h1
  refine ⟨d, Reach.derived _ _ _ (Reach.new _ true true) h3, ?_, by rw [h2]; rfl⟩
  rw [h2]
  unfold ValidMap NoDupPhys nMarkers
  decide +kernel

/-! ## 4. Crossover probabilities of a genotype matrix -/
section xoprob
variable {α β : Type} [Field α] [LinearOrder α] [IsStrictOrderedRing α]

/-- `vrnt_genpos` is the interpolation; `vrnt_xoprob` is one half at the first variant and at every
    chromosome start, and the map function of the difference of consecutive interpolated positions
    elsewhere (NaN where a position is missing) -/
theorem xoprob_def (f : α → α) (rows : List (Row α β)) (qchr : List Int) (qphy : List α) :
    let g := interpGenpos rows qchr qphy
    let out := interpXoprob id f rows qchr qphy
    out.1 = g ∧
    (0 < (qchr.zip g).length → out.2[0]? = some (GDist.fin half)) ∧
    ∀ i, out.2[i + 1]? =
      ((qchr.zip g)[i + 1]?).bind fun c => ((qchr.zip g)[i]?).map fun p =>
        if p.1 = c.1 then mapD f (subPos c.2 p.2) else GDist.fin half := by
  intro g out
  refine ⟨rfl, ?_, ?_⟩
  · intro h
    show (interpXoprob id f rows qchr qphy).2[0]? = _
    rw [interpXoprob_snd, List.getElem?_map, gdist1g_zero _ _ h]
    rfl
  · intro i
    show (interpXoprob id f rows qchr qphy).2[i + 1]? = _
    rw [interpXoprob_snd, List.getElem?_map, gdist1g_succ]
    cases (qchr.zip g)[i + 1]? <;> cases (qchr.zip g)[i]? <;> simp [mapD_seqDist]

/-- the genotype matrix as an object with a history (`group_vrnt()`, then its chromosome labels re-assigned through
    the `vrnt_chrgrp` property, then `interp_xoprob`): the call raises exactly when the object was never grouped, and
    otherwise the result is `interpXoprob` of the labels the object holds AT THE TIME OF THE CALL — whatever start
    indices `group_vrnt()` cached under the earlier labels.  So `xoprob_def` holds with the current labels: one half at
    every index where the CURRENT label differs from its predecessor's, the map function of consecutive interpolated
    distances elsewhere. -/
theorem xoprob_after_relabel (f : α → α) (rows : List (Row α β)) (m : MatObj α) (chr' : List Int) :
    ((m.groupVrnt.relabel chr').interpXoprob id f rows) = some (interpXoprob id f rows chr' m.phy) ∧
    (m.stix = none → ((m.relabel chr').interpXoprob id f rows) = none) ∧
    ∀ i, (interpXoprob id f rows chr' m.phy).2[i + 1]? =
      ((chr'.zip (interpGenpos rows chr' m.phy))[i + 1]?).bind fun c =>
        ((chr'.zip (interpGenpos rows chr' m.phy))[i]?).map fun p =>
          if p.1 = c.1 then mapD f (subPos c.2 p.2) else GDist.fin half := by
  refine ⟨rfl, ?_, (xoprob_def f rows chr' m.phy).2.2⟩
  intro h
  simp [MatObj.interpXoprob, MatObj.relabel, h]

-- non-vacuity: grouped under labels 1, 1, 1, 2 (cached starts 0, 3), relabelled 11, 11, 12, 20 (starts 0, 2, 3)
example : (({ chr := [1, 1, 1, 2], phy := [10, 20, 30, 5], stix := none } : MatObj ℚ).groupVrnt).stix = some [0, 3] ∧
    (((({ chr := [1, 1, 1, 2], phy := [10, 20, 30, 5], stix := none } : MatObj ℚ).groupVrnt).relabel
      [11, 11, 12, 20]).groupVrnt).stix = some [0, 2, 3] := by
  decide +kernel

end xoprob

/- FULL STATEMENT (false of the as-is model, see counterexample):
     ∀ k rows qchr qphy i, ValidMap rows → every entry of (interpXoprob id k.fn rows qchr qphy).2 is
     `fin r` with 0 ≤ r ≤ ½
   The property does not claim it: `interp_xoprob` applies the map function to *signed* consecutive
   differences, so a map that is not congruent (or a matrix that is not sorted by physical position)
   produces negative "probabilities", and variants on absent chromosomes produce NaN. -/

/-- a negative distance is sent to a negative value by both map functions -/
theorem mapfn_negative_distance_counterexample (k : MapKind) : (k.fn : ℝ → ℝ) (-1) < 0 := by
  have := k.fn_strictMono (by norm_num : (-1 : ℝ) < 0)
  rwa [k.fn_zero] at this

/-- on a valid congruent map, for a matrix whose variants are grouped (sorted by chromosome, then by
    physical position) and lie on chromosomes of the map, every crossover probability is a genuine
    probability in [0, ½] — for both map functions -/
theorem xoprob_range_partial {β : Type} (k : MapKind) (rows : List (Row ℝ β)) (hv : ValidMap rows)
    (hc : Congruent rows) (qchr : List Int) (qphy : List ℝ)
    (hpresent : ∀ q ∈ qchr.zip qphy, ∃ r ∈ rows, r.chr = q.1)
    (hsorted : ∀ i a b, (qchr.zip qphy)[i]? = some a → (qchr.zip qphy)[i + 1]? = some b →
        a.1 = b.1 → a.2 ≤ b.2)
    (i : Nat) (hi : i < (qchr.zip qphy).length) :
    ∃ r : ℝ, (interpXoprob id (k.fn : ℝ → ℝ) rows qchr qphy).2[i]? = some (GDist.fin r) ∧
      0 ≤ r ∧ r ≤ 1 / 2 := by
  obtain ⟨-, h0, hs⟩ := xoprob_def (k.fn : ℝ → ℝ) rows qchr qphy
  have hhalf : (half : ℝ) = 1 / 2 := rfl
  have hz := zip_interpGenpos rows qchr qphy
  cases i with
  | zero =>
    refine ⟨1 / 2, ?_, by norm_num, le_rfl⟩
    rw [h0 (by rw [hz, List.length_map]; exact hi), hhalf]
  | succ j =>
    have hj1 : (qchr.zip qphy)[j + 1]? = some (qchr.zip qphy)[j + 1] := List.getElem?_eq_getElem hi
    have hj0 : (qchr.zip qphy)[j]? = some ((qchr.zip qphy)[j]'(by omega)) :=
      List.getElem?_eq_getElem (by omega)
    set b := (qchr.zip qphy)[j + 1] with hb
    set a := (qchr.zip qphy)[j]'(by omega) with ha
    rw [hs j, hz, List.getElem?_map, List.getElem?_map, hj1, hj0]
    simp only [Option.map_some, Option.bind_some]
    by_cases hab : a.1 = b.1
    · rw [if_pos hab]
      have hle : a.2 ≤ b.2 := hsorted j a b hj0 hj1 hab
      obtain ⟨r, hr, hrc⟩ := hpresent b (List.mem_of_getElem? hj1)
      have hm := interpOne_mono hv.1 hc (hv.2 r hr) hle
      rw [hrc] at hm
      obtain ⟨y, y', hy, hy', hyy⟩ := hm
      rw [hab, hy, hy']
      refine ⟨k.fn (y' - y), rfl, k.fn_nonneg (sub_nonneg.mpr hyy), (k.fn_lt_half _).le⟩
    · rw [if_neg hab]
      exact ⟨1 / 2, by rw [hhalf], by norm_num, le_rfl⟩

-- non-vacuity of the hypotheses of `xoprob_range_partial` over ℝ: a congruent two-marker map, two
-- sorted variants on its chromosome
example : ValidMap ([⟨1, 0, 0, ()⟩, ⟨1, 1, 1, ()⟩] : List (Row ℝ Unit)) ∧
    Congruent ([⟨1, 0, 0, ()⟩, ⟨1, 1, 1, ()⟩] : List (Row ℝ Unit)) := by
  refine ⟨⟨?_, ?_⟩, ?_⟩
  · simp [NoDupPhys]
  · intro r hr
    simp only [List.mem_cons, List.not_mem_nil, or_false] at hr
    rcases hr with rfl | rfl <;> simp [nMarkers]
  · intro a ha b hb _ hlt
    simp only [List.mem_cons, List.not_mem_nil, or_false] at ha hb
    rcases ha with rfl | rfl <;> rcases hb with rfl | rfl <;> first | (show (_ : ℝ) ≤ _; norm_num; done) | (exfalso; norm_num at hlt)

/-! each of the three hypotheses of `xoprob_range_partial` is needed: dropping any one of them, the as-is
    `interp_xoprob` assigns a value that is not a probability in [0, ½] — for both map functions -/

/-- a valid map that is NOT congruent (genetic position 1 at physical position 0, 0 at 1), two sorted variants on
    its markers: the second "probability" is the map function of −1, a negative number -/
theorem xoprob_range_not_congruent_counterexample (k : MapKind) :
    ∃ r : ℝ, (interpXoprob id (k.fn : ℝ → ℝ) ([⟨1, 0, 1, ()⟩, ⟨1, 1, 0, ()⟩] : List (Row ℝ Unit)) [1, 1] [0, 1]).2[1]?
      = some (GDist.fin r) ∧ r < 0 := by
  have hv : ValidMap ([⟨1, 0, 1, ()⟩, ⟨1, 1, 0, ()⟩] : List (Row ℝ Unit)) := by
    refine ⟨by simp [NoDupPhys], ?_⟩
    intro r hr
    simp only [List.mem_cons, List.not_mem_nil, or_false] at hr
    rcases hr with rfl | rfl <;> simp [nMarkers]
  have h0 := interp_at_own_markers _ hv ⟨1, 0, 1, ()⟩ (by simp)
  have h1 := interp_at_own_markers _ hv ⟨1, 1, 0, ()⟩ (by simp)
  simp only at h0 h1
  obtain ⟨-, -, hs⟩ := xoprob_def (k.fn : ℝ → ℝ) ([⟨1, 0, 1, ()⟩, ⟨1, 1, 0, ()⟩] : List (Row ℝ Unit)) [1, 1] [0, 1]
  refine ⟨k.fn (0 - 1), ?_, ?_⟩
  · rw [hs 0, zip_interpGenpos]
    simp [h0, h1, subPos, mapD]
  · have := mapfn_negative_distance_counterexample k
    norm_num at this ⊢
    exact this

/-- a congruent valid map, but the variants NOT sorted by physical position (1 before 0): same negative value -/
theorem xoprob_range_unsorted_variants_counterexample (k : MapKind) :
    ∃ r : ℝ, (interpXoprob id (k.fn : ℝ → ℝ) ([⟨1, 0, 0, ()⟩, ⟨1, 1, 1, ()⟩] : List (Row ℝ Unit)) [1, 1] [1, 0]).2[1]?
      = some (GDist.fin r) ∧ r < 0 := by
  have hv : ValidMap ([⟨1, 0, 0, ()⟩, ⟨1, 1, 1, ()⟩] : List (Row ℝ Unit)) := by
    refine ⟨by simp [NoDupPhys], ?_⟩
    intro r hr
    simp only [List.mem_cons, List.not_mem_nil, or_false] at hr
    rcases hr with rfl | rfl <;> simp [nMarkers]
  have h0 := interp_at_own_markers _ hv ⟨1, 0, 0, ()⟩ (by simp)
  have h1 := interp_at_own_markers _ hv ⟨1, 1, 1, ()⟩ (by simp)
  simp only at h0 h1
  obtain ⟨-, -, hs⟩ := xoprob_def (k.fn : ℝ → ℝ) ([⟨1, 0, 0, ()⟩, ⟨1, 1, 1, ()⟩] : List (Row ℝ Unit)) [1, 1] [1, 0]
  refine ⟨k.fn (0 - 1), ?_, ?_⟩
  · rw [hs 0, zip_interpGenpos]
    simp [h0, h1, subPos, mapD]
  · have := mapfn_negative_distance_counterexample k
    norm_num at this ⊢
    exact this

/-- variants on a chromosome ABSENT from the map: the value is NaN, not a probability -/
theorem xoprob_range_absent_chromosome_counterexample (f : ℝ → ℝ) :
    (interpXoprob id f ([⟨1, 0, 0, ()⟩, ⟨1, 1, 1, ()⟩] : List (Row ℝ Unit)) [2, 2] [0, 1]).2[1]? = some GDist.nan := by
  have ha : ∀ x : ℝ, interpOne ([⟨1, 0, 0, ()⟩, ⟨1, 1, 1, ()⟩] : List (Row ℝ Unit)) 2 x = none := by
    intro x
    apply interpOne_absent
    intro r hr
    simp only [List.mem_cons, List.not_mem_nil, or_false] at hr
    rcases hr with rfl | rfl <;> simp
  obtain ⟨-, -, hs⟩ := xoprob_def f ([⟨1, 0, 0, ()⟩, ⟨1, 1, 1, ()⟩] : List (Row ℝ Unit)) [2, 2] [0, 1]
  rw [hs 0, zip_interpGenpos]
  simp [ha, subPos, mapD]

/-! ## 4b. Both genetic-map classes

Every definition and theorem above is generic in the type `β` of the columns that ride along with a marker.
`StandardGeneticMap` is `β = Unit`; `ExtendedGeneticMap` is `β = ExtCols` (`vrnt_stop`, `vrnt_name`,
`vrnt_fncode`, the last two possibly `None`): its `reorder` / `remove` / `select` apply the same index array to
every column, which is what moving whole `Row`s models.  The bundle below is stated once and instantiated for
both classes. -/
section classes
variable {α β : Type} [Field α] [LinearOrder α] [IsStrictOrderedRing α]

/-- the interpolation clause, the constructor clause and the editing closure for a map class with riding
    columns `β` (the statement is `MapClassLaws` in Lemmas/GMapMeta) -/
theorem map_class_laws (rows : List (Row α β)) (hv : ValidMap rows) : MapClassLaws rows :=
  ⟨fun r hr => interp_at_own_markers rows hv r hr,
   fun a ha b hb hab x h0 h1 hf => interp_linear_between rows hv a b ha hb hab x h0 h1 hf,
   fun c x => interp_missing_iff_absent rows hv c x,
   fun hc r hr x x' hx => interp_order_preserving rows hv hc r hr x x' hx,
   fun rows' hp => ⟨fun qchr qphy => interp_order_independent rows rows' hp hv qchr qphy,
     (construct_order_independent_valid rows rows' hp hv).1⟩,
   ⟨construct_perm rows, fun gen hl => gdist1_loop_eq_closed_form_stored rows gen hl⟩,
   fun m hm => ⟨hm.metaOk, fun qchr qphy => (reachable_map_closed_forms m hm qchr qphy).1⟩⟩

/-- `StandardGeneticMap` -/
theorem standard_map_laws (rows : List (StdRow α)) (hv : ValidMap rows) : MapClassLaws rows :=
  map_class_laws rows hv

/-- `ExtendedGeneticMap` (stop / name / fncode ride along) -/
theorem extended_map_laws (rows : List (ExtRow α)) (hv : ValidMap rows) : MapClassLaws rows :=
  map_class_laws rows hv

/-- **closure of the laws under `interp_gmap`**: the map derived from a reachable map is reachable, so the methods
    as written never raise on it and are their closed forms; `interp_gmap` itself never raises on a reachable
    parent; after `build_spline()` the derived map answers from ITS OWN arrays, and when these form a valid map
    it returns its stored positions at its own markers — through the methods as written -/
theorem derived_map_laws (m d m' : MapObj α β) (hm : Reach m) (qchr : List Int) (qphy : List α) (tags : List β)
    (h : m.interpGmap qchr qphy tags = .ok (some (d, m'))) :
    Reach d ∧ Reach m' ∧
    (∀ q p, d.interpGenposLit q p = .ok (d.interpGenpos q p)) ∧
    d.removeDiscrepanciesLit = .ok d.removeDiscrepancies ∧
    (∀ q p, (d.buildSpline.interpGenposLit q p).map Prod.fst = .ok (some (interpGenpos d.rows q p))) ∧
    (ValidMap d.rows → MapClassLaws d.rows ∧ ∀ r ∈ d.rows,
        (d.buildSpline.interpGenposLit [r.chr] [r.phy]).map Prod.fst = .ok (some [some r.gen])) := by
  have hd : Reach d := Reach.derived qchr qphy tags hm h
  have hm' : Reach m' := by
    have := MapObj.interpGmap_parent hm.metaOk h
    rw [this]
    exact Reach.interpGenpos qchr qphy hm
  refine ⟨hd, hm', fun q p => (reachable_map_closed_forms d hd q p).1, (reachable_map_closed_forms d hd [] []).2.1,
    fun q p => (reachable_map_closed_forms d hd q p).2.2, ?_⟩
  intro hv
  exact ⟨map_class_laws d.rows hv, fun r hr => reachable_map_own_markers d hd hv r hr⟩

end classes

-- non-vacuity for the extended class: a shuffled map with names on some rows only; the constructor moves the
-- columns with their markers
example : ValidMap ([⟨1, 30, 1/2, ⟨37, some "m0", none⟩⟩, ⟨1, 10, 1/8, ⟨17, none, some "H"⟩⟩] : List (ExtRow ℚ)) ∧
    construct ([⟨1, 30, 1/2, ⟨37, some "m0", none⟩⟩, ⟨1, 10, 1/8, ⟨17, none, some "H"⟩⟩] : List (ExtRow ℚ)) =
      [⟨1, 10, 1/8, ⟨17, none, some "H"⟩⟩, ⟨1, 30, 1/2, ⟨37, some "m0", none⟩⟩] := by
  constructor
  · unfold ValidMap NoDupPhys nMarkers; decide +kernel
  · decide +kernel

/-! ## 5. The Spec oracles of the check (Model/GMapSpec.lean) versus the theorems

The driver evaluates `Spec.specInterp` / `Spec.specGdist` on the IMPLEMENTATION's outputs.  The theorems
below tie these Bool functions to the property theorems in both directions: they never reject what the
proved model computes (no false alarm from the oracle itself), and whatever they accept at zero tolerance
satisfies the conclusions of the theorems.  `specXoprob` is generic in the scalar type the map function is
evaluated in (`Float` in the driver) and accepts the model's output for every such type; `specMapfn` is read as
a proposition (`MapfnLaw`).  What stays outside proof is `Float.exp/log/tanh` themselves (compared with libm on
every run) — the `self` verdict of every Spec op re-checks the oracle against the model's output per case. -/
section oracles
open GMap.Spec

/-- the interpolation oracle accepts the model's answers for every valid map, every other supplied row
    order, every query array — at the float tolerance and at zero tolerance alike -/
theorem spec_interp_accepts_model (t : Tol) (ht : 0 ≤ t.abs_) (rows rows' : List (Row ℚ Int))
    (hp : rows.Perm rows') (hv : ValidMap rows) (qchr : List Int) (qphy : List ℚ)
    (hl : qphy.length = qchr.length) :
    (specInterp rows qchr qphy (interpGenpos rows qchr qphy) (interpGenpos rows' qchr qphy) t).1 = true :=
  specInterp_accepts_model t ht rows rows' hp hv qchr qphy hl

/-- an output accepted at zero tolerance: same for both row orders; own markers return the stored
    position; strictly between flanking markers the chord; missing exactly on absent chromosomes -/
theorem spec_interp_exact_sound (rows : List (Row ℚ Int)) (qchr : List Int) (qphy : List ℚ)
    (out out2 : List (Option ℚ)) (h : (specInterp rows qchr qphy out out2 Tol.zero).1 = true) :
    out.length = qchr.length ∧ out = out2 ∧ ∀ p ∈ queries qchr qphy out, QueryLaw rows p :=
  specInterp_exact_sound rows qchr qphy out out2 h

/-- hence it coincides with the model wherever the property determines the answer -/
theorem spec_interp_exact_agrees_with_model (rows : List (Row ℚ Int)) (hv : ValidMap rows) (p : Query)
    (hlaw : QueryLaw rows p) :
    ((∃ r ∈ rows, r.chr = p.1 ∧ r.phy = p.2.1) → p.2.2 = interpOne rows p.1 p.2.1) ∧
    ((∃ a ∈ rows, ∃ b ∈ rows, a.chr = p.1 ∧ b.chr = p.1 ∧ a.phy < p.2.1 ∧ p.2.1 < b.phy ∧
        ∀ m ∈ rows, m.chr = p.1 → ¬ (a.phy < m.phy ∧ m.phy < b.phy)) → p.2.2 = interpOne rows p.1 p.2.1) ∧
    ((∀ r ∈ rows, r.chr ≠ p.1) → p.2.2 = interpOne rows p.1 p.2.1) :=
  specInterp_exact_agrees_with_model rows hv p hlaw

/-- the oracle used for the other spline kinds (`previous`, `next`, `zero`, `nearest`, quadratic, cubic: own
    markers, missing chromosomes, row-order independence) asks a subset of `specInterp`: it accepts whatever
    `specInterp` accepts, in particular the linear model's answers on every valid map -/
theorem spec_interp_any_kind_weaker (rows : List (Row ℚ Int)) (qchr : List Int) (qphy : List ℚ)
    (out out2 : List (Option ℚ)) (oneSided : Bool) (t : Tol)
    (h : (specInterp rows qchr qphy out out2 t).1 = true) :
    (specInterpAnyKind rows qchr qphy out out2 oneSided t).1 = true :=
  specInterpAnyKind_of_specInterp rows qchr qphy out out2 oneSided t h

/-- the distance oracle accepts the model's `gdist1g` / `gdist2g` on every input -/
theorem spec_gdist_accepts_model (t : Tol) (ht : 0 ≤ t.abs_) (chr : List Int) (gen : List (Option ℚ))
    (hl : gen.length = chr.length) :
    (specGdist chr gen (some (gdist1g chr gen)) (gdist2g chr gen) t).1 = true :=
  specGdist_accepts_model t ht chr gen hl

/-- arrays accepted at zero tolerance carry the model's pairwise entry wherever chromosomes differ or both
    positions are known, +∞ at every chromosome start, and the model's sequential entry for ordered
    adjacent markers -/
theorem spec_gdist_exact_sound (chr : List Int) (gen : List (Option ℚ)) (d1 : List (GDist ℚ))
    (d2 : List (List (GDist ℚ))) (hl : gen.length = chr.length)
    (h : (specGdist chr gen (some d1) d2 Tol.zero).1 = true) :
    (∀ i < chr.length, ∀ j < chr.length,
        (lab chr i ≠ lab chr j ∨ (known gen i = true ∧ known gen j = true)) →
        ent d2 i j = ent (gdist2g chr gen) i j) ∧
    (∀ i < chr.length, isStart chr i = true → seqAt d1 i = seqAt (gdist1g chr gen) i) ∧
    (∀ k, k + 1 < chr.length → isStart chr (k + 1) = false → known gen k = true → known gen (k + 1) = true →
        valAt gen k ≤ valAt gen (k + 1) → seqAt d1 (k + 1) = seqAt (gdist1g chr gen) (k + 1)) :=
  specGdist_exact_sound chr gen d1 d2 hl h

/-- the crossover-probability oracle accepts the model's `interp_xoprob` on every valid map and variant array,
    whatever the scalar type `γ` the map function is evaluated in (the driver: `Float`), whatever the function:
    no property of floating point is used -/
theorem spec_xoprob_accepts_model {γ : Type} [Div γ] [OfNat γ 1] [OfNat γ 2] (cast : ℚ → γ) (f : γ → γ)
    (back : GDist γ → GDist ℚ) (hnan : back .nan = .nan) (hhalf : back (.fin half) = .fin (1 / 2))
    (t : Tol) (ht : 0 ≤ t.abs_) (rows : List (Row ℚ Int)) (hv : ValidMap rows) (qchr : List Int) (qphy : List ℚ)
    (hl : qphy.length = qchr.length) :
    (specXoprob cast f back rows qchr qphy (interpXoprob cast f rows qchr qphy).1
      ((interpXoprob cast f rows qchr qphy).2.map back) t).1 = true :=
  specXoprob_accepts_model cast f back hnan hhalf t ht rows hv qchr qphy hl

/-- the map-function oracle read as a proposition: it accepts `r = mapfn(d)`, `dinv = invmapfn(r)` exactly when
    zero goes to zero, infinity to one half, every value lies in [0, ½], the values are monotone in the distances
    and the inverse returns every distance to the proven conditioning of the round trip (`InvOk`: tolerance
    `invTol`, nothing once binary64 cannot resolve `1 − 2r`) -/
theorem spec_mapfn_iff (kappa : Nat) (d r dinv : List (GDist ℚ)) :
    (specMapfn kappa d r dinv).1 = true ↔ MapfnLaw kappa d r dinv :=
  specMapfn_iff kappa d r dinv

end oracles

-- non-vacuity: the identity instance (γ = ℚ) of the crossover-probability oracle meets its hypotheses, and the
-- map-function oracle accepts an exact table of the piecewise-linear "map function" min(d, ½) with a true inverse
example : (id (GDist.nan : GDist ℚ) = GDist.nan) ∧ id (GDist.fin (half : ℚ)) = GDist.fin (1 / 2) := ⟨rfl, rfl⟩
example : (GMap.Spec.specMapfn 2 [.fin 0, .fin (1/4), .inf] [.fin 0, .fin (1/4), .fin (1/2)] [.fin 0, .fin (1/4), .inf]).1
    = true := by decide +kernel

-- non-vacuity: the oracle really evaluates (kernel) on the shuffled two-chromosome map used above, and it
-- rejects an answer that is off by 1/8 at one query
example : (GMap.Spec.specInterp [⟨2, 10, 0, 0⟩, ⟨1, 30, 1/2, 1⟩, ⟨1, 10, 1/8, 2⟩, ⟨2, 40, 7/8, 3⟩, ⟨1, 20, 1/4, 4⟩,
    ⟨2, 20, 3/8, 5⟩] [1, 1, 2, 3] [20, 15, 5, 7] [some (1/4), some (3/16), some (-3/16), none]
    [some (1/4), some (3/16), some (-3/16), none] GMap.Spec.Tol.zero).1 = true := by decide +kernel
example : (GMap.Spec.specInterp [⟨2, 10, 0, 0⟩, ⟨1, 30, 1/2, 1⟩, ⟨1, 10, 1/8, 2⟩, ⟨2, 40, 7/8, 3⟩, ⟨1, 20, 1/4, 4⟩,
    ⟨2, 20, 3/8, 5⟩] [1, 1, 2, 3] [20, 15, 5, 7] [some (1/4), some (5/16), some (-3/16), none]
    [some (1/4), some (5/16), some (-3/16), none]).1 = false := by decide +kernel

end C11
